/-
  FtProofs.ForestLemmas — helper lemmas for C03 (package PB).

  Layers
  1. the "graph view" `G s = (nt s, edgeList s)` (node ids with times, edge list): `Forest`
     depends on nothing else (`forest_iff`), `ForestL` is `Forest` over plain lists;
  2. everything that only relabels / measures / does bookkeeping preserves `G`;
  3. per-primitive effect on `G`, list-level preservation lemmas for `ForestL`;
  4. the user actions.
-/
import FtProofs.SessionSpec
open List
namespace Ft
namespace St

/-! ### 1. graph view -/

def nt (s : St) : List (Node × Nat) := s.nodes.map (fun r => (r.id, r.time))
def G (s : St) : List (Node × Nat) × List Edge := (s.nt, s.edgeList)
def tlook (l : List (Node × Nat)) (n : Node) : Option Nat := (l.find? (·.1 == n)).map (·.2)

theorem ids_eq_nt (s : St) : s.ids = s.nt.map (·.1) := by
  simp [ids, nt, List.map_map, Function.comp_def]
theorem timeOf_eq_nt (s : St) (n : Node) : s.timeOf n = tlook s.nt n := by
  simp [timeOf, findNode, tlook, nt, List.find?_map, Function.comp_def, Option.map_map]
theorem indeg_eq (s : St) (v : Node) : s.indeg v = (s.edgeList.filter (·.2 == v)).length := by
  simp [indeg, preds, edgeList, List.filter_map, Function.comp_def]
theorem outdeg_eq (s : St) (v : Node) : s.outdeg v = (s.edgeList.filter (·.1 == v)).length := by
  simp [outdeg, succs, edgeList, List.filter_map, Function.comp_def]
theorem succs_eq (s : St) (u : Node) : s.succs u = (s.edgeList.filter (·.1 == u)).map (·.2) := by
  simp [succs, edgeList, List.filter_map, Function.comp_def]
theorem preds_eq (s : St) (u : Node) : s.preds u = (s.edgeList.filter (·.2 == u)).map (·.1) := by
  simp [preds, edgeList, List.filter_map, Function.comp_def]
theorem hasNode_iff (s : St) (n : Node) : s.hasNode n = true ↔ n ∈ s.ids := by
  simp [hasNode, findNode, ids, List.find?_isSome]
theorem hasEdge_iff (s : St) (e : Edge) : s.hasEdge e = true ↔ e ∈ s.edgeList := by
  simp [hasEdge, edgeList]

theorem G_nt {s t : St} (h : G t = G s) : t.nt = s.nt := congrArg Prod.fst h
theorem G_es {s t : St} (h : G t = G s) : t.edgeList = s.edgeList := congrArg Prod.snd h
theorem G_nt' {t : St} {a : List (Node × Nat)} {b : List Edge} (h : G t = (a, b)) : t.nt = a :=
  congrArg Prod.fst h
theorem G_es' {t : St} {a : List (Node × Nat)} {b : List Edge} (h : G t = (a, b)) : t.edgeList = b :=
  congrArg Prod.snd h
theorem G_ids {s t : St} (h : G t = G s) : t.ids = s.ids := by rw [ids_eq_nt, ids_eq_nt, G_nt h]
theorem G_timeOf {s t : St} (h : G t = G s) (n : Node) : t.timeOf n = s.timeOf n := by
  rw [timeOf_eq_nt, timeOf_eq_nt, G_nt h]
theorem G_indeg {s t : St} (h : G t = G s) (n : Node) : t.indeg n = s.indeg n := by
  rw [indeg_eq, indeg_eq, G_es h]
theorem G_outdeg {s t : St} (h : G t = G s) (n : Node) : t.outdeg n = s.outdeg n := by
  rw [outdeg_eq, outdeg_eq, G_es h]
theorem G_succs {s t : St} (h : G t = G s) (n : Node) : t.succs n = s.succs n := by
  rw [succs_eq, succs_eq, G_es h]
theorem G_preds {s t : St} (h : G t = G s) (n : Node) : t.preds n = s.preds n := by
  rw [preds_eq, preds_eq, G_es h]
theorem G_hasNode {s t : St} (h : G t = G s) (n : Node) : t.hasNode n = s.hasNode n := by
  rw [Bool.eq_iff_iff, hasNode_iff, hasNode_iff, G_ids h]
theorem G_hasEdge {s t : St} (h : G t = G s) (e : Edge) : t.hasEdge e = s.hasEdge e := by
  rw [Bool.eq_iff_iff, hasEdge_iff, hasEdge_iff, G_es h]

/-- `Forest` over plain lists -/
structure ForestL (nt : List (Node × Nat)) (es : List Edge) : Prop where
  nodup_nodes : (nt.map (·.1)).Nodup
  nodup_edges : es.Nodup
  src_mem : ∀ e ∈ es, e.1 ∈ nt.map (·.1)
  dst_mem : ∀ e ∈ es, e.2 ∈ nt.map (·.1)
  forward : ∀ e ∈ es, ∀ t1 t2, tlook nt e.1 = some t1 → tlook nt e.2 = some t2 → t1 < t2
  indeg_le : ∀ v, (es.filter (·.2 == v)).length ≤ 1
  outdeg_le : ∀ u, (es.filter (·.1 == u)).length ≤ 2

theorem forest_iff (s : St) : Forest s ↔ ForestL s.nt s.edgeList := by
  constructor
  · intro h
    refine ⟨?_, h.nodup_edges, ?_, ?_, ?_, ?_, ?_⟩
    · rw [← ids_eq_nt]; exact h.nodup_nodes
    · rw [← ids_eq_nt]; exact h.src_mem
    · rw [← ids_eq_nt]; exact h.dst_mem
    · intro e he t1 t2; rw [← timeOf_eq_nt, ← timeOf_eq_nt]; exact h.forward e he t1 t2
    · intro v; rw [← indeg_eq]; exact h.indeg_le v
    · intro v; rw [← outdeg_eq]; exact h.outdeg_le v
  · intro h
    refine ⟨?_, h.nodup_edges, ?_, ?_, ?_, ?_, ?_⟩
    · rw [ids_eq_nt]; exact h.nodup_nodes
    · rw [ids_eq_nt]; exact h.src_mem
    · rw [ids_eq_nt]; exact h.dst_mem
    · intro e he t1 t2; rw [timeOf_eq_nt, timeOf_eq_nt]; exact h.forward e he t1 t2
    · intro v; rw [indeg_eq]; exact h.indeg_le v
    · intro v; rw [outdeg_eq]; exact h.outdeg_le v

theorem forest_congr {s t : St} (h : G t = G s) (hf : Forest s) : Forest t := by
  rw [forest_iff] at *; rw [G_nt h, G_es h]; exact hf

/-! ### list-level preservation -/

theorem tlook_mem {l : List (Node × Nat)} {n : Node} {t : Nat} (h : tlook l n = some t) :
    (n, t) ∈ l := by
  unfold tlook at h
  rcases hf : l.find? (·.1 == n) with _ | ⟨a, b⟩
  · simp [hf] at h
  · simp [hf] at h
    have h1 := List.find?_some hf
    have h2 := List.mem_of_find?_eq_some hf
    simp at h1; subst h1; subst h; exact h2

theorem tlook_isSome {l : List (Node × Nat)} {n : Node} (h : n ∈ l.map (·.1)) :
    ∃ t, tlook l n = some t := by
  unfold tlook
  rcases hf : l.find? (·.1 == n) with _ | ⟨a, b⟩
  · rw [List.find?_eq_none] at hf
    obtain ⟨x, hx, hxn⟩ := List.mem_map.mp h
    exact absurd (by simpa using hxn) (hf x hx)
  · exact ⟨b, by simp [hf]⟩

theorem ForestL.sublist {nt : List (Node × Nat)} {es es' : List Edge}
    (hf : ForestL nt es) (hs : es'.Sublist es) : ForestL nt es' where
  nodup_nodes := hf.nodup_nodes
  nodup_edges := hf.nodup_edges.sublist hs
  src_mem := fun e he => hf.src_mem e (hs.subset he)
  dst_mem := fun e he => hf.dst_mem e (hs.subset he)
  forward := fun e he => hf.forward e (hs.subset he)
  indeg_le := fun v => Nat.le_trans (hs.filter _).length_le (hf.indeg_le v)
  outdeg_le := fun v => Nat.le_trans (hs.filter _).length_le (hf.outdeg_le v)

theorem ForestL.addEdge {nt : List (Node × Nat)} {es : List Edge} {u v : Node}
    (hf : ForestL nt es) (hu : u ∈ nt.map (·.1)) (hv : v ∈ nt.map (·.1))
    (ht : ∀ t1 t2, tlook nt u = some t1 → tlook nt v = some t2 → t1 < t2)
    (hin : (es.filter (·.2 == v)).length = 0) (hout : (es.filter (·.1 == u)).length ≤ 1) :
    ForestL nt (es ++ [(u, v)]) where
  nodup_nodes := hf.nodup_nodes
  nodup_edges := by
    rw [List.nodup_append]
    refine ⟨hf.nodup_edges, by simp, ?_⟩
    intro a ha b hb
    simp at hb; subst hb
    intro hab; subst hab
    have : (u, v) ∈ es.filter (·.2 == v) := by simp [ha]
    rw [List.length_eq_zero_iff] at hin
    rw [hin] at this; simp at this
  src_mem := by
    intro e he; rcases List.mem_append.mp he with h | h
    · exact hf.src_mem e h
    · simp at h; subst h; exact hu
  dst_mem := by
    intro e he; rcases List.mem_append.mp he with h | h
    · exact hf.dst_mem e h
    · simp at h; subst h; exact hv
  forward := by
    intro e he; rcases List.mem_append.mp he with h | h
    · exact hf.forward e h
    · simp at h; subst h; exact ht
  indeg_le := by
    intro w
    rw [List.filter_append, List.length_append]
    by_cases hw : v = w
    · subst hw; simp [hin]
    · have := hf.indeg_le w; simp [hw]; omega
  outdeg_le := by
    intro w
    rw [List.filter_append, List.length_append]
    by_cases hw : u = w
    · subst hw; simp; omega
    · have := hf.outdeg_le w; simp [hw]; omega


theorem tlook_append_of_mem {l : List (Node × Nat)} {m : Node} (x : Node × Nat)
    (h : m ∈ l.map (·.1)) : tlook (l ++ [x]) m = tlook l m := by
  obtain ⟨t, ht⟩ := tlook_isSome h
  unfold tlook at *
  rw [List.find?_append]
  rcases hf : l.find? (·.1 == m) with _ | y
  · simp [hf] at ht
  · simp [hf]

theorem tlook_filter_ne {l : List (Node × Nat)} {m n : Node} (h : m ≠ n) :
    tlook (l.filter (·.1 != n)) m = tlook l m := by
  unfold tlook
  induction l with
  | nil => rfl
  | cons a r ih =>
    by_cases ha : a.1 = n
    · have h1 : (a.1 != n) = false := by simp [ha]
      have h2 : (a.1 == m) = false := by simp [ha]; exact fun h' => h h'.symm
      rw [List.filter_cons, h1, List.find?_cons, h2]; simpa using ih
    · have h1 : (a.1 != n) = true := by simp [ha]
      rw [List.filter_cons, h1]
      simp only [if_true, List.find?_cons]
      cases hc : a.1 == m
      · simpa using ih
      · simp

theorem ForestL.addNode {nt : List (Node × Nat)} {es : List Edge} {n t : Nat}
    (hf : ForestL nt es) (hn : n ∉ nt.map (·.1)) : ForestL (nt ++ [(n, t)]) es where
  nodup_nodes := by
    rw [List.map_append, List.nodup_append]
    refine ⟨hf.nodup_nodes, by simp, ?_⟩
    intro a ha b hb; simp at hb; subst hb; intro hab; subst hab; exact hn ha
  nodup_edges := hf.nodup_edges
  src_mem := fun e he => by rw [List.map_append]; exact List.mem_append_left _ (hf.src_mem e he)
  dst_mem := fun e he => by rw [List.map_append]; exact List.mem_append_left _ (hf.dst_mem e he)
  forward := fun e he t1 t2 => by
    rw [tlook_append_of_mem _ (hf.src_mem e he), tlook_append_of_mem _ (hf.dst_mem e he)]
    exact hf.forward e he t1 t2
  indeg_le := hf.indeg_le
  outdeg_le := hf.outdeg_le

theorem ForestL.delNode {nt : List (Node × Nat)} {es : List Edge} (n : Node)
    (hf : ForestL nt es) :
    ForestL (nt.filter (·.1 != n)) (es.filter (fun e => e.1 != n && e.2 != n)) where
  nodup_nodes := hf.nodup_nodes.sublist ((List.filter_sublist).map _)
  nodup_edges := hf.nodup_edges.sublist List.filter_sublist
  src_mem := fun e he => by
    rw [List.mem_filter] at he
    obtain ⟨x, hx, hxe⟩ := List.mem_map.mp (hf.src_mem e he.1)
    refine List.mem_map.mpr ⟨x, List.mem_filter.mpr ⟨hx, ?_⟩, hxe⟩
    have := he.2; simp at this; simp [hxe, this.1]
  dst_mem := fun e he => by
    rw [List.mem_filter] at he
    obtain ⟨x, hx, hxe⟩ := List.mem_map.mp (hf.dst_mem e he.1)
    refine List.mem_map.mpr ⟨x, List.mem_filter.mpr ⟨hx, ?_⟩, hxe⟩
    have := he.2; simp at this; simp [hxe, this.2]
  forward := fun e he t1 t2 => by
    rw [List.mem_filter] at he
    have := he.2; simp at this
    rw [tlook_filter_ne this.1, tlook_filter_ne this.2]
    exact hf.forward e he.1 t1 t2
  indeg_le := fun v => Nat.le_trans ((List.filter_sublist).filter _).length_le (hf.indeg_le v)
  outdeg_le := fun v => Nat.le_trans ((List.filter_sublist).filter _).length_le (hf.outdeg_le v)


/-! ### 2. operations that leave the graph view alone -/

theorem G_updNode (s : St) (n : Node) (f : NodeRec → NodeRec)
    (hid : ∀ r, (f r).id = r.id) (htime : ∀ r, (f r).time = r.time) : G (s.updNode n f) = G s := by
  unfold G nt edgeList updNode
  simp only [List.map_map]
  congr 1
  apply List.map_congr_left
  intro r _
  simp only [Function.comp]
  split <;> simp [hid, htime]

@[simp] theorem G_setTid (s : St) (n : Node) (t : Nat) : G (s.setTid n t) = G s :=
  G_updNode s n _ (fun _ => rfl) (fun _ => rfl)
@[simp] theorem G_setLin (s : St) (n : Node) (l : Option Nat) : G (s.setLin n l) = G s :=
  G_updNode s n _ (fun _ => rfl) (fun _ => rfl)
@[simp] theorem G_setOther (s : St) (n : Node) (k : Key) (v : Val) : G (s.setOther n k v) = G s :=
  G_updNode s n _ (fun _ => rfl) (fun _ => rfl)

@[simp] theorem G_setEdgeAttr (s : St) (e : Edge) (k : Key) (v : Val) :
    G (s.setEdgeAttr e k v) = G s := by
  unfold G nt edgeList setEdgeAttr
  simp only [List.map_map]
  congr 1
  apply List.map_congr_left
  intro r _
  simp only [Function.comp]
  split <;> rfl

@[simp] theorem G_bookAddT (s : St) (ns : List Node) (id : Nat) : G (s.bookAddT ns id) = G s := rfl
@[simp] theorem G_bookRemT (s : St) (ns : List Node) (id : Nat) : G (s.bookRemT ns id) = G s := rfl
@[simp] theorem G_bookAddL (s : St) (ns : List Node) (id : Nat) : G (s.bookAddL ns id) = G s := rfl
@[simp] theorem G_bookRemL (s : St) (ns : List Node) (id : Nat) : G (s.bookRemL ns id) = G s := rfl
@[simp] theorem G_bookMoveT (s : St) (ns : List Node) (o n : Nat) : G (s.bookMoveT ns o n) = G s := rfl
@[simp] theorem G_bookMoveL (s : St) (ns : List Node) (o : Option Nat) (n : Nat) :
    G (s.bookMoveL ns o n) = G s := by
  cases o <;> rfl

theorem G_walkNode (old new : Nat) (nl : Option Nat) (ul : Bool) (a : WalkAcc) (n : Node) :
    G (walkNode old new nl ul a n).s = G a.s := by
  unfold walkNode
  cases ul <;> simp only [if_true, Bool.false_eq_true, if_false] <;>
    (split <;> (try split) <;> simp)

theorem G_walkFold (old new : Nat) (nl : Option Nat) (ul : Bool) (l : List Node) (a : WalkAcc) :
    G (l.foldl (walkNode old new nl ul) a).s = G a.s := by
  induction l generalizing a with
  | nil => rfl
  | cons x r ih => rw [List.foldl_cons, ih, G_walkNode]

theorem G_walkLevels (old new : Nat) (nl : Option Nat) (ul : Bool) (fuel : Nat) (a : WalkAcc) :
    G (walkLevels old new nl ul fuel a).s = G a.s := by
  induction fuel generalizing a with
  | zero => rfl
  | succ f ih =>
    unfold walkLevels
    split
    · rfl
    · rw [ih, G_walkFold]

@[simp] theorem G_walk (s : St) (start : Node) (oT nT : Nat) (oL nL : Option Nat) :
    G (s.walk start oT nT oL nL) = G s := by
  unfold walk
  simp only []
  split <;> simp [G_walkLevels]

@[simp] theorem G_trackNeighbors (s : St) (tid time : Nat) : G (s.trackNeighbors tid time).1 = G s := by
  unfold trackNeighbors
  split <;> rfl

@[simp] theorem G_trackOnAdd (s : St) (r : NodeRec) : G (s.trackOnAdd r) = G s := by
  unfold trackOnAdd; simp only []; split <;> rfl
@[simp] theorem G_trackOnDelete (s : St) (r : NodeRec) : G (s.trackOnDelete r) = G s := by
  unfold trackOnDelete; simp only []; split <;> rfl

theorem G_foldl_setOther (n : Node) (v : Val) (ks : List Key) (s : St) :
    G (ks.foldl (fun st k => st.setOther n k v) s) = G s := by
  induction ks generalizing s with
  | nil => rfl
  | cons k r ih => rw [List.foldl_cons, ih, G_setOther]

@[simp] theorem G_rpUpdate (s : St) (n : Node) : G (s.rpUpdate n) = G s := by
  unfold rpUpdate
  split
  · split
    · rfl
    · exact G_foldl_setOther _ _ _ _
  · rfl

@[simp] theorem G_iouUpdateEdge (s : St) (e : Edge) : G (s.iouUpdateEdge e) = G s := by
  unfold iouUpdateEdge
  split
  · split
    · exact G_setEdgeAttr _ _ _ _
    · rfl
  · rfl

theorem G_foldl_iouUpdateEdge (es : List Edge) (s : St) : G (es.foldl iouUpdateEdge s) = G s := by
  induction es generalizing s with
  | nil => rfl
  | cons k r ih => rw [List.foldl_cons, ih, G_iouUpdateEdge]

@[simp] theorem G_iouUpdateNode (s : St) (n : Node) : G (s.iouUpdateNode n) = G s :=
  G_foldl_iouUpdateEdge _ _

@[simp] theorem G_iouCompute (s : St) : G s.iouCompute = G s := G_foldl_iouUpdateEdge _ _

@[simp] theorem G_newNodeIds (s : St) (k : Nat) : G (s.newNodeIds k).1 = G s := rfl


/-! ### 3. effect of the primitives on the graph view -/

/-- a primitive (or closure around one) that never changes the graph view -/
def GPres (f : St → Except Err (St × PrimRec)) : Prop := ∀ s s' r, f s = .ok (s', r) → G s' = G s

theorem pUpdTid_G {s s' : St} {st nT : Nat} {nL : Option Nat} {r : PrimRec}
    (h : s.pUpdTid st nT nL = .ok (s', r)) : G s' = G s := by
  unfold pUpdTid at h
  split at h
  · cases h
  · simp only [Except.ok.injEq, Prod.mk.injEq] at h; rw [← h.1]; simp

theorem foldl_setOther_G (n : Node) (attrs : List (Key × Val)) (s : St) :
    G (attrs.foldl (fun st kv => st.setOther n kv.1 kv.2) s) = G s := by
  induction attrs generalizing s with
  | nil => rfl
  | cons k r ih => rw [List.foldl_cons, ih, G_setOther]

theorem pUpdAttrs_G {s s' : St} {n : Node} {attrs : List (Key × Val)} {r : PrimRec}
    (h : s.pUpdAttrs n attrs = .ok (s', r)) : G s' = G s := by
  unfold pUpdAttrs at h
  split at h
  · cases h
  · split at h
    · cases h
    · simp only [Except.ok.injEq, Prod.mk.injEq] at h; rw [← h.1]; exact foldl_setOther_G _ _ _

theorem pUpdSeg_G {s s' : St} {n : Node} {px : List Pix} {b : Bool} {r : PrimRec}
    (h : s.pUpdSeg n px b = .ok (s', r)) : G s' = G s := by
  unfold pUpdSeg at h
  split at h
  · cases h
  · split at h
    · cases h
    · simp only [Except.ok.injEq, Prod.mk.injEq] at h; rw [← h.1]; simp; rfl

theorem findEdge_isSome (s : St) (e : Edge) : (s.findEdge e).isSome = s.hasEdge e := by
  rw [Bool.eq_iff_iff]; simp [findEdge, hasEdge, List.find?_isSome]

theorem edgeList_filter (s : St) (p : Edge → Bool) :
    (s.edges.filter (fun r => p r.e)).map (·.e) = s.edgeList.filter p := by
  simp [edgeList, List.filter_map, Function.comp_def]

theorem pDelEdge_G {s s' : St} {e : Edge} {r : PrimRec} (h : s.pDelEdge e = .ok (s', r)) :
    e ∈ s.edgeList ∧ G s' = (s.nt, s.edgeList.filter (· != e)) := by
  unfold pDelEdge at h
  split at h
  · cases h
  · rename_i er her
    simp only [Except.ok.injEq, Prod.mk.injEq] at h
    refine ⟨?_, ?_⟩
    · rw [← hasEdge_iff, ← findEdge_isSome, her]; rfl
    · rw [← h.1]; unfold G; congr 1; exact edgeList_filter s (· != e)

theorem pDelEdge_isOk {s : St} {e : Edge} (h : e ∈ s.edgeList) :
    ∃ s' r, s.pDelEdge e = .ok (s', r) := by
  unfold pDelEdge
  rw [← hasEdge_iff, ← findEdge_isSome] at h
  rcases hf : s.findEdge e with _ | er
  · simp [hf] at h
  · exact ⟨_, _, rfl⟩

theorem pAddEdge_G {s s' : St} {e : Edge} {at_ : List (Key × Val)} {r : PrimRec}
    (h : s.pAddEdge e at_ = .ok (s', r)) :
    e.1 ∈ s.ids ∧ e.2 ∈ s.ids ∧
      G s' = (s.nt, if e ∈ s.edgeList then s.edgeList else s.edgeList ++ [e]) := by
  unfold pAddEdge at h
  split at h
  · cases h
  · rename_i hn
    simp only [Bool.or_eq_true, Bool.not_eq_true', not_or, Bool.not_eq_false] at hn
    simp only [Except.ok.injEq, Prod.mk.injEq] at h
    refine ⟨(hasNode_iff _ _).mp hn.1, (hasNode_iff _ _).mp hn.2, ?_⟩
    rw [← h.1, G_iouUpdateEdge]
    by_cases he : s.hasEdge e = true
    · rw [if_pos he, if_pos ((hasEdge_iff _ _).mp he)]
      unfold G; congr 1
      unfold edgeList; simp only [List.map_map]
      apply List.map_congr_left; intro x _; simp only [Function.comp]; split <;> rfl
    · rw [if_neg he, if_neg (fun h' => he ((hasEdge_iff _ _).mpr h'))]
      unfold G; congr 1
      simp [edgeList]

/-- the three stages of `pAddNode` / `pDelNode`, named so that terms stay small -/
def paintFor (s : St) (px : Option (List Pix)) (v : Nat) : St :=
  match px, s.seg with
  | some ps, some g => { s with seg := some (g.setPixels ps v) }
  | _, _ => s

def addNodeCore (s1 : St) (r : NodeRec) : St :=
  if s1.hasNode r.id then s1.updNode r.id (fun old => { r with other := amerge r.other old.other })
  else { s1 with nodes := s1.nodes ++ [r] }

def addNodeFin (s3 : St) (id : Node) : St :=
  match s3.findNode id with
  | some r' => s3.trackOnAdd r'
  | none => s3

def delNodeCore (s1 : St) (n : Node) : St :=
  { s1 with nodes := s1.nodes.filter (·.id != n),
            edges := s1.edges.filter (fun e => e.e.1 != n && e.e.2 != n) }

theorem pAddNode_eq (s : St) (r : NodeRec) (px : Option (List Pix)) :
    s.pAddNode r px =
      if px.isNone && !(s.posKeys.all (fun k => (alook k r.other).isSome)) then .error .value
      else if px.isSome && s.seg.isNone then .error .value
      else .ok (addNodeFin ((addNodeCore (paintFor s px r.id) r).rpUpdate r.id) r.id, .addNode r px) := rfl

theorem pDelNode_eq (s : St) (n : Node) (px : Option (List Pix)) :
    s.pDelNode n px =
      match s.findNode n with
      | none => .error .key
      | some r =>
        let pxs := match px with
          | some p => some p
          | none => s.getPixels n
        .ok ((delNodeCore (paintFor s pxs 0) n).trackOnDelete (s.savedAttrs r),
             .delNode (s.savedAttrs r) pxs) := rfl

@[simp] theorem G_paintFor (s : St) (px : Option (List Pix)) (v : Nat) : G (paintFor s px v) = G s := by
  unfold paintFor; split <;> rfl

@[simp] theorem G_addNodeFin (s : St) (id : Node) : G (addNodeFin s id) = G s := by
  unfold addNodeFin; split <;> simp

theorem G_addNodeCore {s1 s : St} {r : NodeRec} (h1 : G s1 = G s) (hn : r.id ∉ s.ids) :
    G (addNodeCore s1 r) = (s.nt ++ [(r.id, r.time)], s.edgeList) := by
  have : ¬ s1.hasNode r.id = true := by rw [G_hasNode h1, hasNode_iff]; exact hn
  unfold addNodeCore
  rw [if_neg this]
  have hnt := G_nt h1; have hes := G_es h1
  unfold G; rw [← hnt, ← hes]; simp [nt, edgeList]

theorem G_delNodeCore {s1 s : St} (n : Node) (h1 : G s1 = G s) :
    G (delNodeCore s1 n) =
      (s.nt.filter (·.1 != n), s.edgeList.filter (fun e => e.1 != n && e.2 != n)) := by
  have hnt := G_nt h1; have hes := G_es h1
  unfold G; rw [← hnt, ← hes]; congr 1
  · simp [delNodeCore, nt, List.filter_map, Function.comp_def]
  · exact edgeList_filter s1 (fun e => e.1 != n && e.2 != n)

theorem pAddNode_G {s s' : St} {r : NodeRec} {px : Option (List Pix)} {rec_ : PrimRec}
    (hn : r.id ∉ s.ids) (h : s.pAddNode r px = .ok (s', rec_)) :
    G s' = (s.nt ++ [(r.id, r.time)], s.edgeList) := by
  rw [pAddNode_eq] at h
  split at h
  · cases h
  · split at h
    · cases h
    · simp only [Except.ok.injEq, Prod.mk.injEq] at h
      rw [← h.1, G_addNodeFin, G_rpUpdate]
      exact G_addNodeCore (G_paintFor _ _ _) hn

theorem pDelNode_G {s s' : St} {n : Node} {px : Option (List Pix)} {rec_ : PrimRec}
    (h : s.pDelNode n px = .ok (s', rec_)) :
    n ∈ s.ids ∧
    G s' = (s.nt.filter (·.1 != n), s.edgeList.filter (fun e => e.1 != n && e.2 != n)) := by
  rw [pDelNode_eq] at h
  split at h
  · cases h
  · rename_i r hr
    simp only [Except.ok.injEq, Prod.mk.injEq] at h
    refine ⟨?_, ?_⟩
    · rw [← hasNode_iff]; simp [hasNode, hr]
    · rw [← h.1, G_trackOnDelete]
      exact G_delNodeCore n (G_paintFor _ _ _)


/-! ### per-primitive `Forest` lemmas -/

theorem forest_of_G {t : St} {ntl : List (Node × Nat)} {es : List Edge}
    (h : G t = (ntl, es)) (hf : ForestL ntl es) : Forest t := by
  rw [forest_iff]
  have h1 : t.nt = ntl := congrArg Prod.fst h
  have h2 : t.edgeList = es := congrArg Prod.snd h
  rw [h1, h2]; exact hf

theorem pUpdTid_forest {s s' : St} {st nT : Nat} {nL : Option Nat} {r : PrimRec}
    (hf : Forest s) (h : s.pUpdTid st nT nL = .ok (s', r)) : Forest s' :=
  forest_congr (pUpdTid_G h) hf
theorem pUpdAttrs_forest {s s' : St} {n : Node} {attrs : List (Key × Val)} {r : PrimRec}
    (hf : Forest s) (h : s.pUpdAttrs n attrs = .ok (s', r)) : Forest s' :=
  forest_congr (pUpdAttrs_G h) hf
theorem pUpdSeg_forest {s s' : St} {n : Node} {px : List Pix} {b : Bool} {r : PrimRec}
    (hf : Forest s) (h : s.pUpdSeg n px b = .ok (s', r)) : Forest s' :=
  forest_congr (pUpdSeg_G h) hf
theorem pDelEdge_forest {s s' : St} {e : Edge} {r : PrimRec}
    (hf : Forest s) (h : s.pDelEdge e = .ok (s', r)) : Forest s' :=
  forest_of_G (pDelEdge_G h).2 (((forest_iff s).mp hf).sublist List.filter_sublist)
theorem pDelNode_forest {s s' : St} {n : Node} {px : Option (List Pix)} {r : PrimRec}
    (hf : Forest s) (h : s.pDelNode n px = .ok (s', r)) : Forest s' :=
  forest_of_G (pDelNode_G h).2 (((forest_iff s).mp hf).delNode n)
theorem pAddNode_forest {s s' : St} {r : NodeRec} {px : Option (List Pix)} {rec_ : PrimRec}
    (hf : Forest s) (hn : r.id ∉ s.ids) (h : s.pAddNode r px = .ok (s', rec_)) : Forest s' :=
  forest_of_G (pAddNode_G hn h) (((forest_iff s).mp hf).addNode (by rw [← ids_eq_nt]; exact hn))
/-- `AddEdge` keeps a forest when the target has no parent yet, the source at most one child and
    the times increase -/
theorem pAddEdge_forest {s s' : St} {e : Edge} {at_ : List (Key × Val)} {r : PrimRec}
    (hf : Forest s) (hin : s.indeg e.2 = 0) (hout : s.outdeg e.1 ≤ 1)
    (ht : ∀ t1 t2, s.timeOf e.1 = some t1 → s.timeOf e.2 = some t2 → t1 < t2)
    (h : s.pAddEdge e at_ = .ok (s', r)) : Forest s' := by
  obtain ⟨h1, h2, h3⟩ := pAddEdge_G h
  have hne : e ∉ s.edgeList := by
    intro he
    rw [indeg_eq, List.length_eq_zero_iff] at hin
    have : e ∈ s.edgeList.filter (·.2 == e.2) := by simp [he]
    rw [hin] at this; simp at this
  rw [if_neg hne] at h3
  refine forest_of_G h3 ?_
  have : e = (e.1, e.2) := rfl
  rw [this]
  apply ((forest_iff s).mp hf).addEdge
  · rw [← ids_eq_nt]; exact h1
  · rw [← ids_eq_nt]; exact h2
  · simpa [timeOf_eq_nt] using ht
  · rw [← indeg_eq]; exact hin
  · rw [← outdeg_eq]; exact hout

/-! ### 4. user actions -/

theorem thenPrim_G_pres {a : UOut} {f : St → Except Err (St × PrimRec)} (hf : GPres f) :
    G (thenPrim a f).1 = G a.1 := by
  unfold thenPrim
  split
  · rfl
  · split
    · rename_i h; exact hf _ _ _ h
    · rfl

theorem thenPrim_ok {a : UOut} {f : St → Except Err (St × PrimRec)} {recs : List PrimRec}
    (h : (thenPrim a f).2 = .ok recs) :
    ∃ r0 s' r, a.2 = .ok r0 ∧ f a.1 = .ok (s', r) ∧ (thenPrim a f).1 = s' ∧ recs = r0 ++ [r] := by
  unfold thenPrim at h ⊢
  split at h
  · cases h
  · rename_i r0 h0
    split at h
    · rename_i s' r h1
      simp only [Except.ok.injEq] at h
      exact ⟨r0, s', r, h0, h1, rfl, h.symm⟩
    · cases h

theorem thenUser_ok {a : UOut} {f : St → UOut} {recs : List PrimRec}
    (h : (thenUser a f).2 = .ok recs) :
    ∃ r0 r1, a.2 = .ok r0 ∧ (f a.1).2 = .ok r1 ∧ (thenUser a f).1 = (f a.1).1 ∧ recs = r0 ++ r1 := by
  rcases h0 : a.2 with e | r0
  · simp [thenUser, h0] at h
  · rcases h1 : (f a.1).2 with e | r1
    · simp [thenUser, h0, h1] at h
    · simp [thenUser, h0, h1] at h ⊢; exact h.symm

theorem thenPrim_err {a : UOut} {f : St → Except Err (St × PrimRec)} {e : Err}
    (h : a.2 = .error e) : thenPrim a f = (a.1, .error e) := by
  unfold thenPrim; rw [h]

theorem GPres_updTid (x : Node) (g : St → Nat) (l : St → Option Nat) :
    GPres (fun st => st.pUpdTid x (g st) (l st)) := fun _ _ _ h => pUpdTid_G h

theorem GPres_updTid_of (a b : Node) (l : St → Option Nat) :
    GPres (fun st => match st.tidOf a with
      | some t => st.pUpdTid b t (l st)
      | none => .error .key) := by
  intro s s' r h
  simp only [] at h
  split at h
  · exact pUpdTid_G h
  · cases h

/-- `UserDeleteEdge` — accepted or not — removes exactly the requested edge (if present) and
    nothing else from the graph view -/
theorem uDeleteEdge_G (s : St) (e : Edge) :
    G (s.uDeleteEdge e).1 =
      (s.nt, if e ∈ s.edgeList then s.edgeList.filter (· != e) else s.edgeList) := by
  unfold uDeleteEdge
  by_cases he : s.hasEdge e = true
  · have he' := (hasEdge_iff _ _).mp he
    obtain ⟨s1, r, h1⟩ := pDelEdge_isOk he'
    have ha : thenPrim (s, .ok []) (fun st => st.pDelEdge e) = (s1, .ok [r]) := by
      simp [thenPrim, h1]
    simp only [he, Bool.not_true, Bool.false_eq_true, if_false, ha, if_pos he']
    rw [← (pDelEdge_G h1).2]
    split
    · exact thenPrim_G_pres (GPres_updTid _ _ _)
    · split
      · split
        · rfl
        · exact (thenPrim_G_pres (GPres_updTid_of _ _ _)).trans
            (thenPrim_G_pres (GPres_updTid_of _ _ _))
      · rfl
  · have he' : e ∉ s.edgeList := fun h => he ((hasEdge_iff _ _).mpr h)
    simp only [he, if_neg he']
    rfl

theorem uDeleteEdge_forest {s : St} (e : Edge) (hf : Forest s) : Forest (s.uDeleteEdge e).1 := by
  refine forest_of_G (uDeleteEdge_G s e) ?_
  split
  · exact ((forest_iff s).mp hf).sublist List.filter_sublist
  · exact (forest_iff s).mp hf


/-! #### UserAddEdge -/

/-- first stage of `uAddEdge`: merge check / forced removal of the target's in-edge -/
def addEdgePre (s : St) (e : Edge) (force : Bool) : UOut :=
  if s.indeg e.2 > 0 then
    if !force then (s, .error .forceable)
    else match (s.preds e.2).head? with
      | some p => thenUser (s, .ok []) (fun st => st.uDeleteEdge (p, e.2))
      | none => (s, .error .other)
  else (s, .ok [])

/-- second stage: relabel according to the out-degree of the source, then `AddEdge` -/
def addEdgeTail (a0 : UOut) (recs0 : List PrimRec) (e : Edge) : UOut :=
  let s0 := a0.1
  let out := s0.outdeg e.1
  let a1 : UOut :=
    if out == 0 then
      thenPrim a0 (fun st => match st.tidOf e.1 with
        | some t => st.pUpdTid e.2 t (st.linOf e.1)
        | none => .error .key)
    else if out == 1 then
      match (s0.succs e.1).head? with
      | none => (s0, .error .other)
      | some succ =>
        let b := thenPrim a0 (fun st => st.pUpdTid succ st.nextTid none)
        thenPrim b (fun st => match st.tidOf e.2 with
          | some t => st.pUpdTid e.2 t (st.linOf e.1)
          | none => .error .key)
    else (s0.rollback recs0, .error .invalid)
  thenPrim a1 (fun st => st.pAddEdge e [])

theorem uAddEdge_eq (s : St) (e : Edge) (force : Bool) :
    s.uAddEdge e force =
      if !(s.hasNode e.1) then (s, .error .invalid) else
      if !(s.hasNode e.2) then (s, .error .invalid) else
      if (s.timeOf e.1).getD 0 ≥ (s.timeOf e.2).getD 0 then (s, .error .invalid) else
      match (addEdgePre s e force).2 with
      | .error err => ((addEdgePre s e force).1, .error err)
      | .ok recs0 => addEdgeTail (addEdgePre s e force) recs0 e := rfl

theorem head?_preds_mem {s : St} {v p : Node} (h : (s.preds v).head? = some p) :
    (p, v) ∈ s.edgeList := by
  have hm : p ∈ s.preds v := List.mem_of_head? h
  rw [preds_eq, List.mem_map] at hm
  obtain ⟨x, hx, hxp⟩ := hm
  rw [List.mem_filter] at hx
  have h2 : x.2 = v := by simpa using hx.2
  have : x = (p, v) := by rw [← hxp, ← h2]
  rw [← this]; exact hx.1

theorem addEdgePre_ok {s : St} {e : Edge} {force : Bool} {r0 : List PrimRec}
    (h : (addEdgePre s e force).2 = .ok r0) :
    (s.indeg e.2 = 0 ∧ addEdgePre s e force = (s, .ok [])) ∨
    (force = true ∧ ∃ p, (p, e.2) ∈ s.edgeList ∧
      G (addEdgePre s e force).1 = (s.nt, s.edgeList.filter (· != (p, e.2)))) := by
  unfold addEdgePre at h ⊢
  by_cases hin : s.indeg e.2 > 0
  · simp only [hin, if_true] at h ⊢
    cases force
    · simp at h
    · simp only [Bool.not_true, Bool.false_eq_true, if_false] at h ⊢
      right
      refine ⟨trivial, ?_⟩
      rcases hp : (s.preds e.2).head? with _ | p
      · rw [hp] at h; simp at h
      · rw [hp] at h; simp only [] at h ⊢
        have hm := head?_preds_mem hp
        refine ⟨p, hm, ?_⟩
        obtain ⟨_, _, _, _, h3, _⟩ := thenUser_ok h
        rw [h3, uDeleteEdge_G, if_pos hm]
  · simp only [hin, if_false] at h ⊢
    left; exact ⟨by omega, trivial⟩

theorem addEdgeTail_ok {a0 : UOut} {recs0 recs : List PrimRec} {e : Edge}
    (h : (addEdgeTail a0 recs0 e).2 = .ok recs) :
    a0.1.outdeg e.1 ≤ 1 ∧ e.1 ∈ a0.1.ids ∧ e.2 ∈ a0.1.ids ∧
    G (addEdgeTail a0 recs0 e).1 =
      (a0.1.nt, if e ∈ a0.1.edgeList then a0.1.edgeList else a0.1.edgeList ++ [e]) := by
  unfold addEdgeTail at h ⊢
  simp only [] at h ⊢
  obtain ⟨r1, s', r, h1, h2, h3, -⟩ := thenPrim_ok h
  rw [h3]
  obtain ⟨m1, m2, hG⟩ := pAddEdge_G h2
  -- the state before `AddEdge` has the graph view of `a0.1`, and the out-degree was ≤ 1
  revert h1 h2 hG m1 m2
  generalize hout : a0.1.outdeg e.1 = out
  intro h1
  by_cases c0 : (out == 0) = true
  · rw [if_pos c0] at h1 ⊢
    have hg := thenPrim_G_pres (a := a0) (GPres_updTid_of e.1 e.2 (fun st => st.linOf e.1))
    intro h2 m1 m2 hG
    rw [G_ids hg] at m1 m2; rw [G_nt hg, G_es hg] at hG
    simp at c0
    exact ⟨by omega, m1, m2, hG⟩
  · rw [if_neg c0] at h1 ⊢
    by_cases c1 : (out == 1) = true
    · rw [if_pos c1] at h1 ⊢
      rcases hs : (a0.1.succs e.1).head? with _ | sc
      · rw [hs] at h1; simp at h1
      · rw [hs] at h1
        simp only [] at h1 ⊢
        have hg := (thenPrim_G_pres
          (a := thenPrim a0 (fun st => st.pUpdTid sc st.nextTid none))
          (GPres_updTid_of e.2 e.2 (fun st => st.linOf e.1))).trans
          (thenPrim_G_pres (a := a0) (GPres_updTid sc (fun st => st.nextTid) (fun _ => none)))
        intro h2 m1 m2 hG
        rw [G_ids hg] at m1 m2; rw [G_nt hg, G_es hg] at hG
        simp at c1
        exact ⟨by omega, m1, m2, hG⟩
    · rw [if_neg c1] at h1
      simp at h1


/-- what an accepted `UserAddEdge` does to the graph view (no invariant assumed) -/
theorem uAddEdge_ok {s : St} {e : Edge} {force : Bool} {recs : List PrimRec}
    (h : (s.uAddEdge e force).2 = .ok recs) :
    e.1 ∈ s.ids ∧ e.2 ∈ s.ids ∧ (s.timeOf e.1).getD 0 < (s.timeOf e.2).getD 0 ∧
    ∃ es0 : List Edge,
      ((es0 = s.edgeList ∧ s.indeg e.2 = 0) ∨
       (force = true ∧ ∃ p, (p, e.2) ∈ s.edgeList ∧ es0 = s.edgeList.filter (· != (p, e.2)))) ∧
      (es0.filter (·.1 == e.1)).length ≤ 1 ∧
      G (s.uAddEdge e force).1 = (s.nt, if e ∈ es0 then es0 else es0 ++ [e]) := by
  rw [uAddEdge_eq] at h ⊢
  by_cases c1 : s.hasNode e.1 = true
  · by_cases c2 : s.hasNode e.2 = true
    · by_cases c3 : (s.timeOf e.1).getD 0 ≥ (s.timeOf e.2).getD 0
      · simp [c1, c2, c3] at h
      · simp only [c1, c2, c3, Bool.not_true, Bool.false_eq_true, if_false] at h ⊢
        refine ⟨(hasNode_iff _ _).mp c1, (hasNode_iff _ _).mp c2, by omega, ?_⟩
        rcases hp : (addEdgePre s e force).2 with err | r0
        · rw [hp] at h; simp at h
        · rw [hp] at h; simp only [] at h ⊢
          obtain ⟨t1, _, _, t4⟩ := addEdgeTail_ok h
          rcases addEdgePre_ok hp with ⟨hin, heq⟩ | ⟨hfo, p, hpm, hG⟩
          · refine ⟨s.edgeList, Or.inl ⟨rfl, hin⟩, ?_, ?_⟩
            · rw [heq, outdeg_eq] at t1; exact t1
            · rw [t4, heq]
          · refine ⟨s.edgeList.filter (· != (p, e.2)), Or.inr ⟨hfo, p, hpm, rfl⟩, ?_, ?_⟩
            · rw [outdeg_eq, G_es' hG] at t1; exact t1
            · rw [t4, G_es' hG, G_nt' hG]
    · simp [c1, c2] at h
  · simp [c1] at h

theorem eq_of_length_le_one {α} {l : List α} {a b : α} (h : l.length ≤ 1) (ha : a ∈ l) (hb : b ∈ l) :
    a = b := by
  match l, h, ha, hb with
  | [y], _, ha, hb => simp at ha hb; rw [ha, hb]

theorem filter_ne_indeg_zero {es : List Edge} {p v : Node}
    (hle : (es.filter (·.2 == v)).length ≤ 1) (hm : (p, v) ∈ es) :
    ((es.filter (· != (p, v))).filter (·.2 == v)).length = 0 := by
  rw [List.length_eq_zero_iff, List.filter_eq_nil_iff]
  intro x hx hx2
  rw [List.mem_filter] at hx
  have hxv : x.2 = v := by simpa using hx2
  -- both `x` and `(p,v)` are in-edges of `v`; there is at most one
  have m1 : x ∈ es.filter (·.2 == v) := by simp [hx.1, hxv]
  have m2 : (p, v) ∈ es.filter (·.2 == v) := by simp [hm]
  have : x = (p, v) := eq_of_length_le_one hle m1 m2
  simp [this] at hx

theorem uAddEdge_forest {s : St} {e : Edge} {force : Bool} {recs : List PrimRec}
    (hf : Forest s) (h : (s.uAddEdge e force).2 = .ok recs) : Forest (s.uAddEdge e force).1 := by
  obtain ⟨m1, m2, ht, es0, hes, hout, hG⟩ := uAddEdge_ok h
  have hF := (forest_iff s).mp hf
  have hsub : es0.Sublist s.edgeList := by
    rcases hes with ⟨h1, _⟩ | ⟨_, p, _, h1⟩
    · rw [h1]; exact List.Sublist.refl _
    · rw [h1]; exact List.filter_sublist
  have hin0 : (es0.filter (·.2 == e.2)).length = 0 := by
    rcases hes with ⟨h1, h2⟩ | ⟨_, p, hp, h1⟩
    · rw [h1, ← indeg_eq]; exact h2
    · rw [h1]; exact filter_ne_indeg_zero (hF.indeg_le e.2) hp
  have hne : e ∉ es0 := by
    intro he
    rw [List.length_eq_zero_iff] at hin0
    have : e ∈ es0.filter (·.2 == e.2) := by simp [he]
    rw [hin0] at this; simp at this
  rw [if_neg hne] at hG
  refine forest_of_G hG ?_
  have : e = (e.1, e.2) := rfl
  rw [this]
  apply (hF.sublist hsub).addEdge
  · rw [← ids_eq_nt]; exact m1
  · rw [← ids_eq_nt]; exact m2
  · intro t1 t2 h1 h2
    rw [timeOf_eq_nt, timeOf_eq_nt, h1, h2] at ht; simpa using ht
  · exact hin0
  · exact hout


/-! #### composition helpers: "if the outcome is ok, the state is a forest" -/

def FOk (a : UOut) : Prop := ∀ r, a.2 = .ok r → Forest a.1
def FPresU (f : St → UOut) : Prop := ∀ s r, Forest s → (f s).2 = .ok r → Forest (f s).1
def FPresP (f : St → Except Err (St × PrimRec)) : Prop :=
  ∀ s s' r, Forest s → f s = .ok (s', r) → Forest s'

theorem thenUser_FOk {a : UOut} {f : St → UOut} (ha : FOk a) (hf : FPresU f) : FOk (thenUser a f) := by
  intro r h
  obtain ⟨r0, r1, h0, h1, h2, -⟩ := thenUser_ok h
  rw [h2]; exact hf _ _ (ha _ h0) h1

theorem thenPrim_FOk {a : UOut} {f : St → Except Err (St × PrimRec)} (ha : FOk a) (hf : FPresP f) :
    FOk (thenPrim a f) := by
  intro r h
  obtain ⟨r0, s', r1, h0, h1, h2, -⟩ := thenPrim_ok h
  rw [h2]; exact hf _ _ _ (ha _ h0) h1

theorem FPresP_of_GPres {f : St → Except Err (St × PrimRec)} (h : GPres f) : FPresP f :=
  fun _ _ _ hf hk => forest_congr (h _ _ _ hk) hf

theorem FPresU_uDeleteEdge (e : Edge) : FPresU (fun st => st.uDeleteEdge e) :=
  fun _ _ hf _ => uDeleteEdge_forest e hf
theorem FPresU_uAddEdge (e : Edge) (b : Bool) : FPresU (fun st => st.uAddEdge e b) :=
  fun _ _ hf h => uAddEdge_forest hf h

theorem uUpdateAttrs_G (s : St) (n : Node) (attrs : List (Key × Val)) :
    G (s.uUpdateAttrs n attrs).1 = G s :=
  thenPrim_G_pres (a := (s, .ok [])) (fun _ _ _ h => pUpdAttrs_G h)

theorem uSwap_forest {s : St} {n1 n2 : Node} {recs : List PrimRec}
    (hf : Forest s) (h : (s.uSwap n1 n2).2 = .ok recs) : Forest (s.uSwap n1 n2).1 := by
  revert recs
  change FOk (s.uSwap n1 n2)
  unfold uSwap
  have err : ∀ e : Err, FOk (s, .error e) := fun e r h => by cases h
  have h0 : FOk (s, .ok []) := fun _ _ => hf
  generalize (s.preds n1).head? = p1
  generalize (s.preds n2).head? = p2
  rcases p1 with _ | p1 <;> rcases p2 with _ | p2 <;> simp only [] <;>
    repeat' (first
      | exact err _
      | exact h0
      | exact thenUser_FOk (thenUser_FOk h0 (FPresU_uDeleteEdge _)) (FPresU_uAddEdge _ _)
      | exact thenUser_FOk (thenUser_FOk (thenUser_FOk (thenUser_FOk h0
          (FPresU_uDeleteEdge _)) (FPresU_uDeleteEdge _)) (FPresU_uAddEdge _ _))
          (FPresU_uAddEdge _ _)
      | split)


/-! ### a Boolean checker, so that `Forest` of a concrete state is decidable -/

def forestB (s : St) : Bool :=
  decide s.ids.Nodup && decide s.edgeList.Nodup &&
  s.edgeList.all (fun e => decide (e.1 ∈ s.ids) && decide (e.2 ∈ s.ids) &&
    (match s.timeOf e.1, s.timeOf e.2 with
      | some a, some b => decide (a < b)
      | _, _ => true) &&
    decide (s.indeg e.2 ≤ 1) && decide (s.outdeg e.1 ≤ 2))

theorem forestB_iff (s : St) : forestB s = true ↔ Forest s := by
  unfold forestB
  simp only [Bool.and_eq_true, decide_eq_true_eq, List.all_eq_true]
  constructor
  · rintro ⟨⟨h1, h2⟩, h3⟩
    refine ⟨h1, h2, fun e he => (h3 e he).1.1.1.1, fun e he => (h3 e he).1.1.1.2, ?_, ?_, ?_⟩
    · intro e he t1 t2 e1 e2
      have := (h3 e he).1.1.2
      rw [e1, e2] at this; simpa using this
    · intro v
      rw [indeg_eq]
      rcases hl : s.edgeList.filter (·.2 == v) with _ | ⟨x, r⟩
      · rw [hl]; exact Nat.zero_le _
      · have hx : x ∈ s.edgeList.filter (·.2 == v) := by rw [hl]; simp
        rw [List.mem_filter] at hx
        have hv : x.2 = v := by simpa using hx.2
        have := (h3 x hx.1).1.2
        rw [indeg_eq, hv, hl] at this; rw [hl]; exact this
    · intro v
      rw [outdeg_eq]
      rcases hl : s.edgeList.filter (·.1 == v) with _ | ⟨x, r⟩
      · rw [hl]; exact Nat.zero_le _
      · have hx : x ∈ s.edgeList.filter (·.1 == v) := by rw [hl]; simp
        rw [List.mem_filter] at hx
        have hv : x.1 = v := by simpa using hx.2
        have := (h3 x hx.1).2
        rw [outdeg_eq, hv, hl] at this; rw [hl]; exact this
  · intro h
    refine ⟨⟨h.nodup_nodes, h.nodup_edges⟩, fun e he =>
      ⟨⟨⟨⟨h.src_mem e he, h.dst_mem e he⟩, ?_⟩, h.indeg_le _⟩, h.outdeg_le _⟩⟩
    split
    · rename_i a b e1 e2; simpa using h.forward e he a b e1 e2
    · rfl

instance (s : St) : Decidable (Forest s) := decidable_of_iff _ (forestB_iff s)

end St
end Ft
