/-
  FtProofs.ForestLemmas — helper lemmas for C03 (package PB).

  Layers
  1. the "graph view" `G s = (nt s, edgeList s)` (node ids with times, edge list): `Forest`
     depends on nothing else (`forest_iff`), `ForestL` is `Forest` over plain lists;
  2. everything that only relabels / measures / does bookkeeping preserves `G`;
  3. per-primitive effect on `G`, list-level preservation lemmas for `ForestL`;
  4. the user actions.
-/
import FtProofs.SessionSpec
open List
namespace Ft
namespace St

/-! ### 1. graph view -/

def nt (s : St) : List (Node × Nat) := s.nodes.map (fun r => (r.id, r.time))
def G (s : St) : List (Node × Nat) × List Edge := (s.nt, s.edgeList)
def tlook (l : List (Node × Nat)) (n : Node) : Option Nat := (l.find? (·.1 == n)).map (·.2)

theorem ids_eq_nt (s : St) : s.ids = s.nt.map (·.1) := by
  simp [ids, nt, List.map_map, Function.comp_def]
theorem timeOf_eq_nt (s : St) (n : Node) : s.timeOf n = tlook s.nt n := by
  simp [timeOf, findNode, tlook, nt, List.find?_map, Function.comp_def, Option.map_map]
theorem indeg_eq (s : St) (v : Node) : s.indeg v = (s.edgeList.filter (·.2 == v)).length := by
  simp [indeg, preds, edgeList, List.filter_map, Function.comp_def]
theorem outdeg_eq (s : St) (v : Node) : s.outdeg v = (s.edgeList.filter (·.1 == v)).length := by
  simp [outdeg, succs, edgeList, List.filter_map, Function.comp_def]
theorem succs_eq (s : St) (u : Node) : s.succs u = (s.edgeList.filter (·.1 == u)).map (·.2) := by
  simp [succs, edgeList, List.filter_map, Function.comp_def]
theorem preds_eq (s : St) (u : Node) : s.preds u = (s.edgeList.filter (·.2 == u)).map (·.1) := by
  simp [preds, edgeList, List.filter_map, Function.comp_def]
theorem hasNode_iff (s : St) (n : Node) : s.hasNode n = true ↔ n ∈ s.ids := by
  simp [hasNode, findNode, ids, List.find?_isSome]
theorem hasEdge_iff (s : St) (e : Edge) : s.hasEdge e = true ↔ e ∈ s.edgeList := by
  simp [hasEdge, edgeList]

theorem G_nt {s t : St} (h : G t = G s) : t.nt = s.nt := congrArg Prod.fst h
theorem G_es {s t : St} (h : G t = G s) : t.edgeList = s.edgeList := congrArg Prod.snd h
theorem G_nt' {t : St} {a : List (Node × Nat)} {b : List Edge} (h : G t = (a, b)) : t.nt = a :=
  congrArg Prod.fst h
theorem G_es' {t : St} {a : List (Node × Nat)} {b : List Edge} (h : G t = (a, b)) : t.edgeList = b :=
  congrArg Prod.snd h
theorem G_ids {s t : St} (h : G t = G s) : t.ids = s.ids := by rw [ids_eq_nt, ids_eq_nt, G_nt h]
theorem G_timeOf {s t : St} (h : G t = G s) (n : Node) : t.timeOf n = s.timeOf n := by
  rw [timeOf_eq_nt, timeOf_eq_nt, G_nt h]
theorem G_indeg {s t : St} (h : G t = G s) (n : Node) : t.indeg n = s.indeg n := by
  rw [indeg_eq, indeg_eq, G_es h]
theorem G_outdeg {s t : St} (h : G t = G s) (n : Node) : t.outdeg n = s.outdeg n := by
  rw [outdeg_eq, outdeg_eq, G_es h]
theorem G_succs {s t : St} (h : G t = G s) (n : Node) : t.succs n = s.succs n := by
  rw [succs_eq, succs_eq, G_es h]
theorem G_preds {s t : St} (h : G t = G s) (n : Node) : t.preds n = s.preds n := by
  rw [preds_eq, preds_eq, G_es h]
theorem G_hasNode {s t : St} (h : G t = G s) (n : Node) : t.hasNode n = s.hasNode n := by
  rw [Bool.eq_iff_iff, hasNode_iff, hasNode_iff, G_ids h]
theorem G_hasEdge {s t : St} (h : G t = G s) (e : Edge) : t.hasEdge e = s.hasEdge e := by
  rw [Bool.eq_iff_iff, hasEdge_iff, hasEdge_iff, G_es h]

/-- `Forest` over plain lists -/
structure ForestL (nt : List (Node × Nat)) (es : List Edge) : Prop where
  nodup_nodes : (nt.map (·.1)).Nodup
  nodup_edges : es.Nodup
  src_mem : ∀ e ∈ es, e.1 ∈ nt.map (·.1)
  dst_mem : ∀ e ∈ es, e.2 ∈ nt.map (·.1)
  forward : ∀ e ∈ es, ∀ t1 t2, tlook nt e.1 = some t1 → tlook nt e.2 = some t2 → t1 < t2
  indeg_le : ∀ v, (es.filter (·.2 == v)).length ≤ 1
  outdeg_le : ∀ u, (es.filter (·.1 == u)).length ≤ 2

theorem forest_iff (s : St) : Forest s ↔ ForestL s.nt s.edgeList := by
  constructor
  · intro h
    refine ⟨?_, h.nodup_edges, ?_, ?_, ?_, ?_, ?_⟩
    · rw [← ids_eq_nt]; exact h.nodup_nodes
    · rw [← ids_eq_nt]; exact h.src_mem
    · rw [← ids_eq_nt]; exact h.dst_mem
    · intro e he t1 t2; rw [← timeOf_eq_nt, ← timeOf_eq_nt]; exact h.forward e he t1 t2
    · intro v; rw [← indeg_eq]; exact h.indeg_le v
    · intro v; rw [← outdeg_eq]; exact h.outdeg_le v
  · intro h
    refine ⟨?_, h.nodup_edges, ?_, ?_, ?_, ?_, ?_⟩
    · rw [ids_eq_nt]; exact h.nodup_nodes
    · rw [ids_eq_nt]; exact h.src_mem
    · rw [ids_eq_nt]; exact h.dst_mem
    · intro e he t1 t2; rw [timeOf_eq_nt, timeOf_eq_nt]; exact h.forward e he t1 t2
    · intro v; rw [indeg_eq]; exact h.indeg_le v
    · intro v; rw [outdeg_eq]; exact h.outdeg_le v

theorem forest_congr {s t : St} (h : G t = G s) (hf : Forest s) : Forest t := by
  rw [forest_iff] at *; rw [G_nt h, G_es h]; exact hf

/-! ### list-level preservation -/

theorem tlook_mem {l : List (Node × Nat)} {n : Node} {t : Nat} (h : tlook l n = some t) :
    (n, t) ∈ l := by
  unfold tlook at h
  rcases hf : l.find? (·.1 == n) with _ | ⟨a, b⟩
  · simp [hf] at h
  · simp [hf] at h
    have h1 := List.find?_some hf
    have h2 := List.mem_of_find?_eq_some hf
    simp at h1; subst h1; subst h; exact h2

theorem tlook_isSome {l : List (Node × Nat)} {n : Node} (h : n ∈ l.map (·.1)) :
    ∃ t, tlook l n = some t := by
  unfold tlook
  rcases hf : l.find? (·.1 == n) with _ | ⟨a, b⟩
  · rw [List.find?_eq_none] at hf
    obtain ⟨x, hx, hxn⟩ := List.mem_map.mp h
    exact absurd (by simpa using hxn) (hf x hx)
  · exact ⟨b, by simp [hf]⟩

theorem ForestL.sublist {nt : List (Node × Nat)} {es es' : List Edge}
    (hf : ForestL nt es) (hs : es'.Sublist es) : ForestL nt es' where
  nodup_nodes := hf.nodup_nodes
  nodup_edges := hf.nodup_edges.sublist hs
  src_mem := fun e he => hf.src_mem e (hs.subset he)
  dst_mem := fun e he => hf.dst_mem e (hs.subset he)
  forward := fun e he => hf.forward e (hs.subset he)
  indeg_le := fun v => Nat.le_trans (hs.filter _).length_le (hf.indeg_le v)
  outdeg_le := fun v => Nat.le_trans (hs.filter _).length_le (hf.outdeg_le v)

theorem ForestL.addEdge {nt : List (Node × Nat)} {es : List Edge} {u v : Node}
    (hf : ForestL nt es) (hu : u ∈ nt.map (·.1)) (hv : v ∈ nt.map (·.1))
    (ht : ∀ t1 t2, tlook nt u = some t1 → tlook nt v = some t2 → t1 < t2)
    (hin : (es.filter (·.2 == v)).length = 0) (hout : (es.filter (·.1 == u)).length ≤ 1) :
    ForestL nt (es ++ [(u, v)]) where
  nodup_nodes := hf.nodup_nodes
  nodup_edges := by
    rw [List.nodup_append]
    refine ⟨hf.nodup_edges, by simp, ?_⟩
    intro a ha b hb
    simp at hb; subst hb
    intro hab; subst hab
    have : (u, v) ∈ es.filter (·.2 == v) := by simp [ha]
    rw [List.length_eq_zero_iff] at hin
    rw [hin] at this; simp at this
  src_mem := by
    intro e he; rcases List.mem_append.mp he with h | h
    · exact hf.src_mem e h
    · simp at h; subst h; exact hu
  dst_mem := by
    intro e he; rcases List.mem_append.mp he with h | h
    · exact hf.dst_mem e h
    · simp at h; subst h; exact hv
  forward := by
    intro e he; rcases List.mem_append.mp he with h | h
    · exact hf.forward e h
    · simp at h; subst h; exact ht
  indeg_le := by
    intro w
    rw [List.filter_append, List.length_append]
    by_cases hw : v = w
    · subst hw; simp [hin]
    · have := hf.indeg_le w; simp [hw]; omega
  outdeg_le := by
    intro w
    rw [List.filter_append, List.length_append]
    by_cases hw : u = w
    · subst hw; simp; omega
    · have := hf.outdeg_le w; simp [hw]; omega


theorem tlook_append_of_mem {l : List (Node × Nat)} {m : Node} (x : Node × Nat)
    (h : m ∈ l.map (·.1)) : tlook (l ++ [x]) m = tlook l m := by
  obtain ⟨t, ht⟩ := tlook_isSome h
  unfold tlook at *
  rw [List.find?_append]
  rcases hf : l.find? (·.1 == m) with _ | y
  · simp [hf] at ht
  · simp [hf]

theorem tlook_filter_ne {l : List (Node × Nat)} {m n : Node} (h : m ≠ n) :
    tlook (l.filter (·.1 != n)) m = tlook l m := by
  unfold tlook
  induction l with
  | nil => rfl
  | cons a r ih =>
    by_cases ha : a.1 = n
    · have h1 : (a.1 != n) = false := by simp [ha]
      have h2 : (a.1 == m) = false := by simp [ha]; exact fun h' => h h'.symm
      rw [List.filter_cons, h1, List.find?_cons, h2]; simpa using ih
    · have h1 : (a.1 != n) = true := by simp [ha]
      rw [List.filter_cons, h1]
      simp only [if_true, List.find?_cons]
      cases hc : a.1 == m
      · simpa using ih
      · simp

theorem ForestL.addNode {nt : List (Node × Nat)} {es : List Edge} {n t : Nat}
    (hf : ForestL nt es) (hn : n ∉ nt.map (·.1)) : ForestL (nt ++ [(n, t)]) es where
  nodup_nodes := by
    rw [List.map_append, List.nodup_append]
    refine ⟨hf.nodup_nodes, by simp, ?_⟩
    intro a ha b hb; simp at hb; subst hb; intro hab; subst hab; exact hn ha
  nodup_edges := hf.nodup_edges
  src_mem := fun e he => by rw [List.map_append]; exact List.mem_append_left _ (hf.src_mem e he)
  dst_mem := fun e he => by rw [List.map_append]; exact List.mem_append_left _ (hf.dst_mem e he)
  forward := fun e he t1 t2 => by
    rw [tlook_append_of_mem _ (hf.src_mem e he), tlook_append_of_mem _ (hf.dst_mem e he)]
    exact hf.forward e he t1 t2
  indeg_le := hf.indeg_le
  outdeg_le := hf.outdeg_le

theorem ForestL.delNode {nt : List (Node × Nat)} {es : List Edge} (n : Node)
    (hf : ForestL nt es) :
    ForestL (nt.filter (·.1 != n)) (es.filter (fun e => e.1 != n && e.2 != n)) where
  nodup_nodes := hf.nodup_nodes.sublist ((List.filter_sublist).map _)
  nodup_edges := hf.nodup_edges.sublist List.filter_sublist
  src_mem := fun e he => by
    rw [List.mem_filter] at he
    obtain ⟨x, hx, hxe⟩ := List.mem_map.mp (hf.src_mem e he.1)
    refine List.mem_map.mpr ⟨x, List.mem_filter.mpr ⟨hx, ?_⟩, hxe⟩
    have := he.2; simp at this; simp [hxe, this.1]
  dst_mem := fun e he => by
    rw [List.mem_filter] at he
    obtain ⟨x, hx, hxe⟩ := List.mem_map.mp (hf.dst_mem e he.1)
    refine List.mem_map.mpr ⟨x, List.mem_filter.mpr ⟨hx, ?_⟩, hxe⟩
    have := he.2; simp at this; simp [hxe, this.2]
  forward := fun e he t1 t2 => by
    rw [List.mem_filter] at he
    have := he.2; simp at this
    rw [tlook_filter_ne this.1, tlook_filter_ne this.2]
    exact hf.forward e he.1 t1 t2
  indeg_le := fun v => Nat.le_trans ((List.filter_sublist).filter _).length_le (hf.indeg_le v)
  outdeg_le := fun v => Nat.le_trans ((List.filter_sublist).filter _).length_le (hf.outdeg_le v)


/-! ### 2. operations that leave the graph view alone -/

theorem G_updNode (s : St) (n : Node) (f : NodeRec → NodeRec)
    (hid : ∀ r, (f r).id = r.id) (htime : ∀ r, (f r).time = r.time) : G (s.updNode n f) = G s := by
  unfold G nt edgeList updNode
  simp only [List.map_map]
  congr 1
  apply List.map_congr_left
  intro r _
  simp only [Function.comp]
  split <;> simp [hid, htime]

@[simp] theorem G_setTid (s : St) (n : Node) (t : Nat) : G (s.setTid n t) = G s :=
  G_updNode s n _ (fun _ => rfl) (fun _ => rfl)
@[simp] theorem G_setLin (s : St) (n : Node) (l : Option Nat) : G (s.setLin n l) = G s :=
  G_updNode s n _ (fun _ => rfl) (fun _ => rfl)
@[simp] theorem G_setOther (s : St) (n : Node) (k : Key) (v : Val) : G (s.setOther n k v) = G s :=
  G_updNode s n _ (fun _ => rfl) (fun _ => rfl)

@[simp] theorem G_setEdgeAttr (s : St) (e : Edge) (k : Key) (v : Val) :
    G (s.setEdgeAttr e k v) = G s := by
  unfold G nt edgeList setEdgeAttr
  simp only [List.map_map]
  congr 1
  apply List.map_congr_left
  intro r _
  simp only [Function.comp]
  split <;> rfl

@[simp] theorem G_bookAddT (s : St) (ns : List Node) (id : Nat) : G (s.bookAddT ns id) = G s := rfl
@[simp] theorem G_bookRemT (s : St) (ns : List Node) (id : Nat) : G (s.bookRemT ns id) = G s := rfl
@[simp] theorem G_bookAddL (s : St) (ns : List Node) (id : Nat) : G (s.bookAddL ns id) = G s := rfl
@[simp] theorem G_bookRemL (s : St) (ns : List Node) (id : Nat) : G (s.bookRemL ns id) = G s := rfl
@[simp] theorem G_bookMoveT (s : St) (ns : List Node) (o n : Nat) : G (s.bookMoveT ns o n) = G s := rfl
@[simp] theorem G_bookMoveL (s : St) (ns : List Node) (o : Option Nat) (n : Nat) :
    G (s.bookMoveL ns o n) = G s := by
  cases o <;> rfl

theorem G_walkNode (old new : Nat) (nl : Option Nat) (ul : Bool) (a : WalkAcc) (n : Node) :
    G (walkNode old new nl ul a n).s = G a.s := by
  unfold walkNode
  cases ul <;> simp only [if_true, Bool.false_eq_true, if_false] <;>
    (split <;> (try split) <;> simp)

theorem G_walkFold (old new : Nat) (nl : Option Nat) (ul : Bool) (l : List Node) (a : WalkAcc) :
    G (l.foldl (walkNode old new nl ul) a).s = G a.s := by
  induction l generalizing a with
  | nil => rfl
  | cons x r ih => rw [List.foldl_cons, ih, G_walkNode]

theorem G_walkLevels (old new : Nat) (nl : Option Nat) (ul : Bool) (fuel : Nat) (a : WalkAcc) :
    G (walkLevels old new nl ul fuel a).s = G a.s := by
  induction fuel generalizing a with
  | zero => rfl
  | succ f ih =>
    unfold walkLevels
    split
    · rfl
    · rw [ih, G_walkFold]

@[simp] theorem G_walk (s : St) (start : Node) (oT nT : Nat) (oL nL : Option Nat) :
    G (s.walk start oT nT oL nL) = G s := by
  unfold walk
  simp only []
  split <;> simp [G_walkLevels]

@[simp] theorem G_trackNeighbors (s : St) (tid time : Nat) : G (s.trackNeighbors tid time).1 = G s := by
  unfold trackNeighbors
  split <;> rfl

@[simp] theorem G_trackOnAdd (s : St) (r : NodeRec) : G (s.trackOnAdd r) = G s := by
  unfold trackOnAdd; simp only []; split <;> rfl
@[simp] theorem G_trackOnDelete (s : St) (r : NodeRec) : G (s.trackOnDelete r) = G s := by
  unfold trackOnDelete; simp only []; split <;> rfl

theorem G_foldl_setOther (n : Node) (v : Val) (ks : List Key) (s : St) :
    G (ks.foldl (fun st k => st.setOther n k v) s) = G s := by
  induction ks generalizing s with
  | nil => rfl
  | cons k r ih => rw [List.foldl_cons, ih, G_setOther]

@[simp] theorem G_rpUpdate (s : St) (n : Node) : G (s.rpUpdate n) = G s := by
  unfold rpUpdate
  split
  · split
    · rfl
    · exact G_foldl_setOther _ _ _ _
  · rfl

@[simp] theorem G_iouUpdateEdge (s : St) (e : Edge) : G (s.iouUpdateEdge e) = G s := by
  unfold iouUpdateEdge
  split
  · split
    · exact G_setEdgeAttr _ _ _ _
    · rfl
  · rfl

theorem G_foldl_iouUpdateEdge (es : List Edge) (s : St) : G (es.foldl iouUpdateEdge s) = G s := by
  induction es generalizing s with
  | nil => rfl
  | cons k r ih => rw [List.foldl_cons, ih, G_iouUpdateEdge]

@[simp] theorem G_iouUpdateNode (s : St) (n : Node) : G (s.iouUpdateNode n) = G s :=
  G_foldl_iouUpdateEdge _ _

@[simp] theorem G_iouCompute (s : St) : G s.iouCompute = G s := G_foldl_iouUpdateEdge _ _

@[simp] theorem G_newNodeIds (s : St) (k : Nat) : G (s.newNodeIds k).1 = G s := rfl


/-! ### 3. effect of the primitives on the graph view -/

/-- a primitive (or closure around one) that never changes the graph view -/
def GPres (f : St → Except Err (St × PrimRec)) : Prop := ∀ s s' r, f s = .ok (s', r) → G s' = G s

theorem pUpdTid_G {s s' : St} {st nT : Nat} {nL : Option Nat} {r : PrimRec}
    (h : s.pUpdTid st nT nL = .ok (s', r)) : G s' = G s := by
  unfold pUpdTid at h
  split at h
  · cases h
  · simp only [Except.ok.injEq, Prod.mk.injEq] at h; rw [← h.1]; simp

theorem foldl_setOther_G (n : Node) (attrs : List (Key × Val)) (s : St) :
    G (attrs.foldl (fun st kv => st.setOther n kv.1 kv.2) s) = G s := by
  induction attrs generalizing s with
  | nil => rfl
  | cons k r ih => rw [List.foldl_cons, ih, G_setOther]

theorem pUpdAttrs_G {s s' : St} {n : Node} {attrs : List (Key × Val)} {r : PrimRec}
    (h : s.pUpdAttrs n attrs = .ok (s', r)) : G s' = G s := by
  unfold pUpdAttrs at h
  split at h
  · cases h
  · split at h
    · cases h
    · simp only [Except.ok.injEq, Prod.mk.injEq] at h; rw [← h.1]; exact foldl_setOther_G _ _ _

theorem pUpdSeg_G {s s' : St} {n : Node} {px : List Pix} {b : Bool} {r : PrimRec}
    (h : s.pUpdSeg n px b = .ok (s', r)) : G s' = G s := by
  unfold pUpdSeg at h
  split at h
  · cases h
  · split at h
    · cases h
    · simp only [Except.ok.injEq, Prod.mk.injEq] at h; rw [← h.1]; simp; rfl

theorem findEdge_isSome (s : St) (e : Edge) : (s.findEdge e).isSome = s.hasEdge e := by
  rw [Bool.eq_iff_iff]; simp [findEdge, hasEdge, List.find?_isSome]

theorem edgeList_filter (s : St) (p : Edge → Bool) :
    (s.edges.filter (fun r => p r.e)).map (·.e) = s.edgeList.filter p := by
  simp [edgeList, List.filter_map, Function.comp_def]

theorem pDelEdge_G {s s' : St} {e : Edge} {r : PrimRec} (h : s.pDelEdge e = .ok (s', r)) :
    e ∈ s.edgeList ∧ G s' = (s.nt, s.edgeList.filter (· != e)) := by
  unfold pDelEdge at h
  split at h
  · cases h
  · rename_i er her
    simp only [Except.ok.injEq, Prod.mk.injEq] at h
    refine ⟨?_, ?_⟩
    · rw [← hasEdge_iff, ← findEdge_isSome, her]; rfl
    · rw [← h.1]; unfold G; congr 1; exact edgeList_filter s (· != e)

theorem pDelEdge_isOk {s : St} {e : Edge} (h : e ∈ s.edgeList) :
    ∃ s' r, s.pDelEdge e = .ok (s', r) := by
  unfold pDelEdge
  rw [← hasEdge_iff, ← findEdge_isSome] at h
  rcases hf : s.findEdge e with _ | er
  · simp [hf] at h
  · exact ⟨_, _, rfl⟩

theorem pAddEdge_G {s s' : St} {e : Edge} {at_ : List (Key × Val)} {r : PrimRec}
    (h : s.pAddEdge e at_ = .ok (s', r)) :
    e.1 ∈ s.ids ∧ e.2 ∈ s.ids ∧
      G s' = (s.nt, if e ∈ s.edgeList then s.edgeList else s.edgeList ++ [e]) := by
  unfold pAddEdge at h
  split at h
  · cases h
  · rename_i hn
    simp only [Bool.or_eq_true, Bool.not_eq_true', not_or, Bool.not_eq_false] at hn
    simp only [Except.ok.injEq, Prod.mk.injEq] at h
    refine ⟨(hasNode_iff _ _).mp hn.1, (hasNode_iff _ _).mp hn.2, ?_⟩
    rw [← h.1, G_iouUpdateEdge]
    by_cases he : s.hasEdge e = true
    · rw [if_pos he, if_pos ((hasEdge_iff _ _).mp he)]
      unfold G; congr 1
      unfold edgeList; simp only [List.map_map]
      apply List.map_congr_left; intro x _; simp only [Function.comp]; split <;> rfl
    · rw [if_neg he, if_neg (fun h' => he ((hasEdge_iff _ _).mpr h'))]
      unfold G; congr 1
      simp [edgeList]

/-- the three stages of `pAddNode` / `pDelNode`, named so that terms stay small -/
def paintFor (s : St) (px : Option (List Pix)) (v : Nat) : St :=
  match px, s.seg with
  | some ps, some g => { s with seg := some (g.setPixels ps v) }
  | _, _ => s

def addNodeCore (s1 : St) (r : NodeRec) : St :=
  if s1.hasNode r.id then s1.updNode r.id (fun old => { r with other := amerge r.other old.other })
  else { s1 with nodes := s1.nodes ++ [r] }

def addNodeFin (s3 : St) (id : Node) : St :=
  match s3.findNode id with
  | some r' => s3.trackOnAdd r'
  | none => s3

def delNodeCore (s1 : St) (n : Node) : St :=
  { s1 with nodes := s1.nodes.filter (·.id != n),
            edges := s1.edges.filter (fun e => e.e.1 != n && e.e.2 != n) }

theorem pAddNode_eq (s : St) (r : NodeRec) (px : Option (List Pix)) :
    s.pAddNode r px =
      if px.isNone && !(s.posKeys.all (fun k => (alook k r.other).isSome)) then .error .value
      else if px.isSome && s.seg.isNone then .error .value
      else .ok (addNodeFin ((addNodeCore (paintFor s px r.id) r).rpUpdate r.id) r.id, .addNode r px) := rfl

theorem pDelNode_eq (s : St) (n : Node) (px : Option (List Pix)) :
    s.pDelNode n px =
      match s.findNode n with
      | none => .error .key
      | some r =>
        let pxs := match px with
          | some p => some p
          | none => s.getPixels n
        .ok ((delNodeCore (paintFor s pxs 0) n).trackOnDelete (s.savedAttrs r),
             .delNode (s.savedAttrs r) pxs) := rfl

@[simp] theorem G_paintFor (s : St) (px : Option (List Pix)) (v : Nat) : G (paintFor s px v) = G s := by
  unfold paintFor; split <;> rfl

@[simp] theorem G_addNodeFin (s : St) (id : Node) : G (addNodeFin s id) = G s := by
  unfold addNodeFin; split <;> simp

theorem G_addNodeCore {s1 s : St} {r : NodeRec} (h1 : G s1 = G s) (hn : r.id ∉ s.ids) :
    G (addNodeCore s1 r) = (s.nt ++ [(r.id, r.time)], s.edgeList) := by
  have : ¬ s1.hasNode r.id = true := by rw [G_hasNode h1, hasNode_iff]; exact hn
  unfold addNodeCore
  rw [if_neg this]
  have hnt := G_nt h1; have hes := G_es h1
  unfold G; rw [← hnt, ← hes]; simp [nt, edgeList]

theorem G_delNodeCore {s1 s : St} (n : Node) (h1 : G s1 = G s) :
    G (delNodeCore s1 n) =
      (s.nt.filter (·.1 != n), s.edgeList.filter (fun e => e.1 != n && e.2 != n)) := by
  have hnt := G_nt h1; have hes := G_es h1
  unfold G; rw [← hnt, ← hes]; congr 1
  · simp [delNodeCore, nt, List.filter_map, Function.comp_def]
  · exact edgeList_filter s1 (fun e => e.1 != n && e.2 != n)

theorem pAddNode_G {s s' : St} {r : NodeRec} {px : Option (List Pix)} {rec_ : PrimRec}
    (hn : r.id ∉ s.ids) (h : s.pAddNode r px = .ok (s', rec_)) :
    G s' = (s.nt ++ [(r.id, r.time)], s.edgeList) := by
  rw [pAddNode_eq] at h
  split at h
  · cases h
  · split at h
    · cases h
    · simp only [Except.ok.injEq, Prod.mk.injEq] at h
      rw [← h.1, G_addNodeFin, G_rpUpdate]
      exact G_addNodeCore (G_paintFor _ _ _) hn

theorem pDelNode_G {s s' : St} {n : Node} {px : Option (List Pix)} {rec_ : PrimRec}
    (h : s.pDelNode n px = .ok (s', rec_)) :
    n ∈ s.ids ∧
    G s' = (s.nt.filter (·.1 != n), s.edgeList.filter (fun e => e.1 != n && e.2 != n)) := by
  rw [pDelNode_eq] at h
  split at h
  · cases h
  · rename_i r hr
    simp only [Except.ok.injEq, Prod.mk.injEq] at h
    refine ⟨?_, ?_⟩
    · rw [← hasNode_iff]; simp [hasNode, hr]
    · rw [← h.1, G_trackOnDelete]
      exact G_delNodeCore n (G_paintFor _ _ _)


/-! ### per-primitive `Forest` lemmas -/

theorem forest_of_G {t : St} {ntl : List (Node × Nat)} {es : List Edge}
    (h : G t = (ntl, es)) (hf : ForestL ntl es) : Forest t := by
  rw [forest_iff]
  have h1 : t.nt = ntl := congrArg Prod.fst h
  have h2 : t.edgeList = es := congrArg Prod.snd h
  rw [h1, h2]; exact hf

theorem pUpdTid_forest {s s' : St} {st nT : Nat} {nL : Option Nat} {r : PrimRec}
    (hf : Forest s) (h : s.pUpdTid st nT nL = .ok (s', r)) : Forest s' :=
  forest_congr (pUpdTid_G h) hf
theorem pUpdAttrs_forest {s s' : St} {n : Node} {attrs : List (Key × Val)} {r : PrimRec}
    (hf : Forest s) (h : s.pUpdAttrs n attrs = .ok (s', r)) : Forest s' :=
  forest_congr (pUpdAttrs_G h) hf
theorem pUpdSeg_forest {s s' : St} {n : Node} {px : List Pix} {b : Bool} {r : PrimRec}
    (hf : Forest s) (h : s.pUpdSeg n px b = .ok (s', r)) : Forest s' :=
  forest_congr (pUpdSeg_G h) hf
theorem pDelEdge_forest {s s' : St} {e : Edge} {r : PrimRec}
    (hf : Forest s) (h : s.pDelEdge e = .ok (s', r)) : Forest s' :=
  forest_of_G (pDelEdge_G h).2 (((forest_iff s).mp hf).sublist List.filter_sublist)
theorem pDelNode_forest {s s' : St} {n : Node} {px : Option (List Pix)} {r : PrimRec}
    (hf : Forest s) (h : s.pDelNode n px = .ok (s', r)) : Forest s' :=
  forest_of_G (pDelNode_G h).2 (((forest_iff s).mp hf).delNode n)
theorem pAddNode_forest {s s' : St} {r : NodeRec} {px : Option (List Pix)} {rec_ : PrimRec}
    (hf : Forest s) (hn : r.id ∉ s.ids) (h : s.pAddNode r px = .ok (s', rec_)) : Forest s' :=
  forest_of_G (pAddNode_G hn h) (((forest_iff s).mp hf).addNode (by rw [← ids_eq_nt]; exact hn))
/-- `AddEdge` keeps a forest when the target has no parent yet, the source at most one child and
    the times increase -/
theorem pAddEdge_forest {s s' : St} {e : Edge} {at_ : List (Key × Val)} {r : PrimRec}
    (hf : Forest s) (hin : s.indeg e.2 = 0) (hout : s.outdeg e.1 ≤ 1)
    (ht : ∀ t1 t2, s.timeOf e.1 = some t1 → s.timeOf e.2 = some t2 → t1 < t2)
    (h : s.pAddEdge e at_ = .ok (s', r)) : Forest s' := by
  obtain ⟨h1, h2, h3⟩ := pAddEdge_G h
  have hne : e ∉ s.edgeList := by
    intro he
    rw [indeg_eq, List.length_eq_zero_iff] at hin
    have : e ∈ s.edgeList.filter (·.2 == e.2) := by simp [he]
    rw [hin] at this; simp at this
  rw [if_neg hne] at h3
  refine forest_of_G h3 ?_
  have : e = (e.1, e.2) := rfl
  rw [this]
  apply ((forest_iff s).mp hf).addEdge
  · rw [← ids_eq_nt]; exact h1
  · rw [← ids_eq_nt]; exact h2
  · simpa [timeOf_eq_nt] using ht
  · rw [← indeg_eq]; exact hin
  · rw [← outdeg_eq]; exact hout

/-! ### 4. user actions -/

theorem thenPrim_G_pres {a : UOut} {f : St → Except Err (St × PrimRec)} (hf : GPres f) :
    G (thenPrim a f).1 = G a.1 := by
  unfold thenPrim
  split
  · rfl
  · split
    · rename_i h; exact hf _ _ _ h
    · rfl

theorem thenPrim_ok {a : UOut} {f : St → Except Err (St × PrimRec)} {recs : List PrimRec}
    (h : (thenPrim a f).2 = .ok recs) :
    ∃ r0 s' r, a.2 = .ok r0 ∧ f a.1 = .ok (s', r) ∧ (thenPrim a f).1 = s' ∧ recs = r0 ++ [r] := by
  unfold thenPrim at h ⊢
  split at h
  · cases h
  · rename_i r0 h0
    split at h
    · rename_i s' r h1
      simp only [Except.ok.injEq] at h
      exact ⟨r0, s', r, h0, h1, rfl, h.symm⟩
    · cases h

theorem thenUser_ok {a : UOut} {f : St → UOut} {recs : List PrimRec}
    (h : (thenUser a f).2 = .ok recs) :
    ∃ r0 r1, a.2 = .ok r0 ∧ (f a.1).2 = .ok r1 ∧ (thenUser a f).1 = (f a.1).1 ∧ recs = r0 ++ r1 := by
  rcases h0 : a.2 with e | r0
  · simp [thenUser, h0] at h
  · rcases h1 : (f a.1).2 with e | r1
    · simp [thenUser, h0, h1] at h
    · simp [thenUser, h0, h1] at h ⊢; exact h.symm

theorem thenPrim_err {a : UOut} {f : St → Except Err (St × PrimRec)} {e : Err}
    (h : a.2 = .error e) : thenPrim a f = (a.1, .error e) := by
  unfold thenPrim; rw [h]

theorem GPres_updTid (x : Node) (g : St → Nat) (l : St → Option Nat) :
    GPres (fun st => st.pUpdTid x (g st) (l st)) := fun _ _ _ h => pUpdTid_G h

theorem GPres_updTid_of (a b : Node) (l : St → Option Nat) :
    GPres (fun st => match st.tidOf a with
      | some t => st.pUpdTid b t (l st)
      | none => .error .key) := by
  intro s s' r h
  simp only [] at h
  split at h
  · exact pUpdTid_G h
  · cases h

/-- `UserDeleteEdge` — accepted or not — removes exactly the requested edge (if present) and
    nothing else from the graph view -/
theorem uDeleteEdge_G (s : St) (e : Edge) :
    G (s.uDeleteEdge e).1 =
      (s.nt, if e ∈ s.edgeList then s.edgeList.filter (· != e) else s.edgeList) := by
  unfold uDeleteEdge
  by_cases he : s.hasEdge e = true
  · have he' := (hasEdge_iff _ _).mp he
    obtain ⟨s1, r, h1⟩ := pDelEdge_isOk he'
    have ha : thenPrim (s, .ok []) (fun st => st.pDelEdge e) = (s1, .ok [r]) := by
      simp [thenPrim, h1]
    simp only [he, Bool.not_true, Bool.false_eq_true, if_false, ha, if_pos he']
    rw [← (pDelEdge_G h1).2]
    split
    · exact thenPrim_G_pres (GPres_updTid _ _ _)
    · split
      · split
        · rfl
        · exact (thenPrim_G_pres (GPres_updTid_of _ _ _)).trans
            (thenPrim_G_pres (GPres_updTid_of _ _ _))
      · rfl
  · have he' : e ∉ s.edgeList := fun h => he ((hasEdge_iff _ _).mpr h)
    simp only [he, if_neg he']
    rfl

theorem uDeleteEdge_forest {s : St} (e : Edge) (hf : Forest s) : Forest (s.uDeleteEdge e).1 := by
  refine forest_of_G (uDeleteEdge_G s e) ?_
  split
  · exact ((forest_iff s).mp hf).sublist List.filter_sublist
  · exact (forest_iff s).mp hf


/-! #### UserAddEdge -/

/-- first stage of `uAddEdge`: merge check / forced removal of the target's in-edge -/
def addEdgePre (s : St) (e : Edge) (force : Bool) : UOut :=
  if s.indeg e.2 > 0 then
    if !force then (s, .error .forceable)
    else match (s.preds e.2).head? with
      | some p => thenUser (s, .ok []) (fun st => st.uDeleteEdge (p, e.2))
      | none => (s, .error .other)
  else (s, .ok [])

/-- second stage: relabel according to the out-degree of the source, then `AddEdge` -/
def addEdgeTail (a0 : UOut) (recs0 : List PrimRec) (e : Edge) : UOut :=
  let s0 := a0.1
  let out := s0.outdeg e.1
  let a1 : UOut :=
    if out == 0 then
      thenPrim a0 (fun st => match st.tidOf e.1 with
        | some t => st.pUpdTid e.2 t (st.linOf e.1)
        | none => .error .key)
    else if out == 1 then
      match (s0.succs e.1).head? with
      | none => (s0, .error .other)
      | some succ =>
        let b := thenPrim a0 (fun st => st.pUpdTid succ st.nextTid none)
        thenPrim b (fun st => match st.tidOf e.2 with
          | some t => st.pUpdTid e.2 t (st.linOf e.1)
          | none => .error .key)
    else (s0.rollback recs0, .error .invalid)
  thenPrim a1 (fun st => st.pAddEdge e [])

theorem uAddEdge_eq (s : St) (e : Edge) (force : Bool) :
    s.uAddEdge e force =
      if !(s.hasNode e.1) then (s, .error .invalid) else
      if !(s.hasNode e.2) then (s, .error .invalid) else
      if (s.timeOf e.1).getD 0 ≥ (s.timeOf e.2).getD 0 then (s, .error .invalid) else
      match (addEdgePre s e force).2 with
      | .error err => ((addEdgePre s e force).1, .error err)
      | .ok recs0 => addEdgeTail (addEdgePre s e force) recs0 e := rfl

theorem head?_preds_mem {s : St} {v p : Node} (h : (s.preds v).head? = some p) :
    (p, v) ∈ s.edgeList := by
  have hm : p ∈ s.preds v := List.mem_of_head? h
  rw [preds_eq, List.mem_map] at hm
  obtain ⟨x, hx, hxp⟩ := hm
  rw [List.mem_filter] at hx
  have h2 : x.2 = v := by simpa using hx.2
  have : x = (p, v) := by rw [← hxp, ← h2]
  rw [← this]; exact hx.1

theorem addEdgePre_ok {s : St} {e : Edge} {force : Bool} {r0 : List PrimRec}
    (h : (addEdgePre s e force).2 = .ok r0) :
    (s.indeg e.2 = 0 ∧ addEdgePre s e force = (s, .ok [])) ∨
    (force = true ∧ ∃ p, (p, e.2) ∈ s.edgeList ∧
      G (addEdgePre s e force).1 = (s.nt, s.edgeList.filter (· != (p, e.2)))) := by
  unfold addEdgePre at h ⊢
  by_cases hin : s.indeg e.2 > 0
  · simp only [hin, if_true] at h ⊢
    cases force
    · simp at h
    · simp only [Bool.not_true, Bool.false_eq_true, if_false] at h ⊢
      right
      refine ⟨trivial, ?_⟩
      rcases hp : (s.preds e.2).head? with _ | p
      · rw [hp] at h; simp at h
      · rw [hp] at h; simp only [] at h ⊢
        have hm := head?_preds_mem hp
        refine ⟨p, hm, ?_⟩
        obtain ⟨_, _, _, _, h3, _⟩ := thenUser_ok h
        rw [h3, uDeleteEdge_G, if_pos hm]
  · simp only [hin, if_false] at h ⊢
    left; exact ⟨by omega, trivial⟩

theorem addEdgeTail_ok {a0 : UOut} {recs0 recs : List PrimRec} {e : Edge}
    (h : (addEdgeTail a0 recs0 e).2 = .ok recs) :
    a0.1.outdeg e.1 ≤ 1 ∧ e.1 ∈ a0.1.ids ∧ e.2 ∈ a0.1.ids ∧
    G (addEdgeTail a0 recs0 e).1 =
      (a0.1.nt, if e ∈ a0.1.edgeList then a0.1.edgeList else a0.1.edgeList ++ [e]) := by
  unfold addEdgeTail at h ⊢
  simp only [] at h ⊢
  obtain ⟨r1, s', r, h1, h2, h3, -⟩ := thenPrim_ok h
  rw [h3]
  obtain ⟨m1, m2, hG⟩ := pAddEdge_G h2
  -- the state before `AddEdge` has the graph view of `a0.1`, and the out-degree was ≤ 1
  revert h1 h2 hG m1 m2
  generalize hout : a0.1.outdeg e.1 = out
  intro h1
  by_cases c0 : (out == 0) = true
  · rw [if_pos c0] at h1 ⊢
    have hg := thenPrim_G_pres (a := a0) (GPres_updTid_of e.1 e.2 (fun st => st.linOf e.1))
    intro h2 m1 m2 hG
    rw [G_ids hg] at m1 m2; rw [G_nt hg, G_es hg] at hG
    simp at c0
    exact ⟨by omega, m1, m2, hG⟩
  · rw [if_neg c0] at h1 ⊢
    by_cases c1 : (out == 1) = true
    · rw [if_pos c1] at h1 ⊢
      rcases hs : (a0.1.succs e.1).head? with _ | sc
      · rw [hs] at h1; simp at h1
      · rw [hs] at h1
        simp only [] at h1 ⊢
        have hg := (thenPrim_G_pres
          (a := thenPrim a0 (fun st => st.pUpdTid sc st.nextTid none))
          (GPres_updTid_of e.2 e.2 (fun st => st.linOf e.1))).trans
          (thenPrim_G_pres (a := a0) (GPres_updTid sc (fun st => st.nextTid) (fun _ => none)))
        intro h2 m1 m2 hG
        rw [G_ids hg] at m1 m2; rw [G_nt hg, G_es hg] at hG
        simp at c1
        exact ⟨by omega, m1, m2, hG⟩
    · rw [if_neg c1] at h1
      simp at h1


/-- what an accepted `UserAddEdge` does to the graph view (no invariant assumed) -/
theorem uAddEdge_ok {s : St} {e : Edge} {force : Bool} {recs : List PrimRec}
    (h : (s.uAddEdge e force).2 = .ok recs) :
    e.1 ∈ s.ids ∧ e.2 ∈ s.ids ∧ (s.timeOf e.1).getD 0 < (s.timeOf e.2).getD 0 ∧
    ∃ es0 : List Edge,
      ((es0 = s.edgeList ∧ s.indeg e.2 = 0) ∨
       (force = true ∧ ∃ p, (p, e.2) ∈ s.edgeList ∧ es0 = s.edgeList.filter (· != (p, e.2)))) ∧
      (es0.filter (·.1 == e.1)).length ≤ 1 ∧
      G (s.uAddEdge e force).1 = (s.nt, if e ∈ es0 then es0 else es0 ++ [e]) := by
  rw [uAddEdge_eq] at h ⊢
  by_cases c1 : s.hasNode e.1 = true
  · by_cases c2 : s.hasNode e.2 = true
    · by_cases c3 : (s.timeOf e.1).getD 0 ≥ (s.timeOf e.2).getD 0
      · simp [c1, c2, c3] at h
      · simp only [c1, c2, c3, Bool.not_true, Bool.false_eq_true, if_false] at h ⊢
        refine ⟨(hasNode_iff _ _).mp c1, (hasNode_iff _ _).mp c2, by omega, ?_⟩
        rcases hp : (addEdgePre s e force).2 with err | r0
        · rw [hp] at h; simp at h
        · rw [hp] at h; simp only [] at h ⊢
          obtain ⟨t1, _, _, t4⟩ := addEdgeTail_ok h
          rcases addEdgePre_ok hp with ⟨hin, heq⟩ | ⟨hfo, p, hpm, hG⟩
          · refine ⟨s.edgeList, Or.inl ⟨rfl, hin⟩, ?_, ?_⟩
            · rw [heq, outdeg_eq] at t1; exact t1
            · rw [t4, heq]
          · refine ⟨s.edgeList.filter (· != (p, e.2)), Or.inr ⟨hfo, p, hpm, rfl⟩, ?_, ?_⟩
            · rw [outdeg_eq, G_es' hG] at t1; exact t1
            · rw [t4, G_es' hG, G_nt' hG]
    · simp [c1, c2] at h
  · simp [c1] at h

theorem eq_of_length_le_one {α} {l : List α} {a b : α} (h : l.length ≤ 1) (ha : a ∈ l) (hb : b ∈ l) :
    a = b := by
  match l, h, ha, hb with
  | [y], _, ha, hb => simp at ha hb; rw [ha, hb]

theorem filter_ne_indeg_zero {es : List Edge} {p v : Node}
    (hle : (es.filter (·.2 == v)).length ≤ 1) (hm : (p, v) ∈ es) :
    ((es.filter (· != (p, v))).filter (·.2 == v)).length = 0 := by
  rw [List.length_eq_zero_iff, List.filter_eq_nil_iff]
  intro x hx hx2
  rw [List.mem_filter] at hx
  have hxv : x.2 = v := by simpa using hx2
  -- both `x` and `(p,v)` are in-edges of `v`; there is at most one
  have m1 : x ∈ es.filter (·.2 == v) := by simp [hx.1, hxv]
  have m2 : (p, v) ∈ es.filter (·.2 == v) := by simp [hm]
  have : x = (p, v) := eq_of_length_le_one hle m1 m2
  simp [this] at hx

theorem uAddEdge_forest {s : St} {e : Edge} {force : Bool} {recs : List PrimRec}
    (hf : Forest s) (h : (s.uAddEdge e force).2 = .ok recs) : Forest (s.uAddEdge e force).1 := by
  obtain ⟨m1, m2, ht, es0, hes, hout, hG⟩ := uAddEdge_ok h
  have hF := (forest_iff s).mp hf
  have hsub : es0.Sublist s.edgeList := by
    rcases hes with ⟨h1, _⟩ | ⟨_, p, _, h1⟩
    · rw [h1]; exact List.Sublist.refl _
    · rw [h1]; exact List.filter_sublist
  have hin0 : (es0.filter (·.2 == e.2)).length = 0 := by
    rcases hes with ⟨h1, h2⟩ | ⟨_, p, hp, h1⟩
    · rw [h1, ← indeg_eq]; exact h2
    · rw [h1]; exact filter_ne_indeg_zero (hF.indeg_le e.2) hp
  have hne : e ∉ es0 := by
    intro he
    rw [List.length_eq_zero_iff] at hin0
    have : e ∈ es0.filter (·.2 == e.2) := by simp [he]
    rw [hin0] at this; simp at this
  rw [if_neg hne] at hG
  refine forest_of_G hG ?_
  have : e = (e.1, e.2) := rfl
  rw [this]
  apply (hF.sublist hsub).addEdge
  · rw [← ids_eq_nt]; exact m1
  · rw [← ids_eq_nt]; exact m2
  · intro t1 t2 h1 h2
    rw [timeOf_eq_nt, timeOf_eq_nt, h1, h2] at ht; simpa using ht
  · exact hin0
  · exact hout


/-! #### composition helpers: "if the outcome is ok, the state is a forest" -/

def FOk (a : UOut) : Prop := ∀ r, a.2 = .ok r → Forest a.1
def FPresU (f : St → UOut) : Prop := ∀ s r, Forest s → (f s).2 = .ok r → Forest (f s).1
def FPresP (f : St → Except Err (St × PrimRec)) : Prop :=
  ∀ s s' r, Forest s → f s = .ok (s', r) → Forest s'

theorem thenUser_FOk {a : UOut} {f : St → UOut} (ha : FOk a) (hf : FPresU f) : FOk (thenUser a f) := by
  intro r h
  obtain ⟨r0, r1, h0, h1, h2, -⟩ := thenUser_ok h
  rw [h2]; exact hf _ _ (ha _ h0) h1

theorem thenPrim_FOk {a : UOut} {f : St → Except Err (St × PrimRec)} (ha : FOk a) (hf : FPresP f) :
    FOk (thenPrim a f) := by
  intro r h
  obtain ⟨r0, s', r1, h0, h1, h2, -⟩ := thenPrim_ok h
  rw [h2]; exact hf _ _ _ (ha _ h0) h1

theorem FPresP_of_GPres {f : St → Except Err (St × PrimRec)} (h : GPres f) : FPresP f :=
  fun _ _ _ hf hk => forest_congr (h _ _ _ hk) hf

theorem FPresU_uDeleteEdge (e : Edge) : FPresU (fun st => st.uDeleteEdge e) :=
  fun _ _ hf _ => uDeleteEdge_forest e hf
theorem FPresU_uAddEdge (e : Edge) (b : Bool) : FPresU (fun st => st.uAddEdge e b) :=
  fun _ _ hf h => uAddEdge_forest hf h

theorem uUpdateAttrs_G (s : St) (n : Node) (attrs : List (Key × Val)) :
    G (s.uUpdateAttrs n attrs).1 = G s :=
  thenPrim_G_pres (a := (s, .ok [])) (fun _ _ _ h => pUpdAttrs_G h)

theorem uSwap_forest {s : St} {n1 n2 : Node} {recs : List PrimRec}
    (hf : Forest s) (h : (s.uSwap n1 n2).2 = .ok recs) : Forest (s.uSwap n1 n2).1 := by
  revert recs
  change FOk (s.uSwap n1 n2)
  unfold uSwap
  have err : ∀ e : Err, FOk (s, .error e) := fun e r h => by cases h
  have h0 : FOk (s, .ok []) := fun _ _ => hf
  generalize (s.preds n1).head? = p1
  generalize (s.preds n2).head? = p2
  rcases p1 with _ | p1 <;> rcases p2 with _ | p2 <;> simp only [] <;>
    repeat' (first
      | exact err _
      | exact h0
      | exact thenUser_FOk (thenUser_FOk h0 (FPresU_uDeleteEdge _)) (FPresU_uAddEdge _ _)
      | exact thenUser_FOk (thenUser_FOk (thenUser_FOk (thenUser_FOk h0
          (FPresU_uDeleteEdge _)) (FPresU_uDeleteEdge _)) (FPresU_uAddEdge _ _))
          (FPresU_uAddEdge _ _)
      | split)


/-! ### a Boolean checker, so that `Forest` of a concrete state is decidable -/

def forestB (s : St) : Bool :=
  decide s.ids.Nodup && decide s.edgeList.Nodup &&
  s.edgeList.all (fun e => decide (e.1 ∈ s.ids) && decide (e.2 ∈ s.ids) &&
    (match s.timeOf e.1, s.timeOf e.2 with
      | some a, some b => decide (a < b)
      | _, _ => true) &&
    decide (s.indeg e.2 ≤ 1) && decide (s.outdeg e.1 ≤ 2))

theorem forestB_iff (s : St) : forestB s = true ↔ Forest s := by
  unfold forestB
  simp only [Bool.and_eq_true, decide_eq_true_eq, List.all_eq_true]
  constructor
  · rintro ⟨⟨h1, h2⟩, h3⟩
    refine ⟨h1, h2, fun e he => (h3 e he).1.1.1.1, fun e he => (h3 e he).1.1.1.2, ?_, ?_, ?_⟩
    · intro e he t1 t2 e1 e2
      have := (h3 e he).1.1.2
      rw [e1, e2] at this; simpa using this
    · intro v
      rw [indeg_eq]
      rcases hl : s.edgeList.filter (·.2 == v) with _ | ⟨x, r⟩
      · rw [hl]; exact Nat.zero_le _
      · have hx : x ∈ s.edgeList.filter (·.2 == v) := by rw [hl]; simp
        rw [List.mem_filter] at hx
        have hv : x.2 = v := by simpa using hx.2
        have := (h3 x hx.1).1.2
        rw [indeg_eq, hv, hl] at this; rw [hl]; exact this
    · intro v
      rw [outdeg_eq]
      rcases hl : s.edgeList.filter (·.1 == v) with _ | ⟨x, r⟩
      · rw [hl]; exact Nat.zero_le _
      · have hx : x ∈ s.edgeList.filter (·.1 == v) := by rw [hl]; simp
        rw [List.mem_filter] at hx
        have hv : x.1 = v := by simpa using hx.2
        have := (h3 x hx.1).2
        rw [outdeg_eq, hv, hl] at this; rw [hl]; exact this
  · intro h
    refine ⟨⟨h.nodup_nodes, h.nodup_edges⟩, fun e he =>
      ⟨⟨⟨⟨h.src_mem e he, h.dst_mem e he⟩, ?_⟩, h.indeg_le _⟩, h.outdeg_le _⟩⟩
    split
    · rename_i a b e1 e2; simpa using h.forward e he a b e1 e2
    · rfl

instance (s : St) : Decidable (Forest s) := decidable_of_iff _ (forestB_iff s)


/-! ### `get_track_neighbors`: sort + scan -/

/-- the time key the sort and the scan use (`0` for an unknown node) -/
def tm (s : St) (n : Node) : Nat := (s.timeOf n).getD 0

theorem mem_insByTime (s : St) (x y : Node) (l : List Node) :
    y ∈ insByTime s x l ↔ y = x ∨ y ∈ l := by
  induction l with
  | nil => simp [insByTime]
  | cons a r ih =>
    unfold insByTime
    split
    · simp [ih]; constructor
      · rintro (h | h | h) <;> simp [h]
      · rintro (h | h | h) <;> simp [h]
    · simp

theorem sorted_insByTime (s : St) (x : Node) (l : List Node)
    (h : l.Pairwise (fun a b => tm s a ≤ tm s b)) :
    (insByTime s x l).Pairwise (fun a b => tm s a ≤ tm s b) := by
  induction l with
  | nil => simp [insByTime]
  | cons a r ih =>
    unfold insByTime
    rw [List.pairwise_cons] at h
    split
    · rename_i hle
      rw [List.pairwise_cons]
      refine ⟨?_, ih h.2⟩
      intro b hb
      rcases (mem_insByTime s x b r).mp hb with rfl | hb
      · exact hle
      · exact h.1 b hb
    · rename_i hle
      have hlt : tm s x < tm s a := by unfold tm; omega
      rw [List.pairwise_cons]
      refine ⟨?_, List.pairwise_cons.mpr h⟩
      intro b hb
      rcases List.mem_cons.mp hb with rfl | hb
      · omega
      · have := h.1 b hb; omega

theorem sortFold_spec (s : St) (l init : List Node)
    (h : init.Pairwise (fun a b => tm s a ≤ tm s b)) :
    (l.foldl (fun acc x => insByTime s x acc) init).Pairwise (fun a b => tm s a ≤ tm s b) ∧
    ∀ y, y ∈ l.foldl (fun acc x => insByTime s x acc) init ↔ y ∈ l ∨ y ∈ init := by
  induction l generalizing init with
  | nil => simp [h]
  | cons a r ih =>
    rw [List.foldl_cons]
    obtain ⟨h1, h2⟩ := ih (insByTime s a init) (sorted_insByTime s a init h)
    refine ⟨h1, fun y => ?_⟩
    rw [h2, mem_insByTime]; simp; constructor
    · rintro (h | h | h) <;> simp [h]
    · rintro ((h | h) | h) <;> simp [h]

theorem sorted_sortByTime (s : St) (l : List Node) :
    (s.sortByTime l).Pairwise (fun a b => tm s a ≤ tm s b) :=
  (sortFold_spec s l [] List.Pairwise.nil).1

theorem mem_sortByTime (s : St) (l : List Node) (y : Node) : y ∈ s.sortByTime l ↔ y ∈ l := by
  have := (sortFold_spec s l [] List.Pairwise.nil).2 y
  simpa [sortByTime] using this

theorem scan_spec (s : St) (time : Nat) (l : List Node) (p0 : Option Node)
    (hs : l.Pairwise (fun a b => tm s a ≤ tm s b)) :
    (∀ sc, (scanNeighbors s time l p0).2 = some sc →
        sc ∈ l ∧ tm s sc > time ∧ ∀ c ∈ l, tm s c > time → tm s sc ≤ tm s c) ∧
    ((scanNeighbors s time l p0).2 = none → ∀ c ∈ l, tm s c ≤ time) ∧
    (∀ p, (scanNeighbors s time l p0).1 = some p →
        (p ∈ l ∧ tm s p < time ∧ ∀ c ∈ l, tm s c < time → tm s c ≤ tm s p) ∨
        (p0 = some p ∧ ∀ c ∈ l, ¬ tm s c < time)) ∧
    ((scanNeighbors s time l p0).1 = none → p0 = none ∧ ∀ c ∈ l, ¬ tm s c < time) := by
  induction l generalizing p0 with
  | nil => simp [scanNeighbors]
  | cons a r ih =>
    rw [List.pairwise_cons] at hs
    unfold scanNeighbors
    simp only []
    have ta : (s.timeOf a).getD 0 = tm s a := rfl
    rw [ta]
    by_cases c1 : tm s a < time
    · rw [if_pos c1]
      obtain ⟨i1, i2, i3, i4⟩ := ih (some a) hs.2
      refine ⟨?_, ?_, ?_, ?_⟩
      · intro sc h
        obtain ⟨m, g, mn⟩ := i1 sc h
        refine ⟨List.mem_cons_of_mem _ m, g, ?_⟩
        intro c hc hgt
        rcases List.mem_cons.mp hc with rfl | hc
        · omega
        · exact mn c hc hgt
      · intro h c hc
        rcases List.mem_cons.mp hc with rfl | hc
        · omega
        · exact i2 h c hc
      · intro p h
        left
        rcases i3 p h with ⟨m, lt, mx⟩ | ⟨e, no⟩
        · refine ⟨List.mem_cons_of_mem _ m, lt, ?_⟩
          intro c hc hlt
          rcases List.mem_cons.mp hc with rfl | hc
          · exact hs.1 p m
          · exact mx c hc hlt
        · cases e
          refine ⟨List.mem_cons_self, c1, ?_⟩
          intro c hc hlt
          rcases List.mem_cons.mp hc with rfl | hc
          · exact Nat.le_refl _
          · exact absurd hlt (no c hc)
      · intro h
        have := (i4 h).1; cases this
    · rw [if_neg c1]
      by_cases c2 : tm s a > time
      · rw [if_pos c2]
        have nolt : ∀ c ∈ a :: r, ¬ tm s c < time := by
          intro c hc
          rcases List.mem_cons.mp hc with rfl | hc
          · exact c1
          · have := hs.1 c hc; omega
        refine ⟨?_, ?_, ?_, ?_⟩
        · intro sc h
          simp only [Option.some.injEq] at h; subst h
          refine ⟨List.mem_cons_self, c2, ?_⟩
          intro c hc _
          rcases List.mem_cons.mp hc with rfl | hc
          · exact Nat.le_refl _
          · exact hs.1 c hc
        · intro h; cases h
        · intro p h; right; exact ⟨h, nolt⟩
        · intro h; exact ⟨h, nolt⟩
      · rw [if_neg c2]
        obtain ⟨i1, i2, i3, i4⟩ := ih p0 hs.2
        refine ⟨?_, ?_, ?_, ?_⟩
        · intro sc h
          obtain ⟨m, g, mn⟩ := i1 sc h
          refine ⟨List.mem_cons_of_mem _ m, g, ?_⟩
          intro c hc hgt
          rcases List.mem_cons.mp hc with rfl | hc
          · omega
          · exact mn c hc hgt
        · intro h c hc
          rcases List.mem_cons.mp hc with rfl | hc
          · omega
          · exact i2 h c hc
        · intro p h
          rcases i3 p h with ⟨m, lt, mx⟩ | ⟨e, no⟩
          · left
            refine ⟨List.mem_cons_of_mem _ m, lt, ?_⟩
            intro c hc hlt
            rcases List.mem_cons.mp hc with rfl | hc
            · omega
            · exact mx c hc hlt
          · right
            refine ⟨e, ?_⟩
            intro c hc
            rcases List.mem_cons.mp hc with rfl | hc
            · exact c1
            · exact no c hc
        · intro h
          refine ⟨(i4 h).1, ?_⟩
          intro c hc
          rcases List.mem_cons.mp hc with rfl | hc
          · exact c1
          · exact (i4 h).2 c hc

/-- `get_track_neighbors` returns the latest node of the listed track before `time` and the
    earliest after it (no assumption on the bookkeeping) -/
theorem trackNeighbors_spec (s : St) (tid time : Nat) :
    let L := (alook tid s.t2n).getD []
    let r := s.trackNeighbors tid time
    (∀ sc, r.2.2 = some sc → sc ∈ L ∧ tm s sc > time ∧ ∀ c ∈ L, tm s c > time → tm s sc ≤ tm s c) ∧
    (r.2.2 = none → ∀ c ∈ L, tm s c ≤ time) ∧
    (∀ p, r.2.1 = some p → p ∈ L ∧ tm s p < time ∧ ∀ c ∈ L, tm s c < time → tm s c ≤ tm s p) ∧
    (r.2.1 = none → ∀ c ∈ L, ¬ tm s c < time) := by
  intro L r
  rcases hl : alook tid s.t2n with _ | cands
  · simp [L, r, trackNeighbors, hl]
  · rcases cands with _ | ⟨c0, cs⟩
    · simp [L, r, trackNeighbors, hl]
    · have hr : r = ({ s with t2n := aset tid (s.sortByTime (c0 :: cs)) s.t2n },
          (scanNeighbors s time (s.sortByTime (c0 :: cs)) none).1,
          (scanNeighbors s time (s.sortByTime (c0 :: cs)) none).2) := by
        simp only [r, trackNeighbors, hl]
      have hL : L = c0 :: cs := by simp [L, hl]
      obtain ⟨i1, i2, i3, i4⟩ := scan_spec s time (s.sortByTime (c0 :: cs)) none
        (sorted_sortByTime s _)
      rw [hr, hL]
      simp only [mem_sortByTime] at i1 i2 i3 i4
      refine ⟨i1, i2, ?_, fun h => (i4 h).2⟩
      intro p h
      rcases i3 p h with h' | ⟨e, _⟩
      · exact h'
      · cases e

end St
end Ft

namespace Ft
namespace St

/-! #### UserAddNode -/

/-- division checks of `uAddNode` (with forced removals) -/
def addNodePre (sN : St) (pred succ : Option Node) (force : Bool) : UOut :=
    match pred with
    | some p =>
      if sN.outdeg p == 2 then
        if !force then (sN, .error .forceable)
        else match sN.succs p with
          | [c1, c2] =>
            let b := thenUser (sN, .ok []) (fun st => st.uDeleteEdge (p, c1))
            thenUser b (fun st => st.uDeleteEdge (p, c2))
          | _ => (sN, .error .other)
      else
        match succ with
        | some sc =>
          match (sN.preds sc).head? with
          | some pos =>
            if sN.outdeg pos == 2 then
              if !force then (sN, .error .forceable)
              else thenUser (sN, .ok []) (fun st => st.uDeleteEdge (pos, sc))
            else (sN, .ok [])
          | none => (sN, .ok [])
        | none => (sN, .ok [])
    | none =>
      match succ with
      | some sc =>
        match (sN.preds sc).head? with
        | some pos =>
          if sN.outdeg pos == 2 then
            if !force then (sN, .error .forceable)
            else thenUser (sN, .ok []) (fun st => st.uDeleteEdge (pos, sc))
          else (sN, .ok [])
        | none => (sN, .ok [])
      | none => (sN, .ok [])

def addNodeFinish (s2 : St) (recs : List PrimRec) (pred succ : Option Node) (node : Node) : UOut :=
  let a2 : UOut := (s2, .ok recs)
  let a3 := match pred with
    | some p => thenPrim a2 (fun st => st.pAddEdge (p, node) [])
    | none => a2
  match succ with
  | some sc => thenPrim a3 (fun st => st.pAddEdge (node, sc) [])
  | none => a3

def addNodeTail (a0 : UOut) (pred succ : Option Node) (a : AddNodeArgs) (time tid : Nat) : UOut :=
    let s0 := a0.1
    let lin : Option Nat :=
      match a.lin with
      | some l => some l
      | none =>
        match pred, succ with
        | some p, _ => s0.linOf p
        | none, some sc => s0.linOf sc
        | none, none => some s0.nextLin
    let a1 : UOut :=
      match pred, succ with
      | some p, some sc => thenPrim a0 (fun st => st.pDelEdge (p, sc))
      | _, _ => a0
    match a1.2 with
    | .error err => (a1.1, .error err)
    | .ok recs1 =>
      let rec_ : NodeRec := { id := a.node, time := time, tid := tid, lin := lin, other := a.other }
      match a1.1.pAddNode rec_ a.pixels with
      | .error err => (a1.1.rollback recs1, .error err)
      | .ok (s2, r) => addNodeFinish s2 (recs1 ++ [r]) pred succ a.node

theorem uAddNode_eq (s : St) (a : AddNodeArgs) :
    s.uAddNode a =
      match a.time, a.tid with
      | none, _ => (s, .error .invalid)
      | _, none => (s, .error .invalid)
      | some time, some tid0 =>
      if s.hasNode a.node then (s, .error .invalid) else
      let tid := if s.hasTrackAt tid0 time then s.nextTid else tid0
      let r := s.trackNeighbors tid time
      let a0 := addNodePre r.1 r.2.1 r.2.2 a.force
      match a0.2 with
      | .error err => (a0.1, .error err)
      | .ok _ => addNodeTail a0 r.2.1 r.2.2 a time tid := by
  rfl

end St
end Ft

namespace Ft
namespace St

theorem uDeleteEdge_G' (s : St) (e : Edge) :
    G (s.uDeleteEdge e).1 = (s.nt, s.edgeList.filter (· != e)) := by
  rw [uDeleteEdge_G]
  split
  · rfl
  · rename_i hne
    congr 1
    symm; rw [List.filter_eq_self]
    intro x hx; simp; intro hxe; exact hne (hxe ▸ hx)

theorem thenUser_nt {a : UOut} {f : St → UOut} (hf : ∀ st, (f st).1.nt = st.nt) :
    (thenUser a f).1.nt = a.1.nt := by
  unfold thenUser
  split
  · rfl
  · simp only []; split <;> exact hf _

theorem uDeleteEdge_nt (s : St) (e : Edge) : (s.uDeleteEdge e).1.nt = s.nt :=
  G_nt' (uDeleteEdge_G' s e)

theorem tm_of_not_mem {s : St} {n : Node} (h : n ∉ s.ids) : tm s n = 0 := by
  unfold tm
  rw [timeOf_eq_nt]
  rcases ht : tlook s.nt n with _ | t
  · rfl
  · have := tlook_mem ht
    exact absurd (by rw [ids_eq_nt]; exact List.mem_map.mpr ⟨_, this, rfl⟩) h

theorem timeOf_of_mem {s : St} {n : Node} (h : n ∈ s.ids) : s.timeOf n = some (tm s n) := by
  unfold tm
  rw [timeOf_eq_nt]
  obtain ⟨t, ht⟩ := tlook_isSome (l := s.nt) (n := n) (by rw [← ids_eq_nt]; exact h)
  rw [ht]; rfl

theorem tm_congr {s t : St} (h : t.nt = s.nt) (n : Node) : tm t n = tm s n := by
  unfold tm; rw [timeOf_eq_nt, timeOf_eq_nt, h]

theorem indeg_zero_of_not_mem {s : St} (hf : Forest s) {n : Node} (h : n ∉ s.ids) : s.indeg n = 0 := by
  rw [indeg_eq, List.length_eq_zero_iff, List.filter_eq_nil_iff]
  intro x hx hx2
  have : x.2 = n := by simpa using hx2
  exact h (this ▸ hf.dst_mem x hx)

theorem outdeg_zero_of_not_mem {s : St} (hf : Forest s) {n : Node} (h : n ∉ s.ids) : s.outdeg n = 0 := by
  rw [outdeg_eq, List.length_eq_zero_iff, List.filter_eq_nil_iff]
  intro x hx hx2
  have : x.1 = n := by simpa using hx2
  exact h (this ▸ hf.src_mem x hx)

/-- `AddEdge` on a forest, with the resulting graph view -/
theorem pAddEdge_forest_G {s s' : St} {e : Edge} {at_ : List (Key × Val)} {r : PrimRec}
    (hf : Forest s) (hin : s.indeg e.2 = 0) (hout : s.outdeg e.1 ≤ 1)
    (ht : tm s e.1 < tm s e.2)
    (h : s.pAddEdge e at_ = .ok (s', r)) : Forest s' ∧ G s' = (s.nt, s.edgeList ++ [e]) := by
  obtain ⟨h1, h2, h3⟩ := pAddEdge_G h
  refine ⟨pAddEdge_forest hf hin hout ?_ h, ?_⟩
  · intro t1 t2 e1 e2
    rw [timeOf_of_mem h1] at e1; rw [timeOf_of_mem h2] at e2
    cases e1; cases e2; exact ht
  · have hne : e ∉ s.edgeList := by
      intro he
      rw [indeg_eq, List.length_eq_zero_iff] at hin
      have : e ∈ s.edgeList.filter (·.2 == e.2) := by simp [he]
      rw [hin] at this; simp at this
    rw [if_neg hne] at h3; exact h3

theorem indeg_append (s' : St) (es : List Edge) (e : Edge) (v : Node) (nt_ : List (Node × Nat))
    (h : G s' = (nt_, es ++ [e])) :
    s'.indeg v = (es.filter (·.2 == v)).length + (if e.2 = v then 1 else 0) := by
  rw [indeg_eq, G_es' h, List.filter_append, List.length_append]
  congr 1
  by_cases c : e.2 = v <;> simp [c]

theorem outdeg_append (s' : St) (es : List Edge) (e : Edge) (v : Node) (nt_ : List (Node × Nat))
    (h : G s' = (nt_, es ++ [e])) :
    s'.outdeg v = (es.filter (·.1 == v)).length + (if e.1 = v then 1 else 0) := by
  rw [outdeg_eq, G_es' h, List.filter_append, List.length_append]
  congr 1
  by_cases c : e.1 = v <;> simp [c]

theorem addNodeFinish_FOk {s1 s2 : St} {recs : List PrimRec} {pred succ : Option Node}
    {node : Node} {time : Nat}
    (hf : Forest s1) (hn : node ∉ s1.ids)
    (hG : G s2 = (s1.nt ++ [(node, time)], s1.edgeList))
    (hp : ∀ p, pred = some p → p ∈ s1.ids ∧ tm s1 p < time ∧ s1.outdeg p ≤ 1)
    (hs : ∀ sc, succ = some sc → tm s1 sc > time ∧ s1.indeg sc = 0) :
    FOk (addNodeFinish s2 recs pred succ node) := by
  have hf2 : Forest s2 :=
    forest_of_G hG (((forest_iff s1).mp hf).addNode (by rw [← ids_eq_nt]; exact hn))
  have hes2 : s2.edgeList = s1.edgeList := G_es' hG
  have hnt2 : s2.nt = s1.nt ++ [(node, time)] := G_nt' hG
  have tm_old : ∀ m, m ∈ s1.ids → tm s2 m = tm s1 m := by
    intro m hm; unfold tm
    rw [timeOf_eq_nt, timeOf_eq_nt, hnt2, tlook_append_of_mem _ (by rw [← ids_eq_nt]; exact hm)]
  have tm_new : tm s2 node = time := by
    unfold tm; rw [timeOf_eq_nt, hnt2]; unfold tlook
    rw [List.find?_append]
    have : s1.nt.find? (·.1 == node) = none := by
      rw [List.find?_eq_none]; intro x hx hx2
      apply hn; rw [ids_eq_nt]; exact List.mem_map.mpr ⟨x, hx, by simpa using hx2⟩
    rw [this]; simp
  have in2 : ∀ v, s2.indeg v = s1.indeg v := fun v => by rw [indeg_eq, indeg_eq, hes2]
  have out2 : ∀ v, s2.outdeg v = s1.outdeg v := fun v => by rw [outdeg_eq, outdeg_eq, hes2]
  have sc_mem : ∀ sc, succ = some sc → sc ∈ s1.ids := by
    intro sc h
    apply Classical.byContradiction; intro hc
    have := (hs sc h).1; rw [tm_of_not_mem hc] at this; omega
  unfold addNodeFinish
  intro r hr
  simp only [] at hr ⊢
  rcases pred with _ | p
  · rcases succ with _ | sc
    · exact hf2
    · simp only [] at hr ⊢
      obtain ⟨_, s', _, _, h1, h2, _⟩ := thenPrim_ok hr
      rw [h2]
      have scm := sc_mem sc rfl
      refine (pAddEdge_forest_G hf2 ?_ ?_ ?_ h1).1
      · rw [in2]; exact (hs sc rfl).2
      · rw [out2, outdeg_zero_of_not_mem hf hn]; omega
      · show tm s2 node < tm s2 sc
        rw [tm_new, tm_old sc scm]; exact (hs sc rfl).1
  · obtain ⟨pm, pt, po⟩ := hp p rfl
    have pne : p ≠ node := fun h => hn (h ▸ pm)
    rcases succ with _ | sc
    · simp only [] at hr ⊢
      obtain ⟨_, s', _, _, h1, h2, _⟩ := thenPrim_ok hr
      rw [h2]
      refine (pAddEdge_forest_G hf2 ?_ ?_ ?_ h1).1
      · rw [in2]; exact indeg_zero_of_not_mem hf hn
      · rw [out2]; exact po
      · show tm s2 p < tm s2 node
        rw [tm_new, tm_old p pm]; exact pt
    · simp only [] at hr ⊢
      obtain ⟨_, s4, _, h0, h1, h2, _⟩ := thenPrim_ok hr
      obtain ⟨_, s3, _, _, h3, h4, _⟩ := thenPrim_ok h0
      rw [h2]
      rw [h4] at h1
      have scm := sc_mem sc rfl
      have scne : sc ≠ node := fun h => hn (h ▸ scm)
      obtain ⟨hf3, hG3⟩ := pAddEdge_forest_G (e := (p, node)) hf2
        (by rw [in2]; exact indeg_zero_of_not_mem hf hn) (by rw [out2]; exact po)
        (by show tm s2 p < tm s2 node; rw [tm_new, tm_old p pm]; exact pt) h3
      have tm3 : ∀ m, tm s3 m = tm s2 m := tm_congr (G_nt' hG3)
      refine (pAddEdge_forest_G hf3 ?_ ?_ ?_ h1).1
      · rw [indeg_append _ _ _ _ _ hG3, ← indeg_eq, in2, (hs sc rfl).2]
        simp; exact fun h => scne h.symm
      · rw [outdeg_append _ _ _ _ _ hG3, ← outdeg_eq, out2, outdeg_zero_of_not_mem hf hn]
        simp [pne]
      · show tm s3 node < tm s3 sc
        rw [tm3, tm3, tm_new, tm_old sc scm]; exact (hs sc rfl).1

end St
end Ft

namespace Ft
namespace St

theorem thenUser_inv (P : St → Prop) {a : UOut} {f : St → UOut} (ha : P a.1)
    (hf : ∀ st, P st → P (f st).1) : P (thenUser a f).1 := by
  unfold thenUser
  split
  · exact ha
  · simp only []; split <;> exact hf _ ha

theorem addNodePre_basic {sN : St} (pred succ : Option Node) (force : Bool) (hf : Forest sN) :
    Forest (addNodePre sN pred succ force).1 ∧ (addNodePre sN pred succ force).1.nt = sN.nt := by
  have base : Forest sN ∧ sN.nt = sN.nt := ⟨hf, rfl⟩
  have step : ∀ e st, (Forest st ∧ st.nt = sN.nt) →
      (Forest (st.uDeleteEdge e).1 ∧ (st.uDeleteEdge e).1.nt = sN.nt) :=
    fun e st h => ⟨uDeleteEdge_forest e h.1, by rw [uDeleteEdge_nt]; exact h.2⟩
  unfold addNodePre
  repeat' (first
    | exact base
    | exact thenUser_inv (fun st => Forest st ∧ st.nt = sN.nt) base (step _)
    | exact thenUser_inv (fun st => Forest st ∧ st.nt = sN.nt)
        (thenUser_inv (fun st => Forest st ∧ st.nt = sN.nt) base (step _)) (step _)
    | split)

theorem head?_none_indeg {s : St} {v : Node} (h : (s.preds v).head? = none) : s.indeg v = 0 := by
  unfold indeg
  cases hp : s.preds v with
  | nil => rfl
  | cons a r => rw [hp] at h; simp at h

theorem addNodePre_ok {sN : St} {pred succ : Option Node} {force : Bool} {r0 : List PrimRec}
    (hf : Forest sN) (h : (addNodePre sN pred succ force).2 = .ok r0) :
    (∀ p, pred = some p → succ = none → (addNodePre sN pred succ force).1.outdeg p ≤ 1) ∧
    (pred = none → ∀ sc, succ = some sc →
        (∀ pos, (pos, sc) ∈ sN.edgeList → sN.outdeg pos = 2) →
        (addNodePre sN pred succ force).1.indeg sc = 0) := by
  refine ⟨?_, ?_⟩
  · rintro p rfl rfl
    unfold addNodePre at h ⊢
    simp only [] at h ⊢
    by_cases c : (sN.outdeg p == 2) = true
    · rw [if_pos c] at h ⊢
      cases force
      · simp at h
      · simp only [Bool.not_true, Bool.false_eq_true, if_false] at h ⊢
        rcases hsucc : sN.succs p with _ | ⟨c1, _ | ⟨c2, _ | ⟨c3, r⟩⟩⟩
        · rw [hsucc] at h; simp at h
        · rw [hsucc] at h; simp at h
        · simp only []
          obtain ⟨_, _, _, _, e2, _⟩ := thenUser_ok (by rw [hsucc] at h; exact h)
          rw [e2]
          generalize hb : thenUser (sN, Except.ok []) (fun st => st.uDeleteEdge (p, c1)) = b
          have hb1 : b.1.edgeList = sN.edgeList.filter (· != (p, c1)) := by
            rw [← hb]
            unfold thenUser
            simp only []
            split <;> exact G_es' (uDeleteEdge_G' sN (p, c1))
          rw [outdeg_eq, G_es' (uDeleteEdge_G' b.1 (p, c2)), hb1]
          refine Nat.le_trans (Nat.le_of_eq ?_) (Nat.zero_le 1)
          rw [List.length_eq_zero_iff, List.filter_eq_nil_iff]
          intro x hx hx2
          rw [List.mem_filter, List.mem_filter] at hx
          have x1 : x.1 = p := by simpa using hx2
          have : x.2 ∈ sN.succs p := by
            rw [succs_eq]; exact List.mem_map.mpr ⟨x, List.mem_filter.mpr ⟨hx.1.1, hx2⟩, rfl⟩
          rw [hsucc] at this
          have hx' : x = (p, x.2) := by rw [← x1]
          simp at this
          rcases this with h' | h'
          · have := hx.1.2; rw [hx', h'] at this; simp at this
          · have := hx.2; rw [hx', h'] at this; simp at this
        · rw [hsucc] at h; simp at h
    · rw [if_neg c] at h ⊢
      simp only [] at h ⊢
      have := hf.outdeg_le p
      simp at c
      omega
  · rintro rfl sc rfl hpos
    unfold addNodePre at h ⊢
    simp only [] at h ⊢
    rcases hp : (sN.preds sc).head? with _ | pos
    · simp only []; exact head?_none_indeg hp
    · rw [hp] at h
      simp only [] at h ⊢
      have hm := head?_preds_mem hp
      have c : (sN.outdeg pos == 2) = true := by simp [hpos pos hm]
      rw [if_pos c] at h ⊢
      cases force
      · simp at h
      · simp only [Bool.not_true, Bool.false_eq_true, if_false] at h ⊢
        obtain ⟨_, _, _, _, e2, _⟩ := thenUser_ok h
        rw [e2, indeg_eq, G_es' (uDeleteEdge_G' _ _)]
        exact filter_ne_indeg_zero (by rw [← indeg_eq]; exact hf.indeg_le sc) hm

end St
end Ft

namespace Ft
namespace St

theorem length_filter_ne_lt {α} [BEq α] [LawfulBEq α] {l : List α} {a : α} (h : a ∈ l) :
    (l.filter (· != a)).length < l.length := by
  induction l with
  | nil => simp at h
  | cons x r ih =>
    by_cases hx : x = a
    · subst hx
      have : (List.filter (fun y => y != x) (x :: r)) = List.filter (fun y => y != x) r := by
        simp
      rw [this]
      exact Nat.lt_succ_of_le (List.length_filter_le _ _)
    · have hr : a ∈ r := by
        rcases List.mem_cons.mp h with h | h
        · exact absurd h.symm hx
        · exact h
      have : (List.filter (fun y => y != a) (x :: r)) = x :: List.filter (fun y => y != a) r := by
        simp [hx]
      rw [this]
      simp only [List.length_cons]
      exact Nat.succ_lt_succ (ih hr)

theorem outdeg_filter_lt {es : List Edge} {e : Edge} (h : e ∈ es) :
    ((es.filter (· != e)).filter (·.1 == e.1)).length < (es.filter (·.1 == e.1)).length := by
  have : (es.filter (· != e)).filter (·.1 == e.1) = (es.filter (·.1 == e.1)).filter (· != e) := by
    rw [List.filter_filter, List.filter_filter]
    apply List.filter_congr; intro x _; exact Bool.and_comm _ _
  rw [this]
  exact length_filter_ne_lt (List.mem_filter.mpr ⟨h, by simp⟩)

theorem tail_common {a1 : UOut} {pred succ : Option Node} {rec_ : NodeRec}
    {px : Option (List Pix)}
    (hf : Forest a1.1) (hn : rec_.id ∉ a1.1.ids)
    (hp : ∀ p, pred = some p → p ∈ a1.1.ids ∧ tm a1.1 p < rec_.time ∧ a1.1.outdeg p ≤ 1)
    (hs : ∀ sc, succ = some sc → tm a1.1 sc > rec_.time ∧ a1.1.indeg sc = 0) :
    FOk (match a1.2 with
      | .error err => (a1.1, .error err)
      | .ok recs1 =>
        match a1.1.pAddNode rec_ px with
        | .error err => (a1.1.rollback recs1, .error err)
        | .ok (s2, r) => addNodeFinish s2 (recs1 ++ [r]) pred succ rec_.id) := by
  rcases h1 : a1.2 with e | recs1
  · intro r hr; cases hr
  · simp only []
    rcases h2 : a1.1.pAddNode rec_ px with e | ⟨s2, r⟩
    · intro r hr; cases hr
    · simp only []
      exact addNodeFinish_FOk hf hn (pAddNode_G hn h2) hp hs

theorem addNodeTail_FOk {a0 : UOut} {pred succ : Option Node} {a : AddNodeArgs} {time tid : Nat}
    (hf : Forest a0.1) (hn : a.node ∉ a0.1.ids)
    (hp : ∀ p, pred = some p → p ∈ a0.1.ids ∧ tm a0.1 p < time ∧ (succ = none → a0.1.outdeg p ≤ 1))
    (hs : ∀ sc, succ = some sc → tm a0.1 sc > time ∧ (pred = none → a0.1.indeg sc = 0)) :
    FOk (addNodeTail a0 pred succ a time tid) := by
  unfold addNodeTail
  simp only []
  rcases pred with _ | p
  · rcases succ with _ | sc
    · exact tail_common (rec_ := ⟨a.node, time, tid, _, a.other⟩) hf hn (fun _ h => by cases h)
        (fun _ h => by cases h)
    · exact tail_common (rec_ := ⟨a.node, time, tid, _, a.other⟩) hf hn (fun _ h => by cases h)
        (fun x h => by cases h; exact ⟨(hs sc rfl).1, (hs sc rfl).2 rfl⟩)
  · obtain ⟨pm, pt, po⟩ := hp p rfl
    rcases succ with _ | sc
    · exact tail_common (rec_ := ⟨a.node, time, tid, _, a.other⟩) hf hn
        (fun x h => by cases h; exact ⟨pm, pt, po rfl⟩) (fun _ h => by cases h)
    · simp only []
      rcases hd : a0.1.pDelEdge (p, sc) with e | ⟨s1, r1⟩
      · have : thenPrim a0 (fun st => st.pDelEdge (p, sc)) =
            (a0.1, .error (match a0.2 with | .error e' => e' | .ok _ => e)) := by
          unfold thenPrim; split
          · rename_i h; simp [h]
          · rename_i h; simp [hd, h]
        rw [this]; intro r hr; cases hr
      · obtain ⟨hmem, hG1⟩ := pDelEdge_G hd
        have hf1 : Forest s1 := pDelEdge_forest hf hd
        rcases h0 : a0.2 with e | recs0
        · have : thenPrim a0 (fun st => st.pDelEdge (p, sc)) = (a0.1, .error e) := thenPrim_err h0
          rw [this]; intro r hr; cases hr
        · have : thenPrim a0 (fun st => st.pDelEdge (p, sc)) = (s1, .ok (recs0 ++ [r1])) := by
            unfold thenPrim; simp [h0, hd]
          rw [this]
          have hnt1 : s1.nt = a0.1.nt := G_nt' hG1
          have hids : s1.ids = a0.1.ids := by rw [ids_eq_nt, ids_eq_nt, hnt1]
          refine tail_common (a1 := (s1, .ok (recs0 ++ [r1]))) (rec_ := ⟨a.node, time, tid, _, a.other⟩)
            hf1 (by rw [hids]; exact hn) ?_ ?_
          · intro x h; cases h
            refine ⟨by rw [hids]; exact pm, by rw [tm_congr hnt1]; exact pt, ?_⟩
            show s1.outdeg p ≤ 1
            rw [outdeg_eq, G_es' hG1]
            have h1 := outdeg_filter_lt hmem
            have h2 := hf.outdeg_le p
            rw [outdeg_eq] at h2
            exact Nat.le_of_lt_succ (Nat.lt_of_lt_of_le h1 h2)
          · intro x h; cases h
            refine ⟨by rw [tm_congr hnt1]; exact (hs sc rfl).1, ?_⟩
            show s1.indeg sc = 0
            rw [indeg_eq, G_es' hG1]
            exact filter_ne_indeg_zero (by rw [← indeg_eq]; exact hf.indeg_le sc) hmem

/-- what the track-neighbour query must satisfy for `UserAddNode` to keep a forest: the
    predecessor is a node, and a successor without predecessor hangs (if at all) below a division.
    Follows from `BookOK` and `TidOK.along` (`nbrOK_of_book`); fails for an inconsistent lookup. -/
structure NbrAddOK (s : St) (tid time : Nat) : Prop where
  pred_mem : ∀ p, (s.trackNeighbors tid time).2.1 = some p → p ∈ s.ids
  succ_head : (s.trackNeighbors tid time).2.1 = none →
    ∀ sc, (s.trackNeighbors tid time).2.2 = some sc →
    ∀ pos, (pos, sc) ∈ s.edgeList → s.outdeg pos = 2

/-- the track id `uAddNode` actually uses -/
def addTid (s : St) (tid0 time : Nat) : Nat := if s.hasTrackAt tid0 time then s.nextTid else tid0

theorem uAddNode_forest_of {s : St} {a : AddNodeArgs} {recs : List PrimRec}
    (hf : Forest s)
    (hN : ∀ time tid0, a.time = some time → a.tid = some tid0 → NbrAddOK s (addTid s tid0 time) time)
    (h : (s.uAddNode a).2 = .ok recs) : Forest (s.uAddNode a).1 := by
  revert recs
  change FOk (s.uAddNode a)
  rw [uAddNode_eq]
  have err : ∀ (st : St) (e : Err), FOk (st, .error e) := fun _ e r h => by cases h
  rcases hti : a.time with _ | time
  · exact err _ _
  · rcases htd : a.tid with _ | tid0
    · exact err _ _
    · simp only []
      by_cases hnode : s.hasNode a.node = true
      · rw [if_pos hnode]; exact err _ _
      · rw [if_neg hnode]
        have hnm : a.node ∉ s.ids := fun h => hnode ((hasNode_iff _ _).mpr h)
        have hNb1 := (hN time tid0 hti htd).pred_mem
        have hNb2 := (hN time tid0 hti htd).succ_head
        unfold addTid at hNb1 hNb2
        generalize (if s.hasTrackAt tid0 time = true then s.nextTid else tid0) = tid at hNb1 hNb2 ⊢
        obtain ⟨sp1, sp2, sp3, sp4⟩ := trackNeighbors_spec s tid time
        generalize hr : s.trackNeighbors tid time = r at hNb1 hNb2 sp1 sp2 sp3 sp4 ⊢
        have hGr : G r.1 = G s := by rw [← hr]; exact G_trackNeighbors s tid time
        have hfr : Forest r.1 := forest_congr hGr hf
        obtain ⟨hf0, hnt0⟩ := addNodePre_basic r.2.1 r.2.2 a.force hfr
        rcases h0 : (addNodePre r.1 r.2.1 r.2.2 a.force).2 with e | r0
        · exact err _ _
        · simp only []
          obtain ⟨k1, k2⟩ := addNodePre_ok hfr h0
          have hnt : (addNodePre r.1 r.2.1 r.2.2 a.force).1.nt = s.nt := by rw [hnt0, G_nt hGr]
          have hids : (addNodePre r.1 r.2.1 r.2.2 a.force).1.ids = s.ids := by
            rw [ids_eq_nt, ids_eq_nt, hnt]
          apply addNodeTail_FOk hf0 (by rw [hids]; exact hnm)
          · intro p hp
            refine ⟨by rw [hids]; exact hNb1 p hp, ?_, fun hs => k1 p hp hs⟩
            rw [tm_congr hnt]; exact (sp3 p hp).2.1
          · intro sc hsc
            refine ⟨by rw [tm_congr hnt]; exact (sp1 sc hsc).2.1, fun hp => k2 hp sc hsc ?_⟩
            intro pos hpos
            rw [G_es hGr] at hpos
            rw [G_outdeg hGr]
            exact hNb2 hp sc hsc pos hpos

end St
end Ft

namespace Ft
namespace St

theorem book_mem_iff {s : St} (hb : BookOK s) (tid : Nat) (c : Node) :
    c ∈ (alook tid s.t2n).getD [] ↔ (c ∈ s.ids ∧ s.tidOf c = some tid) := by
  rw [← hb.t_iff tid c]
  constructor
  · intro h
    rcases hl : alook tid s.t2n with _ | l
    · rw [hl] at h; simp at h
    · rw [hl] at h; exact ⟨l, rfl, h⟩
  · rintro ⟨l, hl, hc⟩; rw [hl]; exact hc

theorem outdeg_pos_of_mem {s : St} {p c : Node} (h : (p, c) ∈ s.edgeList) : 1 ≤ s.outdeg p := by
  rw [outdeg_eq]
  exact List.length_pos_of_mem (List.mem_filter.mpr ⟨h, by simp⟩)

/-- under consistent bookkeeping and the local track-id rule the neighbour query of
    `UserAddNode` is harmless -/
theorem nbrAddOK_of_book {s : St} (hf : Forest s) (ht : TidOK s) (hb : BookOK s)
    (tid0 time : Nat) : NbrAddOK s (addTid s tid0 time) time := by
  obtain ⟨sp1, sp2, sp3, sp4⟩ := trackNeighbors_spec s (addTid s tid0 time) time
  refine ⟨fun p hp => ((book_mem_iff hb _ p).mp (sp3 p hp).1).1, ?_⟩
  intro hpn sc hsc pos hpos
  obtain ⟨scL, sct, scmin⟩ := sp1 sc hsc
  have nolt := sp4 hpn
  apply Classical.byContradiction
  intro hne
  have ho1 : s.outdeg pos = 1 := by
    have := hf.outdeg_le pos; have := outdeg_pos_of_mem hpos; omega
  have htid : s.tidOf sc = s.tidOf pos := ht.along (pos, sc) hpos ho1
  have posm : pos ∈ s.ids := hf.src_mem _ hpos
  have scm : sc ∈ s.ids := hf.dst_mem _ hpos
  have posL : pos ∈ (alook (addTid s tid0 time) s.t2n).getD [] := by
    rw [book_mem_iff hb]
    exact ⟨posm, by rw [← htid]; exact ((book_mem_iff hb _ sc).mp scL).2⟩
  have hfw : tm s pos < tm s sc :=
    hf.forward _ hpos _ _ (timeOf_of_mem posm) (timeOf_of_mem scm)
  have h1 := nolt pos posL
  have h2 : ¬ tm s pos > time := fun h => by have := scmin pos posL h; omega
  have heq : tm s pos = time := by omega
  -- a node of the track in the very frame: the track id would have been replaced by a fresh one
  unfold addTid at posL
  by_cases hh : s.hasTrackAt tid0 time = true
  · rw [if_pos hh] at posL
    have := ((book_mem_iff hb _ pos).mp posL).2
    have := hb.t_max pos _ this
    unfold nextTid at this; omega
  · rw [if_neg hh] at posL
    apply hh
    unfold hasTrackAt
    rcases hl : alook tid0 s.t2n with _ | l
    · rw [hl] at posL; simp at posL
    · rw [hl] at posL
      simp only [Option.getD_some] at posL
      simp only [List.any_eq_true]
      exact ⟨pos, posL, by rw [timeOf_of_mem posm, heq]; simp⟩

end St
end Ft

namespace Ft
namespace St

/-! #### UserDeleteNode -/

def delNodeLoop1 (s : St) (n : Node) : UOut :=
  (s.preds n).foldl (fun acc p =>
      match acc.2 with
      | .error _ => acc
      | .ok _ =>
        let sibs := acc.1.succs p
        let acc1 := if sibs.length == 2 then
            match (sibs.erase n).head? with
            | some sib => thenPrim acc (fun st => match st.tidOf p with
                | some t => st.pUpdTid sib t none
                | none => .error .key)
            | none => acc
          else acc
        thenPrim acc1 (fun st => st.pDelEdge (p, n))) (s, .ok [])

def delNodeLoop2 (a0 : UOut) (n : Node) : UOut :=
  (a0.1.succs n).foldl (fun acc c => thenPrim acc (fun st => st.pDelEdge (n, c))) a0

/-- the state in which `uDeleteNode` asks for the track neighbours: all edges at `n` removed,
    the sibling of `n` (if any) relabelled -/
def delNodeMid (s : St) (n : Node) : UOut := delNodeLoop2 (delNodeLoop1 s n) n

def delNodeTail (a1 : UOut) (orphans0 : List Node) (hasPred : Bool) (n : Node)
    (pixels : Option (List Pix)) (tid time : Nat) : UOut :=
      let r := a1.1.trackNeighbors tid time
      let a1' : UOut := (r.1, a1.2)
      let a2o : UOut × List Node :=
        match r.2.1, r.2.2 with
        | some p, some sc => (thenPrim a1' (fun st => st.pAddEdge (p, sc) []), orphans0.erase sc)
        | _, _ => (a1', orphans0)
      let idx := List.zip (List.range a2o.2.length) a2o.2
      let a3 : UOut := idx.foldl (fun acc io =>
          if hasPred || io.1 > 0 then
            thenPrim acc (fun st => match st.tidOf io.2 with
              | some t => st.pUpdTid io.2 t (some st.nextLin)
              | none => .error .key)
          else acc) a2o.1
      thenPrim a3 (fun st => st.pDelNode n pixels)

theorem uDeleteNode_eq (s : St) (n : Node) (pixels : Option (List Pix)) :
    s.uDeleteNode n pixels =
      if !(s.hasNode n) then (s, .error .key) else
      let a0 := delNodeLoop1 s n
      match a0.2 with
      | .error err => (a0.1, .error err)
      | .ok _ =>
        let a1 := delNodeLoop2 a0 n
        match a1.2, a1.1.tidOf n, a1.1.timeOf n with
        | .error err, _, _ => (a1.1, .error err)
        | .ok _, some tid, some time =>
          delNodeTail a1 (a0.1.succs n) (!(s.preds n).isEmpty) n pixels tid time
        | .ok _, _, _ => (a1.1, .error .key) := by
  rfl

end St
end Ft

namespace Ft
namespace St

theorem thenPrim_inv (P : St → Prop) {a : UOut} {f : St → Except Err (St × PrimRec)} (ha : P a.1)
    (hf : ∀ st st' r, P st → f st = .ok (st', r) → P st') : P (thenPrim a f).1 := by
  unfold thenPrim
  split
  · exact ha
  · split
    · rename_i h; exact hf _ _ _ ha h
    · exact ha

/-- "forest with the node table of `s`" — what the edge-deleting loops maintain -/
def FN (s : St) (st : St) : Prop := Forest st ∧ st.nt = s.nt

theorem FN_of_GPres {s : St} {f : St → Except Err (St × PrimRec)} (h : GPres f) :
    ∀ st st' r, FN s st → f st = .ok (st', r) → FN s st' :=
  fun _ _ _ hp hk => ⟨forest_congr (h _ _ _ hk) hp.1, by rw [G_nt (h _ _ _ hk)]; exact hp.2⟩

theorem FN_pDelEdge {s : St} (e : Edge) :
    ∀ st st' r, FN s st → st.pDelEdge e = .ok (st', r) → FN s st' :=
  fun _ _ _ hp hk => ⟨pDelEdge_forest hp.1 hk, by rw [G_nt' (pDelEdge_G hk).2]; exact hp.2⟩

theorem foldl_inv {α β} (P : α → Prop) (f : α → β → α) (l : List β) (a : α) (ha : P a)
    (hf : ∀ a b, P a → P (f a b)) : P (l.foldl f a) := by
  induction l generalizing a with
  | nil => exact ha
  | cons x r ih => exact ih _ (hf _ _ ha)

theorem delNodeLoop1_FN {s : St} (n : Node) (hf : Forest s) : FN s (delNodeLoop1 s n).1 := by
  unfold delNodeLoop1
  apply foldl_inv (fun acc : UOut => FN s acc.1)
  · exact ⟨hf, rfl⟩
  · intro acc p hacc
    simp only []
    split
    · exact hacc
    · apply thenPrim_inv (FN s) _ (FN_pDelEdge _)
      split
      · split
        · exact thenPrim_inv (FN s) hacc (FN_of_GPres (GPres_updTid_of _ _ _))
        · exact hacc
      · exact hacc

theorem delNodeLoop2_FN {s : St} {a0 : UOut} (n : Node) (h0 : FN s a0.1) :
    FN s (delNodeLoop2 a0 n).1 := by
  unfold delNodeLoop2
  apply foldl_inv (fun acc : UOut => FN s acc.1)
  · exact h0
  · intro acc c hacc
    exact thenPrim_inv (FN s) hacc (FN_pDelEdge _)

theorem delNodeMid_FN {s : St} (n : Node) (hf : Forest s) : FN s (delNodeMid s n).1 :=
  delNodeLoop2_FN n (delNodeLoop1_FN n hf)

/-- the condition on the neighbour query of `UserDeleteNode` (asked in `delNodeMid`): the
    bridging edge `pred → succ` does not create a merge or a third child -/
def DelNbrOK (s : St) (n : Node) : Prop :=
  let s1 := (delNodeMid s n).1
  match s1.tidOf n, s1.timeOf n with
  | some tid, some time =>
    match (s1.trackNeighbors tid time).2.1, (s1.trackNeighbors tid time).2.2 with
    | some p, some sc => s1.indeg sc = 0 ∧ s1.outdeg p ≤ 1
    | _, _ => True
  | _, _ => True

instance (s : St) (n : Node) : Decidable (DelNbrOK s n) := by
  unfold DelNbrOK
  simp only []
  split
  · split
    · infer_instance
    · infer_instance
  · infer_instance

theorem delNodeTail_FOk {a1 : UOut} {orphans0 : List Node} {hasPred : Bool} {n : Node}
    {pixels : Option (List Pix)} {tid time : Nat}
    (hf : Forest a1.1)
    (hN : ∀ p sc, (a1.1.trackNeighbors tid time).2.1 = some p →
        (a1.1.trackNeighbors tid time).2.2 = some sc → a1.1.indeg sc = 0 ∧ a1.1.outdeg p ≤ 1) :
    FOk (delNodeTail a1 orphans0 hasPred n pixels tid time) := by
  unfold delNodeTail
  simp only []
  obtain ⟨sp1, -, sp3, -⟩ := trackNeighbors_spec a1.1 tid time
  generalize hr : a1.1.trackNeighbors tid time = r at hN sp1 sp3 ⊢
  have hGr : G r.1 = G a1.1 := by rw [← hr]; exact G_trackNeighbors _ _ _
  have hfr : Forest r.1 := forest_congr hGr hf
  apply thenPrim_FOk _ (fun _ _ _ h1 h2 => pDelNode_forest h1 h2)
  -- the relabelling loop
  have loop : ∀ (l : List (Nat × Node)) (a2 : UOut), FOk a2 →
      FOk (l.foldl (fun acc io =>
          if hasPred || io.1 > 0 then
            thenPrim acc (fun st => match st.tidOf io.2 with
              | some t => st.pUpdTid io.2 t (some st.nextLin)
              | none => .error .key)
          else acc) a2) := by
    intro l a2 h2
    apply foldl_inv FOk _ _ _ h2
    intro acc io hacc
    split
    · exact thenPrim_FOk hacc (FPresP_of_GPres (GPres_updTid_of _ _ _))
    · exact hacc
  apply loop
  have base : FOk (r.1, a1.2) := fun _ _ => hfr
  rcases hp : r.2.1 with _ | p
  · exact base
  · rcases hs : r.2.2 with _ | sc
    · exact base
    · simp only []
      intro rr hrr
      obtain ⟨_, st', _, _, hk, h2, _⟩ := thenPrim_ok hrr
      rw [h2]
      obtain ⟨n1, n2⟩ := hN p sc hp hs
      refine (pAddEdge_forest_G hfr ?_ ?_ ?_ hk).1
      · rw [G_indeg hGr]; exact n1
      · rw [G_outdeg hGr]; exact n2
      · show tm r.1 p < tm r.1 sc
        rw [tm_congr (G_nt hGr), tm_congr (G_nt hGr)]
        have := (sp3 p hp).2.1; have := (sp1 sc hs).2.1; omega

theorem uDeleteNode_forest_of {s : St} {n : Node} {pixels : Option (List Pix)} {recs : List PrimRec}
    (hf : Forest s) (hN : DelNbrOK s n) (h : (s.uDeleteNode n pixels).2 = .ok recs) :
    Forest (s.uDeleteNode n pixels).1 := by
  revert recs
  change FOk (s.uDeleteNode n pixels)
  rw [uDeleteNode_eq]
  have err : ∀ (st : St) (e : Err), FOk (st, .error e) := fun _ e r h => by cases h
  split
  · exact err _ _
  · simp only []
    split
    · exact err _ _
    · have hmid := (delNodeMid_FN n hf).1
      unfold DelNbrOK at hN
      unfold delNodeMid at hmid hN
      simp only [] at hN
      split
      · exact err _ _
      · rename_i tid time _ htid htime
        rw [htid, htime] at hN
        simp only [] at hN
        apply delNodeTail_FOk hmid
        intro p sc hp hs
        rw [hp, hs] at hN
        exact hN
      · exact err _ _

end St
end Ft

namespace Ft
namespace St

/-! ### Boolean checkers for `TidOK` and `BookOK` (soundness only; used for the examples) -/

def isHeadB (s : St) (a : Node) : Bool :=
  s.ids.contains a && s.edgeList.all (fun e => e.2 != a || s.outdeg e.1 == 2)

theorem isHeadB_iff (s : St) (a : Node) : isHeadB s a = true ↔ IsHead s a := by
  unfold isHeadB IsHead
  simp only [Bool.and_eq_true, List.contains_iff_mem, List.all_eq_true, Bool.or_eq_true,
    bne_iff_ne, beq_iff_eq]
  constructor
  · rintro ⟨h1, h2⟩
    refine ⟨h1, fun p hp => ?_⟩
    rcases h2 (p, a) hp with h | h
    · exact absurd rfl h
    · exact h
  · rintro ⟨h1, h2⟩
    refine ⟨h1, fun e he => ?_⟩
    by_cases c : e.2 = a
    · right; subst c; exact h2 e.1 he
    · left; exact c

def tidB (s : St) : Bool :=
  s.edgeList.all (fun e => s.outdeg e.1 != 1 || s.tidOf e.2 == s.tidOf e.1) &&
  s.ids.all (fun a => s.ids.all (fun b =>
    !(isHeadB s a && isHeadB s b && a != b) || s.tidOf a != s.tidOf b))

theorem tidB_sound {s : St} (h : tidB s = true) : TidOK s := by
  unfold tidB at h
  simp only [Bool.and_eq_true, List.all_eq_true, Bool.or_eq_true, bne_iff_ne, beq_iff_eq,
    Bool.not_eq_true', Bool.and_eq_false_iff] at h
  refine ⟨?_, ?_⟩
  · intro e he ho
    rcases h.1 e he with h' | h'
    · exact absurd ho h'
    · exact h'
  · intro a b ha hb hab
    rcases h.2 a ha.1 b hb.1 with h' | h'
    · rcases h' with (h' | h') | h'
      · rw [← Bool.not_eq_true, isHeadB_iff] at h'; exact absurd ha h'
      · rw [← Bool.not_eq_true, isHeadB_iff] at h'; exact absurd hb h'
      · simp at h'; exact absurd h' hab
    · exact h'

theorem alook_mem {β} {k : Nat} {v : β} {m : List (Nat × β)} (h : alook k m = some v) :
    (k, v) ∈ m := by
  induction m with
  | nil => simp [alook] at h
  | cons a r ih =>
    obtain ⟨k', v'⟩ := a
    unfold alook at h
    split at h
    · rename_i hk
      have : k' = k := by simpa using hk
      simp only [Option.some.injEq] at h
      rw [this, h]; exact List.mem_cons_self
    · exact List.mem_cons_of_mem _ (ih h)

def bookMapB (m : List (Nat × List Node)) (ids : List Node) (val : Node → Option Nat) (mx : Nat) :
    Bool :=
  m.all (fun kv => kv.2.all (fun n => ids.contains n && val n == some kv.1)) &&
  ids.all (fun n => match val n with
    | some t => (match alook t m with
        | some l => l.contains n
        | none => false) && decide (t ≤ mx)
    | none => true)

theorem bookMapB_sound {m : List (Nat × List Node)} {ids : List Node} {val : Node → Option Nat}
    {mx : Nat} (h : bookMapB m ids val mx = true) (hval : ∀ n t, val n = some t → n ∈ ids) :
    (∀ id n, (∃ l, alook id m = some l ∧ n ∈ l) ↔ (n ∈ ids ∧ val n = some id)) ∧
    (∀ n t, val n = some t → t ≤ mx) := by
  unfold bookMapB at h
  simp only [Bool.and_eq_true, List.all_eq_true, List.contains_iff_mem, beq_iff_eq] at h
  obtain ⟨h1, h2⟩ := h
  have key : ∀ n t, val n = some t → (∃ l, alook t m = some l ∧ n ∈ l) ∧ t ≤ mx := by
    intro n t hv
    have := h2 n (hval n t hv)
    rw [hv] at this
    simp only [Bool.and_eq_true, decide_eq_true_eq] at this
    refine ⟨?_, this.2⟩
    rcases hl : alook t m with _ | l
    · rw [hl] at this; simp at this
    · rw [hl] at this; exact ⟨l, rfl, by simpa using this.1⟩
  refine ⟨fun id n => ⟨?_, ?_⟩, fun n t hv => (key n t hv).2⟩
  · rintro ⟨l, hl, hn⟩
    exact h1 (id, l) (alook_mem hl) n hn
  · rintro ⟨_, hv⟩
    exact (key n id hv).1

def bookB (s : St) : Bool :=
  decide (s.t2n.map (·.1)).Nodup && s.t2n.all (fun kv => decide kv.2.Nodup) &&
  decide (s.l2n.map (·.1)).Nodup && s.l2n.all (fun kv => decide kv.2.Nodup) &&
  bookMapB s.t2n s.ids s.tidOf s.maxTid &&
  (!s.linOn || bookMapB s.l2n s.ids s.linOf s.maxLin)

theorem findNode_mem_ids {s : St} {n : Node} {r : NodeRec} (h : s.findNode n = some r) : n ∈ s.ids := by
  rw [← hasNode_iff]; simp [hasNode, h]

theorem bookB_sound {s : St} (h : bookB s = true) : BookOK s := by
  unfold bookB at h
  simp only [Bool.and_eq_true, decide_eq_true_eq, List.all_eq_true, Bool.or_eq_true,
    Bool.not_eq_true'] at h
  obtain ⟨⟨⟨⟨⟨k1, n1⟩, k2⟩, n2⟩, bt⟩, bl⟩ := h
  have vt : ∀ n t, s.tidOf n = some t → n ∈ s.ids := by
    intro n t hv; unfold tidOf at hv
    rcases hf : s.findNode n with _ | r
    · rw [hf] at hv; simp at hv
    · exact findNode_mem_ids hf
  have vl : ∀ n t, s.linOf n = some t → n ∈ s.ids := by
    intro n t hv; unfold linOf at hv
    rcases hf : s.findNode n with _ | r
    · rw [hf] at hv; simp at hv
    · exact findNode_mem_ids hf
  obtain ⟨t1, t2⟩ := bookMapB_sound bt vt
  refine ⟨k1, fun id l hl => n1 _ (alook_mem hl), t1, t2, k2, fun id l hl => n2 _ (alook_mem hl), ?_, ?_⟩
  · intro hon
    rcases bl with bl | bl
    · rw [hon] at bl; cases bl
    · exact (bookMapB_sound bl vl).1
  · intro hon
    rcases bl with bl | bl
    · rw [hon] at bl; cases bl
    · exact (bookMapB_sound bl vl).2

end St
end Ft


namespace Ft
namespace St

/-! #### UserUpdateSegmentation -/

def paintStep (acc : UOut) (grp : List Pix × Nat) : UOut :=
  match acc.2 with
  | .error _ => acc
  | .ok _ =>
    if grp.2 == 0 then acc else
    match acc.1.seg, grp.1.head? with
    | some g, some p0 =>
      let time := p0 / g.frame
      if (g.offsetsOf time grp.2).isEmpty then
        thenUser acc (fun st => st.uDeleteNode grp.2 (some grp.1))
      else thenPrim acc (fun st => st.pUpdSeg grp.2 grp.1 false)
    | _, _ => (acc.1, .error .other)

def paintFinal (a0 : UOut) (recs0 : List PrimRec) (newValue : Nat) (groups : List (List Pix × Nat))
    (curTid : Nat) (force : Bool) : UOut × Option Node :=
    if newValue != 0 && !groups.isEmpty then
      let allPix := groups.flatMap (·.1)
      match a0.1.seg, allPix.head? with
      | some g, some p0 =>
        let time := p0 / g.frame
        if a0.1.hasNode newValue then
          (thenPrim a0 (fun st => st.pUpdSeg newValue allPix true), none)
        else
          let r := a0.1.uAddNode { node := newValue, time := some time, tid := some curTid,
                                   lin := none, other := [], pixels := some allPix, force := force }
          match r.2 with
          | .ok recs' => ((r.1, .ok (recs0 ++ recs')), some newValue)
          | .error err => ((r.1.rollback recs0, .error err), none)
      | _, _ => ((a0.1, .error .other), none)
    else (a0, none)

theorem uUpdateSeg_eq (s : St) (newValue : Nat) (groups : List (List Pix × Nat)) (curTid : Nat)
    (force : Bool) :
    s.uUpdateSeg newValue groups curTid force =
      match s.seg with
      | none => ((s, .error .value), none)
      | some _ =>
        let a0 := groups.foldl paintStep (s, .ok [])
        match a0.2 with
        | .error err => ((a0.1, .error err), none)
        | .ok recs0 => paintFinal a0 recs0 newValue groups curTid force := by
  rfl

/-- "if the outcome is ok, the state satisfies `I`" -/
def IOk (I : St → Prop) (a : UOut) : Prop := ∀ r, a.2 = .ok r → I a.1

/-- `UserUpdateSegmentation` composes `UserDeleteNode` / `UpdateNodeSeg` per overwritten label and
    then `UpdateNodeSeg` / `UserAddNode`: it keeps a forest whenever an invariant `I ⊆ Forest` is
    kept by accepted delete-node and by the seg primitive and lets accepted add-node keep the
    forest -/
theorem uUpdateSeg_forest_of (I : St → Prop)
    (hIF : ∀ st, I st → Forest st)
    (hDel : ∀ st n px r, I st → (st.uDeleteNode n px).2 = .ok r → I (st.uDeleteNode n px).1)
    (hSeg : ∀ st st' n px b r, I st → st.pUpdSeg n px b = .ok (st', r) → I st')
    (hAdd : ∀ st a r, I st → (st.uAddNode a).2 = .ok r → Forest (st.uAddNode a).1)
    {s : St} {newValue : Nat} {groups : List (List Pix × Nat)} {curTid : Nat} {force : Bool}
    {recs : List PrimRec} (hI : I s)
    (h : (s.uUpdateSeg newValue groups curTid force).1.2 = .ok recs) :
    Forest (s.uUpdateSeg newValue groups curTid force).1.1 := by
  revert recs
  change FOk (s.uUpdateSeg newValue groups curTid force).1
  rw [uUpdateSeg_eq]
  have err : ∀ (st : St) (e : Err), FOk (st, .error e) := fun _ e r h => by cases h
  have ierr : ∀ (st : St) (e : Err), IOk I (st, .error e) := fun _ e r h => by cases h
  split
  · exact err _ _
  · simp only []
    have hloop : IOk I (groups.foldl paintStep (s, .ok [])) := by
      apply foldl_inv (IOk I)
      · exact fun _ _ => hI
      · intro acc grp hacc
        unfold paintStep
        split
        · exact hacc
        · split
          · exact hacc
          · split
            · simp only []
              split
              · intro r hr
                obtain ⟨r0, r1, h0, h1, h2, -⟩ := thenUser_ok hr
                rw [h2]; exact hDel _ _ _ _ (hacc _ h0) h1
              · intro r hr
                obtain ⟨r0, st', r1, h0, h1, h2, -⟩ := thenPrim_ok hr
                rw [h2]; exact hSeg _ _ _ _ _ _ (hacc _ h0) h1
            · exact ierr _ _
    generalize groups.foldl paintStep (s, .ok []) = a0 at hloop ⊢
    rcases h0 : a0.2 with e | recs0
    · exact err _ _
    · simp only []
      have hI0 : I a0.1 := hloop _ h0
      unfold paintFinal
      split
      · simp only []
        split
        · split
          · exact thenPrim_FOk (fun _ _ => hIF _ hI0)
              (fun _ _ _ hf hk => forest_congr (pUpdSeg_G hk) hf)
          · split
            · rename_i recs' hr
              intro _ _
              exact hAdd _ _ _ hI0 hr
            · exact err _ _
        · exact err _ _
      · exact fun _ _ => hIF _ hI0

end St
end Ft

namespace Ft
namespace St

/-! #### session level: `commit` only touches history and refresh log -/

theorem commit_forest {r : UOut} {p : Option Node} (h : FOk r)
    (hne : ∀ e, (commit r p).2 ≠ .err e) : Forest (commit r p).1 := by
  unfold commit at hne ⊢
  rcases hr : r.2 with e | recs
  · rw [hr] at hne; exact absurd rfl (hne e)
  · simp only []
    exact forest_congr (s := r.1) rfl (h _ hr)

/-- the operations covered by `C03_step_session` -/
def c03Covered : Op → Bool
  | .paint .. | .undo | .redo | .enable .. => false
  | _ => true

theorem step_forest {s : St} {op : Op} (hf : Forest s) (ht : TidOK s) (hb : BookOK s)
    (hd : ∀ n, op = .delNode n → DelNbrOK s n) (hop : c03Covered op = true)
    (hne : ∀ e, (s.step op).2 ≠ .err e) : Forest (s.step op).1 := by
  cases op with
  | addEdge e f => exact commit_forest (fun _ h => uAddEdge_forest hf h) hne
  | delEdge e => exact commit_forest (fun _ _ => uDeleteEdge_forest e hf) hne
  | addNode a =>
    exact commit_forest (fun _ h => uAddNode_forest_of hf
      (fun time tid0 _ _ => nbrAddOK_of_book hf ht hb tid0 time) h) hne
  | delNode n => exact commit_forest (fun _ h => uDeleteNode_forest_of hf (hd n rfl) h) hne
  | swap a b => exact commit_forest (fun _ h => uSwap_forest hf h) hne
  | updAttrs n attrs =>
    exact commit_forest (fun _ _ => forest_congr (uUpdateAttrs_G s n attrs) hf) hne
  | paint => cases hop
  | undo => cases hop
  | redo => cases hop
  | enable => cases hop
  | disable ks =>
    unfold step
    simp only []
    split
    · rename_i s' h
      unfold disable at h
      split at h
      · cases h
      · simp only [Option.some.injEq] at h
        rw [← h]; exact forest_congr (s := s) rfl hf
    · exact hf
  | qNeighbors tid time => exact forest_congr (G_trackNeighbors s tid time) hf
  | qHasTrack => exact hf
  | qNewIds n => exact forest_congr (G_newNodeIds s n) hf
  | nop => exact hf

end St
end Ft

namespace Ft
namespace St

/-! #### rollback of a nested `UserDeleteEdge` (forced add-edge refused for a third child) -/

/-- a relabel record whose start node exists -/
def IsUpd (ids : List Node) (r : PrimRec) : Prop :=
  ∃ st oT nT oL nL, r = .updTid st oT nT oL nL ∧ st ∈ ids

theorem pUpdTid_rec {s s' : St} {st nT : Nat} {nL : Option Nat} {r : PrimRec}
    (h : s.pUpdTid st nT nL = .ok (s', r)) : IsUpd s.ids r := by
  unfold pUpdTid at h
  split at h
  · cases h
  · rename_i nr hnr
    simp only [Except.ok.injEq, Prod.mk.injEq] at h
    exact ⟨st, _, _, _, _, h.2.symm, findNode_mem_ids hnr⟩

theorem updTid_of_rec {s s' : St} {a b : Node} {l : Option Nat} {r : PrimRec}
    (h : (match s.tidOf a with
      | some t => s.pUpdTid b t l
      | none => .error .key) = .ok (s', r)) : IsUpd s.ids r := by
  split at h
  · exact pUpdTid_rec h
  · cases h

def invStepF (acc : St × Except Err (List PrimRec)) (p : PrimRec) : St × Except Err (List PrimRec) :=
  match acc.2 with
  | .error e => (acc.1, .error e)
  | .ok done =>
    match acc.1.invPrim p with
    | .ok (s', r) => (s', .ok (done ++ [r]))
    | .error e => (acc.1, .error e)

theorem invGroup_eqF (s : St) (recs : List PrimRec) :
    s.invGroup recs = recs.reverse.foldl invStepF (s, .ok []) := rfl

theorem findNode_of_mem {s : St} {n : Node} (h : n ∈ s.ids) : ∃ r, s.findNode n = some r := by
  rw [← hasNode_iff] at h
  unfold hasNode at h
  rcases hf : s.findNode n with _ | r
  · rw [hf] at h; cases h
  · exact ⟨r, rfl⟩

theorem invFold_upds (l : List PrimRec) (s : St) (d : List PrimRec)
    (h : ∀ r ∈ l, IsUpd s.ids r) :
    ∃ s' d', l.foldl invStepF (s, .ok d) = (s', .ok d') ∧ G s' = G s := by
  induction l generalizing s d with
  | nil => exact ⟨s, d, rfl, rfl⟩
  | cons p r ih =>
    obtain ⟨st, oT, nT, oL, nL, hp, hm⟩ := h p List.mem_cons_self
    obtain ⟨nr, hnr⟩ := findNode_of_mem hm
    have h1 : invStepF (s, .ok d) p =
        (s.walk st nr.tid oT nr.lin oL, .ok (d ++ [.updTid st nr.tid oT nr.lin oL])) := by
      subst hp
      simp [invStepF, invPrim, pUpdTid, hnr]
    rw [List.foldl_cons, h1]
    have hG : G (s.walk st nr.tid oT nr.lin oL) = G s := G_walk _ _ _ _ _ _
    obtain ⟨s', d', e1, e2⟩ := ih (s.walk st nr.tid oT nr.lin oL) _
      (fun x hx => by rw [G_ids hG]; exact h x (List.mem_cons_of_mem _ hx))
    exact ⟨s', d', e1, e2.trans hG⟩

/-- records of an accepted `UserDeleteEdge`: the `DeleteEdge`, then relabels of existing nodes -/
theorem uDeleteEdge_recs {s : St} {e : Edge} {recs : List PrimRec}
    (h : (s.uDeleteEdge e).2 = .ok recs) :
    ∃ saved rest, recs = .delEdge e saved :: rest ∧ ∀ r ∈ rest, IsUpd s.ids r := by
  unfold uDeleteEdge at h
  by_cases he : s.hasEdge e = true
  · have he' := (hasEdge_iff _ _).mp he
    obtain ⟨s1, r, h1⟩ := pDelEdge_isOk he'
    have ha : thenPrim (s, .ok []) (fun st => st.pDelEdge e) = (s1, .ok [r]) := by
      simp [thenPrim, h1]
    have hids : s1.ids = s.ids := by
      rw [ids_eq_nt, ids_eq_nt, G_nt' (pDelEdge_G h1).2]
    have hr : ∃ saved, r = .delEdge e saved := by
      unfold pDelEdge at h1
      split at h1
      · cases h1
      · simp only [Except.ok.injEq, Prod.mk.injEq] at h1; exact ⟨_, h1.2.symm⟩
    obtain ⟨saved, hr⟩ := hr
    simp only [he, Bool.not_true, Bool.false_eq_true, if_false, ha] at h
    split at h
    · obtain ⟨r0, s', r', h0, h2, -, h4⟩ := thenPrim_ok h
      simp only [Except.ok.injEq] at h0; subst h0
      refine ⟨saved, [r'], by rw [h4, hr]; rfl, ?_⟩
      intro x hx; simp at hx; subst hx
      rw [← hids]; exact pUpdTid_rec h2
    · split at h
      · split at h
        · cases h
        · obtain ⟨r0, s', r', h0, h2, -, h4⟩ := thenPrim_ok h
          obtain ⟨r00, s'', r'', h00, h22, h33, h44⟩ := thenPrim_ok h0
          simp only [Except.ok.injEq] at h00; subst h00
          refine ⟨saved, [r'', r'], by rw [h4, h44, hr]; rfl, ?_⟩
          have hG : G s'' = G s1 := by
            have h5 := h22
            simp only [] at h5
            split at h5
            · exact pUpdTid_G h5
            · cases h5
          intro x hx; simp at hx
          rcases hx with rfl | rfl
          · rw [← hids]; exact updTid_of_rec (s := s1) h22
          · rw [← hids, ← G_ids hG, ← h33]; exact updTid_of_rec h2
      · cases h
  · simp [he] at h

end St
end Ft

namespace Ft
namespace St

theorem pAddEdge_isOk {s : St} {e : Edge} (at_ : List (Key × Val)) (h1 : e.1 ∈ s.ids)
    (h2 : e.2 ∈ s.ids) : ∃ s' r, s.pAddEdge e at_ = .ok (s', r) := by
  unfold pAddEdge
  rw [← hasNode_iff] at h1 h2
  simp [h1, h2]

/-- rolling back an accepted `UserDeleteEdge` restores nodes, times and the edge set -/
theorem rollback_uDeleteEdge {s : St} {e : Edge} {recs : List PrimRec}
    (h1 : e.1 ∈ s.ids) (h2 : e.2 ∈ s.ids) (h : (s.uDeleteEdge e).2 = .ok recs) :
    G ((s.uDeleteEdge e).1.rollback recs) = (s.nt, s.edgeList.filter (· != e) ++ [e]) := by
  obtain ⟨saved, rest, hrecs, hrest⟩ := uDeleteEdge_recs h
  have hG := uDeleteEdge_G' s e
  generalize (s.uDeleteEdge e).1 = s1 at hG ⊢
  have hids : s1.ids = s.ids := by rw [ids_eq_nt, ids_eq_nt, G_nt' hG]
  unfold rollback
  rw [invGroup_eqF, hrecs, List.reverse_cons, List.foldl_append]
  obtain ⟨s2, d2, e1, e2⟩ := invFold_upds rest.reverse s1 []
    (fun r hr => by rw [hids]; exact hrest r (List.mem_reverse.mp hr))
  rw [e1]
  have hids2 : s2.ids = s.ids := by rw [G_ids e2, hids]
  obtain ⟨s3, r3, h3⟩ := pAddEdge_isOk (s := s2) saved (by rw [hids2]; exact h1) (by rw [hids2]; exact h2)
  have : [PrimRec.delEdge e saved].foldl invStepF (s2, .ok d2) = (s3, .ok (d2 ++ [r3])) := by
    simp [invStepF, invPrim, h3]
  rw [this]
  obtain ⟨-, -, hG3⟩ := pAddEdge_G h3
  rw [hG3, G_nt e2, G_es e2, G_nt' hG, G_es' hG]
  have : e ∉ s.edgeList.filter (· != e) := by simp
  rw [if_neg this]

end St
end Ft
