/-
  FtProofs.R8SSimLemmas — package R8S, part 2c: the seven user actions, the session step and whole
  operation lists are congruent for `Sim` ("same object up to the order inside the lookups").

  The only reader of the lookups whose RESULT could depend on the order inside a list is
  `get_track_neighbors` (stable sort by time, then a scan): it is called by `UserAddNode` (first
  thing), by `UserDeleteNode` (in the middle state: edges at the node removed, sibling relabelled)
  and by the query.  On a `Valid` solution the nodes of one track have pairwise distinct times, in
  the start state (`tinj_valid`) and in that middle state (`R2C.mid_stg`, `R2C.mid_tid_iff`), so the
  sort has one possible result (`trackNeighbors_sim`).  Everything else is structural.
-/
import FtProofs.R8SPrimLemmas
import FtProofs.R3DFinalLemmas
import FtProofs.Props.C02_R3D_main

set_option linter.unusedSimpArgs false

namespace Ft.R8S
open Ft Ft.St List

/-! ## §1 distinct times inside a track -/

theorem tinj_of {s st : St} (hF : s.Forest) (hTd : s.TidOK) (hnt : st.nt = s.nt) (hTOK : PC.TOK st)
    (T : Nat) (htid : ∀ x, st.tidOf x = some T → s.tidOf x = some T) {l : List Node}
    (hl : alook T st.t2n = some l) : TInj st l := by
  intro a b ha hb htm
  apply Classical.byContradiction
  intro hne
  obtain ⟨ha1, ha2⟩ := (hTOK.iff T a).1 ⟨l, hl, ha⟩
  obtain ⟨hb1, hb2⟩ := (hTOK.iff T b).1 ⟨l, hl, hb⟩
  rw [R2C.ids_of_nt hnt] at ha1 hb1
  have e : s.tidOf a = s.tidOf b := (htid a ha2).trans (htid b hb2).symm
  rw [R2C.pc_tm_eq hnt, R2C.pc_tm_eq hnt] at htm
  rcases R2C.seg_comparable hF hTd ha1 hb1 e with hd | hd
  · have := R2C.segDown_tm_lt hF hd hne; omega
  · have := R2C.segDown_tm_lt hF hd (fun h => hne h.symm); omega

/-- on a valid solution every lookup list has pairwise distinct times -/
theorem tinj_valid {s : St} (hV : s.Valid) (T : Nat) {l : List Node} (hl : alook T s.t2n = some l) :
    TInj s l :=
  tinj_of hV.forest hV.tid rfl ((PC.bookOK_iff s).1 hV.book).1 T (fun _ h => h) hl

/-! ## §2 `UserDeleteEdge`, `UserAddEdge`, `UserSwapPredecessors`, `UserUpdateNodeAttrs` -/

theorem simPrim_pDelEdge (e : Edge) : SimPrim (fun st => st.pDelEdge e) := (BlindP.pDelEdge e).simPrim
theorem simPrim_pAddEdge (e : Edge) (at_ : List (Key × Val)) : SimPrim (fun st => st.pAddEdge e at_) :=
  (BlindP.pAddEdge e at_).simPrim
theorem simPrim_pDelNode (n : Node) (px : Option (List Pix)) : SimPrim (fun st => st.pDelNode n px) :=
  fun _ _ h => pDelNode_sim h n px

theorem simPrim_relabelFresh (n : Node) :
    SimPrim (fun st => st.pUpdTid n st.nextTid (some st.nextLin)) :=
  SimPrim.pUpdTid n (fun st => st.nextTid) (fun st => some st.nextLin) (fun _ _ h => h.nextTid)
    (fun _ _ h => by simp only [h.nextLin])

theorem simPrim_relabelFreshT (n : Node) : SimPrim (fun st => st.pUpdTid n st.nextTid none) :=
  SimPrim.pUpdTid n (fun st => st.nextTid) (fun _ => none) (fun _ _ h => h.nextTid) (fun _ _ _ => rfl)

theorem simPrim_tidOf_none (m n : Node) :
    SimPrim (fun st => match st.tidOf m with
      | some t => st.pUpdTid n t none
      | none => .error .key) :=
  SimPrim.pUpdTid_tidOf m n (fun _ => none) (fun _ _ _ => rfl)

theorem simPrim_tidOf_freshL (m n : Node) :
    SimPrim (fun st => match st.tidOf m with
      | some t => st.pUpdTid n t (some st.nextLin)
      | none => .error .key) :=
  SimPrim.pUpdTid_tidOf m n (fun st => some st.nextLin) (fun _ _ h => by simp only [h.nextLin])

theorem simPrim_tidOf_linOf (m n k : Node) :
    SimPrim (fun st => match st.tidOf m with
      | some t => st.pUpdTid n t (st.linOf k)
      | none => .error .key) :=
  SimPrim.pUpdTid_tidOf m n (fun st => st.linOf k) (fun _ _ h => h.linOf k)

theorem udeRest_sim (e : Edge) {a b : UOut} (h : SimU a b) : SimU (R3D.udeRest e a) (R3D.udeRest e b) := by
  unfold R3D.udeRest
  rw [h.1.outdeg, h.1.succs]
  by_cases h0 : (a.1.outdeg e.1 == 0) = true
  · simp only [h0, ↓reduceIte]
    exact thenPrim_sim h (simPrim_relabelFresh e.2)
  · simp only [h0, Bool.false_eq_true, ↓reduceIte]
    by_cases h1 : (a.1.outdeg e.1 == 1) = true
    · simp only [h1, ↓reduceIte]
      rcases (a.1.succs e.1).head? with _ | sib
      · exact ⟨h.1, rfl⟩
      · exact thenPrim_sim (thenPrim_sim h (simPrim_tidOf_none e.1 sib)) (simPrim_tidOf_freshL e.2 e.2)
    · simp only [h1, Bool.false_eq_true, ↓reduceIte]
      exact ⟨h.1, rfl⟩

theorem uDeleteEdge_sim (e : Edge) : SimUser (fun st => st.uDeleteEdge e) := by
  intro s t h
  show SimU (s.uDeleteEdge e) (t.uDeleteEdge e)
  rw [R3D.uDeleteEdge_def, R3D.uDeleteEdge_def, h.hasEdge]
  by_cases hh : (!(s.hasEdge e)) = true
  · simp only [hh, ↓reduceIte]; exact ⟨h, rfl⟩
  · simp only [hh, Bool.false_eq_true, ↓reduceIte]
    exact udeRest_sim e (thenPrim_sim (a := (s, .ok [])) (b := (t, .ok [])) ⟨h, rfl⟩ (simPrim_pDelEdge e))

theorem addEdgePre_sim {s t : St} (h : Sim s t) (e : Edge) (force : Bool) :
    SimU (addEdgePre s e force) (addEdgePre t e force) := by
  unfold St.addEdgePre
  rw [h.indeg, h.preds]
  by_cases h0 : s.indeg e.2 > 0
  · simp only [h0, ↓reduceIte]
    cases force
    · exact ⟨h, rfl⟩
    · simp only [Bool.not_true, Bool.false_eq_true, ↓reduceIte]
      rcases (s.preds e.2).head? with _ | p
      · exact ⟨h, rfl⟩
      · exact thenUser_sim (a := (s, .ok [])) (b := (t, .ok [])) ⟨h, rfl⟩ (uDeleteEdge_sim (p, e.2))
  · simp only [h0, ↓reduceIte]
    exact ⟨h, rfl⟩

theorem addEdgeTail_sim {a b : UOut} (h : SimU a b) (recs0 : List PrimRec) (e : Edge) :
    SimU (addEdgeTail a recs0 e) (addEdgeTail b recs0 e) := by
  unfold St.addEdgeTail
  simp only
  rw [h.1.outdeg, h.1.succs]
  refine thenPrim_sim ?_ (simPrim_pAddEdge e [])
  by_cases h0 : (a.1.outdeg e.1 == 0) = true
  · simp only [h0, ↓reduceIte]
    exact thenPrim_sim h (simPrim_tidOf_linOf e.1 e.2 e.1)
  · simp only [h0, Bool.false_eq_true, ↓reduceIte]
    by_cases h1 : (a.1.outdeg e.1 == 1) = true
    · simp only [h1, ↓reduceIte]
      rcases (a.1.succs e.1).head? with _ | sc
      · exact ⟨h.1, rfl⟩
      · exact thenPrim_sim (thenPrim_sim h (simPrim_relabelFreshT sc)) (simPrim_tidOf_linOf e.2 e.2 e.1)
    · simp only [h1, Bool.false_eq_true, ↓reduceIte]
      exact ⟨rollback_sim h.1 recs0, rfl⟩

theorem uAddEdge_sim (e : Edge) (force : Bool) : SimUser (fun st => st.uAddEdge e force) := by
  intro s t h
  show SimU (s.uAddEdge e force) (t.uAddEdge e force)
  rw [uAddEdge_eq, uAddEdge_eq, h.hasNode, h.hasNode, h.timeOf, h.timeOf]
  by_cases c1 : (!(s.hasNode e.1)) = true
  · simp only [c1, ↓reduceIte]; exact ⟨h, rfl⟩
  · simp only [c1, Bool.false_eq_true, ↓reduceIte]
    by_cases c2 : (!(s.hasNode e.2)) = true
    · simp only [c2, ↓reduceIte]; exact ⟨h, rfl⟩
    · simp only [c2, Bool.false_eq_true, ↓reduceIte]
      by_cases c3 : (s.timeOf e.1).getD 0 ≥ (s.timeOf e.2).getD 0
      · simp only [c3, ↓reduceIte]; exact ⟨h, rfl⟩
      · simp only [c3, ↓reduceIte]
        have hp := addEdgePre_sim h e force
        rw [← hp.2]
        rcases h2 : (addEdgePre s e force).2 with err | recs0
        · exact ⟨hp.1, rfl⟩
        · exact addEdgeTail_sim hp recs0 e

theorem swapTail_sim {s t : St} (h : Sim s t) (p1 p2 : Option Node) (n1 n2 : Node) :
    SimU (R2G.swapTail s p1 p2 n1 n2) (R2G.swapTail t p1 p2 n1 n2) := by
  have a0 : SimU ((s, .ok []) : UOut) (t, .ok []) := ⟨h, rfl⟩
  unfold R2G.swapTail
  cases p1 with
  | none =>
    cases p2 with
    | none => exact a0
    | some q =>
      exact thenUser_sim (thenUser_sim a0 (uDeleteEdge_sim (q, n2))) (uAddEdge_sim (q, n1) false)
  | some p =>
    cases p2 with
    | none =>
      exact thenUser_sim (thenUser_sim a0 (uDeleteEdge_sim (p, n1))) (uAddEdge_sim (p, n2) false)
    | some q =>
      exact thenUser_sim (thenUser_sim (thenUser_sim (thenUser_sim a0 (uDeleteEdge_sim (p, n1)))
        (uDeleteEdge_sim (q, n2))) (uAddEdge_sim (p, n2) false)) (uAddEdge_sim (q, n1) false)

theorem uSwap_sim (n1 n2 : Node) : SimUser (fun st => st.uSwap n1 n2) := by
  intro s t h
  show SimU (s.uSwap n1 n2) (t.uSwap n1 n2)
  rw [R2G.uSwap_eq, R2G.uSwap_eq]
  have eb : ∀ p tm, R2G.swapBad t p tm = R2G.swapBad s p tm := by
    intro p tm; unfold R2G.swapBad; cases p <;> simp only [h.timeOf]
  simp only [h.hasNode, h.preds, h.timeOf, eb]
  by_cases c1 : (!(s.hasNode n1) || !(s.hasNode n2)) = true
  · simp only [c1, ↓reduceIte]; exact ⟨h, rfl⟩
  · simp only [c1, Bool.false_eq_true, ↓reduceIte]
    by_cases c2 : ((s.preds n1).head?.isNone && (s.preds n2).head?.isNone) = true
    · simp only [c2, ↓reduceIte]; exact ⟨h, rfl⟩
    · simp only [c2, Bool.false_eq_true, ↓reduceIte]
      by_cases c3 : ((s.preds n1).head? == (s.preds n2).head?) = true
      · simp only [c3, ↓reduceIte]; exact ⟨h, rfl⟩
      · simp only [c3, Bool.false_eq_true, ↓reduceIte]
        by_cases c4 : R2G.swapBad s (s.preds n1).head? ((s.timeOf n2).getD 0) = true
        · simp only [c4, ↓reduceIte]; exact ⟨h, rfl⟩
        · simp only [c4, Bool.false_eq_true, ↓reduceIte]
          by_cases c5 : R2G.swapBad s (s.preds n2).head? ((s.timeOf n1).getD 0) = true
          · simp only [c5, ↓reduceIte]; exact ⟨h, rfl⟩
          · simp only [c5, Bool.false_eq_true, ↓reduceIte]
            exact swapTail_sim h _ _ n1 n2

theorem uUpdateAttrs_sim (n : Node) (attrs : List (Key × Val)) : SimUser (fun st => st.uUpdateAttrs n attrs) := by
  intro s t h
  exact thenPrim_sim (a := (s, .ok [])) (b := (t, .ok [])) ⟨h, rfl⟩ (BlindP.pUpdAttrs n attrs).simPrim

/-! ## §3 `UserDeleteNode` on a valid solution -/

theorem loop1_sim {s t : St} (h : Sim s t) (n : Node) : SimU (delNodeLoop1 s n) (delNodeLoop1 t n) := by
  unfold St.delNodeLoop1
  rw [h.preds]
  refine foldl_simU ?_ _ (a := (s, .ok [])) (b := (t, .ok [])) ⟨h, rfl⟩
  intro a b p hab
  simp only
  rw [← hab.2, hab.1.succs]
  rcases h2 : a.2 with err | recs
  · exact hab
  · simp only
    refine thenPrim_sim ?_ (simPrim_pDelEdge (p, n))
    by_cases hl : ((a.1.succs p).length == 2) = true
    · simp only [hl, ↓reduceIte]
      rcases ((a.1.succs p).erase n).head? with _ | sib
      · exact hab
      · exact thenPrim_sim hab (simPrim_tidOf_none p sib)
    · simp only [hl, Bool.false_eq_true, ↓reduceIte]
      exact hab

theorem loop2_sim {a b : UOut} (h : SimU a b) (n : Node) : SimU (delNodeLoop2 a n) (delNodeLoop2 b n) := by
  unfold St.delNodeLoop2
  rw [h.1.succs]
  refine foldl_simU (F := fun acc c => thenPrim acc (fun st => st.pDelEdge (n, c))) ?_ _ h
  intro x y c hxy
  exact thenPrim_sim hxy (simPrim_pDelEdge (n, c))

theorem udnA3_sim {a b : UOut} (h : SimU a b) (o : List Node) (hp : Bool) :
    SimU (udnA3 a o hp) (udnA3 b o hp) := by
  unfold St.udnA3
  refine foldl_simU ?_ _ h
  intro x y io hxy
  by_cases hc : (hp || decide (io.1 > 0)) = true
  · simp only [hc, ↓reduceIte]
    exact thenPrim_sim hxy (simPrim_tidOf_freshL io.2 io.2)
  · simp only [hc, Bool.false_eq_true, ↓reduceIte]
    exact hxy

theorem udnA2_sim {a b : UOut} (h : SimU a b) (pred succ : Option Node) (o : List Node) :
    SimU (udnA2 a pred succ o).1 (udnA2 b pred succ o).1 ∧ (udnA2 b pred succ o).2 = (udnA2 a pred succ o).2 := by
  unfold St.udnA2
  rcases pred with _ | p
  · exact ⟨h, rfl⟩
  · rcases succ with _ | sc
    · exact ⟨h, rfl⟩
    · exact ⟨thenPrim_sim h (simPrim_pAddEdge (p, sc) []), rfl⟩

theorem delNodeTail_eq (a1 : UOut) (o : List Node) (hp : Bool) (n : Node) (px : Option (List Pix))
    (tid time : Nat) :
    delNodeTail a1 o hp n px tid time =
      thenPrim (udnA3
        (udnA2 ((a1.1.trackNeighbors tid time).1, a1.2) (a1.1.trackNeighbors tid time).2.1
          (a1.1.trackNeighbors tid time).2.2 o).1
        (udnA2 ((a1.1.trackNeighbors tid time).1, a1.2) (a1.1.trackNeighbors tid time).2.1
          (a1.1.trackNeighbors tid time).2.2 o).2 hp) (fun st => st.pDelNode n px) := rfl

theorem delNodeTail_sim {a1 b1 : UOut} (h : SimU a1 b1) (o : List Node) (hp : Bool) (n : Node)
    (px : Option (List Pix)) (tid time : Nat) (hi : ∀ l, alook tid a1.1.t2n = some l → TInj a1.1 l) :
    SimU (delNodeTail a1 o hp n px tid time) (delNodeTail b1 o hp n px tid time) := by
  rw [delNodeTail_eq, delNodeTail_eq]
  obtain ⟨hs, he⟩ := trackNeighbors_sim h.1 tid time hi
  rw [he, ← h.2]
  have h2 := udnA2_sim (a := ((a1.1.trackNeighbors tid time).1, a1.2))
    (b := ((b1.1.trackNeighbors tid time).1, a1.2)) ⟨hs, rfl⟩
    (a1.1.trackNeighbors tid time).2.1 (a1.1.trackNeighbors tid time).2.2 o
  rw [h2.2]
  exact thenPrim_sim (udnA3_sim h2.1 _ hp) (simPrim_pDelNode n px)

theorem uDeleteNode_sim {s t : St} (h : Sim s t) (hV : s.Valid) (n : Node) (px : Option (List Pix)) :
    SimU (s.uDeleteNode n px) (t.uDeleteNode n px) := by
  rw [uDeleteNode_eq, uDeleteNode_eq, h.hasNode, h.preds]
  by_cases hn : (!(s.hasNode n)) = true
  · simp only [hn, ↓reduceIte]; exact ⟨h, rfl⟩
  · simp only [hn, Bool.false_eq_true, ↓reduceIte]
    have L1 := loop1_sim h n
    have hmid := R2C.mid_stg hV n
    unfold St.delNodeMid at hmid
    generalize delNodeLoop1 s n = A0 at L1 hmid ⊢
    generalize delNodeLoop1 t n = B0 at L1 ⊢
    rw [← L1.2, L1.1.succs]
    rcases h0 : A0.2 with err | r0
    · exact ⟨L1.1, rfl⟩
    · simp only
      have L2 := loop2_sim L1 n
      generalize delNodeLoop2 A0 n = A1 at L2 hmid ⊢
      generalize delNodeLoop2 B0 n = B1 at L2 ⊢
      rw [← L2.2, L2.1.tidOf, L2.1.timeOf]
      rcases h1 : A1.2 with err | r1
      · exact ⟨L2.1, rfl⟩
      · rcases h3 : A1.1.tidOf n with _ | tid
        · exact ⟨L2.1, rfl⟩
        · rcases h4 : A1.1.timeOf n with _ | time
          · exact ⟨L2.1, rfl⟩
          · simp only
            have hst := hmid r1 h1
            have hnT : s.tidOf n = some tid := by
              rw [← hst.tidOut n (R2C.sibSeg_not_self hV.forest)]; exact h3
            refine delNodeTail_sim L2 _ _ n px tid time (fun l hl => ?_)
            exact tinj_of hV.forest hV.tid hst.nt hst.inv.tok tid
              (fun x hx => (R2C.mid_tid_iff hV hnT hst x).1 hx) hl

/-! ## §4 `UserAddNode` on a valid solution -/

theorem uanSucc_sim {s t : St} (h : Sim s t) (succ : Option Node) (force : Bool) :
    SimU (uanSucc s succ force) (uanSucc t succ force) := by
  unfold St.uanSucc
  rcases succ with _ | sc
  · exact ⟨h, rfl⟩
  · simp only [h.preds, h.outdeg]
    rcases (s.preds sc).head? with _ | pos
    · exact ⟨h, rfl⟩
    · simp only
      by_cases h2 : (s.outdeg pos == 2) = true
      · simp only [h2, ↓reduceIte]
        cases force
        · exact ⟨h, rfl⟩
        · simp only [Bool.not_true, Bool.false_eq_true, ↓reduceIte]
          exact thenUser_sim (a := (s, .ok [])) (b := (t, .ok [])) ⟨h, rfl⟩ (uDeleteEdge_sim (pos, sc))
      · simp only [h2, Bool.false_eq_true, ↓reduceIte]
        exact ⟨h, rfl⟩

theorem uanDiv_sim {s t : St} (h : Sim s t) (pred succ : Option Node) (force : Bool) :
    SimU (uanDiv s pred succ force) (uanDiv t pred succ force) := by
  unfold St.uanDiv
  rcases pred with _ | p
  · exact uanSucc_sim h succ force
  · simp only [h.outdeg, h.succs]
    by_cases h2 : (s.outdeg p == 2) = true
    · simp only [h2, ↓reduceIte]
      cases force
      · exact ⟨h, rfl⟩
      · simp only [Bool.not_true, Bool.false_eq_true, ↓reduceIte]
        rcases s.succs p with _ | ⟨c1, _ | ⟨c2, _ | ⟨c3, cs⟩⟩⟩
        · exact ⟨h, rfl⟩
        · exact ⟨h, rfl⟩
        · exact thenUser_sim (thenUser_sim (a := (s, .ok [])) (b := (t, .ok [])) ⟨h, rfl⟩
            (uDeleteEdge_sim (p, c1))) (uDeleteEdge_sim (p, c2))
        · exact ⟨h, rfl⟩
    · simp only [h2, Bool.false_eq_true, ↓reduceIte]
      exact uanSucc_sim h succ force

theorem uanLin_sim {s t : St} (h : Sim s t) (a : AddNodeArgs) (pred succ : Option Node) :
    uanLin a t pred succ = uanLin a s pred succ := by
  unfold St.uanLin
  cases a.lin <;> cases pred <;> cases succ <;> simp only [h.linOf, h.nextLin]

theorem uanEdges_sim {x y : UOut} (h : SimU x y) (a : AddNodeArgs) (pred succ : Option Node) :
    SimU (uanEdges a pred succ x) (uanEdges a pred succ y) := by
  unfold St.uanEdges
  simp only
  have h3 : SimU
      (match pred with | some p => thenPrim x (fun st => st.pAddEdge (p, a.node) []) | none => x)
      (match pred with | some p => thenPrim y (fun st => st.pAddEdge (p, a.node) []) | none => y) := by
    cases pred with
    | none => exact h
    | some p => exact thenPrim_sim h (simPrim_pAddEdge _ _)
  cases succ with
  | none => exact h3
  | some sc => exact thenPrim_sim h3 (simPrim_pAddEdge _ _)

theorem uanA1_sim {x y : UOut} (h : SimU x y) (pred succ : Option Node) :
    SimU (R2G.uanA1 x pred succ) (R2G.uanA1 y pred succ) := by
  unfold R2G.uanA1
  rcases pred with _ | p
  · exact h
  · rcases succ with _ | sc
    · exact h
    · exact thenPrim_sim h (simPrim_pDelEdge (p, sc))

theorem uanRest_sim {x y : UOut} (h : SimU x y) (a : AddNodeArgs) (time tid : Nat) (pred succ : Option Node) :
    SimU (uanRest a time tid pred succ x) (uanRest a time tid pred succ y) := by
  rw [R2G.uanRest_eq, R2G.uanRest_eq, ← h.2, uanLin_sim h.1]
  rcases h0 : x.2 with err | r0
  · exact ⟨h.1, rfl⟩
  · simp only
    have h1 := uanA1_sim h pred succ
    generalize R2G.uanA1 x pred succ = X1 at h1 ⊢
    generalize R2G.uanA1 y pred succ = Y1 at h1 ⊢
    rw [← h1.2]
    rcases h2 : X1.2 with err | recs1
    · exact ⟨h1.1, rfl⟩
    · simp only
      have hp := pAddNode_sim h1.1 ⟨a.node, time, tid, uanLin a x.1 pred succ, a.other⟩ a.pixels
      generalize X1.1.pAddNode ⟨a.node, time, tid, uanLin a x.1 pred succ, a.other⟩ a.pixels = P at hp ⊢
      generalize Y1.1.pAddNode ⟨a.node, time, tid, uanLin a x.1 pred succ, a.other⟩ a.pixels = Q at hp ⊢
      cases hp with
      | error e => exact ⟨rollback_sim h1.1 recs1, rfl⟩
      | ok r hs => exact uanEdges_sim (x := (_, .ok (recs1 ++ [r]))) (y := (_, .ok (recs1 ++ [r]))) ⟨hs, rfl⟩ a pred succ

theorem uAddNode_sim {s t : St} (h : Sim s t) (hV : s.Valid) (a : AddNodeArgs) :
    SimU (s.uAddNode a) (t.uAddNode a) := by
  rw [uAddNode_eq_sg, uAddNode_eq_sg]
  rcases a.time with _ | time
  · exact ⟨h, rfl⟩
  · rcases a.tid with _ | tid0
    · exact ⟨h, rfl⟩
    · simp only [h.hasNode, hasTrackAt_sim h, h.nextTid]
      by_cases hn : s.hasNode a.node = true
      · simp only [hn, ↓reduceIte]; exact ⟨h, rfl⟩
      · simp only [hn, Bool.false_eq_true, ↓reduceIte]
        obtain ⟨hs, he⟩ := trackNeighbors_sim h (if s.hasTrackAt tid0 time = true then s.nextTid else tid0) time
          (fun l hl => tinj_valid hV _ hl)
        rw [he]
        exact uanRest_sim (uanDiv_sim hs _ _ a.force) a time _ _ _

/-! ## §5 `UserUpdateSegmentation` on a valid solution -/

theorem paintStep_sim {x y : UOut} (h : SimU x y) (hv : IOk Valid x) (grp : List Pix × Nat) :
    SimU (paintStep x grp) (paintStep y grp) ∧ IOk Valid (paintStep x grp) := by
  have ierr : ∀ (st : St) (e : Err), IOk Valid (st, .error e) := fun _ e r h => by cases h
  unfold St.paintStep
  rw [← h.2, h.1.seg]
  rcases h0 : x.2 with err | r0
  · exact ⟨h, hv⟩
  · simp only
    have hV : Valid x.1 := hv r0 h0
    by_cases hz : (grp.2 == 0) = true
    · simp only [hz, ↓reduceIte]; exact ⟨h, hv⟩
    · simp only [hz, Bool.false_eq_true, ↓reduceIte]
      rcases x.1.seg with _ | g
      · exact ⟨⟨h.1, rfl⟩, ierr _ _⟩
      · rcases grp.1.head? with _ | p0
        · exact ⟨⟨h.1, rfl⟩, ierr _ _⟩
        · simp only
          by_cases he : (g.offsetsOf (p0 / g.frame) grp.2).isEmpty = true
          · simp only [he, ↓reduceIte]
            refine ⟨thenUser_sim_at h (uDeleteNode_sim h.1 hV grp.2 (some grp.1)), ?_⟩
            intro r hr
            obtain ⟨r0', r1, h0', h1, h2, -⟩ := thenUser_ok hr
            rw [h2]; exact (R2C.uDeleteNode_post hV h1).2.valid
          · simp only [he, Bool.false_eq_true, ↓reduceIte]
            refine ⟨thenPrim_sim h (BlindP.pUpdSeg grp.2 grp.1 false).simPrim, ?_⟩
            intro r hr
            obtain ⟨r0', st', r1, h0', h1, h2, -⟩ := thenPrim_ok hr
            rw [h2]; exact R3A.pUpdSeg_valid hV h1

theorem paintFold_sim (groups : List (List Pix × Nat)) : ∀ {x y : UOut}, SimU x y → IOk Valid x →
    SimU (groups.foldl paintStep x) (groups.foldl paintStep y) ∧ IOk Valid (groups.foldl paintStep x) := by
  induction groups with
  | nil => intro x y h hv; exact ⟨h, hv⟩
  | cons g gs ih =>
    intro x y h hv
    obtain ⟨h1, h2⟩ := paintStep_sim h hv g
    exact ih h1 h2

theorem paintFinal_sim {x y : UOut} (h : SimU x y) (hV : Valid x.1) (recs0 : List PrimRec) (v : Nat)
    (groups : List (List Pix × Nat)) (tid : Nat) (force : Bool) :
    SimU (paintFinal x recs0 v groups tid force).1 (paintFinal y recs0 v groups tid force).1 ∧
    (paintFinal y recs0 v groups tid force).2 = (paintFinal x recs0 v groups tid force).2 := by
  unfold St.paintFinal
  rw [h.1.seg, h.1.hasNode]
  by_cases hc : (v != 0 && !groups.isEmpty) = true
  · simp only [hc, ↓reduceIte]
    rcases x.1.seg with _ | g
    · exact ⟨⟨h.1, rfl⟩, rfl⟩
    · cases hh : (List.flatMap (fun (x : List Pix × Nat) => x.fst) groups).head? with
      | none => exact ⟨⟨h.1, rfl⟩, rfl⟩
      | some p0 =>
        simp only
        by_cases hn : x.1.hasNode v = true
        · simp only [hn, ↓reduceIte]
          exact ⟨thenPrim_sim h (BlindP.pUpdSeg v _ true).simPrim, by first | trivial | rfl⟩
        · simp only [hn, Bool.false_eq_true, ↓reduceIte]
          generalize (AddNodeArgs.mk v (some (p0 / g.frame)) (some tid) none [] (some (groups.flatMap (·.1))) force) = A
          have hu := uAddNode_sim h.1 hV A
          rw [← hu.2]
          rcases (x.1.uAddNode A).2 with err | recs'
          · exact ⟨⟨rollback_sim hu.1 recs0, rfl⟩, rfl⟩
          · exact ⟨⟨hu.1, rfl⟩, rfl⟩
  · simp only [hc, Bool.false_eq_true, ↓reduceIte]
    exact ⟨h, by first | trivial | rfl⟩

theorem uUpdateSeg_sim {s t : St} (h : Sim s t) (hV : s.Valid) (v : Nat) (groups : List (List Pix × Nat))
    (tid : Nat) (force : Bool) :
    SimU (s.uUpdateSeg v groups tid force).1 (t.uUpdateSeg v groups tid force).1 ∧
    (t.uUpdateSeg v groups tid force).2 = (s.uUpdateSeg v groups tid force).2 := by
  rw [uUpdateSeg_eq, uUpdateSeg_eq, h.seg]
  rcases s.seg with _ | g
  · exact ⟨⟨h, rfl⟩, rfl⟩
  · simp only
    obtain ⟨hf, hvf⟩ := paintFold_sim groups (x := (s, .ok [])) (y := (t, .ok [])) ⟨h, rfl⟩ (fun _ _ => hV)
    generalize groups.foldl paintStep (s, .ok []) = A0 at hf hvf ⊢
    generalize groups.foldl paintStep (t, .ok []) = B0 at hf ⊢
    rw [← hf.2]
    rcases h0 : A0.2 with err | recs0
    · exact ⟨⟨hf.1, rfl⟩, rfl⟩
    · exact paintFinal_sim hf (hvf recs0 h0) recs0 v groups tid force

/-! ## §6 the session step -/

theorem commit_sim {x y : UOut} (h : SimU x y) (p : Option Node) :
    Sim (commit x p).1 (commit y p).1 ∧ (commit y p).2 = (commit x p).2 := by
  unfold St.commit
  rw [← h.2]
  rcases x.2 with e | recs
  · exact ⟨h.1, rfl⟩
  · simp only
    obtain ⟨a, b, hb, ha1, ha2⟩ := h.1.exists
    rw [hb]
    exact ⟨Sim.mk' ha1 ha2, by first | trivial | rfl⟩

theorem invTotal_sim {s t : St} (h : Sim s t) (a : ActRec) :
    Sim (invTotal s a).1 (invTotal t a).1 ∧ (invTotal t a).2 = (invTotal s a).2 := by
  have hg := invGroup_sim h a
  unfold St.invTotal
  generalize s.invGroup a = X at hg ⊢
  generalize t.invGroup a = Y at hg ⊢
  obtain ⟨x1, x2⟩ := X
  obtain ⟨y1, y2⟩ := Y
  obtain ⟨g1, g2⟩ := hg
  simp only at g1 g2
  subst g2
  rcases x2 with e | r
  · exact ⟨g1, rfl⟩
  · exact ⟨g1, rfl⟩

theorem freshFrom_wb (s : St) (a b : Book) (fuel id c : Nat) :
    freshFrom (wb s a b) fuel id c = freshFrom s fuel id c := by
  induction fuel generalizing id c with
  | zero => rfl
  | succ f ih => simp only [freshFrom, wb_hasNode, ih]

theorem newNodeIds_wb (s : St) (a b : Book) (n : Nat) :
    (wb s a b).newNodeIds n = (wb (s.newNodeIds n).1 a b, (s.newNodeIds n).2) := by
  unfold St.newNodeIds
  simp only [wb_counter, wb_nodes, freshFrom_wb]
  rfl

/-- the part of `step (.paint …)` after the caller has painted -/
def paintRest (sP : St) (v : Nat) (groups : List (List Pix × Nat)) (tid : Nat) (f : Bool) : St × Out :=
  match (sP.uUpdateSeg v groups tid f).1.2 with
  | .ok _ => commit (sP.uUpdateSeg v groups tid f).1 (sP.uUpdateSeg v groups tid f).2
  | .error e =>
    match (sP.uUpdateSeg v groups tid f).1.1.seg with
    | some g' =>
      ((sP.uUpdateSeg v groups tid f).1.1.withSeg
        (groups.foldl (fun (acc : Seg) (grp : List Pix × Nat) => acc.setPixels grp.1 grp.2) g'), .err e)
    | none => ((sP.uUpdateSeg v groups tid f).1.1, .err e)

theorem step_paint (s : St) (v : Nat) (groups : List (List Pix × Nat)) (tid : Nat) (f : Bool) :
    s.step (.paint v groups tid f) = match s.seg with
      | none => (s, .err .value)
      | some g => paintRest (s.withSeg (g.setPixels (groups.flatMap (fun (grp : List Pix × Nat) => grp.1)) v))
          v groups tid f := by
  simp only [St.step, paintRest, St.withSeg]
  rcases s.seg with _ | g
  · rfl
  · simp only
    rcases (St.uUpdateSeg _ v groups tid f) with ⟨r, sel⟩
    rcases r with ⟨r1, r2⟩
    rcases r2 with e | recs <;> rfl

theorem paintRest_sim {s t : St} (h : Sim s t) (hV : s.Valid) (v : Nat) (groups : List (List Pix × Nat))
    (tid : Nat) (f : Bool) :
    Sim (paintRest s v groups tid f).1 (paintRest t v groups tid f).1 ∧
    (paintRest t v groups tid f).2 = (paintRest s v groups tid f).2 := by
  obtain ⟨hu, he⟩ := uUpdateSeg_sim h hV v groups tid f
  unfold paintRest
  rw [he, ← hu.2, hu.1.seg]
  generalize s.uUpdateSeg v groups tid f = X at hu ⊢
  generalize (t.uUpdateSeg v groups tid f).1 = Y at hu ⊢
  rcases hx : X.1.2 with e | recs
  · simp only
    rcases X.1.1.seg with _ | g'
    · exact ⟨hu.1, rfl⟩
    · exact ⟨(Blind.withSeg _).sim hu.1, rfl⟩
  · simp only
    exact commit_sim hu X.2

/-- "no feature switching" (excluded from admissible sessions, `OpPre`) -/
def NoSwitch : Op → Prop
  | .enable .. => False
  | .disable .. => False
  | _ => True

theorem noSwitch_of_opOK {s : St} {op : Op} (h : R3D.OpOK s op) : NoSwitch op := by
  rcases h with rfl | rfl | h | ⟨_, hp⟩
  · trivial
  · trivial
  · cases op <;> first | trivial | exact h
  · cases op <;> first | trivial | exact hp

theorem sim_bump {s t : St} (h : Sim s t) (hh : Hist ActRec) (n : Nat) (p : Option Node) :
    Sim { s with hist := hh, refreshes := n, lastPayload := p }
        { t with hist := hh, refreshes := t.refreshes - s.refreshes + n, lastPayload := p } := by
  obtain ⟨a, b, rfl, ha, hb⟩ := h.exists
  have : (wb s a b).refreshes - s.refreshes + n = n := by
    show s.refreshes - s.refreshes + n = n
    omega
  rw [this]
  exact ⟨rfl, ha, hb⟩

theorem Sim.refreshes {s t : St} (h : Sim s t) : t.refreshes = s.refreshes := by rw [h.core]; rfl

/-- **the congruence lemma for `step`**: from a valid solution, the same operation (anything but a
    feature switch) applied to two objects that differ in the order inside the lookups only gives
    the same outcome and leaves two objects that differ in the order inside the lookups only -/
theorem step_sim {s t : St} (h : Sim s t) (hV : s.Valid) (op : Op) (hop : NoSwitch op) :
    Sim (s.step op).1 (t.step op).1 ∧ (t.step op).2 = (s.step op).2 := by
  cases op with
  | addEdge e f => exact commit_sim (uAddEdge_sim e f s t h) none
  | delEdge e => exact commit_sim (uDeleteEdge_sim e s t h) none
  | addNode a => exact commit_sim (uAddNode_sim h hV a) (some a.node)
  | delNode n => exact commit_sim (uDeleteNode_sim h hV n none) none
  | swap a b => exact commit_sim (uSwap_sim a b s t h) none
  | updAttrs n attrs => exact commit_sim (uUpdateAttrs_sim n attrs s t h) none
  | paint v groups tid f =>
    rw [step_paint, step_paint, h.seg]
    rcases hg : s.seg with _ | g
    · exact ⟨h, rfl⟩
    · simp only
      have hP : Sim (s.withSeg (g.setPixels (groups.flatMap (fun (grp : List Pix × Nat) => grp.1)) v))
          (t.withSeg (g.setPixels (groups.flatMap (fun (grp : List Pix × Nat) => grp.1)) v)) :=
        (Blind.withSeg _).sim h
      have hVP : (s.withSeg (g.setPixels (groups.flatMap (fun (grp : List Pix × Nat) => grp.1)) v)).Valid :=
        R3A.valid_withSeg hV _
      exact paintRest_sim hP hVP v groups tid f
  | undo =>
    simp only [St.step]
    rw [h.hist]
    have key : ∀ a, (t.invGroup a).2 = (s.invGroup a).2 := fun a => (invGroup_sim h a).2.symm
    simp only [key]
    unfold Hist.undoStep
    by_cases hp : s.hist.ptr < 0
    · simp only [hp, ↓reduceIte]
      rcases s.hist.undo[s.hist.ptr.toNat]? with _ | a
      · exact ⟨h, rfl⟩
      · exact ⟨h, rfl⟩
    · simp only [hp, ↓reduceIte]
      rcases s.hist.undo[s.hist.ptr.toNat]? with _ | a
      · exact ⟨h, rfl⟩
      · simp only
        obtain ⟨i1, i2⟩ := invTotal_sim h a
        rw [i2]
        by_cases hb : ((s.invGroup a).2.toOption.isNone) = true
        · simp only [hb, ↓reduceIte]; exact ⟨i1, by first | trivial | rfl⟩
        · simp only [hb, Bool.false_eq_true, ↓reduceIte]
          rw [i1.refreshes]
          obtain ⟨x, y, hxy, hx, hy⟩ := i1.exists
          rw [hxy]
          exact ⟨⟨rfl, hx, hy⟩, by first | trivial | rfl⟩
  | redo =>
    simp only [St.step]
    rw [h.hist]
    have key : ∀ a, (t.invGroup a).2 = (s.invGroup a).2 := fun a => (invGroup_sim h a).2.symm
    simp only [key]
    unfold Hist.redoStep
    rcases s.hist.redo.getLast? with _ | a
    · exact ⟨h, rfl⟩
    · simp only
      obtain ⟨i1, i2⟩ := invTotal_sim h a
      by_cases hb : ((s.invGroup a).2.toOption.isNone) = true
      · simp only [hb, ↓reduceIte]; exact ⟨i1, by first | trivial | rfl⟩
      · simp only [hb, Bool.false_eq_true, ↓reduceIte]
        rw [i1.refreshes]
        obtain ⟨x, y, hxy, hx, hy⟩ := i1.exists
        rw [hxy]
        exact ⟨⟨rfl, hx, hy⟩, by first | trivial | rfl⟩
  | enable ks rc => exact hop.elim
  | disable ks => exact hop.elim
  | qNeighbors tid time =>
    simp only [St.step]
    obtain ⟨hs, he⟩ := trackNeighbors_sim h tid time (fun l hl => tinj_valid hV tid hl)
    have e1 : (t.trackNeighbors tid time).2.1 = (s.trackNeighbors tid time).2.1 := congrArg Prod.fst he
    have e2 : (t.trackNeighbors tid time).2.2 = (s.trackNeighbors tid time).2.2 := congrArg Prod.snd he
    rw [e1, e2]
    exact ⟨hs, rfl⟩
  | qHasTrack tid time =>
    simp only [St.step]
    rw [hasTrackAt_sim h]
    exact ⟨h, rfl⟩
  | qNewIds n =>
    simp only [St.step]
    obtain ⟨a, b, rfl, ha, hb⟩ := h.exists
    rw [newNodeIds_wb]
    exact ⟨⟨rfl, ha, hb⟩, rfl⟩
  | nop => exact ⟨h, rfl⟩

/-! ## §7 whole operation lists -/

/-- the outcomes of an operation list, step by step -/
def outs : St → List Op → List Out
  | _, [] => []
  | s, op :: ops => (s.step op).2 :: outs (s.step op).1 ops

/-- the state after an operation list -/
def run (s : St) (ops : List Op) : St := ops.foldl (fun x op => (x.step op).1) s

theorem run_eq_reached (s : St) (ops : List Op) : run s ops = R5A.reached s ops :=
  (R5A.reached_eq_foldl s ops).symm

theorem run_sim : ∀ (ops : List Op) {s t : St}, Sim s t →
    (∀ pre, pre <+: ops → (run s pre).Valid) → (∀ op ∈ ops, NoSwitch op) →
    outs t ops = outs s ops ∧ Sim (run s ops) (run t ops)
  | [], _, _, h, _, _ => ⟨rfl, h⟩
  | op :: ops, s, t, h, hv, hn => by
    have hV : s.Valid := hv [] (nil_prefix)
    obtain ⟨h1, h2⟩ := step_sim h hV op (hn op mem_cons_self)
    obtain ⟨i1, i2⟩ := run_sim ops h1
      (fun pre hp => hv (op :: pre) (by
        obtain ⟨r, hr⟩ := hp
        exact ⟨r, by rw [← hr]; rfl⟩))
      (fun o ho => hn o (mem_cons_of_mem _ ho))
    exact ⟨by show _ :: _ = _ :: _; rw [h2, i1], i2⟩

theorem noSwitch_of_sessOK : ∀ (ops : List Op) (s : St), R3D.SessOK s ops → ∀ op ∈ ops, NoSwitch op
  | [], _, _ => fun _ h => by cases h
  | o :: ops, s, h => by
    intro op hop
    rcases mem_cons.mp hop with rfl | hm
    · exact noSwitch_of_opOK h.1
    · exact noSwitch_of_sessOK ops _ h.2 op hm

theorem mem_getD_iff (m : Book) (id : Nat) (n : Node) : n ∈ (alook id m).getD [] ↔ PC.InBook m id n := by
  unfold PC.InBook
  cases alook id m with
  | none => simp
  | some l => simp

/-- `Sim` puts the second object in the `E`-class of the first -/
theorem E_of_sim {s t : St} (h : Sim s t) (hg : R3P.Good s) : R3P.E t s := by
  obtain ⟨a, b, rfl, ha, hb⟩ := h.exists
  have hperm : ∀ {m m' : Book}, BS m m' → ∀ id n, PC.InBook m' id n ↔ PC.InBook m id n := by
    intro m m' hm id n
    rw [← mem_getD_iff, ← mem_getD_iff]
    exact (hm.rel id).mem_iff.symm
  have hwf : ∀ {m m' : Book}, BS m m' → PC.MapWF m → PC.MapWF m' := by
    intro m m' hm hw
    refine ⟨hm.kb, fun id l' hl' => ?_⟩
    have hp : ((alook id m).getD []).Perm ((alook id m').getD []) := hm.rel id
    rw [hl'] at hp
    simp only [Option.getD_some] at hp
    refine hp.nodup ?_
    cases hx : alook id m with
    | none => simp
    | some l => exact hw.nodup id l hx
  refine R3P.E.of_good ⟨fun _ => Iff.rfl, fun _ => Iff.rfl, rfl, hperm ha, hperm hb, rfl⟩ ?_ hg
  exact ⟨⟨hg.wf.ids, hg.wf.edges, hg.wf.nkeys, hg.wf.ekeys, hwf ha hg.wf.t2n, hwf hb hg.wf.l2n⟩, hg.max⟩

/-! ## §8 lookups that list the same node sets are related -/

theorem bs_of_inBook {m m' : Book} (hm : PC.MapWF m) (hm' : PC.MapWF m')
    (h : ∀ id n, PC.InBook m id n ↔ PC.InBook m' id n) : BS m m' :=
  ⟨hm.keys, hm'.keys, fun id => perm_of_inBook hm hm' h id⟩

/-! ## §9 the reloaded object against the tightened original -/

theorem reload_eq_wb (s : St) : reload s = wb (tightened s) (reload s).t2n (reload s).l2n := by
  have e1 : (Construct.maxIdMap (cnodes s) tKey).1 = tightT s := reload_maxTid s
  have e2 : (Construct.maxIdMap (cnodes s) lKey).1 = tightL s := reload_maxLin s
  unfold reload tightened wb
  simp only [e1, e2]

/-- **`reload s` is `tightened s` up to the order inside the lookups** -/
theorem sim_tightened_reload {s : St} (hI : R3D.Inv s) : Sim (tightened s) (reload s) := by
  have hw := wf_reload hI.good.wf
  have ho := obsEq_reload hI.valid.forest.nodup_nodes hI.valid.book hI.valid.linOn
  refine ⟨reload_eq_wb s, ?_, ?_⟩
  · exact bs_of_inBook hI.good.wf.t2n hw.t2n (fun id n => (ho.t2n id n).symm)
  · exact bs_of_inBook hI.good.wf.l2n hw.l2n (fun id n => (ho.l2n id n).symm)

/-- the core of the bisimulation: one admissible operation list from `tightened s` and from `reload s` -/
theorem bisim_core {s : St} (hI : R3D.Inv s) (ops : List Op) (hs : R3D.SessOK (tightened s) ops) :
    outs (reload s) ops = outs (tightened s) ops ∧
    Sim (R5A.reached (tightened s) ops) (R5A.reached (reload s) ops) ∧
    R3D.Inv (R5A.reached (reload s) ops) ∧
    R2A1.ObsEq (R5A.reached (reload s) ops) (R5A.reached (tightened s) ops) := by
  have h0 : Sim (tightened s) (reload s) := sim_tightened_reload hI
  have hR := C03_reach (tightened s) rfl (inv_tightened hI) ops hs
  have hv : ∀ pre, pre <+: ops → (run (tightened s) pre).Valid := by
    intro pre hp
    have := (hR.1 pre hp).valid
    rwa [R5A.sessFinal_fst] at this
  obtain ⟨h1, h2⟩ := run_sim ops h0 hv (noSwitch_of_sessOK ops _ hs)
  rw [run_eq_reached, run_eq_reached] at h2
  have hIr : R3D.Inv (R5A.reached (tightened s) ops) := hR.2.1
  have hE := E_of_sim h2 hIr.good
  exact ⟨h1, h2, R3D.Inv.of_E hE hIr, hE.1⟩

end Ft.R8S
