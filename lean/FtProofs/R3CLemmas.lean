/-
  FtProofs.R3CLemmas — package R3C (C01 user level, node actions; C11 rollback of a refused
  forced add-node).

  §1  `RunQ s Q a`: Hoare-style combinator — "if the partial run `a` of a composite is accepted so
      far, its records form a lawful `Chain E` from `s` to the current state and `Q` holds there";
      rules for `thenPrim`, `thenUser`, state replacement inside the `E`-class.
  §2  the context carried through every composite: `Ctx s st` = `Good st ∧ EdgeInv st ∧ Fr s st`
      (`Fr`: free-form node attributes, array and registry are those of `s`), and the step lemmas
      `ctx_delEdge`, `ctx_addEdge`, `ctx_updTid`, `ctx_trackNeighbors` (law + context again).
  §3  `ViewPre` from the subtree below the start node (`chainHyp_sub`, `viewPre_same`).
  §4  `uDeleteNode`: the stages of R2C (`Stg`, `StgT`, `LinW`) re-run with the laws.
      Result: `uDeleteNode_run`, `uDeleteNode_chain`.
  §7  (placed before §5) `EdgeInv` / `NodeInv` across R2A1's node relation `NodeRel`, both directions,
      with and without array (`edgeInv_nodeRel`, `nodeInv_down`, `nodeInv_up`).
  §5  `uDeleteEdge` (`run_uDeleteEdge : DelEdgeRun`) as needed by the forced paths of `uAddNode`;
      `viewPre_sub`.
  §6  `uAddNode`: neighbour query, division checks (`pre_run`), tail (`tailCore_run`);
      `AddArgsPre`; result: `uAddNode_run`, `uAddNode_chain`.
  §8  C11: `addNodeA1`, `Refused`, `uAddNode_refused` (rollback of a refused AddNode).
  §9  record-level forms (`NodeInv.of_records`, `AddArgsPre.of_noSeg`), `chain_reading`,
      `uDeleteNode_runQF` / `uAddNode_runQF` for composition inside paint.
-/
import FtProofs.R3PLemmas
import FtProofs.R2CLemmas
import FtProofs.R2DLemmas
import FtProofs.Props.C03_R2C
import FtProofs.Props.C04_R2D
import FtProofs.R3ALemmas

namespace Ft.R3C
open Ft Ft.St Ft.R2A1 Ft.R3P List

/-! ## §1 the run combinator -/

/-- if the partial run is accepted so far, its records form a lawful chain from `s` to the current
    state, where `Q` holds -/
def RunQ (s : St) (Q : St → Prop) (a : UOut) : Prop :=
  ∀ recs, a.2 = .ok recs → Chain E s recs a.1 ∧ Q a.1

theorem RunQ_err (s : St) (Q : St → Prop) (st : St) (e : Err) : RunQ s Q (st, .error e) :=
  fun _ h => by cases h

theorem RunQ_pure {s : St} {Q : St → Prop} (h : Q s) : RunQ s Q (s, .ok []) :=
  fun recs hr => by cases hr; exact ⟨chain_nil s, h⟩

theorem RunQ_mono {s : St} {Q Q' : St → Prop} {a : UOut} (ha : RunQ s Q a) (h : ∀ st, Q st → Q' st) :
    RunQ s Q' a := fun recs hr => ⟨(ha recs hr).1, h _ (ha recs hr).2⟩

theorem RunQ_thenPrim {s : St} {Q Q' : St → Prop} {a : UOut} {f : St → Except Err (St × PrimRec)}
    (ha : RunQ s Q a)
    (hf : ∀ st st' r, Q st → f st = .ok (st', r) → InvLaw E st r st' ∧ Q' st') :
    RunQ s Q' (thenPrim a f) := by
  intro recs hr
  obtain ⟨r0, s', r, h0, h1, h2, h3⟩ := thenPrim_ok hr
  obtain ⟨hc, hq⟩ := ha r0 h0
  obtain ⟨hl, hq'⟩ := hf _ _ _ hq h1
  rw [h2, h3]; exact ⟨chain_snoc hc hl, hq'⟩

theorem RunQ_thenUser {s : St} {Q Q' : St → Prop} {a : UOut} {f : St → UOut}
    (ha : RunQ s Q a) (hf : ∀ st, Q st → RunQ st Q' (f st)) : RunQ s Q' (thenUser a f) := by
  intro recs hr
  obtain ⟨r0, r1, h0, h1, h2, h3⟩ := thenUser_ok hr
  obtain ⟨hc, hq⟩ := ha r0 h0
  obtain ⟨hc', hq'⟩ := hf _ hq r1 h1
  rw [h2, h3]; exact ⟨chain_append hc hc', hq'⟩

/-- replace the current state by an `E`-equal one (the two state-changing queries) -/
theorem RunQ_state {s : St} {Q Q' : St → Prop} {st st' : St} {r : Except Err (List PrimRec)}
    (ha : RunQ s Q (st, r)) (he : E st st') (h : Q st → Q' st') : RunQ s Q' (st', r) := by
  intro recs hr
  obtain ⟨hc, hq⟩ := ha recs hr
  exact ⟨chain_congr hc (E_isEquiv.refl s) he, h hq⟩

/-- change the start state inside its `E`-class -/
theorem RunQ_start {s s' : St} {Q : St → Prop} {a : UOut} (ha : RunQ s Q a) (he : E s s') :
    RunQ s' Q a := fun recs hr =>
  ⟨chain_congr (ha recs hr).1 he (E_isEquiv.refl _), (ha recs hr).2⟩

theorem RunQ.run {s : St} {Q : St → Prop} {a : UOut} {recs : List PrimRec} (h : RunQ s Q a)
    (hr : a.2 = .ok recs) : Run s a := ⟨recs, hr, (h recs hr).1⟩

/-! ## §2 the context of a composite run -/

/-- free-form node attributes, array and registry as in `s` -/
structure Fr (s st : St) : Prop where
  oth : ∀ n k, st.otherOf n k = s.otherOf n k
  seg : st.seg = s.seg
  reg : st.reg = s.reg

theorem Fr.refl (s : St) : Fr s s := ⟨fun _ _ => rfl, rfl, rfl⟩
theorem Fr.trans {a b c : St} (h : Fr a b) (g : Fr b c) : Fr a c :=
  ⟨fun n k => (g.oth n k).trans (h.oth n k), g.seg.trans h.seg, g.reg.trans h.reg⟩

theorem otherOf_of_nobs {a b : St} {n : Node} (h : nobs a n = nobs b n) (k : Key) :
    a.otherOf n k = b.otherOf n k := by rw [otherOf_eq_nobs, otherOf_eq_nobs, h]

theorem otherOf_of_strip {a b : St} {n : Node} (h : (nobs a n).map stripO = (nobs b n).map stripO) (k : Key) :
    a.otherOf n k = b.otherOf n k := by
  rw [otherOf_eq_nobs, otherOf_eq_nobs]
  cases ha : nobs a n with
  | none =>
    cases hb : nobs b n with
    | none => rfl
    | some ob => rw [ha, hb] at h; cases h
  | some oa =>
    cases hb : nobs b n with
    | none => rw [ha, hb] at h; cases h
    | some ob =>
      rw [ha, hb] at h
      simp only [Option.map_some, Option.some.injEq, stripO, Prod.mk.injEq] at h
      simp only [Option.map_some, Option.getD_some]
      rw [h.2.2]

theorem Fr.of_edgeStep {s s₁ : St} {e : Edge} {A : Key → Val} (h : EdgeStep s e A s₁) : Fr s s₁ :=
  ⟨fun n k => (otherOf_of_nobs (h.rest.nodes n) k).symm, h.rest.seg.symm, h.rest.reg.symm⟩

theorem Fr.of_tidStep {s s₁ : St} {start : Node} {oT nT : Nat} {oL nL : Option Nat}
    (h : TidStep s start oT nT oL nL s₁) : Fr s s₁ :=
  ⟨fun n k => otherOf_of_strip (h.frame.nodes n) k, h.frame.seg, h.frame.reg⟩

/-- what every intermediate state of a composite started at `s` carries -/
structure Ctx (s st : St) : Prop where
  good : Good st
  einv : EdgeInv st
  fr : Fr s st

theorem Ctx.refl {s : St} (hg : Good s) (hi : EdgeInv s) : Ctx s s := ⟨hg, hi, Fr.refl s⟩

theorem Ctx.rebase {s t st : St} (h : Ctx t st) (hf : Fr s t) : Ctx s st := ⟨h.good, h.einv, hf.trans h.fr⟩

theorem pDelEdge_mem {st st' : St} {e : Edge} {r : PrimRec} (hk : st.pDelEdge e = .ok (st', r)) :
    e ∈ st.edgeList := (pDelEdge_G hk).1

theorem ctx_delEdge {s st st' : St} {e : Edge} {r : PrimRec} (hc : Ctx s st) (hF : Forest st)
    (hk : st.pDelEdge e = .ok (st', r)) : InvLaw E st r st' ∧ Ctx s st' := by
  have hm := pDelEdge_mem hk
  have hp : DelEdgePre st e := DelEdgePre.of_edgeInv hc.good.wf (hF.src_mem _ hm) (hF.dst_mem _ hm) hc.einv
  obtain ⟨_, _, _, hS, _, _⟩ := pDelEdge_edgeStep hp hk
  exact ⟨law_delEdge hp hc.good.max hk,
    good_delEdge hp hc.good.max hk, hS.inv_down hc.einv,
    ⟨fun n k => ((Fr.of_edgeStep hS).oth n k).symm.trans (hc.fr.oth n k),
      (Fr.of_edgeStep hS).seg.symm.trans hc.fr.seg, (Fr.of_edgeStep hS).reg.symm.trans hc.fr.reg⟩⟩

theorem ctx_addEdge {s st st' : St} {e : Edge} {r : PrimRec} (hc : Ctx s st) (hf : e ∉ st.edgeList)
    (hk : st.pAddEdge e [] = .ok (st', r)) : InvLaw E st r st' ∧ Ctx s st' := by
  have hp : AddEdgePre st e [] := AddEdgePre.of_edgeInv hc.good.wf hf hc.einv
  obtain ⟨_, hS⟩ := pAddEdge_edgeStep hp hk
  exact ⟨law_addEdge hp hc.good.max hk, good_addEdge hp hc.good.max hk, hS.inv_up hc.einv,
    hc.fr.trans (Fr.of_edgeStep hS)⟩

theorem ctx_updTid {s st st' : St} {r : PrimRec} (hc : Ctx s st) (hF : Forest st) (hB : BookOK st)
    {start : Node} {oT nT : Nat} {oL nL : Option Nat} (hp : R2A2.ViewPre st start oT nT oL nL)
    (hk : st.pUpdTid start nT nL = .ok (st', r)) : InvLaw E st r st' ∧ Ctx s st' := by
  obtain ⟨_, hl, hS⟩ := invLaw_updTid hc.good.wf hF hB hp hk
  exact ⟨hl, ⟨hS.wf₁, hS.max.2⟩, edgeInv_updTid hc.good.wf hF hB hp hc.einv hk, hc.fr.trans (Fr.of_tidStep hS)⟩

theorem ctx_trackNeighbors {s st : St} (hc : Ctx s st) (tid time : Nat) :
    Ctx s (st.trackNeighbors tid time).1 := by
  have he := E_trackNeighbors st tid time
  have hg : Good (st.trackNeighbors tid time).1 := Good.of_E he hc.good
  refine ⟨hg, edgeInv_congrE he hc.good.wf hc.einv, ?_⟩
  obtain ⟨h0, _, _⟩ := PC.trackNeighbors_state st tid time
  generalize (st.trackNeighbors tid time).1 = st' at h0
  refine ⟨fun n k => ?_, ?_, ?_⟩
  · rw [h0]; exact hc.fr.oth n k
  · rw [h0]; exact hc.fr.seg
  · rw [h0]; exact hc.fr.reg

/-! ## §3 `ViewPre` from the subtree below the start node -/

theorem anc_linear {s : St} (hF : s.Forest) {a b x : Node} (h1 : s.Anc a x) (h2 : s.Anc b x) :
    s.Anc a b ∨ s.Anc b a := by
  induction h1 with
  | refl => exact Or.inr h2
  | step p c hp he ih =>
    rcases h2.tail with rfl | ⟨q, hq, hqe⟩
    · exact Or.inl (Anc.step _ p _ hp he)
    · rw [hF.par_unique hqe he] at hq
      exact ih hq

theorem anc_sub {s st : St} {a : Node}
    (he : ∀ x c, s.Anc a x → (x, c) ∈ st.edgeList → (x, c) ∈ s.edgeList) :
    ∀ {x : Node}, st.Anc a x → s.Anc a x := by
  intro _ h
  induction h with
  | refl => exact Anc.refl _
  | step p c _ hpc ih => exact Anc.step _ p c ih (he p c ih hpc)

theorem segDown_sub {s st : St} {a : Node}
    (he : ∀ x c, s.Anc a x → (x, c) ∈ st.edgeList → (x, c) ∈ s.edgeList)
    (ho : ∀ x, s.Anc a x → st.outdeg x = s.outdeg x) :
    ∀ {x : Node}, st.tk_SegDown a x → s.tk_SegDown a x := by
  intro x h
  induction h with
  | refl => exact tk_SegDown.refl _
  | step p c _ hpc hop ih =>
    exact tk_SegDown.step _ p c ih (he p c ih.anc hpc) (by rw [← ho p ih.anc]; exact hop)

/-- the chain hypothesis of the relabel walk only reads the subtree below the start node -/
theorem chainHyp_sub {s st : St} {a : Node}
    (he : ∀ x c, s.Anc a x → (x, c) ∈ st.edgeList → (x, c) ∈ s.edgeList)
    (ho : ∀ x, s.Anc a x → st.outdeg x = s.outdeg x)
    (ht : ∀ x, s.Anc a x → st.tidOf x = s.tidOf x) {t : Nat} (h : tk_ChainHyp s t a) :
    tk_ChainHyp st t a := by
  refine ⟨fun p c hp hpc hop => ?_, fun p c hp hpc hop => ?_⟩
  · have hp' := segDown_sub he ho hp
    have hpc' := he p c hp'.anc hpc
    rw [ht c (Anc.step _ p c hp'.anc hpc')]
    exact h.1 p c hp' hpc' (by rw [← ho p hp'.anc]; exact hop)
  · have hp' := segDown_sub he ho hp
    have hpc' := he p c hp'.anc hpc
    rw [ht c (Anc.step _ p c hp'.anc hpc')]
    exact h.2 p c hp' hpc' (by rw [← ho p hp'.anc]; exact hop)

/-- `UpdateTrackIDs(c, own id, new lineage)`: the view precondition from the chain hypothesis -/
theorem viewPre_same {st : St} (hA : PC.LinAlong st) {c : Node} {t : Nat} {nL : Option Nat}
    (hm : c ∈ st.ids) (ht : st.tidOf c = some t) (hch : tk_ChainHyp st t c)
    (hhas : st.linOn = true → nL.isSome = true → (st.linOf c).isSome = true) :
    R2A2.ViewPre st c t t (st.linOf c) nL where
  mem := hm
  tid := ht
  lin := rfl
  chain := hch
  noReuse := fun p c' hd he ho => hch.2 p c' hd he ho
  linSub := fun _ _ hx => PC.linAlong_anc hA hx
  linHas := hhas

theorem bookOK_of_inv {st : St} (h : PC.Inv st) : BookOK st := (PC.bookOK_iff st).2 ⟨h.tok, h.lok⟩

/-! ## §4 `uDeleteNode` -/

/-- a node on the sibling chain is not below `n` -/
theorem sibSeg_not_below {s : St} (hF : s.Forest) {n x : Node} (h : R2C.SibSeg s n x) : ¬ s.Anc n x := by
  obtain ⟨p, sib, hpn, hps, hne, hd⟩ := h
  intro hx
  have key : ∀ a b, (p, a) ∈ s.edgeList → (p, b) ∈ s.edgeList → a ≠ b → ¬ s.Anc a b := by
    intro a b ha hb hab hanc
    rcases hanc.tail with h | ⟨q, hq, hqe⟩
    · exact hab h
    · rw [hF.par_unique hqe hb] at hq
      have := hq.tm_le hF; have := hF.tm_lt ha; omega
  rcases anc_linear hF hx hd.anc with h | h
  · exact key n sib hpn hps (Ne.symm hne) h
  · exact key sib n hps hpn hne h

theorem mid_out_eq {s : St} (hF : s.Forest) {n x : Node} (hx : s.Anc n x) (hxn : x ≠ n) :
    (R2C.midE s n).filter (·.1 == x) = s.edgeList.filter (·.1 == x) := by
  unfold R2C.midE
  rw [List.filter_filter]
  apply List.filter_congr
  intro e he
  by_cases h1 : e.1 = x
  · have h2 : e.2 ≠ n := by
      intro h2
      have hm : (x, n) ∈ s.edgeList := by rw [← h1, ← h2]; exact he
      have := hF.tm_lt hm; have := hx.tm_le hF; omega
    have h3 : e.1 ≠ n := h1 ▸ hxn
    simp [h2, h3]
  · simp [h1]

/-- stage predicate: R2C's `Stg` plus the context -/
def SA (s : St) (n : Node) (es : List Edge) (st : St) : Prop := R2C.Stg s n es st ∧ Ctx s st

theorem SA_pDelEdge {s : St} {n : Node} {es : List Edge} {st st' : St} {e : Edge} {r : PrimRec}
    (h : SA s n es st) (hk : st.pDelEdge e = .ok (st', r)) :
    InvLaw E st r st' ∧ SA s n (es.filter (· != e)) st' :=
  have h1 := ctx_delEdge h.2 h.1.inv.forest hk
  ⟨h1.1, R2C.Stg_pDelEdge h.1 hk, h1.2⟩

theorem SA_relabel {s : St} (hV : s.Valid) (hc : Ctx s s) {n p sib : Node} {tp : Nat} {st' : St}
    {r : PrimRec} (hpn : (p, n) ∈ s.edgeList) (hps : (p, sib) ∈ s.edgeList) (hne : sib ≠ n)
    (htp : s.tidOf p = some tp) (hk : s.pUpdTid sib tp none = .ok (st', r)) :
    InvLaw E s r st' ∧ SA s n s.edgeList st' := by
  have hF := hV.forest
  have hsm : sib ∈ s.ids := hF.dst_mem _ hps
  obtain ⟨rec, hrec⟩ := tk_mem_ids_iff.1 hsm
  have hts := tk_tidOf_of_findNode hrec
  have hnanc : ¬ s.Anc sib p := fun h => by
    have := h.tm_le hF; have := hF.tm_lt hps; omega
  have hp : R2A2.ViewPre s sib rec.tid tp (s.linOf sib) none :=
    R2A2.viewPre_of_tidOK hF hV.tid hsm hts (fun _ => hV.lin.along) (fun _ h => by cases h)
      (R2A2.notDownstream_of hF hV.tid hsm hts (Or.inr (Or.inr ⟨p, htp, hnanc⟩)))
  have h1 := ctx_updTid hc hF hV.book hp hk
  exact ⟨h1.1, R2C.Stg_relabel hV hpn hps hne htp hk, h1.2⟩

theorem loop1_run {s : St} (hV : s.Valid) (hc : Ctx s s) (n : Node) :
    RunQ s (SA s n (s.edgeList.filter (fun e => e.2 != n))) (delNodeLoop1 s n) := by
  have hF := hV.forest
  have hI := R2C.inv_of_valid hV
  have base : ∀ (hns : ∀ p x, (p, n) ∈ s.edgeList → R2C.SibSeg s n x → False), SA s n s.edgeList s :=
    fun hns => ⟨⟨hI, rfl, rfl, fun _ => rfl, rfl, hV.linOn, fun p x hp hx => (hns p x hp hx).elim,
      fun _ _ => rfl⟩, hc⟩
  rcases R2C.preds_cases hF n with hp | ⟨p, hp⟩
  · have : delNodeLoop1 s n = (s, .ok []) := by unfold delNodeLoop1; rw [hp]; rfl
    rw [this, R2C.filter_in_eq_self hp]
    apply RunQ_pure
    apply base
    intro p x hpn _
    have := tk_mem_preds.2 hpn; rw [hp] at this; cases this
  · have hpn : (p, n) ∈ s.edgeList := tk_mem_preds.1 (by rw [hp]; exact List.mem_cons_self)
    rw [← R2C.filter_in_eq hF hpn]
    unfold delNodeLoop1
    rw [hp]
    simp only [List.foldl_cons, List.foldl_nil]
    refine RunQ_thenPrim (Q := SA s n s.edgeList) ?_ (fun st st' r h hk => SA_pDelEdge h hk)
    by_cases hlen : (s.succs p).length = 2
    · simp only [hlen, beq_self_eq_true, if_true]
      have hnm : n ∈ s.succs p := tk_mem_succs.2 hpn
      cases hh : ((s.succs p).erase n).head? with
      | none =>
        have h1 := List.length_erase_of_mem hnm
        rw [List.head?_eq_none_iff] at hh
        rw [hh, hlen] at h1; simp at h1
      | some sib =>
        simp only []
        have hm := List.mem_of_head? hh
        rw [(hF.succs_nodup p).mem_erase_iff] at hm
        have hps : (p, sib) ∈ s.edgeList := tk_mem_succs.1 hm.2
        refine RunQ_thenPrim (Q := fun st => st = s) (RunQ_pure rfl) ?_
        intro st st' r hst hk
        subst hst
        split at hk
        · rename_i tp htp
          exact SA_relabel hV hc hpn hps hm.1 htp hk
        · cases hk
    · have hb : ((s.succs p).length == 2) = false := by simpa using hlen
      simp only [hb, Bool.false_eq_true, if_false]
      apply RunQ_pure
      apply base
      rintro p' x hp' ⟨q, sib, hqn, hqs, hne, _⟩
      have := hF.par_unique hqn hpn; subst this
      exact hlen (R2C.outdeg_two hF hqs hqn hne)

theorem loop2_run {s : St} {n : Node} : ∀ (l : List Node) (es : List Edge) (a : UOut),
    RunQ s (SA s n es) a →
    RunQ s (SA s n (l.foldl (fun es c => es.filter (· != (n, c))) es))
      (l.foldl (fun acc c => thenPrim acc (fun st => st.pDelEdge (n, c))) a) := by
  intro l
  induction l with
  | nil => intro es a h; exact h
  | cons c l ih =>
    intro es a h
    rw [List.foldl_cons, List.foldl_cons]
    exact ih _ _ (RunQ_thenPrim h (fun st st' r h hk => SA_pDelEdge h hk))

/-- the middle state (all edges at `n` removed, sibling relabelled), with the laws -/
theorem mid_run {s : St} (hV : s.Valid) (hc : Ctx s s) (n : Node) :
    RunQ s (SA s n (R2C.midE s n)) (delNodeMid s n) := by
  have h1 := loop1_run hV hc n
  unfold delNodeMid delNodeLoop2
  intro r hr
  cases h2 : (delNodeLoop1 s n).2 with
  | error e =>
    have : ∀ (l : List Node) (a : UOut), a.2 = .error e →
        (l.foldl (fun acc c => thenPrim acc (fun st => st.pDelEdge (n, c))) a).2 = .error e := by
      intro l
      induction l with
      | nil => intro a h; exact h
      | cons c l ih => intro a h; rw [List.foldl_cons]; apply ih; rw [thenPrim_err h]
    rw [this _ _ h2] at hr; cases hr
  | ok r1 =>
    have hs1 := (h1 r1 h2).2
    have hsucc := R2C.succs_filter_in hV.forest hs1.1.es
    rw [hsucc] at hr ⊢
    have := loop2_run (s := s) (n := n) (s.succs n) _ _ h1 r hr
    rw [R2C.midE_eq] at this
    exact this

/-- the node-attribute invariant behind `AddPre` / `DelPre`: every visible node attribute is a
    registered feature, active regionprops keys are registered; without array every node has its
    position; with array every stored regionprops value is current and no node has the id `0` -/
structure NodeInv (s : St) : Prop where
  registered : ∀ n k, s.otherOf n k ≠ Val.none → k ∈ s.regNode
  rpreg : ∀ k ∈ s.rpActive, k ∈ s.regNode
  pos : s.seg = none → ∀ n ∈ s.ids, ∀ k ∈ s.posKeys, s.otherOf n k ≠ Val.none
  cur : ∀ g, s.seg = some g → ∀ n t, s.timeOf n = some t → ∀ k ∈ s.rpActive, s.otherOf n k = g.maskVal t n
  ne0 : ∀ g, s.seg = some g → (0 : Node) ∉ s.ids

theorem NodeInv.of_fr' {s st : St} (h : NodeInv s) (hf : Fr s st) (hids : st.ids = s.ids)
    (htime : ∀ n, st.timeOf n = s.timeOf n) : NodeInv st := by
  obtain ⟨q1, q2, q3, q4, q5, q6, q7, q8⟩ := reg_fields hf.reg
  refine ⟨fun n k hk => ?_, fun k hk => ?_, fun hs n hn k hk => ?_, fun g hg n t ht k hk => ?_, fun g hg => ?_⟩
  · rw [q1]; rw [hf.oth] at hk; exact h.registered n k hk
  · rw [q1]; rw [q3] at hk; exact h.rpreg k hk
  · rw [hf.oth]; rw [hf.seg] at hs; rw [hids] at hn; rw [q8] at hk
    exact h.pos hs n hn k hk
  · rw [hf.oth]; rw [hf.seg] at hg; rw [htime] at ht; rw [q3] at hk
    exact h.cur g hg n t ht k hk
  · rw [hf.seg] at hg; rw [hids]; exact h.ne0 g hg

theorem NodeInv.of_fr {s st : St} (h : NodeInv s) (hf : Fr s st) (hnt : st.nt = s.nt) : NodeInv st :=
  h.of_fr' hf (R2C.ids_of_nt hnt) (R2C.timeOf_of_nt hnt)

/-- `DelPre` at a state with exact lookups where `n` has no incident edge -/
theorem delPre_of {st : St} {n : Node} (hw : WF st) (hI : PC.Inv st) (hon : st.linOn = true)
    (hne : ∀ e ∈ st.edgeList, e.1 ≠ n ∧ e.2 ≠ n) (hn : n ∈ st.ids) (hNI : NodeInv st) : DelPre st n := by
  refine ⟨hw, hon, hne, fun id => ?_, fun id => ?_, fun k hk => hNI.registered n k hk,
    fun hs k hk => hNI.pos hs n hn k hk, fun g t hg ht k hk => hNI.cur g hg n t ht k hk⟩
  · rw [hI.tok.iff]; exact ⟨fun h => h.2, fun h => ⟨hn, h⟩⟩
  · rw [hI.lok.iff hon]; exact ⟨fun h => h.2, fun h => ⟨hn, h⟩⟩

/-- orphan-loop stage -/
def SD (s : St) (n : Node) (tg P : List Node) (st : St) : Prop :=
  R2C.StgT s n (R2C.midE s n) st ∧ R2C.LinW s tg st P ∧ Ctx s st

theorem loop_step_run {s : St} (hV : s.Valid) {n c : Node} {tg P : List Node} {st st' : St} {r : PrimRec}
    (h : SD s n tg (c :: P) st) (hc : (n, c) ∈ s.edgeList) (hctg : c ∈ tg)
    (hk : (match st.tidOf c with
      | some t => st.pUpdTid c t (some st.nextLin)
      | none => .error .key) = .ok (st', r)) :
    InvLaw E st r st' ∧ SD s n tg P st' := by
  obtain ⟨hT, hL, hC⟩ := h
  have hF0 := hV.forest
  obtain ⟨h1, h2⟩ := R2C.loop_step hF0 hT hL hc hctg hk
  split at hk
  · rename_i t ht
    have hcm0 : c ∈ s.ids := hF0.dst_mem _ hc
    have hcm : c ∈ st.ids := by rw [R2C.ids_of_nt hT.nt]; exact hcm0
    have hbelow : ∀ x, s.Anc c x → s.Anc n x ∧ x ≠ n := fun x hx =>
      ⟨Anc.cons hc hx, fun h => by
        rw [h] at hx; have := hx.tm_le hF0; have := hF0.tm_lt hc; omega⟩
    have htx : ∀ x, s.Anc c x → st.tidOf x = s.tidOf x := fun x hx =>
      hT.tidOut x (fun hs => sibSeg_not_below hF0 hs (hbelow x hx).1)
    have hts : s.tidOf c = some t := by rw [← htx c (Anc.refl c)]; exact ht
    have hch : tk_ChainHyp st t c := by
      refine chainHyp_sub (s := s) ?_ ?_ htx (hV.tid.chainHyp hF0 hcm0 hts)
      · intro x c' _ he; rw [hT.es] at he; exact (R2C.mem_midE.1 he).1
      · intro x hx
        rw [outdeg_eq, outdeg_eq, hT.es, mid_out_eq hF0 (hbelow x hx).1 (hbelow x hx).2]
    have hp := viewPre_same (nL := some st.nextLin) hT.inv.along hcm ht hch (fun _ _ => hL.has c hcm)
    have h3 := ctx_updTid hC hT.inv.forest (bookOK_of_inv hT.inv) hp hk
    exact ⟨h3.1, h1, h2, h3.2⟩
  · cases hk

theorem loop_gen_run {s : St} (hV : s.Valid) {n : Node} {tg0 : List Node} : ∀ (tg P : List Node) (a : UOut),
    (∀ c ∈ tg, (n, c) ∈ s.edgeList ∧ c ∈ tg0) →
    RunQ s (SD s n tg0 (tg ++ P)) a →
    RunQ s (SD s n tg0 P)
      (tg.foldl (fun acc c => thenPrim acc (fun st => match st.tidOf c with
        | some t => st.pUpdTid c t (some st.nextLin)
        | none => .error .key)) a) := by
  intro tg
  induction tg with
  | nil => intro P a _ h; exact h
  | cons c tg ih =>
    intro P a hc h
    rw [List.foldl_cons]
    apply ih P _ (fun c' hc' => hc c' (List.mem_cons_of_mem _ hc'))
    refine RunQ_thenPrim h ?_
    intro st st' r hst hk
    exact loop_step_run hV hst (hc c List.mem_cons_self).1 (hc c List.mem_cons_self).2 hk

/-- what the last step (DeleteNode) of an accepted `uDeleteNode` establishes -/
def Fin (s : St) (n : Node) (F : St) : Prop :=
  R2C.Post s n F ∧ Good F ∧ ∃ st, Ctx s st ∧ st.nt = s.nt ∧ NodeRel F n st

theorem fin_step {s : St} (hV : s.Valid) {n : Node} (hn : n ∈ s.ids) (hNI : NodeInv s) {b : List Edge}
    (hb : R2C.Br s n b) {st F : St} {px : Option (List Pix)} {r : PrimRec}
    (hT : R2C.StgT s n (R2C.midE s n ++ b) st) (hL : R2C.LinW s (R2C.relTargets s n) st [n])
    (hC : Ctx s st) (hpx : px = none ∨ px = s.getPixels n)
    (hk : st.pDelNode n px = .ok (F, r)) : InvLaw E st r F ∧ Fin s n F := by
  have hF := hV.forest
  have hbn : ∀ e ∈ b, e.1 ≠ n ∧ e.2 ≠ n := by
    intro e he
    obtain ⟨h1, h2, _, _⟩ := hb.src he
    exact ⟨fun h => R2C.no_self_edge hF n (h ▸ h1),
      fun h => R2C.no_self_edge hF n (by rw [← h] at h2 ⊢; exact h2)⟩
  have hne : ∀ e ∈ st.edgeList, e.1 ≠ n ∧ e.2 ≠ n := by
    intro e he
    rw [hT.es] at he
    rcases List.mem_append.1 he with he | he
    · exact (R2C.mem_midE.1 he).2
    · exact hbn e he
  have hnst : n ∈ st.ids := by rw [R2C.ids_of_nt hT.nt]; exact hn
  have hp : DelPre st n := delPre_of hC.good.wf hT.inv hT.linOn hne hnst (hNI.of_fr hC.fr hT.nt)
  have hgp : st.getPixels n = s.getPixels n := by
    unfold getPixels; rw [hC.fr.seg, R2C.timeOf_of_nt hT.nt]
  have hpx' : px = none ∨ px = st.getPixels n := by rw [hgp]; exact hpx
  obtain ⟨saved, px', _, hid, hG⟩ := pDelNode_good hp hpx' hk
  exact ⟨law_delNode hp hpx' hC.good.max hk, R2C.post_of_delNode hV hn hb hT hL hk,
    good_delNode hp hpx' hC.good.max hk, st, hC, hT.nt, hid ▸ hG.rel⟩

theorem tail_run {s : St} (hV : s.Valid) (hNI : NodeInv s) {n : Node} (hn : n ∈ s.ids) {T : Nat}
    (hnT : s.tidOf n = some T) {a1 : UOut} {r1 : List PrimRec} (h1 : a1.2 = .ok r1)
    (hst : RunQ s (SA s n (R2C.midE s n)) a1) (hasPred : Bool)
    (hhp0 : hasPred = !(s.preds n).isEmpty) (px : Option (List Pix))
    (hpx : px = none ∨ px = s.getPixels n) :
    RunQ s (Fin s n) (delNodeTail a1 (s.succs n) hasPred n px T (s.tk_tm n)) := by
  have hF := hV.forest
  have hhp : hasPred = true ↔ ∃ p, (p, n) ∈ s.edgeList := by
    rw [hhp0, Bool.not_eq_true', List.isEmpty_eq_false_iff_exists_mem]
    constructor
    · rintro ⟨p, hp⟩; exact ⟨p, tk_mem_preds.1 hp⟩
    · rintro ⟨p, hp⟩; exact ⟨p, tk_mem_preds.2 hp⟩
  have htg : R2C.relTargets s n = if hasPred then s.succs n else (s.succs n).tail := by
    unfold R2C.relTargets; rw [hhp0]
  have hS := (hst r1 h1).2
  have hnb := R2C.nbr_spec hF hV.tid hn hnT hS.1.nt hS.1.inv.tok (R2C.mid_tid_iff hV hnT hS.1)
  have hst2 : RunQ s (SA s n (R2C.midE s n)) ((a1.1.trackNeighbors T (s.tk_tm n)).1, a1.2) :=
    RunQ_state (st := a1.1) hst (E_isEquiv.symm (E_trackNeighbors _ _ _))
      (fun h => ⟨R2C.Stg_trackNeighbors T _ h.1, ctx_trackNeighbors h.2 T _⟩)
  unfold delNodeTail
  simp only []
  generalize a1.1.trackNeighbors T (s.tk_tm n) = r at hnb hst2
  obtain ⟨st2, pr, sc⟩ := r
  simp only at hnb hst2
  obtain ⟨nb1, nb2, nb3, nb4⟩ := hnb
  have hlen : (s.succs n).length ≤ 2 := hF.outdeg_le n
  have nobridge : (∀ p c, (p, n) ∈ s.edgeList → (n, c) ∈ s.edgeList →
        ¬ (s.outdeg p = 1 ∧ s.outdeg n = 1)) →
      RunQ s (Fin s n) (thenPrim
        ((List.zip (List.range (s.succs n).length) (s.succs n)).foldl (fun acc io =>
          if hasPred || io.1 > 0 then
            thenPrim acc (fun st => match st.tidOf io.2 with
              | some t => st.pUpdTid io.2 t (some st.nextLin)
              | none => .error .key)
          else acc) (st2, a1.2)) (fun st => st.pDelNode n px)) := by
    intro hbr
    have hb : R2C.Br s n [] := Or.inl ⟨rfl, hbr⟩
    rw [R2C.loop_eq hasPred (fun c st => match st.tidOf c with
              | some t => st.pUpdTid c t (some st.nextLin)
              | none => .error .key) _ _ hlen]
    refine RunQ_thenPrim (loop_gen_run (tg0 := R2C.relTargets s n) hV _ [n] (st2, a1.2) ?_
      (RunQ_mono hst2 (fun st h => ⟨h.1.toT, R2C.linW_init hV hn h.1 hasPred hhp _, h.2⟩))) ?_
    · intro c hc
      refine ⟨?_, by rw [htg]; exact hc⟩
      apply tk_mem_succs.1
      cases hasPred
      · exact List.mem_of_mem_tail hc
      · exact hc
    · intro st st' r hq hk
      exact fin_step hV hn hNI hb (by rw [List.append_nil]; exact hq.1) hq.2.1 hq.2.2 hpx hk
  cases pr with
  | none =>
    cases sc <;> simp only [] <;> apply nobridge <;> intro p c hp _ hh <;>
      (have := nb2 rfl p hp; omega)
  | some p =>
    cases sc with
    | none =>
      simp only []
      apply nobridge
      intro p c _ _ hh
      exact nb4 rfl hh.2
    | some c =>
      simp only []
      obtain ⟨hp, hop⟩ := nb1 p rfl
      obtain ⟨hc, hon⟩ := nb3 c rfl
      have hsn : s.succs n = [c] := tk_eq_singleton_of_length_one hon (tk_mem_succs.2 hc)
      have hb : R2C.Br s n [(p, c)] := Or.inr ⟨p, c, rfl, hp, hc, hop, hon⟩
      rw [hsn]
      simp only [List.erase_cons_head, List.length_nil, List.range_zero, List.zip_nil_right,
        List.foldl_nil]
      refine RunQ_thenPrim (Q := fun st => R2C.Stg s n (R2C.midE s n ++ [(p, c)]) st ∧ Ctx s st)
        (RunQ_thenPrim (Q := SA s n (R2C.midE s n)) hst2 ?_) ?_
      · intro st st' r h hk
        have hf : (p, c) ∉ st.edgeList := by
          rw [h.1.es]; intro hm
          have : (p, c) ∈ (R2C.midE s n).filter (·.1 == p) := List.mem_filter.2 ⟨hm, by simp⟩
          rw [R2C.midE_no_out hF hp hop] at this; cases this
        have h3 := ctx_addEdge h.2 hf hk
        exact ⟨h3.1, R2C.Stg_bridge hV hp hop hc h.1 hk, h3.2⟩
      · intro st st' r hq hk
        exact fin_step hV hn hNI hb hq.1.toT (R2C.linW_bridge hV hc hon hq.1 _) hq.2 hpx hk

/-- **accepted `uDeleteNode`**: the records form a lawful chain, and the last step is described -/
theorem uDeleteNode_run {s : St} (hV : s.Valid) (hG : Good s) (hEI : EdgeInv s) (hNI : NodeInv s)
    {n : Node} {px : Option (List Pix)} (hpx : px = none ∨ px = s.getPixels n) :
    RunQ s (Fin s n) (s.uDeleteNode n px) := by
  have hF := hV.forest
  have hc := Ctx.refl hG hEI
  have aux : n ∈ s.ids → RunQ s (Fin s n) (s.uDeleteNode n px) := by
    intro hn
    rw [uDeleteNode_eq]
    split
    · exact RunQ_err _ _ _ _
    · simp only []
      split
      · exact RunQ_err _ _ _ _
      · have hmid := mid_run hV hc n
        unfold delNodeMid at hmid
        rename_i r0 h0
        have hs1 := (loop1_run hV hc n r0 h0).2
        have hsucc := R2C.succs_filter_in hF hs1.1.es
        obtain ⟨T, hnT⟩ : ∃ T, s.tidOf n = some T := by
          obtain ⟨r, hr⟩ := tk_mem_ids_iff.1 hn
          exact ⟨r.tid, tk_tidOf_of_findNode hr⟩
        split
        · exact RunQ_err _ _ _ _
        · rename_i r1 tid time h1 htid htime
          have hst := (hmid r1 h1).2
          have e1 : tid = T := by
            rw [hst.1.tidOut n (R2C.sibSeg_not_self hF), hnT] at htid; cases htid; rfl
          have e2 : time = s.tk_tm n := by
            rw [R2C.timeOf_of_nt hst.1.nt, R2C.mem_ids_tm hn] at htime; cases htime; rfl
          subst e1 e2
          rw [hsucc]
          exact tail_run hV hNI hn hnT h1 hmid _ rfl px hpx
        · exact RunQ_err _ _ _ _
  intro recs h
  have hn : n ∈ s.ids := by
    rw [← hasNode_iff]
    cases hh : s.hasNode n with
    | true => rfl
    | false => rw [uDeleteNode_eq] at h; simp [hh] at h
  exact aux hn recs h

/-! ## §7 `EdgeInv` / `NodeInv` across the node relation (AddNode upwards, DeleteNode downwards) -/

theorem untouched_del {g₁ : Seg} {t n m : Nat} (hm0 : m ≠ 0) (hmn : m ≠ n) :
    Seg.Untouched g₁ (g₁.pixelsOf t n) 0 m :=
  ⟨hm0, fun p hp _ h => hmn (by rw [← h, (Seg.mem_pixelsOf.1 hp).2.2])⟩

theorem nr_mem_iff {s s₁ : St} {n : Node} (h : NodeRel s n s₁) {m : Node} (hm : m ≠ n) :
    m ∈ s₁.ids ↔ m ∈ s.ids := by
  rw [← nobs_isSome_iff, ← nobs_isSome_iff, h.oth m hm]

theorem nr_ne_of_mem {s s₁ : St} {n : Node} (h : NodeRel s n s₁) {m : Node} (hm : m ∈ s.ids) : m ≠ n :=
  fun e => h.fresh (e ▸ hm)

theorem nr_segSome {s s₁ : St} {n : Node} (h : NodeRel s n s₁) : s₁.seg.isSome = s.seg.isSome := by
  rcases h.segrel with ⟨a, b, _⟩ | ⟨g, g₁, t, a, b, _⟩ <;> rw [a, b] <;> rfl

/-- the IoU of an edge between old nodes does not see the isolated node `n` -/
theorem iouOf_nodeRel {s s₁ : St} {n : Node} (h : NodeRel s n s₁)
    (hne0 : ∀ g, s₁.seg = some g → (0 : Node) ∉ s₁.ids) {e : Edge} (h1 : e.1 ∈ s.ids) (h2 : e.2 ∈ s.ids) :
    s₁.iouOf e = s.iouOf e := by
  have n1 := nr_ne_of_mem h h1
  have n2 := nr_ne_of_mem h h2
  have t1 : s₁.timeOf e.1 = s.timeOf e.1 := by rw [timeOf_eq_nobs, timeOf_eq_nobs, h.oth _ n1]
  have t2 : s₁.timeOf e.2 = s.timeOf e.2 := by rw [timeOf_eq_nobs, timeOf_eq_nobs, h.oth _ n2]
  rcases h.segrel with ⟨a, b, _⟩ | ⟨g, g₁, t, a, b, _, hg, _⟩
  · unfold iouOf; rw [a, b]
  · have z1 : e.1 ≠ 0 := fun hz => hne0 g₁ b (hz ▸ (nr_mem_iff h n1).2 h1)
    have z2 : e.2 ≠ 0 := fun hz => hne0 g₁ b (hz ▸ (nr_mem_iff h n2).2 h2)
    unfold iouOf
    rw [a, b, t1, t2, hg]
    cases s.timeOf e.1 with
    | none => rfl
    | some u1 =>
      cases s.timeOf e.2 with
      | none => rfl
      | some u2 =>
        simp only [Seg.offsetsOf_setPixels_other (untouched_del z1 n1),
          Seg.offsetsOf_setPixels_other (untouched_del z2 n2)]

theorem edgeInv_nodeRel {s s₁ : St} {n : Node} (h : NodeRel s n s₁)
    (hne0 : ∀ g, s₁.seg = some g → (0 : Node) ∉ s₁.ids)
    (hends : ∀ e ∈ s.edgeList, e.1 ∈ s.ids ∧ e.2 ∈ s.ids) : EdgeInv s₁ ↔ EdgeInv s := by
  have hE : ∀ o, EObs s₁ o ↔ EObs s o := (eobs_iff h.wf₁.edges h.wf.edges).mpr h.edges
  obtain ⟨-, q2, -, q4, q5, -, -, -⟩ := reg_fields h.reg
  have hseg := nr_segSome h
  have hiou : ∀ o, EObs s o → s₁.iouOf o.1 = s.iouOf o.1 := by
    rintro o ⟨r, hr, rfl⟩
    have hm : r.e ∈ s.edgeList := List.mem_map_of_mem hr
    exact iouOf_nodeRel h hne0 (hends _ hm).1 (hends _ hm).2
  constructor
  · intro hi
    refine ⟨fun o ho k hk => ?_, fun a b k hk => ?_, fun k hk a b o ho => ?_⟩
    · rw [← q2]; exact hi.reg o ((hE o).2 ho) k hk
    · rw [← q2]; exact hi.iouReg (q5 ▸ a) (hseg ▸ b) k (q4 ▸ hk)
    · rw [← hiou o ho]; exact hi.cur k (q4 ▸ hk) (q5 ▸ a) (hseg ▸ b) o ((hE o).2 ho)
  · intro hi
    refine ⟨fun o ho k hk => ?_, fun a b k hk => ?_, fun k hk a b o ho => ?_⟩
    · rw [q2]; exact hi.reg o ((hE o).1 ho) k hk
    · rw [q2]; exact hi.iouReg (q5 ▸ a) (hseg ▸ b) k (q4 ▸ hk)
    · rw [hiou o ((hE o).1 ho)]; exact hi.cur k (q4 ▸ hk) (q5 ▸ a) (hseg ▸ b) o ((hE o).1 ho)

theorem otherOf_not_mem {s : St} {n : Node} (h : n ∉ s.ids) (k : Key) : s.otherOf n k = Val.none := by
  rw [otherOf_eq_nobs, nobs_none_of_fresh h]; rfl

/-- removing the isolated node keeps the node invariant -/
theorem nodeInv_down {s s₁ : St} {n : Node} (h : NodeRel s n s₁) (hi : NodeInv s₁) : NodeInv s := by
  obtain ⟨q1, -, q3, -, -, -, -, q8⟩ := reg_fields h.reg
  have hoth : ∀ m, m ≠ n → ∀ k, s.otherOf m k = s₁.otherOf m k := fun m hm k =>
    (otherOf_of_nobs (h.oth m hm) k).symm
  refine ⟨fun m k hk => ?_, fun k hk => ?_, fun hs m hm k hk => ?_, fun g hg m t ht k hk => ?_, fun g hg => ?_⟩
  · by_cases hm : m = n
    · rw [hm, otherOf_not_mem h.fresh] at hk; exact absurd rfl hk
    · rw [← q1]; rw [hoth m hm] at hk; exact hi.registered m k hk
  · rw [← q1]; rw [← q3] at hk; exact hi.rpreg k hk
  · have hmn := nr_ne_of_mem h hm
    have hs1 : s₁.seg = none := by
      rcases h.segrel with ⟨_, b, _⟩ | ⟨g, g₁, t, a, _⟩
      · exact b
      · rw [a] at hs; cases hs
    rw [hoth m hmn]; rw [← q8] at hk
    exact hi.pos hs1 m ((nr_mem_iff h hmn).2 hm) k hk
  · have hm : m ∈ s.ids := by rw [← PC.timeOf_isSome_iff, ht]; rfl
    have hmn := nr_ne_of_mem h hm
    rcases h.segrel with ⟨a, _⟩ | ⟨g', g₁, t', a, b, _, hg', _⟩
    · rw [a] at hg; cases hg
    · rw [a] at hg; cases hg
      have hz : m ≠ 0 := fun hz => hi.ne0 g₁ b (hz ▸ (nr_mem_iff h hmn).2 hm)
      have ht1 : s₁.timeOf m = some t := by rw [timeOf_eq_nobs, h.oth m hmn, ← timeOf_eq_nobs]; exact ht
      rw [hoth m hmn, hg', Seg.maskVal_setPixels_other (untouched_del hz hmn)]
      rw [← q3] at hk
      exact hi.cur g₁ b m t ht1 k hk
  · intro h0
    have h0n : (0 : Node) ≠ n := nr_ne_of_mem h h0
    rcases h.segrel with ⟨a, _⟩ | ⟨g', g₁, t', a, b, _⟩
    · rw [a] at hg; cases hg
    · exact hi.ne0 g₁ b ((nr_mem_iff h h0n).2 h0)

/-- adding the isolated node (non-zero id when there is an array) keeps the node invariant -/
theorem nodeInv_up {s s₁ : St} {n : Node} (h : NodeRel s n s₁) (hn0 : ∀ g, s.seg = some g → n ≠ 0)
    (hi : NodeInv s) : NodeInv s₁ := by
  obtain ⟨q1, -, q3, -, -, -, -, q8⟩ := reg_fields h.reg
  have hoth : ∀ m, m ≠ n → ∀ k, s₁.otherOf m k = s.otherOf m k := fun m hm k =>
    otherOf_of_nobs (h.oth m hm) k
  refine ⟨fun m k hk => ?_, fun k hk => ?_, fun hs m hm k hk => ?_, fun g hg m t ht k hk => ?_, fun g hg => ?_⟩
  · rw [q1]
    by_cases hm : m = n
    · rw [hm] at hk; exact h.registered k hk
    · rw [hoth m hm] at hk; exact hi.registered m k hk
  · rw [q1]; rw [q3] at hk; exact hi.rpreg k hk
  · rw [q8] at hk
    rcases h.segrel with ⟨a, _, c⟩ | ⟨g, g₁, t, _, b, _⟩
    · by_cases hmn : m = n
      · rw [hmn]; exact c k hk
      · rw [hoth m hmn]; exact hi.pos a m ((nr_mem_iff h hmn).1 hm) k hk
    · rw [b] at hs; cases hs
  · rw [q3] at hk
    rcases h.segrel with ⟨_, b, _⟩ | ⟨g', g₁, t', a, b, c, hg', d⟩
    · rw [b] at hg; cases hg
    · rw [b] at hg; cases hg
      by_cases hmn : m = n
      · rw [hmn] at ht ⊢; rw [c] at ht; cases ht; exact d k hk
      · have hm : m ∈ s.ids := by
          rw [← nr_mem_iff h hmn, ← PC.timeOf_isSome_iff, ht]; rfl
        have hz : m ≠ 0 := fun hz => hi.ne0 g' a (hz ▸ hm)
        have ht0 : s.timeOf m = some t := by rw [timeOf_eq_nobs, ← h.oth m hmn, ← timeOf_eq_nobs]; exact ht
        rw [hoth m hmn, hi.cur g' a m t ht0 k hk, hg', Seg.maskVal_setPixels_other (untouched_del hz hmn)]
  · intro h0
    rcases h.segrel with ⟨_, b, _⟩ | ⟨g', g₁, t', a, b, _⟩
    · rw [b] at hg; cases hg
    · by_cases h0n : (0 : Node) = n
      · exact hn0 g' a h0n.symm
      · exact hi.ne0 g' a ((nr_mem_iff h h0n).1 h0)

/-! ## §5 `uDeleteEdge`, as needed by the forced paths of `uAddNode` -/

theorem siblings_not_anc {s : St} (hF : s.Forest) {p a b : Node} (ha : (p, a) ∈ s.edgeList)
    (hb : (p, b) ∈ s.edgeList) (hab : a ≠ b) : ¬ s.Anc a b := by
  intro hanc
  rcases hanc.tail with h | ⟨q, hq, hqe⟩
  · exact hab h
  · rw [hF.par_unique hqe hb] at hq
    have := hq.tm_le hF; have := hF.tm_lt ha; omega

/-- the view precondition only reads the subtree below the start node -/
theorem viewPre_sub {s st : St} {start : Node} {oT nT : Nat} {oL nL : Option Nat}
    (hp : R2A2.ViewPre s start oT nT oL nL) (hm : start ∈ st.ids)
    (he : ∀ x c, s.Anc start x → (x, c) ∈ st.edgeList → (x, c) ∈ s.edgeList)
    (ho : ∀ x, s.Anc start x → st.outdeg x = s.outdeg x)
    (ht : ∀ x, s.Anc start x → st.tidOf x = s.tidOf x)
    (hl : ∀ x, s.Anc start x → st.linOf x = s.linOf x) (hon : st.linOn = s.linOn) :
    R2A2.ViewPre st start oT nT oL nL where
  mem := hm
  tid := by rw [ht start (Anc.refl _)]; exact hp.tid
  lin := by rw [hl start (Anc.refl _)]; exact hp.lin
  chain := chainHyp_sub he ho ht hp.chain
  noReuse := by
    intro p c hd hpc hop
    have hd' := segDown_sub he ho hd
    have hpc' := he p c hd'.anc hpc
    rw [ht c (Anc.step _ p c hd'.anc hpc')]
    exact hp.noReuse p c hd' hpc' (by rw [← ho p hd'.anc]; exact hop)
  linSub := by
    intro hon' x hx
    have hx' := anc_sub he hx
    rw [hl x hx']
    exact hp.linSub (hon ▸ hon') x hx'
  linHas := fun hon' => hp.linHas (hon ▸ hon')

/-- what the forced paths of `uAddNode` need from `uDeleteEdge` -/
def DelEdgeRun : Prop :=
  ∀ (s0 st : St) (e : Edge), Valid st → Ctx s0 st →
    RunQ st (fun st' => Valid st' ∧ Ctx s0 st') (st.uDeleteEdge e)

theorem uDeleteEdge_ctx {s0 s : St} {e : Edge} (hV : Valid s) (hC : Ctx s0 s) :
    RunQ s (fun st' => Ctx s0 st') (s.uDeleteEdge e) := by
  intro recs hok
  obtain ⟨u, v⟩ := e
  have hF := hV.forest
  have hT := hV.tid
  have hE := tk_uDeleteEdge_hasEdge hok
  have hmem : (u, v) ∈ s.edgeList := tk_hasEdge_iff.1 hE
  obtain ⟨r, hr⟩ := tk_pDelEdge_ok hE
  have heq : s.uDeleteEdge (u, v) =
      (let a : UOut := (s.tk_delE (u, v), .ok [r])
       if (s.tk_delE (u, v)).outdeg u == 0 then
         thenPrim a (fun st => st.pUpdTid v st.nextTid (some st.nextLin))
       else if (s.tk_delE (u, v)).outdeg u == 1 then
         match ((s.tk_delE (u, v)).succs u).head? with
         | none => ((s.tk_delE (u, v)), .error .other)
         | some sib =>
           let a1 := thenPrim a (fun st => match st.tidOf u with
             | some t => st.pUpdTid sib t none
             | none => .error .key)
           thenPrim a1 (fun st => match st.tidOf v with
             | some t => st.pUpdTid v t (some st.nextLin)
             | none => .error .key)
       else ((s.tk_delE (u, v)), .error .invalid)) := by
    unfold uDeleteEdge
    simp only [hE, Bool.not_true, Bool.false_eq_true, if_false]
    have : thenPrim (s, Except.ok []) (fun st => st.pDelEdge (u, v)) = (s.tk_delE (u, v), .ok [r]) := by
      simp [thenPrim, hr]
    rw [this]
    rfl
  obtain ⟨hlaw, hc1⟩ := ctx_delEdge hC hF hr
  have hF1 : (s.tk_delE (u, v)).Forest := hF.tk_delE _
  have hB1 : (s.tk_delE (u, v)).BookOK := by
    have hbv := PC.pDelEdge_BV hr
    obtain ⟨a, b⟩ := (PC.bookOK_iff _).1 hV.book
    exact (PC.bookOK_iff _).2 ⟨hbv.TOK a, hbv.LOK b⟩
  have hv : v ∈ s.ids := hF.dst_mem _ hmem
  have hlt := hF.tm_lt hmem
  have base : RunQ s (fun st => st = s.tk_delE (u, v)) (s.tk_delE (u, v), .ok [r]) := by
    intro recs' h'
    cases h'
    exact ⟨chain_single hlaw, rfl⟩
  have key : RunQ s (fun st' => Ctx s0 st') (s.uDeleteEdge (u, v)) := by
    rw [heq]
    simp only []
    by_cases h0 : (s.tk_delE (u, v)).outdeg u = 0
    · simp only [h0, beq_self_eq_true, if_true]
      refine RunQ_thenPrim base ?_
      intro st st' r' hst hk
      subst hst
      obtain ⟨rv, hrv⟩ := tk_mem_ids_iff.1 hv
      have hp := R2A2.viewPre_after_cut (nT := (s.tk_delE (u, v)).nextTid)
        (nL := some (s.tk_delE (u, v)).nextLin) hF hT hmem (tk_tidOf_of_findNode hrv)
        (fun _ => hV.lin.along) (fun _ _ => hV.lin.has v hv)
        (R2A2.fresh_of_max hV.book (by show s.maxTid < s.maxTid + 1; omega))
      exact ctx_updTid hc1 hF1 hB1 hp hk
    · have hb0 : ((s.tk_delE (u, v)).outdeg u == 0) = false := by simp [h0]
      simp only [hb0, Bool.false_eq_true, if_false]
      by_cases h1 : (s.tk_delE (u, v)).outdeg u = 1
      · simp only [h1, beq_self_eq_true, if_true]
        cases hh : ((s.tk_delE (u, v)).succs u).head? with
        | none => exact RunQ_err _ _ _ _
        | some sib =>
          simp only []
          have hsib1 : (u, sib) ∈ (s.tk_delE (u, v)).edgeList := tk_mem_succs.1 (List.mem_of_head? hh)
          have hsibE : (u, sib) ∈ s.edgeList := (tk_mem_delE.1 hsib1).1
          have hsv : sib ≠ v := fun h => (tk_mem_delE.1 hsib1).2 (by rw [h])
          have hsu : ¬ s.Anc sib u := by
            intro h; have := h.tm_le hF; have := hF.tm_lt hsibE; omega
          have hsi : sib ∈ s.ids := hF.dst_mem _ hsibE
          obtain ⟨rs, hrs⟩ := tk_mem_ids_iff.1 hsi
          have hts := tk_tidOf_of_findNode hrs
          -- the subtree below a child of `u` is untouched by the cut
          have hsubE : ∀ (a x c : Node), s.Anc a x → (x, c) ∈ (s.tk_delE (u, v)).edgeList →
              (x, c) ∈ s.edgeList := fun _ _ _ _ h => (tk_mem_delE.1 h).1
          have hsubO : ∀ a, (u, a) ∈ s.edgeList → ∀ x, s.Anc a x → (s.tk_delE (u, v)).outdeg x = s.outdeg x := by
            intro a ha x hx
            apply tk_outdeg_delE_ne
            intro hxu
            rw [hxu] at hx
            have := hx.tm_le hF; have := hF.tm_lt ha; omega
          refine RunQ_thenPrim (Q := fun st => ∃ t, s.tidOf u = some t ∧
              st = (s.tk_delE (u, v)).walk sib rs.tid t rs.lin none ∧ Ctx s0 st ∧ Forest st ∧ BookOK st)
            (RunQ_thenPrim base ?_) ?_
          · intro st st' r' hst hk
            subst hst
            split at hk
            · rename_i t htu
              have htu' : s.tidOf u = some t := htu
              have hp0 : R2A2.ViewPre s sib rs.tid t (s.linOf sib) none :=
                R2A2.viewPre_of_tidOK hF hT hsi hts (fun _ => hV.lin.along) (fun _ h => by cases h)
                  (R2A2.notDownstream_of hF hT hsi hts (Or.inr (Or.inr ⟨u, htu', hsu⟩)))
              have hp : R2A2.ViewPre (s.tk_delE (u, v)) sib rs.tid t (s.linOf sib) none :=
                viewPre_sub hp0 hsi (hsubE sib) (hsubO sib hsibE) (fun _ _ => rfl) (fun _ _ => rfl) rfl
              have h3 := ctx_updTid hc1 hF1 hB1 hp hk
              obtain ⟨_, e2, _, g3, g4⟩ := good_updTid hc1.good.wf hF1 hB1 hp hk
              have hl : rs.lin = s.linOf sib := by unfold linOf; rw [hrs]; rfl
              exact ⟨h3.1, t, htu', by rw [e2, hl], h3.2, g3, g4⟩
            · cases hk
          · intro st st' r' hq hk
            obtain ⟨t, htu, hst, hc2, hF2, hB2⟩ := hq
            split at hk
            · rename_i t2 ht2
              have hG2 := tk_walk_sameG (s.tk_delE (u, v)) sib rs.tid t rs.lin none
              have hnl := tk_walk_nolin (s.tk_delE (u, v)) sib rs.tid t rs.lin
              have hch1 := tk_chainHyp_delE (v := v) hF hT hsi hsu hts
              have hw := tk_walk_tid hF1 hsi rs.tid t rs.lin none hts hch1
              rw [← hst] at hG2 hnl hw
              have hel : st.edgeList = (s.tk_delE (u, v)).edgeList := by unfold edgeList; rw [hG2.edges]
              have hbelow : ∀ x, s.Anc v x → st.tidOf x = s.tidOf x := by
                intro x hx
                rw [hw.2 x]
                · rfl
                · intro hd
                  have hd' : s.Anc sib x := Anc.mono (fun y hy => (tk_mem_delE.1 hy).1) hd.anc
                  rcases anc_linear hF hd' hx with h | h
                  · exact siblings_not_anc hF hsibE hmem hsv h
                  · exact siblings_not_anc hF hmem hsibE (Ne.symm hsv) h
              have hv2 : v ∈ st.ids := by rw [hG2.ids]; exact hv
              have htv : s.tidOf v = some t2 := by rw [← hbelow v (Anc.refl v)]; exact ht2
              have hch : tk_ChainHyp st t2 v := by
                refine chainHyp_sub (s := s) ?_ ?_ hbelow (hT.chainHyp hF hv htv)
                · intro x c _ h; rw [hel] at h; exact (tk_mem_delE.1 h).1
                · intro x hx
                  rw [tk_outdeg_eq, hel, ← tk_outdeg_eq]
                  exact hsubO v hmem x hx
              have hA2 : PC.LinAlong st := by
                intro e he
                rw [hel] at he
                rw [hnl.1, hnl.1]
                exact hV.lin.along e (tk_mem_delE.1 he).1
              have hp := viewPre_same (nL := some st.nextLin) hA2 hv2 ht2 hch
                (fun _ _ => by rw [hnl.1]; exact hV.lin.has v hv)
              exact ctx_updTid hc2 hF2 hB2 hp hk
            · cases hk
      · have hb1 : ((s.tk_delE (u, v)).outdeg u == 1) = false := by simp [h1]
        simp only [hb1, Bool.false_eq_true, if_false]
        exact RunQ_err _ _ _ _
  exact key recs hok

theorem run_uDeleteEdge : DelEdgeRun := fun _ _ _ hV hC recs hok =>
  ⟨(uDeleteEdge_ctx hV hC recs hok).1, R2D.valid_uDeleteEdge hV hok, (uDeleteEdge_ctx hV hC recs hok).2⟩

/-! ## §6 `uAddNode` -/

theorem down_run (hDE : DelEdgeRun) {s sN : St} {succ : Option Node} {force : Bool} (hV : Valid sN)
    (hC : Ctx s sN) : RunQ sN (fun st => Ctx s st) (R2D.down sN succ force) := by
  unfold R2D.down
  cases succ with
  | none => exact RunQ_pure hC
  | some sc =>
    simp only []
    cases (sN.preds sc).head? with
    | none => exact RunQ_pure hC
    | some pos =>
      simp only []
      split
      · split
        · exact RunQ_err _ _ _ _
        · exact RunQ_thenUser (Q := fun st => st = sN) (RunQ_pure rfl)
            (fun st h => by subst h; exact RunQ_mono (hDE s _ _ hV hC) (fun _ h => h.2))
      · exact RunQ_pure hC

/-- the division checks, with forced removals -/
theorem pre_run (hDE : DelEdgeRun) {s sN : St} {pred succ : Option Node} {force : Bool} (hV : Valid sN)
    (hC : Ctx s sN) : RunQ sN (fun st => Ctx s st) (addNodePre sN pred succ force) := by
  cases pred with
  | none => rw [R2D.addNodePre_none]; exact down_run hDE hV hC
  | some p =>
    rw [R2D.addNodePre_some]
    split
    · split
      · exact RunQ_err _ _ _ _
      · split
        · exact RunQ_thenUser (Q := fun st => Valid st ∧ Ctx s st)
            (RunQ_thenUser (Q := fun st => st = sN) (RunQ_pure rfl)
              (fun st h => by subst h; exact hDE s _ _ hV hC))
            (fun st h => RunQ_mono (hDE s st _ h.1 h.2) (fun _ h => h.2))
        · exact RunQ_err _ _ _ _
    · exact down_run hDE hV hC

/-- the documented preconditions of `UserAddNode` on its arguments (C01): distinct attribute keys,
    every non-`None` attribute a registered feature; without array the position is given; with
    array the label is non-zero and absent from its frame and the pixels lie on background inside
    that frame -/
structure AddArgsPre (s : St) (a : AddNodeArgs) : Prop where
  keys : (a.other.map (·.1)).Nodup
  registered : ∀ kv ∈ a.other, kv.2 ≠ Val.none → kv.1 ∈ s.regNode
  pos : s.seg = none → ∀ k ∈ s.posKeys, obsAttrs a.other k ≠ Val.none
  ne0 : ∀ g, s.seg = some g → a.node ≠ 0
  absent : ∀ g time, s.seg = some g → a.time = some time → g.pixelsOf time a.node = []
  bg : ∀ g ps time, s.seg = some g → a.pixels = some ps → a.time = some time →
    ∀ p ∈ ps, p < g.data.length ∧ g.data.getD p 0 = 0 ∧ 0 < g.frame ∧ p / g.frame = time

/-- the state in which AddNode runs -/
structure Q1 (s s0 : St) (st : St) : Prop where
  ctx : Ctx s st
  forest : Forest st
  book : BookOK st
  linOn : st.linOn = true
  ids : st.ids = s0.ids
  time : ∀ n, st.timeOf n = s0.timeOf n

theorem Q1_delEdge {s s0 st st' : St} {e : Edge} {r : PrimRec} (h : Q1 s s0 st)
    (hk : st.pDelEdge e = .ok (st', r)) : InvLaw E st r st' ∧ Q1 s s0 st' := by
  have h1 := ctx_delEdge h.ctx h.forest hk
  have hbv := PC.pDelEdge_BV hk
  obtain ⟨hT, hL⟩ := (PC.bookOK_iff _).1 h.book
  exact ⟨h1.1, h1.2, pDelEdge_forest h.forest hk, (PC.bookOK_iff _).2 ⟨hbv.TOK hT, hbv.LOK hL⟩,
    hbv.linOn.trans h.linOn, hbv.ids.trans h.ids, fun n => (hbv.timeOf n).trans (h.time n)⟩

theorem addPre_of {s s0 st : St} {a : AddNodeArgs} {time tid : Nat} {lin : Option Nat}
    (h : Q1 s s0 st) (hNI : NodeInv s) (hA : AddArgsPre s a) (ht : a.time = some time)
    (hn : a.node ∉ s0.ids) :
    AddPre st { id := a.node, time := time, tid := tid, lin := lin, other := a.other } a.pixels := by
  obtain ⟨q1, q2, q3, q4, q5, q6, q7, q8⟩ := reg_fields h.ctx.fr.reg
  have hn' : a.node ∉ st.ids := by rw [h.ids]; exact hn
  refine ⟨h.ctx.good.wf, h.linOn, hn', hA.keys, fun e he => ?_, t2nfresh_of_book h.book hn',
    l2nfresh_of_book h.book h.linOn hn', fun kv hkv hv => ?_, fun k hk => ?_, fun hs k hk => ?_,
    fun g hg => ?_, fun g ps hg hps => ?_⟩
  · refine ⟨fun hc => hn' ?_, fun hc => hn' ?_⟩
    · have hc' : e.1 = a.node := hc
      rw [← hc']; exact h.forest.src_mem _ he
    · have hc' : e.2 = a.node := hc
      rw [← hc']; exact h.forest.dst_mem _ he
  · rw [q1]; exact hA.registered kv hkv hv
  · rw [q1]; rw [q3] at hk; exact hNI.rpreg k hk
  · rw [h.ctx.fr.seg] at hs; rw [q8] at hk; exact hA.pos hs k hk
  · rw [h.ctx.fr.seg] at hg; exact hA.absent g time hg ht
  · rw [h.ctx.fr.seg] at hg; exact hA.bg g ps time hg hps ht

/-- the result predicate of the node actions -/
structure QF (F : St) : Prop where
  good : Good F
  einv : EdgeInv F
  ninv : NodeInv F

theorem link_step {st st' : St} {e : Edge} {r : PrimRec} (h : QF st) (hf : e ∉ st.edgeList)
    (hk : st.pAddEdge e [] = .ok (st', r)) :
    InvLaw E st r st' ∧ QF st' ∧ ∀ e' ∈ st'.edgeList, e' = e ∨ e' ∈ st.edgeList := by
  have h1 := ctx_addEdge (Ctx.refl h.good h.einv) hf hk
  have hbv := PC.pAddEdge_BV hk
  have hp : AddEdgePre st e [] := AddEdgePre.of_edgeInv h.good.wf hf h.einv
  obtain ⟨_, hS⟩ := pAddEdge_edgeStep hp hk
  refine ⟨h1.1, ⟨h1.2.good, h1.2.einv, h.ninv.of_fr' h1.2.fr hbv.ids hbv.timeOf⟩, fun e' he' => ?_⟩
  by_cases hee : e' = e
  · exact Or.inl hee
  · right
    rw [← eobs_isSome_iff, ← hS.oth e' hee, eobs_isSome_iff]; exact he'

theorem link_succ {s : St} {a3 : UOut} {succ : Option Node} {node : Node}
    (step1 : RunQ s (fun st => QF st ∧ ∀ e ∈ st.edgeList, e.1 ≠ node) a3) :
    RunQ s QF (match succ with
      | some sc => thenPrim a3 (fun st => st.pAddEdge (node, sc) [])
      | none => a3) := by
  cases succ with
  | none => exact RunQ_mono step1 (fun st h => h.1)
  | some sc =>
    refine RunQ_thenPrim step1 ?_
    intro st st' r' hq hk
    have hf : (node, sc) ∉ st.edgeList := fun hm => hq.2 _ hm rfl
    obtain ⟨l1, l2, _⟩ := link_step hq.1 hf hk
    exact ⟨l1, l2⟩

/-- the linking edges after AddNode -/
theorem finish_run {s s2 : St} {recs0 : List PrimRec} {pred succ : Option Node} {node : Node}
    (base : RunQ s (fun st => QF st ∧ ∀ e ∈ st.edgeList, e.1 ≠ node ∧ e.2 ≠ node) (s2, .ok recs0))
    (hpn : ∀ p, pred = some p → p ≠ node) : RunQ s QF (addNodeFinish s2 recs0 pred succ node) := by
  unfold addNodeFinish
  cases pred with
  | none =>
    simp only []
    exact link_succ (RunQ_mono base (fun st h => ⟨h.1, fun e he => (h.2 e he).1⟩))
  | some p =>
    simp only []
    refine link_succ (RunQ_thenPrim base ?_)
    intro st st' r' hq hk
    have hf : (p, node) ∉ st.edgeList := fun hm => (hq.2 _ hm).2 rfl
    obtain ⟨l1, l2, l3⟩ := link_step hq.1 hf hk
    refine ⟨l1, l2, fun e he => ?_⟩
    rcases l3 e he with rfl | h'
    · exact hpn p rfl
    · exact (hq.2 e h').1

/-- AddNode and the linking edges -/
theorem tailCore_run {s s0 : St} {a1 : UOut} {pred succ : Option Node} {a : AddNodeArgs}
    {time tid : Nat} {lin : Option Nat} (hNI : NodeInv s) (hA : AddArgsPre s a) (ht : a.time = some time)
    (hn : a.node ∉ s0.ids) (hs0 : s0.ids = s.ids) (hs0t : ∀ n, s0.timeOf n = s.timeOf n)
    (hp : ∀ p, pred = some p → p ∈ s0.ids)
    (h : RunQ s (Q1 s s0) a1) :
    RunQ s QF (R2D.tailCore a1 pred succ
      { id := a.node, time := time, tid := tid, lin := lin, other := a.other } a.pixels) := by
  intro recs hr
  unfold R2D.tailCore at hr ⊢
  rcases h1 : a1.2 with e | recs1
  · rw [h1] at hr; cases hr
  · rw [h1] at hr
    simp only [] at hr ⊢
    obtain ⟨hc1, hq1⟩ := h recs1 h1
    rcases h2 : a1.1.pAddNode { id := a.node, time := time, tid := tid, lin := lin, other := a.other }
        a.pixels with e | ⟨s2, r⟩
    · rw [h2] at hr; cases hr
    · rw [h2] at hr
      simp only [] at hr ⊢
      have hpre := addPre_of (tid := tid) (lin := lin) hq1 hNI hA ht hn
      have hrel := (pAddNode_nodeRel hpre h2).2
      have hNI1 : NodeInv a1.1 :=
        hNI.of_fr' hq1.ctx.fr (hq1.ids.trans hs0) (fun n => (hq1.time n).trans (hs0t n))
      have hNI2 : NodeInv s2 :=
        nodeInv_up hrel (fun g hg => hA.ne0 g (hq1.ctx.fr.seg ▸ hg)) hNI1
      have hEI2 : EdgeInv s2 :=
        (edgeInv_nodeRel hrel hNI2.ne0 (fun e he => ⟨hq1.forest.src_mem _ he, hq1.forest.dst_mem _ he⟩)).2
          hq1.ctx.einv
      have hq2 : QF s2 := ⟨good_addNode hpre hq1.ctx.good.max h2, hEI2, hNI2⟩
      have hedges : ∀ e ∈ s2.edgeList, e.1 ≠ a.node ∧ e.2 ≠ a.node := by
        intro e he
        have : e ∈ a1.1.edgeList := (edgeList_congr hrel.edges e).1 he
        exact hrel.noedge e this
      have hpn : ∀ p, pred = some p → p ≠ a.node := fun p hp' hc => hn (hc ▸ hp p hp')
      have base : RunQ s (fun st => QF st ∧ ∀ e ∈ st.edgeList, e.1 ≠ a.node ∧ e.2 ≠ a.node)
          (s2, .ok (recs1 ++ [r])) := by
        intro recs' h'
        cases h'
        exact ⟨chain_snoc hc1 (law_addNode hpre hq1.ctx.good.max h2), hq2, hedges⟩
      exact finish_run base hpn recs hr

theorem a1_run {s s0 : St} {a0 : UOut} {pred succ : Option Node} (h : RunQ s (Q1 s s0) a0) :
    RunQ s (Q1 s s0) (match pred, succ with
      | some p, some sc => thenPrim a0 (fun st => st.pDelEdge (p, sc))
      | _, _ => a0) := by
  cases pred <;> cases succ <;> simp only [] <;>
    first
    | exact h
    | exact RunQ_thenPrim h (fun st st' r h hk => Q1_delEdge h hk)

/-- **accepted `uAddNode`** (all paths): the records form a lawful chain; the result is `Good` and
    satisfies the edge / node attribute invariants -/
theorem uAddNode_run {s : St} {a : AddNodeArgs} (hV : Valid s) (hG : Good s)
    (hEI : EdgeInv s) (hNI : NodeInv s) (hA : AddArgsPre s a) : RunQ s QF (s.uAddNode a) := by
  intro recs hok
  obtain ⟨time, tid0, r0, ht, hd, hnm, h0, hnt, hP, hN, hI⟩ := R2D.uAddNode_main hV hok
  have hnode' : s.hasNode a.node = false := by
    cases hh : s.hasNode a.node with
    | false => rfl
    | true => exact absurd ((hasNode_iff _ _).1 hh) hnm
  have key : RunQ s QF (s.uAddNode a) := by
    rw [R2D.uAddNode_eq' s a ht hd hnode', h0]
    simp only []
    rw [R2D.addNodeTail_eq]
    have hVN := R2D.valid_trackNeighbors hV (addTid s tid0 time) time
    have hCN := ctx_trackNeighbors (Ctx.refl hG hEI) (addTid s tid0 time) time
    have hpre : RunQ s (fun st => Ctx s st) (R2D.preOut s a tid0 time) :=
      RunQ_start (pre_run run_uDeleteEdge hVN hCN) (E_trackNeighbors s _ _)
    have hq1 : RunQ s (Q1 s (R2D.preOut s a tid0 time).1) (R2D.preOut s a tid0 time) :=
      fun recs hr => ⟨(hpre recs hr).1, (hpre recs hr).2, hP.valid.forest, hP.valid.book,
        hP.valid.linOn, rfl, fun _ => rfl⟩
    exact tailCore_run hNI hA ht (by rw [R2D.ids_of_nt hnt]; exact hnm) (R2D.ids_of_nt hnt)
      (R2C.timeOf_of_nt hnt) (fun p hp => (hP.p_mem p hp).1) (a1_run hq1)
  exact key recs hok

theorem uAddNode_chain {s : St} {a : AddNodeArgs} {recs : List PrimRec} (hV : Valid s)
    (hG : Good s) (hEI : EdgeInv s) (hNI : NodeInv s) (hA : AddArgsPre s a)
    (hok : (s.uAddNode a).2 = .ok recs) :
    Chain E s recs (s.uAddNode a).1 ∧ Good (s.uAddNode a).1 ∧ EdgeInv (s.uAddNode a).1 ∧
      NodeInv (s.uAddNode a).1 ∧ (a.lin = none → Valid (s.uAddNode a).1) := by
  obtain ⟨h1, h2⟩ := uAddNode_run hV hG hEI hNI hA recs hok
  exact ⟨h1, h2.good, h2.einv, h2.ninv, fun hl => R2D.uAddNode_valid hV hl hok⟩

theorem uDeleteNode_chain {s : St} {n : Node} {px : Option (List Pix)} {recs : List PrimRec}
    (hV : Valid s) (hG : Good s) (hEI : EdgeInv s) (hNI : NodeInv s)
    (hpx : px = none ∨ px = s.getPixels n) (hok : (s.uDeleteNode n px).2 = .ok recs) :
    Chain E s recs (s.uDeleteNode n px).1 ∧ Good (s.uDeleteNode n px).1 ∧
      EdgeInv (s.uDeleteNode n px).1 ∧ NodeInv (s.uDeleteNode n px).1 ∧ Valid (s.uDeleteNode n px).1 := by
  obtain ⟨h1, hpost, hgood, st, hC, hnt, hrel⟩ := uDeleteNode_run hV hG hEI hNI hpx recs hok
  have hNIst := hNI.of_fr hC.fr hnt
  have hF := hpost.valid.forest
  exact ⟨h1, hgood,
    (edgeInv_nodeRel hrel hNIst.ne0 (fun e he => ⟨hF.src_mem _ he, hF.dst_mem _ he⟩)).1 hC.einv,
    nodeInv_down hrel hNIst, hpost.valid⟩

/-! ## §8 C11: a refused AddNode after forced removals is rolled back -/

/-- the partial run of `uAddNode` up to (not including) AddNode: neighbour query, division checks
    with forced removals, DeleteEdge of the skip edge that the new node splits -/
def addNodeA1 (s : St) (a : AddNodeArgs) (tid0 time : Nat) : UOut :=
  match (s.trackNeighbors (addTid s tid0 time) time).2.1, (s.trackNeighbors (addTid s tid0 time) time).2.2 with
  | some p, some sc => thenPrim (R2D.preOut s a tid0 time) (fun st => st.pDelEdge (p, sc))
  | _, _ => R2D.preOut s a tid0 time

/-- the record AddNode is called with -/
def addNodeRec (s : St) (a : AddNodeArgs) (tid0 time : Nat) : NodeRec :=
  { id := a.node, time := time, tid := addTid s tid0 time,
    lin := R2D.linOfArgs a (R2D.preOut s a tid0 time).1 (s.trackNeighbors (addTid s tid0 time) time).2.1
      (s.trackNeighbors (addTid s tid0 time) time).2.2,
    other := a.other }

theorem addNodeA1_pre_ok {s : St} {a : AddNodeArgs} {tid0 time : Nat} {recs1 : List PrimRec}
    (h1 : (addNodeA1 s a tid0 time).2 = .ok recs1) : ∃ r0, (R2D.preOut s a tid0 time).2 = .ok r0 := by
  unfold addNodeA1 at h1
  split at h1
  · obtain ⟨r0, _, _, h, _⟩ := thenPrim_ok h1; exact ⟨r0, h⟩
  · exact ⟨recs1, h1⟩

/-- the run up to AddNode is lawful -/
theorem a1_chain {s : St} {a : AddNodeArgs} {tid0 time : Nat} (hV : Valid s) (hG : Good s)
    (hEI : EdgeInv s) {r0 : List PrimRec} (h0 : (R2D.preOut s a tid0 time).2 = .ok r0) :
    RunQ s (Q1 s (R2D.preOut s a tid0 time).1) (addNodeA1 s a tid0 time) := by
  have hVN := R2D.valid_trackNeighbors hV (addTid s tid0 time) time
  have hCN := ctx_trackNeighbors (Ctx.refl hG hEI) (addTid s tid0 time) time
  have hN := R2D.nbrFacts hV tid0 time
  obtain ⟨hP, _⟩ := R2D.pre_ok hVN hN h0
  have hpre : RunQ s (fun st => Ctx s st) (R2D.preOut s a tid0 time) :=
    RunQ_start (pre_run run_uDeleteEdge hVN hCN) (E_trackNeighbors s _ _)
  have hq1 : RunQ s (Q1 s (R2D.preOut s a tid0 time).1) (R2D.preOut s a tid0 time) :=
    fun recs hr => ⟨(hpre recs hr).1, (hpre recs hr).2, hP.valid.forest, hP.valid.book,
      hP.valid.linOn, rfl, fun _ => rfl⟩
  exact a1_run hq1

/-- when AddNode raises -/
theorem pAddNode_refuse {st : St} {r : NodeRec} {px : Option (List Pix)}
    (h : (px = none ∧ ∃ k ∈ st.posKeys, alook k r.other = none) ∨ (px.isSome = true ∧ st.seg = none)) :
    st.pAddNode r px = .error .value := by
  rcases h with ⟨h1, k, hk, hk'⟩ | ⟨h1, h2⟩
  · have hall : st.posKeys.all (fun k => (alook k r.other).isSome) = false := by
      rw [List.all_eq_false]; exact ⟨k, hk, by rw [hk']; simp⟩
    unfold pAddNode
    rw [h1, hall]
    rfl
  · unfold pAddNode
    cases px with
    | none => cases h1
    | some ps => rw [h2]; rfl

/-- **a refused AddNode inside `uAddNode`** (after the division checks with their forced removals and
    the DeleteEdge of the split edge were applied): `_rollback` inverts what was applied; the
    returned state is in the `E`-class of the start state -/
theorem uAddNode_refused {s : St} {a : AddNodeArgs} {time tid0 : Nat} {recs1 : List PrimRec} {e : Err}
    (hV : Valid s) (hG : Good s) (hEI : EdgeInv s) (ht : a.time = some time) (hd : a.tid = some tid0)
    (hn : a.node ∉ s.ids) (h1 : (addNodeA1 s a tid0 time).2 = .ok recs1)
    (hre : (addNodeA1 s a tid0 time).1.pAddNode (addNodeRec s a tid0 time) a.pixels = .error e) :
    s.uAddNode a = ((addNodeA1 s a tid0 time).1.rollback recs1, .error e) ∧
    E ((addNodeA1 s a tid0 time).1.rollback recs1) s ∧
    Q1 s (R2D.preOut s a tid0 time).1 (addNodeA1 s a tid0 time).1 := by
  have hnode' : s.hasNode a.node = false := by
    cases hh : s.hasNode a.node with
    | false => rfl
    | true => exact absurd ((hasNode_iff _ _).1 hh) hn
  obtain ⟨r0, h0⟩ := addNodeA1_pre_ok h1
  have hrun := a1_chain (a := a) hV hG hEI h0
  refine ⟨?_, Run.rollback (hrun.run h1) h1, (hrun recs1 h1).2⟩
  rw [R2D.uAddNode_eq' s a ht hd hnode', h0]
  simp only []
  rw [R2D.addNodeTail_eq]
  show R2D.tailCore (addNodeA1 s a tid0 time) _ _ (addNodeRec s a tid0 time) a.pixels = _
  unfold R2D.tailCore
  rw [h1]
  simp only []
  rw [hre]

theorem a1_q1 {s : St} {a : AddNodeArgs} {tid0 time : Nat} {recs1 : List PrimRec} (hV : Valid s)
    (hG : Good s) (hEI : EdgeInv s) (h1 : (addNodeA1 s a tid0 time).2 = .ok recs1) :
    Q1 s (R2D.preOut s a tid0 time).1 (addNodeA1 s a tid0 time).1 := by
  obtain ⟨r0, h0⟩ := addNodeA1_pre_ok h1
  exact (a1_chain (a := a) hV hG hEI h0 recs1 h1).2

/-- the refusal condition of AddNode, read at the start state -/
def Refused (s : St) (a : AddNodeArgs) : Prop :=
  (a.pixels = none ∧ ∃ k ∈ s.posKeys, alook k a.other = none) ∨ (a.pixels.isSome = true ∧ s.seg = none)

theorem refused_at_a1 {s : St} {a : AddNodeArgs} {tid0 time : Nat} {recs1 : List PrimRec} (hV : Valid s)
    (hG : Good s) (hEI : EdgeInv s) (h1 : (addNodeA1 s a tid0 time).2 = .ok recs1) (hre : Refused s a) :
    (addNodeA1 s a tid0 time).1.pAddNode (addNodeRec s a tid0 time) a.pixels = .error .value := by
  have hfr := (a1_q1 hV hG hEI h1).ctx.fr
  obtain ⟨-, -, -, -, -, -, -, q8⟩ := reg_fields hfr.reg
  apply pAddNode_refuse
  rcases hre with ⟨a1, k, hk, hk'⟩ | ⟨a1, a2⟩
  · exact Or.inl ⟨a1, k, q8 ▸ hk, hk'⟩
  · exact Or.inr ⟨a1, hfr.seg.trans a2⟩

/-! ## §9 record-level / checkable forms, explicit reading -/

theorem NodeInv.of_records {s : St}
    (h1 : ∀ r ∈ s.nodes, ∀ kv ∈ r.other, kv.2 ≠ Val.none → kv.1 ∈ s.regNode)
    (h2 : ∀ k ∈ s.rpActive, k ∈ s.regNode)
    (h3 : s.seg = none → ∀ r ∈ s.nodes, ∀ k ∈ s.posKeys, obsAttrs r.other k ≠ Val.none)
    (h4 : RpOK s) (h5 : s.seg.isSome = true → ∀ r ∈ s.nodes, r.id ≠ 0) : NodeInv s := by
  refine ⟨fun n k hk => ?_, h2, fun hs n hn k hk => ?_, fun g hg n t ht k hk => ?_, fun g hg h0 => ?_⟩
  · unfold otherOf at hk
    cases hf : s.findNode n with
    | none => rw [hf] at hk; exact absurd rfl hk
    | some r =>
      rw [hf] at hk
      have hk' : (alook k r.other).getD Val.none ≠ Val.none := hk
      cases ha : alook k r.other with
      | none => rw [ha] at hk'; exact absurd rfl hk'
      | some v =>
        rw [ha] at hk'
        exact h1 r (PC.findNode_some_mem hf).1 (k, v) (R2A1.alook_mem ha) hk'
  · obtain ⟨r, hr⟩ := tk_mem_ids_iff.1 hn
    have : s.otherOf n k = obsAttrs r.other k := by unfold otherOf obsAttrs; rw [hr]
    rw [this]
    exact h3 hs r (PC.findNode_some_mem hr).1 k hk
  · unfold timeOf at ht
    cases hf : s.findNode n with
    | none => rw [hf] at ht; cases ht
    | some r =>
      rw [hf] at ht
      have ht' : r.time = t := by simpa using ht
      obtain ⟨hr, hid⟩ := PC.findNode_some_mem hf
      have := h4 g hg k hk r hr
      unfold otherOf
      rw [hf]
      show (alook k r.other).getD Val.none = _
      rw [this, ht', hid]; rfl
  · obtain ⟨r, hr, hid⟩ := List.mem_map.1 h0
    exact h5 (by rw [hg]; rfl) r hr hid

/-- explicit reading of a lawful run: `ActionGroup.inverse()` from any state in the class of the
    result restores the start state up to `ObsEq`; inverting the inverse reproduces the result -/
theorem chain_reading {s s' : St} {recs : List PrimRec} (h : Chain E s recs s') (t : St) (ht : E t s') :
    ∃ s₂ recs', t.invGroup recs = (s₂, .ok recs') ∧ ObsEq s₂ s ∧ recs'.length = recs.length ∧
      ∃ s₃ recs'', s₂.invGroup recs' = (s₃, .ok recs'') ∧ ObsEq s₃ s' := by
  obtain ⟨s₂, recs', a1, a2, a3, _, s₃, recs'', b1, b2, _⟩ := chain_undo_redo h ht
  exact ⟨s₂, recs', a1, a2.1, a3, s₃, recs'', b1, b2.1⟩

/-- `AddArgsPre` without an array -/
theorem AddArgsPre.of_noSeg {s : St} {a : AddNodeArgs} (hs : s.seg = none)
    (hk : (a.other.map (·.1)).Nodup) (hr : ∀ kv ∈ a.other, kv.2 ≠ Val.none → kv.1 ∈ s.regNode)
    (hp : ∀ k ∈ s.posKeys, obsAttrs a.other k ≠ Val.none) : AddArgsPre s a :=
  ⟨hk, hr, fun _ => hp, fun g hg => (by rw [hs] at hg; cases hg),
    fun g t hg => (by rw [hs] at hg; cases hg), fun g ps t hg => (by rw [hs] at hg; cases hg)⟩

/-- `RunQ` forms for composition inside other composites (paint): -/
theorem uDeleteNode_runQF {s : St} (hV : s.Valid) (hG : Good s) (hEI : EdgeInv s) (hNI : NodeInv s)
    {n : Node} {px : Option (List Pix)} (hpx : px = none ∨ px = s.getPixels n) :
    RunQ s (fun F => Valid F ∧ QF F) (s.uDeleteNode n px) := fun _ hok =>
  have h := uDeleteNode_chain hV hG hEI hNI hpx hok
  ⟨h.1, h.2.2.2.2, h.2.1, h.2.2.1, h.2.2.2.1⟩

theorem uAddNode_runQF {s : St} {a : AddNodeArgs} (hV : s.Valid) (hG : Good s) (hEI : EdgeInv s)
    (hNI : NodeInv s) (hA : AddArgsPre s a) (hl : a.lin = none) :
    RunQ s (fun F => Valid F ∧ QF F) (s.uAddNode a) := fun _ hok =>
  have h := uAddNode_chain hV hG hEI hNI hA hok
  ⟨h.1, h.2.2.2.2 hl, h.2.1, h.2.2.1, h.2.2.2.1⟩

/-- with an array: `NodeInv` from R3A's joint invariant and the registration of the node attributes -/
theorem NodeInv.of_joint {s : St} {f : Nat} (hJ : R3A.Joint s f)
    (h1 : ∀ r ∈ s.nodes, ∀ kv ∈ r.other, kv.2 ≠ Val.none → kv.1 ∈ s.regNode)
    (h2 : ∀ k ∈ s.rpActive, k ∈ s.regNode) : NodeInv s :=
  NodeInv.of_records h1 h2
    (fun hs => by obtain ⟨g, hg, _⟩ := hJ.seg; rw [hg] at hs; cases hs) hJ.rp (fun _ => hJ.ne0)

end Ft.R3C
