/-
  FtProofs.R8VLemmas — package R8V: specification lemmas for the model of geff's id validators
  (`FtModel/IdValidate.lean`) and the proof that the ids of every state with the forest / `TidOK` /
  `LinOK` components of the invariant pass them.

  §1 `dedup`, `keys`, `group`
  §2 the graph views `predsG` / `succsG` / `indegIn` / `outdegIn`
  §3 `reach`: exactly the nodes joined to the start set by a directed path (`mem_reach_iff`)
  §4 `acyclic` (Kahn): `acyclic_of_rank`, `acyclic_no_cycle`, `start_exists`, `end_exists`;
     `start_unique` / `end_unique`; declarative readings `acyclic_iff_rank`, `degOk_iff`,
     `connectedIn_iff`, `extBack_iff`, `extFwd_iff`, `trackletOk_iff`, `trackletOk_spec`
  §5 session states (`Ft.St` with `Forest`, `TidOK` / `LinOK`): `trackletOk_of_forest`,
     `validateTracklets_of_forest`, `lineageOk_of_forest`, `validateLineages_of_forest`
-/
import FtModel.IdValidate
import FtProofs.TrackLemmas
import FtProofs.SegLemmas

namespace Ft.R8V
open Ft Ft.IdValidate

/-! ## §1 `dedup`, `keys`, `group` -/

theorem mem_dedup {a : Nat} : ∀ {l : List Nat}, a ∈ dedup l ↔ a ∈ l
  | [] => by simp [dedup]
  | x :: xs => by
    have ih := @mem_dedup a xs
    simp only [dedup, List.mem_cons, List.mem_filter, ih]
    constructor
    · rintro (h | ⟨h, _⟩)
      · exact Or.inl h
      · exact Or.inr h
    · rintro (h | h)
      · exact Or.inl h
      · by_cases hx : a = x
        · exact Or.inl hx
        · exact Or.inr ⟨h, by simpa using hx⟩

theorem nodup_dedup : ∀ (l : List Nat), (dedup l).Nodup
  | [] => by simp [dedup]
  | x :: xs => by
    simp only [dedup, List.nodup_cons, List.mem_filter]
    refine ⟨?_, List.Pairwise.filter _ (nodup_dedup xs)⟩
    rintro ⟨_, h⟩
    simp at h

theorem dedup_ne_nil {l : List Nat} (h : l ≠ []) : dedup l ≠ [] := by
  cases l with
  | nil => exact absurd rfl h
  | cons x xs => simp [dedup]

/-- a duplicate-free list whose members are all equal has at most one element -/
theorem length_le_one_of_all_eq {l : List Nat} (hn : l.Nodup) (h : ∀ a ∈ l, ∀ b ∈ l, a = b) :
    l.length ≤ 1 := by
  match l, hn, h with
  | [], _, _ => simp
  | [_], _, _ => simp
  | a :: b :: r, hn, h =>
    have hab : a = b := h a (by simp) b (by simp)
    rw [List.nodup_cons] at hn
    exact absurd (by simp [hab]) hn.1

theorem mem_keys {nodes ids : List Nat} {t : Nat} :
    t ∈ keys nodes ids ↔ ∃ n, (n, t) ∈ nodes.zip ids := by
  unfold keys
  rw [mem_dedup, List.mem_map]
  constructor
  · rintro ⟨⟨n, t'⟩, h, rfl⟩; exact ⟨n, h⟩
  · rintro ⟨n, h⟩; exact ⟨(n, t), h, rfl⟩

theorem mem_group {nodes ids : List Nat} {t n : Nat} :
    n ∈ group nodes ids t ↔ (n, t) ∈ nodes.zip ids := by
  unfold group
  rw [List.mem_map]
  constructor
  · rintro ⟨⟨n', t'⟩, h, rfl⟩
    rw [List.mem_filter] at h
    have : t' = t := by simpa using h.2
    rw [← this]; exact h.1
  · intro h
    exact ⟨(n, t), List.mem_filter.mpr ⟨h, by simp⟩, rfl⟩

/-- the group of a key is not empty -/
theorem group_ne_nil {nodes ids : List Nat} {t : Nat} (h : t ∈ keys nodes ids) :
    group nodes ids t ≠ [] := by
  obtain ⟨n, hn⟩ := mem_keys.mp h
  intro he
  have := mem_group.mpr hn
  rw [he] at this
  cases this

/-! ## §2 graph views -/

theorem mem_predsG {es : List Edge} {p n : Nat} : p ∈ predsG es n ↔ (p, n) ∈ es := by
  unfold predsG
  rw [mem_dedup, List.mem_map]
  constructor
  · rintro ⟨⟨a, b⟩, h, rfl⟩
    rw [List.mem_filter] at h
    have : b = n := by simpa using h.2
    rw [← this]; exact h.1
  · intro h
    exact ⟨(p, n), List.mem_filter.mpr ⟨h, by simp⟩, rfl⟩

theorem mem_succsG {es : List Edge} {u c : Nat} : c ∈ succsG es u ↔ (u, c) ∈ es := by
  unfold succsG
  rw [mem_dedup, List.mem_map]
  constructor
  · rintro ⟨⟨a, b⟩, h, rfl⟩
    rw [List.mem_filter] at h
    have : a = u := by simpa using h.2
    rw [← this]; exact h.1
  · intro h
    exact ⟨(u, c), List.mem_filter.mpr ⟨h, by simp⟩, rfl⟩

theorem nodup_predsG (es : List Edge) (n : Nat) : (predsG es n).Nodup := nodup_dedup _
theorem nodup_succsG (es : List Edge) (n : Nat) : (succsG es n).Nodup := nodup_dedup _

theorem indegIn_eq_zero {es : List Edge} {S : List Nat} {n : Nat} :
    indegIn es S n = 0 ↔ ∀ p, p ∈ S → (p, n) ∉ es := by
  unfold indegIn
  rw [List.length_eq_zero_iff, List.filter_eq_nil_iff]
  constructor
  · intro h p hp he
    exact h p (mem_predsG.mpr he) (List.contains_iff_mem.mpr hp)
  · intro h p hp hc
    exact h p (List.contains_iff_mem.mp hc) (mem_predsG.mp hp)

theorem outdegIn_eq_zero {es : List Edge} {S : List Nat} {n : Nat} :
    outdegIn es S n = 0 ↔ ∀ c, c ∈ S → (n, c) ∉ es := by
  unfold outdegIn
  rw [List.length_eq_zero_iff, List.filter_eq_nil_iff]
  constructor
  · intro h c hc he
    exact h c (mem_succsG.mpr he) (List.contains_iff_mem.mpr hc)
  · intro h c hc hcc
    exact h c (List.contains_iff_mem.mp hcc) (mem_succsG.mp hc)

theorem indegIn_le_one {es : List Edge} {S : List Nat} {n : Nat}
    (h : ∀ p q, p ∈ S → q ∈ S → (p, n) ∈ es → (q, n) ∈ es → p = q) : indegIn es S n ≤ 1 := by
  unfold indegIn
  apply length_le_one_of_all_eq (List.Pairwise.filter _ (nodup_predsG es n))
  intro a ha b hb
  rw [List.mem_filter] at ha hb
  exact h a b (List.contains_iff_mem.mp ha.2) (List.contains_iff_mem.mp hb.2)
    (mem_predsG.mp ha.1) (mem_predsG.mp hb.1)

theorem outdegIn_le_one {es : List Edge} {S : List Nat} {n : Nat}
    (h : ∀ c d, c ∈ S → d ∈ S → (n, c) ∈ es → (n, d) ∈ es → c = d) : outdegIn es S n ≤ 1 := by
  unfold outdegIn
  apply length_le_one_of_all_eq (List.Pairwise.filter _ (nodup_succsG es n))
  intro a ha b hb
  rw [List.mem_filter] at ha hb
  exact h a b (List.contains_iff_mem.mp ha.2) (List.contains_iff_mem.mp hb.2)
    (mem_succsG.mp ha.1) (mem_succsG.mp hb.1)

theorem mem_subEdges {es : List Edge} {S : List Nat} {e : Edge} :
    e ∈ subEdges es S ↔ e ∈ es ∧ e.1 ∈ S ∧ e.2 ∈ S := by
  unfold subEdges
  rw [List.mem_filter, Bool.and_eq_true, List.contains_iff_mem, List.contains_iff_mem]

theorem mem_sym {es : List Edge} {a b : Nat} : (a, b) ∈ sym es ↔ (a, b) ∈ es ∨ (b, a) ∈ es := by
  unfold sym
  rw [List.mem_append, List.mem_map]
  constructor
  · rintro (h | ⟨⟨x, y⟩, h, he⟩)
    · exact Or.inl h
    · simp only [Prod.mk.injEq] at he
      obtain ⟨rfl, rfl⟩ := he
      exact Or.inr h
  · rintro (h | h)
    · exact Or.inl h
    · exact Or.inr ⟨(b, a), h, rfl⟩

/-- two edge lists with the same members (Boolean test, for concrete lists) -/
theorem sameEdges_iff {a b : List Edge} (h : (a.all (b.contains ·) && b.all (a.contains ·)) = true) :
    ∀ e, e ∈ a ↔ e ∈ b := by
  rw [Bool.and_eq_true, List.all_eq_true, List.all_eq_true] at h
  intro e
  exact ⟨fun he => List.contains_iff_mem.mp (h.1 e he), fun he => List.contains_iff_mem.mp (h.2 e he)⟩

/-! ## §3 reachability -/

/-- a directed path along edges of `es` -/
inductive Path (es : List Edge) : Nat → Nat → Prop where
  | refl (a : Nat) : Path es a a
  | step (a p b : Nat) : Path es a p → (p, b) ∈ es → Path es a b

theorem Path.trans {es : List Edge} {a b c : Nat} (h1 : Path es a b) (h2 : Path es b c) : Path es a c := by
  induction h2 with
  | refl => exact h1
  | step p b _ he ih => exact Path.step _ p b ih he

theorem Path.mono {es es' : List Edge} (h : ∀ e, e ∈ es → e ∈ es') {a b : Nat} (hp : Path es a b) :
    Path es' a b := by
  induction hp with
  | refl => exact Path.refl _
  | step p b _ he ih => exact Path.step _ p b ih (h _ he)

/-- a path in the symmetrised graph can be walked backwards -/
theorem Path.symm_sym {es : List Edge} {a b : Nat} (h : Path (sym es) a b) : Path (sym es) b a := by
  induction h with
  | refl => exact Path.refl _
  | step p b _ he ih =>
    have he' : (b, p) ∈ sym es := by
      rw [mem_sym] at he ⊢
      exact he.symm
    exact Path.trans (Path.step b b p (Path.refl b) he') ih

theorem mem_grow {es : List Edge} {X : List Nat} {x : Nat} :
    x ∈ grow es X ↔ x ∈ X ∨ ∃ p, p ∈ X ∧ (p, x) ∈ es := by
  unfold grow
  rw [List.mem_append, List.mem_map]
  constructor
  · rintro (h | ⟨⟨p, y⟩, h, rfl⟩)
    · exact Or.inl h
    · rw [List.mem_filter, Bool.and_eq_true, List.contains_iff_mem] at h
      exact Or.inr ⟨p, h.2.1, h.1⟩
  · rintro (h | ⟨p, hp, he⟩)
    · exact Or.inl h
    · by_cases hx : x ∈ X
      · exact Or.inl hx
      · refine Or.inr ⟨(p, x), List.mem_filter.mpr ⟨he, ?_⟩, rfl⟩
        rw [Bool.and_eq_true, List.contains_iff_mem]
        refine ⟨hp, ?_⟩
        simp [hx]

theorem sub_growN {es : List Edge} : ∀ (k : Nat) {X : List Nat} {x : Nat}, x ∈ X → x ∈ growN es k X
  | 0, _, _, h => h
  | k + 1, _, _, h => sub_growN k (mem_grow.mpr (Or.inl h))

theorem growN_sound {es : List Edge} : ∀ (k : Nat) {X : List Nat} {x : Nat}, x ∈ growN es k X →
    ∃ a, a ∈ X ∧ Path es a x
  | 0, _, x, h => ⟨x, h, Path.refl x⟩
  | k + 1, X, x, h => by
    obtain ⟨a, ha, hp⟩ := growN_sound k (X := grow es X) h
    rcases mem_grow.mp ha with ha' | ⟨p, hp', he⟩
    · exact ⟨a, ha', hp⟩
    · exact ⟨p, hp', Path.trans (Path.step p p a (Path.refl p) he) hp⟩

/-- closed under the edges -/
def Closed (es : List Edge) (X : List Nat) : Prop := ∀ e, e ∈ es → e.1 ∈ X → e.2 ∈ X

/-- edge targets not yet in `X` -/
def missing (es : List Edge) (X : List Nat) : Nat :=
  ((es.map (·.2)).filter (fun v => !X.contains v)).length

theorem grow_eq_of_closed {es : List Edge} {X : List Nat} (h : Closed es X) : grow es X = X := by
  unfold grow
  have : es.filter (fun e => X.contains e.1 && !X.contains e.2) = [] := by
    rw [List.filter_eq_nil_iff]
    intro e he hc
    rw [Bool.and_eq_true, List.contains_iff_mem] at hc
    have := h e he hc.1
    have h2 := hc.2
    simp [this] at h2
  rw [this]; simp

theorem growN_eq_of_closed {es : List Edge} : ∀ (k : Nat) {X : List Nat}, Closed es X → growN es k X = X
  | 0, _, _ => rfl
  | k + 1, X, h => by
    show growN es k (grow es X) = X
    rw [grow_eq_of_closed h]
    exact growN_eq_of_closed k h

theorem filter_length_lt {α} (p q : α → Bool) (hqp : ∀ x, q x = true → p x = true)
    (a : α) (hpa : p a = true) (hqa : q a = false) :
    ∀ (l : List α), a ∈ l → (l.filter q).length < (l.filter p).length := by
  intro l ha
  have := St.tk_filter_length_lt p q hqp a hpa hqa l ha
  omega

theorem missing_lt {es : List Edge} {X : List Nat} (h : ¬ Closed es X) :
    missing es (grow es X) < missing es X := by
  have : ∃ e, e ∈ es ∧ e.1 ∈ X ∧ e.2 ∉ X := by
    apply Classical.byContradiction
    intro hc
    apply h
    intro e he h1
    apply Classical.byContradiction
    intro h2
    exact hc ⟨e, he, h1, h2⟩
  obtain ⟨e, he, h1, h2⟩ := this
  unfold missing
  apply filter_length_lt _ _ _ e.2
  · simpa using h2
  · have : e.2 ∈ grow es X := mem_grow.mpr (Or.inr ⟨e.1, h1, he⟩)
    simpa using this
  · exact List.mem_map.mpr ⟨e, he, rfl⟩
  · intro x hx
    have hx' : x ∉ grow es X := by simpa using hx
    have : x ∉ X := fun h => hx' (mem_grow.mpr (Or.inl h))
    simpa using this

theorem growN_closed {es : List Edge} : ∀ (k : Nat) {X : List Nat}, missing es X ≤ k →
    Closed es (growN es k X)
  | 0, X, h => by
    intro e he _
    show e.2 ∈ X
    apply Classical.byContradiction
    intro h2
    have hm : e.2 ∈ (es.map (·.2)).filter (fun v => !X.contains v) := by
      rw [List.mem_filter]
      exact ⟨List.mem_map.mpr ⟨e, he, rfl⟩, by simpa using h2⟩
    have := List.length_pos_of_mem hm
    unfold missing at h
    omega
  | k + 1, X, h => by
    by_cases hc : Closed es X
    · rw [growN_eq_of_closed _ hc]; exact hc
    · have := missing_lt hc
      exact growN_closed k (X := grow es X) (by omega)

theorem missing_le (es : List Edge) (X : List Nat) : missing es X ≤ es.length := by
  unfold missing
  have := List.length_filter_le (fun v => !X.contains v) (es.map (·.2))
  simpa using this

/-- **`reach` is the set of nodes joined to the start set by a directed path** -/
theorem mem_reach_iff {es : List Edge} {X : List Nat} {x : Nat} :
    x ∈ reach es X ↔ ∃ a, a ∈ X ∧ Path es a x := by
  unfold reach
  constructor
  · exact growN_sound _
  · rintro ⟨a, ha, hp⟩
    have hcl := growN_closed (es := es) es.length (X := X) (missing_le es X)
    induction hp with
    | refl => exact sub_growN _ ha
    | step p b _ he ih => exact hcl (p, b) he ih

/-! ## §4 acyclicity -/

theorem peel_sub {es : List Edge} {rem : List Nat} {n : Nat} (h : n ∈ peel es rem) : n ∈ rem :=
  (List.mem_filter.mp h).1

theorem mem_peel {es : List Edge} {rem : List Nat} {n : Nat} :
    n ∈ peel es rem ↔ n ∈ rem ∧ ∃ p, p ∈ rem ∧ (p, n) ∈ es := by
  unfold peel
  rw [List.mem_filter, List.any_eq_true]
  constructor
  · rintro ⟨h, ⟨p, m⟩, he, hc⟩
    rw [Bool.and_eq_true, List.contains_iff_mem] at hc
    have : m = n := by simpa using hc.1
    subst this
    exact ⟨h, p, hc.2, he⟩
  · rintro ⟨h, p, hp, he⟩
    refine ⟨h, (p, n), he, ?_⟩
    rw [Bool.and_eq_true, List.contains_iff_mem]
    exact ⟨by simp, hp⟩

theorem peelN_sub {es : List Edge} : ∀ (k : Nat) {rem : List Nat} {n : Nat}, n ∈ peelN es k rem → n ∈ rem
  | 0, _, _, h => h
  | k + 1, _, _, h => peel_sub (peelN_sub k h)

theorem exists_min (rk : Nat → Nat) : ∀ (l : List Nat), l ≠ [] → ∃ m, m ∈ l ∧ ∀ x, x ∈ l → rk m ≤ rk x
  | [], h => absurd rfl h
  | [a], _ => ⟨a, by simp, by intro x hx; simp at hx; rw [hx]; exact Nat.le_refl _⟩
  | a :: b :: r, _ => by
    obtain ⟨m, hm, hmin⟩ := exists_min rk (b :: r) (by simp)
    by_cases h : rk a ≤ rk m
    · refine ⟨a, by simp, ?_⟩
      intro x hx
      rcases List.mem_cons.mp hx with rfl | hx
      · exact Nat.le_refl _
      · exact Nat.le_trans h (hmin x hx)
    · refine ⟨m, List.mem_cons_of_mem _ hm, ?_⟩
      intro x hx
      rcases List.mem_cons.mp hx with rfl | hx
      · omega
      · exact hmin x hx

theorem peelN_nil_of_rank {es : List Edge} (rk : Nat → Nat) : ∀ (k : Nat) (rem : List Nat),
    (∀ e, e ∈ es → e.1 ∈ rem → e.2 ∈ rem → rk e.1 < rk e.2) → rem.length ≤ k → peelN es k rem = []
  | 0, rem, _, hl => by
    have : rem = [] := List.length_eq_zero_iff.mp (by omega)
    subst this; rfl
  | k + 1, rem, h, hl => by
    show peelN es k (peel es rem) = []
    apply peelN_nil_of_rank rk k
    · intro e he h1 h2
      exact h e he (peel_sub h1) (peel_sub h2)
    · by_cases hr : rem = []
      · subst hr; simp [peel]
      · obtain ⟨m, hm, hmin⟩ := exists_min rk rem hr
        have hlt : (peel es rem).length < rem.length := by
          unfold peel
          rw [List.length_filter_lt_length_iff_exists]
          refine ⟨m, hm, ?_⟩
          intro hc
          have hmp : m ∈ peel es rem := List.mem_filter.mpr ⟨hm, hc⟩
          obtain ⟨_, p, hp, he⟩ := mem_peel.mp hmp
          have h1 : rk p < rk m := h (p, m) he hp hm
          have := hmin p hp
          omega
        omega

/-- **a rank that increases along every edge inside `S` makes the check answer "acyclic"** -/
theorem acyclic_of_rank {es : List Edge} {S : List Nat} (rk : Nat → Nat)
    (h : ∀ e, e ∈ es → e.1 ∈ S → e.2 ∈ S → rk e.1 < rk e.2) : acyclic es S = true := by
  unfold acyclic
  rw [peelN_nil_of_rank rk S.length S h (Nat.le_refl _)]
  rfl

/-- **a non-empty set of nodes of `S` each of which has a predecessor in the set (a directed cycle is
    one) makes the check answer "cyclic"** -/
theorem acyclic_no_cycle {es : List Edge} {S C : List Nat} (hne : C ≠ [])
    (hC : ∀ n, n ∈ C → n ∈ S ∧ ∃ p, p ∈ C ∧ (p, n) ∈ es) : acyclic es S = false := by
  have key : ∀ (k : Nat) (rem : List Nat), (∀ n, n ∈ C → n ∈ rem) → ∀ n, n ∈ C → n ∈ peelN es k rem := by
    intro k
    induction k with
    | zero => intro rem h; exact h
    | succ k ih =>
      intro rem h
      apply ih
      intro n hn
      obtain ⟨_, p, hp, he⟩ := hC n hn
      exact mem_peel.mpr ⟨h n hn, p, h p hp, he⟩
  unfold acyclic
  cases hC' : C with
  | nil => exact absurd hC' hne
  | cons c _ =>
    have hc : c ∈ C := by rw [hC']; simp
    have := key S.length S (fun n hn => (hC n hn).1) c hc
    cases hp : peelN es S.length S with
    | nil => rw [hp] at this; cases this
    | cons _ _ => rfl

/-- `next(n for n, d in S.in_degree if d == 0)` does not raise -/
theorem start_exists {es : List Edge} {S : List Nat} (hne : S ≠ []) (ha : acyclic es S = true) :
    ∃ a, S.find? (fun n => indegIn es S n == 0) = some a := by
  cases hf : S.find? (fun n => indegIn es S n == 0) with
  | some a => exact ⟨a, rfl⟩
  | none =>
    exfalso
    rw [List.find?_eq_none] at hf
    have hC : ∀ n, n ∈ S → n ∈ S ∧ ∃ p, p ∈ S ∧ (p, n) ∈ es := by
      intro n hn
      refine ⟨hn, ?_⟩
      apply Classical.byContradiction
      intro hc
      apply hf n hn
      have : indegIn es S n = 0 := indegIn_eq_zero.mpr (fun p hp he => hc ⟨p, hp, he⟩)
      simp [this]
    rw [acyclic_no_cycle hne hC] at ha
    cases ha

/-- the remaining set of Kahn's algorithm is closed under successors inside the start set -/
theorem peelN_succ_closed {es : List Edge} {S : List Nat} : ∀ (k : Nat) {n c : Nat},
    n ∈ peelN es k S → c ∈ S → (n, c) ∈ es → c ∈ peelN es k S := by
  have gen : ∀ (k : Nat) (rem : List Nat), (∀ n c, n ∈ rem → c ∈ S → (n, c) ∈ es → c ∈ rem) →
      ∀ n c, n ∈ peelN es k rem → c ∈ S → (n, c) ∈ es → c ∈ peelN es k rem := by
    intro k
    induction k with
    | zero => intro rem h; exact h
    | succ k ih =>
      intro rem h
      apply ih
      intro n c hn hc he
      exact mem_peel.mpr ⟨h n c (peel_sub hn) hc he, n, peel_sub hn, he⟩
  intro k n c hn hc he
  exact gen k S (fun _ c _ hc _ => hc) n c hn hc he

/-- `next(n for n, d in S.out_degree if d == 0)` does not raise -/
theorem end_exists {es : List Edge} {S : List Nat} (hne : S ≠ []) (ha : acyclic es S = true) :
    ∃ b, S.find? (fun n => outdegIn es S n == 0) = some b := by
  cases hf : S.find? (fun n => outdegIn es S n == 0) with
  | some b => exact ⟨b, rfl⟩
  | none =>
    exfalso
    rw [List.find?_eq_none] at hf
    have hsucc : ∀ n, n ∈ S → ∃ c, c ∈ S ∧ (n, c) ∈ es := by
      intro n hn
      apply Classical.byContradiction
      intro hc
      apply hf n hn
      have : outdegIn es S n = 0 := outdegIn_eq_zero.mpr (fun c hcS he => hc ⟨c, hcS, he⟩)
      simp [this]
    have key : ∀ k, peelN es k S ≠ [] := by
      intro k
      induction k with
      | zero => exact hne
      | succ k ih =>
        obtain ⟨n, hn⟩ := List.exists_mem_of_ne_nil _ ih
        obtain ⟨c, hcS, he⟩ := hsucc n (peelN_sub k hn)
        have hc : c ∈ peelN es k S := peelN_succ_closed k hn hcS he
        have : c ∈ peelN es (k + 1) S := by
          have hstep : ∀ (j : Nat) (rem : List Nat), peelN es (j + 1) rem = peel es (peelN es j rem) := by
            intro j
            induction j with
            | zero => intro rem; rfl
            | succ j ihj => intro rem; exact ihj (peel es rem)
          rw [hstep]
          exact mem_peel.mpr ⟨hc, n, hn, he⟩
        intro h0
        rw [h0] at this
        cases this
    unfold acyclic at ha
    rw [List.isEmpty_iff] at ha
    exact key _ ha

/-! ### the start / end node is unique (the iteration order of the subgraph view is immaterial) -/

theorem Path.tail {es : List Edge} {a b : Nat} (h : Path es a b) :
    a = b ∨ ∃ p, Path es a p ∧ (p, b) ∈ es := by
  cases h with
  | refl => exact Or.inl rfl
  | step p _ hp he => exact Or.inr ⟨p, hp, he⟩

theorem Path.head {es : List Edge} {a b : Nat} (h : Path es a b) :
    a = b ∨ ∃ c, (a, c) ∈ es ∧ Path es c b := by
  induction h with
  | refl => exact Or.inl rfl
  | step p b _ he ih =>
    rcases ih with rfl | ⟨c, h1, h2⟩
    · exact Or.inr ⟨b, he, Path.refl b⟩
    · exact Or.inr ⟨c, h1, Path.step _ p b h2 he⟩

theorem preds_eq_of_indegIn_le {es : List Edge} {S : List Nat} {n p q : Nat} (h : indegIn es S n ≤ 1)
    (hp : p ∈ S) (hq : q ∈ S) (h1 : (p, n) ∈ es) (h2 : (q, n) ∈ es) : p = q := by
  unfold indegIn at h
  apply St.tk_eq_of_length_le_one h
  · exact List.mem_filter.mpr ⟨mem_predsG.mpr h1, List.contains_iff_mem.mpr hp⟩
  · exact List.mem_filter.mpr ⟨mem_predsG.mpr h2, List.contains_iff_mem.mpr hq⟩

theorem succs_eq_of_outdegIn_le {es : List Edge} {S : List Nat} {n c d : Nat} (h : outdegIn es S n ≤ 1)
    (hc : c ∈ S) (hd : d ∈ S) (h1 : (n, c) ∈ es) (h2 : (n, d) ∈ es) : c = d := by
  unfold outdegIn at h
  apply St.tk_eq_of_length_le_one h
  · exact List.mem_filter.mpr ⟨mem_succsG.mpr h1, List.contains_iff_mem.mpr hc⟩
  · exact List.mem_filter.mpr ⟨mem_succsG.mpr h2, List.contains_iff_mem.mpr hd⟩

theorem connectedIn_root {es : List Edge} {S : List Nat} (hcon : connectedIn es S = true) :
    ∃ n0, ∀ m, m ∈ S → Path (sym (subEdges es S)) n0 m := by
  unfold connectedIn at hcon
  match hS : S, hcon with
  | [], hcon => cases hcon
  | n0 :: rest, hcon =>
    refine ⟨n0, fun m hm => ?_⟩
    simp only at hcon
    rw [List.all_eq_true] at hcon
    have h1 := hcon m hm
    rw [List.contains_iff_mem, mem_reach_iff] at h1
    obtain ⟨x, hx, p1⟩ := h1
    simp at hx
    subst hx
    exact p1

theorem connectedIn_path {es : List Edge} {S : List Nat} (hcon : connectedIn es S = true) {a b : Nat}
    (ha : a ∈ S) (hb : b ∈ S) : Path (sym (subEdges es S)) a b := by
  obtain ⟨n0, h⟩ := connectedIn_root hcon
  exact Path.trans (h a ha).symm_sym (h b hb)

/-- after the degree and connectivity checks there is exactly one node without predecessor in `S` -/
theorem start_unique {es : List Edge} {S : List Nat} (hdeg : degOk es S = true)
    (hcon : connectedIn es S = true) {a b : Nat} (ha : a ∈ S) (hb : b ∈ S)
    (ha0 : indegIn es S a = 0) (hb0 : indegIn es S b = 0) : a = b := by
  unfold degOk at hdeg
  rw [Bool.and_eq_true, List.all_eq_true, List.all_eq_true] at hdeg
  have hin : ∀ n, n ∈ S → indegIn es S n ≤ 1 := fun n hn => by simpa using hdeg.1 n hn
  -- everything weakly connected to `a` inside `S` is a descendant of `a`
  have key : ∀ x, Path (sym (subEdges es S)) a x → Path (subEdges es S) a x := by
    intro x hx
    induction hx with
    | refl => exact Path.refl _
    | step p y _ he ih =>
      rcases mem_sym.mp he with h1 | h1
      · exact Path.step _ p y ih h1
      · -- (y, p) is an edge of S and p is a descendant of a
        obtain ⟨hyp, hyS, hpS⟩ := mem_subEdges.mp h1
        rcases ih.tail with rfl | ⟨q, hq, hqp⟩
        · exact absurd hyp (indegIn_eq_zero.mp ha0 y hyS)
        · obtain ⟨hqp', hqS, _⟩ := mem_subEdges.mp hqp
          have : y = q := preds_eq_of_indegIn_le (hin p hpS) hyS hqS hyp hqp'
          rw [this]; exact hq
  rcases (key b (connectedIn_path hcon ha hb)).tail with h | ⟨p, _, hpb⟩
  · exact h
  · obtain ⟨hpb', hpS, _⟩ := mem_subEdges.mp hpb
    exact absurd hpb' (indegIn_eq_zero.mp hb0 p hpS)

/-- … and exactly one node without successor in `S` -/
theorem end_unique {es : List Edge} {S : List Nat} (hdeg : degOk es S = true)
    (hcon : connectedIn es S = true) {a b : Nat} (ha : a ∈ S) (hb : b ∈ S)
    (ha0 : outdegIn es S a = 0) (hb0 : outdegIn es S b = 0) : a = b := by
  unfold degOk at hdeg
  rw [Bool.and_eq_true, List.all_eq_true, List.all_eq_true] at hdeg
  have hout : ∀ n, n ∈ S → outdegIn es S n ≤ 1 := fun n hn => by simpa using hdeg.2 n hn
  -- everything weakly connected to `b` inside `S` is an ancestor of `b`
  have key : ∀ x, Path (sym (subEdges es S)) b x → Path (subEdges es S) x b := by
    intro x hx
    induction hx with
    | refl => exact Path.refl _
    | step p y _ he ih =>
      rcases mem_sym.mp he with h1 | h1
      · -- (p, y) is an edge of S and p is an ancestor of b
        obtain ⟨hpy, hpS, hyS⟩ := mem_subEdges.mp h1
        rcases ih.head with rfl | ⟨c, hpc, hc⟩
        · exact absurd hpy (outdegIn_eq_zero.mp hb0 y hyS)
        · obtain ⟨hpc', _, hcS⟩ := mem_subEdges.mp hpc
          have : y = c := succs_eq_of_outdegIn_le (hout p hpS) hyS hcS hpy hpc'
          rw [this]; exact hc
      · exact Path.trans (Path.step y y p (Path.refl y) h1) ih
  rcases (key a (connectedIn_path hcon hb ha)).head with h | ⟨c, hac, _⟩
  · exact h
  · obtain ⟨hac', _, hcS⟩ := mem_subEdges.mp hac
    exact absurd hac' (outdegIn_eq_zero.mp ha0 c hcS)

/-! ### declarative readings of the three Boolean checks -/

/-- how many consecutive rounds of Kahn's algorithm a node survives -/
def rounds (es : List Edge) : Nat → List Nat → Nat → Nat
  | 0, _, _ => 0
  | f + 1, rem, n => if rem.contains n then 1 + rounds es f (peel es rem) n else 0

theorem rounds_lt {es : List Edge} : ∀ (f : Nat) (rem : List Nat) {u v : Nat}, (u, v) ∈ es → u ∈ rem →
    v ∈ rem → peelN es f rem = [] → rounds es f rem u < rounds es f rem v
  | 0, rem, u, _, _, hu, _, h => by
    have : rem = [] := h
    rw [this] at hu; cases hu
  | f + 1, rem, u, v, he, hu, hv, h => by
    have hv' : v ∈ peel es rem := mem_peel.mpr ⟨hv, u, hu, he⟩
    have h' : peelN es f (peel es rem) = [] := h
    show (if rem.contains u then 1 + rounds es f (peel es rem) u else 0) <
      (if rem.contains v then 1 + rounds es f (peel es rem) v else 0)
    rw [if_pos (List.contains_iff_mem.mpr hu), if_pos (List.contains_iff_mem.mpr hv)]
    by_cases hu' : u ∈ peel es rem
    · have := rounds_lt f (peel es rem) he hu' hv' h'
      omega
    · have h0 : rounds es f (peel es rem) u = 0 := by
        cases f with
        | zero => rfl
        | succ f' =>
          show (if (peel es rem).contains u then _ else 0) = 0
          rw [if_neg (fun hc => hu' (List.contains_iff_mem.mp hc))]
      have h1 : 0 < rounds es f (peel es rem) v := by
        cases f with
        | zero =>
          have : peel es rem = [] := h'
          rw [this] at hv'; cases hv'
        | succ f' =>
          show 0 < (if (peel es rem).contains v then 1 + rounds es f' (peel es (peel es rem)) v else 0)
          rw [if_pos (List.contains_iff_mem.mpr hv')]
          omega
      omega

/-- **the cycle check answers "acyclic" iff the induced subgraph has a topological rank** -/
theorem acyclic_iff_rank {es : List Edge} {S : List Nat} :
    acyclic es S = true ↔ ∃ rk : Nat → Nat, ∀ e, e ∈ es → e.1 ∈ S → e.2 ∈ S → rk e.1 < rk e.2 := by
  constructor
  · intro h
    unfold acyclic at h
    rw [List.isEmpty_iff] at h
    exact ⟨rounds es S.length S, fun e he h1 h2 => rounds_lt S.length S he h1 h2 h⟩
  · rintro ⟨rk, h⟩
    exact acyclic_of_rank rk h

/-- the degree check: inside `S` every node has at most one predecessor and at most one successor -/
theorem degOk_iff {es : List Edge} {S : List Nat} :
    degOk es S = true ↔ ∀ n, n ∈ S →
      (∀ p q, p ∈ S → q ∈ S → (p, n) ∈ es → (q, n) ∈ es → p = q) ∧
      (∀ c d, c ∈ S → d ∈ S → (n, c) ∈ es → (n, d) ∈ es → c = d) := by
  unfold degOk
  rw [Bool.and_eq_true, List.all_eq_true, List.all_eq_true]
  constructor
  · rintro ⟨h1, h2⟩ n hn
    exact ⟨fun p q hp hq e1 e2 => preds_eq_of_indegIn_le (by simpa using h1 n hn) hp hq e1 e2,
      fun c d hc hd e1 e2 => succs_eq_of_outdegIn_le (by simpa using h2 n hn) hc hd e1 e2⟩
  · intro h
    constructor
    · intro n hn
      have := indegIn_le_one (es := es) (S := S) (n := n) (h n hn).1
      simpa using this
    · intro n hn
      have := outdegIn_le_one (es := es) (S := S) (n := n) (h n hn).2
      simpa using this

/-- the connectivity check: any two nodes of `S` are joined by an undirected path inside `S` -/
theorem connectedIn_iff {es : List Edge} {S : List Nat} (hne : S ≠ []) :
    connectedIn es S = true ↔ ∀ a b, a ∈ S → b ∈ S → Path (sym (subEdges es S)) a b := by
  constructor
  · intro h a b ha hb
    exact connectedIn_path h ha hb
  · intro h
    unfold connectedIn
    match hS : S, hne with
    | n0 :: rest, _ =>
      simp only
      rw [List.all_eq_true]
      intro m hm
      rw [List.contains_iff_mem, mem_reach_iff]
      exact ⟨n0, by simp, h n0 m (by simp) hm⟩

/-- the Boolean `extBack`: exactly one predecessor in `G`, which has exactly one successor in `G` -/
theorem extBack_iff {es : List Edge} {a : Nat} :
    extBack es a = true ↔ ∃ p, predsG es a = [p] ∧ (succsG es p).length = 1 := by
  unfold extBack
  cases hp : predsG es a with
  | nil => simp
  | cons p r =>
    cases r with
    | nil => simp
    | cons q r' => simp

theorem extFwd_iff {es : List Edge} {b : Nat} :
    extFwd es b = true ↔ ∃ c, succsG es b = [c] ∧ (predsG es c).length = 1 := by
  unfold extFwd
  cases hp : succsG es b with
  | nil => simp
  | cons p r =>
    cases r with
    | nil => simp
    | cons q r' => simp

/-- **what one iteration of the loop of `validate_tracklets` decides** (`S = dedup tn`, the node set of
    the tracklet) -/
theorem trackletOk_iff {es : List Edge} {tn : List Nat} :
    trackletOk es tn = true ↔ tn.length < 2 ∨
      (degOk es (dedup tn) = true ∧ acyclic es (dedup tn) = true ∧ connectedIn es (dedup tn) = true ∧
       (∀ a, a ∈ dedup tn → indegIn es (dedup tn) a = 0 → extBack es a = false) ∧
       (∀ b, b ∈ dedup tn → outdegIn es (dedup tn) b = 0 → extFwd es b = false)) := by
  unfold trackletOk
  by_cases hlen : tn.length < 2
  · rw [if_pos hlen]; simp [hlen]
  · rw [if_neg hlen]
    have hne : dedup tn ≠ [] := dedup_ne_nil (by intro h; rw [h] at hlen; simp at hlen)
    simp only [hlen, false_or]
    cases hdeg : degOk es (dedup tn) with
    | false => simp
    | true =>
      cases hacy : acyclic es (dedup tn) with
      | false => simp
      | true =>
        cases hcon : connectedIn es (dedup tn) with
        | false => simp
        | true =>
          simp only [Bool.not_true, Bool.false_eq_true, if_false, true_and]
          obtain ⟨a, ha⟩ := start_exists hne hacy
          obtain ⟨b, hb⟩ := end_exists hne hacy
          rw [ha, hb]
          have haS := List.mem_of_find?_eq_some ha
          have hbS := List.mem_of_find?_eq_some hb
          have ha0 : indegIn es (dedup tn) a = 0 := by simpa using List.find?_some ha
          have hb0 : outdegIn es (dedup tn) b = 0 := by simpa using List.find?_some hb
          show (!extBack es a && !extFwd es b) = true ↔ _
          constructor
          · intro h
            rw [Bool.and_eq_true] at h
            constructor
            · intro a' h1 h2
              rw [start_unique hdeg hcon h1 haS h2 ha0]
              simpa using h.1
            · intro b' h1 h2
              rw [end_unique hdeg hcon h1 hbS h2 hb0]
              simpa using h.2
          · rintro ⟨h1, h2⟩
            rw [h1 a haS ha0, h2 b hbS hb0]; rfl

theorem subEdges_dedup_iff {es : List Edge} {tn : List Nat} (e : Edge) :
    e ∈ subEdges es (dedup tn) ↔ e ∈ subEdges es tn := by
  rw [mem_subEdges, mem_subEdges, mem_dedup, mem_dedup]

theorem sym_mono {es es' : List Edge} (h : ∀ e, e ∈ es → e ∈ es') : ∀ e, e ∈ sym es → e ∈ sym es' := by
  rintro ⟨a, b⟩ he
  rw [mem_sym] at he ⊢
  rcases he with h1 | h1
  · exact Or.inl (h _ h1)
  · exact Or.inr (h _ h1)

/-- the loop body in declarative terms over the node list `tn` of the tracklet: fewer than two nodes,
    or (1) inside `tn` every node has at most one predecessor and one successor, (2) the induced
    subgraph has a topological rank, (3) any two nodes are joined by an undirected path inside `tn`,
    (4) a node without predecessor in `tn` is not "extendable backward", (5) a node without
    successor in `tn` is not "extendable forward" -/
theorem trackletOk_spec {es : List Edge} {tn : List Nat} :
    trackletOk es tn = true ↔ tn.length < 2 ∨
      ((∀ n, n ∈ tn →
          (∀ p q, p ∈ tn → q ∈ tn → (p, n) ∈ es → (q, n) ∈ es → p = q) ∧
          (∀ c d, c ∈ tn → d ∈ tn → (n, c) ∈ es → (n, d) ∈ es → c = d)) ∧
       (∃ rk : Nat → Nat, ∀ e, e ∈ es → e.1 ∈ tn → e.2 ∈ tn → rk e.1 < rk e.2) ∧
       (∀ a b, a ∈ tn → b ∈ tn → Path (sym (subEdges es tn)) a b) ∧
       (∀ a, a ∈ tn → (∀ p, p ∈ tn → (p, a) ∉ es) →
          ¬ ∃ p, predsG es a = [p] ∧ (succsG es p).length = 1) ∧
       (∀ b, b ∈ tn → (∀ c, c ∈ tn → (b, c) ∉ es) →
          ¬ ∃ c, succsG es b = [c] ∧ (predsG es c).length = 1)) := by
  rw [trackletOk_iff]
  by_cases hlen : tn.length < 2
  · simp [hlen]
  · have hne : dedup tn ≠ [] := dedup_ne_nil (by intro h; rw [h] at hlen; simp at hlen)
    simp only [hlen, false_or]
    rw [degOk_iff, acyclic_iff_rank, connectedIn_iff hne]
    constructor
    · rintro ⟨h1, ⟨rk, h2⟩, h3, h4, h5⟩
      refine ⟨fun n hn => ?_, ⟨rk, fun e he e1 e2 => h2 e he (mem_dedup.mpr e1) (mem_dedup.mpr e2)⟩,
        fun a b ha hb => ?_, fun a ha hno => ?_, fun b hb hno => ?_⟩
      · obtain ⟨d1, d2⟩ := h1 n (mem_dedup.mpr hn)
        exact ⟨fun p q hp hq => d1 p q (mem_dedup.mpr hp) (mem_dedup.mpr hq),
          fun c d hc hd => d2 c d (mem_dedup.mpr hc) (mem_dedup.mpr hd)⟩
      · exact (h3 a b (mem_dedup.mpr ha) (mem_dedup.mpr hb)).mono
          (sym_mono (fun e he => (subEdges_dedup_iff e).mp he))
      · have := h4 a (mem_dedup.mpr ha) (indegIn_eq_zero.mpr (fun p hp => hno p (mem_dedup.mp hp)))
        rw [← extBack_iff, this]; simp
      · have := h5 b (mem_dedup.mpr hb) (outdegIn_eq_zero.mpr (fun c hc => hno c (mem_dedup.mp hc)))
        rw [← extFwd_iff, this]; simp
    · rintro ⟨h1, ⟨rk, h2⟩, h3, h4, h5⟩
      refine ⟨fun n hn => ?_, ⟨rk, fun e he e1 e2 => h2 e he (mem_dedup.mp e1) (mem_dedup.mp e2)⟩,
        fun a b ha hb => ?_, fun a ha h0 => ?_, fun b hb h0 => ?_⟩
      · obtain ⟨d1, d2⟩ := h1 n (mem_dedup.mp hn)
        exact ⟨fun p q hp hq => d1 p q (mem_dedup.mp hp) (mem_dedup.mp hq),
          fun c d hc hd => d2 c d (mem_dedup.mp hc) (mem_dedup.mp hd)⟩
      · exact (h3 a b (mem_dedup.mp ha) (mem_dedup.mp hb)).mono
          (sym_mono (fun e he => (subEdges_dedup_iff e).mpr he))
      · have := h4 a (mem_dedup.mp ha) (fun p hp => indegIn_eq_zero.mp h0 p (mem_dedup.mpr hp))
        rw [← extBack_iff] at this
        simpa using this
      · have := h5 b (mem_dedup.mp hb) (fun c hc => outdegIn_eq_zero.mp h0 c (mem_dedup.mpr hc))
        rw [← extFwd_iff] at this
        simpa using this

/-! ## §5 session states -/

open Ft.St

/-- the `track_id` column in node order -/
def tidCol (s : St) : List Nat := s.nodes.map (·.tid)

/-- the `lineage_id` column in node order (`none ↦ 0` as in `R5A.toExport`; unreachable under
    `LinOK.has`) -/
def linCol (s : St) : List Nat := s.nodes.map (fun r => r.lin.getD 0)

theorem mem_zip_tidCol {s : St} {n t : Nat} :
    (n, t) ∈ s.ids.zip (tidCol s) ↔ ∃ r, r ∈ s.nodes ∧ r.id = n ∧ r.tid = t := by
  unfold St.ids tidCol
  rw [List.zip_map', List.mem_map]
  constructor
  · rintro ⟨r, hr, he⟩
    simp only [Prod.mk.injEq] at he
    exact ⟨r, hr, he.1, he.2⟩
  · rintro ⟨r, hr, h1, h2⟩
    exact ⟨r, hr, by rw [h1, h2]⟩

theorem mem_zip_linCol {s : St} {n l : Nat} :
    (n, l) ∈ s.ids.zip (linCol s) ↔ ∃ r, r ∈ s.nodes ∧ r.id = n ∧ r.lin.getD 0 = l := by
  unfold St.ids linCol
  rw [List.zip_map', List.mem_map]
  constructor
  · rintro ⟨r, hr, he⟩
    simp only [Prod.mk.injEq] at he
    exact ⟨r, hr, he.1, he.2⟩
  · rintro ⟨r, hr, h1, h2⟩
    exact ⟨r, hr, by rw [h1, h2]⟩

/-- with unique node ids: the group of key `t` lists exactly the nodes whose track id is `t` -/
theorem mem_group_tid {s : St} (hnd : s.ids.Nodup) {n t : Nat} :
    n ∈ group s.ids (tidCol s) t ↔ n ∈ s.ids ∧ s.tidOf n = some t := by
  rw [mem_group, mem_zip_tidCol]
  constructor
  · rintro ⟨r, hr, rfl, rfl⟩
    refine ⟨List.mem_map.mpr ⟨r, hr, rfl⟩, ?_⟩
    unfold St.tidOf
    rw [findNode_of_mem_sg hnd hr]; rfl
  · rintro ⟨hn, ht⟩
    obtain ⟨r, hr⟩ := tk_mem_ids_iff.mp hn
    obtain ⟨hid, hm⟩ := tk_findNode_id hr
    refine ⟨r, hm, hid, ?_⟩
    unfold St.tidOf at ht
    rw [hr] at ht
    exact Option.some.inj ht

theorem mem_group_lin {s : St} (hnd : s.ids.Nodup) (hL : s.LinOK) {n l : Nat} :
    n ∈ group s.ids (linCol s) l ↔ n ∈ s.ids ∧ s.linOf n = some l := by
  rw [mem_group, mem_zip_linCol]
  constructor
  · rintro ⟨r, hr, rfl, rfl⟩
    have hn : r.id ∈ s.ids := List.mem_map.mpr ⟨r, hr, rfl⟩
    refine ⟨hn, ?_⟩
    have hs := hL.has _ hn
    unfold St.linOf at hs ⊢
    rw [findNode_of_mem_sg hnd hr] at hs ⊢
    show r.lin = _
    have hs' : r.lin.isSome = true := hs
    cases hl : r.lin with
    | none => rw [hl] at hs'; cases hs'
    | some x => rfl
  · rintro ⟨hn, ht⟩
    obtain ⟨r, hr⟩ := tk_mem_ids_iff.mp hn
    obtain ⟨hid, hm⟩ := tk_findNode_id hr
    refine ⟨r, hm, hid, ?_⟩
    unfold St.linOf at ht
    rw [hr] at ht
    have : r.lin = some l := ht
    rw [this]; rfl

/-- in a forest with exact track ids an edge that keeps the track id leaves a non-dividing node -/
theorem outdeg_one_of_same_tid {s : St} (hF : s.Forest) (hT : s.TidOK) {b c : Node}
    (he : (b, c) ∈ s.edgeList) (ht : s.tidOf b = s.tidOf c) : s.outdeg b = 1 := by
  have h1 := tk_outdeg_pos he
  have h2 := hF.outdeg_le b
  apply Classical.byContradiction
  intro hne
  have ho : s.outdeg b = 2 := by omega
  have hc : s.IsHead c := ⟨hF.dst_mem _ he, fun p hp => by rw [hF.par_unique hp he]; exact ho⟩
  obtain ⟨h, hh, hd⟩ := tk_exists_head hF _ b (hF.src_mem _ he) rfl
  have hth : s.tidOf h = s.tidOf b := hT.of_sameSeg (hd.sameSeg hh.1)
  have heq : h = c := by
    apply Classical.byContradiction
    intro hne'
    exact hT.heads h c hh hc hne' (hth.trans ht)
  subst heq
  have := hd.anc.tm_le hF
  have := hF.tm_lt he
  omega

/-- the children of a node with exactly one `G`-successor -/
theorem outdeg_one_of_succsG {s : St} (hF : s.Forest) {es : List Edge}
    (hes : ∀ e, e ∈ es ↔ e ∈ s.edgeList) {p c : Nat} (h : succsG es p = [c]) :
    (p, c) ∈ s.edgeList ∧ s.outdeg p = 1 := by
  have hc : (p, c) ∈ s.edgeList := (hes _).mp (mem_succsG.mp (by rw [h]; simp))
  refine ⟨hc, ?_⟩
  have h1 := tk_outdeg_pos hc
  have h2 : s.outdeg p ≤ 1 := by
    unfold St.outdeg
    apply length_le_one_of_all_eq (hF.succs_nodup p)
    intro a ha b hb
    have ha' : a ∈ succsG es p := mem_succsG.mpr ((hes _).mpr (tk_mem_succs.mp ha))
    have hb' : b ∈ succsG es p := mem_succsG.mpr ((hes _).mpr (tk_mem_succs.mp hb))
    rw [h] at ha' hb'
    simp at ha' hb'
    rw [ha', hb']
  omega

/-- a segment is connected inside the set of nodes that carry its id -/
theorem path_of_sameSeg {s : St} (hF : s.Forest) (hT : s.TidOK) {es : List Edge}
    (hes : ∀ e, e ∈ es ↔ e ∈ s.edgeList) {S : List Nat} {t : Nat}
    (hS : ∀ n, n ∈ S ↔ n ∈ s.ids ∧ s.tidOf n = some t) {a b : Node} (h : s.SameSeg a b)
    (ha : s.tidOf a = some t) : Path (sym (subEdges es S)) a b := by
  induction h with
  | refl => exact Path.refl _
  | down p c hap he ho ih =>
    have hp : p ∈ S := (hS p).mpr ⟨hF.src_mem _ he, by rw [← hT.of_sameSeg hap]; exact ha⟩
    have hc : c ∈ S := (hS c).mpr ⟨hF.dst_mem _ he, by
      rw [hT.along _ he ho, ← hT.of_sameSeg hap]; exact ha⟩
    refine Path.step _ p c ih (mem_sym.mpr (Or.inl ?_))
    exact mem_subEdges.mpr ⟨(hes _).mpr he, hp, hc⟩
  | up p c hac he ho ih =>
    have hc : c ∈ S := (hS c).mpr ⟨hF.dst_mem _ he, by rw [← hT.of_sameSeg hac]; exact ha⟩
    have hp : p ∈ S := (hS p).mpr ⟨hF.src_mem _ he, by
      rw [← hT.along _ he ho, ← hT.of_sameSeg hac]; exact ha⟩
    refine Path.step _ c p ih (mem_sym.mpr (Or.inr ?_))
    exact mem_subEdges.mpr ⟨(hes _).mpr he, hp, hc⟩

/-- **one tracklet of a forest with exact track ids passes**: `tn` lists (in any order, possibly
    with repetitions) exactly the nodes that carry the id `t` -/
theorem trackletOk_of_forest {s : St} (hF : s.Forest) (hT : s.TidOK) {es : List Edge}
    (hes : ∀ e, e ∈ es ↔ e ∈ s.edgeList) {tn : List Nat} {t : Nat} (hne : tn ≠ [])
    (htn : ∀ n, n ∈ tn ↔ n ∈ s.ids ∧ s.tidOf n = some t) : trackletOk es tn = true := by
  have hS : ∀ n, n ∈ dedup tn ↔ n ∈ s.ids ∧ s.tidOf n = some t := fun n => by rw [mem_dedup, htn]
  have hSne : dedup tn ≠ [] := dedup_ne_nil hne
  -- degrees
  have hdeg : degOk es (dedup tn) = true := by
    unfold degOk
    rw [Bool.and_eq_true, List.all_eq_true, List.all_eq_true]
    constructor
    · intro n _
      have : indegIn es (dedup tn) n ≤ 1 := indegIn_le_one (fun p q _ _ h1 h2 =>
        hF.par_unique ((hes _).mp h1) ((hes _).mp h2))
      simpa using this
    · intro n hn
      have : outdegIn es (dedup tn) n ≤ 1 := outdegIn_le_one (fun c d hc hd h1 h2 => by
        have hnt := ((hS n).mp hn).2
        have ho : s.outdeg n = 1 := outdeg_one_of_same_tid hF hT ((hes _).mp h1)
          (by rw [hnt, ((hS c).mp hc).2])
        exact tk_child_unique ho ((hes _).mp h1) ((hes _).mp h2))
      simpa using this
  -- acyclic
  have hacy : acyclic es (dedup tn) = true :=
    acyclic_of_rank s.tk_tm (fun e he _ _ => hF.tm_lt ((hes e).mp he))
  -- connected
  have hcon : connectedIn es (dedup tn) = true := by
    unfold connectedIn
    cases hS0 : dedup tn with
    | nil => exact absurd hS0 hSne
    | cons n0 rest =>
      rw [List.all_eq_true]
      intro m hm
      rw [List.contains_iff_mem, mem_reach_iff]
      refine ⟨n0, by simp, ?_⟩
      rw [← hS0] at hm ⊢
      have hn0 : n0 ∈ dedup tn := by rw [hS0]; simp
      obtain ⟨h0i, h0t⟩ := (hS n0).mp hn0
      obtain ⟨hmi, hmt⟩ := (hS m).mp hm
      have hseg : s.SameSeg n0 m := (tk_tid_iff_sameSeg hF hT h0i hmi).mp (by rw [h0t, hmt])
      exact path_of_sameSeg hF hT hes hS hseg h0t
  unfold trackletOk
  by_cases hlen : tn.length < 2
  · rw [if_pos hlen]
  · rw [if_neg hlen]
    simp only [hdeg, hacy, hcon, Bool.not_true, Bool.false_eq_true, if_false]
    obtain ⟨a, hfa⟩ := start_exists hSne hacy
    obtain ⟨b, hfb⟩ := end_exists hSne hacy
    rw [hfa, hfb]
    have haS := List.mem_of_find?_eq_some hfa
    have hbS := List.mem_of_find?_eq_some hfb
    have ha0 : indegIn es (dedup tn) a = 0 := by simpa using List.find?_some hfa
    have hb0 : outdegIn es (dedup tn) b = 0 := by simpa using List.find?_some hfb
    have hback : extBack es a = false := by
      unfold extBack
      split
      · rename_i p hp
        cases hl : (succsG es p).length == 1 with
        | false => rfl
        | true =>
          exfalso
          have hpa : (p, a) ∈ es := mem_predsG.mp (by rw [hp]; simp)
          have hl' : (succsG es p).length = 1 := by simpa using hl
          obtain ⟨c, hc⟩ : ∃ c, succsG es p = [c] := by
            match hsc : succsG es p, hl' with
            | [c], _ => exact ⟨c, rfl⟩
          obtain ⟨_, ho⟩ := outdeg_one_of_succsG hF hes hc
          have hpaE := (hes _).mp hpa
          have htp : s.tidOf p = s.tidOf a := (hT.along _ hpaE ho).symm
          have hpS : p ∈ dedup tn := (hS p).mpr ⟨hF.src_mem _ hpaE, by rw [htp]; exact ((hS a).mp haS).2⟩
          exact indegIn_eq_zero.mp ha0 p hpS hpa
      · rfl
    have hfwd : extFwd es b = false := by
      unfold extFwd
      split
      · rename_i c hc
        exfalso
        obtain ⟨hbcE, ho⟩ := outdeg_one_of_succsG hF hes hc
        have htc : s.tidOf c = s.tidOf b := hT.along _ hbcE ho
        have hcS : c ∈ dedup tn := (hS c).mpr ⟨hF.dst_mem _ hbcE, by rw [htc]; exact ((hS b).mp hbS).2⟩
        exact outdegIn_eq_zero.mp hb0 c hcS ((hes _).mpr hbcE)
      · rfl
    show (!extBack es a && !extFwd es b) = true
    rw [hback, hfwd]; rfl

/-- **`validate_tracklets` accepts the track ids of a forest with exact track ids**, whatever the order
    (and multiplicity) in which the edges are listed -/
theorem validateTracklets_of_forest {s : St} (hF : s.Forest) (hT : s.TidOK) {es : List Edge}
    (hes : ∀ e, e ∈ es ↔ e ∈ s.edgeList) : validateTracklets s.ids es (tidCol s) = true := by
  unfold validateTracklets
  rw [List.all_eq_true]
  intro t ht
  exact trackletOk_of_forest hF hT hes (group_ne_nil ht) (fun n => mem_group_tid hF.nodup_nodes)

theorem path_of_conn {s : St} {es : List Edge} (hes : ∀ e, e ∈ es ↔ e ∈ s.edgeList) {a b : Node}
    (h : s.Conn a b) : Path (sym es) a b := by
  induction h with
  | refl => exact Path.refl _
  | down p c _ he ih => exact Path.step _ p c ih (mem_sym.mpr (Or.inl ((hes _).mpr he)))
  | up p c _ he ih => exact Path.step _ c p ih (mem_sym.mpr (Or.inr ((hes _).mpr he)))

theorem conn_of_path {s : St} {es : List Edge} (hes : ∀ e, e ∈ es ↔ e ∈ s.edgeList) {a b : Node}
    (ha : a ∈ s.ids) (h : Path (sym es) a b) : s.Conn a b := by
  induction h with
  | refl => exact Conn.refl _ ha
  | step p b _ he ih =>
    rcases mem_sym.mp he with h1 | h1
    · exact Conn.down _ p b ih ((hes _).mp h1)
    · exact Conn.up _ b p ih ((hes _).mp h1)

/-- the computed component of a node of the state is its `Conn`-class -/
theorem mem_component_iff {s : St} {es : List Edge} (hes : ∀ e, e ∈ es ↔ e ∈ s.edgeList) {a b : Node}
    (ha : a ∈ s.ids) : b ∈ IdValidate.component es a ↔ s.Conn a b := by
  unfold IdValidate.component
  rw [mem_reach_iff]
  constructor
  · rintro ⟨a', ha', hp⟩
    simp at ha'
    subst ha'
    exact conn_of_path hes ha hp
  · intro h
    exact ⟨a, by simp, path_of_conn hes h⟩

theorem lineageOk_of_forest {s : St} (hF : s.Forest) (hL : s.LinOK) {es : List Edge}
    (hes : ∀ e, e ∈ es ↔ e ∈ s.edgeList) {ln : List Nat} {l : Nat}
    (hln : ∀ n, n ∈ ln ↔ n ∈ s.ids ∧ s.linOf n = some l) : lineageOk es ln = true := by
  unfold lineageOk
  cases hl : ln with
  | nil => rfl
  | cons n0 rest =>
    simp only
    rw [← hl]
    have hn0 : n0 ∈ ln := by rw [hl]; simp
    obtain ⟨h0i, h0l⟩ := (hln n0).mp hn0
    unfold sameSet
    rw [Bool.and_eq_true, List.all_eq_true, List.all_eq_true]
    constructor
    · intro m hm
      obtain ⟨hmi, hml⟩ := (hln m).mp hm
      rw [List.contains_iff_mem, mem_component_iff hes h0i]
      exact (tk_lin_iff_conn hF hL h0i hmi).mp (by rw [h0l, hml])
    · intro m hm
      rw [mem_component_iff hes h0i] at hm
      rw [List.contains_iff_mem, hln]
      exact ⟨hm.mem_right hF, by rw [← hL.of_conn hm]; exact h0l⟩

/-- **`validate_lineages` accepts the lineage ids of a forest with exact lineage ids** -/
theorem validateLineages_of_forest {s : St} (hF : s.Forest) (hL : s.LinOK) {es : List Edge}
    (hes : ∀ e, e ∈ es ↔ e ∈ s.edgeList) : validateLineages s.ids es (linCol s) = true := by
  unfold validateLineages
  rw [List.all_eq_true]
  intro l _
  exact lineageOk_of_forest hF hL hes (fun n => mem_group_lin hF.nodup_nodes hL)

end Ft.R8V
