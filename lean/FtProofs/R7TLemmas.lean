/-
  FtProofs.R7TLemmas — package R7T: the TracksController entry points (`FtModel/Controller.lean`)
  as compositions of session steps.

  §1  `runOps` = `finalSt` over the executed prefix (`executed`); `ElemsPre` (the lifted `OpOK`).
  §2  `Added s s' k`: `s'` has `k` more history entries (`add_new_action` × k) and `k` more refreshes.
  §3  the expansion of a controller call: `ctlPrefix`, `ctlElems`, `ctlExpand`, `ctlStep_expand`.
  §4  `update_node_attrs`: the chain of an accepted call, `AttrsPre`.
  §5  the controller session: `CInv`, `CtlPre`, `ctlAbs`, `ctl_step_inv`, `ctlFinal`, `ctl_run_inv`.
-/
import FtProofs.R3DFinalLemmas
import FtModel.Controller

namespace Ft.R7T
open Ft Ft.St Ft.R2A1 Ft.R3P Ft.R3D List

/-! ## §1 `runOps` -/

/-- the operations a `runOps` really executes: up to and including the first one that raises;
    an element whose arguments cannot be built (`none`) executes nothing -/
def executed : St → List (Option Op) → List Op
  | _, [] => []
  | _, none :: _ => []
  | s, some op :: ops =>
    match (s.step op).2 with
    | .err _ => [op]
    | _ => op :: executed (s.step op).1 ops

theorem runOps_cons_err {s : St} {op : Op} {ops : List (Option Op)} {e : Err}
    (h : (s.step op).2 = .err e) : runOps s (some op :: ops) = ((s.step op).1, .err e) := by
  rw [runOps]
  rcases hs : s.step op with ⟨s', o⟩
  rw [hs] at h
  simp only at h
  subst h
  rfl

theorem runOps_cons_ok {s : St} {op : Op} {ops : List (Option Op)}
    (h : ∀ e, (s.step op).2 ≠ .err e) : runOps s (some op :: ops) = runOps (s.step op).1 ops := by
  rw [runOps]
  rcases hs : s.step op with ⟨s', o⟩
  rw [hs] at h
  cases o with
  | err e => exact absurd rfl (h e)
  | ok => rfl
  | bool b => rfl
  | nodes l => rfl

theorem executed_cons_err {s : St} {op : Op} {ops : List (Option Op)} {e : Err}
    (h : (s.step op).2 = .err e) : executed s (some op :: ops) = [op] := by
  rw [executed, h]

theorem executed_cons_ok {s : St} {op : Op} {ops : List (Option Op)}
    (h : ∀ e, (s.step op).2 ≠ .err e) :
    executed s (some op :: ops) = op :: executed (s.step op).1 ops := by
  rw [executed]
  cases ho : (s.step op).2 with
  | err e => exact absurd ho (h e)
  | ok => rfl
  | bool b => rfl
  | nodes l => rfl

theorem out_err_or (o : Out) : (∃ e, o = .err e) ∨ ∀ e, o ≠ .err e := by
  cases o with
  | err e => exact .inl ⟨e, rfl⟩
  | ok => exact .inr (fun _ h => by cases h)
  | bool b => exact .inr (fun _ h => by cases h)
  | nodes l => exact .inr (fun _ h => by cases h)

/-- **a controller loop is a list of session steps**: the state after `runOps` is the state after
    `finalSt` (the fold of `St.step`) over the executed operations -/
theorem runOps_state : ∀ (l : List (Option Op)) (s : St), (runOps s l).1 = finalSt s (executed s l)
  | [], _ => rfl
  | none :: _, _ => rfl
  | some op :: ops, s => by
    rcases out_err_or (s.step op).2 with ⟨e, h⟩ | h
    · rw [runOps_cons_err h, executed_cons_err h]; rfl
    · rw [runOps_cons_ok h, executed_cons_ok h, runOps_state ops]; rfl

theorem runOps_out : ∀ (l : List (Option Op)) (s : St),
    (runOps s l).2 = .ok ∨ ∃ e, (runOps s l).2 = .err e
  | [], _ => .inl rfl
  | none :: _, _ => .inr ⟨_, rfl⟩
  | some op :: ops, s => by
    rcases out_err_or (s.step op).2 with ⟨e, h⟩ | h
    · rw [runOps_cons_err h]; exact .inr ⟨e, rfl⟩
    · rw [runOps_cons_ok h]; exact runOps_out ops _

/-- the lifted per-element precondition: every element that is reached is an admissible session
    operation (`OpOK`: undo / redo / query / top-level edit with `OpPre`) at the state where it is
    applied; nothing is asked of elements behind a raising one -/
def ElemsPre : St → List (Option Op) → Prop
  | _, [] => True
  | _, none :: _ => True
  | s, some op :: ops => OpOK s op ∧ ((∀ e, (s.step op).2 ≠ .err e) → ElemsPre (s.step op).1 ops)

theorem sessOK_executed : ∀ (l : List (Option Op)) (s : St), ElemsPre s l → SessOK s (executed s l)
  | [], _, _ => trivial
  | none :: _, _, _ => trivial
  | some op :: ops, s, h => by
    rcases out_err_or (s.step op).2 with ⟨e, he⟩ | he
    · rw [executed_cons_err he]; exact ⟨h.1, trivial⟩
    · rw [executed_cons_ok he]; exact ⟨h.1, sessOK_executed ops _ (h.2 he)⟩

theorem finalSt_append : ∀ (a b : List Op) (s : St), finalSt s (a ++ b) = finalSt (finalSt s a) b
  | [], _, _ => rfl
  | _ :: a, b, _ => finalSt_append a b _

theorem sessOK_append' : ∀ (a b : List Op) (s : St), SessOK s a → SessOK (finalSt s a) b → SessOK s (a ++ b)
  | [], _, _, _, h => h
  | _ :: a, b, _, h1, h2 => ⟨h1.1, sessOK_append' a b _ h1.2 h2⟩

theorem sessFinal_fst : ∀ (ops : List Op) (s : St) (t : Timeline St), (sessFinal s t ops).1 = finalSt s ops
  | [], _, _ => rfl
  | _ :: ops, _, _ => sessFinal_fst ops _ _

/-! ## §2 counting history entries and refreshes -/

/-- `s'` is `s` after `k` calls of `action_history.add_new_action` and `k` emissions of `refresh` -/
def Added (s s' : St) (k : Nat) : Prop :=
  ∃ l : List ActRec, l.length = k ∧ s'.hist = l.foldl Hist.add s.hist ∧ s'.refreshes = s.refreshes + k

theorem Added.of_ctl {s s' : St} (h : s'.ctl = s.ctl) : Added s s' 0 :=
  ⟨[], rfl, hist_of_ctl h, refreshes_of_ctl h⟩

theorem Added.refl (s : St) : Added s s 0 := Added.of_ctl rfl

theorem Added.trans {s t u : St} {j k : Nat} (h1 : Added s t j) (h2 : Added t u k) : Added s u (j + k) := by
  obtain ⟨l1, a1, b1, c1⟩ := h1
  obtain ⟨l2, a2, b2, c2⟩ := h2
  refine ⟨l1 ++ l2, by rw [length_append, a1, a2], ?_, ?_⟩
  · rw [b2, b1, foldl_append]
  · rw [c2, c1]; omega

theorem Added.congr_left {s s0 t : St} {k : Nat} (h : s.ctl = s0.ctl) (ha : Added s t k) : Added s0 t k := by
  obtain ⟨l, a, b, c⟩ := ha
  exact ⟨l, a, by rw [b, hist_of_ctl h], by rw [c, refreshes_of_ctl h]⟩

/-- one top-level edit: accepted = one entry and one refresh more, refused = none -/
theorem added_step (s : St) (op : Op) (he : op.isTopEdit = true) :
    ((s.step op).2 = .ok → Added s (s.step op).1 1) ∧
    (∀ e, (s.step op).2 = .err e → Added s (s.step op).1 0) := by
  rcases step_edit s op he with ⟨u, recs, h1, h2⟩ | ⟨e, h1, h2⟩
  · refine ⟨fun _ => ?_, fun e h => ?_⟩
    · rw [h1]
      refine ⟨[recs], rfl, ?_, ?_⟩
      · show u.hist.add recs = _
        rw [hist_of_ctl h2]; rfl
      · show u.refreshes + 1 = _
        rw [refreshes_of_ctl h2]
    · rw [h1] at h; cases h
  · refine ⟨fun h => ?_, fun _ _ => Added.of_ctl h2⟩
    rw [h1] at h; cases h

theorem edit_ok_of_not_err {s : St} {op : Op} (he : op.isTopEdit = true) (h : ∀ e, (s.step op).2 ≠ .err e) :
    (s.step op).2 = .ok := by
  rcases edit_out (s := s) he with h1 | ⟨e, h1⟩
  · exact h1
  · exact absurd h1 (h e)

/-- a loop of top-level edits that returns normally has made one history entry and one refresh per
    element; one that raises has made one per element before the raising one -/
theorem runOps_added : ∀ (l : List (Option Op)) (s : St), (∀ op, some op ∈ l → op.isTopEdit = true) →
    ((runOps s l).2 = .ok → Added s (runOps s l).1 l.length) ∧
    (∀ e, (runOps s l).2 = .err e → ∃ k, k < l.length ∧ Added s (runOps s l).1 k)
  | [], s, _ => ⟨fun _ => Added.refl s, fun e h => (by cases h)⟩
  | none :: l, s, _ => ⟨fun h => (by cases h), fun e _ => ⟨0, by simp, Added.refl s⟩⟩
  | some op :: ops, s, hall => by
    have he : op.isTopEdit = true := hall op (by simp)
    rcases out_err_or (s.step op).2 with ⟨e, h⟩ | h
    · rw [runOps_cons_err h]
      refine ⟨fun h' => (by cases h'), fun e' _ => ⟨0, by simp, (added_step s op he).2 e h⟩⟩
    · rw [runOps_cons_ok h]
      have h1 := (added_step s op he).1 (edit_ok_of_not_err he h)
      obtain ⟨ih1, ih2⟩ := runOps_added ops (s.step op).1 (fun o ho => hall o (by simp [ho]))
      refine ⟨fun hok => ?_, fun e herr => ?_⟩
      · have := h1.trans (ih1 hok)
        rw [length_cons, Nat.add_comm]; exact this
      · obtain ⟨k, hk, ha⟩ := ih2 e herr
        exact ⟨1 + k, by rw [length_cons]; omega, h1.trans ha⟩

/-! ## §3 the expansion of a controller call into session operations -/

/-- the `UserAddNode` calls of `add_nodes` for the node ids `ids` -/
def addElems (a : AddNodesArgs) (ids : List Node) : List (Option Op) :=
  (indexed ids).map (fun p => rowOp a p.1 p.2)

/-- the state-changing query a call runs before its elements (`_get_new_node_ids`) -/
def ctlPrefix (_s : St) : CtlOp → List Op
  | .addNodes a =>
    match a.cols.time, a.pixels with
    | some times, none => [.qNewIds times.length]
    | _, _ => []
  | _ => []

/-- the elements of a call: one session operation each (`none`: IndexError while building its
    arguments); empty when the call raises before the loop or is silently refused.
    `update_node_attrs` is NOT a list of session steps (one history entry for all nodes): §4. -/
def ctlElems (s : St) : CtlOp → List (Option Op)
  | .addNodes a =>
    match a.cols.time with
    | none => []
    | some times =>
      match a.pixels with
      | some _ =>
        match a.cols.nodeId with
        | none => []
        | some ids => addElems a ids
      | none => addElems a (s.newNodeIds times.length).2
  | .deleteNodes ns => ns.map (fun n => some (.delNode n))
  | .addEdges es f =>
    match s.checkEdges es with
    | .ok none => es.map (fun e => some (.addEdge e f))
    | _ => []
  | .deleteEdges es =>
    if es.all (fun e => s.hasEdge e) then es.map (fun e => some (.delEdge e)) else []
  | .swapPredecessors a b => [some (.swap a b)]
  | .updateNodeAttrs _ _ => []
  | .updateSegmentations v groups tid f => [some (.paint v groups tid f)]
  | .undo => [some .undo]
  | .redo => [some .redo]
  | .isValid _ => []

/-- the list of `St.step` operations a controller call IS (state-dependent: generated ids, silent
    refusals, the element that raises ends it) -/
def ctlExpand (s : St) (c : CtlOp) : List Op :=
  ctlPrefix s c ++ executed (finalSt s (ctlPrefix s c)) (ctlElems s c)

def IsUpdAttrs : CtlOp → Prop
  | .updateNodeAttrs _ _ => True
  | _ => False

theorem runOps_single (s : St) (op : Op) : (runOps s [some op]).1 = (s.step op).1 := by
  rw [runOps_state]
  rcases out_err_or (s.step op).2 with ⟨e, h⟩ | h
  · rw [executed_cons_err h]; rfl
  · rw [executed_cons_ok h]; rfl

theorem ctlStep_runs (s : St) (c : CtlOp) (hc : ¬ IsUpdAttrs c) :
    (s.ctlStep c).1 = (runOps (finalSt s (ctlPrefix s c)) (ctlElems s c)).1 := by
  cases c with
  | addNodes a =>
    simp only [ctlStep, ctlAddNodes, ctlPrefix, ctlElems]
    cases ht : a.cols.time with
    | none => rfl
    | some times =>
      cases hp : a.pixels with
      | some px =>
        cases hn : a.cols.nodeId with
        | none => rfl
        | some ids => rfl
      | none => rfl
  | deleteNodes ns => rfl
  | addEdges es f =>
    simp only [ctlStep, ctlAddEdges, ctlPrefix, ctlElems]
    cases hk : s.checkEdges es with
    | error x => rfl
    | ok r =>
      cases r with
      | none => rfl
      | some r => rfl
  | deleteEdges es =>
    simp only [ctlStep, ctlDeleteEdges, ctlPrefix, ctlElems]
    split <;> rfl
  | swapPredecessors a b =>
    simp only [ctlStep, ctlSwap, ctlPrefix, ctlElems, finalSt]
    rw [runOps_single]
    split <;> simp_all
  | updateNodeAttrs ns cols => exact absurd trivial hc
  | updateSegmentations v groups tid f =>
    simp only [ctlStep, ctlPrefix, ctlElems, finalSt]; rw [runOps_single]
  | undo => simp only [ctlStep, ctlPrefix, ctlElems, finalSt]; rw [runOps_single]
  | redo => simp only [ctlStep, ctlPrefix, ctlElems, finalSt]; rw [runOps_single]
  | isValid e =>
    simp only [ctlStep, ctlPrefix, ctlElems, finalSt, runOps]
    split <;> rfl

/-- **every controller call other than `update_node_attrs` is a list of `St.step` operations** -/
theorem ctlStep_expand (s : St) (c : CtlOp) (hc : ¬ IsUpdAttrs c) :
    (s.ctlStep c).1 = finalSt s (ctlExpand s c) := by
  rw [ctlStep_runs s c hc, runOps_state, ctlExpand, finalSt_append]

/-! ## §4 `update_node_attrs` (as repaired: a raising element rolls the earlier ones back) -/

abbrev LoopAcc := St × List PrimRec × Option Err

/-- the loop body of `_update_node_attrs` -/
def loopF (cols : List (Key × List Val)) (acc : LoopAcc) (p : Nat × Node) : LoopAcc :=
  match acc.2.2 with
  | some _ => acc
  | none =>
    match attrRow cols p.1 with
    | none => (acc.1, acc.2.1, some .other)
    | some row =>
      match acc.1.pUpdAttrs p.2 row with
      | .ok (s', r) => (s', acc.2.1 ++ [r], none)
      | .error e => (acc.1, acc.2.1, some e)

theorem updLoop_eq (s : St) (ns : List Node) (cols : List (Key × List Val)) :
    s.updLoop ns cols = (indexed ns).foldl (loopF cols) (s, [], none) := rfl

theorem loopF_err (cols : List (Key × List Val)) (u : St) (recs : List PrimRec) (e : Err) (p : Nat × Node) :
    loopF cols (u, recs, some e) p = (u, recs, some e) := rfl

theorem loop_err (cols : List (Key × List Val)) : ∀ (l : List (Nat × Node)) (u : St) (recs : List PrimRec)
    (e : Err), l.foldl (loopF cols) (u, recs, some e) = (u, recs, some e)
  | [], _, _, _ => rfl
  | p :: l, u, recs, e => by rw [foldl_cons, loopF_err, loop_err cols l]

/-- one step of the loop from a state that has not failed -/
theorem loopF_cases (cols : List (Key × List Val)) (u : St) (recs : List PrimRec) (p : Nat × Node) :
    (∃ e, loopF cols (u, recs, none) p = (u, recs, some e)) ∨
    (∃ row u' r, attrRow cols p.1 = some row ∧ u.pUpdAttrs p.2 row = .ok (u', r) ∧
      loopF cols (u, recs, none) p = (u', recs ++ [r], none)) := by
  unfold loopF
  simp only
  cases hrow : attrRow cols p.1 with
  | none => exact .inl ⟨.other, rfl⟩
  | some row =>
    cases hp : u.pUpdAttrs p.2 row with
    | error e => exact .inl ⟨e, by simp only [hp]⟩
    | ok v => exact .inr ⟨row, v.1, v.2, rfl, hp, by simp only [hp]⟩

/-- the generic invariant of the loop: whatever `P` every accepted `UpdateNodeAttrs` keeps (on rows
    satisfying `Q`), the state the loop stops in satisfies `P` and is reached from `s` by a lawful
    chain whose records are exactly the list `actions` — also when the loop was ended by an
    exception -/
theorem loop_fold (s : St) (cols : List (Key × List Val)) (P : St → Prop)
    (Q : Node → List (Key × Val) → Prop)
    (hstep : ∀ u u' n row r, P u → Q n row → u.pUpdAttrs n row = .ok (u', r) → Chain E u [r] u' ∧ P u') :
    ∀ (l : List (Nat × Node)) (u : St) (recs0 : List PrimRec), P u → Chain E s recs0 u →
    (∀ p ∈ l, ∀ row, attrRow cols p.1 = some row → Q p.2 row) →
      Chain E s (l.foldl (loopF cols) (u, recs0, none)).2.1 (l.foldl (loopF cols) (u, recs0, none)).1 ∧
      P (l.foldl (loopF cols) (u, recs0, none)).1
  | [], _, _, hP, hc, _ => ⟨hc, hP⟩
  | p :: l, u, recs0, hP, hc, hQ => by
    rw [foldl_cons]
    rcases loopF_cases cols u recs0 p with ⟨e, he⟩ | ⟨row, u', r, hrow, hp, he⟩
    · rw [he, loop_err]; exact ⟨hc, hP⟩
    · rw [he]
      obtain ⟨c1, p1⟩ := hstep u u' p.2 row r hP (hQ p (by simp) row hrow) hp
      exact loop_fold s cols P Q hstep l u' (recs0 ++ [r]) p1 (chain_append hc c1)
        (fun q hq => hQ q (by simp [hq]))

theorem opPre_updAttrs_congr {s u : St} (hc : u.cfg = s.cfg) (hs : u.seg = s.seg) {n : Node}
    {row : List (Key × Val)} (h : OpPre s (.updAttrs n row)) : OpPre u (.updAttrs n row) := by
  simp only [cfg, Prod.mk.injEq] at hc
  obtain ⟨-, -, -, -, h5, h6, -⟩ := hc
  intro kv hkv
  obtain ⟨a, b⟩ := h kv hkv
  exact ⟨fun hv => by rw [h6]; exact a hv, fun hn hp => b (by rw [← hs]; exact hn) (by rw [← h5]; exact hp)⟩

theorem uUpdateAttrs_of_prim {u u' : St} {n : Node} {row : List (Key × Val)} {r : PrimRec}
    (h : u.pUpdAttrs n row = .ok (u', r)) : u.uUpdateAttrs n row = (u', .ok [r]) := by
  unfold uUpdateAttrs
  rw [thenPrim_ok_acc (recs := []) rfl]
  simp only [h]; rfl

/-- one accepted `UpdateNodeAttrs` from an `Inv` state under `OpPre`: a lawful one-record chain,
    `Inv` again, registry / control fields / array untouched -/
theorem upd_one {u u' : St} {n : Node} {row : List (Key × Val)} {r : PrimRec} (hI : Inv u)
    (hpre : OpPre u (.updAttrs n row)) (h : u.pUpdAttrs n row = .ok (u', r)) :
    Chain E u [r] u' ∧ Inv u' ∧ u'.cfg = u.cfg ∧ u'.seg = u.seg := by
  have hU := uUpdateAttrs_of_prim h
  have hc : Chain E u [r] (u.uUpdateAttrs n row).1 :=
    (userOK_updAttrs hI hpre (recs := [r]) (by rw [hU])).chain
  rw [hU] at hc
  have hstep : u.step (.updAttrs n row) = (committed u' [r] none, .ok) := by
    simp only [step, hU, commit]; rfl
  obtain ⟨_, -, -, hi⟩ := (editStep paintLaw refusalHyps (op := .updAttrs n row) rfl hI hpre).1
    (by rw [hstep])
  rw [hstep] at hi
  exact ⟨hc, (inv_committed_iff u' [r] none).1 hi, cfg_pUpdAttrs h, (R2G.Fs.pUpdAttrs h).seg⟩

/-- one accepted `UpdateNodeAttrs` from a state with the graph invariants (`Valid`, `Good`,
    `EdgeInv`), ANY row: a lawful one-record chain, the graph invariants again -/
theorem upd_one3 {u u' : St} {n : Node} {row : List (Key × Val)} {r : PrimRec} (hI : R3B.Inv3 u)
    (h : u.pUpdAttrs n row = .ok (u', r)) : Chain E u [r] u' ∧ R3B.Inv3 u' := by
  have hU := uUpdateAttrs_of_prim h
  obtain ⟨hr, hi⟩ := R3B.uUpdateAttrs_run hI (n := n) (attrs := row) (recs := [r]) (by rw [hU])
  have hc := hr.chain (recs := [r]) (by rw [hU])
  rw [hU] at hc hi
  exact ⟨hc, hi⟩

/-- the loop from a state with the graph invariants, any nodes, any columns: the applied records are
    a lawful chain into the state the loop stops in -/
theorem updLoop_chain3 {s : St} (hI : R3B.Inv3 s) (ns : List Node) (cols : List (Key × List Val)) :
    Chain E s (s.updLoop ns cols).2.1 (s.updLoop ns cols).1 ∧ R3B.Inv3 (s.updLoop ns cols).1 := by
  rw [updLoop_eq]
  exact loop_fold s cols R3B.Inv3 (fun _ _ => True) (fun u u' n row r hP _ hp => upd_one3 hP hp)
    (indexed ns) s [] hI (chain_nil s) (fun _ _ _ _ => trivial)

/-- the loop from an `Inv` state whose rows satisfy the lifted `OpPre`: additionally `Inv` and an
    untouched registry / history / refresh log -/
theorem updLoop_inv {s : St} (hI : Inv s) {ns : List Node} {cols : List (Key × List Val)}
    (hpre : ∀ p ∈ indexed ns, ∀ row, attrRow cols p.1 = some row → OpPre s (.updAttrs p.2 row)) :
    Chain E s (s.updLoop ns cols).2.1 (s.updLoop ns cols).1 ∧ Inv (s.updLoop ns cols).1 ∧
    (s.updLoop ns cols).1.cfg = s.cfg := by
  rw [updLoop_eq]
  obtain ⟨c, i, f, -⟩ := loop_fold s cols (fun u => Inv u ∧ u.cfg = s.cfg ∧ u.seg = s.seg)
    (fun n row => OpPre s (.updAttrs n row))
    (fun u u' n row r hP hQ hp => by
      obtain ⟨c1, i1, f1, g1⟩ := upd_one hP.1 (opPre_updAttrs_congr hP.2.1 hP.2.2 hQ) hp
      exact ⟨c1, i1, f1.trans hP.2.1, g1.trans hP.2.2⟩)
    (indexed ns) s [] ⟨hI, rfl, rfl⟩ (chain_nil s) hpre
  exact ⟨c, i, f⟩

theorem ctl_updLoop (s : St) (ns : List Node) (cols : List (Key × List Val)) :
    (s.updLoop ns cols).1.ctl = s.ctl := by
  rw [updLoop_eq]
  have : ∀ (l : List (Nat × Node)) (acc : LoopAcc), (l.foldl (loopF cols) acc).1.ctl = acc.1.ctl := by
    intro l
    induction l with
    | nil => intro acc; rfl
    | cons p l ih =>
      intro acc
      rw [foldl_cons, ih]
      obtain ⟨u, recs, o⟩ := acc
      cases o with
      | some e => rfl
      | none =>
        rcases loopF_cases cols u recs p with ⟨e, he⟩ | ⟨row, u', r, -, hp, he⟩
        · rw [he]
        · rw [he]; exact ctl_pUpdAttrs hp
  exact this _ _

/-- the two outcomes of the repaired `_update_node_attrs` -/
theorem updRows_cases (s : St) (ns : List Node) (cols : List (Key × List Val)) :
    ((s.updLoop ns cols).2.2 = none ∧ s.updRows ns cols = ((s.updLoop ns cols).1, .ok (s.updLoop ns cols).2.1)) ∨
    (∃ e, (s.updLoop ns cols).2.2 = some e ∧
      s.updRows ns cols = ((s.updLoop ns cols).1.rollback (s.updLoop ns cols).2.1, .error e)) := by
  unfold updRows
  cases h : (s.updLoop ns cols).2.2 with
  | none => exact .inl ⟨rfl, by simp only [h]⟩
  | some e => exact .inr ⟨e, rfl, by simp only [h]⟩

theorem ctl_updRows (s : St) (ns : List Node) (cols : List (Key × List Val)) :
    (s.updRows ns cols).1.ctl = s.ctl := by
  rcases updRows_cases s ns cols with ⟨-, h⟩ | ⟨e, -, h⟩
  · rw [h]; exact ctl_updLoop s ns cols
  · rw [h]; exact (ctl_rollback _ _).trans (ctl_updLoop s ns cols)

/-- the precondition of `update_node_attrs(nodes, attributes)`: the lifted `OpPre` of every row -/
def AttrsPre (s : St) (ns : List Node) (cols : List (Key × List Val)) : Prop :=
  ∀ p ∈ indexed ns, ∀ row, attrRow cols p.1 = some row → OpPre s (.updAttrs p.2 row)

/-- an accepted `update_node_attrs`: ONE history entry, a lawful chain over all updated nodes -/
theorem updateNodeAttrs_ok {s : St} (hI : Inv s) {ns : List Node} {cols : List (Key × List Val)}
    (hpre : AttrsPre s ns cols) (hok : (s.ctlUpdateNodeAttrs ns cols).2 = .ok) :
    ∃ recs, (s.updRows ns cols).2 = .ok recs ∧
      (s.ctlUpdateNodeAttrs ns cols).1 = committed (s.updRows ns cols).1 recs none ∧
      (s.ctlUpdateNodeAttrs ns cols).1.hist = s.hist.add recs ∧
      Chain E s recs (s.ctlUpdateNodeAttrs ns cols).1 ∧ Inv (s.ctlUpdateNodeAttrs ns cols).1 := by
  unfold ctlUpdateNodeAttrs at hok ⊢
  obtain ⟨recs, h1, h2⟩ := commit_group _ _ hok
  obtain ⟨c, i, f⟩ := updLoop_inv hI hpre
  rcases updRows_cases s ns cols with ⟨-, hr⟩ | ⟨e, -, hr⟩
  · rw [hr] at h1
    simp only [Except.ok.injEq] at h1
    subst h1
    have hh : (s.updLoop ns cols).1.hist = s.hist := by
      simp only [cfg, Prod.mk.injEq] at f; exact f.1
    refine ⟨_, by rw [hr], h2, ?_, ?_, ?_⟩
    · rw [h2, hr]; show (s.updLoop ns cols).1.hist.add _ = _; rw [hh]
    · rw [h2, hr]; exact chain_congr c (E_isEquiv.refl s) (E_isEquiv.symm (E_committed _ _ _))
    · rw [h2, hr]; exact (inv_committed_iff _ _ _).2 i
  · rw [hr] at h1; cases h1

/-- **a refused `update_node_attrs` (repaired code)**: from a state with the graph invariants, for
    any nodes and columns, the state returned with the exception is in the `E`-class of the input —
    the applied updates were rolled back —, and the history / refresh log are untouched -/
theorem updateNodeAttrs_refused {s : St} (hI : R3B.Inv3 s) {ns : List Node} {cols : List (Key × List Val)}
    {e : Err} (herr : (s.ctlUpdateNodeAttrs ns cols).2 = .err e) :
    E (s.ctlUpdateNodeAttrs ns cols).1 s ∧ (s.ctlUpdateNodeAttrs ns cols).1.ctl = s.ctl := by
  unfold ctlUpdateNodeAttrs at herr ⊢
  rcases commit_cases (s.updRows ns cols) none with ⟨recs, _, h2⟩ | ⟨e', h1, h2⟩
  · rw [h2] at herr; cases herr
  · rw [h2]
    refine ⟨?_, ctl_updRows s ns cols⟩
    rcases updRows_cases s ns cols with ⟨-, hr⟩ | ⟨x, -, hr⟩
    · rw [hr] at h1; cases h1
    · rw [hr]
      obtain ⟨c, -⟩ := updLoop_chain3 hI ns cols
      obtain ⟨s₂, recs', g1, g2, -⟩ := chain_undo_redo c (E_isEquiv.refl _)
      show E ((s.updLoop ns cols).1.rollback (s.updLoop ns cols).2.1) s
      unfold rollback
      rw [g1]; exact g2

/-! ## §5 the controller session -/

/-- the whole-history invariant: the session refines the never-forgetting timeline `t`, the current
    state and every state on the timeline satisfy the bundle invariant -/
structure CInv (s : St) (t : Timeline St) : Prop where
  ref : Hist.Refines RecE E (s.hist, s) t
  inv : Inv s
  all : ∀ x ∈ t.states, Inv x

theorem CInv.init (s0 : St) (h0 : s0.hist = {}) (hI : Inv s0) : CInv s0 ⟨[s0], 0⟩ :=
  ⟨refines_init s0 h0, hI, fun x hx => by rw [List.mem_singleton.1 hx]; exact hI⟩

/-- an admissible list of session operations keeps `CInv` -/
theorem CInv.run {s : St} {t : Timeline St} (h : CInv s t) (ops : List Op) (hs : SessOK s ops) :
    CInv (sessFinal s t ops).1 (sessFinal s t ops).2 := by
  obtain ⟨v, i, a⟩ := sess_run_inv paintLaw refusalHyps ops h.ref h.inv h.all hs
  exact ⟨(sess_run obligation_E ops h.ref v).1, i, a⟩

/-- the argument precondition of a controller call: the lifted `OpOK` of every element that is
    reached (`ElemsPre`), for `update_node_attrs` the lifted `OpPre` of every row and "accepted or at
    most one element" (`AttrsPre`) -/
def CtlPre (s : St) : CtlOp → Prop
  | .updateNodeAttrs ns cols => AttrsPre s ns cols
  | c => ElemsPre (finalSt s (ctlPrefix s c)) (ctlElems s c)

/-- what a controller call does to the timeline -/
def ctlAbs (t : Timeline St) (s : St) : CtlOp → Timeline St
  | .updateNodeAttrs ns cols =>
    if (s.ctlStep (.updateNodeAttrs ns cols)).2 = .ok then t.edit (s.ctlStep (.updateNodeAttrs ns cols)).1 else t
  | c => (sessFinal s t (ctlExpand s c)).2

theorem ctlPre_of_not {s : St} {c : CtlOp} (hc : ¬ IsUpdAttrs c) :
    CtlPre s c = ElemsPre (finalSt s (ctlPrefix s c)) (ctlElems s c) := by
  cases c <;> first | rfl | exact absurd trivial hc

theorem ctlAbs_of_not {s : St} {t : Timeline St} {c : CtlOp} (hc : ¬ IsUpdAttrs c) :
    ctlAbs t s c = (sessFinal s t (ctlExpand s c)).2 := by
  cases c <;> first | rfl | exact absurd trivial hc

theorem sessOK_prefix (s : St) (c : CtlOp) : SessOK s (ctlPrefix s c) := by
  cases c with
  | addNodes a =>
    simp only [ctlPrefix]
    split
    · exact ⟨.inr (.inr (.inl trivial)), trivial⟩
    · trivial
  | _ => trivial

theorem sessOK_expand {s : St} {c : CtlOp} (h : ElemsPre (finalSt s (ctlPrefix s c)) (ctlElems s c)) :
    SessOK s (ctlExpand s c) :=
  sessOK_append' _ _ s (sessOK_prefix s c) (sessOK_executed _ _ h)

/-- **one controller call keeps the whole-history invariant** -/
theorem ctl_step_inv {s : St} {t : Timeline St} (h : CInv s t) (c : CtlOp) (hpre : CtlPre s c) :
    CInv (s.ctlStep c).1 (ctlAbs t s c) := by
  by_cases hc : IsUpdAttrs c
  · cases c with
    | updateNodeAttrs ns cols =>
      have hrows : AttrsPre s ns cols := hpre
      simp only [ctlAbs]
      rcases commit_cases (s.updRows ns cols) none with ⟨recs, h1, h2⟩ | ⟨e, h1, h2⟩
      · have hok : (s.ctlUpdateNodeAttrs ns cols).2 = .ok := by unfold ctlUpdateNodeAttrs; rw [h2]
        obtain ⟨recs', -, -, hh, hch, hi⟩ := updateNodeAttrs_ok h.inv hrows hok
        have hok' : (s.ctlStep (.updateNodeAttrs ns cols)).2 = .ok := hok
        rw [if_pos hok']
        show CInv (s.ctlUpdateNodeAttrs ns cols).1 (t.edit (s.ctlUpdateNodeAttrs ns cols).1)
        have hr := (h.ref.step obligation_E.laws (.edit recs' (s.ctlUpdateNodeAttrs ns cols).1) hch).1
        simp only [Hist.stepC, Hist.stepA] at hr
        rw [← hh] at hr
        refine ⟨hr, hi, fun x hx => ?_⟩
        rcases mem_edit_states _ _ _ hx with hx | hx
        · exact h.all x hx
        · rw [hx]; exact hi
      · have herr : (s.ctlUpdateNodeAttrs ns cols).2 = .err e := by unfold ctlUpdateNodeAttrs; rw [h2]
        have hne : ¬ (s.ctlStep (.updateNodeAttrs ns cols)).2 = .ok := by
          show ¬ (s.ctlUpdateNodeAttrs ns cols).2 = .ok
          rw [herr]; exact fun h => by cases h
        rw [if_neg hne]
        show CInv (s.ctlUpdateNodeAttrs ns cols).1 t
        obtain ⟨hE, hctl⟩ := updateNodeAttrs_refused ⟨h.inv.valid, h.inv.good, h.inv.edge⟩ herr
        refine ⟨?_, Inv.of_E hE h.inv, h.all⟩
        rw [hist_of_ctl hctl]
        exact Hist.Refines.congr_state obligation_E.laws h.ref hE
    | _ => exact absurd hc (fun h => h)
  · rw [ctlPre_of_not hc] at hpre
    rw [ctlStep_expand s c hc, ctlAbs_of_not hc, ← sessFinal_fst _ s t]
    exact h.run _ (sessOK_expand hpre)

/-- a controller session -/
def ctlFinal : St → Timeline St → List CtlOp → St × Timeline St
  | s, t, [] => (s, t)
  | s, t, c :: cs => ctlFinal (s.ctlStep c).1 (ctlAbs t s c) cs

/-- an admissible controller session: every call satisfies `CtlPre` at the state where it is made -/
def CtlSessOK : St → List CtlOp → Prop
  | _, [] => True
  | s, c :: cs => CtlPre s c ∧ CtlSessOK (s.ctlStep c).1 cs

theorem ctl_run_inv : ∀ (cs : List CtlOp) {s : St} {t : Timeline St}, CInv s t → CtlSessOK s cs →
    CInv (ctlFinal s t cs).1 (ctlFinal s t cs).2
  | [], _, _, h, _ => h
  | c :: cs, _, _, h, hs => ctl_run_inv cs (ctl_step_inv h c hs.1) hs.2

theorem ctlSessOK_append : ∀ (a b : List CtlOp) (s : St), CtlSessOK s (a ++ b) → CtlSessOK s a
  | [], _, _, _ => trivial
  | _ :: a, b, _, h => ⟨h.1, ctlSessOK_append a b _ h.2⟩

/-! ## §6 history entries and refreshes of one call -/

/-- the number of elements of a call (`update_node_attrs`, `swap_predecessors`,
    `update_segmentations`: one action) -/
def ctlCount : CtlOp → Nat
  | .addNodes a =>
    match a.pixels with
    | some _ => (a.cols.nodeId.getD []).length
    | none => (a.cols.time.getD []).length
  | .deleteNodes ns => ns.length
  | .addEdges es _ => es.length
  | .deleteEdges es => es.length
  | .swapPredecessors _ _ => 1
  | .updateNodeAttrs _ _ => 1
  | .updateSegmentations _ _ _ _ => 1
  | _ => 0

theorem indexed_length {α : Type} (l : List α) : (indexed l).length = l.length := by
  simp [indexed]

theorem addElems_length (a : AddNodesArgs) (ids : List Node) : (addElems a ids).length = ids.length := by
  simp [addElems, indexed_length]

theorem addElems_edit (a : AddNodesArgs) (ids : List Node) (op : Op) (h : some op ∈ addElems a ids) :
    op.isTopEdit = true := by
  obtain ⟨p, -, hp⟩ := List.mem_map.1 h
  unfold rowOp at hp
  split at hp
  · cases hp; rfl
  · cases hp

theorem newNodeIds_fold_length (s : St) (fuel : Nat) : ∀ (l : List Node) (acc : List Node × Nat),
    (l.foldl (fun (acc : List Node × Nat) id =>
      ((acc.1 ++ [(freshFrom s fuel id acc.2).1], (freshFrom s fuel id acc.2).2) : List Node × Nat)) acc).1.length
      = acc.1.length + l.length
  | [], _ => rfl
  | x :: l, acc => by
    rw [foldl_cons, newNodeIds_fold_length s fuel l]
    simp only [length_append, length_cons, length_nil]; omega

theorem newNodeIds_length (s : St) (n : Nat) : (s.newNodeIds n).2.length = n := by
  have h := newNodeIds_fold_length s (s.nodes.length + 1) ((List.range n).map (fun i => s.counter + i))
    ([], s.counter + n)
  simp only [length_nil, length_map, length_range, Nat.zero_add] at h
  exact h

/-- the statement of `C02_controller_steps` for the calls that are not undo / redo / is_valid -/
def StepsSpec (s : St) (c : CtlOp) : Prop :=
  ((s.ctlStep c).2 = .ok →
      Added s (s.ctlStep c).1 (if (s.ctlSilent c).isSome then 0 else ctlCount c)) ∧
  (∀ e, (s.ctlStep c).2 = .err e → ∃ k, (k < ctlCount c ∨ k = 0) ∧ Added s (s.ctlStep c).1 k)

theorem steps_of_runOps {s s1 : St} {l : List (Option Op)} {n : Nat} (hc : s1.ctl = s.ctl)
    (hl : l.length = n) (hall : ∀ op, some op ∈ l → op.isTopEdit = true) :
    ((runOps s1 l).2 = .ok → Added s (runOps s1 l).1 n) ∧
    (∀ e, (runOps s1 l).2 = .err e → ∃ k, (k < n ∨ k = 0) ∧ Added s (runOps s1 l).1 k) := by
  obtain ⟨h1, h2⟩ := runOps_added l s1 hall
  rw [hl] at h1 h2
  refine ⟨fun h => (h1 h).congr_left hc, fun e h => ?_⟩
  obtain ⟨k, hk, ha⟩ := h2 e h
  exact ⟨k, .inl hk, ha.congr_left hc⟩

theorem steps_addNodes (s : St) (a : AddNodesArgs) : StepsSpec s (.addNodes a) := by
  unfold StepsSpec
  simp only [ctlStep, ctlSilent, Option.isSome_none, Bool.false_eq_true, if_false, ctlCount, ctlAddNodes]
  cases ht : a.cols.time with
  | none =>
    simp only
    exact ⟨fun h => (by cases h), fun e _ => ⟨0, .inr rfl, Added.refl s⟩⟩
  | some times =>
    cases hp : a.pixels with
    | some px =>
      cases hn : a.cols.nodeId with
      | none =>
        simp only
        exact ⟨fun h => (by cases h), fun e _ => ⟨0, .inr rfl, Added.refl s⟩⟩
      | some ids =>
        simp only [Option.getD_some]
        exact steps_of_runOps rfl (addElems_length a ids) (addElems_edit a ids)
    | none =>
      simp only [Option.getD_some]
      exact steps_of_runOps (ctl_newNodeIds s _)
        ((addElems_length a _).trans (newNodeIds_length s _)) (addElems_edit a _)

theorem map_edit {α : Type} (f : α → Op) (hf : ∀ x, (f x).isTopEdit = true) (l : List α) (op : Op)
    (h : some op ∈ l.map (fun x => some (f x))) : op.isTopEdit = true := by
  obtain ⟨x, -, hx⟩ := List.mem_map.1 h
  cases hx; exact hf x

theorem steps_deleteNodes (s : St) (ns : List Node) : StepsSpec s (.deleteNodes ns) := by
  unfold StepsSpec
  simp only [ctlStep, ctlSilent, Option.isSome_none, Bool.false_eq_true, if_false, ctlCount, ctlDeleteNodes]
  exact steps_of_runOps rfl (by simp) (map_edit (fun n => Op.delNode n) (fun _ => rfl) ns)

theorem steps_addEdges (s : St) (es : List Edge) (f : Bool) : StepsSpec s (.addEdges es f) := by
  unfold StepsSpec
  cases hk : s.checkEdges es with
  | error x =>
    simp only [ctlStep, ctlSilent, ctlCount, ctlAddEdges, hk]
    exact ⟨fun h => (by cases h), fun e _ => ⟨0, .inr rfl, Added.refl s⟩⟩
  | ok r =>
    cases r with
    | some r =>
      simp only [ctlStep, ctlSilent, ctlCount, ctlAddEdges, hk, Option.isSome_some, if_true]
      exact ⟨fun _ => Added.refl s, fun e h => (by cases h)⟩
    | none =>
      simp only [ctlStep, ctlSilent, ctlCount, ctlAddEdges, hk, Option.isSome_none, Bool.false_eq_true, if_false]
      exact steps_of_runOps rfl (by simp) (map_edit (fun e => Op.addEdge e f) (fun _ => rfl) es)

theorem steps_deleteEdges (s : St) (es : List Edge) : StepsSpec s (.deleteEdges es) := by
  unfold StepsSpec
  simp only [ctlStep, ctlSilent, ctlCount, ctlDeleteEdges]
  by_cases hall : es.all (fun e => s.hasEdge e) = true
  · simp only [hall, if_true, Option.isSome_none, Bool.false_eq_true, if_false]
    exact steps_of_runOps rfl (by simp) (map_edit (fun e => Op.delEdge e) (fun _ => rfl) es)
  · simp only [hall]
    exact ⟨fun _ => Added.refl s, fun e h => (by cases h)⟩

theorem steps_swap (s : St) (a b : Node) : StepsSpec s (.swapPredecessors a b) := by
  unfold StepsSpec
  obtain ⟨h1, h2⟩ := added_step s (.swap a b) rfl
  rcases hs : s.step (.swap a b) with ⟨s', o⟩
  rw [hs] at h1 h2
  simp only at h1 h2
  cases o with
  | ok =>
    simp only [ctlStep, ctlSilent, ctlCount, ctlSwap, hs, Option.isSome_none, Bool.false_eq_true, if_false]
    exact ⟨fun _ => h1 rfl, fun e h => (by cases h)⟩
  | bool v =>
    simp only [ctlStep, ctlSilent, ctlCount, ctlSwap, hs]
    exact ⟨fun h => (by cases h), fun e h => (by cases h)⟩
  | nodes l =>
    simp only [ctlStep, ctlSilent, ctlCount, ctlSwap, hs]
    exact ⟨fun h => (by cases h), fun e h => (by cases h)⟩
  | err x =>
    cases x with
    | invalid =>
      simp only [ctlStep, ctlSilent, ctlCount, ctlSwap, hs, Option.isSome_some, if_true]
      exact ⟨fun _ => h2 _ rfl, fun e h => (by cases h)⟩
    | forceable =>
      simp only [ctlStep, ctlSilent, ctlCount, ctlSwap, hs, Option.isSome_some, if_true]
      exact ⟨fun _ => h2 _ rfl, fun e h => (by cases h)⟩
    | value =>
      simp only [ctlStep, ctlSilent, ctlCount, ctlSwap, hs]
      exact ⟨fun h => (by cases h), fun e _ => ⟨0, .inr rfl, h2 _ rfl⟩⟩
    | key =>
      simp only [ctlStep, ctlSilent, ctlCount, ctlSwap, hs]
      exact ⟨fun h => (by cases h), fun e _ => ⟨0, .inr rfl, h2 _ rfl⟩⟩
    | other =>
      simp only [ctlStep, ctlSilent, ctlCount, ctlSwap, hs]
      exact ⟨fun h => (by cases h), fun e _ => ⟨0, .inr rfl, h2 _ rfl⟩⟩

theorem steps_updateNodeAttrs (s : St) (ns : List Node) (cols : List (Key × List Val)) :
    StepsSpec s (.updateNodeAttrs ns cols) := by
  unfold StepsSpec
  simp only [ctlStep, ctlSilent, Option.isSome_none, Bool.false_eq_true, if_false, ctlCount, ctlUpdateNodeAttrs]
  have hc := ctl_updRows s ns cols
  rcases commit_cases (s.updRows ns cols) none with ⟨recs, -, h2⟩ | ⟨e, -, h2⟩
  · rw [h2]
    refine ⟨fun _ => ⟨[recs], rfl, ?_, ?_⟩, fun e h => (by cases h)⟩
    · show (s.updRows ns cols).1.hist.add recs = _
      rw [hist_of_ctl hc]; rfl
    · show (s.updRows ns cols).1.refreshes + 1 = _
      rw [refreshes_of_ctl hc]
  · rw [h2]
    exact ⟨fun h => (by cases h), fun e _ => ⟨0, .inr rfl, Added.of_ctl hc⟩⟩

theorem steps_updateSeg (s : St) (v : Nat) (groups : List (List Pix × Nat)) (tid : Nat) (f : Bool) :
    StepsSpec s (.updateSegmentations v groups tid f) := by
  unfold StepsSpec
  simp only [ctlStep, ctlSilent, Option.isSome_none, Bool.false_eq_true, if_false, ctlCount]
  obtain ⟨h1, h2⟩ := added_step s (.paint v groups tid f) rfl
  exact ⟨h1, fun e h => ⟨0, .inr rfl, h2 e h⟩⟩

/-- a silently refused `add_edges` / `delete_edges` returns the state it was given -/
theorem silent_edges_state (s : St) :
    (∀ es f r, s.ctlSilent (.addEdges es f) = some r → s.ctlStep (.addEdges es f) = (s, .ok)) ∧
    (∀ es r, s.ctlSilent (.deleteEdges es) = some r → s.ctlStep (.deleteEdges es) = (s, .ok)) := by
  refine ⟨fun es f r h => ?_, fun es r h => ?_⟩
  · simp only [ctlSilent, ctlStep, ctlAddEdges] at h ⊢
    cases hk : s.checkEdges es with
    | error x => rw [hk] at h; cases h
    | ok q =>
      cases q with
      | none => rw [hk] at h; cases h
      | some q => rfl
  · simp only [ctlSilent, ctlStep, ctlDeleteEdges] at h ⊢
    by_cases hall : es.all (fun e => s.hasEdge e) = true
    · rw [if_pos hall] at h; cases h
    · rw [if_neg hall]

/-! ## §7 `is_valid` against `UserAddEdge` -/

theorem timeOf_mem {s : St} {n : Node} {t : Nat} (h : s.timeOf n = some t) : n ∈ s.ids := by
  rw [tk_mem_ids_iff]
  unfold timeOf at h
  cases hf : s.findNode n with
  | none => rw [hf] at h; cases h
  | some r => exact ⟨r, rfl⟩

/-- what `is_valid` has checked for a pair that is already forward in time -/
theorem isValid_forward {s : St} {e : Edge} {ta tb : Nat} (h1 : s.timeOf e.1 = some ta)
    (h2 : s.timeOf e.2 = some tb) (hlt : ta < tb) (hv : s.isValid e = .ok none) :
    s.hasEdge e = false ∧ s.outdeg e.1 ≤ 1 := by
  unfold isValid at hv
  simp only [h1, h2] at hv
  have hgt : ¬ ta > tb := by omega
  simp only [hgt, if_false] at hv
  by_cases he : s.hasEdge e = true
  · rw [if_pos he] at hv; cases hv
  · rw [if_neg he] at hv
    have hne : ¬ (ta == tb) = true := by simp; omega
    rw [if_neg hne] at hv
    by_cases ho : s.outdeg e.1 > 1
    · rw [if_pos ho] at hv; cases hv
    · exact ⟨by simpa using he, by omega⟩

theorem uAddEdge_force_irrelevant {s : St} {e : Edge} (h : s.indeg e.2 = 0) (f : Bool) :
    s.uAddEdge e f = s.uAddEdge e false := by
  rw [tk_uAddEdge_eq, tk_uAddEdge_eq]
  have hin : ¬ s.indeg e.2 > 0 := by omega
  have : ∀ g, tk_addHead s e g = (s, .ok []) := fun g => by unfold tk_addHead; simp only [hin, if_false]
  rw [this f, this false]


/-- the general acceptance of `UserAddEdge` from a state with the invariants: both nodes exist, the
    pair is forward in time, the source has at most one child, and a parent of the target may be
    removed (`force`) or there is none -/
theorem uAddEdge_accepts_gen {s : St} (hI : R3B.Inv3 s) {e : Edge} {f : Bool} (hu : e.1 ∈ s.ids)
    (hv : e.2 ∈ s.ids) (ht : s.tk_tm e.1 < s.tk_tm e.2) (hout : s.outdeg e.1 ≤ 1)
    (hf : f = true ∨ s.indeg e.2 = 0) : ∃ recs, (s.uAddEdge e f).2 = .ok recs := by
  by_cases hin : s.indeg e.2 = 0
  · obtain ⟨recs, hok⟩ := uAddEdge_accepts hI (u := e.1) (w := e.2) hu hv ht (tk_preds_nil_iff.1 hin) hout
    exact ⟨recs, by rw [uAddEdge_force_irrelevant hin f]; exact hok⟩
  · have hft : f = true := by
      rcases hf with h | h
      · exact h
      · exact absurd h hin
    subst hft
    have hpos : s.indeg e.2 > 0 := by omega
    rw [tk_uAddEdge_eq]
    have h1 := tk_hasNode_iff.2 hu
    have h2 := tk_hasNode_iff.2 hv
    have h3 : ¬ (s.timeOf e.1).getD 0 ≥ (s.timeOf e.2).getD 0 := by unfold tk_tm at ht; omega
    simp only [h1, h2, h3, Bool.not_true, Bool.false_eq_true, if_false]
    cases hpr : s.preds e.2 with
    | nil => unfold St.indeg at hpos; rw [hpr] at hpos; cases hpos
    | cons p l =>
      have hp : (p, e.2) ∈ s.edgeList := tk_mem_preds.1 (hpr ▸ List.mem_cons_self)
      obtain ⟨recs', hdel, -, G⟩ := del_step hI hp
      have hhead : tk_addHead s e true = ((s.uDeleteEdge (p, e.2)).1, .ok ([] ++ recs')) := by
        unfold tk_addHead
        simp only [hpos, if_true, Bool.not_true, Bool.false_eq_true, if_false, hpr, List.head?_cons]
        exact thenUser_step hdel rfl
      have h0 : (tk_addHead s e true).2 = .ok ([] ++ recs') := by rw [hhead]
      obtain ⟨hr, hI0, hids, htime, hroot⟩ := R3B.addHead_run hI h0
      rcases R3B.addTail_total hr hI0 (by rw [hids]; exact hu) (by rw [hids]; exact hv)
          (by rw [tk_tm_congr htime, tk_tm_congr htime]; exact ht) hroot with
        ⟨⟨recs, hok, _⟩, _⟩ | ⟨r0', _, h2', _⟩
      · exact ⟨recs, hok⟩
      · exfalso
        rw [hhead] at h2'
        simp only at h2'
        by_cases hq : e.1 = p
        · have h5 : (s.uDeleteEdge (p, e.2)).1.outdeg p + 1 = s.outdeg p := G.out_src
          have h6 : s.outdeg p ≤ 1 := hq ▸ hout
          have h7 : 2 ≤ (s.uDeleteEdge (p, e.2)).1.outdeg p := hq ▸ h2'
          omega
        · have h5 : (s.uDeleteEdge (p, e.2)).1.outdeg e.1 = s.outdeg e.1 := G.out_ne e.1 hq
          omega

/-- an edge that `is_valid` accepts and that is forward in time as given is accepted by
    `UserAddEdge` with `force`, and without `force` when its target has no parent -/
theorem isValid_accepts {s : St} (hI : Inv s) {e : Edge} {ta tb : Nat} (h1 : s.timeOf e.1 = some ta)
    (h2 : s.timeOf e.2 = some tb) (hlt : ta < tb) (hv : s.isValid e = .ok none) (f : Bool)
    (hf : f = true ∨ s.indeg e.2 = 0) : (s.step (.addEdge e f)).2 = .ok := by
  obtain ⟨-, hout⟩ := isValid_forward h1 h2 hlt hv
  have hI3 : R3B.Inv3 s := ⟨hI.valid, hI.good, hI.edge⟩
  have ht : s.tk_tm e.1 < s.tk_tm e.2 := by unfold tk_tm; rw [h1, h2]; exact hlt
  obtain ⟨recs, hok⟩ := uAddEdge_accepts_gen hI3 (timeOf_mem h1) (timeOf_mem h2) ht hout hf
  simp only [step, commit, hok]

theorem pAddEdge_mem {s s' : St} {e : Edge} {attrs : List (Key × Val)} {r : PrimRec}
    (h : s.pAddEdge e attrs = .ok (s', r)) : e ∈ s'.edgeList := by
  unfold pAddEdge at h
  split at h
  · cases h
  · simp only [Except.ok.injEq, Prod.mk.injEq] at h
    rw [← h.1, (tk_iouUpdateEdge_spec _ e).2.1]
    by_cases hE : s.hasEdge e = true
    · rw [if_pos hE]
      have : e ∈ s.edgeList := tk_hasEdge_iff.1 hE
      unfold edgeList at this ⊢
      simp only [List.map_map]
      obtain ⟨x, hx, hxe⟩ := List.mem_map.1 this
      refine List.mem_map.2 ⟨x, hx, ?_⟩
      simp only [Function.comp]
      split <;> exact hxe
    · rw [if_neg hE]
      unfold edgeList
      simp

/-- an accepted `UserAddEdge` (forced or not) has added the edge -/
theorem uAddEdge_ok_mem {s : St} {e : Edge} {f : Bool} {recs : List PrimRec}
    (hok : (s.uAddEdge e f).2 = .ok recs) : e ∈ (s.uAddEdge e f).1.edgeList := by
  obtain ⟨-, -, -, a0, h1, h2, -⟩ := R2B.uAddEdge_split hok
  rw [h2]
  unfold tk_addTail at h1 ⊢
  split at h1
  · cases h1
  · rename_i recs0 h0
    simp only at h1 ⊢
    obtain ⟨r0, s', r, -, hf, hs, -⟩ := thenPrim_ok h1
    rw [hs]
    exact pAddEdge_mem hf

/-! ## §8 calls without argument preconditions; the protected-key case of `update_node_attrs` -/

/-- session operations that are admissible in every state (their `OpPre` is `True`) -/
def FreeOp : Op → Prop
  | .addEdge _ _ | .delEdge _ | .delNode _ | .swap _ _ | .undo | .redo => True
  | _ => False

theorem opOK_free {s : St} {op : Op} (h : FreeOp op) : OpOK s op := by
  cases op <;> first
    | exact .inl rfl
    | exact .inr (.inl rfl)
    | exact .inr (.inr (.inr ⟨rfl, trivial⟩))
    | exact False.elim h

theorem elemsPre_free : ∀ (l : List (Option Op)) (s : St), (∀ op, some op ∈ l → FreeOp op) → ElemsPre s l
  | [], _, _ => trivial
  | none :: _, _, _ => trivial
  | some op :: ops, s, h =>
    ⟨opOK_free (h op (by simp)), fun _ => elemsPre_free ops _ (fun o ho => h o (by simp [ho]))⟩

/-- the controller calls whose arguments need no precondition -/
def FreeCall : CtlOp → Prop
  | .deleteNodes _ | .addEdges _ _ | .deleteEdges _ | .swapPredecessors _ _ | .undo | .redo
  | .isValid _ => True
  | _ => False

theorem map_free {α : Type} (f : α → Op) (hf : ∀ x, FreeOp (f x)) (l : List α) (op : Op)
    (h : some op ∈ l.map (fun x => some (f x))) : FreeOp op := by
  obtain ⟨x, -, hx⟩ := List.mem_map.1 h
  cases hx; exact hf x

/-- `delete_nodes`, `add_edges`, `delete_edges`, `swap_predecessors`, `undo`, `redo`, `is_valid`
    satisfy `CtlPre` in every state, whatever their arguments -/
theorem ctlPre_free (s : St) {c : CtlOp} (h : FreeCall c) : CtlPre s c := by
  cases c with
  | deleteNodes ns => exact elemsPre_free _ _ (map_free (fun n => Op.delNode n) (fun _ => trivial) ns)
  | addEdges es f =>
    show ElemsPre _ (ctlElems s (.addEdges es f))
    simp only [ctlElems]
    split
    · exact elemsPre_free _ _ (map_free (fun e => Op.addEdge e f) (fun _ => trivial) es)
    · trivial
  | deleteEdges es =>
    show ElemsPre _ (ctlElems s (.deleteEdges es))
    simp only [ctlElems]
    split
    · exact elemsPre_free _ _ (map_free (fun e => Op.delEdge e) (fun _ => trivial) es)
    · trivial
  | swapPredecessors a b => exact ⟨opOK_free trivial, fun _ => trivial⟩
  | undo => exact ⟨opOK_free trivial, fun _ => trivial⟩
  | redo => exact ⟨opOK_free trivial, fun _ => trivial⟩
  | isValid e => trivial
  | addNodes a => exact False.elim h
  | updateNodeAttrs ns cols => exact False.elim h
  | updateSegmentations v g t f => exact False.elim h

theorem indexed_cons {α : Type} (x : α) (l : List α) : ∃ tl, indexed (x :: l) = (0, x) :: tl := by
  refine ⟨List.zip ((List.range l.length).map Nat.succ) l, ?_⟩
  simp [indexed, List.range_succ_eq_map]

/-- through the columnar API a protected key is met at the FIRST node: `update_node_attrs` with a
    protected column (and at least one node) raises with nothing applied (and nothing to roll back) -/
theorem updateNodeAttrs_protected (s : St) (n : Node) (ns : List Node) (cols : List (Key × List Val))
    (hp : ∃ kv ∈ cols, kv.1 ∈ s.protectedKeys) :
    ∃ e, s.ctlStep (.updateNodeAttrs (n :: ns) cols) = (s, .err e) := by
  obtain ⟨tl, htl⟩ := indexed_cons n ns
  have hfirst : ∃ e, loopF cols (s, [], none) (0, n) = (s, [], some e) := by
    rcases loopF_cases cols s [] (0, n) with h | ⟨row, u', r, hrow, hpu, -⟩
    · exact h
    · exfalso
      have hany : row.any (fun kv => s.protectedKeys.contains kv.1) = true := by
        unfold attrRow at hrow
        split at hrow
        · cases hrow
          obtain ⟨kv, hkv, hk⟩ := hp
          rw [List.any_eq_true]
          exact ⟨(kv.1, kv.2.getD 0 Val.none), List.mem_map.2 ⟨kv, hkv, rfl⟩, by simpa using hk⟩
        · cases hrow
      simp only [pUpdAttrs, hany, if_true] at hpu
      cases hpu
  obtain ⟨e, he⟩ := hfirst
  refine ⟨e, ?_⟩
  have hl : s.updLoop (n :: ns) cols = (s, [], some e) := by
    rw [updLoop_eq, htl, foldl_cons, he, loop_err]
  show commit (s.updRows (n :: ns) cols) none = _
  unfold updRows
  rw [hl]
  rfl

end Ft.R7T
