import FtProofs.TrackLemmas
namespace Ft
namespace St

/-! ### lineage: invariant bundle and the effect of `uDeleteEdge` -/

/-- what the C05 step theorems assume and re-establish -/
structure LinInv (s : St) : Prop where
  forest : s.Forest
  linOK : s.LinOK
  on : s.linOn = true
  max : ∀ n l, s.linOf n = some l → l ≤ s.maxLin

/-- abstract effect of an accepted `uDeleteEdge s e` on graph and lineages -/
structure DelEff (s : St) (e : Edge) (s' : St) : Prop where
  mem : e ∈ s.edgeList
  sameG : SameG (s.delE e) s'
  on : s'.linOn = s.linOn
  lin_in : ∀ n, s.Anc e.2 n → s'.linOf n = some (s.maxLin + 1)
  lin_out : ∀ n, ¬ s.Anc e.2 n → s'.linOf n = s.linOf n
  maxLin : s'.maxLin = s.maxLin + 1

theorem anc_delE {s : St} (hF : s.Forest) {e : Edge} (he : e ∈ s.edgeList) {n : Node} :
    (s.delE e).Anc e.2 n ↔ s.Anc e.2 n := by
  constructor
  · exact Anc.mono (fun x hx => (mem_delE.1 hx).1)
  · intro h
    induction h with
    | refl => exact Anc.refl _
    | step p c hp hpc ih =>
      refine Anc.step _ p c ih (mem_delE.2 ⟨hpc, ?_⟩)
      intro heq
      subst heq
      have h1 := hp.tm_le hF
      have h2 := hF.tm_lt hpc
      simp only at h1 h2
      omega

theorem delE_maxLin (s : St) (e) : (s.delE e).maxLin = s.maxLin := rfl
theorem delE_linOn (s : St) (e) : (s.delE e).linOn = s.linOn := rfl
theorem delE_maxTid (s : St) (e) : (s.delE e).maxTid = s.maxTid := rfl

theorem findNode_mem {s : St} {n : Node} {r} (h : s.findNode n = some r) : n ∈ s.ids :=
  mem_ids_iff.2 ⟨r, h⟩

theorem uDeleteEdge_eff {s : St} (hI : s.LinInv) {e : Edge} {recs}
    (hok : (s.uDeleteEdge e).2 = .ok recs) : DelEff s e (s.uDeleteEdge e).1 := by
  have hmem : e ∈ s.edgeList := hasEdge_iff.1 (uDeleteEdge_hasEdge hok)
  have hF1 : (s.delE e).Forest := hI.forest.delE e
  have hon1 : (s.delE e).linOn = true := hI.on
  rcases uDeleteEdge_shape hok with ⟨r, _, hr, hs'⟩ | ⟨sib, t, rs, t2, r2, _, _, _, hrs, _, hr2, hs'⟩
  · rw [hs']
    have hw := walk_lin hF1 (findNode_mem hr) hon1 r.tid (s.delE e).nextTid r.lin (s.delE e).nextLin
    refine ⟨hmem, walk_sameG _ _ _ _ _ _, by rw [walk_linOn]; rfl, ?_, ?_, ?_⟩
    · intro n hn; exact hw.1 n ((anc_delE hI.forest hmem).2 hn)
    · intro n hn; exact hw.2.1 n (fun h => hn ((anc_delE hI.forest hmem).1 h))
    · rw [hw.2.2]; unfold nextLin; rw [delE_maxLin]; simp
  · rw [hs']
    have hG2 := walk_sameG (s.delE e) sib rs.tid t rs.lin none
    have hn2 := walk_nolin (s.delE e) sib rs.tid t rs.lin
    have hF2 := hG2.forest hF1
    have hon2 : ((s.delE e).walk sib rs.tid t rs.lin none).linOn = true := by
      rw [walk_linOn]; exact hon1
    have hw := walk_lin hF2 (findNode_mem hr2) hon2 r2.tid t2 r2.lin
      ((s.delE e).walk sib rs.tid t rs.lin none).nextLin
    have hanc : ∀ n, ((s.delE e).walk sib rs.tid t rs.lin none).Anc e.2 n ↔ s.Anc e.2 n := by
      intro n; rw [Anc.congr hG2.edgeList]; exact anc_delE hI.forest hmem
    refine ⟨hmem, hG2.trans (walk_sameG _ _ _ _ _ _), by rw [walk_linOn, walk_linOn]; rfl, ?_, ?_, ?_⟩
    · intro n hn
      rw [hw.1 n ((hanc n).2 hn)]; unfold nextLin; rw [hn2.2, delE_maxLin]
    · intro n hn
      rw [hw.2.1 n (fun h => hn ((hanc n).1 h)), hn2.1 n, delE_linOf]
    · rw [hw.2.2]; unfold nextLin; rw [hn2.2, delE_maxLin]; simp

theorem DelEff.edge_iff {s s' : St} {e : Edge} (h : DelEff s e s') (x : Edge) :
    x ∈ s'.edgeList ↔ (x ∈ s.edgeList ∧ x ≠ e) := by
  rw [h.sameG.edgeList]; exact mem_delE

theorem DelEff.ids {s s' : St} {e : Edge} (h : DelEff s e s') : s'.ids = s.ids := h.sameG.ids

theorem DelEff.linInv {s s' : St} (hI : s.LinInv) {e : Edge} (h : DelEff s e s') : s'.LinInv := by
  obtain ⟨u, v⟩ := e
  have hF := hI.forest
  have hroot_v : ∀ p, (p, v) ∉ s'.edgeList := by
    intro p hp
    rcases (h.edge_iff _).1 hp with ⟨hp1, hp2⟩
    have := hF.par_unique hp1 h.mem
    subst this; exact hp2 rfl
  have hfresh : ∀ n, s.linOf n ≠ some (s.maxLin + 1) := by
    intro n hn; have := hI.max n _ hn; omega
  -- a root of the new graph is `v` or an old root outside the subtree of `v`
  have hR : ∀ a, s'.IsRoot a →
      (a = v ∧ s'.linOf a = some (s.maxLin + 1)) ∨
      (a ≠ v ∧ s.IsRoot a ∧ s'.linOf a = s.linOf a) := by
    intro a ha
    by_cases hav : a = v
    · subst hav; exact Or.inl ⟨rfl, h.lin_in a (Anc.refl a)⟩
    · have hra : s.IsRoot a := by
        refine ⟨h.ids ▸ ha.1, fun p hp => ha.2 p ((h.edge_iff _).2 ⟨hp, ?_⟩)⟩
        intro heq; cases heq; exact hav rfl
      refine Or.inr ⟨hav, hra, h.lin_out a ?_⟩
      intro hanc
      rcases hanc.tail with h1 | ⟨p, _, hp⟩
      · exact hav h1.symm
      · exact hra.2 p hp
  refine ⟨h.sameG.forest (hF.delE _), ⟨?_, ?_, ?_⟩, h.on.trans hI.on, ?_⟩
  · intro n hn
    by_cases hanc : s.Anc v n
    · rw [h.lin_in n hanc]; rfl
    · rw [h.lin_out n hanc]; exact hI.linOK.has n (h.ids ▸ hn)
  · rintro ⟨p, c⟩ hx
    rcases (h.edge_iff _).1 hx with ⟨hx1, hx2⟩
    simp only
    by_cases hp : s.Anc v p
    · rw [h.lin_in c (Anc.step _ p c hp hx1), h.lin_in p hp]
    · have hc : ¬ s.Anc v c := by
        intro hanc
        rcases hanc.tail with h1 | ⟨p', hp', hp'c⟩
        · subst h1
          have := hF.par_unique hx1 h.mem
          subst this; exact hx2 rfl
        · have := hF.par_unique hx1 hp'c
          subst this; exact hp hp'
      rw [h.lin_out c hc, h.lin_out p hp]
      exact hI.linOK.along _ hx1
  · intro a b ha hb hab
    rcases hR a ha with ⟨ha1, ha2⟩ | ⟨ha1, ha2, ha3⟩ <;>
      rcases hR b hb with ⟨hb1, hb2⟩ | ⟨hb1, hb2, hb3⟩
    · exact absurd (ha1.trans hb1.symm) hab
    · rw [ha2, hb3]; exact fun h => hfresh b h.symm
    · rw [ha3, hb2]; exact hfresh a
    · rw [ha3, hb3]; exact hI.linOK.roots a b ha2 hb2 hab
  · intro n l hl
    rw [h.maxLin]
    by_cases hanc : s.Anc v n
    · rw [h.lin_in n hanc] at hl; cases hl; exact Nat.le_refl _
    · rw [h.lin_out n hanc] at hl; have := hI.max n l hl; omega

/-! ### `uAddEdge` -/

/-- the part of `uAddEdge` after the optional forced removal -/
def addTail (a0 : UOut) (e : Edge) : UOut :=
  match a0.2 with
  | .error err => (a0.1, .error err)
  | .ok recs0 =>
    let s0 := a0.1
    let out := s0.outdeg e.1
    let a1 : UOut :=
      if out == 0 then
        thenPrim a0 (fun st => match st.tidOf e.1 with
          | some t => st.pUpdTid e.2 t (st.linOf e.1)
          | none => .error .key)
      else if out == 1 then
        match (s0.succs e.1).head? with
        | none => (s0, .error .other)
        | some succ =>
          let b := thenPrim a0 (fun st => st.pUpdTid succ st.nextTid none)
          thenPrim b (fun st => match st.tidOf e.2 with
            | some t => st.pUpdTid e.2 t (st.linOf e.1)
            | none => .error .key)
      else (s0.rollback recs0, .error .invalid)
    thenPrim a1 (fun st => st.pAddEdge e [])

def addHead (s : St) (e : Edge) (force : Bool) : UOut :=
  if s.indeg e.2 > 0 then
    if !force then (s, .error .forceable)
    else match (s.preds e.2).head? with
      | some p => thenUser (s, .ok []) (fun st => st.uDeleteEdge (p, e.2))
      | none => (s, .error .other)
  else (s, .ok [])

theorem uAddEdge_eq (s : St) (e : Edge) (force : Bool) :
    s.uAddEdge e force =
      if !(s.hasNode e.1) then (s, .error .invalid) else
      if !(s.hasNode e.2) then (s, .error .invalid) else
      if (s.timeOf e.1).getD 0 ≥ (s.timeOf e.2).getD 0 then (s, .error .invalid) else
      addTail (addHead s e force) e := by
  unfold uAddEdge addTail addHead
  rfl

theorem preds_nil_iff {s : St} {v : Node} : s.indeg v = 0 ↔ ∀ p, (p, v) ∉ s.edgeList := by
  unfold indeg
  constructor
  · intro h p hp
    have := List.length_pos_of_mem (mem_preds.2 hp)
    omega
  · intro h
    cases hp : s.preds v with
    | nil => rfl
    | cons p l =>
      exact absurd (mem_preds.1 (hp ▸ List.mem_cons_self)) (h p)

theorem addHead_shape {s : St} {e : Edge} {force : Bool} {recs0}
    (hok : (addHead s e force).2 = .ok recs0) :
    ((addHead s e force).1 = s ∧ ∀ p, (p, e.2) ∉ s.edgeList) ∨
    (∃ p recs', (p, e.2) ∈ s.edgeList ∧ (s.uDeleteEdge (p, e.2)).2 = .ok recs' ∧
      (addHead s e force).1 = (s.uDeleteEdge (p, e.2)).1) := by
  unfold addHead at hok ⊢
  by_cases hin : s.indeg e.2 > 0
  · simp only [hin, if_true] at hok ⊢
    cases force with
    | false => simp at hok
    | true =>
      simp only [Bool.not_true, Bool.false_eq_true, if_false] at hok ⊢
      cases hh : (s.preds e.2).head? with
      | none => simp [hh] at hok
      | some p =>
        simp only [hh] at hok ⊢
        have hp : (p, e.2) ∈ s.edgeList := mem_preds.1 (List.mem_of_head? hh)
        unfold thenUser at hok ⊢
        simp only at hok ⊢
        cases hd : (s.uDeleteEdge (p, e.2)).2 with
        | error err => simp [hd] at hok
        | ok recs' =>
          refine Or.inr ⟨p, recs', hp, hd, ?_⟩
          simp only
  · simp only [hin, if_false]
    exact Or.inl ⟨trivial, preds_nil_iff.1 (by omega)⟩

theorem addTail_shape {a0 : UOut} {e : Edge} {recs} (hok : (addTail a0 e).2 = .ok recs) :
    (∃ t r rr, a0.1.outdeg e.1 = 0 ∧ a0.1.tidOf e.1 = some t ∧ a0.1.findNode e.2 = some r ∧
        (a0.1.walk e.2 r.tid t r.lin (a0.1.linOf e.1)).pAddEdge e [] = .ok ((addTail a0 e).1, rr)) ∨
    (∃ succ rs t r rr, a0.1.outdeg e.1 = 1 ∧ (a0.1.succs e.1).head? = some succ ∧
        a0.1.findNode succ = some rs ∧
        (a0.1.walk succ rs.tid a0.1.nextTid rs.lin none).tidOf e.2 = some t ∧
        (a0.1.walk succ rs.tid a0.1.nextTid rs.lin none).findNode e.2 = some r ∧
        ((a0.1.walk succ rs.tid a0.1.nextTid rs.lin none).walk e.2 r.tid t r.lin
          ((a0.1.walk succ rs.tid a0.1.nextTid rs.lin none).linOf e.1)).pAddEdge e []
            = .ok ((addTail a0 e).1, rr)) := by
  unfold addTail at hok ⊢
  cases h2 : a0.2 with
  | error err => simp [h2] at hok
  | ok recs0 =>
    simp only [h2] at hok ⊢
    by_cases h0 : a0.1.outdeg e.1 = 0
    · simp only [h0, beq_self_eq_true, if_true] at hok ⊢
      rcases thenPrim_ok hok with ⟨_, s', rr, ha1, hf, hs'⟩
      rcases thenPrim_ok ha1 with ⟨_, s1, r', _, hf1, hs1⟩
      rw [hs1] at hf
      cases ht : a0.1.tidOf e.1 with
      | none => simp [ht] at hf1
      | some t =>
        simp only [ht] at hf1
        rcases pUpdTid_ok hf1 with ⟨r, hr, hw⟩
        subst hw
        exact Or.inl ⟨t, r, rr, trivial, rfl, hr, by rw [hs']; exact hf⟩
    · have hb0 : (a0.1.outdeg e.1 == 0) = false := by simp [h0]
      simp only [hb0, Bool.false_eq_true, if_false] at hok ⊢
      by_cases h1 : a0.1.outdeg e.1 = 1
      · simp only [h1, beq_self_eq_true, if_true] at hok ⊢
        cases hh : (a0.1.succs e.1).head? with
        | none =>
          simp only [hh] at hok
          rcases thenPrim_ok hok with ⟨_, _, _, ha1, _, _⟩
          simp at ha1
        | some succ =>
          simp only [hh] at hok ⊢
          rcases thenPrim_ok hok with ⟨_, s', rr, ha1, hf, hs'⟩
          rcases thenPrim_ok ha1 with ⟨_, s1, r', hb, hf1, hs1⟩
          rcases thenPrim_ok hb with ⟨_, sb, r'', _, hfb, hsb⟩
          rw [hs1] at hf
          rw [hsb] at hf1
          rcases pUpdTid_ok hfb with ⟨rs, hrs, hwb⟩
          subst hwb
          cases ht : (a0.1.walk succ rs.tid a0.1.nextTid rs.lin none).tidOf e.2 with
          | none => simp [ht] at hf1
          | some t =>
            simp only [ht] at hf1
            rcases pUpdTid_ok hf1 with ⟨r, hr, hw⟩
            subst hw
            exact Or.inr ⟨succ, rs, t, r, rr, trivial, rfl, hrs, ht, hr, by rw [hs']; exact hf⟩
      · have hb1 : (a0.1.outdeg e.1 == 1) = false := by simp [h1]
        simp only [hb1, Bool.false_eq_true, if_false] at hok
        rcases thenPrim_ok hok with ⟨_, _, _, ha1, _, _⟩
        simp at ha1


theorem succs_eq (s : St) (u : Node) :
    s.succs u = (s.edgeList.filter (·.1 == u)).map (·.2) := by
  unfold succs edgeList
  rw [List.filter_map, List.map_map]; rfl

theorem preds_eq (s : St) (v : Node) :
    s.preds v = (s.edgeList.filter (·.2 == v)).map (·.1) := by
  unfold preds edgeList
  rw [List.filter_map, List.map_map]; rfl

theorem setEdgeAttr_edgeList (s : St) (e k v) : (s.setEdgeAttr e k v).edgeList = s.edgeList := by
  unfold setEdgeAttr edgeList
  simp only [List.map_map]
  apply List.map_congr_left
  intro r _
  simp only [Function.comp]
  split <;> rfl

theorem iouUpdateEdge_spec (s : St) (e : Edge) :
    (s.iouUpdateEdge e).nodes = s.nodes ∧ (s.iouUpdateEdge e).edgeList = s.edgeList ∧
    (s.iouUpdateEdge e).linOn = s.linOn ∧ (s.iouUpdateEdge e).maxLin = s.maxLin ∧
    (s.iouUpdateEdge e).maxTid = s.maxTid := by
  unfold iouUpdateEdge
  split
  · split
    · exact ⟨rfl, setEdgeAttr_edgeList _ _ _ _, rfl, rfl, rfl⟩
    · exact ⟨rfl, rfl, rfl, rfl, rfl⟩
  · exact ⟨rfl, rfl, rfl, rfl, rfl⟩

theorem pAddEdge_spec {s : St} {e : Edge} {attrs s' r} (h : s.pAddEdge e attrs = .ok (s', r))
    (hne : e ∉ s.edgeList) :
    s'.nodes = s.nodes ∧ s'.edgeList = s.edgeList ++ [e] ∧ s'.linOn = s.linOn ∧
    s'.maxLin = s.maxLin ∧ s'.maxTid = s.maxTid := by
  unfold pAddEdge at h
  split at h
  · cases h
  · have hE : s.hasEdge e = false := by
      cases hh : s.hasEdge e with
      | false => rfl
      | true => exact absurd (hasEdge_iff.1 hh) hne
    simp only [hE, Bool.false_eq_true, if_false] at h
    injection h with h
    injection h with h1 _
    subst h1
    have := iouUpdateEdge_spec ({ s with edges := s.edges ++ [{ e := e, attrs := attrs }] } : St) e
    refine ⟨this.1, this.2.1.trans ?_, this.2.2.1, this.2.2.2.1, this.2.2.2.2⟩
    unfold edgeList; simp

/-- abstract effect of the relabel-and-link part of an accepted `uAddEdge` (from the state `s0`
    after the optional forced removal) -/
structure AddEff (s0 : St) (e : Edge) (s' : St) : Prop where
  ids : s'.ids = s0.ids
  time : ∀ n, s'.timeOf n = s0.timeOf n
  edges : s'.edgeList = s0.edgeList ++ [e]
  on : s'.linOn = s0.linOn
  lin_in : ∀ n, s0.Anc e.2 n → s'.linOf n = s0.linOf e.1
  lin_out : ∀ n, ¬ s0.Anc e.2 n → s'.linOf n = s0.linOf n
  maxLin : s'.maxLin = s0.maxLin
  outdeg : s0.outdeg e.1 ≤ 1

theorem addTail_eff {a0 : UOut} (hI : a0.1.LinInv) {e : Edge} {recs}
    (hu : e.1 ∈ a0.1.ids) (hroot : ∀ p, (p, e.2) ∉ a0.1.edgeList)
    (hok : (addTail a0 e).2 = .ok recs) : AddEff a0.1 e (addTail a0 e).1 := by
  have hF := hI.forest
  have hne : e ∉ a0.1.edgeList := fun h => hroot e.1 h
  rcases hI.linOK.has e.1 hu |> Option.isSome_iff_exists.1 with ⟨lu, hlu⟩
  have hlumax : ¬ lu > a0.1.maxLin := by have := hI.max _ _ hlu; omega
  rcases addTail_shape hok with ⟨t, r, rr, ho, _, hr, hadd⟩ |
      ⟨succ, rs, t, r, rr, ho, _, hrs, _, hr, hadd⟩
  · rw [hlu] at hadd
    have hG := walk_sameG a0.1 e.2 r.tid t r.lin (some lu)
    have hw := walk_lin hF (findNode_mem hr) hI.on r.tid t r.lin lu
    have hp := pAddEdge_spec hadd (by rw [hG.edgeList]; exact hne)
    have hG' : SameG (a0.1.walk e.2 r.tid t r.lin (some lu)) (addTail a0 e).1 →
      True := fun _ => trivial
    refine ⟨by unfold ids; rw [hp.1]; exact hG.ids, ?_, by rw [hp.2.1, hG.edgeList],
      by rw [hp.2.2.1, walk_linOn], ?_, ?_, ?_, by omega⟩
    · intro n; rw [timeOf_congr hp.1]; exact hG.time n
    · intro n hn; rw [linOf_congr hp.1, hlu]; exact hw.1 n hn
    · intro n hn; rw [linOf_congr hp.1]; exact hw.2.1 n hn
    · rw [hp.2.2.2.1, hw.2.2, if_neg hlumax]
  · have hGb := walk_sameG a0.1 succ rs.tid a0.1.nextTid rs.lin none
    have hnb := walk_nolin a0.1 succ rs.tid a0.1.nextTid rs.lin
    have hFb := hGb.forest hF
    have honb : (a0.1.walk succ rs.tid a0.1.nextTid rs.lin none).linOn = true := by
      rw [walk_linOn]; exact hI.on
    rw [hnb.1, hlu] at hadd
    have hG := walk_sameG (a0.1.walk succ rs.tid a0.1.nextTid rs.lin none) e.2 r.tid t r.lin (some lu)
    have hw := walk_lin hFb (findNode_mem hr) honb r.tid t r.lin lu
    have hp := pAddEdge_spec hadd (by rw [hG.edgeList, hGb.edgeList]; exact hne)
    have hanc : ∀ n, (a0.1.walk succ rs.tid a0.1.nextTid rs.lin none).Anc e.2 n ↔ a0.1.Anc e.2 n :=
      fun n => Anc.congr hGb.edgeList
    refine ⟨by unfold ids; rw [hp.1]; exact (hGb.trans hG).ids, ?_,
      by rw [hp.2.1, hG.edgeList, hGb.edgeList],
      by rw [hp.2.2.1, walk_linOn, walk_linOn], ?_, ?_, ?_, by omega⟩
    · intro n; rw [timeOf_congr hp.1]; exact (hGb.trans hG).time n
    · intro n hn; rw [linOf_congr hp.1, hlu]; exact hw.1 n ((hanc n).2 hn)
    · intro n hn; rw [linOf_congr hp.1, hw.2.1 n (fun h => hn ((hanc n).1 h))]; exact hnb.1 n
    · rw [hp.2.2.2.1, hw.2.2, hnb.2, if_neg hlumax]


theorem indeg_eq (s : St) (v : Node) : s.indeg v = (s.edgeList.filter (·.2 == v)).length := by
  unfold indeg; rw [preds_eq, List.length_map]

theorem outdeg_eq (s : St) (u : Node) : s.outdeg u = (s.edgeList.filter (·.1 == u)).length := by
  unfold outdeg; rw [succs_eq, List.length_map]

theorem AddEff.forest {s0 s' : St} {e : Edge} (hF : s0.Forest) (h : AddEff s0 e s')
    (hu : e.1 ∈ s0.ids) (hv : e.2 ∈ s0.ids) (ht : s0.tm e.1 < s0.tm e.2)
    (hroot : ∀ p, (p, e.2) ∉ s0.edgeList) : s'.Forest where
  nodup_nodes := by rw [h.ids]; exact hF.nodup_nodes
  nodup_edges := by
    rw [h.edges, List.nodup_append]
    refine ⟨hF.nodup_edges, by simp, ?_⟩
    intro a ha b hb hab
    rw [List.mem_singleton] at hb
    subst hb; subst hab
    exact hroot _ ha
  src_mem := by
    intro x hx
    rw [h.edges, List.mem_append, List.mem_singleton] at hx
    rw [h.ids]
    rcases hx with hx | rfl
    · exact hF.src_mem x hx
    · exact hu
  dst_mem := by
    intro x hx
    rw [h.edges, List.mem_append, List.mem_singleton] at hx
    rw [h.ids]
    rcases hx with hx | rfl
    · exact hF.dst_mem x hx
    · exact hv
  forward := by
    intro x hx t1 t2
    rw [h.edges, List.mem_append, List.mem_singleton] at hx
    rw [h.time, h.time]
    rcases hx with hx | rfl
    · exact hF.forward x hx t1 t2
    · intro h1 h2
      rw [timeOf_of_mem hu] at h1
      rw [timeOf_of_mem hv] at h2
      cases h1; cases h2; exact ht
  indeg_le := by
    intro v
    rw [indeg_eq, h.edges, List.filter_append, List.length_append, ← indeg_eq]
    by_cases hve : e.2 = v
    · subst hve
      have := preds_nil_iff.2 hroot
      rw [this]; simp [List.filter_cons]
    · have : ([e].filter (·.2 == v)) = [] := by simp [List.filter_cons, hve]
      rw [this]; exact hF.indeg_le v
  outdeg_le := by
    intro u
    rw [outdeg_eq, h.edges, List.filter_append, List.length_append, ← outdeg_eq]
    by_cases hue : e.1 = u
    · subst hue
      have := h.outdeg
      have h2 : ([e].filter (·.1 == e.1)).length ≤ 1 := by simp [List.filter_cons]
      omega
    · have : ([e].filter (·.1 == u)) = [] := by simp [List.filter_cons, hue]
      rw [this]; exact hF.outdeg_le u

theorem AddEff.linInv {s0 s' : St} {e : Edge} (hI : s0.LinInv) (h : AddEff s0 e s')
    (hu : e.1 ∈ s0.ids) (hv : e.2 ∈ s0.ids) (ht : s0.tm e.1 < s0.tm e.2)
    (hroot : ∀ p, (p, e.2) ∉ s0.edgeList) : s'.LinInv := by
  obtain ⟨u, v⟩ := e
  simp only at hu hv ht hroot
  have hF := hI.forest
  have hnu : ¬ s0.Anc v u := by
    intro hanc; have := hanc.tm_le hF; omega
  -- a node outside the subtree of `v` whose parent … : subtree membership is inherited along old edges
  have hsub : ∀ p c, (p, c) ∈ s0.edgeList → ¬ s0.Anc v p → ¬ s0.Anc v c := by
    intro p c hpc hp hanc
    rcases hanc.tail with h1 | ⟨p', hp', hp'c⟩
    · subst h1; exact hroot p hpc
    · have := hF.par_unique hpc hp'c
      subst this; exact hp hp'
  have hrootout : ∀ a, s0.IsRoot a → a ≠ v → ¬ s0.Anc v a := by
    intro a ha hav hanc
    rcases hanc.tail with h1 | ⟨p, _, hp⟩
    · exact hav h1.symm
    · exact ha.2 p hp
  refine ⟨h.forest hF hu hv ht hroot, ⟨?_, ?_, ?_⟩, h.on.trans hI.on, ?_⟩
  · intro n hn
    by_cases hanc : s0.Anc v n
    · rw [h.lin_in n hanc]; exact hI.linOK.has u hu
    · rw [h.lin_out n hanc]; exact hI.linOK.has n (h.ids ▸ hn)
  · rintro ⟨p, c⟩ hx
    rw [h.edges, List.mem_append, List.mem_singleton] at hx
    simp only
    rcases hx with hx | hx
    · by_cases hp : s0.Anc v p
      · rw [h.lin_in c (Anc.step _ p c hp hx), h.lin_in p hp]
      · rw [h.lin_out c (hsub p c hx hp), h.lin_out p hp]
        exact hI.linOK.along _ hx
    · cases hx
      rw [h.lin_in v (Anc.refl v), h.lin_out u hnu]
  · intro a b ha hb hab
    have key : ∀ a, s'.IsRoot a → s0.IsRoot a ∧ s'.linOf a = s0.linOf a := by
      intro a ha
      have hav : a ≠ v := by
        intro heq; subst heq
        exact ha.2 u (by rw [h.edges]; simp)
      have hra : s0.IsRoot a :=
        ⟨h.ids ▸ ha.1, fun p hp => ha.2 p (by rw [h.edges]; exact List.mem_append_left _ hp)⟩
      exact ⟨hra, h.lin_out a (hrootout a hra hav)⟩
    rw [(key a ha).2, (key b hb).2]
    exact hI.linOK.roots a b (key a ha).1 (key b hb).1 hab
  · intro n l hl
    rw [h.maxLin]
    by_cases hanc : s0.Anc v n
    · rw [h.lin_in n hanc] at hl; exact hI.max u l hl
    · rw [h.lin_out n hanc] at hl; exact hI.max n l hl


theorem addTail_ok_head {a0 : UOut} {e : Edge} {recs} (hok : (addTail a0 e).2 = .ok recs) :
    ∃ recs0, a0.2 = .ok recs0 := by
  unfold addTail at hok
  cases h2 : a0.2 with
  | error err => simp [h2] at hok
  | ok recs0 => exact ⟨recs0, rfl⟩

theorem tm_congr {s s' : St} (h : ∀ n, s'.timeOf n = s.timeOf n) (n) : s'.tm n = s.tm n := by
  unfold tm; rw [h]

/-- accepted `uDeleteEdge`: invariant bundle preserved + frame -/
theorem uDeleteEdge_linInv {s : St} (hI : s.LinInv) {e : Edge} {recs}
    (hok : (s.uDeleteEdge e).2 = .ok recs) :
    (s.uDeleteEdge e).1.LinInv ∧ ∀ n, ¬ s.Anc e.2 n → (s.uDeleteEdge e).1.linOf n = s.linOf n :=
  ⟨(uDeleteEdge_eff hI hok).linInv hI, (uDeleteEdge_eff hI hok).lin_out⟩

/-- accepted `uAddEdge`: invariant bundle preserved + frame -/
theorem uAddEdge_linInv {s : St} (hI : s.LinInv) {e : Edge} {force : Bool} {recs}
    (hok : (s.uAddEdge e force).2 = .ok recs) :
    (s.uAddEdge e force).1.LinInv ∧
    ∀ n, ¬ s.Anc e.2 n → (s.uAddEdge e force).1.linOf n = s.linOf n := by
  rw [uAddEdge_eq] at hok ⊢
  by_cases h1 : s.hasNode e.1 = true
  · by_cases h2 : s.hasNode e.2 = true
    · by_cases h3 : (s.timeOf e.1).getD 0 ≥ (s.timeOf e.2).getD 0
      · simp [h1, h2, h3] at hok
      · simp only [h1, h2, h3, Bool.not_true, Bool.false_eq_true, if_false] at hok ⊢
        have hu := hasNode_iff.1 h1
        have hv := hasNode_iff.1 h2
        have ht : s.tm e.1 < s.tm e.2 := by unfold tm; omega
        rcases addTail_ok_head hok with ⟨recs0, h0⟩
        rcases addHead_shape h0 with ⟨hs0, hroot⟩ | ⟨p, recs', hp, hdel, hs0⟩
        · have hI0 : (addHead s e force).1.LinInv := by rw [hs0]; exact hI
          have heff := addTail_eff hI0 (by rw [hs0]; exact hu) (by rw [hs0]; exact hroot) hok
          rw [hs0] at heff hI0
          refine ⟨heff.linInv hI0 hu hv ht hroot, heff.lin_out⟩
        · have hd := uDeleteEdge_eff hI hdel
          have hI0 : (addHead s e force).1.LinInv := by rw [hs0]; exact hd.linInv hI
          have hroot : ∀ q, (q, e.2) ∉ (s.uDeleteEdge (p, e.2)).1.edgeList := by
            intro q hq
            rcases (hd.edge_iff _).1 hq with ⟨hq1, hq2⟩
            have := hI.forest.par_unique hq1 hp
            subst this; exact hq2 rfl
          have htime : ∀ n, (s.uDeleteEdge (p, e.2)).1.timeOf n = s.timeOf n := hd.sameG.time
          have heff := addTail_eff hI0 (by rw [hs0, hd.ids]; exact hu) (by rw [hs0]; exact hroot) hok
          rw [hs0] at heff hI0
          refine ⟨heff.linInv hI0 (by rw [hd.ids]; exact hu) (by rw [hd.ids]; exact hv)
            (by rw [tm_congr htime, tm_congr htime]; exact ht) hroot, ?_⟩
          intro n hn
          have hn' : ¬ (s.uDeleteEdge (p, e.2)).1.Anc e.2 n :=
            fun h => hn (Anc.mono (fun x hx => ((hd.edge_iff x).1 hx).1) h)
          rw [heff.lin_out n hn']
          exact hd.lin_out n hn
    · simp [h1, h2] at hok
  · simp [h1] at hok


/-! ### Boolean checkers for concrete states (non-vacuity examples) -/

def forestB (s : St) : Bool :=
  decide s.ids.Nodup && decide s.edgeList.Nodup &&
  s.edgeList.all (fun e => s.ids.contains e.1 && s.ids.contains e.2 && decide (s.tm e.1 < s.tm e.2)
    && decide (s.indeg e.2 ≤ 1) && decide (s.outdeg e.1 ≤ 2))

theorem forestB_sound {s : St} (h : s.forestB = true) : s.Forest := by
  unfold forestB at h
  simp only [Bool.and_eq_true, decide_eq_true_eq, List.all_eq_true, List.contains_iff_mem] at h
  obtain ⟨⟨h1, h2⟩, h3⟩ := h
  refine ⟨h1, h2, fun e he => (h3 e he).1.1.1.1, fun e he => (h3 e he).1.1.1.2, ?_, ?_, ?_⟩
  · intro e he t1 t2 ht1 ht2
    have := (h3 e he).1.1.2
    unfold tm at this
    rw [ht1, ht2] at this
    exact this
  · intro v
    by_cases h0 : s.indeg v = 0
    · omega
    · cases hp : s.preds v with
      | nil => unfold indeg at h0; rw [hp] at h0; exact absurd rfl h0
      | cons p l =>
        have := mem_preds.1 (hp ▸ List.mem_cons_self : p ∈ s.preds v)
        exact (h3 _ this).1.2
  · intro u
    by_cases h0 : s.outdeg u = 0
    · omega
    · cases hp : s.succs u with
      | nil => unfold outdeg at h0; rw [hp] at h0; exact absurd rfl h0
      | cons c l =>
        have := mem_succs.1 (hp ▸ List.mem_cons_self : c ∈ s.succs u)
        exact (h3 _ this).2

theorem isRoot_iff {s : St} {a : Node} : s.IsRoot a ↔ (a ∈ s.ids ∧ s.preds a = []) := by
  unfold IsRoot
  constructor
  · rintro ⟨h1, h2⟩
    refine ⟨h1, ?_⟩
    cases hp : s.preds a with
    | nil => rfl
    | cons p l => exact absurd (mem_preds.1 (hp ▸ List.mem_cons_self : p ∈ s.preds a)) (h2 p)
  · rintro ⟨h1, h2⟩
    refine ⟨h1, fun p hp => ?_⟩
    have := mem_preds.2 hp
    rw [h2] at this; cases this

theorem isHead_iff {s : St} {a : Node} :
    s.IsHead a ↔ (a ∈ s.ids ∧ ∀ p ∈ s.preds a, s.outdeg p = 2) := by
  unfold IsHead
  constructor
  · rintro ⟨h1, h2⟩; exact ⟨h1, fun p hp => h2 p (mem_preds.1 hp)⟩
  · rintro ⟨h1, h2⟩; exact ⟨h1, fun p hp => h2 p (mem_preds.2 hp)⟩

def linOKB (s : St) : Bool :=
  s.ids.all (fun n => (s.linOf n).isSome) &&
  s.edgeList.all (fun e => s.linOf e.2 == s.linOf e.1) &&
  s.ids.all (fun a => s.ids.all (fun b =>
    !(s.preds a).isEmpty || !(s.preds b).isEmpty || a == b || s.linOf a != s.linOf b))

theorem linOKB_sound {s : St} (h : s.linOKB = true) : s.LinOK := by
  unfold linOKB at h
  simp only [Bool.and_eq_true, List.all_eq_true] at h
  obtain ⟨⟨h1, h2⟩, h3⟩ := h
  refine ⟨h1, fun e he => by simpa using h2 e he, ?_⟩
  intro a b ha hb hab
  rcases isRoot_iff.1 ha with ⟨ha1, ha2⟩
  rcases isRoot_iff.1 hb with ⟨hb1, hb2⟩
  have := h3 a ha1 b hb1
  simp [ha2, hb2, hab] at this
  exact this

def tidOKB (s : St) : Bool :=
  s.edgeList.all (fun e => s.outdeg e.1 != 1 || s.tidOf e.2 == s.tidOf e.1) &&
  s.ids.all (fun a => s.ids.all (fun b =>
    !((s.preds a).all (fun p => s.outdeg p == 2)) || !((s.preds b).all (fun p => s.outdeg p == 2))
      || a == b || s.tidOf a != s.tidOf b))

theorem tidOKB_sound {s : St} (h : s.tidOKB = true) : s.TidOK := by
  unfold tidOKB at h
  simp only [Bool.and_eq_true, List.all_eq_true] at h
  obtain ⟨h2, h3⟩ := h
  refine ⟨?_, ?_⟩
  · intro e he ho
    have := h2 e he
    simp [ho] at this
    exact this
  · intro a b ha hb hab
    rcases isHead_iff.1 ha with ⟨ha1, ha2⟩
    rcases isHead_iff.1 hb with ⟨hb1, hb2⟩
    have := h3 a ha1 b hb1
    have e1 : (s.preds a).all (fun p => s.outdeg p == 2) = true := by
      rw [List.all_eq_true]; intro p hp; simp [ha2 p hp]
    have e2 : (s.preds b).all (fun p => s.outdeg p == 2) = true := by
      rw [List.all_eq_true]; intro p hp; simp [hb2 p hp]
    simp [e1, e2, hab] at this
    exact this

def linMaxB (s : St) : Bool :=
  s.ids.all (fun n => match s.linOf n with | some l => decide (l ≤ s.maxLin) | none => true)

theorem linMaxB_sound {s : St} (h : s.linMaxB = true) :
    ∀ n l, s.linOf n = some l → l ≤ s.maxLin := by
  unfold linMaxB at h
  rw [List.all_eq_true] at h
  intro n l hl
  have hn : n ∈ s.ids := by
    unfold linOf at hl
    cases hf : s.findNode n with
    | none => rw [hf] at hl; cases hl
    | some r => exact findNode_mem hf
  have := h n hn
  rw [hl] at this
  simpa using this

def tidMaxB (s : St) : Bool :=
  s.ids.all (fun n => match s.tidOf n with | some l => decide (l ≤ s.maxTid) | none => true)

theorem tidMaxB_sound {s : St} (h : s.tidMaxB = true) :
    ∀ n t, s.tidOf n = some t → t ≤ s.maxTid := by
  unfold tidMaxB at h
  rw [List.all_eq_true] at h
  intro n l hl
  have hn : n ∈ s.ids := by
    unfold tidOf at hl
    cases hf : s.findNode n with
    | none => rw [hf] at hl; cases hl
    | some r => exact findNode_mem hf
  have := h n hn
  rw [hl] at this
  simpa using this

theorem linInv_of_check {s : St} (h1 : s.forestB = true) (h2 : s.linOKB = true)
    (h3 : s.linOn = true) (h4 : s.linMaxB = true) : s.LinInv :=
  ⟨forestB_sound h1, linOKB_sound h2, h3, linMaxB_sound h4⟩


theorem uAddEdge_ok_nodes {s : St} {e : Edge} {force : Bool} {recs}
    (hok : (s.uAddEdge e force).2 = .ok recs) :
    e.1 ∈ s.ids ∧ e.2 ∈ s.ids ∧ s.tm e.1 < s.tm e.2 := by
  rw [uAddEdge_eq] at hok
  by_cases h1 : s.hasNode e.1 = true
  · by_cases h2 : s.hasNode e.2 = true
    · by_cases h3 : (s.timeOf e.1).getD 0 ≥ (s.timeOf e.2).getD 0
      · simp [h1, h2, h3] at hok
      · exact ⟨hasNode_iff.1 h1, hasNode_iff.1 h2, by unfold tm; omega⟩
    · simp [h1, h2] at hok
  · simp [h1] at hok

/-- the list of nodes the walk writes the lineage on is the BFS list -/
theorem walkLevels_lNodes (s : St) (start : Node) (oldT newT : Nat) (nl : Option Nat) :
    (walkLevels oldT newT nl true (s.nodes.length + 1)
      { s := s, flag := true, tNodes := [], lNodes := [], next := [start] }).lNodes
      = bfs s.succs (s.nodes.length + 1) [start] := by
  have h := walkLevels_core oldT newT nl true (s.nodes.length + 1)
    { s := s, flag := true, tNodes := [], lNodes := [], next := [start] }
  have h2 := (foldl_visit_lin oldT newT nl (bfs s.succs (s.nodes.length + 1) [start])
    ⟨s, true, [], []⟩).1
  have h3 := congrArg Core.lN h
  simp only [WalkAcc.core] at h3
  rw [h3]; simpa using h2

/-! ### track ids: the walk relabels the chain below `start` -/

theorem bfs_nil (succ : Node → List Node) : ∀ f, bfs succ f [] = []
  | 0 => rfl
  | _ + 1 => rfl

theorem bfs_single (succ : Node → List Node) (f : Nat) (x : Node) :
    bfs succ (f + 1) [x] = x :: bfs succ f (succ x) := by
  simp [bfs]

/-- chain hypotheses for the track-id part of the walk, relative to the start `x`:
    along a non-division edge below `x` the child carries `old`, below a division it does not -/
def ChainHyp (s : St) (old : Nat) (x : Node) : Prop :=
  (∀ p c, s.SegDown x p → (p, c) ∈ s.edgeList → s.outdeg p = 1 → s.tidOf c = some old) ∧
  (∀ p c, s.SegDown x p → (p, c) ∈ s.edgeList → s.outdeg p = 2 → s.tidOf c ≠ some old)

theorem ChainHyp.child {s : St} {old : Nat} {x y : Node} (h : ChainHyp s old x)
    (he : (x, y) ∈ s.edgeList) (ho : s.outdeg x = 1) : ChainHyp s old y :=
  ⟨fun p c hp => h.1 p c (SegDown.cons he ho hp), fun p c hp => h.2 p c (SegDown.cons he ho hp)⟩

theorem tw_sound {s : St} (hF : s.Forest) (old : Nat) :
    ∀ (f : Nat) (x n : Node), ChainHyp s old x →
      n ∈ (bfs s.succs f [x]).takeWhile (fun m => s.tidOf m == some old) → s.SegDown x n
  | 0, x, n, _, hn => by simp [bfs] at hn
  | f + 1, x, n, hH, hn => by
    rw [bfs_single, List.takeWhile_cons] at hn
    split at hn
    · rcases List.mem_cons.1 hn with rfl | hn'
      · exact SegDown.refl _
      · match hsx : s.succs x with
        | [] => rw [hsx, bfs_nil] at hn'; cases hn'
        | [y] =>
          rw [hsx] at hn'
          have hxy : (x, y) ∈ s.edgeList := mem_succs.1 (by rw [hsx]; exact List.mem_cons_self)
          have ho : s.outdeg x = 1 := by unfold outdeg; rw [hsx]; rfl
          exact SegDown.cons hxy ho (tw_sound hF old f y n (hH.child hxy ho) hn')
        | y :: z :: l =>
          have hxy : (x, y) ∈ s.edgeList := mem_succs.1 (by rw [hsx]; exact List.mem_cons_self)
          have ho : s.outdeg x = 2 := by
            have h1 := hF.outdeg_le x
            unfold outdeg at h1 ⊢; rw [hsx] at h1 ⊢; simp at h1 ⊢; omega
          have hny := hH.2 x y (SegDown.refl x) hxy ho
          rw [hsx] at hn'
          cases f with
          | zero => simp [bfs] at hn'
          | succ f' =>
            rw [bfs] at hn'
            · rw [List.cons_append, List.takeWhile_cons] at hn'
              simp [hny] at hn'
            · intro h; cases h
    · cases hn

theorem eq_singleton_of_length_one {α} {l : List α} (h : l.length = 1) {c : α} (hc : c ∈ l) :
    l = [c] := by
  match l, h with
  | [x], _ => simp at hc; rw [hc]

theorem tw_complete {s : St} (old : Nat) :
    ∀ (f : Nat) (x n : Node), s.tidOf x = some old → ChainHyp s old x → s.SegDown x n →
      n ∈ bfs s.succs f [x] →
      n ∈ (bfs s.succs f [x]).takeWhile (fun m => s.tidOf m == some old)
  | 0, x, n, _, _, _, hn => by simp [bfs] at hn
  | f + 1, x, n, hP, hH, hseg, hn => by
    rw [bfs_single] at hn ⊢
    rw [List.takeWhile_cons]
    simp only [hP, beq_self_eq_true, if_true]
    by_cases hnx : n = x
    · subst hnx; exact List.mem_cons_self
    · rcases hseg.head with h | ⟨ho, c, hxc, hcn⟩
      · exact absurd h.symm hnx
      · have hsx : s.succs x = [c] := eq_singleton_of_length_one ho (mem_succs.2 hxc)
        rw [hsx] at hn ⊢
        rcases List.mem_cons.1 hn with h | hn'
        · exact absurd h hnx
        · exact List.mem_cons_of_mem _
            (tw_complete old f c n (hH.1 x c (SegDown.refl x) hxc ho) (hH.child hxc ho) hcn hn')

/-- **track-id effect of the walk**: under the chain hypotheses the walk writes `newT` on exactly
    the chain `SegDown s start ·` and changes no other track id -/
theorem walk_tid {s : St} (hF : s.Forest) {start : Node} (hs : start ∈ s.ids)
    (oldT newT : Nat) (oldL newL : Option Nat) (hold : s.tidOf start = some oldT)
    (hH : ChainHyp s oldT start) :
    (∀ n, s.SegDown start n → (s.walk start oldT newT oldL newL).tidOf n = some newT) ∧
    (∀ n, ¬ s.SegDown start n → (s.walk start oldT newT oldL newL).tidOf n = s.tidOf n) := by
  have hn := (walk_nodes_edges s start oldT newT oldL newL).1
  have hb := bfs_walk hF hs
  have ht := foldl_visit_tid oldT newT newL (newL.isSome && s.linOn) s.tidOf
    (bfs s.succs (s.nodes.length + 1) [start]) ⟨s, true, [], []⟩ hb.1
    (fun m hm => ((hb.2 m).1 hm).mem hF hs) (fun _ _ => rfl) rfl
  have hiff : ∀ n, n ∈ (bfs s.succs (s.nodes.length + 1) [start]).takeWhile
      (fun m => s.tidOf m == some oldT) ↔ s.SegDown start n := by
    intro n
    constructor
    · exact tw_sound hF oldT _ start n hH
    · intro h
      exact tw_complete oldT _ start n hold hH h ((hb.2 n).2 h.anc)
  refine ⟨?_, ?_⟩
  · intro n hseg
    rw [tidOf_congr hn]
    exact ht.2.1 n ((hiff n).2 hseg)
  · intro n hseg
    rw [tidOf_congr hn]
    exact ht.2.2 n (fun h => hseg ((hiff n).1 h))

/-- under `TidOK` the chain hypotheses hold at every node for its own track id -/
theorem TidOK.chainHyp {s : St} (hF : s.Forest) (hT : s.TidOK) {x : Node} {t : Nat}
    (hx : x ∈ s.ids) (ht : s.tidOf x = some t) : ChainHyp s t x := by
  refine ⟨?_, ?_⟩
  · intro p c hp hpc ho
    have := hT.of_sameSeg ((hp.step _ _ _ hpc ho).sameSeg hx)
    rw [← this]; exact ht
  · intro p c hp hpc ho hc
    -- c is a head; the head of x's segment is a different head with the same id
    rcases exists_head hF _ x hx rfl with ⟨h, hh, hhx⟩
    have hch : s.IsHead c := by
      refine ⟨hF.dst_mem _ hpc, fun q hq => ?_⟩
      rw [hF.par_unique hq hpc]; exact ho
    have hne : h ≠ c := by
      intro heq; subst heq
      -- h above x above p, and p → h: cycle
      have h1 := (hhx.anc.trans hp.anc).tm_le hF
      have h2 := hF.tm_lt hpc
      omega
    apply hT.heads h c hh hch hne
    rw [hT.of_sameSeg (hhx.sameSeg hh.1), ht, hc]

/-! ### track ids: `uDeleteEdge` -/

theorem tidOf_some_mem {s : St} {n : Node} {t : Nat} (h : s.tidOf n = some t) : n ∈ s.ids := by
  unfold tidOf at h
  cases hf : s.findNode n with
  | none => rw [hf] at h; cases h
  | some r => exact findNode_mem hf

theorem tidOf_of_findNode {s : St} {n : Node} {r} (h : s.findNode n = some r) :
    s.tidOf n = some r.tid := by
  unfold tidOf; rw [h]; rfl

theorem visit_tid_same (old nl ul) (c : Core) (x m : Node) :
    (visit old old nl ul c x).s.tidOf m = c.s.tidOf m := by
  by_cases hm : m = x
  · subst hm
    unfold visit
    cases ul <;> simp only [Bool.false_eq_true, if_false, if_true] <;> split
    · rename_i h
      simp only [Bool.and_eq_true, beq_iff_eq] at h
      rw [tidOf_setTid_self _ _ _ (tidOf_some_mem h.2)]; exact h.2.symm
    · rfl
    · rename_i h
      simp only [Bool.and_eq_true, beq_iff_eq] at h
      rw [tidOf_setTid_self _ _ _ (tidOf_some_mem h.2), ← h.2, tidOf_setLin]
    · rw [tidOf_setLin]
  · exact visit_tid_ne old old nl ul c x hm

theorem foldl_visit_tid_same (old nl ul) (l : List Node) (c : Core) (m : Node) :
    (l.foldl (visit old old nl ul) c).s.tidOf m = c.s.tidOf m := by
  induction l generalizing c with
  | nil => rfl
  | cons x l ih => rw [List.foldl_cons, ih, visit_tid_same]

/-- a walk that "relabels" to the same track id changes no track id -/
theorem walk_tid_same (s : St) (start : Node) (t : Nat) (oldL newL : Option Nat) (m : Node) :
    (s.walk start t t oldL newL).tidOf m = s.tidOf m := by
  rw [tidOf_congr (walk_nodes_edges s start t t oldL newL).1]
  exact foldl_visit_tid_same t newL _ _ ⟨s, true, [], []⟩ m

theorem outdeg_delE_ne (s : St) {u v p : Node} (h : p ≠ u) :
    (s.delE (u, v)).outdeg p = s.outdeg p := by
  rw [outdeg_eq, outdeg_eq, delE_edgeList, List.filter_filter]
  congr 1
  apply List.filter_congr
  intro x _
  by_cases hx : x.1 = p
  · have : x ≠ (u, v) := by intro heq; subst heq; exact h hx.symm
    simp [hx, this]
  · simp [hx]

theorem outdeg_delE_le (s : St) (e : Edge) (p : Node) : (s.delE e).outdeg p ≤ s.outdeg p :=
  (delE_succs_sublist s e p).length_le

/-- chains that do not contain the source of the removed edge are chains of the old graph -/
theorem SegDown.of_delE {s : St} {u v x n : Node} (hx : ¬ s.Anc x u)
    (h : (s.delE (u, v)).SegDown x n) : s.SegDown x n := by
  induction h with
  | refl => exact SegDown.refl _
  | step p c _ he ho ih =>
    have hpu : p ≠ u := by intro heq; subst heq; exact hx ih.anc
    exact SegDown.step _ p c ih (mem_delE.1 he).1 (by rw [← outdeg_delE_ne s hpu]; exact ho)

theorem chainHyp_delE {s : St} (hF : s.Forest) (hT : s.TidOK) {u v x : Node} {t : Nat}
    (hx : x ∈ s.ids) (hxu : ¬ s.Anc x u) (ht : s.tidOf x = some t) :
    ChainHyp (s.delE (u, v)) t x := by
  have hc := hT.chainHyp hF hx ht
  refine ⟨?_, ?_⟩
  · intro p c hp hpc ho
    have hp' := hp.of_delE hxu
    have hpu : p ≠ u := by intro heq; subst heq; exact hxu hp'.anc
    exact hc.1 p c hp' (mem_delE.1 hpc).1 (by rw [← outdeg_delE_ne s hpu]; exact ho)
  · intro p c hp hpc ho
    have hp' := hp.of_delE hxu
    have hpu : p ≠ u := by intro heq; subst heq; exact hxu hp'.anc
    exact hc.2 p c hp' (mem_delE.1 hpc).1 (by rw [← outdeg_delE_ne s hpu]; exact ho)

/-- a node strictly inside a chain is not a head -/
theorem SegDown.not_head {s : St} {x a : Node} (h : s.SegDown x a) (hne : a ≠ x) : ¬ s.IsHead a := by
  intro hh
  rcases h.tail with h1 | ⟨p, _, hp, ho⟩
  · exact hne h1.symm
  · exact hh.no_in hp ho

/-- chains are closed under "child of a node outside is outside", except at the start -/
theorem SegDown.closed {s : St} (hF : s.Forest) {x p c : Node} (hpc : (p, c) ∈ s.edgeList)
    (hp : ¬ s.SegDown x p) (hcx : c ≠ x) : ¬ s.SegDown x c := by
  intro h
  rcases h.tail with h1 | ⟨p', hp', hp'c, _⟩
  · exact hcx h1.symm
  · rw [hF.par_unique hpc hp'c] at hp; exact hp hp'

/-- what the C04 step theorems assume and re-establish -/
structure TidInv (s : St) : Prop where
  forest : s.Forest
  tidOK : s.TidOK
  max : ∀ n t, s.tidOf n = some t → t ≤ s.maxTid

theorem isHead_of_delE {s : St} (hF : s.Forest) {u v a : Node} (h : (s.delE (u, v)).IsHead a)
    (hav : a ≠ v) : s.IsHead a := by
  refine ⟨h.1, fun p hp => ?_⟩
  have h1 := h.2 p (mem_delE.2 ⟨hp, by intro heq; cases heq; exact hav rfl⟩)
  have h2 := outdeg_delE_le s (u, v) p
  have h3 := hF.outdeg_le p
  omega

/-- removal of a non-division edge `(u,v)`: the chain below `v` gets a fresh id -/
theorem cutTid0 {s s' : St} (hI : s.TidInv) {u v : Node} (he : (u, v) ∈ s.edgeList)
    (ho : (s.delE (u, v)).outdeg u = 0) (hG : SameG (s.delE (u, v)) s')
    (hin : ∀ n, (s.delE (u, v)).SegDown v n → s'.tidOf n = some (s.maxTid + 1))
    (hout : ∀ n, ¬ (s.delE (u, v)).SegDown v n → s'.tidOf n = s.tidOf n) : s'.TidOK := by
  have hF := hI.forest
  have hF1 := hF.delE (u, v)
  have hroot : ∀ p, (p, v) ∉ (s.delE (u, v)).edgeList := by
    intro p hp
    rcases mem_delE.1 hp with ⟨hp1, hp2⟩
    have := hF.par_unique hp1 he
    subst this; exact hp2 rfl
  have hfresh : ∀ n, s.tidOf n ≠ some (s.maxTid + 1) := by
    intro n hn; have := hI.max n _ hn; omega
  refine ⟨?_, ?_⟩
  · rintro ⟨p, c⟩ hx hop
    rw [hG.edgeList] at hx
    rw [hG.outdeg] at hop
    simp only at hop ⊢
    by_cases hp : (s.delE (u, v)).SegDown v p
    · rw [hin c (hp.step _ _ _ hx hop), hin p hp]
    · have hcv : c ≠ v := by intro heq; subst heq; exact hroot p hx
      rw [hout c (SegDown.closed hF1 hx hp hcv), hout p hp]
      have hpu : p ≠ u := by intro heq; subst heq; omega
      exact hI.tidOK.along (p, c) (mem_delE.1 hx).1 (by rw [← outdeg_delE_ne s hpu]; exact hop)
  · intro a b ha hb hab
    have key : ∀ a, s'.IsHead a → (a = v ∧ s'.tidOf a = some (s.maxTid + 1)) ∨
        (a ≠ v ∧ s.IsHead a ∧ s'.tidOf a = s.tidOf a) := by
      intro a ha
      have ha1 : (s.delE (u, v)).IsHead a :=
        ⟨hG.ids ▸ ha.1, fun p hp => by rw [← hG.outdeg]; exact ha.2 p (hG.edgeList ▸ hp)⟩
      by_cases hav : a = v
      · subst hav; exact Or.inl ⟨rfl, hin a (SegDown.refl a)⟩
      · refine Or.inr ⟨hav, isHead_of_delE hF ha1 hav, hout a ?_⟩
        intro hseg; exact hseg.not_head hav ha1
    rcases key a ha with ⟨ha1, ha2⟩ | ⟨ha1, ha2, ha3⟩ <;>
      rcases key b hb with ⟨hb1, hb2⟩ | ⟨hb1, hb2, hb3⟩
    · exact absurd (ha1.trans hb1.symm) hab
    · rw [ha2, hb3]; exact fun h => hfresh b h.symm
    · rw [ha3, hb2]; exact hfresh a
    · rw [ha3, hb3]; exact hI.tidOK.heads a b ha2 hb2 hab

/-- removal of a division edge `(u,v)`: the chain below the sibling joins the track of `u` -/
theorem cutTid1 {s s' : St} (hI : s.TidInv) {u v sib : Node} {tu : Nat} (he : (u, v) ∈ s.edgeList)
    (ho : (s.delE (u, v)).outdeg u = 1) (hsib : (u, sib) ∈ (s.delE (u, v)).edgeList)
    (htu : s.tidOf u = some tu) (hG : SameG (s.delE (u, v)) s')
    (hin : ∀ n, (s.delE (u, v)).SegDown sib n → s'.tidOf n = some tu)
    (hout : ∀ n, ¬ (s.delE (u, v)).SegDown sib n → s'.tidOf n = s.tidOf n) : s'.TidOK := by
  have hF := hI.forest
  have hF1 := hF.delE (u, v)
  have hsibE : (u, sib) ∈ s.edgeList := (mem_delE.1 hsib).1
  have hu_out : ¬ (s.delE (u, v)).SegDown sib u := by
    intro h
    have h1 := h.anc.tm_le hF1
    have h2 := hF1.tm_lt hsib
    omega
  have hvhead : s.IsHead v := by
    refine ⟨hF.dst_mem _ he, fun p hp => ?_⟩
    have hpu := hF.par_unique hp he
    subst hpu
    -- two distinct children v, sib of u
    have hne : sib ≠ v := by intro heq; subst heq; exact (mem_delE.1 hsib).2 rfl
    have h2 : 2 ≤ s.outdeg p := by
      have hs : List.Sublist [sib] ((s.delE (p, v)).succs p) := by
        rw [eq_singleton_of_length_one ho (mem_succs.2 hsib)]
        exact List.Sublist.refl _
      rw [outdeg_eq]
      have hnd : [(p, v), (p, sib)].Nodup := by simp; intro h; exact hne h.symm
      have hsub : ∀ x ∈ [(p, v), (p, sib)], x ∈ s.edgeList.filter (·.1 == p) := by
        intro x hx
        simp only [List.mem_cons, List.not_mem_nil, or_false] at hx
        rcases hx with rfl | rfl <;> simp [List.mem_filter, he, hsibE]
      clear hs
      -- a duplicate-free two-element list inside the filter
      have : ∀ (l : List Edge), (p, v) ∈ l → (p, sib) ∈ l → 2 ≤ l.length := by
        intro l h1 h2
        match l, h1, h2 with
        | [], h1, _ => cases h1
        | [x], h1, h2 =>
          simp only [List.mem_singleton] at h1 h2
          rw [← h1] at h2; cases h2; exact absurd rfl hne
        | _ :: _ :: _, _, _ => simp
      exact this _ (hsub _ (by simp)) (hsub _ (by simp))
    have := hF.outdeg_le p
    omega
  refine ⟨?_, ?_⟩
  · rintro ⟨p, c⟩ hx hop
    rw [hG.edgeList] at hx
    rw [hG.outdeg] at hop
    simp only at hop ⊢
    by_cases hpu : p = u
    · subst hpu
      have hc : c = sib := child_unique hop hx hsib
      subst hc
      rw [hin c (SegDown.refl c), hout p hu_out, htu]
    · by_cases hp : (s.delE (u, v)).SegDown sib p
      · rw [hin c (hp.step _ _ _ hx hop), hin p hp]
      · have hcs : c ≠ sib := by
          intro heq; subst heq; exact hpu (hF1.par_unique hx hsib)
        rw [hout c (SegDown.closed hF1 hx hp hcs), hout p hp]
        exact hI.tidOK.along (p, c) (mem_delE.1 hx).1 (by rw [← outdeg_delE_ne s hpu]; exact hop)
  · intro a b ha hb hab
    have key : ∀ a, s'.IsHead a → s.IsHead a ∧ s'.tidOf a = s.tidOf a := by
      intro a ha
      have ha1 : (s.delE (u, v)).IsHead a :=
        ⟨hG.ids ▸ ha.1, fun p hp => by rw [← hG.outdeg]; exact ha.2 p (hG.edgeList ▸ hp)⟩
      have hasib : a ≠ sib := by
        intro heq; subst heq; exact ha1.no_in hsib ho
      have hhead : s.IsHead a := by
        by_cases hav : a = v
        · subst hav; exact hvhead
        · exact isHead_of_delE hF ha1 hav
      refine ⟨hhead, hout a ?_⟩
      intro hseg; exact hseg.not_head hasib ha1
    rw [(key a ha).2, (key b hb).2]
    exact hI.tidOK.heads a b (key a ha).1 (key b hb).1 hab

/-- accepted `uDeleteEdge`: track-id invariant bundle preserved + frame (only descendants of the
    edge's source can change their track id) -/
theorem uDeleteEdge_tidInv {s : St} (hI : s.TidInv) {e : Edge} {recs}
    (hok : (s.uDeleteEdge e).2 = .ok recs) :
    (s.uDeleteEdge e).1.TidInv ∧
    ∀ n, ¬ s.Anc e.1 n → (s.uDeleteEdge e).1.tidOf n = s.tidOf n := by
  obtain ⟨u, v⟩ := e
  have hmem : (u, v) ∈ s.edgeList := hasEdge_iff.1 (uDeleteEdge_hasEdge hok)
  have hF := hI.forest
  have hF1 : (s.delE (u, v)).Forest := hF.delE _
  have hlt := hF.tm_lt hmem
  have hdesc : ∀ x n, (u, x) ∈ s.edgeList → (s.delE (u, v)).SegDown x n → s.Anc u n := by
    intro x n hx h
    exact Anc.cons hx (Anc.mono (fun y hy => (mem_delE.1 hy).1) h.anc)
  rcases uDeleteEdge_shape hok with ⟨r, ho, hr, hs'⟩ | ⟨sib, t, rs, t2, r2, ho, hh, htu, hrs, ht2, hr2, hs'⟩
  · simp only at ho hr hs'
    have hvu : ¬ s.Anc v u := by intro h; have := h.tm_le hF; omega
    have hv : v ∈ s.ids := hF.dst_mem _ hmem
    have hch := chainHyp_delE (v := v) hF hI.tidOK hv hvu (tidOf_of_findNode hr)
    have hw := walk_tid hF1 hv r.tid (s.delE (u, v)).nextTid r.lin (some (s.delE (u, v)).nextLin)
      (tidOf_of_findNode hr) hch
    have hG := walk_sameG (s.delE (u, v)) v r.tid (s.delE (u, v)).nextTid r.lin
      (some (s.delE (u, v)).nextLin)
    have hmt := walk_maxTid (s.delE (u, v)) v r.tid (s.delE (u, v)).nextTid r.lin
      (some (s.delE (u, v)).nextLin)
    rw [hs']
    have hnt : (s.delE (u, v)).nextTid = s.maxTid + 1 := rfl
    rw [hnt] at hw hmt
    rw [hnt]
    refine ⟨⟨hG.forest hF1, cutTid0 hI hmem ho hG hw.1 hw.2, ?_⟩, ?_⟩
    · intro n tt hn
      rw [hmt, delE_maxTid]
      simp only [Nat.lt_add_one, if_true, gt_iff_lt]
      by_cases hseg : (s.delE (u, v)).SegDown v n
      · rw [hw.1 n hseg] at hn; cases hn; exact Nat.le_refl _
      · rw [hw.2 n hseg] at hn; have := hI.max n tt hn; omega
    · intro n hn
      apply hw.2
      intro hseg; exact hn (hdesc v n hmem hseg)
  · simp only at ho hh htu hrs ht2 hr2 hs'
    have hsib1 : (u, sib) ∈ (s.delE (u, v)).edgeList := mem_succs.1 (List.mem_of_head? hh)
    have hsibE : (u, sib) ∈ s.edgeList := (mem_delE.1 hsib1).1
    have hsu : ¬ s.Anc sib u := by
      intro h; have := h.tm_le hF; have := hF.tm_lt hsibE; omega
    have hsi : sib ∈ s.ids := hF.dst_mem _ hsibE
    have hch := chainHyp_delE (v := v) hF hI.tidOK hsi hsu (tidOf_of_findNode hrs)
    have hw := walk_tid hF1 hsi rs.tid t rs.lin none (tidOf_of_findNode hrs) hch
    have hG2 := walk_sameG (s.delE (u, v)) sib rs.tid t rs.lin none
    have ht2' : t2 = r2.tid := by
      have := tidOf_of_findNode hr2
      rw [ht2] at this; cases this; rfl
    subst ht2'
    have hG3 := walk_sameG ((s.delE (u, v)).walk sib rs.tid t rs.lin none) v r2.tid r2.tid r2.lin
      (some ((s.delE (u, v)).walk sib rs.tid t rs.lin none).nextLin)
    have hsame := walk_tid_same ((s.delE (u, v)).walk sib rs.tid t rs.lin none) v r2.tid r2.lin
      (some ((s.delE (u, v)).walk sib rs.tid t rs.lin none).nextLin)
    have hin : ∀ n, (s.delE (u, v)).SegDown sib n → (s.uDeleteEdge (u, v)).1.tidOf n = some t := by
      intro n hn; rw [hs', hsame]; exact hw.1 n hn
    have hout : ∀ n, ¬ (s.delE (u, v)).SegDown sib n →
        (s.uDeleteEdge (u, v)).1.tidOf n = s.tidOf n := by
      intro n hn; rw [hs', hsame]; exact hw.2 n hn
    have hG : SameG (s.delE (u, v)) (s.uDeleteEdge (u, v)).1 := by
      rw [hs']; exact hG2.trans hG3
    have htmax : t ≤ s.maxTid := hI.max u t htu
    refine ⟨⟨hG.forest hF1, cutTid1 hI hmem ho hsib1 htu hG hin hout, ?_⟩, ?_⟩
    · have hall : ∀ n tt, (s.uDeleteEdge (u, v)).1.tidOf n = some tt → tt ≤ s.maxTid := by
        intro n tt hn
        by_cases hseg : (s.delE (u, v)).SegDown sib n
        · rw [hin n hseg] at hn; cases hn; exact htmax
        · rw [hout n hseg] at hn; exact hI.max n tt hn
      have hr2max : r2.tid ≤ s.maxTid := by
        apply hall v
        rw [hs', hsame]; exact tidOf_of_findNode hr2
      intro n tt hn
      have h1 := hall n tt hn
      rw [hs', walk_maxTid, walk_maxTid, delE_maxTid]
      split <;> split <;> omega
    · intro n hn
      apply hout
      intro hseg; exact hn (hdesc sib n hsibE hseg)

/-- a small concrete state for the non-vacuity examples: 1 → 2 → {3, 4} (division at 2),
    5 → 6 (a skip edge), with consistent ids and bookkeeping -/
def exState : St :=
  { nodes := [⟨1, 0, 1, some 1, []⟩, ⟨2, 1, 1, some 1, []⟩, ⟨3, 2, 2, some 1, []⟩,
              ⟨4, 2, 3, some 1, []⟩, ⟨5, 0, 4, some 2, []⟩, ⟨6, 3, 4, some 2, []⟩],
    edges := [⟨(1, 2), []⟩, ⟨(2, 3), []⟩, ⟨(2, 4), []⟩, ⟨(5, 6), []⟩],
    t2n := [(1, [1, 2]), (2, [3]), (3, [4]), (4, [5, 6])],
    l2n := [(1, [1, 2, 3, 4]), (2, [5, 6])],
    maxTid := 4, maxLin := 2, counter := 7 }

end St
end Ft
