/-
  FtProofs.R5BReachLemmas — package R5B, part B5: the weak invariant of sessions with feature
  switching.

  * `WInv s`      **the weak invariant**: the annotation-free core of `s` (w.r.t. its measurement
                  keys `AKeys s`) satisfies the bundle invariant `R3D.Inv`, the state has an array,
                  every active regionprops key is available, every recorded `DeleteNode` carries
                  its pixels.  It says nothing about the stored measurement values, their
                  registration or activation — exactly what `enable` / `disable` and an undo /
                  redo under a different registry disturb (`R3D.Inv` itself is NOT preserved, see
                  `C10_inv_not_preserved_*` in `Props/C10_R5B.lean`).
  * `OpPre'`, `OpOK'`, `SessOK'`  the admissibility predicate of the operation language with
                  switching.
  * `winv_reach`  from an `R3D.Inv` start state with an array and an empty history, `WInv` holds at
                  every state reached by an admissible session — by transporting the session to the
                  core (`core_run`) and applying `C03_reach` there.
-/
import FtProofs.R5BStepLemmas
import FtProofs.Props.C02_R3D_main
namespace Ft.R5B
open Ft Ft.St Ft.R2A1 Ft.R3P Ft.R3D List

/-! ### the core of an `Inv` state satisfies `Inv` -/

theorem alook_strip_mem {A : List Key} {k : Key} (h : k ∈ A) (l : List (Key × Val)) :
    alook k (strip A l) = none := by
  induction l with
  | nil => rfl
  | cons x r ih =>
    obtain ⟨k', v'⟩ := x
    by_cases hm : k' ∈ A
    · rw [strip_cons_mem hm]; exact ih
    · rw [strip_cons_not_mem hm]
      have : (k' == k) = false := by
        apply Bool.eq_false_iff.2; intro he; exact hm ((by simpa using he : k' = k) ▸ h)
      simp only [alook, this, Bool.false_eq_true, if_false]; exact ih

theorem obsAttrs_strip (A : List Key) (l : List (Key × Val)) (k : Key) :
    obsAttrs (strip A l) k = if k ∈ A then Val.none else obsAttrs l k := by
  unfold obsAttrs
  by_cases h : k ∈ A
  · rw [alook_strip_mem h, if_pos h]; rfl
  · rw [alook_strip_not_mem h, if_neg h]

theorem cw_otherOf (A : List Key) (s : St) (n : Node) (k : Key) :
    (coreWith A s).otherOf n k = if k ∈ A then Val.none else s.otherOf n k := by
  unfold otherOf
  rw [cw_findNode]
  cases s.findNode n with
  | none => simp
  | some r => exact obsAttrs_strip A r.other k

theorem strip_keys_nodup {A : List Key} {l : List (Key × Val)} (h : (l.map (·.1)).Nodup) :
    ((strip A l).map (·.1)).Nodup :=
  h.sublist ((List.filter_sublist (l := l)).map _)

theorem cw_TV (A : List Key) (s : St) : R2A2.TV s (coreWith A s) :=
  ⟨fun n => (cw_timeOf A s n).symm, fun n => (cw_tidOf A s n).symm, fun n => (cw_linOf A s n).symm,
    fun e => by rw [cw_edgeList], rfl⟩

theorem cw_WF {A : List Key} {s : St} (h : WF s) : WF (coreWith A s) := by
  refine ⟨by rw [cw_ids]; exact h.ids, by rw [cw_edgeList]; exact h.edges, ?_, ?_, h.t2n, h.l2n⟩
  · intro r hr
    obtain ⟨r0, hr0, rfl⟩ := List.mem_map.1 hr
    exact strip_keys_nodup (h.nkeys r0 hr0)
  · intro r hr
    obtain ⟨r0, hr0, rfl⟩ := List.mem_map.1 hr
    exact strip_keys_nodup (h.ekeys r0 hr0)

theorem cw_MaxOK {A : List Key} {s : St} (h : MaxOK s) : MaxOK (coreWith A s) := by
  intro r hr
  obtain ⟨r0, hr0, rfl⟩ := List.mem_map.1 hr
  exact h r0 hr0

theorem cw_valid {A : List Key} {s : St} (hV : s.Valid) (hG : Good s) : (coreWith A s).Valid := by
  have tv := cw_TV A s
  have hw := cw_WF (A := A) hG.wf
  exact ⟨tv_forest tv hw.ids hw.edges hV.forest, tv_tidOK tv hG.wf.edges hw.edges hV.tid, tv_linOK tv hV.lin,
    teq_bookOK ⟨tv, fun _ _ => Iff.rfl, fun _ _ => Iff.rfl⟩ hw (cw_MaxOK hG.max) hV.book, hV.linOn⟩

theorem cw_segOK {A : List Key} {s : St} (h : SegOK s) : SegOK (coreWith A s) := by
  intro g hg
  obtain ⟨h1, h2⟩ := h g hg
  refine ⟨fun r hr => ?_, fun i hi hne => ?_⟩
  · obtain ⟨r0, hr0, rfl⟩ := List.mem_map.1 hr
    exact h1 r0 hr0
  · obtain ⟨r, hr, e1, e2⟩ := h2 i hi hne
    exact ⟨coreN A r, List.mem_map.2 ⟨r, hr, rfl⟩, e1, e2⟩

theorem mem_filter_not {A : List Key} {l : List Key} {k : Key} (h1 : k ∈ l) (h2 : k ∉ A) :
    k ∈ l.filter (fun k => !(A.contains k)) := by
  rw [List.mem_filter]
  refine ⟨h1, ?_⟩
  simpa using h2

theorem cw_inv {A : List Key} {s : St} (hI : Inv s) (hc : Cov A s) : Inv (coreWith A s) := by
  refine ⟨cw_valid hI.valid hI.good, ⟨cw_WF hI.good.wf, cw_MaxOK hI.good.max⟩, ?_, ?_, cw_segOK hI.segOK, ?_,
    hI.frame⟩
  · -- EdgeInv
    refine ⟨?_, ?_, ?_⟩
    · rintro o ⟨r, hr, rfl⟩ k hk
      obtain ⟨r0, hr0, rfl⟩ := List.mem_map.1 hr
      have hk' : obsAttrs (strip A r0.attrs) k ≠ Val.none := hk
      rw [obsAttrs_strip] at hk'
      by_cases hm : k ∈ A
      · rw [if_pos hm] at hk'; exact absurd rfl hk'
      · rw [if_neg hm] at hk'
        exact mem_filter_not (hI.edge.reg (obsEdge r0) ⟨r0, hr0, rfl⟩ k hk') hm
    · intro ha _ k hk
      rw [cw_iouActive_cov hc k hk] at ha; cases ha
    · intro k hk ha
      rw [cw_iouActive_cov hc k hk] at ha; cases ha
  · -- NodeInv
    refine ⟨?_, ?_, ?_, ?_, ?_⟩
    · intro n k hk
      rw [cw_otherOf] at hk
      by_cases hm : k ∈ A
      · rw [if_pos hm] at hk; exact absurd rfl hk
      · rw [if_neg hm] at hk
        exact mem_filter_not (hI.node.registered n k hk) hm
    · intro k hk; rw [cw_rpActive_cov hc] at hk; cases hk
    · intro _ n _ k hk; cases hk
    · intro g _ n t _ k hk; rw [cw_rpActive_cov hc] at hk; cases hk
    · intro g hg; rw [cw_ids]; exact hI.node.ne0 g hg
  · intro k hk; rw [cw_rpActive_cov hc] at hk; cases hk

/-! ### admissibility of the operation language with switching -/

/-- the argument preconditions of one operation of `Op'`:
    * the seven edits: `R3D.OpPre` (for update-attrs: only if no protected key is named — otherwise
      the edit is refused whatever else it says, `C10_protected_reach`);
    * `enable ks rc`: a RECOMPUTING enable does not name the track-id / lineage key (recomputing the
      ids renumbers them while the history still holds the old ones: `C10_inv_not_preserved_tid`,
      `…_lin`); a non-recomputing one names the lineage key only if it is already on.  Keys need
      not be available (then the call is refused, `C10_unknown_reach`), and measurement keys may be
      enabled without recomputation (the weak invariant does not speak about stored values);
    * `disable ks`: does not name the track-id / lineage key. -/
def OpPre' (s : St) : Op' → Prop
  | .enable ks rc => (rc = true → keyTid ∉ ks ∧ keyLin ∉ ks) ∧ (keyLin ∈ ks → rc = false → s.linOn = true)
  | .disable ks => keyTid ∉ ks ∧ keyLin ∉ ks
  | .updAttrs n attrs => (∃ kv ∈ attrs, kv.1 ∈ s.protectedKeys) ∨ OpPre s (.updAttrs n attrs)
  | op => OpPre s op

def IsSwitch : Op' → Prop
  | .enable .. | .disable .. => True
  | _ => False

/-- one admissible operation: undo, redo, a query, a top-level edit or a feature switch with `OpPre'` -/
def OpOK' (s : St) (op : Op') : Prop :=
  op = .undo ∨ op = .redo ∨ IsQuery op ∨ ((op.isTopEdit = true ∨ IsSwitch op) ∧ OpPre' s op)

/-- an admissible session -/
def SessOK' : St → List Op' → Prop
  | _, [] => True
  | s, op :: ops => OpOK' s op ∧ SessOK' (s.step op).1 ops

theorem opOK'_disable (s : St) (ks : List Key) (h : keyTid ∉ ks ∧ keyLin ∉ ks) : OpOK' s (.disable ks) :=
  .inr (.inr (.inr ⟨Or.inr trivial, h⟩))

theorem opOK'_enable_recompute (s : St) (ks : List Key) (h : keyTid ∉ ks ∧ keyLin ∉ ks) :
    OpOK' s (.enable ks true) :=
  .inr (.inr (.inr ⟨Or.inr trivial, ⟨fun _ => h, fun _ hc => (by cases hc)⟩⟩))

theorem opOK'_enable_plain (s : St) (ks : List Key) (h : keyLin ∉ ks) : OpOK' s (.enable ks false) :=
  .inr (.inr (.inr ⟨Or.inr trivial, ⟨fun hc => (by cases hc), fun hk _ => absurd hk h⟩⟩))

theorem opOK'_edit (s : St) (op : Op') (he : op.isTopEdit = true) (h : OpPre' s op) : OpOK' s op :=
  .inr (.inr (.inr ⟨Or.inl he, h⟩))

theorem sessOK'_append : ∀ (a b : List Op') (s : St), SessOK' s (a ++ b) → SessOK' s a
  | [], _, _, _ => trivial
  | _ :: a, b, _, h => ⟨h.1, sessOK'_append a b _ h.2⟩

theorem protectedIn_iff {A : List Key} {s : St} (hc : Cov A s) (attrs : List (Key × Val)) :
    protectedIn A attrs = true ↔ ∃ kv ∈ attrs, kv.1 ∈ s.protectedKeys := by
  unfold protectedIn
  rw [protectedKeys_eq, hc.eq, List.any_eq_true]
  constructor
  · rintro ⟨kv, h1, h2⟩; exact ⟨kv, h1, List.contains_iff_mem.1 h2⟩
  · rintro ⟨kv, h1, h2⟩; exact ⟨kv, h1, List.contains_iff_mem.2 h2⟩

/-- the admissibility of the simulation follows from `OpOK'` on a state with an array -/
theorem adm_of_opOK' {s : St} (hs : s.seg.isSome = true) {op : Op'} (h : OpOK' s op) : Adm s op := by
  cases op with
  | addNode a =>
    rcases h with h | h | h | ⟨_, h⟩
    · cases h
    · cases h
    · cases h
    · cases hg : s.seg with
      | none => rw [hg] at hs; cases hs
      | some g =>
        obtain ⟨-, px, t, hp, -⟩ := h.2.2 g hg
        show a.pixels.isSome = true
        rw [hp]; rfl
  | enable ks rc =>
    rcases h with h | h | h | ⟨_, h⟩
    · cases h
    · cases h
    · cases h
    · exact h
  | disable ks =>
    rcases h with h | h | h | ⟨_, h⟩
    · cases h
    · cases h
    · cases h
    · exact h
  | addEdge _ _ => trivial
  | delEdge _ => trivial
  | delNode _ => trivial
  | swap _ _ => trivial
  | paint _ _ _ _ => trivial
  | updAttrs _ _ => trivial
  | undo => trivial
  | redo => trivial
  | qNeighbors _ _ => trivial
  | qHasTrack _ _ => trivial
  | qNewIds _ => trivial
  | nop => trivial

/-- what the core sees of an admissible operation is admissible for `C03_reach` -/
theorem opOK_core {A : List Key} {s : St} (hc : Cov A s) {op : Op'} (h : OpOK' s op) :
    OpOK (coreWith A s) (coreOp A op) := by
  rcases h with rfl | rfl | hq | ⟨hk, hpre⟩
  · exact .inl rfl
  · exact .inr (.inl rfl)
  · refine .inr (.inr (.inl ?_))
    cases op <;> first | exact False.elim hq | exact trivial
  · cases op with
    | addEdge e f => exact .inr (.inr (.inr ⟨rfl, trivial⟩))
    | delEdge e => exact .inr (.inr (.inr ⟨rfl, trivial⟩))
    | delNode n => exact .inr (.inr (.inr ⟨rfl, trivial⟩))
    | swap a b => exact .inr (.inr (.inr ⟨rfl, trivial⟩))
    | addNode a =>
      refine .inr (.inr (.inr ⟨rfl, ?_⟩))
      obtain ⟨h1, h2, h3⟩ := hpre
      refine ⟨h1, ⟨strip_keys_nodup h2.keys, ?_, ?_, h2.ne0, h2.absent, h2.bg⟩, ?_⟩
      · intro kv hkv hv
        have hm := List.mem_filter.1 hkv
        have hnA : kv.1 ∉ A := by simpa using hm.2
        exact mem_filter_not (h2.registered kv hm.1 hv) hnA
      · intro _ k hk; cases hk
      · intro g hg; exact h3 g hg
    | paint v groups tid f =>
      refine .inr (.inr (.inr ⟨rfl, ?_⟩))
      intro g hg
      obtain ⟨t0, hp, hn⟩ := hpre g hg
      exact ⟨t0, by rw [cw_skel]; exact hp, hn⟩
    | updAttrs n attrs =>
      by_cases hp : protectedIn A attrs = true
      · refine .inr (.inr (.inl ?_))
        simp only [coreOp, hp, if_true]; trivial
      · refine .inr (.inr (.inr ?_))
        simp only [coreOp, hp, Bool.false_eq_true, if_false]
        refine ⟨rfl, ?_⟩
        rcases hpre with hpre | hpre
        · exact absurd ((protectedIn_iff hc attrs).2 hpre) hp
        · intro kv hkv
          refine ⟨fun hv => ?_, fun _ hk => (by cases hk)⟩
          have hnA : kv.1 ∉ A := by
            intro hA
            apply hp
            rw [protectedIn_iff hc]
            exact ⟨kv, hkv, hc.pa _ hA⟩
          exact mem_filter_not ((hpre kv hkv).1 hv) hnA
    | enable ks rc => exact .inr (.inr (.inl trivial))
    | disable ks => exact .inr (.inr (.inl trivial))
    | undo => exact .inl rfl
    | redo => exact .inr (.inl rfl)
    | qNeighbors _ _ => exact .inr (.inr (.inl trivial))
    | qHasTrack _ _ => exact .inr (.inr (.inl trivial))
    | qNewIds _ => exact .inr (.inr (.inl trivial))
    | nop => exact .inr (.inr (.inl trivial))

theorem admAll_of_sessOK' {A : List Key} : ∀ (ops : List Op') (s : St), Side A s → SessOK' s ops → AdmAll s ops
  | [], _, _, _ => trivial
  | op :: ops, _, hs, h => ⟨adm_of_opOK' hs.seg h.1, admAll_of_sessOK' ops _ (side_step hs op) h.2⟩

theorem sessOK_core {A : List Key} : ∀ (ops : List Op') (s : St), Side A s → SessOK' s ops →
    SessOK (coreWith A s) (ops.map (coreOp A))
  | [], _, _, _ => trivial
  | op :: ops, s, hs, h => by
    refine ⟨opOK_core hs.cov h.1, ?_⟩
    rw [core_step hs op (adm_of_opOK' hs.seg h.1)]
    exact sessOK_core ops _ (side_step hs op) h.2

/-! ### the weak invariant -/

/-- **the weak invariant** of sessions with feature switching -/
structure WInv (s : St) : Prop where
  core : Inv (coreWith (AKeys s) s)
  side : Side (AKeys s) s

theorem side_of_inv {s : St} (hI : Inv s) (hs : s.seg.isSome = true) (h0 : s.hist = {}) : Side (AKeys s) s :=
  ⟨hs, ⟨rfl, hI.avail⟩, fun a ha => by rw [h0] at ha; rcases ha with ha | ha <;> cases ha⟩

theorem winv_of_inv {s : St} (hI : Inv s) (hs : s.seg.isSome = true) (h0 : s.hist = {}) : WInv s :=
  ⟨cw_inv hI (side_of_inv hI hs h0).cov, side_of_inv hI hs h0⟩

/-- **the weak invariant holds at every state reached by an admissible session with switching** -/
theorem winv_reach (s0 : St) (h0 : s0.hist = {}) (hs : s0.seg.isSome = true) (hI : Inv s0)
    (ops : List Op') (hok : SessOK' s0 ops) :
    WInv (run s0 ops) ∧
    coreWith (AKeys s0) (run s0 ops) = run (coreWith (AKeys s0) s0) (ops.map (coreOp (AKeys s0))) := by
  have hside := side_of_inv hI hs h0
  have hrun := core_run ops s0 hside (admAll_of_sessOK' ops s0 hside hok)
  have hA : AKeys (run s0 ops) = AKeys s0 := AKeys_of_avail (avail_run s0 ops)
  refine ⟨⟨?_, by rw [hA]; exact side_run ops s0 hside⟩, hrun⟩
  rw [hA, hrun, run_eq_sessFinal _ ⟨[coreWith (AKeys s0) s0], 0⟩]
  exact (C03_reach (coreWith (AKeys s0) s0) (by rw [cw_hist, h0]; rfl) (cw_inv hI hside.cov) _
    (sessOK_core ops s0 hside hok)).2.1

/-! ### what the weak invariant gives about the state itself -/

theorem WInv.segOK {s : St} (h : WInv s) : SegOK s := by
  intro g hg
  obtain ⟨h1, h2⟩ := h.core.segOK g hg
  refine ⟨fun r hr => h1 (coreN _ r) (List.mem_map.2 ⟨r, hr, rfl⟩), fun i hi hne => ?_⟩
  obtain ⟨r, hr, e1, e2⟩ := h2 i hi hne
  obtain ⟨r0, hr0, rfl⟩ := List.mem_map.1 hr
  exact ⟨r0, hr0, e1, e2⟩

theorem WInv.ids_nodup {s : St} (h : WInv s) : s.ids.Nodup := by
  have := h.core.good.wf.ids
  rwa [cw_ids] at this

theorem WInv.ids_ne0 {s : St} (h : WInv s) : ∀ r ∈ s.nodes, r.id ≠ 0 := by
  intro r hr h0
  obtain ⟨g, hg⟩ := Option.isSome_iff_exists.1 h.side.seg
  have := h.core.node.ne0 g hg
  rw [cw_ids] at this
  exact this (h0 ▸ List.mem_map.2 ⟨r, hr, rfl⟩)

theorem WInv.forest {s : St} (h : WInv s) : s.Forest :=
  tv_forest (cw_TV _ s).symm h.ids_nodup (by have := h.core.good.wf.edges; rwa [cw_edgeList] at this)
    h.core.valid.forest

theorem WInv.frame {s : St} (h : WInv s) : ∀ g, s.seg = some g → 0 < g.frame := h.core.frame

end Ft.R5B
