/-
  FtProofs.R3BLemmas — package R3B (C01 / C11): the composite edge actions `uDeleteEdge`, `uAddEdge`
  (forced or not), `uSwap`, `uUpdateAttrs` as lawful runs over the common equivalence `Ft.R3P.E`.

  §1  `Mid`: what holds at every intermediate state of these actions (`Good`, `Forest`, `BookOK`,
      `EdgeInv` — not `TidOK`, which is broken between the primitives); one-primitive extensions
      of a `Run`: `run_delEdge`, `run_updTid`, `run_addEdge`.
  §2  the view precondition `R2A2.ViewPre` of `UpdateTrackIDs` at the intermediate states:
      transfer across an edge cut elsewhere (`viewPre_delE`), across a relabelling elsewhere
      (`viewPre_transfer`, `viewPre_walk_other`), disjointness of the subtree of a root from the
      subtree of a node with a parent outside (`disjoint_root`).
  §3  `uDeleteEdge`, §4 the relabel-and-link part `tk_addTail` (`addTail_total`: it either runs
      lawfully to the end or stops at the triple-division test with the rollback) and `uAddEdge`,
      §5 `uSwap`, §6 `uUpdateAttrs`: each accepted call from a state with
      `Inv3 = Valid ∧ Good ∧ EdgeInv` is a `Run` (its record list is a `Chain E` from the input to
      the result) and re-establishes `Inv3` (`uDeleteEdge_run`, `uAddEdge_run`, `uSwap_run`,
      `uUpdateAttrs_run`).
  §7  acceptance of `uDeleteEdge` on an existing edge of a forest; the refused forced add-edge
      (`triple_forced`): rollback lands in the `E`-class of the input; every refused `uAddEdge`
      (`uAddEdge_refused`) and `uDeleteEdge` (`uDeleteEdge_refused`).
  §8  the explicit undo / redo reading of a run; example states.
-/
import FtProofs.R3PLemmas
import FtProofs.R2BLemmas
import FtProofs.R3ALemmas

namespace Ft.R3B
open Ft Ft.St Ft.R2A1 Ft.R3P List

/-! ## §1 intermediate-state invariant, one-primitive extensions of a run -/

/-- what holds at every state between two primitives of an edge action -/
structure Mid (s : St) : Prop where
  good : Good s
  forest : s.Forest
  book : s.BookOK
  edge : EdgeInv s

/-- the invariant of the user-level theorems -/
structure Inv3 (s : St) : Prop where
  valid : s.Valid
  good : Good s
  edge : EdgeInv s

theorem Inv3.mid {s : St} (h : Inv3 s) : Mid s := ⟨h.good, h.valid.forest, h.valid.book, h.edge⟩

theorem Inv3.of_E {s t : St} (h : E s t) (ht : Inv3 t) : Inv3 s :=
  ⟨valid_congrE h ht.good.wf ht.valid, Good.of_E h ht.good, edgeInv_congrE h ht.good.wf ht.edge⟩

/-- `UpdateTrackIDs` inside a run, under its view precondition -/
theorem run_updTid {s0 : St} {a : UOut} {f : St → Except Err (St × PrimRec)} {start : Node}
    {oT nT : Nat} {oL nL : Option Nat} (hr : Run s0 a) (hm : Mid a.1)
    (hp : R2A2.ViewPre a.1 start oT nT oL nL) (hf : f a.1 = a.1.pUpdTid start nT nL) :
    Run s0 (St.thenPrim a f) ∧ (St.thenPrim a f).1 = a.1.walk start oT nT oL nL ∧
      Mid (a.1.walk start oT nT oL nL) := by
  obtain ⟨h1, _⟩ := pUpdTid_tidStep hm.good.wf hm.forest hm.book hp
  have hl := law_updTid hm.good.wf hm.forest hm.book hp h1
  obtain ⟨_, _, hg, hF, hB⟩ := good_updTid hm.good.wf hm.forest hm.book hp h1
  have hi := edgeInv_updTid hm.good.wf hm.forest hm.book hp hm.edge h1
  obtain ⟨r1, r2⟩ := Run.thenPrim hr (hf.trans h1) hl
  exact ⟨r1, r2, hg, hF, hB, hi⟩

/-- `DeleteEdge` of an existing edge inside a run -/
theorem run_delEdge {s0 : St} {a : UOut} {f : St → Except Err (St × PrimRec)} {e : Edge}
    (hr : Run s0 a) (hm : Mid a.1) (he : e ∈ a.1.edgeList) (hf : f a.1 = a.1.pDelEdge e) :
    Run s0 (St.thenPrim a f) ∧ (St.thenPrim a f).1 = a.1.tk_delE e ∧ Mid (a.1.tk_delE e) := by
  obtain ⟨r, hd⟩ := tk_pDelEdge_ok (tk_hasEdge_iff.2 he)
  have hp : DelEdgePre a.1 e :=
    DelEdgePre.of_edgeInv hm.good.wf (hm.forest.src_mem _ he) (hm.forest.dst_mem _ he) hm.edge
  have hl := law_delEdge hp hm.good.max hd
  have hbv := PC.pDelEdge_BV hd
  obtain ⟨hT, hL⟩ := (PC.bookOK_iff _).1 hm.book
  obtain ⟨r1, r2⟩ := Run.thenPrim hr (hf.trans hd) hl
  exact ⟨r1, r2, good_delEdge hp hm.good.max hd, hm.forest.tk_delE e,
    (PC.bookOK_iff _).2 ⟨hbv.TOK hT, hbv.LOK hL⟩, edgeInv_delEdge hp hm.edge hd⟩

/-- `AddEdge` (no attributes) of a new edge between present nodes inside a run -/
theorem run_addEdge {s0 : St} {a : UOut} {f : St → Except Err (St × PrimRec)} {e : Edge}
    (hr : Run s0 a) (hm : Mid a.1) (hne : e ∉ a.1.edgeList) (hu : e.1 ∈ a.1.ids) (hv : e.2 ∈ a.1.ids)
    (hf : f a.1 = a.1.pAddEdge e []) :
    Run s0 (St.thenPrim a f) ∧ Good (St.thenPrim a f).1 ∧ EdgeInv (St.thenPrim a f).1 := by
  have hne' : a.1.hasEdge e = false := by
    cases h : a.1.hasEdge e with
    | false => rfl
    | true => exact absurd (tk_hasEdge_iff.1 h) hne
  have hd := pAddEdge_new (s := a.1) (e := e) [] ((PC.hasNode_iff _ _).2 hu) ((PC.hasNode_iff _ _).2 hv) hne'
  have hp : AddEdgePre a.1 e [] := AddEdgePre.of_edgeInv hm.good.wf hne hm.edge
  have hl := law_addEdge hp hm.good.max hd
  obtain ⟨r1, r2⟩ := Run.thenPrim hr (hf.trans hd) hl
  rw [r2]
  exact ⟨r1, good_addEdge hp hm.good.max hd, edgeInv_addEdge hp hm.edge hd⟩

/-! ## §2 the view precondition at intermediate states -/

/-- the ancestors of a node form a line -/
theorem anc_line {s : St} (hF : s.Forest) {a b n : Node} (ha : s.Anc a n) (hb : s.Anc b n) :
    s.Anc a b ∨ s.Anc b a := by
  induction ha with
  | refl => exact Or.inr hb
  | step p c hp he ih =>
    rcases hb.tail with rfl | ⟨q, hq, hqe⟩
    · exact Or.inl (Anc.step _ p _ hp he)
    · rw [hF.par_unique hqe he] at hq
      exact ih hq

/-- the subtree of a root `v` and the subtree of a node `y` whose parent is not below `v` are
    disjoint -/
theorem disjoint_root {s : St} (hF : s.Forest) {u v y : Node} (hroot : ∀ p, (p, v) ∉ s.edgeList)
    (hy : (u, y) ∈ s.edgeList) (hvu : ¬ s.Anc v u) : ∀ n, s.Anc v n → ¬ s.Anc y n := by
  intro n hv hyn
  rcases anc_line hF hv hyn with h | h
  · rcases h.tail with rfl | ⟨q, hq, hqe⟩
    · exact hroot u hy
    · rw [hF.par_unique hqe hy] at hq; exact hvu hq
  · rcases h.tail with rfl | ⟨q, _, hqe⟩
    · exact hroot u hy
    · exact hroot q hqe

/-- the precondition only reads the subtree of `start`: same graph, same ids on that subtree -/
theorem viewPre_transfer {s s' : St} {x : Node} {oT nT : Nat} {oL nL : Option Nat}
    (hp : R2A2.ViewPre s x oT nT oL nL) (hG : tk_SameG s s')
    (htid : ∀ n, s.Anc x n → s'.tidOf n = s.tidOf n)
    (hlin : ∀ n, s.Anc x n → s'.linOf n = s.linOf n) (hon : s'.linOn = s.linOn) :
    R2A2.ViewPre s' x oT nT oL nL where
  mem := by rw [hG.ids]; exact hp.mem
  tid := by rw [htid x (Anc.refl x)]; exact hp.tid
  lin := by rw [hlin x (Anc.refl x)]; exact hp.lin
  chain := by
    refine ⟨fun p c hd he ho => ?_, fun p c hd he ho => ?_⟩
    · have hd' := (tk_SegDown.congr hG).1 hd
      have he' : (p, c) ∈ s.edgeList := hG.edgeList ▸ he
      rw [htid c (Anc.step _ p c hd'.anc he')]
      exact hp.chain.1 p c hd' he' (hG.outdeg p ▸ ho)
    · have hd' := (tk_SegDown.congr hG).1 hd
      have he' : (p, c) ∈ s.edgeList := hG.edgeList ▸ he
      rw [htid c (Anc.step _ p c hd'.anc he')]
      exact hp.chain.2 p c hd' he' (hG.outdeg p ▸ ho)
  noReuse := by
    intro p c hd he ho
    have hd' := (tk_SegDown.congr hG).1 hd
    have he' : (p, c) ∈ s.edgeList := hG.edgeList ▸ he
    rw [htid c (Anc.step _ p c hd'.anc he')]
    exact hp.noReuse p c hd' he' (hG.outdeg p ▸ ho)
  linSub := by
    intro h x' hx'
    have hx'' : s.Anc x x' := (Anc.congr hG.edgeList).1 hx'
    rw [hlin x' hx'']
    exact hp.linSub (hon ▸ h) x' hx''
  linHas := fun h => hp.linHas (hon ▸ h)

/-- … in particular across a relabelling (without lineage) that starts in a disjoint subtree -/
theorem viewPre_walk_other {s : St} (hF : s.Forest) {x y : Node} {oT nT oT' nT' : Nat}
    {oL nL oL' : Option Nat} (hp : R2A2.ViewPre s x oT nT oL nL)
    (hy : R2A2.ViewPre s y oT' nT' oL' none) (hdis : ∀ n, s.Anc x n → ¬ s.Anc y n) :
    R2A2.ViewPre (s.walk y oT' nT' oL' none) x oT nT oL nL := by
  have he := R2A2.walk_eff hF hy
  refine viewPre_transfer hp (tk_walk_sameG s y oT' nT' oL' none) (fun n hn => ?_) (fun n _ => ?_)
    (tk_walk_linOn s y oT' nT' oL' none)
  · exact he.tid_out n (fun hseg => hdis n hn hseg.anc)
  · exact he.lin_out n (fun h => by cases h.2.1)

/-- … and across the removal of an edge whose source is not below `start` -/
theorem viewPre_delE {s : St} {u v x : Node} {oT nT : Nat} {oL nL : Option Nat}
    (hp : R2A2.ViewPre s x oT nT oL nL) (hxu : ¬ s.Anc x u) :
    R2A2.ViewPre (s.tk_delE (u, v)) x oT nT oL nL where
  mem := hp.mem
  tid := hp.tid
  lin := hp.lin
  chain := by
    refine ⟨fun p c hd he ho => ?_, fun p c hd he ho => ?_⟩
    · have hd' := hd.of_delE hxu
      have hpu : p ≠ u := by intro heq; subst heq; exact hxu hd'.anc
      exact hp.chain.1 p c hd' (tk_mem_delE.1 he).1 (by rw [← tk_outdeg_delE_ne s hpu]; exact ho)
    · have hd' := hd.of_delE hxu
      have hpu : p ≠ u := by intro heq; subst heq; exact hxu hd'.anc
      exact hp.chain.2 p c hd' (tk_mem_delE.1 he).1 (by rw [← tk_outdeg_delE_ne s hpu]; exact ho)
  noReuse := by
    intro p c hd he ho
    have hd' := hd.of_delE hxu
    have hpu : p ≠ u := by intro heq; subst heq; exact hxu hd'.anc
    exact hp.noReuse p c hd' (tk_mem_delE.1 he).1 (by rw [← tk_outdeg_delE_ne s hpu]; exact ho)
  linSub := by
    intro h x' hx'
    exact hp.linSub h x' (Anc.mono (fun e he' => (tk_mem_delE.1 he').1) hx')
  linHas := hp.linHas

/-- the precondition of a relabelling that keeps the id (`newT = oldT`), from the invariants -/
theorem viewPre_same {s : St} (hV : s.Valid) {x : Node} {t : Nat} (nL : Option Nat)
    (hm : x ∈ s.ids) (ht : s.tidOf x = some t) : R2A2.ViewPre s x t t (s.linOf x) nL :=
  R2A2.viewPre_of_tidOK hV.forest hV.tid hm ht (fun _ => hV.lin.along) (fun _ _ => hV.lin.has x hm)
    (R2A2.notDownstream_of hV.forest hV.tid hm ht (Or.inr (Or.inl rfl)))

/-- … with a fresh id -/
theorem viewPre_fresh {s : St} (hV : s.Valid) {x : Node} {t nT : Nat} (nL : Option Nat)
    (hm : x ∈ s.ids) (ht : s.tidOf x = some t) (hfr : s.maxTid < nT) :
    R2A2.ViewPre s x t nT (s.linOf x) nL :=
  R2A2.viewPre_of_tidOK hV.forest hV.tid hm ht (fun _ => hV.lin.along) (fun _ _ => hV.lin.has x hm)
    (R2A2.notDownstream_of hV.forest hV.tid hm ht (Or.inl (R2A2.fresh_of_max hV.book hfr)))

/-- … with the id of a node `u` that is not below `x` -/
theorem viewPre_join {s : St} (hV : s.Valid) {x u : Node} {t tu : Nat} (nL : Option Nat)
    (hm : x ∈ s.ids) (ht : s.tidOf x = some t) (hu : s.tidOf u = some tu) (hxu : ¬ s.Anc x u) :
    R2A2.ViewPre s x t tu (s.linOf x) nL :=
  R2A2.viewPre_of_tidOK hV.forest hV.tid hm ht (fun _ => hV.lin.along) (fun _ _ => hV.lin.has x hm)
    (R2A2.notDownstream_of hV.forest hV.tid hm ht (Or.inr (Or.inr ⟨u, hu, hxu⟩)))

theorem tidOf_some_of_mem {s : St} {n : Node} (h : n ∈ s.ids) : ∃ t, s.tidOf n = some t := by
  obtain ⟨r, hr⟩ := tk_mem_ids_iff.1 h
  exact ⟨r.tid, tk_tidOf_of_findNode hr⟩

theorem not_anc_of_edge {s : St} (hF : s.Forest) {u v : Node} (he : (u, v) ∈ s.edgeList) :
    ¬ s.Anc v u := by
  intro h
  have h1 := h.tm_le hF
  have h2 := hF.tm_lt he
  omega

/-! ## §3 `uDeleteEdge` -/

theorem uDeleteEdge_unfold {s : St} {e : Edge} (hE : s.hasEdge e = true) :
    s.uDeleteEdge e =
      (let a : UOut := St.thenPrim (s, .ok []) (fun st => st.pDelEdge e)
       if a.1.outdeg e.1 == 0 then
         St.thenPrim a (fun st => st.pUpdTid e.2 st.nextTid (some st.nextLin))
       else if a.1.outdeg e.1 == 1 then
         match (a.1.succs e.1).head? with
         | none => (a.1, .error .other)
         | some sib =>
           let a1 := St.thenPrim a (fun st => match st.tidOf e.1 with
             | some t => st.pUpdTid sib t none
             | none => .error .key)
           St.thenPrim a1 (fun st => match st.tidOf e.2 with
             | some t => st.pUpdTid e.2 t (some st.nextLin)
             | none => .error .key)
       else (a.1, .error .invalid)) := by
  unfold uDeleteEdge
  simp only [hE, Bool.not_true, Bool.false_eq_true, if_false]
  rfl

/-- an accepted `uDeleteEdge` from a state with the invariants is a lawful run, and the result is
    again `Good` with the edge invariant (`Valid`: `R2B.valid_del`) -/
theorem uDeleteEdge_run {s : St} (hI : Inv3 s) {e : Edge} {recs : List PrimRec}
    (hok : (s.uDeleteEdge e).2 = .ok recs) :
    Run s (s.uDeleteEdge e) ∧ Inv3 (s.uDeleteEdge e).1 := by
  have hV' := R2B.valid_del hI.valid hok
  suffices h : Run s (s.uDeleteEdge e) ∧ Good (s.uDeleteEdge e).1 ∧ EdgeInv (s.uDeleteEdge e).1 from
    ⟨h.1, hV', h.2.1, h.2.2⟩
  obtain ⟨u, v⟩ := e
  have hV := hI.valid
  have hF := hV.forest
  have hE := tk_uDeleteEdge_hasEdge hok
  have hmem : (u, v) ∈ s.edgeList := tk_hasEdge_iff.1 hE
  have hu : u ∈ s.ids := hF.src_mem _ hmem
  have hv : v ∈ s.ids := hF.dst_mem _ hmem
  have hvu : ¬ s.Anc v u := not_anc_of_edge hF hmem
  obtain ⟨tv, htv⟩ := tidOf_some_of_mem hv
  rw [uDeleteEdge_unfold hE] at hok ⊢
  obtain ⟨ra, ea, ma⟩ := run_delEdge (f := fun st => st.pDelEdge (u, v)) (Run.start s) hI.mid hmem rfl
  simp only at hok ⊢
  generalize St.thenPrim (s, Except.ok []) (fun st => st.pDelEdge (u, v)) = a at hok ra ea ⊢
  have ea' : a.1 = s.tk_delE (u, v) := ea
  have hF1 : (s.tk_delE (u, v)).Forest := hF.tk_delE _
  by_cases h0 : a.1.outdeg u = 0
  · simp only [h0, beq_self_eq_true, if_true] at hok ⊢
    have hp : R2A2.ViewPre a.1 v tv a.1.nextTid (a.1.linOf v) (some a.1.nextLin) := by
      rw [ea']
      exact R2A2.viewPre_after_cut hF hV.tid hmem htv (fun _ => hV.lin.along)
        (fun _ _ => hV.lin.has v hv) (R2A2.fresh_of_max hV.book (Nat.lt_succ_self _))
    obtain ⟨r1, r2, m1⟩ := run_updTid (f := fun st => st.pUpdTid v st.nextTid (some st.nextLin)) ra
      (ea' ▸ ma) hp rfl
    rw [r2]
    exact ⟨r1, m1.good, m1.edge⟩
  · have hb0 : (a.1.outdeg u == 0) = false := by simp [h0]
    simp only [hb0, Bool.false_eq_true, if_false] at hok ⊢
    by_cases h1 : a.1.outdeg u = 1
    · simp only [h1, beq_self_eq_true, if_true] at hok ⊢
      cases hh : (a.1.succs u).head? with
      | none => rw [hh] at hok; cases hok
      | some sib =>
        simp only [hh] at hok ⊢
        have hsib1 : (u, sib) ∈ (s.tk_delE (u, v)).edgeList := by
          rw [← ea']; exact tk_mem_succs.1 (List.mem_of_head? hh)
        have hsibE : (u, sib) ∈ s.edgeList := (tk_mem_delE.1 hsib1).1
        have hsi : sib ∈ s.ids := hF.dst_mem _ hsibE
        have hsu : ¬ s.Anc sib u := not_anc_of_edge hF hsibE
        obtain ⟨ts, hts⟩ := tidOf_some_of_mem hsi
        obtain ⟨tu, htu⟩ := tidOf_some_of_mem hu
        -- first relabelling: the sibling's chain joins the track of `u`
        have hp1 : R2A2.ViewPre a.1 sib ts tu (s.linOf sib) none := by
          rw [ea']; exact viewPre_delE (viewPre_join hV none hsi hts htu hsu) hsu
        have hf1 : (fun st : St => match st.tidOf u with
              | some t => st.pUpdTid sib t none
              | none => Except.error Err.key) a.1 = a.1.pUpdTid sib tu none := by
          have : a.1.tidOf u = some tu := by rw [ea']; exact htu
          simp only [this]
        obtain ⟨r1, r2, m1⟩ := run_updTid (f := fun st : St => match st.tidOf u with
              | some t => st.pUpdTid sib t none
              | none => Except.error Err.key) ra (ea' ▸ ma) hp1 hf1
        -- second relabelling: below `v`, same track id, fresh lineage
        have hroot : ∀ p, (p, v) ∉ (s.tk_delE (u, v)).edgeList := by
          intro p hp
          rcases tk_mem_delE.1 hp with ⟨hp1, hp2⟩
          have := hF.par_unique hp1 hmem
          subst this; exact hp2 rfl
        have hvu1 : ¬ (s.tk_delE (u, v)).Anc v u :=
          fun h => hvu (Anc.mono (fun e he' => (tk_mem_delE.1 he').1) h)
        have hdis := disjoint_root hF1 hroot hsib1 hvu1
        generalize St.thenPrim a _ = a1 at hok r1 r2 ⊢
        have hp2 : R2A2.ViewPre a1.1 v tv tv (s.linOf v) (some a1.1.nextLin) := by
          rw [r2]
          have hpv : ∀ nL, R2A2.ViewPre a.1 v tv tv (s.linOf v) nL := by
            intro nL; rw [ea']; exact viewPre_delE (viewPre_same hV nL hv htv) hvu
          refine viewPre_walk_other (ea' ▸ hF1) (hpv _) hp1 ?_
          rw [ea']; exact hdis
        have hf2 : (fun st : St => match st.tidOf v with
              | some t => st.pUpdTid v t (some st.nextLin)
              | none => Except.error Err.key) a1.1 = a1.1.pUpdTid v tv (some a1.1.nextLin) := by
          simp only [hp2.tid]
        obtain ⟨q1, q2, m2⟩ := run_updTid (f := fun st : St => match st.tidOf v with
              | some t => st.pUpdTid v t (some st.nextLin)
              | none => Except.error Err.key) r1 (r2 ▸ m1) hp2 hf2
        rw [q2]
        exact ⟨q1, m2.good, m2.edge⟩
    · have hb1 : (a.1.outdeg u == 1) = false := by simp [h1]
      simp only [hb1, Bool.false_eq_true, if_false] at hok
      cases hok

/-! ## §4 `uAddEdge` -/

theorem thenPrim_err_not_ok {s : St} {err : Err} {f : St → Except Err (St × PrimRec)}
    {recs : List PrimRec} (h : (St.thenPrim (s, .error err) f).2 = .ok recs) : False := by
  unfold St.thenPrim at h
  cases h

theorem addTail_triple {a0 : UOut} {e : Edge} {r0 : List PrimRec} (h0 : a0.2 = .ok r0)
    (hout : 2 ≤ a0.1.outdeg e.1) : tk_addTail a0 e = (a0.1.rollback r0, .error .invalid) := by
  unfold tk_addTail
  have hb0 : (a0.1.outdeg e.1 == 0) = false := by simp; omega
  have hb1 : (a0.1.outdeg e.1 == 1) = false := by simp; omega
  simp only [h0, hb0, hb1, Bool.false_eq_true, if_false]
  rfl

/-- the relabel-and-link part of `uAddEdge`, started at the end of a run in a state with the
    invariants where the target is parentless: lawful run, result `Good` with the edge invariant -/
theorem addTail_total {s : St} {a0 : UOut} (hr : Run s a0) (hI : Inv3 a0.1) {e : Edge}
    (hu : e.1 ∈ a0.1.ids) (hv : e.2 ∈ a0.1.ids)
    (ht : a0.1.tk_tm e.1 < a0.1.tk_tm e.2) (hroot : ∀ p, (p, e.2) ∉ a0.1.edgeList) :
    (Run s (tk_addTail a0 e) ∧ Good (tk_addTail a0 e).1 ∧ EdgeInv (tk_addTail a0 e).1) ∨
    (∃ r0, a0.2 = .ok r0 ∧ 2 ≤ a0.1.outdeg e.1 ∧
      tk_addTail a0 e = (a0.1.rollback r0, .error .invalid)) := by
  obtain ⟨u, v⟩ := e
  simp only at hu hv ht hroot
  have hV := hI.valid
  have hF := hV.forest
  obtain ⟨recs0, h2, _⟩ := id hr
  have hvu : ¬ a0.1.Anc v u := by
    intro h; have := h.tm_le hF; omega
  have hne : (u, v) ∉ a0.1.edgeList := hroot u
  obtain ⟨tu, htu⟩ := tidOf_some_of_mem hu
  obtain ⟨tv, htv⟩ := tidOf_some_of_mem hv
  by_cases h0 : a0.1.outdeg u = 0
  · left
    unfold tk_addTail
    simp only [h2]
    simp only [h0, beq_self_eq_true, if_true]
    have hp : R2A2.ViewPre a0.1 v tv tu (a0.1.linOf v) (a0.1.linOf u) :=
      viewPre_join hV _ hv htv htu hvu
    have hf : (fun st : St => match st.tidOf u with
          | some t => st.pUpdTid v t (st.linOf u)
          | none => Except.error Err.key) a0.1 = a0.1.pUpdTid v tu (a0.1.linOf u) := by
      simp only [htu]
    obtain ⟨r1, r2, m1⟩ := run_updTid (f := fun st : St => match st.tidOf u with
          | some t => st.pUpdTid v t (st.linOf u)
          | none => Except.error Err.key) hr hI.mid hp hf
    generalize St.thenPrim a0 _ = a1 at r1 r2 ⊢
    have hG := tk_walk_sameG a0.1 v tv tu (a0.1.linOf v) (a0.1.linOf u)
    exact run_addEdge (f := fun st => st.pAddEdge (u, v) []) r1 (r2 ▸ m1)
      (by rw [r2, hG.edgeList]; exact hne) (by rw [r2, hG.ids]; exact hu) (by rw [r2, hG.ids]; exact hv) rfl
  · have hb0 : (a0.1.outdeg u == 0) = false := by simp [h0]
    by_cases h1 : a0.1.outdeg u = 1
    · left
      unfold tk_addTail
      simp only [h2]
      simp only [hb0, Bool.false_eq_true, if_false]
      simp only [h1, beq_self_eq_true, if_true]
      cases hh : (a0.1.succs u).head? with
      | none =>
        have : a0.1.succs u = [] := by simpa using hh
        unfold St.outdeg at h1; rw [this] at h1; cases h1
      | some c0 =>
        simp only
        have hc0 : (u, c0) ∈ a0.1.edgeList := tk_mem_succs.1 (List.mem_of_head? hh)
        have hsi : c0 ∈ a0.1.ids := hF.dst_mem _ hc0
        obtain ⟨ts, hts⟩ := tidOf_some_of_mem hsi
        have hpb : R2A2.ViewPre a0.1 c0 ts a0.1.nextTid (a0.1.linOf c0) none :=
          viewPre_fresh hV none hsi hts (Nat.lt_succ_self _)
        obtain ⟨r1, r2, m1⟩ := run_updTid (f := fun st : St => st.pUpdTid c0 st.nextTid none) hr hI.mid
          hpb rfl
        generalize St.thenPrim a0 _ = b at r1 r2 ⊢
        have hGb := tk_walk_sameG a0.1 c0 ts a0.1.nextTid (a0.1.linOf c0) none
        have hp2 : R2A2.ViewPre b.1 v tv tv (a0.1.linOf v) (b.1.linOf u) := by
          have hpv : ∀ nL, R2A2.ViewPre b.1 v tv tv (a0.1.linOf v) nL := by
            intro nL
            rw [r2]
            exact viewPre_walk_other hF (viewPre_same hV nL hv htv) hpb (disjoint_root hF hroot hc0 hvu)
          exact hpv _
        have hf2 : (fun st : St => match st.tidOf v with
              | some t => st.pUpdTid v t (st.linOf u)
              | none => Except.error Err.key) b.1 = b.1.pUpdTid v tv (b.1.linOf u) := by
          simp only [hp2.tid]
        obtain ⟨q1, q2, m2⟩ := run_updTid (f := fun st : St => match st.tidOf v with
              | some t => st.pUpdTid v t (st.linOf u)
              | none => Except.error Err.key) r1 (r2 ▸ m1) hp2 hf2
        generalize St.thenPrim b _ = a1 at q1 q2 ⊢
        have hG := tk_walk_sameG b.1 v tv tv (a0.1.linOf v) (b.1.linOf u)
        have hel : a1.1.edgeList = a0.1.edgeList := by rw [q2, hG.edgeList, r2, hGb.edgeList]
        have hids : a1.1.ids = a0.1.ids := by rw [q2, hG.ids, r2, hGb.ids]
        exact run_addEdge (f := fun st => st.pAddEdge (u, v) []) q1 (q2 ▸ m2)
          (by rw [hel]; exact hne) (by rw [hids]; exact hu) (by rw [hids]; exact hv) rfl
    · right
      have h2' : 2 ≤ a0.1.outdeg u := by omega
      exact ⟨recs0, h2, h2', addTail_triple h2 h2'⟩

theorem addTail_run {s : St} {a0 : UOut} (hr : Run s a0) (hI : Inv3 a0.1) {e : Edge}
    {recs : List PrimRec} (hu : e.1 ∈ a0.1.ids) (hv : e.2 ∈ a0.1.ids)
    (ht : a0.1.tk_tm e.1 < a0.1.tk_tm e.2) (hroot : ∀ p, (p, e.2) ∉ a0.1.edgeList)
    (hok : (tk_addTail a0 e).2 = .ok recs) :
    Run s (tk_addTail a0 e) ∧ Good (tk_addTail a0 e).1 ∧ EdgeInv (tk_addTail a0 e).1 := by
  rcases addTail_total hr hI hu hv ht hroot with h | ⟨r0, _, _, heq⟩
  · exact h
  · rw [heq] at hok; cases hok

/-- the optional forced removal at the head of `uAddEdge`: a lawful run into a state with the
    invariants in which the target is parentless -/
theorem addHead_run {s : St} (hI : Inv3 s) {e : Edge} {force : Bool} {recs0 : List PrimRec}
    (h0 : (tk_addHead s e force).2 = .ok recs0) :
    Run s (tk_addHead s e force) ∧ Inv3 (tk_addHead s e force).1 ∧
      (tk_addHead s e force).1.ids = s.ids ∧ (∀ n, (tk_addHead s e force).1.timeOf n = s.timeOf n) ∧
      ∀ p, (p, e.2) ∉ (tk_addHead s e force).1.edgeList := by
  have hF := hI.valid.forest
  unfold tk_addHead at h0 ⊢
  by_cases hin : s.indeg e.2 > 0
  · simp only [hin, if_true] at h0 ⊢
    cases force with
    | false => simp at h0
    | true =>
      simp only [Bool.not_true, Bool.false_eq_true, if_false] at h0 ⊢
      cases hh : (s.preds e.2).head? with
      | none => rw [hh] at h0; cases h0
      | some p =>
        simp only [hh] at h0 ⊢
        have hp : (p, e.2) ∈ s.edgeList := tk_mem_preds.1 (List.mem_of_head? hh)
        obtain ⟨_, r1, _, hd, _⟩ := tk_thenUser_ok h0
        simp only at hd
        obtain ⟨hrun, hI'⟩ := uDeleteEdge_run hI hd
        obtain ⟨q1, q2⟩ := Run.thenUser (f := fun st => st.uDeleteEdge (p, e.2)) (Run.start s) hrun
        obtain ⟨_, hsG⟩ := R2B.uDeleteEdge_sameG hd
        rw [q2]
        refine ⟨q1, hI', hsG.ids, hsG.time, ?_⟩
        intro q hq
        rcases (R2B.uDeleteEdge_edge_iff hd _).1 hq with ⟨hq1, hq2⟩
        have := hF.par_unique hq1 hp
        subst this; exact hq2 rfl
  · simp only [hin, if_false]
    exact ⟨Run.start s, hI, trivial, fun _ => trivial, tk_preds_nil_iff.1 (by omega)⟩

/-- an accepted `uAddEdge` (forced or not) from a state with the invariants is a lawful run and
    re-establishes the invariants -/
theorem uAddEdge_run {s : St} (hI : Inv3 s) {e : Edge} {force : Bool} {recs : List PrimRec}
    (hok : (s.uAddEdge e force).2 = .ok recs) :
    Run s (s.uAddEdge e force) ∧ Inv3 (s.uAddEdge e force).1 := by
  have hV' := R2B.valid_add hI.valid hok
  suffices h : Run s (s.uAddEdge e force) ∧ Good (s.uAddEdge e force).1 ∧
      EdgeInv (s.uAddEdge e force).1 from ⟨h.1, hV', h.2.1, h.2.2⟩
  have hn := tk_uAddEdge_ok_nodes hok
  rw [tk_uAddEdge_eq] at hok ⊢
  have h1 := tk_hasNode_iff.2 hn.1
  have h2 := tk_hasNode_iff.2 hn.2.1
  have h3 : ¬ (s.timeOf e.1).getD 0 ≥ (s.timeOf e.2).getD 0 := by
    have := hn.2.2; unfold tk_tm at this; omega
  simp only [h1, h2, h3, Bool.not_true, Bool.false_eq_true, if_false] at hok ⊢
  obtain ⟨recs0, h0⟩ := tk_addTail_ok_head hok
  obtain ⟨hr, hI0, hids, htime, hroot⟩ := addHead_run hI h0
  exact addTail_run hr hI0 (by rw [hids]; exact hn.1) (by rw [hids]; exact hn.2.1)
    (by rw [tk_tm_congr htime, tk_tm_congr htime]; exact hn.2.2) hroot hok

/-! ## §5 `uSwap` -/

theorem optStep_run {s : St} {o : Option Node} {g : Node → St → UOut} {acc : UOut}
    {recs : List PrimRec}
    (hg : ∀ p st r, Inv3 st → (g p st).2 = .ok r → Run st (g p st) ∧ Inv3 (g p st).1)
    (h : (tk_optStep o g acc).2 = .ok recs) :
    (∃ r0, acc.2 = .ok r0) ∧
      (Run s acc ∧ Inv3 acc.1 → Run s (tk_optStep o g acc) ∧ Inv3 (tk_optStep o g acc).1) := by
  cases o with
  | none => exact ⟨⟨recs, h⟩, id⟩
  | some p =>
    rcases tk_thenUser_ok h with ⟨r0, r1, h0, h1, _⟩
    refine ⟨⟨r0, h0⟩, fun ⟨hr, hi⟩ => ?_⟩
    obtain ⟨a, b⟩ := hg p acc.1 r1 hi h1
    obtain ⟨q1, q2⟩ := Run.thenUser (f := g p) hr a
    show Run s (St.thenUser acc (g p)) ∧ Inv3 (St.thenUser acc (g p)).1
    exact ⟨q1, q2 ▸ b⟩

/-- an accepted `uSwap` from a state with the invariants is a lawful run (two nested delete-edge,
    two nested unforced add-edge) and re-establishes the invariants -/
theorem uSwap_run {s : St} (hI : Inv3 s) {n1 n2 : Node} {recs : List PrimRec}
    (hok : (s.uSwap n1 n2).2 = .ok recs) : Run s (s.uSwap n1 n2) ∧ Inv3 (s.uSwap n1 n2).1 := by
  rw [tk_uSwap_eq] at hok ⊢
  generalize (!(s.hasNode n1) || !(s.hasNode n2)) = c1 at hok ⊢
  generalize ((s.preds n1).head?.isNone && (s.preds n2).head?.isNone) = c2 at hok ⊢
  generalize ((s.preds n1).head? == (s.preds n2).head?) = c3 at hok ⊢
  generalize tk_swapBad s (s.preds n1).head? ((s.timeOf n2).getD 0) = c4 at hok ⊢
  generalize tk_swapBad s (s.preds n2).head? ((s.timeOf n1).getD 0) = c5 at hok ⊢
  cases c1 <;> cases c2 <;> cases c3 <;> cases c4 <;> cases c5 <;>
    simp only [if_true, if_false, Bool.false_eq_true, reduceCtorEq] at hok ⊢
  have hA : ∀ (n : Node) p st r, Inv3 st → (st.uAddEdge (p, n) false).2 = .ok r →
      Run st (st.uAddEdge (p, n) false) ∧ Inv3 (st.uAddEdge (p, n) false).1 :=
    fun n p st r hP hr => uAddEdge_run hP hr
  have hD : ∀ (n : Node) p st r, Inv3 st → (st.uDeleteEdge (p, n)).2 = .ok r →
      Run st (st.uDeleteEdge (p, n)) ∧ Inv3 (st.uDeleteEdge (p, n)).1 :=
    fun n p st r hP hr => uDeleteEdge_run hP hr
  rcases optStep_run (s := s) (hA n1) hok with ⟨⟨r3, h3ok⟩, i4⟩
  rcases optStep_run (s := s) (hA n2) h3ok with ⟨⟨r2, h2ok⟩, i3⟩
  rcases optStep_run (s := s) (hD n2) h2ok with ⟨⟨r1, h1ok⟩, i2⟩
  rcases optStep_run (s := s) (hD n1) h1ok with ⟨_, i1⟩
  exact i4 (i3 (i2 (i1 ⟨Run.start s, hI⟩)))

/-! ## §6 `uUpdateAttrs` -/

/-- an accepted `uUpdateAttrs` from a state with the invariants is a lawful (one-primitive) run and
    re-establishes the invariants -/
theorem uUpdateAttrs_run {s : St} (hI : Inv3 s) {n : Node} {attrs : List (Key × Val)}
    {recs : List PrimRec} (hok : (s.uUpdateAttrs n attrs).2 = .ok recs) :
    Run s (s.uUpdateAttrs n attrs) ∧ Inv3 (s.uUpdateAttrs n attrs).1 := by
  have hV' := R3A.uUpdateAttrs_valid hI.valid hok
  unfold uUpdateAttrs at hok hV' ⊢
  obtain ⟨_, s', p, _, hf, _⟩ := PC.thenPrim_elim hok
  simp only at hf
  obtain ⟨r1, r2⟩ := Run.thenPrim (f := fun st => st.pUpdAttrs n attrs) (Run.start s) hf
    (law_updAttrs hI.good hf)
  refine ⟨r1, hV', ?_, ?_⟩
  · rw [r2]; exact good_updAttrs hI.good hf
  · rw [r2]; exact edgeInv_updAttrs hI.good.wf hI.edge hf

/-! ## §7 the refused forced add-edge (C11) -/

theorem length_filter_erase_edge (p : Edge → Bool) (e : Edge) (hp : p e = true) :
    ∀ l : List Edge, l.Nodup → e ∈ l →
      ((l.filter (· != e)).filter p).length + 1 = (l.filter p).length
  | [], _, h => by cases h
  | x :: l, hn, hm => by
    rw [nodup_cons] at hn
    by_cases hx : x = e
    · subst hx
      have h1 : (x :: l).filter (· != x) = l := by
        rw [filter_cons]
        have : (x != x) = false := by simp
        rw [this]
        simp only [Bool.false_eq_true, if_false]
        rw [filter_eq_self]
        intro a ha
        have : a ≠ x := fun h => hn.1 (h ▸ ha)
        simpa using this
      rw [h1, filter_cons, hp]
      simp
    · have hm' : e ∈ l := by
        rcases mem_cons.1 hm with h | h
        · exact absurd h.symm hx
        · exact h
      have ih := length_filter_erase_edge p e hp l hn.2 hm'
      have hb : (x != e) = true := by simpa using hx
      rw [filter_cons, hb]
      simp only [if_true]
      rw [filter_cons, filter_cons]
      split
      · simp only [length_cons]; omega
      · exact ih

/-- removing an existing edge lowers the out-degree of its source by one -/
theorem outdeg_delE_src {s : St} (hn : s.edgeList.Nodup) {u v : Node} (he : (u, v) ∈ s.edgeList) :
    (s.tk_delE (u, v)).outdeg u + 1 = s.outdeg u := by
  rw [tk_outdeg_eq, tk_outdeg_eq, tk_delE_edgeList]
  exact length_filter_erase_edge (fun x => x.1 == u) (u, v) (by simp) _ hn he

theorem pUpdTid_ok_of_mem {s : St} {n : Node} (h : n ∈ s.ids) (nT : Nat) (nL : Option Nat) :
    ∃ s' r, s.pUpdTid n nT nL = .ok (s', r) ∧ s'.ids = s.ids := by
  obtain ⟨rec, hr⟩ := tk_mem_ids_iff.1 h
  refine ⟨_, _, R2B.pUpdTid_of_find hr nT nL, (tk_walk_sameG _ _ _ _ _ _).ids⟩

/-- `uDeleteEdge` of an existing edge of a forest is always accepted -/
theorem uDeleteEdge_accepts {s : St} (hF : s.Forest) {e : Edge} (he : e ∈ s.edgeList) :
    ∃ recs, (s.uDeleteEdge e).2 = .ok recs := by
  obtain ⟨u, v⟩ := e
  have hE := tk_hasEdge_iff.2 he
  have hu : u ∈ s.ids := hF.src_mem _ he
  have hv : v ∈ s.ids := hF.dst_mem _ he
  obtain ⟨r1, heq⟩ := tk_uDeleteEdge_eq hE
  rw [heq]
  simp only
  have hod := outdeg_delE_src hF.nodup_edges he
  have hle := hF.outdeg_le u
  by_cases h0 : (s.tk_delE (u, v)).outdeg u = 0
  · simp only [h0, beq_self_eq_true, if_true]
    obtain ⟨s', r, hp, _⟩ := pUpdTid_ok_of_mem (s := s.tk_delE (u, v)) hv (s.tk_delE (u, v)).nextTid
      (some (s.tk_delE (u, v)).nextLin)
    exact ⟨[r1] ++ [r], by unfold St.thenPrim; simp only [hp]⟩
  · have h1 : (s.tk_delE (u, v)).outdeg u = 1 := by omega
    have hb0 : ((s.tk_delE (u, v)).outdeg u == 0) = false := by simp [h0]
    simp only [hb0, Bool.false_eq_true, if_false]
    simp only [h1, beq_self_eq_true, if_true]
    cases hh : ((s.tk_delE (u, v)).succs u).head? with
    | none =>
      have : (s.tk_delE (u, v)).succs u = [] := by simpa using hh
      unfold St.outdeg at h1; rw [this] at h1; cases h1
    | some sib =>
      simp only
      have hsib : (u, sib) ∈ (s.tk_delE (u, v)).edgeList := tk_mem_succs.1 (List.mem_of_head? hh)
      have hsi : sib ∈ (s.tk_delE (u, v)).ids := hF.dst_mem _ (tk_mem_delE.1 hsib).1
      obtain ⟨tu, htu⟩ := tidOf_some_of_mem (s := s.tk_delE (u, v)) hu
      obtain ⟨s2, r2, hp2, hids2⟩ := pUpdTid_ok_of_mem hsi tu none
      have hv2 : v ∈ s2.ids := by rw [hids2]; exact hv
      obtain ⟨tv, htv⟩ := tidOf_some_of_mem hv2
      obtain ⟨s3, r3, hp3, _⟩ := pUpdTid_ok_of_mem hv2 tv (some s2.nextLin)
      refine ⟨([r1] ++ [r2]) ++ [r3], ?_⟩
      unfold St.thenPrim
      simp only [htu, hp2, htv, hp3]

/-- **C11, rollback path of the forced add-edge**: the target `v` has another parent `p`, which the
    forced call removes (nested delete-edge, accepted), then the source `u` turns out to have two
    children already: the call is refused with `invalid` and `ActionGroup._rollback` of the applied
    delete-edge group leaves a state in the `E`-class of the input -/
theorem triple_forced {s : St} (hI : Inv3 s) {u v p : Node} (hu : u ∈ s.ids)
    (hp : (p, v) ∈ s.edgeList) (hpu : p ≠ u) (ht : s.tk_tm u < s.tk_tm v) (hout : s.outdeg u = 2) :
    (s.uAddEdge (u, v) true).2 = .error .invalid ∧ E (s.uAddEdge (u, v) true).1 s := by
  have hF := hI.valid.forest
  have hv : v ∈ s.ids := hF.dst_mem _ hp
  rw [tk_uAddEdge_eq]
  have h1 := tk_hasNode_iff.2 hu
  have h2 := tk_hasNode_iff.2 hv
  have h3 : ¬ (s.timeOf u).getD 0 ≥ (s.timeOf v).getD 0 := by unfold tk_tm at ht; omega
  simp only [h1, h2, h3, Bool.not_true, Bool.false_eq_true, if_false]
  -- the head: the nested delete-edge of `(p, v)` is accepted
  have hin : s.indeg v > 0 := by
    apply Nat.pos_of_ne_zero
    intro hc; exact tk_preds_nil_iff.1 hc p hp
  obtain ⟨recs0, hd⟩ := uDeleteEdge_accepts hF hp
  have hhead : ∃ r0, (tk_addHead s (u, v) true).2 = .ok r0 := by
    unfold tk_addHead
    simp only [hin, if_true, Bool.not_true, Bool.false_eq_true, if_false]
    cases hpr : s.preds v with
    | nil => unfold St.indeg at hin; rw [hpr] at hin; cases hin
    | cons p' l =>
      have hp' : (p', v) ∈ s.edgeList := tk_mem_preds.1 (hpr ▸ List.mem_cons_self)
      have : p' = p := hF.par_unique hp' hp
      subst this
      simp only [head?_cons]
      exact ⟨[] ++ recs0, by unfold St.thenUser; simp only [hd]⟩
  obtain ⟨r0, h0⟩ := hhead
  obtain ⟨hr, _, _, _, _⟩ := addHead_run hI h0
  have hod : (tk_addHead s (u, v) true).1.outdeg u = 2 := by
    rcases tk_addHead_shape h0 with ⟨_, hroot⟩ | ⟨p', recs', hp', hdel, hs0⟩
    · exact absurd hp (hroot p)
    · have : p' = p := hF.par_unique hp' hp
      subst this
      rw [hs0, (R2B.uDeleteEdge_sameG hdel).2.outdeg, tk_outdeg_delE_ne s (Ne.symm hpu)]
      exact hout
  rw [addTail_triple h0 (by rw [hod]; exact Nat.le_refl _)]
  exact ⟨rfl, hr.rollback h0⟩

/-- the head of `uAddEdge` fails only with `forceable` (unforced call onto a target with a parent),
    and then nothing has been applied -/
theorem addHead_cases {s : St} (hF : s.Forest) (e : Edge) (force : Bool) :
    (∃ r0, (tk_addHead s e force).2 = .ok r0) ∨ tk_addHead s e force = (s, .error .forceable) := by
  unfold tk_addHead
  by_cases hin : s.indeg e.2 > 0
  · simp only [hin, if_true]
    cases force with
    | false => right; rfl
    | true =>
      left
      simp only [Bool.not_true, Bool.false_eq_true, if_false]
      cases hpr : s.preds e.2 with
      | nil => unfold St.indeg at hin; rw [hpr] at hin; cases hin
      | cons p l =>
        have hp : (p, e.2) ∈ s.edgeList := tk_mem_preds.1 (hpr ▸ List.mem_cons_self)
        obtain ⟨recs0, hd⟩ := uDeleteEdge_accepts hF hp
        simp only [head?_cons]
        exact ⟨[] ++ recs0, by unfold St.thenUser; simp only [hd]⟩
  · simp only [hin, if_false]
    exact Or.inl ⟨[], rfl⟩

/-- **every refused `uAddEdge`** (forced or not) from a state with the invariants returns a state in
    the `E`-class of the input: the early refusals return the input itself, the triple-division
    refusal after a forced removal returns the rolled-back state -/
theorem uAddEdge_refused {s : St} (hI : Inv3 s) {e : Edge} {force : Bool} {err : Err}
    (herr : (s.uAddEdge e force).2 = .error err) : E (s.uAddEdge e force).1 s := by
  rw [tk_uAddEdge_eq] at herr ⊢
  by_cases h1 : s.hasNode e.1 = true
  · by_cases h2 : s.hasNode e.2 = true
    · by_cases h3 : (s.timeOf e.1).getD 0 ≥ (s.timeOf e.2).getD 0
      · simp only [h1, h2, h3, Bool.not_true, Bool.false_eq_true, if_false, if_true]
        exact E_isEquiv.refl s
      · simp only [h1, h2, h3, Bool.not_true, Bool.false_eq_true, if_false] at herr ⊢
        rcases addHead_cases hI.valid.forest e force with ⟨r0, h0⟩ | hf
        · obtain ⟨hr, hI0, hids, htime, hroot⟩ := addHead_run hI h0
          have hu := tk_hasNode_iff.1 h1
          have hv := tk_hasNode_iff.1 h2
          rcases addTail_total hr hI0 (by rw [hids]; exact hu) (by rw [hids]; exact hv)
            (by rw [tk_tm_congr htime, tk_tm_congr htime]; unfold tk_tm; omega) hroot with
            ⟨⟨recs, hok, _⟩, _⟩ | ⟨r0', h0', _, heq⟩
          · rw [hok] at herr; cases herr
          · rw [heq]; exact hr.rollback h0'
        · rw [hf]
          unfold tk_addTail
          exact E_isEquiv.refl s
    · have h2' : s.hasNode e.2 = false := by simpa using h2
      simp only [h1, h2', Bool.not_true, Bool.not_false, Bool.false_eq_true, if_false, if_true]
      exact E_isEquiv.refl s
  · have h1' : s.hasNode e.1 = false := by simpa using h1
    simp only [h1', Bool.not_false, if_true]
    exact E_isEquiv.refl s

/-- a refused `uDeleteEdge` on a forest: the edge does not exist, nothing was applied -/
theorem uDeleteEdge_refused {s : St} (hF : s.Forest) {e : Edge} {err : Err}
    (herr : (s.uDeleteEdge e).2 = .error err) : s.uDeleteEdge e = (s, .error .invalid) ∧ e ∉ s.edgeList := by
  by_cases he : e ∈ s.edgeList
  · obtain ⟨recs, hok⟩ := uDeleteEdge_accepts hF he
    rw [hok] at herr; cases herr
  · have hE : s.hasEdge e = false := by
      cases h : s.hasEdge e with
      | false => rfl
      | true => exact absurd (tk_hasEdge_iff.1 h) he
    refine ⟨?_, he⟩
    unfold uDeleteEdge
    simp only [hE, Bool.not_false, if_true]

theorem Inv3.mk' {s : St} (hv : s.Valid) (hw : WF s) (hi : EdgeInv s) : Inv3 s :=
  ⟨hv, ⟨hw, MaxOK.of_book hw.ids hv.book⟩, hi⟩

/-! ## §8 explicit reading, example state -/

/-- the explicit C01 reading of a lawful run: `ActionGroup.inverse` of the recorded list, from any
    state in the `E`-class of the result, succeeds and restores the input up to `ObsEq`; inverting
    the returned inverse group again reproduces the result up to `ObsEq` -/
theorem run_reading {s : St} {a : UOut} {recs : List PrimRec} (h : Run s a) (hr : a.2 = .ok recs) :
    Chain E s recs a.1 ∧
    ∀ t, E t a.1 → ∃ s₁ recs', t.invGroup recs = (s₁, .ok recs') ∧ ObsEq s₁ s ∧
      recs'.length = recs.length ∧
      ∃ s₂ recs'', s₁.invGroup recs' = (s₂, .ok recs'') ∧ ObsEq s₂ a.1 := by
  have hc := h.chain hr
  refine ⟨hc, fun t ht => ?_⟩
  obtain ⟨s', recs', h1, h2, h3, _, s'', recs'', g1, g2, _⟩ := chain_undo_redo hc ht
  exact ⟨s', recs', h1, h2.1, h3, s'', recs'', g1, g2.1⟩

theorem Inv3.of_check {s : St} (h1 : R2B.validB s = true) (h2 : WFb s) (h3 : EdgeInv s) : Inv3 s :=
  have hv := R2B.valid_of_check h1
  ⟨hv, ⟨WF.of_b h2, MaxOK.of_book hv.forest.nodup_nodes hv.book⟩, h3⟩

/-- `exCur` (1@0 → {2@1, 3@1}, 2 → 4@3, 5@2 isolated; label array, regionprops key 10 and IoU key 11
    active, registered and current) satisfies the invariants of the user-level theorems -/
theorem exCur_inv3 : Inv3 exCur := by
  have hmeas : MeasOK exCur := by
    intro g hg; rw [exCur_seg] at hg; cases hg
    refine ⟨by decide, fun _ k hk => ?_⟩
    have h1 : exCur.iouKey = some 11 := by decide
    rw [h1] at hk; cases hk; decide
  have hi : EdgeInv exCur := by
    refine EdgeInv.of_records (by decide) ?_ hmeas
    intro _ _ k hk
    have h1 : exCur.iouKey = some 11 := by decide
    rw [h1] at hk; cases hk; decide
  exact Inv3.of_check (by decide) (by decide) hi

/-- without an array: `R2B.exState` (1 → 2 → {3, 4}, 5 → 6, 7 isolated) -/
theorem exState_inv3 : Inv3 R2B.exState := by
  refine Inv3.of_check (by decide) (by decide) (EdgeInv.of_records (by decide) (fun h => ?_) ?_)
  · exact absurd h (by decide)
  · intro g hg
    have : R2B.exState.seg = none := rfl
    rw [this] at hg; cases hg

/-- the user-level C01 statement from a run that re-establishes the invariants -/
theorem user_c01 {s : St} {a : UOut} {recs : List PrimRec} (h : Run s a ∧ Inv3 a.1)
    (hr : a.2 = .ok recs) :
    Chain E s recs a.1 ∧ (a.1.Valid ∧ Good a.1 ∧ EdgeInv a.1) ∧
    ∀ t, E t a.1 → ∃ s₁ recs', t.invGroup recs = (s₁, .ok recs') ∧ ObsEq s₁ s ∧
      recs'.length = recs.length ∧
      ∃ s₂ recs'', s₁.invGroup recs' = (s₂, .ok recs'') ∧ ObsEq s₂ a.1 :=
  ⟨(run_reading h.1 hr).1, ⟨h.2.valid, h.2.good, h.2.edge⟩, (run_reading h.1 hr).2⟩

end Ft.R3B
