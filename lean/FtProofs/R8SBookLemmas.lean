/-
  FtProofs.R8SBookLemmas — package R8S, part 2a: the relation "same object up to the order inside the
  lookups" (`Sim`) and the congruence of everything that reads or writes the lookups.

  `Sim s t`: every field of `t` equals the field of `s` — nodes, edges, array, registry, id maxima,
  node-id counter, HISTORY, refresh log — except `t2n` / `l2n`, which list under every id a
  PERMUTATION of what `s` lists (same ids present; key order free).

  The TrackAnnotator bookkeeping is read by four functions only: `bookRem` (`list.remove` + delete the
  entry when it became empty), `bookAddT` / `bookAddL` (append), `hasTrackAt` (`any`) and
  `trackNeighbors` (stable sort by time + scan).  The first four are permutation-invariant; the sort
  is deterministic exactly when the candidates have pairwise distinct times (`TInj`).
-/
import FtProofs.R8SLemmas

namespace Ft.R8S
open Ft Ft.St List

/-! ## §1 lookups up to permutation -/

/-- the two entries list the same nodes up to order (`None` ≡ an empty list: every reader treats a
    missing entry and an empty one alike) -/
def LRel (o o' : Option (List Node)) : Prop := (o.getD []).Perm (o'.getD [])

theorem LRel.refl (o : Option (List Node)) : LRel o o := Perm.refl _

theorem LRel.getD {o o' : Option (List Node)} (h : LRel o o') : (o.getD []).Perm (o'.getD []) := h

/-- the two lookups have distinct keys and list under every id permutations of each other -/
structure BS (a a' : Book) : Prop where
  ka : (a.map (·.1)).Nodup
  kb : (a'.map (·.1)).Nodup
  rel : ∀ k, LRel (alook k a) (alook k a')

theorem BS.refl {a : Book} (h : (a.map (·.1)).Nodup) : BS a a := ⟨h, h, fun _ => LRel.refl _⟩

theorem BS.symm {a b : Book} (h : BS a b) : BS b a := ⟨h.kb, h.ka, fun k => (h.rel k).symm⟩

theorem BS.aset {a a' : Book} (h : BS a a') (id : Nat) {l l' : List Node} (p : l.Perm l') :
    BS (aset id l a) (aset id l' a') := by
  refine ⟨PC.nodup_keys_aset h.ka, PC.nodup_keys_aset h.kb, fun k => ?_⟩
  rw [PC.alook_aset, PC.alook_aset]
  by_cases e : k = id
  · rw [if_pos e, if_pos e]; exact p
  · rw [if_neg e, if_neg e]; exact h.rel k

theorem foldl_erase_perm (ns : List Node) : ∀ {l l' : List Node}, l.Perm l' →
    (ns.foldl (fun acc n => acc.erase n) l).Perm (ns.foldl (fun acc n => acc.erase n) l') := by
  induction ns with
  | nil => intro l l' p; exact p
  | cons a r ih => intro l l' p; exact ih (p.erase a)

theorem foldl_erase_nil (ns : List Node) : ns.foldl (fun acc n => acc.erase n) ([] : List Node) = [] := by
  induction ns with
  | nil => rfl
  | cons a r ih => simpa using ih

theorem bookRem_keys {m : Book} (hk : (m.map (·.1)).Nodup) (ns : List Node) (id : Nat) :
    ((bookRem m ns id).map (·.1)).Nodup := by
  unfold bookRem
  cases alook id m with
  | none => exact hk
  | some l =>
    simp only
    by_cases he : (ns.foldl (fun acc n => acc.erase n) l).isEmpty = true
    · rw [if_pos he]; exact PC.nodup_keys_adel hk
    · rw [if_neg he]; exact PC.nodup_keys_aset hk

/-- what `bookRem` leaves under each id (a missing entry read as the empty list) -/
theorem bookRem_getD {m : Book} (hk : (m.map (·.1)).Nodup) (ns : List Node) (id k : Nat) :
    (alook k (bookRem m ns id)).getD [] =
      if k = id then ns.foldl (fun acc n => acc.erase n) ((alook id m).getD []) else (alook k m).getD [] := by
  unfold bookRem
  cases hl : alook id m with
  | none =>
    simp only
    by_cases e : k = id
    · subst e; rw [if_pos rfl, hl]; simp [foldl_erase_nil]
    · rw [if_neg e]
  | some l =>
    simp only [Option.getD_some]
    by_cases he : (ns.foldl (fun acc n => acc.erase n) l).isEmpty = true
    · rw [if_pos he, PC.alook_adel _ _ _ hk]
      by_cases e : k = id
      · rw [if_pos e, if_pos e]
        rw [List.isEmpty_iff] at he
        rw [he]; rfl
      · rw [if_neg e, if_neg e]
    · rw [if_neg he, PC.alook_aset]
      by_cases e : k = id
      · rw [if_pos e, if_pos e]; rfl
      · rw [if_neg e, if_neg e]

theorem bookRem_bs {a a' : Book} (h : BS a a') (ns : List Node) (id : Nat) :
    BS (bookRem a ns id) (bookRem a' ns id) := by
  refine ⟨bookRem_keys h.ka ns id, bookRem_keys h.kb ns id, fun k => ?_⟩
  unfold LRel
  rw [bookRem_getD h.ka, bookRem_getD h.kb]
  by_cases e : k = id
  · rw [if_pos e, if_pos e]; exact foldl_erase_perm ns (h.rel id)
  · rw [if_neg e, if_neg e]; exact h.rel k

theorem foldl_addL_perm (ns : List Node) : ∀ {l l' : List Node}, l.Perm l' →
    (ns.foldl (fun acc n => if acc.contains n then acc else acc ++ [n]) l).Perm
      (ns.foldl (fun acc n => if acc.contains n then acc else acc ++ [n]) l') := by
  induction ns with
  | nil => intro l l' p; exact p
  | cons a r ih =>
    intro l l' p
    simp only [foldl_cons]
    apply ih
    rw [p.contains_eq]
    split
    · exact p
    · exact p.append_right _

theorem any_perm {l l' : List Node} (p : l.Perm l') (f : Node → Bool) : l.any f = l'.any f := by
  rw [Bool.eq_iff_iff, any_eq_true, any_eq_true]
  constructor
  · rintro ⟨x, hx, hf⟩; exact ⟨x, p.mem_iff.1 hx, hf⟩
  · rintro ⟨x, hx, hf⟩; exact ⟨x, p.mem_iff.2 hx, hf⟩

/-! ## §2 the relation on states -/

/-- `s` with other lookups -/
def wb (s : St) (a b : Book) : St := { s with t2n := a, l2n := b }

@[simp] theorem wb_self (s : St) : wb s s.t2n s.l2n = s := rfl
@[simp] theorem wb_wb (s : St) (a b c d : Book) : wb (wb s a b) c d = wb s c d := rfl
@[simp] theorem wb_t2n (s : St) (a b : Book) : (wb s a b).t2n = a := rfl
@[simp] theorem wb_l2n (s : St) (a b : Book) : (wb s a b).l2n = b := rfl
@[simp] theorem wb_nodes (s : St) (a b : Book) : (wb s a b).nodes = s.nodes := rfl
@[simp] theorem wb_edges (s : St) (a b : Book) : (wb s a b).edges = s.edges := rfl
@[simp] theorem wb_seg (s : St) (a b : Book) : (wb s a b).seg = s.seg := rfl
@[simp] theorem wb_hist (s : St) (a b : Book) : (wb s a b).hist = s.hist := rfl
@[simp] theorem wb_linOn (s : St) (a b : Book) : (wb s a b).linOn = s.linOn := rfl
@[simp] theorem wb_posKeys (s : St) (a b : Book) : (wb s a b).posKeys = s.posKeys := rfl
@[simp] theorem wb_regNode (s : St) (a b : Book) : (wb s a b).regNode = s.regNode := rfl
@[simp] theorem wb_regEdge (s : St) (a b : Book) : (wb s a b).regEdge = s.regEdge := rfl
@[simp] theorem wb_rpActive (s : St) (a b : Book) : (wb s a b).rpActive = s.rpActive := rfl
@[simp] theorem wb_iouKey (s : St) (a b : Book) : (wb s a b).iouKey = s.iouKey := rfl
@[simp] theorem wb_iouActive (s : St) (a b : Book) : (wb s a b).iouActive = s.iouActive := rfl
@[simp] theorem wb_maxTid (s : St) (a b : Book) : (wb s a b).maxTid = s.maxTid := rfl
@[simp] theorem wb_maxLin (s : St) (a b : Book) : (wb s a b).maxLin = s.maxLin := rfl
@[simp] theorem wb_counter (s : St) (a b : Book) : (wb s a b).counter = s.counter := rfl
@[simp] theorem wb_findNode (s : St) (a b : Book) (n : Node) : (wb s a b).findNode n = s.findNode n := rfl
@[simp] theorem wb_findEdge (s : St) (a b : Book) (e : Edge) : (wb s a b).findEdge e = s.findEdge e := rfl
@[simp] theorem wb_hasNode (s : St) (a b : Book) (n : Node) : (wb s a b).hasNode n = s.hasNode n := rfl
@[simp] theorem wb_hasEdge (s : St) (a b : Book) (e : Edge) : (wb s a b).hasEdge e = s.hasEdge e := rfl
@[simp] theorem wb_succs (s : St) (a b : Book) (n : Node) : (wb s a b).succs n = s.succs n := rfl
@[simp] theorem wb_preds (s : St) (a b : Book) (n : Node) : (wb s a b).preds n = s.preds n := rfl
@[simp] theorem wb_outdeg (s : St) (a b : Book) (n : Node) : (wb s a b).outdeg n = s.outdeg n := rfl
@[simp] theorem wb_indeg (s : St) (a b : Book) (n : Node) : (wb s a b).indeg n = s.indeg n := rfl
@[simp] theorem wb_timeOf (s : St) (a b : Book) (n : Node) : (wb s a b).timeOf n = s.timeOf n := rfl
@[simp] theorem wb_tidOf (s : St) (a b : Book) (n : Node) : (wb s a b).tidOf n = s.tidOf n := rfl
@[simp] theorem wb_linOf (s : St) (a b : Book) (n : Node) : (wb s a b).linOf n = s.linOf n := rfl
@[simp] theorem wb_nextTid (s : St) (a b : Book) : (wb s a b).nextTid = s.nextTid := rfl
@[simp] theorem wb_nextLin (s : St) (a b : Book) : (wb s a b).nextLin = s.nextLin := rfl
@[simp] theorem wb_getPixels (s : St) (a b : Book) (n : Node) : (wb s a b).getPixels n = s.getPixels n := rfl
@[simp] theorem wb_protectedKeys (s : St) (a b : Book) : (wb s a b).protectedKeys = s.protectedKeys := rfl
@[simp] theorem wb_iouOf (s : St) (a b : Book) (e : Edge) : (wb s a b).iouOf e = s.iouOf e := rfl
@[simp] theorem wb_savedAttrs (s : St) (a b : Book) (r : NodeRec) : (wb s a b).savedAttrs r = s.savedAttrs r := rfl

structure Sim (s t : St) : Prop where
  core : t = wb s t.t2n t.l2n
  t2n : BS s.t2n t.t2n
  l2n : BS s.l2n t.l2n

theorem Sim.mk' {s : St} {a b : Book} (ha : BS s.t2n a) (hb : BS s.l2n b) : Sim s (wb s a b) :=
  ⟨rfl, ha, hb⟩

theorem Sim.exists {s t : St} (h : Sim s t) : ∃ a b, t = wb s a b ∧ BS s.t2n a ∧ BS s.l2n b :=
  ⟨t.t2n, t.l2n, h.core, h.t2n, h.l2n⟩

theorem Sim.refl {s : St} (h1 : (s.t2n.map (·.1)).Nodup) (h2 : (s.l2n.map (·.1)).Nodup) : Sim s s :=
  ⟨rfl, BS.refl h1, BS.refl h2⟩

theorem Sim.symm {s t : St} (h : Sim s t) : Sim t s := by
  obtain ⟨a, b, rfl, ha, hb⟩ := h.exists
  exact ⟨rfl, ha.symm, hb.symm⟩

/-- results of primitives -/
inductive SimP : Except Err (St × PrimRec) → Except Err (St × PrimRec) → Prop
  | error (e : Err) : SimP (.error e) (.error e)
  | ok {s t : St} (r : PrimRec) : Sim s t → SimP (.ok (s, r)) (.ok (t, r))

/-- results of user actions: related states, the SAME outcome (error kind / recorded primitives) -/
def SimU (a b : UOut) : Prop := Sim a.1 b.1 ∧ a.2 = b.2

def liftU (x y : Book) (a : UOut) : UOut := (wb a.1 x y, a.2)

@[simp] theorem liftU_fst (x y : Book) (a : UOut) : (liftU x y a).1 = wb a.1 x y := rfl
@[simp] theorem liftU_snd (x y : Book) (a : UOut) : (liftU x y a).2 = a.2 := rfl

theorem SimU.exists {a b : UOut} (h : SimU a b) :
    ∃ x y, b = liftU x y a ∧ BS a.1.t2n x ∧ BS a.1.l2n y := by
  obtain ⟨x, y, h1, hx, hy⟩ := h.1.exists
  refine ⟨x, y, ?_, hx, hy⟩
  obtain ⟨b1, b2⟩ := b
  simp only at h1
  show (b1, b2) = (wb a.1 x y, a.2)
  rw [h1, h.2]

theorem SimU.mk' {a : UOut} {x y : Book} (hx : BS a.1.t2n x) (hy : BS a.1.l2n y) : SimU a (liftU x y a) :=
  ⟨Sim.mk' hx hy, rfl⟩

/-- a state transformer that neither reads nor writes the lookups -/
def Blind (f : St → St) : Prop := ∀ s a b, f (wb s a b) = wb (f s) a b

theorem Blind.books {f : St → St} (hf : Blind f) (s : St) : (f s).t2n = s.t2n ∧ (f s).l2n = s.l2n := by
  have := hf s s.t2n s.l2n
  rw [wb_self] at this
  have h1 : (f s).t2n = (wb (f s) s.t2n s.l2n).t2n := congrArg St.t2n this
  have h2 : (f s).l2n = (wb (f s) s.t2n s.l2n).l2n := congrArg St.l2n this
  exact ⟨h1, h2⟩

theorem Blind.sim {f : St → St} (hf : Blind f) {s t : St} (h : Sim s t) : Sim (f s) (f t) := by
  obtain ⟨a, b, rfl, ha, hb⟩ := h.exists
  rw [hf]
  obtain ⟨h1, h2⟩ := hf.books s
  exact Sim.mk' (h1 ▸ ha) (h2 ▸ hb)

theorem Blind.comp {f g : St → St} (hf : Blind f) (hg : Blind g) : Blind (fun s => g (f s)) := by
  intro s a b; simp only [hf s a b, hg (f s) a b]

theorem Blind.foldl {α} {F : St → α → St} (hF : ∀ x, Blind (fun s => F s x)) (l : List α) :
    Blind (fun s => l.foldl F s) := by
  induction l with
  | nil => intro s a b; rfl
  | cons x l ih =>
    intro s a b
    simp only [foldl_cons]
    have := hF x s a b
    simp only at this
    rw [this]
    exact ih (F s x) a b

def liftP (x y : Book) : Except Err (St × PrimRec) → Except Err (St × PrimRec)
  | .ok (s, r) => .ok (wb s x y, r)
  | .error e => .error e

/-- a primitive that neither reads nor writes the lookups -/
def BlindP (f : St → Except Err (St × PrimRec)) : Prop := ∀ s a b, f (wb s a b) = liftP a b (f s)

theorem BlindP.sim {f : St → Except Err (St × PrimRec)} (hf : BlindP f) {s t : St} (h : Sim s t) :
    SimP (f s) (f t) := by
  obtain ⟨a, b, rfl, ha, hb⟩ := h.exists
  rw [hf]
  have h0 := hf s s.t2n s.l2n
  rw [wb_self] at h0
  rcases hfs : f s with e | ⟨s', r⟩
  · exact .error e
  · rw [hfs] at h0
    simp only [liftP, Except.ok.injEq, Prod.mk.injEq, and_true] at h0
    refine .ok r ?_
    have h1 : s'.t2n = s.t2n := by rw [h0]; rfl
    have h2 : s'.l2n = s.l2n := by rw [h0]; rfl
    exact Sim.mk' (h1 ▸ ha) (h2 ▸ hb)

/-! ## §3 the bookkeeping writers -/

theorem bookRemT_sim {s t : St} (h : Sim s t) (ns : List Node) (id : Nat) :
    Sim (s.bookRemT ns id) (t.bookRemT ns id) := by
  obtain ⟨a, b, rfl, ha, hb⟩ := h.exists
  exact ⟨rfl, bookRem_bs ha ns id, hb⟩

theorem bookRemL_sim {s t : St} (h : Sim s t) (ns : List Node) (id : Nat) :
    Sim (s.bookRemL ns id) (t.bookRemL ns id) := by
  obtain ⟨a, b, rfl, ha, hb⟩ := h.exists
  exact ⟨rfl, ha, bookRem_bs hb ns id⟩

theorem bookAddT_sim {s t : St} (h : Sim s t) (ns : List Node) (id : Nat) :
    Sim (s.bookAddT ns id) (t.bookAddT ns id) := by
  obtain ⟨a, b, rfl, ha, hb⟩ := h.exists
  exact ⟨rfl, ha.aset id ((ha.rel id).getD.append_right ns), hb⟩

theorem bookAddL_sim {s t : St} (h : Sim s t) (ns : List Node) (id : Nat) :
    Sim (s.bookAddL ns id) (t.bookAddL ns id) := by
  obtain ⟨a, b, rfl, ha, hb⟩ := h.exists
  exact ⟨rfl, ha, hb.aset id (foldl_addL_perm ns (hb.rel id).getD)⟩

theorem bookMoveT_sim {s t : St} (h : Sim s t) (ns : List Node) (o n : Nat) :
    Sim (s.bookMoveT ns o n) (t.bookMoveT ns o n) :=
  bookAddT_sim (bookRemT_sim h ns o) ns n

theorem bookMoveL_sim {s t : St} (h : Sim s t) (ns : List Node) (o : Option Nat) (n : Nat) :
    Sim (s.bookMoveL ns o n) (t.bookMoveL ns o n) := by
  unfold St.bookMoveL
  cases o with
  | none => exact bookAddL_sim h ns n
  | some o => exact bookAddL_sim (bookRemL_sim h ns o) ns n

theorem trackOnAdd_sim {s t : St} (h : Sim s t) (r : NodeRec) :
    Sim (s.trackOnAdd r) (t.trackOnAdd r) := by
  have hl : t.linOn = s.linOn := by rw [h.core]; rfl
  unfold St.trackOnAdd
  rw [hl]
  cases s.linOn <;> cases r.lin
  · exact bookAddT_sim h _ _
  · exact bookAddT_sim h _ _
  · exact bookAddT_sim h _ _
  · exact bookAddL_sim (bookAddT_sim h _ _) _ _

theorem trackOnDelete_sim {s t : St} (h : Sim s t) (r : NodeRec) :
    Sim (s.trackOnDelete r) (t.trackOnDelete r) := by
  have hl : t.linOn = s.linOn := by rw [h.core]; rfl
  unfold St.trackOnDelete
  rw [hl]
  cases s.linOn <;> cases r.lin
  · exact bookRemT_sim h _ _
  · exact bookRemT_sim h _ _
  · exact bookRemT_sim h _ _
  · exact bookRemL_sim (bookRemT_sim h _ _) _ _

/-! ## §4 the bookkeeping readers -/

theorem hasTrackAt_getD (s : St) (tid time : Nat) :
    s.hasTrackAt tid time = ((alook tid s.t2n).getD []).any (fun n => s.timeOf n == some time) := by
  unfold St.hasTrackAt
  cases alook tid s.t2n <;> rfl

theorem hasTrackAt_sim {s t : St} (h : Sim s t) (tid time : Nat) :
    t.hasTrackAt tid time = s.hasTrackAt tid time := by
  obtain ⟨a, b, rfl, ha, hb⟩ := h.exists
  rw [hasTrackAt_getD, hasTrackAt_getD]
  simp only [wb_t2n, wb_timeOf]
  exact (any_perm (ha.rel tid) _).symm

/-- the candidates have pairwise distinct times: the stable sort has one possible result -/
def TInj (s : St) (l : List Node) : Prop := ∀ a b, a ∈ l → b ∈ l → PC.tm s a = PC.tm s b → a = b

theorem sortByTime_perm_eq {s : St} {l l' : List Node} (p : l.Perm l') (hi : TInj s l) :
    s.sortByTime l = s.sortByTime l' := by
  have p1 := PC.sortByTime_perm s l
  have p2 := PC.sortByTime_perm s l'
  refine Perm.eq_of_pairwise (le := fun a b => PC.tm s a ≤ PC.tm s b) ?_
    (PC.sortByTime_sorted s l) (PC.sortByTime_sorted s l') (p1.trans (p.trans p2.symm))
  intro a b ha hb h1 h2
  exact hi a b (p1.mem_iff.1 ha) (p.mem_iff.2 (p2.mem_iff.1 hb)) (Nat.le_antisymm h1 h2)

theorem insByTime_wb (s : St) (a b : Book) (x : Node) (l : List Node) :
    insByTime (wb s a b) x l = insByTime s x l := by
  induction l with
  | nil => rfl
  | cons y ys ih => simp only [insByTime, ih, wb_timeOf]

theorem sortByTime_wb (s : St) (a b : Book) (l : List Node) :
    sortByTime (wb s a b) l = sortByTime s l := by
  unfold sortByTime
  congr 1
  funext acc x
  exact insByTime_wb s a b x acc

theorem scanNeighbors_wb (s : St) (a b : Book) (time : Nat) (l : List Node) (pred : Option Node) :
    scanNeighbors (wb s a b) time l pred = scanNeighbors s time l pred := by
  induction l generalizing pred with
  | nil => rfl
  | cons y ys ih => simp only [scanNeighbors, ih, wb_timeOf]

/-- **`get_track_neighbors` up to the order of the lookups**: when the candidates listed under `tid`
    have pairwise distinct times, the two calls return the same neighbours and leave related
    states -/
theorem trackNeighbors_sim {s t : St} (h : Sim s t) (tid time : Nat)
    (hi : ∀ l, alook tid s.t2n = some l → TInj s l) :
    Sim (s.trackNeighbors tid time).1 (t.trackNeighbors tid time).1 ∧
    (t.trackNeighbors tid time).2 = (s.trackNeighbors tid time).2 := by
  obtain ⟨a, b, rfl, ha, hb⟩ := h.exists
  have hr : ((alook tid s.t2n).getD []).Perm ((alook tid a).getD []) := ha.rel tid
  unfold St.trackNeighbors
  simp only [wb_t2n]
  have nil_of : ∀ {l : List Node}, ([] : List Node).Perm l → l = [] := by
    intro l p; simpa using p.symm.length_eq
  have nil_of' : ∀ {l : List Node}, l.Perm ([] : List Node) → l = [] := by
    intro l p; simpa using p.length_eq
  rcases hx : alook tid s.t2n with _ | l
  · rcases hy : alook tid a with _ | l'
    · exact ⟨Sim.mk' ha hb, rfl⟩
    · rw [hx, hy] at hr
      have : l' = [] := nil_of hr
      subst this
      exact ⟨Sim.mk' ha hb, rfl⟩
  · have hi' := hi l hx
    cases l with
    | nil =>
      rcases hy : alook tid a with _ | l'
      · exact ⟨Sim.mk' ha hb, rfl⟩
      · rw [hx, hy] at hr
        have : l' = [] := nil_of hr
        subst this
        exact ⟨Sim.mk' ha hb, rfl⟩
    | cons c cs =>
      rcases hy : alook tid a with _ | l'
      · rw [hx, hy] at hr
        exact absurd (nil_of' hr) (by simp)
      · rw [hx, hy] at hr
        simp only [Option.getD_some] at hr
        cases l' with
        | nil => exact absurd (nil_of' hr) (by simp)
        | cons c' cs' =>
          simp only [sortByTime_wb, scanNeighbors_wb]
          rw [← sortByTime_perm_eq hr hi']
          exact ⟨⟨rfl, ha.aset tid (Perm.refl _), hb⟩, rfl⟩

end Ft.R8S
