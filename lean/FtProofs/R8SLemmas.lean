/-
  FtProofs.R8SLemmas — package R8S, part 1: the reloaded object.

  `load_tracks(save_tracks(tracks), solution=True)` (import_export/internal_format.py) builds a NEW
  `SolutionTracks` from the stored graph (node_link JSON: every node / edge with ALL its attributes
  in stored order), the stored array and the stored FeatureDict:

  Python                                                      | here
  ------------------------------------------------------------+------------------------------------
  graph.json / seg.npy / attrs.json round trip                | `C14_internal`: the TABLE comes back;
                                                              |   in the session state: `nodes`, `edges`,
                                                              |   `seg`, registry fields unchanged
  `Tracks.__init__`: `action_history = ActionHistory()`       | `hist := {}`
                     `node_id_counter = 1`                    | `counter := 1`
  `_activate_features_from_dict` (features=… given): every    | `linOn`, `rpActive`, `iouActive`,
     registered key that an annotator offers is ACTIVATED,    |   `regNode`, `regEdge`, `posKeys`
     nothing is recomputed                                    |   unchanged, no value rewritten
  `TrackAnnotator.__init__` → `_get_max_id_and_map(key)`:      | `Construct.maxIdMap (cnodes s) key`
     one pass over `graph.nodes` in stored order, `None`      |   (the R7S model of that function, on
     skipped, `id_to_nodes[id].append(node)`, running max     |   the nodes as the annotator reads them)
  the refresh signal log of the harness                       | `refreshes := 0`, `lastPayload := none`

  `reload s` is that object; `cleared s` is `s` with what a new object never has (history, node-id
  counter, refresh log) reset and NOTHING else touched; `tightened s` is `cleared s` with the two id
  maxima lowered to the largest id in use.

  What is proved here: the exact content of the rebuilt lookups (`alook_reload_t2n/l2n`: under each id
  the nodes that carry it, in node insertion order; keys distinct), the rebuilt maxima (`maxOf`:
  the largest id in use — NOT the old maximum), `E (reload s) s` for every `Inv` state (so `Inv` is
  inherited), the table the exporters see is unchanged.
-/
import FtProofs.R5ALemmas
import FtProofs.R3DFinalLemmas
import FtModel.Construct

namespace Ft.R8S
open Ft Ft.St Ft.R2A1 Ft.R3P Ft.R3D Ft.Construct List

abbrev Book := List (Nat × List Node)

/-! ## §1 `_get_max_id_and_map`, exactly -/

/-- one iteration of `_get_max_id_and_map` -/
def mmS (key : Name) (acc : Nat × Book) (n : CNode) : Nat × Book :=
  match attrVal n key with
  | none => acc
  | some v => (if v > acc.1 then v else acc.1, aset v ((alook v acc.2).getD [] ++ [n.id]) acc.2)

theorem maxIdMap_fold (nodes : List CNode) (key : Name) :
    maxIdMap nodes key = nodes.foldl (mmS key) (0, []) := rfl

/-- the nodes that carry `id` under `key`, in graph order -/
def idsWith (key : Name) (l : List CNode) (id : Nat) : List Node :=
  (l.filter (fun c => attrVal c key == some id)).map (·.id)

/-- the largest value under `key` (0 when there is none) -/
def maxOf (key : Name) (l : List CNode) : Nat :=
  (l.filterMap (fun c => attrVal c key)).foldl (fun m v => if v > m then v else m) 0

theorem idsWith_append (key : Name) (l₁ l₂ : List CNode) (id : Nat) :
    idsWith key (l₁ ++ l₂) id = idsWith key l₁ id ++ idsWith key l₂ id := by
  unfold idsWith; rw [filter_append, map_append]

theorem idsWith_single (key : Name) (n : CNode) (id : Nat) :
    idsWith key [n] id = if attrVal n key = some id then [n.id] else [] := by
  unfold idsWith
  by_cases h : attrVal n key = some id
  · simp [h]
  · have : (attrVal n key == some id) = false := by simpa using h
    simp [h, this]

theorem maxOf_snoc_none (key : Name) (l : List CNode) (n : CNode) (h : attrVal n key = none) :
    maxOf key (l ++ [n]) = maxOf key l := by
  unfold maxOf; simp [filterMap_append, h]

theorem maxOf_snoc_some (key : Name) (l : List CNode) (n : CNode) (v : Nat) (h : attrVal n key = some v) :
    maxOf key (l ++ [n]) = if v > maxOf key l then v else maxOf key l := by
  unfold maxOf; simp [filterMap_append, h]

structure MX (key : Name) (done : List CNode) (acc : Nat × Book) : Prop where
  look : ∀ id, alook id acc.2 = if idsWith key done id = [] then none else some (idsWith key done id)
  max : acc.1 = maxOf key done
  keys : (acc.2.map (·.1)).Nodup

theorem MX.getD {key : Name} {done : List CNode} {acc : Nat × Book} (h : MX key done acc) (id : Nat) :
    (alook id acc.2).getD [] = idsWith key done id := by
  rw [h.look id]
  by_cases e : idsWith key done id = []
  · rw [if_pos e, e]; rfl
  · rw [if_neg e]; rfl

theorem mmS_inv (key : Name) (done : List CNode) (acc : Nat × Book) (n : CNode) (h : MX key done acc) :
    MX key (done ++ [n]) (mmS key acc n) := by
  unfold mmS
  cases hv : attrVal n key with
  | none =>
    refine ⟨fun id => ?_, ?_, h.keys⟩
    · rw [idsWith_append, idsWith_single, hv]
      simp only [reduceCtorEq, if_false, append_nil]
      exact h.look id
    · rw [maxOf_snoc_none key done n hv]; exact h.max
  | some v =>
    refine ⟨fun id => ?_, ?_, PC.nodup_keys_aset h.keys⟩
    · simp only
      rw [PC.alook_aset, idsWith_append, idsWith_single, hv, h.getD v]
      by_cases e : id = v
      · subst e
        simp only [if_true]
        rw [if_neg]
        simp
      · have e' : ¬ (some v = some id) := fun h' => e (Option.some.inj h').symm
        rw [if_neg e, if_neg e', append_nil]
        exact h.look id
    · simp only
      rw [maxOf_snoc_some key done n v hv, h.max]

theorem mmFold_inv (key : Name) (rest done : List CNode) (acc : Nat × Book) (h : MX key done acc) :
    MX key (done ++ rest) (rest.foldl (mmS key) acc) := by
  induction rest generalizing done acc with
  | nil => simpa using h
  | cons n r ih =>
    simp only [foldl_cons]
    have := ih (done ++ [n]) (mmS key acc n) (mmS_inv key done acc n h)
    simpa using this

/-- **`_get_max_id_and_map`, exactly**: under every id the nodes that carry it, in graph order (an id
    carried by no node has no entry); the maximum is the largest id in use; keys distinct. -/
theorem maxIdMap_spec (nodes : List CNode) (key : Name) : MX key nodes (maxIdMap nodes key) := by
  have h0 : MX key [] (0, []) := ⟨fun id => by simp [alook, idsWith], rfl, by simp⟩
  have := mmFold_inv key nodes [] (0, []) h0
  rw [nil_append, ← maxIdMap_fold] at this
  exact this

theorem le_foldl_max (l : List Nat) : ∀ (m : Nat),
    m ≤ l.foldl (fun m v => if v > m then v else m) m ∧
    ∀ v ∈ l, v ≤ l.foldl (fun m v => if v > m then v else m) m := by
  induction l with
  | nil => intro m; exact ⟨Nat.le_refl _, fun v hv => by cases hv⟩
  | cons a r ih =>
    intro m
    simp only [foldl_cons]
    obtain ⟨h1, h2⟩ := ih (if a > m then a else m)
    refine ⟨Nat.le_trans (by split <;> omega) h1, fun v hv => ?_⟩
    rcases mem_cons.mp hv with rfl | hv
    · exact Nat.le_trans (by split <;> omega) h1
    · exact h2 v hv

theorem foldl_max_attained (l : List Nat) : ∀ (m : Nat),
    l.foldl (fun m v => if v > m then v else m) m = m ∨
    l.foldl (fun m v => if v > m then v else m) m ∈ l := by
  induction l with
  | nil => intro m; exact Or.inl rfl
  | cons a r ih =>
    intro m
    simp only [foldl_cons]
    rcases ih (if a > m then a else m) with h | h
    · rw [h]
      by_cases ham : a > m
      · rw [if_pos ham]; exact Or.inr mem_cons_self
      · rw [if_neg ham]; exact Or.inl rfl
    · exact Or.inr (mem_cons_of_mem _ h)

theorem le_maxOf {key : Name} {l : List CNode} {c : CNode} (hc : c ∈ l) {v : Nat}
    (hv : attrVal c key = some v) : v ≤ maxOf key l := by
  unfold maxOf
  exact (le_foldl_max _ 0).2 v (mem_filterMap.mpr ⟨c, hc, hv⟩)

theorem maxOf_attained (key : Name) (l : List CNode) :
    maxOf key l = 0 ∨ ∃ c ∈ l, attrVal c key = some (maxOf key l) := by
  unfold maxOf
  rcases foldl_max_attained (l.filterMap (fun c => attrVal c key)) 0 with h | h
  · exact Or.inl h
  · obtain ⟨c, hc, hv⟩ := mem_filterMap.mp h
    exact Or.inr ⟨c, hc, hv⟩

theorem nodup_idsWith {key : Name} {l : List CNode} (h : (l.map (·.id)).Nodup) (id : Nat) :
    (idsWith key l id).Nodup :=
  h.sublist (filter_sublist.map _)

theorem mem_idsWith {key : Name} {l : List CNode} {id : Nat} {n : Node} :
    n ∈ idsWith key l id ↔ ∃ c ∈ l, c.id = n ∧ attrVal c key = some id := by
  unfold idsWith
  simp only [mem_map, mem_filter, beq_iff_eq]
  constructor
  · rintro ⟨c, ⟨hc, hv⟩, rfl⟩; exact ⟨c, hc, rfl, hv⟩
  · rintro ⟨c, hc, rfl, hv⟩; exact ⟨c, ⟨hc, hv⟩, rfl⟩

theorem inBook_maxIdMap (nodes : List CNode) (key : Name) (id : Nat) (n : Node) :
    PC.InBook (maxIdMap nodes key).2 id n ↔ n ∈ idsWith key nodes id := by
  unfold PC.InBook
  rw [(maxIdMap_spec nodes key).look id]
  by_cases e : idsWith key nodes id = []
  · rw [if_pos e, e]; simp
  · rw [if_neg e]; simp

theorem mapWF_maxIdMap {nodes : List CNode} (h : (nodes.map (·.id)).Nodup) (key : Name) :
    PC.MapWF (maxIdMap nodes key).2 := by
  refine ⟨(maxIdMap_spec nodes key).keys, fun id l hl => ?_⟩
  rw [(maxIdMap_spec nodes key).look id] at hl
  by_cases e : idsWith key nodes id = []
  · rw [if_pos e] at hl; cases hl
  · rw [if_neg e] at hl; cases hl; exact nodup_idsWith h id

/-! ## §2 the reloaded object -/

/-- the tracklet / lineage keys of a solution (`FeatureDict.tracklet_key`, `.lineage_key`) -/
def tKey : Name := "track_id"
def lKey : Name := "lineage_id"

/-- a graph node as `TrackAnnotator.__init__` reads it (the other attributes are not looked at) -/
def cnodeOf (r : NodeRec) : CNode :=
  { id := r.id, time := r.time, attrs := [(tKey, some r.tid), (lKey, r.lin)] }

def cnodes (s : St) : List CNode := s.nodes.map cnodeOf

@[simp] theorem attrVal_t (r : NodeRec) : attrVal (cnodeOf r) tKey = some r.tid := by
  simp [attrVal, cnodeOf, alook, tKey]
@[simp] theorem attrVal_l (r : NodeRec) : attrVal (cnodeOf r) lKey = r.lin := by
  simp [attrVal, cnodeOf, alook, tKey, lKey]

theorem cnodes_ids (s : St) : (cnodes s).map (·.id) = s.ids := by
  unfold cnodes St.ids; rw [map_map]; rfl

/-- the largest track id / lineage id in use -/
def tightT (s : St) : Nat := maxOf tKey (cnodes s)
def tightL (s : St) : Nat := maxOf lKey (cnodes s)

/-- **the object `load_tracks(save_tracks(s))` returns** (see the header table) -/
def reload (s : St) : St :=
  { s with
    t2n := (maxIdMap (cnodes s) tKey).2, maxTid := (maxIdMap (cnodes s) tKey).1
    l2n := (maxIdMap (cnodes s) lKey).2, maxLin := (maxIdMap (cnodes s) lKey).1
    counter := 1, hist := {}, refreshes := 0, lastPayload := none }

/-- `s` as a NEW object would hold it: empty history, node-id counter 1, empty refresh log -/
def cleared (s : St) : St :=
  { s with counter := 1, hist := {}, refreshes := 0, lastPayload := none }

/-- `cleared s` with the id maxima lowered to the largest id in use -/
def tightened (s : St) : St :=
  { s with maxTid := tightT s, maxLin := tightL s,
           counter := 1, hist := {}, refreshes := 0, lastPayload := none }

/-- the id maxima of `s` are the largest ids in use (no id was issued and abandoned) -/
def TightMax (s : St) : Prop := s.maxTid = tightT s ∧ s.maxLin = tightL s

instance (s : St) : Decidable (TightMax s) := by unfold TightMax; exact inferInstance

/-- the lookups of `s` are in the order a fresh pass over the nodes produces -/
def BookCanon (s : St) : Prop :=
  s.t2n = (maxIdMap (cnodes s) tKey).2 ∧ s.l2n = (maxIdMap (cnodes s) lKey).2

instance (s : St) : Decidable (BookCanon s) := by unfold BookCanon; exact inferInstance

theorem reload_maxTid (s : St) : (reload s).maxTid = tightT s := (maxIdMap_spec _ _).max
theorem reload_maxLin (s : St) : (reload s).maxLin = tightL s := (maxIdMap_spec _ _).max

theorem tightened_eq_cleared {s : St} (h : TightMax s) : tightened s = cleared s := by
  unfold tightened cleared; rw [← h.1, ← h.2]

theorem reload_eq_tightened {s : St} (h : BookCanon s) : reload s = tightened s := by
  unfold reload tightened
  rw [← h.1, ← h.2]
  show _ = { s with maxTid := tightT s, maxLin := tightL s, counter := 1, hist := {}, refreshes := 0,
                    lastPayload := none }
  rw [← reload_maxTid, ← reload_maxLin]
  rfl

/-- nodes under a track id, in insertion order -/
def nodesT (s : St) (id : Nat) : List Node := (s.nodes.filter (fun r => r.tid == id)).map (·.id)
/-- nodes under a lineage id, in insertion order -/
def nodesL (s : St) (id : Nat) : List Node := (s.nodes.filter (fun r => r.lin == some id)).map (·.id)

theorem idsWith_t (s : St) (id : Nat) : idsWith tKey (cnodes s) id = nodesT s id := by
  unfold idsWith cnodes nodesT
  rw [filter_map, map_map]
  congr 1

theorem idsWith_l (s : St) (id : Nat) : idsWith lKey (cnodes s) id = nodesL s id := by
  unfold idsWith cnodes nodesL
  rw [filter_map, map_map]
  congr 1

/-- the rebuilt track lookup, exactly -/
theorem alook_reload_t2n (s : St) (id : Nat) :
    alook id (reload s).t2n = if nodesT s id = [] then none else some (nodesT s id) := by
  rw [← idsWith_t]; exact (maxIdMap_spec (cnodes s) tKey).look id

theorem alook_reload_l2n (s : St) (id : Nat) :
    alook id (reload s).l2n = if nodesL s id = [] then none else some (nodesL s id) := by
  rw [← idsWith_l]; exact (maxIdMap_spec (cnodes s) lKey).look id

theorem mem_nodesT {s : St} (hnd : s.ids.Nodup) (id : Nat) (n : Node) :
    n ∈ nodesT s id ↔ n ∈ s.ids ∧ s.tidOf n = some id := by
  unfold nodesT
  simp only [mem_map, mem_filter, beq_iff_eq]
  constructor
  · rintro ⟨r, ⟨hr, ht⟩, rfl⟩
    refine ⟨mem_map.mpr ⟨r, hr, rfl⟩, ?_⟩
    unfold St.tidOf; rw [findNode_of_mem_sg hnd hr]; simp [ht]
  · rintro ⟨hn, ht⟩
    obtain ⟨r, hr⟩ := St.findNode_of_mem hn
    obtain ⟨h1, h2⟩ := PC.findNode_some_mem hr
    unfold St.tidOf at ht; rw [hr] at ht
    exact ⟨r, ⟨h1, by simpa using ht⟩, h2⟩

theorem mem_nodesL {s : St} (hnd : s.ids.Nodup) (id : Nat) (n : Node) :
    n ∈ nodesL s id ↔ n ∈ s.ids ∧ s.linOf n = some id := by
  unfold nodesL
  simp only [mem_map, mem_filter, beq_iff_eq]
  constructor
  · rintro ⟨r, ⟨hr, ht⟩, rfl⟩
    refine ⟨mem_map.mpr ⟨r, hr, rfl⟩, ?_⟩
    unfold St.linOf; rw [findNode_of_mem_sg hnd hr]; simpa using ht
  · rintro ⟨hn, ht⟩
    obtain ⟨r, hr⟩ := St.findNode_of_mem hn
    obtain ⟨h1, h2⟩ := PC.findNode_some_mem hr
    unfold St.linOf at ht; rw [hr] at ht
    exact ⟨r, ⟨h1, by simpa using ht⟩, h2⟩

theorem inBook_reload_t2n {s : St} (hnd : s.ids.Nodup) (id : Nat) (n : Node) :
    PC.InBook (reload s).t2n id n ↔ n ∈ s.ids ∧ s.tidOf n = some id := by
  show PC.InBook (maxIdMap (cnodes s) tKey).2 id n ↔ _
  rw [inBook_maxIdMap, idsWith_t, mem_nodesT hnd]

theorem inBook_reload_l2n {s : St} (hnd : s.ids.Nodup) (id : Nat) (n : Node) :
    PC.InBook (reload s).l2n id n ↔ n ∈ s.ids ∧ s.linOf n = some id := by
  show PC.InBook (maxIdMap (cnodes s) lKey).2 id n ↔ _
  rw [inBook_maxIdMap, idsWith_l, mem_nodesL hnd]

/-- the rebuilt maxima bound every id in use -/
theorem tid_le_tightT {s : St} {r : NodeRec} (hr : r ∈ s.nodes) : r.tid ≤ tightT s :=
  le_maxOf (mem_map.mpr ⟨r, hr, rfl⟩) (attrVal_t r)

theorem lin_le_tightL {s : St} {r : NodeRec} (hr : r ∈ s.nodes) {l : Nat} (hl : r.lin = some l) :
    l ≤ tightL s :=
  le_maxOf (mem_map.mpr ⟨r, hr, rfl⟩) ((attrVal_l r).trans hl)

/-- … and never exceed the old maxima of a state with sound maxima -/
theorem tightT_le {s : St} (h : MaxOK s) : tightT s ≤ s.maxTid := by
  rcases maxOf_attained tKey (cnodes s) with h0 | ⟨c, hc, hv⟩
  · unfold tightT; rw [h0]; exact Nat.zero_le _
  · obtain ⟨r, hr, rfl⟩ := mem_map.mp hc
    rw [attrVal_t] at hv
    unfold tightT
    rw [← Option.some.inj hv]
    exact (h r hr).1

theorem tightL_le {s : St} (h : MaxOK s) (hon : s.linOn = true) : tightL s ≤ s.maxLin := by
  rcases maxOf_attained lKey (cnodes s) with h0 | ⟨c, hc, hv⟩
  · unfold tightL; rw [h0]; exact Nat.zero_le _
  · obtain ⟨r, hr, rfl⟩ := mem_map.mp hc
    rw [attrVal_l] at hv
    exact (h r hr).2 hon _ hv

/-! ## §3 `reload s`, `cleared s`, `tightened s` are in the `E`-class of an `Inv` state `s` -/

theorem wf_reload {s : St} (h : WF s) : WF (reload s) :=
  ⟨h.ids, h.edges, h.nkeys, h.ekeys,
   mapWF_maxIdMap (by rw [cnodes_ids]; exact h.ids) tKey,
   mapWF_maxIdMap (by rw [cnodes_ids]; exact h.ids) lKey⟩

theorem maxOK_reload (s : St) : MaxOK (reload s) := by
  intro r hr
  refine ⟨?_, fun _ l hl => ?_⟩
  · show r.tid ≤ (reload s).maxTid
    rw [reload_maxTid]; exact tid_le_tightT hr
  · show l ≤ (reload s).maxLin
    rw [reload_maxLin]; exact lin_le_tightL hr hl

theorem obsEq_reload {s : St} (hnd : s.ids.Nodup) (hB : s.BookOK) (hon : s.linOn = true) :
    ObsEq (reload s) s := by
  refine ⟨fun _ => Iff.rfl, fun _ => Iff.rfl, rfl, fun id n => ?_, fun id n => ?_, rfl⟩
  · rw [inBook_reload_t2n hnd]; exact (hB.t_iff id n).symm
  · rw [inBook_reload_l2n hnd]; exact (hB.l_iff hon id n).symm

theorem E_reload {s : St} (hI : Inv s) : E (reload s) s :=
  E.of_good (obsEq_reload hI.valid.forest.nodup_nodes hI.valid.book hI.valid.linOn)
    ⟨wf_reload hI.good.wf, maxOK_reload s⟩ hI.good

theorem E_cleared {s : St} : E (cleared s) s :=
  ⟨⟨fun _ => Iff.rfl, fun _ => Iff.rfl, rfl, fun _ _ => Iff.rfl, fun _ _ => Iff.rfl, rfl⟩,
   ⟨fun ⟨a, b, c, d, e, f⟩ => ⟨a, b, c, d, e, f⟩, fun ⟨a, b, c, d, e, f⟩ => ⟨a, b, c, d, e, f⟩⟩,
   Iff.rfl⟩

theorem maxOK_tightened (s : St) : MaxOK (tightened s) := by
  intro r hr
  exact ⟨tid_le_tightT hr, fun _ l hl => lin_le_tightL hr hl⟩

theorem E_tightened {s : St} (hI : Inv s) : E (tightened s) s :=
  ⟨⟨fun _ => Iff.rfl, fun _ => Iff.rfl, rfl, fun _ _ => Iff.rfl, fun _ _ => Iff.rfl, rfl⟩,
   ⟨fun ⟨a, b, c, d, e, f⟩ => ⟨a, b, c, d, e, f⟩, fun ⟨a, b, c, d, e, f⟩ => ⟨a, b, c, d, e, f⟩⟩,
   ⟨fun _ => hI.good.max, fun _ => maxOK_tightened s⟩⟩

theorem inv_reload {s : St} (hI : Inv s) : Inv (reload s) := Inv.of_E (E_reload hI) hI
theorem inv_cleared {s : St} (hI : Inv s) : Inv (cleared s) := Inv.of_E E_cleared hI
theorem inv_tightened {s : St} (hI : Inv s) : Inv (tightened s) := Inv.of_E (E_tightened hI) hI

/-! ## §4 lookups per id: the same node sets, as permutations -/

theorem perm_of_inBook {a b : Book} (ha : PC.MapWF a) (hb : PC.MapWF b)
    (h : ∀ id n, PC.InBook a id n ↔ PC.InBook b id n) (id : Nat) :
    ((alook id a).getD []).Perm ((alook id b).getD []) := by
  have na : ((alook id a).getD []).Nodup := by
    cases hl : alook id a with
    | none => simp
    | some l => exact ha.nodup id l hl
  have nb : ((alook id b).getD []).Nodup := by
    cases hl : alook id b with
    | none => simp
    | some l => exact hb.nodup id l hl
  rw [perm_ext_iff_of_nodup na nb]
  intro n
  have key : ∀ (m : Book), n ∈ (alook id m).getD [] ↔ PC.InBook m id n := by
    intro m
    unfold PC.InBook
    cases alook id m with
    | none => simp
    | some l => simp
  rw [key, key]; exact h id n

/-! ## §5 the table the exporters see -/

theorem toExportP_reload (encP : Val → List Nat) (enc : Val → Nat) (ndim : Nat) (scale : Option (List Nat))
    (s : St) : R5A.toExportP encP enc ndim scale (reload s) = R5A.toExportP encP enc ndim scale s := rfl

theorem toExportP_cleared (encP : Val → List Nat) (enc : Val → Nat) (ndim : Nat) (scale : Option (List Nat))
    (s : St) : R5A.toExportP encP enc ndim scale (cleared s) = R5A.toExportP encP enc ndim scale s := rfl

/-- the bookkeeping of `reload s` is what the R7S construction model builds
    (`TrackAnnotator.__init__` with both keys given, non-empty graph) -/
theorem reload_book_mkTrack (s : St) (h : s.nodes ≠ []) :
    let a := mkTrack (cnodes s) (some tKey) (some lKey)
    a.t2n = (reload s).t2n ∧ a.maxT = (reload s).maxTid ∧ a.l2n = (reload s).l2n ∧
    a.maxL = (reload s).maxLin ∧ a.tSrc = BookSrc.fromGraph ∧ a.lSrc = BookSrc.fromGraph := by
  have hne : (cnodes s).isEmpty = false := by
    unfold cnodes
    cases hn : s.nodes with
    | nil => exact absurd hn h
    | cons a r => rfl
  simp only [mkTrack, hne, Option.isSome_some, Bool.not_false, Bool.and_true, Option.getD_some]
  exact ⟨rfl, rfl, rfl, rfl, rfl, rfl⟩

end Ft.R8S
