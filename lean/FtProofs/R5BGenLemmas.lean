/-
  FtProofs.R5BGenLemmas — package R5B, part B2: a generic lifting principle.

  `PrimClosed I P Q`: the state predicate `I` is kept by every accepted primitive and by the
  re-sorting query `trackNeighbors`, and every record an accepted primitive returns satisfies `P`;
  `AddNode` is only asked to do so for attribute dictionaries with `Q` (default: all), which must
  hold of the attributes saved in a `P`-record of `DeleteNode` and of the empty dictionary.
  Then (`Pz`) for EVERY composite user action, whatever its outcome: the returned state satisfies `I`
  (also after a rollback, also on the refusal paths that leave sub-actions applied), and on
  acceptance every recorded primitive satisfies `P`.  Same for `ActionGroup.inverse` (`invGroup`).
  (The template is the `cfg_u*` family of `InverseLemmas.lean`.)
-/
import FtProofs.R2GLemmas
namespace Ft.R5B
open Ft Ft.St List

structure PrimClosed (I : St → Prop) (P : PrimRec → Prop)
    (Q : List (Key × Val) → Prop := fun _ => True) : Prop where
  addNode : ∀ {s s' : St} {r : NodeRec} {px : Option (List Pix)} {rec : PrimRec},
    I s → Q r.other → s.pAddNode r px = .ok (s', rec) → I s' ∧ P rec
  /-- the attributes saved in a recorded `DeleteNode` may be re-added -/
  recQ : ∀ {saved : NodeRec} {px : Option (List Pix)}, P (.delNode saved px) → Q saved.other
  /-- … and so may a node without attributes (the node a paint creates) -/
  qnil : Q []
  delNode : ∀ {s s' : St} {n : Node} {px : Option (List Pix)} {rec : PrimRec},
    I s → s.pDelNode n px = .ok (s', rec) → I s' ∧ P rec
  addEdge : ∀ {s s' : St} {e : Edge} {at_ : List (Key × Val)} {rec : PrimRec},
    I s → s.pAddEdge e at_ = .ok (s', rec) → I s' ∧ P rec
  delEdge : ∀ {s s' : St} {e : Edge} {rec : PrimRec},
    I s → s.pDelEdge e = .ok (s', rec) → I s' ∧ P rec
  updTid : ∀ {s s' : St} {n : Node} {t : Nat} {l : Option Nat} {rec : PrimRec},
    I s → s.pUpdTid n t l = .ok (s', rec) → I s' ∧ P rec
  updSeg : ∀ {s s' : St} {n : Node} {px : List Pix} {b : Bool} {rec : PrimRec},
    I s → s.pUpdSeg n px b = .ok (s', rec) → I s' ∧ P rec
  updAttrs : ∀ {s s' : St} {n : Node} {at_ : List (Key × Val)} {rec : PrimRec},
    I s → s.pUpdAttrs n at_ = .ok (s', rec) → I s' ∧ P rec
  nbrs : ∀ (s : St) (tid time : Nat), I s → I (s.trackNeighbors tid time).1

/-- the running outcome of a composite: state in `I`, records (if any) in `P` -/
def Pz (I : St → Prop) (P : PrimRec → Prop) (o : UOut) : Prop :=
  I o.1 ∧ ∀ recs, o.2 = .ok recs → ∀ r ∈ recs, P r

variable {I : St → Prop} {P : PrimRec → Prop} {Q : List (Key × Val) → Prop}

theorem Pz.start {s : St} (h : I s) : Pz I P (s, .ok []) :=
  ⟨h, fun recs hr r hm => by cases hr; cases hm⟩

theorem Pz.err {s : St} (h : I s) (e : Err) : Pz I P (s, .error e) :=
  ⟨h, fun recs hr => by cases hr⟩

theorem Pz.toErr {o : UOut} (h : Pz I P o) (e : Err) : Pz I P (o.1, .error e) := Pz.err h.1 e

theorem PrimClosed.invPrim (C : PrimClosed I P Q) {s s' : St} {p rec : PrimRec} (hI : I s) (hp : P p)
    (h : s.invPrim p = .ok (s', rec)) : I s' ∧ P rec := by
  cases p <;> simp only [St.invPrim] at h
  · exact C.delNode hI h
  · exact C.addNode hI (C.recQ hp) h
  · exact C.delEdge hI h
  · exact C.addEdge hI h
  · exact C.updTid hI h
  · exact C.updSeg hI h
  · exact C.updAttrs hI h

theorem Pz.invStep (C : PrimClosed I P Q) {acc : UOut} (h : Pz I P acc) (p : PrimRec) (hpp : P p) :
    Pz I P (invStep acc p) := by
  unfold St.invStep
  split
  · exact Pz.err h.1 _
  · rename_i done hd
    split
    · rename_i s' r hp
      obtain ⟨h1, h2⟩ := C.invPrim h.1 hpp hp
      refine ⟨h1, fun recs hr x hx => ?_⟩
      cases hr
      rcases List.mem_append.1 hx with hx | hx
      · exact h.2 done hd x hx
      · rw [List.mem_singleton.1 hx]; exact h2
    · exact Pz.err h.1 _

theorem Pz.invGroup (C : PrimClosed I P Q) {s : St} (h : I s) (recs : List PrimRec)
    (hr : ∀ r ∈ recs, P r) : Pz I P (s.invGroup recs) := by
  rw [invGroup_eq]
  have hr' : ∀ r ∈ recs.reverse, P r := fun r hm => hr r (List.mem_reverse.1 hm)
  generalize recs.reverse = l at hr'
  have : ∀ (acc : UOut), Pz I P acc → Pz I P (l.foldl St.invStep acc) := by
    induction l with
    | nil => intro acc ha; exact ha
    | cons p l ih =>
      intro acc ha; rw [foldl_cons]
      exact ih (fun r hm => hr' r (mem_cons_of_mem _ hm)) _ (Pz.invStep C ha p (hr' p mem_cons_self))
  exact this _ (Pz.start h)

theorem PrimClosed.rollback (C : PrimClosed I P Q) {s : St} (h : I s) (recs : List PrimRec)
    (hr : ∀ r ∈ recs, P r) : I (s.rollback recs) := (Pz.invGroup C h recs hr).1

theorem Pz.thenPrim {acc : UOut} {f : St → Except Err (St × PrimRec)} (h : Pz I P acc)
    (hf : ∀ st st' r, I st → f st = .ok (st', r) → I st' ∧ P r) : Pz I P (St.thenPrim acc f) := by
  unfold St.thenPrim
  split
  · exact Pz.err h.1 _
  · rename_i recs hd
    split
    · rename_i s' r hp
      obtain ⟨h1, h2⟩ := hf _ _ _ h.1 hp
      refine ⟨h1, fun recs' hr x hx => ?_⟩
      cases hr
      rcases List.mem_append.1 hx with hx | hx
      · exact h.2 recs hd x hx
      · rw [List.mem_singleton.1 hx]; exact h2
    · exact Pz.err h.1 _

theorem Pz.thenUser {acc : UOut} {f : St → UOut} (h : Pz I P acc)
    (hf : ∀ st, I st → Pz I P (f st)) : Pz I P (St.thenUser acc f) := by
  unfold St.thenUser
  split
  · exact Pz.err h.1 _
  · rename_i recs hd
    simp only
    split
    · rename_i recs' hr'
      refine ⟨(hf _ h.1).1, fun recs'' hr x hx => ?_⟩
      cases hr
      rcases List.mem_append.1 hx with hx | hx
      · exact h.2 recs hd x hx
      · exact (hf _ h.1).2 recs' hr' x hx
    · exact Pz.err (hf _ h.1).1 _

theorem Pz.foldl {β : Type} (F : UOut → β → UOut) (hF : ∀ acc x, Pz I P acc → Pz I P (F acc x))
    (l : List β) (a : UOut) (h : Pz I P a) : Pz I P (l.foldl F a) := by
  induction l generalizing a with
  | nil => exact h
  | cons x r ih => rw [foldl_cons]; exact ih _ (hF a x h)

/-- discharges the primitive side condition of `Pz.thenPrim` for the calls inside the user actions -/
macro "prim_pz" C:term : tactic => `(tactic| (intro st st' r hI h; first
  | exact PrimClosed.updTid $C hI h | exact PrimClosed.delEdge $C hI h | exact PrimClosed.addEdge $C hI h
  | exact PrimClosed.delNode $C hI h | exact PrimClosed.updSeg $C hI h | exact PrimClosed.updAttrs $C hI h
  | (split at h <;> first | exact PrimClosed.updTid $C hI h | cases h)))

theorem Pz.uDeleteEdge (C : PrimClosed I P Q) {s : St} (h : I s) (e : Edge) : Pz I P (s.uDeleteEdge e) := by
  unfold St.uDeleteEdge
  have ha : Pz I P (St.thenPrim (s, .ok []) (fun st => st.pDelEdge e)) :=
    Pz.thenPrim (Pz.start h) (by prim_pz C)
  split
  · exact Pz.err h _
  · simp only
    split
    · exact Pz.thenPrim ha (by prim_pz C)
    · split
      · split
        · exact ha.toErr _
        · exact Pz.thenPrim (Pz.thenPrim ha (by prim_pz C)) (by prim_pz C)
      · exact ha.toErr _

theorem Pz.addEdgePre (C : PrimClosed I P Q) {s : St} (h : I s) (e : Edge) (force : Bool) :
    Pz I P (addEdgePre s e force) := by
  unfold St.addEdgePre
  split
  · split
    · exact Pz.err h _
    · split
      · exact Pz.thenUser (Pz.start h) (fun st hst => Pz.uDeleteEdge C hst _)
      · exact Pz.err h _
  · exact Pz.start h

theorem Pz.addEdgeTail (C : PrimClosed I P Q) {a0 : UOut} (h0 : Pz I P a0) (recs0 : List PrimRec)
    (hr0 : ∀ r ∈ recs0, P r) (e : Edge) : Pz I P (addEdgeTail a0 recs0 e) := by
  unfold St.addEdgeTail
  simp only
  refine Pz.thenPrim ?_ (by prim_pz C)
  split
  · exact Pz.thenPrim h0 (by prim_pz C)
  · split
    · split
      · exact h0.toErr _
      · exact Pz.thenPrim (Pz.thenPrim h0 (by prim_pz C)) (by prim_pz C)
    · exact Pz.err (C.rollback h0.1 _ hr0) _

theorem Pz.uAddEdge (C : PrimClosed I P Q) {s : St} (h : I s) (e : Edge) (force : Bool) :
    Pz I P (s.uAddEdge e force) := by
  rw [uAddEdge_eq]
  split; · exact Pz.err h _
  split; · exact Pz.err h _
  split; · exact Pz.err h _
  have h0 := Pz.addEdgePre C h e force
  split
  · exact h0.toErr _
  · rename_i recs0 hr0
    exact Pz.addEdgeTail C h0 _ (h0.2 recs0 hr0) _

theorem Pz.anDown (C : PrimClosed I P Q) {sN : St} (h : I sN) (force : Bool) (succ : Option Node) :
    Pz I P (anDown sN force succ) := by
  unfold St.anDown
  split
  · split
    · split
      · split
        · exact Pz.err h _
        · exact Pz.thenUser (Pz.start h) (fun st hst => Pz.uDeleteEdge C hst _)
      · exact Pz.start h
    · exact Pz.start h
  · exact Pz.start h

theorem Pz.anConflicts (C : PrimClosed I P Q) {sN : St} (h : I sN) (force : Bool) (pred succ : Option Node) :
    Pz I P (anConflicts sN force pred succ) := by
  unfold St.anConflicts
  split
  · split
    · split
      · exact Pz.err h _
      · split
        · exact Pz.thenUser (Pz.thenUser (Pz.start h) (fun st hst => Pz.uDeleteEdge C hst _))
            (fun st hst => Pz.uDeleteEdge C hst _)
        · exact Pz.err h _
    · exact Pz.anDown C h _ _
  · exact Pz.anDown C h _ _

theorem Pz.anSkip (C : PrimClosed I P Q) {a0 : UOut} (h : Pz I P a0) (pred succ : Option Node) :
    Pz I P (anSkip a0 pred succ) := by
  unfold St.anSkip
  split
  · exact Pz.thenPrim h (by prim_pz C)
  · exact h

theorem Pz.anLink (C : PrimClosed I P Q) {a2 : UOut} (h : Pz I P a2) (node : Node) (pred succ : Option Node) :
    Pz I P (anLink a2 node pred succ) := by
  unfold St.anLink
  simp only
  split <;> split <;>
    first
    | exact Pz.thenPrim (Pz.thenPrim h (by prim_pz C)) (by prim_pz C)
    | exact Pz.thenPrim h (by prim_pz C)
    | exact h

theorem Pz.anTail (C : PrimClosed I P Q) (a : AddNodeArgs) (hq : Q a.other) (time tid : Nat)
    (pred succ : Option Node) {a0 : UOut} (h : Pz I P a0) : Pz I P (anTail a time tid pred succ a0) := by
  unfold St.anTail
  split
  · exact h.toErr _
  · simp only
    have h1 := Pz.anSkip C h pred succ
    split
    · exact h1.toErr _
    · rename_i recs1 hr1
      split
      · exact Pz.err (C.rollback h1.1 _ (h1.2 recs1 hr1)) _
      · rename_i s2 r hp
        obtain ⟨i2, p2⟩ := C.addNode h1.1 hq hp
        refine Pz.anLink C ⟨i2, fun recs hr x hx => ?_⟩ _ _ _
        cases hr
        rcases List.mem_append.1 hx with hx | hx
        · exact h1.2 recs1 hr1 x hx
        · rw [List.mem_singleton.1 hx]; exact p2

theorem Pz.uAddNode (C : PrimClosed I P Q) {s : St} (h : I s) (a : AddNodeArgs) (hq : Q a.other) :
    Pz I P (s.uAddNode a) := by
  cases ht : a.time with
  | none => unfold St.uAddNode; rw [ht]; exact Pz.err h _
  | some time =>
    cases hd : a.tid with
    | none => unfold St.uAddNode; rw [ht, hd]; exact Pz.err h _
    | some tid0 =>
      cases hn : s.hasNode a.node with
      | true => unfold St.uAddNode; rw [ht, hd]; simp only [hn]; exact Pz.err h _
      | false =>
        rw [uAddNode_eq_pieces s a ht hd hn]
        exact Pz.anTail C a hq _ _ _ _ (Pz.anConflicts C (C.nbrs _ _ _ h) _ _ _)

theorem Pz.uDeleteNode (C : PrimClosed I P Q) {s : St} (h : I s) (n : Node) (px : Option (List Pix)) :
    Pz I P (s.uDeleteNode n px) := by
  unfold St.uDeleteNode
  split
  · exact Pz.err h _
  · simp only
    generalize hg0 : List.foldl _ ((s, .ok []) : UOut) (s.preds n) = a0
    have h0 : Pz I P a0 := by
      subst hg0
      refine Pz.foldl _ ?_ _ _ (Pz.start h)
      intro acc p hacc
      split
      · exact hacc
      · refine Pz.thenPrim ?_ (by prim_pz C)
        split
        · split
          · exact Pz.thenPrim hacc (by prim_pz C)
          · exact hacc
        · exact hacc
    split
    · exact h0.toErr _
    · generalize hg1 : List.foldl _ a0 (a0.1.succs n) = a1
      have h1 : Pz I P a1 := by
        subst hg1
        exact Pz.foldl _ (fun acc c hacc => Pz.thenPrim hacc (by prim_pz C)) _ _ h0
      split
      · exact h1.toErr _
      · refine Pz.thenPrim ?_ (by prim_pz C)
        refine Pz.foldl _ ?_ _ _ ?_
        · intro acc io hacc
          split
          · exact Pz.thenPrim hacc (by prim_pz C)
          · exact hacc
        · have hN : ∀ tid time, Pz I P ((a1.1.trackNeighbors tid time).1, a1.2) :=
            fun tid time => ⟨C.nbrs _ _ _ h1.1, h1.2⟩
          split
          · exact Pz.thenPrim (hN _ _) (by prim_pz C)
          · exact hN _ _
      · exact h1.toErr _

theorem Pz.uSwap (C : PrimClosed I P Q) {s : St} (h : I s) (n1 n2 : Node) : Pz I P (s.uSwap n1 n2) := by
  unfold St.uSwap
  have hD : ∀ (acc : UOut) (e : Edge), Pz I P acc → Pz I P (St.thenUser acc (fun st => st.uDeleteEdge e)) :=
    fun acc e ha => Pz.thenUser ha (fun st hst => Pz.uDeleteEdge C hst _)
  have hA : ∀ (acc : UOut) (e : Edge), Pz I P acc → Pz I P (St.thenUser acc (fun st => st.uAddEdge e false)) :=
    fun acc e ha => Pz.thenUser ha (fun st hst => Pz.uAddEdge C hst _ _)
  split; · exact Pz.err h _
  simp only
  generalize (s.preds n1).head? = p1
  generalize (s.preds n2).head? = p2
  split; · exact Pz.err h _
  split; · exact Pz.err h _
  have hs : Pz I P ((s, .ok []) : UOut) := Pz.start h
  cases p1 <;> cases p2 <;> simp only [] <;> (repeat' split) <;>
    first
    | exact Pz.err h _
    | exact hs
    | exact hA _ _ (hD _ _ hs)
    | exact hA _ _ (hA _ _ (hD _ _ (hD _ _ hs)))

theorem Pz.uUpdateAttrs (C : PrimClosed I P Q) {s : St} (h : I s) (n : Node) (attrs : List (Key × Val)) :
    Pz I P (s.uUpdateAttrs n attrs) := by
  unfold St.uUpdateAttrs
  exact Pz.thenPrim (Pz.start h) (by prim_pz C)

theorem Pz.uUpdateSeg (C : PrimClosed I P Q) {s : St} (h : I s) (v : Nat) (groups : List (List Pix × Nat))
    (curTid : Nat) (force : Bool) : Pz I P (s.uUpdateSeg v groups curTid force).1 := by
  unfold St.uUpdateSeg
  split
  · exact Pz.err h _
  · simp only
    generalize hg0 : List.foldl _ ((s, .ok []) : UOut) groups = a0
    have h0 : Pz I P a0 := by
      subst hg0
      refine Pz.foldl _ ?_ _ _ (Pz.start h)
      intro acc grp hacc
      split
      · exact hacc
      · split
        · exact hacc
        · split
          · split
            · exact Pz.thenUser hacc (fun st hst => Pz.uDeleteNode C hst _ _)
            · exact Pz.thenPrim hacc (by prim_pz C)
          · exact hacc.toErr _
    split
    · exact h0.toErr _
    · rename_i recs0 hr0
      split
      · split
        · split
          · exact Pz.thenPrim h0 (by prim_pz C)
          · have hu := fun (a : AddNodeArgs) (hq : Q a.other) => Pz.uAddNode C h0.1 a hq
            split
            · rename_i recs' hr'
              refine ⟨(hu _ C.qnil).1, fun recs hr x hx => ?_⟩
              cases hr
              rcases List.mem_append.1 hx with hx | hx
              · exact h0.2 recs0 hr0 x hx
              · exact (hu _ C.qnil).2 recs' hr' x hx
            · exact Pz.err (C.rollback (hu _ C.qnil).1 _ (h0.2 recs0 hr0)) _
        · exact h0.toErr _
      · exact h0

end Ft.R5B
