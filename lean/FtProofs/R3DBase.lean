/-
  FtProofs.R3DBase — package R3D, shared vocabulary of the whole-history theorems:
  the bundle invariant `Inv`, the per-operation preconditions `OpPre`, the paint law `PaintLaw`
  (what `C01_user_updateSeg` / `C11_updateSeg_refused` deliver, at `St.step` level).
-/
import FtProofs.R3PLemmas
import FtProofs.R3ALemmas
import FtProofs.R3BLemmas
import FtProofs.R3CLemmas
import FtProofs.HistoryLemmas

namespace Ft.R3D
open Ft Ft.St Ft.R2A1 Ft.R3P List

/-- **the bundle invariant** of the whole-history theorems: a valid tracking solution (`Valid`),
    well-formed with sound id maxima (`Good`), edge attributes registered / IoU current (`EdgeInv`),
    node attributes registered / regionprops values current / positions present (`NodeInv`), labels
    and nodes in one-to-one correspondence (`SegOK`), only available regionprops keys active, and a
    positive frame size when there is an array -/
structure Inv (s : St) : Prop where
  valid : s.Valid
  good : Good s
  edge : EdgeInv s
  node : R3C.NodeInv s
  segOK : SegOK s
  avail : ∀ k ∈ s.rpActive, k ∈ s.rpAvail
  frame : ∀ g, s.seg = some g → 0 < g.frame

/-- the documented stroke preconditions of a paint on the array `g` before the caller painted:
    `R2G.PaintPre` (one frame, in range, non-empty groups listing pixels that carried the group's
    label, no previous label equals the new value, an existing label is painted in its own frame
    only) and "grouped by previous label": the labels of the groups are pairwise distinct -/
def PaintArgs (s : St) (g : Seg) (v : Nat) (groups : List (List Pix × Nat)) : Prop :=
  ∃ t0, R2G.PaintPre g s.skel v groups t0 ∧ (groups.map (·.2)).Nodup

/-- the argument preconditions of one session operation. `enable` / `disable` are not covered by
    the history theorems (they change the registry, which the common equivalence `E` compares). -/
def OpPre (s : St) : Op → Prop
  | .addNode a => a.lin = none ∧ R3C.AddArgsPre s a ∧ ∀ g, s.seg = some g → R2G.StepPre s g (.addNode a)
  | .paint v groups _ _ => ∀ g, s.seg = some g → PaintArgs s g v groups
  | .updAttrs _ attrs => ∀ kv ∈ attrs, (kv.2 ≠ Val.none → kv.1 ∈ s.regNode) ∧
      (s.seg = none → kv.1 ∈ s.posKeys → kv.2 ≠ Val.none)
  | .enable _ _ => False
  | .disable _ => False
  | _ => True

/-- what C01 / C11 say about a paint at session level (`St.step (.paint …)` first writes the stroke
    into the array, then runs `uUpdateSeg`, and restores the stroke when that is refused) -/
structure PaintLaw : Prop where
  ok : ∀ (s : St) (v : Nat) (groups : List (List Pix × Nat)) (tid : Nat) (f : Bool), Inv s →
    OpPre s (.paint v groups tid f) → (s.step (.paint v groups tid f)).2 = .ok →
    ∃ recs, (s.step (.paint v groups tid f)).1.hist = s.hist.add recs ∧
      Chain E s recs (s.step (.paint v groups tid f)).1 ∧ Inv (s.step (.paint v groups tid f)).1
  err : ∀ (s : St) (v : Nat) (groups : List (List Pix × Nat)) (tid : Nat) (f : Bool) (e : Err), Inv s →
    OpPre s (.paint v groups tid f) → (s.step (.paint v groups tid f)).2 = .err e →
    E (s.step (.paint v groups tid f)).1 s

end Ft.R3D
