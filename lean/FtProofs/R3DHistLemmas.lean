/-
  FtProofs.R3DHistLemmas — package R3D, the whole-history part (helpers of `Props/C02_R3D.lean`).

  §A  `Inv` is invariant under the common equivalence `E` and blind to the control fields.
  §B  `EditStep`: every top-level edit operation, accepted (`.ok`: one history entry, a lawful
      chain, `Inv` again) or refused (`.err`: the state stays in the `E`-class).  The paint enters
      through the explicit hypothesis `PaintLaw`.
  §C  the session: `SessOK` ⇒ `SessValid`, `Inv` of every state on the timeline.
  §D  reachability and the undo / redo reading of one accepted edit.
-/
import FtProofs.R3DBase
import FtProofs.Props.C11
import FtProofs.Props.C01_R3B
import FtProofs.Props.C01_R3C
import FtProofs.Props.C04_R3A
import FtProofs.Props.C07_R2G
import FtProofs.Props.C02
import FtProofs.Props.C03

namespace Ft.R3D
open Ft Ft.St Ft.R2A1 Ft.R3P List

/-! ## §A `Inv` under `E` -/

/-- everything `NodeInv` reads is observational -/
theorem nodeInv_congrE {s t : St} (h : E s t) (ht : WF t) (hi : R3C.NodeInv t) : R3C.NodeInv s := by
  have hF := h.obsF ht
  obtain ⟨q1, -, q3, -, -, -, -, q8⟩ := reg_fields hF.reg
  have hoth : ∀ n k, s.otherOf n k = t.otherOf n k := fun n k => R3C.otherOf_of_nobs (hF.nodes n) k
  refine ⟨fun n k hk => ?_, fun k hk => ?_, fun hs n hn k hk => ?_, fun g hg n t' ht' k hk => ?_,
    fun g hg => ?_⟩
  · rw [q1]; rw [hoth] at hk; exact hi.registered n k hk
  · rw [q1]; rw [q3] at hk; exact hi.rpreg k hk
  · rw [hoth]; rw [hF.seg] at hs; rw [q8] at hk
    exact hi.pos hs n ((mem_ids_congr hF.nodes n).1 hn) k hk
  · rw [hoth]; rw [hF.seg] at hg; rw [timeOf_congr hF.nodes] at ht'; rw [q3] at hk
    exact hi.cur g hg n t' ht' k hk
  · rw [hF.seg] at hg; intro h0; exact hi.ne0 g hg ((mem_ids_congr hF.nodes 0).1 h0)

/-- **the bundle invariant is invariant under the common equivalence** -/
theorem Inv.of_E {s t : St} (h : E s t) (ht : Inv t) : Inv s := by
  obtain ⟨-, -, -, -, -, q6, -, -⟩ := reg_fields h.1.reg
  obtain ⟨-, -, q3, -, -, -, -, -⟩ := reg_fields h.1.reg
  refine ⟨valid_congrE h ht.good.wf ht.valid, Good.of_E h ht.good, edgeInv_congrE h ht.good.wf ht.edge,
    nodeInv_congrE h ht.good.wf ht.node, segOK_congrE h ht.segOK, fun k hk => ?_, fun g hg => ?_⟩
  · rw [q6]; rw [q3] at hk; exact ht.avail k hk
  · rw [h.1.seg] at hg; exact ht.frame g hg

/-- `E` ignores the control fields written by `commit` -/
theorem E_committed (u : St) (recs : ActRec) (p : Option Node) : E (committed u recs p) u :=
  ⟨⟨fun _ => Iff.rfl, fun _ => Iff.rfl, rfl, fun _ _ => Iff.rfl, fun _ _ => Iff.rfl, rfl⟩,
    ⟨fun ⟨a, b, c, d, e, f⟩ => ⟨a, b, c, d, e, f⟩, fun ⟨a, b, c, d, e, f⟩ => ⟨a, b, c, d, e, f⟩⟩, Iff.rfl⟩

theorem inv_committed_iff (u : St) (recs : ActRec) (p : Option Node) : Inv (committed u recs p) ↔ Inv u :=
  ⟨Inv.of_E (E_isEquiv.symm (E_committed u recs p)), Inv.of_E (E_committed u recs p)⟩

theorem inv_stepped_iff (u : St) (h : Hist ActRec) : Inv (stepped u h) ↔ Inv u :=
  ⟨Inv.of_E (E_isEquiv.symm (E_stepped u h)), Inv.of_E (E_stepped u h)⟩

/-! ## §B.1 small frame facts -/

theorem reg_of_cfg {s t : St} (h : t.cfg = s.cfg) : t.reg = s.reg := by
  simp only [cfg, Prod.mk.injEq] at h
  obtain ⟨-, -, -, h4, h5, h6, h7, h8, h9, h10, h11⟩ := h
  simp only [St.reg, h4, h5, h6, h7, h8, h9, h10, h11]

theorem find_core : ∀ (l l' : List NodeRec), l'.map core = l.map core → ∀ n : Node,
    (l'.find? (·.id == n)).map core = (l.find? (·.id == n)).map core
  | [], [], _, _ => rfl
  | [], _ :: _, h, _ => by cases h
  | _ :: _, [], h, _ => by cases h
  | a :: l, b :: l', h, n => by
    simp only [List.map_cons, List.cons.injEq] at h
    have hid : b.id = a.id := congrArg (·.1) h.1
    simp only [List.find?_cons, hid]
    cases (a.id == n)
    · exact find_core l l' h.2 n
    · simp only [Option.map_some, h.1]

theorem otherOf_of_cores {s s' : St} (h : s'.nodes.map core = s.nodes.map core) (n : Node) (k : Key) :
    s'.otherOf n k = s.otherOf n k := by
  have := find_core s.nodes s'.nodes h n
  unfold otherOf findNode
  cases h1 : s'.nodes.find? (·.id == n) <;> cases h2 : s.nodes.find? (·.id == n) <;>
    rw [h1, h2] at this <;> simp only [Option.map_some, Option.map_none, Option.some.injEq] at this
  · cases this
  · cases this
  · have : _ = _ := congrArg (·.2.2) this
    simp only [core] at this
    simp only [this]

theorem timeOf_of_cores {s s' : St} (h : s'.nodes.map core = s.nodes.map core) (n : Node) :
    s'.timeOf n = s.timeOf n := by
  have := find_core s.nodes s'.nodes h n
  unfold timeOf findNode
  cases h1 : s'.nodes.find? (·.id == n) <;> cases h2 : s.nodes.find? (·.id == n) <;>
    rw [h1, h2] at this <;> simp only [Option.map_some, Option.map_none, Option.some.injEq] at this
  · cases this
  · cases this
  · have : _ = _ := congrArg (·.2.1) this
    simp only [core] at this
    simp only [Option.map_some, this]

/-- a graph-only step (`Fc`: array, node ids / times / free-form attributes, active keys untouched)
    that leaves the registry alone keeps the node-attribute invariant -/
theorem nodeInv_of_fc {s s' : St} (h : R2G.Fc s s') (hcfg : s'.cfg = s.cfg) (hi : R3C.NodeInv s) :
    R3C.NodeInv s' :=
  hi.of_fr' ⟨fun n k => otherOf_of_cores h.cores n k, h.seg, reg_of_cfg hcfg⟩ h.ids
    (fun n => timeOf_of_cores h.cores n)

theorem paintWith_seg_none {s : St} (hs : s.seg = none) (px : Option (List Pix)) (v : Nat) :
    (s.paintWith px v).seg = none := by
  rcases paintWith_cases s px v with ⟨ps, g, -, hg, -⟩ | ⟨-, he⟩
  · rw [hs] at hg; cases hg
  · rw [he]; exact hs

theorem pDelNode_seg_none {s s' : St} {n : Node} {px : Option (List Pix)} {rec : PrimRec}
    (hs : s.seg = none) (h : s.pDelNode n px = .ok (s', rec)) : s'.seg = none := by
  obtain ⟨r, -, -, rfl⟩ := pDelNode_ok_sg h
  rw [(St.Fr.trackOnDelete _ _).seg]
  exact paintWith_seg_none hs _ 0

theorem pAddNode_seg_none {s s' : St} {r : NodeRec} {px : Option (List Pix)} {rec : PrimRec}
    (hs : s.seg = none) (h : s.pAddNode r px = .ok (s', rec)) : s'.seg = none := by
  obtain ⟨-, -, rfl⟩ := pAddNode_ok_sg h
  rw [(St.Fr.trackAdd _ _).seg, rpUpdate_seg, R3A.addNodeRaw_seg]
  exact paintWith_seg_none hs px r.id

theorem uDeleteNode_seg_none {s : St} {n : Node} {px : Option (List Pix)} {recs : List PrimRec}
    (hs : s.seg = none) (h : (s.uDeleteNode n px).2 = .ok recs) : (s.uDeleteNode n px).1.seg = none := by
  obtain ⟨st, r, hfc, hd⟩ := R2G.uDeleteNode_okc h
  exact pDelNode_seg_none (hfc.seg.trans hs) hd

theorem uAddNode_seg_none {s : St} {a : AddNodeArgs} {recs : List PrimRec}
    (hs : s.seg = none) (h : (s.uAddNode a).2 = .ok recs) : (s.uAddNode a).1.seg = none := by
  obtain ⟨time, tid, lin, st, s2, r, -, -, hfc1, hadd, hfc2⟩ := R2G.uAddNode_okc h
  exact hfc2.seg.trans (pAddNode_seg_none (hfc1.seg.trans hs) hadd)

/-- `RpOK` (record level) from the bundle -/
theorem rpOK_of_inv {s : St} (hI : Inv s) : RpOK s := by
  intro g hg k hk r hr
  have hf : s.findNode r.id = some r := (R2A2.mem_nodes_iff hI.good.wf.ids r).1 hr
  have ht : s.timeOf r.id = some r.time := by unfold timeOf; rw [hf]; rfl
  have hc := hI.node.cur g hg r.id r.time ht k hk
  have hne : g.maskVal r.time r.id ≠ Val.none := by
    unfold Seg.maskVal; rw [if_neg ((hI.segOK g hg).1 r hr)]; intro h; cases h
  unfold otherOf at hc; rw [hf] at hc
  have hc : (alook k r.other).getD Val.none = g.maskVal r.time r.id := hc
  cases ha : alook k r.other with
  | none => rw [ha] at hc; exact absurd hc.symm hne
  | some v => rw [ha] at hc; exact congrArg some hc

theorem joint_of_inv {s : St} {g : Seg} (hI : Inv s) (hg : s.seg = some g) : R3A.Joint s g.frame :=
  ⟨hI.valid, ⟨g, hg, rfl⟩, hI.segOK,
    fun r hr h0 => hI.node.ne0 g hg (h0 ▸ List.mem_map.mpr ⟨r, hr, rfl⟩), rpOK_of_inv hI, hI.avail⟩

/-! ## §B.2 `NodeInv` through `UpdateNodeAttrs` -/

theorem over_cases : ∀ (attrs : List (Key × Val)) (f : Key → Val) (k : Key),
    over attrs f k = f k ∨ ∃ kv ∈ attrs, kv.1 = k ∧ over attrs f k = kv.2
  | [], _, _ => Or.inl rfl
  | kv :: r, f, k => by
    have ih := over_cases r (fun k' => if k' = kv.1 then kv.2 else f k') k
    have e : over (kv :: r) f = over r (fun k' => if k' = kv.1 then kv.2 else f k') := rfl
    rw [e]
    rcases ih with h | ⟨kv', hm, h1, h2⟩
    · rw [h]
      by_cases hk : k = kv.1
      · right; exact ⟨kv, List.mem_cons_self, hk.symm, by simp only [hk, if_true]⟩
      · left; simp only [hk, if_false]
    · right; exact ⟨kv', List.mem_cons_of_mem _ hm, h1, h2⟩

theorem mem_protected_of_avail {s : St} {k : Key} (h : k ∈ s.rpAvail) : k ∈ s.protectedKeys := by
  unfold protectedKeys annotKeys
  exact List.mem_cons_of_mem _ (List.mem_append_left _ (List.mem_append_right _ h))

/-- an accepted `UpdateNodeAttrs` that writes registered keys (or `None`), does not erase a
    position when there is no array, on a state whose active regionprops keys are annotator keys
    (hence protected, hence not written) keeps the node-attribute invariant -/
theorem nodeInv_attrStep {s s₁ : St} {n : Node} {prev attrs : List (Key × Val)}
    (h : AttrStep s n prev attrs s₁) (hi : R3C.NodeInv s) (hav : ∀ k ∈ s.rpActive, k ∈ s.rpAvail)
    (hpre : ∀ kv ∈ attrs, (kv.2 ≠ Val.none → kv.1 ∈ s.regNode) ∧
      (s.seg = none → kv.1 ∈ s.posKeys → kv.2 ≠ Val.none)) : R3C.NodeInv s₁ := by
  have hreg : s.reg = s₁.reg := h.rest.reg
  have hseg : s.seg = s₁.seg := h.rest.seg
  obtain ⟨q1, -, q3, -, -, -, -, q8⟩ := reg_fields hreg
  have hoth : ∀ m, m ≠ n → ∀ k, s₁.otherOf m k = s.otherOf m k := fun m hm k =>
    R3C.otherOf_of_nobs (h.oth m hm) k
  obtain ⟨o, ho⟩ : ∃ o, nobs s n = some o := by
    have := (nobs_isSome_iff s n).2 h.mem
    cases hn : nobs s n with
    | none => rw [hn] at this; cases this
    | some o => exact ⟨o, rfl⟩
  have hn1 : ∀ k, s₁.otherOf n k = over attrs (fun k' => s.otherOf n k') k := by
    intro k
    have e : (fun k' => s.otherOf n k') = o.2.2.2.2 := by
      funext k'; rw [otherOf_eq_nobs, ho]; rfl
    rw [e, otherOf_eq_nobs, h.fwd, ho]; rfl
  have hids : ∀ m, m ∈ s₁.ids ↔ m ∈ s.ids := by
    intro m
    by_cases hm : m = n
    · rw [hm]; exact ⟨fun _ => h.mem, fun _ => h.mem₁⟩
    · rw [← nobs_isSome_iff, ← nobs_isSome_iff, h.oth m hm]
  have htime : ∀ m, s₁.timeOf m = s.timeOf m := by
    intro m
    by_cases hm : m = n
    · rw [hm, timeOf_eq_nobs, timeOf_eq_nobs, h.fwd, ho]; rfl
    · rw [timeOf_eq_nobs, timeOf_eq_nobs, h.oth m hm]
  refine ⟨fun m k hk => ?_, fun k hk => ?_, fun hs m hm k hk => ?_, fun g hg m t ht k hk => ?_,
    fun g hg h0 => ?_⟩
  · rw [← q1]
    by_cases hm : m = n
    · rw [hm, hn1] at hk
      rcases over_cases attrs (fun k' => s.otherOf n k') k with e | ⟨kv, hkv, e1, e2⟩
      · rw [e] at hk; exact hi.registered n k hk
      · rw [e2] at hk; rw [← e1]; exact (hpre kv hkv).1 hk
    · rw [hoth m hm] at hk; exact hi.registered m k hk
  · rw [← q1]; rw [← q3] at hk; exact hi.rpreg k hk
  · rw [← hseg] at hs; rw [← q8] at hk
    have hm' := (hids m).1 hm
    by_cases hmn : m = n
    · rw [hmn, hn1]
      rcases over_cases attrs (fun k' => s.otherOf n k') k with e | ⟨kv, hkv, e1, e2⟩
      · rw [e]; exact hi.pos hs n h.mem k hk
      · rw [e2]; exact (hpre kv hkv).2 hs (e1 ▸ hk)
    · rw [hoth m hmn]; exact hi.pos hs m hm' k hk
  · rw [← hseg] at hg; rw [← q3] at hk; rw [htime] at ht
    by_cases hmn : m = n
    · rw [hmn] at ht ⊢
      rw [hn1, over_not_mem]
      · exact hi.cur g hg n t ht k hk
      · intro hmem
        obtain ⟨kv, hkv, e⟩ := List.mem_map.1 hmem
        exact h.unprot kv hkv (e ▸ mem_protected_of_avail (hav k hk))
    · rw [hoth m hmn]; exact hi.cur g hg m t ht k hk
  · rw [← hseg] at hg; exact hi.ne0 g hg ((hids 0).1 h0)

/-! ## §B.3 accepted user actions -/

/-- what an accepted user action delivers: a lawful chain, the graph / attribute invariants again,
    an untouched registry, and no array out of nothing -/
structure UserOK (s : St) (r : UOut) (recs : List PrimRec) : Prop where
  chain : Chain E s recs r.1
  valid : r.1.Valid
  good : Good r.1
  edge : EdgeInv r.1
  node : R3C.NodeInv r.1
  cfg : r.1.cfg = s.cfg
  segNone : s.seg = none → r.1.seg = none

theorem userOK_delEdge {s : St} (hI : Inv s) {e : Edge} {recs : List PrimRec}
    (hok : (s.uDeleteEdge e).2 = .ok recs) : UserOK s (s.uDeleteEdge e) recs := by
  obtain ⟨hc, ⟨hv, hg, he⟩, -⟩ := C01_user_deleteEdge s e recs hI.valid hI.good.wf hI.edge hok
  have hfc := R2G.Fc.uDeleteEdge s e
  exact ⟨hc, hv, hg, he, nodeInv_of_fc hfc (cfg_uDeleteEdge s e) hI.node, cfg_uDeleteEdge s e,
    fun h => hfc.seg.trans h⟩

theorem userOK_addEdge {s : St} (hI : Inv s) {e : Edge} {f : Bool} {recs : List PrimRec}
    (hok : (s.uAddEdge e f).2 = .ok recs) : UserOK s (s.uAddEdge e f) recs := by
  obtain ⟨hc, ⟨hv, hg, he⟩, -⟩ := C01_user_addEdge s e f recs hI.valid hI.good.wf hI.edge hok
  have hfc := R2G.uAddEdge_okc hok
  exact ⟨hc, hv, hg, he, nodeInv_of_fc hfc (cfg_uAddEdge s e f) hI.node, cfg_uAddEdge s e f,
    fun h => hfc.seg.trans h⟩

theorem userOK_swap {s : St} (hI : Inv s) {a b : Node} {recs : List PrimRec}
    (hok : (s.uSwap a b).2 = .ok recs) : UserOK s (s.uSwap a b) recs := by
  obtain ⟨hc, ⟨hv, hg, he⟩, -⟩ := C01_user_swap s a b recs hI.valid hI.good.wf hI.edge hok
  have hfc := R2G.uSwap_okc hok
  exact ⟨hc, hv, hg, he, nodeInv_of_fc hfc (cfg_uSwap s a b) hI.node, cfg_uSwap s a b,
    fun h => hfc.seg.trans h⟩

theorem userOK_updAttrs {s : St} (hI : Inv s) {n : Node} {attrs : List (Key × Val)}
    (hpre : OpPre s (.updAttrs n attrs)) {recs : List PrimRec}
    (hok : (s.uUpdateAttrs n attrs).2 = .ok recs) : UserOK s (s.uUpdateAttrs n attrs) recs := by
  obtain ⟨hc, ⟨hv, hg, he⟩, -⟩ := C01_user_updateAttrs s n attrs recs hI.valid hI.good.wf hI.edge hok
  have hst : ∃ prev, AttrStep s n prev attrs (s.uUpdateAttrs n attrs).1 := by
    unfold uUpdateAttrs at hok ⊢
    obtain ⟨r0, st', r1, -, h1, h2, -⟩ := thenPrim_ok hok
    rw [h2]
    obtain ⟨prev, -, hs⟩ := pUpdAttrs_attrStep hI.good.wf h1
    exact ⟨prev, hs⟩
  obtain ⟨prev, hs⟩ := hst
  exact ⟨hc, hv, hg, he, nodeInv_attrStep hs hI.node hI.avail hpre, cfg_uUpdateAttrs s n attrs,
    fun h => hs.rest.seg.symm.trans h⟩

theorem userOK_delNode {s : St} (hI : Inv s) {n : Node} {recs : List PrimRec}
    (hok : (s.uDeleteNode n none).2 = .ok recs) : UserOK s (s.uDeleteNode n none) recs := by
  obtain ⟨hc, ⟨hv, hg, he, hn⟩, -⟩ := C01_user_deleteNode s n none recs hI.valid hI.good hI.edge hI.node
    (Or.inl rfl) hok
  exact ⟨hc, hv, hg, he, hn, cfg_uDeleteNode s n none, fun h => uDeleteNode_seg_none h hok⟩

theorem userOK_addNode {s : St} (hI : Inv s) {a : AddNodeArgs} (hpre : OpPre s (.addNode a))
    {recs : List PrimRec} (hok : (s.uAddNode a).2 = .ok recs) : UserOK s (s.uAddNode a) recs := by
  obtain ⟨hl, hA, -⟩ := hpre
  obtain ⟨hc, ⟨hg, he, hn, hv⟩, -⟩ := C01_user_addNode s a recs hI.valid hI.good hI.edge hI.node hA hok
  exact ⟨hc, hv hl, hg, he, hn, cfg_uAddNode s a, fun h => uAddNode_seg_none h hok⟩

/-- the session-level statement for an accepted edit, from the user-level one -/
theorem step_ok_of_user {s : St} {op : Op} (hI : Inv s) (hpre : OpPre s op) (he : op.isTopEdit = true)
    (hnp : ∀ v gs t f, op ≠ .paint v gs t f) (hok : (s.step op).2 = .ok)
    (H : ∀ r recs, userPart s op = some r → r.2 = .ok recs → UserOK s r recs) :
    ∃ recs, (s.step op).1.hist = s.hist.add recs ∧ Chain E s recs (s.step op).1 ∧ Inv (s.step op).1 := by
  obtain ⟨r, recs, hu, hr, hs⟩ := step_edit_group s op he hok
  have U := H r recs hu hr
  have hh : r.1.hist = s.hist := hist_of_ctl (userPart_ctl s op r hu)
  have hEc := E_committed r.1 recs (payloadOf s op)
  refine ⟨recs, ?_, ?_, ?_⟩
  · rw [hs]; show r.1.hist.add recs = _; rw [hh]
  · rw [hs]; exact chain_congr U.chain (E_isEquiv.refl s) (E_isEquiv.symm hEc)
  · have hwf := U.good.wf
    have h4 : (s.step op).1.Valid ∧ Good (s.step op).1 ∧ EdgeInv (s.step op).1 ∧
        R3C.NodeInv (s.step op).1 := by
      rw [hs]
      exact ⟨valid_congrE hEc hwf U.valid, Good.of_E hEc U.good, edgeInv_congrE hEc hwf U.edge,
        nodeInv_congrE hEc hwf U.node⟩
    obtain ⟨a1, a2, a3, a4⟩ := h4
    cases hg : s.seg with
    | none =>
      have hn : (s.step op).1.seg = none := by rw [hs]; exact U.segNone hg
      refine ⟨a1, a2, a3, a4, fun g hg' => ?_, ?_, fun g hg' => ?_⟩
      · rw [hn] at hg'; cases hg'
      · rw [hs]
        show ∀ k ∈ r.1.rpActive, k ∈ r.1.rpAvail
        exact R3A.avail_of_cfg U.cfg hI.avail
      · rw [hn] at hg'; cases hg'
    | some g =>
      have hJ := joint_of_inv hI hg
      have hstep : s.step op = ((s.step op).1, .ok) := Prod.ext rfl hok
      have hed : R3A.isEdit op = true := by
        cases op <;> first | rfl | cases he
      have hop : R3A.StepOK op := by
        cases op <;> first | exact hpre.1 | trivial | cases he
      have hpre' : R2G.StepPre s g op := by
        cases op <;> first | exact hpre.2.2 g hg | exact absurd rfl (hnp _ _ _ _) | trivial
      have hJ' := R3A.step_joint hJ (hI.frame g hg) hg hed hop hpre' hstep
      obtain ⟨g', hg', hf'⟩ := hJ'.seg
      refine ⟨a1, a2, a3, a4, hJ'.segOK, hJ'.avail, fun g2 hg2 => ?_⟩
      rw [hg'] at hg2; cases hg2; rw [hf']; exact hI.frame g hg

/-- a refused edit other than paint: the session state is the state the user action returned -/
theorem step_err_user (s : St) (op : Op) (he : op.isTopEdit = true)
    (hnp : ∀ v gs t f, op ≠ .paint v gs t f) (e : Err) (herr : (step s op).2 = .err e) :
    ∃ r, userPart s op = some r ∧ r.2 = .error e ∧ (step s op).1 = r.1 := by
  have key : ∀ (r : UOut) (p : Option Node), (commit r p).2 = .err e →
      r.2 = .error e ∧ (commit r p).1 = r.1 := by
    intro r p h
    rcases commit_cases r p with ⟨recs, h1, h2⟩ | ⟨e', h1, h2⟩
    · rw [h2] at h; cases h
    · rw [h2] at h ⊢; cases h; exact ⟨h1, rfl⟩
  cases op <;> simp only [Op.isTopEdit] at he <;> try (cases he)
  all_goals try (exact absurd rfl (hnp _ _ _ _))
  all_goals simp only [step] at herr ⊢
  all_goals exact ⟨_, rfl, (key _ _ herr).1, (key _ _ herr).2⟩

/-! ## §B.4 refusals, and the edit step -/

theorem thenUser_ok_fst (st : St) (r0 : List PrimRec) (f : St → UOut) :
    (thenUser (st, .ok r0) f).1 = (f st).1 := by
  unfold thenUser; simp only []; split <;> rfl

theorem thenUser_ok_err {st : St} {r0 : List PrimRec} {f : St → UOut} {err : Err}
    (h : (thenUser (st, .ok r0) f).2 = .error err) : (f st).2 = .error err := by
  unfold thenUser at h; simp only [] at h
  split at h
  · cases h
  · rename_i e he
    simp only [Except.error.injEq] at h
    rw [← h]; exact he

/-- a nested `UserDeleteEdge` on a forest that is refused has changed nothing -/
theorem thenUser_del_err {st : St} (hF : st.Forest) {r0 : List PrimRec} {e : Edge} {err : Err}
    (h : (thenUser (st, .ok r0) (fun x => x.uDeleteEdge e)).2 = .error err) :
    (thenUser (st, .ok r0) (fun x => x.uDeleteEdge e)).1 = st ∧ e ∉ st.edgeList := by
  rw [thenUser_ok_fst]
  have h1 := R3B.uDeleteEdge_refused hF (thenUser_ok_err h)
  exact ⟨by simp only [h1.1], h1.2⟩

theorem down_err {sN : St} (hF : sN.Forest) {succ : Option Node} {force : Bool} {err : Err}
    (h : (R2D.down sN succ force).2 = .error err) : (R2D.down sN succ force).1 = sN := by
  unfold R2D.down at h ⊢
  rcases succ with _ | sc
  · cases h
  · simp only [] at h ⊢
    rcases hp : (sN.preds sc).head? with _ | pos
    · rw [hp] at h <;> cases h
    · rw [hp] at h; simp only [] at h ⊢
      by_cases c : (sN.outdeg pos == 2) = true
      · rw [if_pos c] at h ⊢
        cases force
        · rfl
        · simp only [Bool.not_true, Bool.false_eq_true, if_false] at h ⊢
          exact (thenUser_del_err hF h).1
      · rw [if_neg c] at h; cases h

/-- **a refused division check of `UserAddNode`** (unforced conflict, or — never, on a valid
    solution — a nested delete-edge that is refused) returns the state it started from -/
theorem pre_err {sN : St} (hV : sN.Valid) {pred succ : Option Node} {force : Bool} {err : Err}
    (h : (addNodePre sN pred succ force).2 = .error err) : (addNodePre sN pred succ force).1 = sN := by
  rcases pred with _ | p
  · rw [R2D.addNodePre_none] at h ⊢; exact down_err hV.forest h
  · rw [R2D.addNodePre_some] at h ⊢
    by_cases c : (sN.outdeg p == 2) = true
    · rw [if_pos c] at h ⊢
      cases force
      · rfl
      · simp only [Bool.not_true, Bool.false_eq_true, if_false] at h ⊢
        rcases hsucc : sN.succs p with _ | ⟨c1, _ | ⟨c2, _ | ⟨c3, r⟩⟩⟩
        · rfl
        · rfl
        · rw [hsucc] at h
          simp only [] at h ⊢
          have hnd : (sN.succs p).Nodup := PC.nodup_succs hV.forest.nodup_edges p
          have hc12 : c1 ≠ c2 := by
            rw [hsucc] at hnd
            intro e; rw [e] at hnd; simp at hnd
          have hm2 : (p, c2) ∈ sN.edgeList := tk_mem_succs.1 (by rw [hsucc]; simp)
          generalize hB : thenUser ((sN, .ok []) : UOut) (fun st => st.uDeleteEdge (p, c1)) = B at h ⊢
          obtain ⟨b1, b2⟩ := B
          cases b2 with
          | error e1 =>
            have hB2 : (thenUser ((sN, .ok []) : UOut) (fun st => st.uDeleteEdge (p, c1))).2 = .error e1 := by
              rw [hB]
            have := (thenUser_del_err hV.forest hB2).1
            rw [hB] at this
            show (thenUser (b1, .error e1) _).1 = sN
            unfold thenUser; exact this
          | ok r1 =>
            exfalso
            have hB1 : b1 = (sN.uDeleteEdge (p, c1)).1 := by
              have := thenUser_ok_fst sN [] (fun st => st.uDeleteEdge (p, c1))
              rw [hB] at this; exact this
            have hok1 : ∃ r1', (sN.uDeleteEdge (p, c1)).2 = .ok r1' := by
              have hB2 : (thenUser ((sN, .ok []) : UOut) (fun st => st.uDeleteEdge (p, c1))).2 = .ok r1 := by
                rw [hB]
              obtain ⟨_, r1', _, h1, _, _⟩ := thenUser_ok hB2
              exact ⟨r1', h1⟩
            obtain ⟨r1', hok1⟩ := hok1
            have hV1 : b1.Valid := hB1 ▸ R2D.valid_uDeleteEdge hV hok1
            have hno := (thenUser_del_err hV1.forest h).2
            apply hno
            rw [hB1, (C03_deleteEdge_effect sN (p, c1)).2.2, List.mem_filter]
            refine ⟨hm2, ?_⟩
            simp only [bne_iff_ne, ne_eq, Prod.mk.injEq, true_and]
            exact fun e => hc12 e.symm
        · rfl
    · rw [if_neg c] at h ⊢; exact down_err hV.forest h

/-- the two late refusal paths of `UserAddNode` — after an accepted division check (with its forced
    removals): the `DeleteEdge` of the split edge raises, or `AddNode` was applied and a linking
    `AddEdge` raises.  (Neither happens on a valid solution: the two track neighbours are joined by
    an edge, and the linked nodes exist.) -/
def AddNodeLate (s : St) (a : AddNodeArgs) : Prop :=
  ∃ time tid0 r0, a.time = some time ∧ a.tid = some tid0 ∧ a.node ∉ s.ids ∧
    (R2D.preOut s a tid0 time).2 = .ok r0 ∧
    ((∃ err, (R3C.addNodeA1 s a tid0 time).2 = .error err) ∨
     (∃ recs1 s2 r, (R3C.addNodeA1 s a tid0 time).2 = .ok recs1 ∧
        (R3C.addNodeA1 s a tid0 time).1.pAddNode (R3C.addNodeRec s a tid0 time) a.pixels = .ok (s2, r)))

/-- **C11 for `UserAddNode`**: a refusal for invalid arguments (missing time / track id, existing
    node), in the division checks (unforced conflict), or by `AddNode` itself (rolled back) returns
    a state in the `E`-class of the input; what remains are the two late paths (the second
    disjunct also covers the accepted calls) -/
theorem addNode_refused {s : St} {a : AddNodeArgs} (hI : Inv s) :
    E (s.uAddNode a).1 s ∨ AddNodeLate s a := by
  cases ht : a.time with
  | none => left; rw [C11_addNode_invalid s a (Or.inl ht)]; exact E_isEquiv.refl s
  | some time =>
    cases hd : a.tid with
    | none => left; rw [C11_addNode_invalid s a (Or.inr (Or.inl hd))]; exact E_isEquiv.refl s
    | some tid0 =>
      cases hn : s.hasNode a.node with
      | true => left; rw [C11_addNode_invalid s a (Or.inr (Or.inr hn))]; exact E_isEquiv.refl s
      | false =>
        have hnot : a.node ∉ s.ids := fun h => by rw [(hasNode_iff s a.node).2 h] at hn; cases hn
        have hVN := R2D.valid_trackNeighbors hI.valid (addTid s tid0 time) time
        have heq := R2D.uAddNode_eq' s a ht hd hn
        cases hP : (R2D.preOut s a tid0 time).2 with
        | error err =>
          left
          rw [hP] at heq; simp only [] at heq
          rw [heq]
          show E (R2D.preOut s a tid0 time).1 s
          have : (R2D.preOut s a tid0 time).1 = (s.trackNeighbors (addTid s tid0 time) time).1 :=
            pre_err hVN hP
          rw [this]; exact E_trackNeighbors s _ _
        | ok r0 =>
          cases h1 : (R3C.addNodeA1 s a tid0 time).2 with
          | error err => right; exact ⟨time, tid0, r0, ht, hd, hnot, hP, Or.inl ⟨err, h1⟩⟩
          | ok recs1 =>
            cases hadd : (R3C.addNodeA1 s a tid0 time).1.pAddNode (R3C.addNodeRec s a tid0 time) a.pixels with
            | error e' =>
              left
              obtain ⟨e1, e2, _⟩ := R3C.uAddNode_refused hI.valid hI.good hI.edge ht hd hnot h1 hadd
              rw [e1]; exact e2
            | ok x =>
              right
              exact ⟨time, tid0, r0, ht, hd, hnot, hP, Or.inr ⟨recs1, x.1, x.2, h1, hadd⟩⟩

/-- the refusal paths of the composite actions that are taken *after* sub-actions were applied
    without a rollback.  They cannot occur on `Inv` states (an existing node of a valid solution is
    always deletable; the nested actions of a swap are always accepted on the intermediate states;
    for add-node see `AddNodeLate`); they are kept as explicit hypotheses because that was not
    proved.  Every other refusal path of the seven user actions is covered by `editStep`. -/
structure RefusalHyps : Prop where
  /-- `UserDeleteNode` of an *existing* node that is refused -/
  delNode : ∀ (s : St) (n : Node) (e : Err), Inv s → n ∈ s.ids →
    (s.uDeleteNode n none).2 = .error e → E (s.uDeleteNode n none).1 s
  /-- `UserSwapPredecessors` whose argument validations all passed (`uSwap = swapTail`: up to two
      nested delete-edge, then up to two nested unforced add-edge) and that is refused -/
  swapNested : ∀ (s : St) (n1 n2 : Node) (e : Err), Inv s →
    s.uSwap n1 n2 = R2G.swapTail s (s.preds n1).head? (s.preds n2).head? n1 n2 →
    (s.uSwap n1 n2).2 = .error e → E (s.uSwap n1 n2).1 s
  /-- `UserAddNode` refused on one of its two late paths -/
  addNodeLate : ∀ (s : St) (a : AddNodeArgs) (e : Err), Inv s → OpPre s (.addNode a) →
    AddNodeLate s a → (s.uAddNode a).2 = .error e → E (s.uAddNode a).1 s

/-- the operation is a paint (the only one that needs `PaintLaw`) -/
def isPaint : Op → Bool
  | .paint .. => true
  | _ => false

/-- the operations whose refusal analysis uses `RefusalHyps` -/
def needsR : Op → Bool
  | .delNode .. | .swap .. | .addNode .. => true
  | _ => false

/-- **EditStep**: one top-level edit from an `Inv` state under its argument preconditions; `PaintLaw`
    is used for a paint only, `RefusalHyps` for delete-node / swap / add-node only -/
theorem editStep' {s : St} {op : Op} (hP : isPaint op = true → PaintLaw)
    (hR : needsR op = true → RefusalHyps) (he : op.isTopEdit = true)
    (hI : Inv s) (hpre : OpPre s op) :
    ((s.step op).2 = .ok → ∃ recs, (s.step op).1.hist = s.hist.add recs ∧
        Chain E s recs (s.step op).1 ∧ Inv (s.step op).1) ∧
    (∀ e, (s.step op).2 = .err e → E (s.step op).1 s) := by
  cases op with
  | paint v gs t f => exact ⟨(hP rfl).ok s v gs t f hI hpre, fun e => (hP rfl).err s v gs t f e hI hpre⟩
  | addEdge e f =>
    have hnp : ∀ v gs t f', Op.addEdge e f ≠ .paint v gs t f' := fun _ _ _ _ h => by cases h
    refine ⟨fun hok => step_ok_of_user hI hpre he hnp hok (fun r recs hu hr => ?_), fun err herr => ?_⟩
    · simp only [userPart, Option.some.injEq] at hu; subst hu; exact userOK_addEdge hI hr
    · obtain ⟨r, hu, hr, hs⟩ := step_err_user s _ he hnp err herr
      simp only [userPart, Option.some.injEq] at hu; subst hu; rw [hs]
      exact (C11_addEdge_refused s e f err hI.valid hI.good.wf hI.edge hr).1
  | delEdge e =>
    have hnp : ∀ v gs t f', Op.delEdge e ≠ .paint v gs t f' := fun _ _ _ _ h => by cases h
    refine ⟨fun hok => step_ok_of_user hI hpre he hnp hok (fun r recs hu hr => ?_), fun err herr => ?_⟩
    · simp only [userPart, Option.some.injEq] at hu; subst hu; exact userOK_delEdge hI hr
    · obtain ⟨r, hu, hr, hs⟩ := step_err_user s _ he hnp err herr
      simp only [userPart, Option.some.injEq] at hu; subst hu; rw [hs]
      rw [(C11_deleteEdge_refused s e err hI.valid.forest hr).1]; exact E_isEquiv.refl s
  | swap a b =>
    have hnp : ∀ v gs t f', Op.swap a b ≠ .paint v gs t f' := fun _ _ _ _ h => by cases h
    refine ⟨fun hok => step_ok_of_user hI hpre he hnp hok (fun r recs hu hr => ?_), fun err herr => ?_⟩
    · simp only [userPart, Option.some.injEq] at hu; subst hu; exact userOK_swap hI hr
    · obtain ⟨r, hu, hr, hs⟩ := step_err_user s _ he hnp err herr
      simp only [userPart, Option.some.injEq] at hu; subst hu; rw [hs]
      rcases R2G.uSwap_cases s a b with ⟨e', he'⟩ | ht
      · rw [he']; exact E_isEquiv.refl s
      · exact (hR rfl).swapNested s a b err hI ht hr
  | updAttrs n attrs =>
    have hnp : ∀ v gs t f', Op.updAttrs n attrs ≠ .paint v gs t f' := fun _ _ _ _ h => by cases h
    refine ⟨fun hok => step_ok_of_user hI hpre he hnp hok (fun r recs hu hr => ?_), fun err herr => ?_⟩
    · simp only [userPart, Option.some.injEq] at hu; subst hu; exact userOK_updAttrs hI hpre hr
    · obtain ⟨r, hu, hr, hs⟩ := step_err_user s _ he hnp err herr
      simp only [userPart, Option.some.injEq] at hu; subst hu; rw [hs]
      rw [C11_updateAttrs s n attrs err hr]; exact E_isEquiv.refl s
  | delNode n =>
    have hnp : ∀ v gs t f', Op.delNode n ≠ .paint v gs t f' := fun _ _ _ _ h => by cases h
    refine ⟨fun hok => step_ok_of_user hI hpre he hnp hok (fun r recs hu hr => ?_), fun err herr => ?_⟩
    · simp only [userPart, Option.some.injEq] at hu; subst hu; exact userOK_delNode hI hr
    · obtain ⟨r, hu, hr, hs⟩ := step_err_user s _ he hnp err herr
      simp only [userPart, Option.some.injEq] at hu; subst hu; rw [hs]
      by_cases hn : n ∈ s.ids
      · exact (hR rfl).delNode s n err hI hn hr
      · have hh : s.hasNode n = false := by
          cases h : s.hasNode n with
          | false => rfl
          | true => exact absurd ((hasNode_iff s n).1 h) hn
        rw [C11_deleteNode_unknown s n none hh]; exact E_isEquiv.refl s
  | addNode a =>
    have hnp : ∀ v gs t f', Op.addNode a ≠ .paint v gs t f' := fun _ _ _ _ h => by cases h
    refine ⟨fun hok => step_ok_of_user hI hpre he hnp hok (fun r recs hu hr => ?_), fun err herr => ?_⟩
    · simp only [userPart, Option.some.injEq] at hu; subst hu; exact userOK_addNode hI hpre hr
    · obtain ⟨r, hu, hr, hs⟩ := step_err_user s _ he hnp err herr
      simp only [userPart, Option.some.injEq] at hu; subst hu; rw [hs]
      rcases addNode_refused (a := a) hI with h | h
      · exact h
      · exact (hR rfl).addNodeLate s a err hI hpre h hr
  | undo => cases he
  | redo => cases he
  | enable ks rc => cases he
  | disable ks => cases he
  | qNeighbors tid time => cases he
  | qHasTrack tid time => cases he
  | qNewIds n => cases he
  | nop => cases he

/-- all seven edit operations, with both hypotheses -/
theorem editStep (hP : PaintLaw) (hR : RefusalHyps) {s : St} {op : Op} (he : op.isTopEdit = true)
    (hI : Inv s) (hpre : OpPre s op) :
    ((s.step op).2 = .ok → ∃ recs, (s.step op).1.hist = s.hist.add recs ∧
        Chain E s recs (s.step op).1 ∧ Inv (s.step op).1) ∧
    (∀ e, (s.step op).2 = .err e → E (s.step op).1 s) :=
  editStep' (fun _ => hP) (fun _ => hR) he hI hpre

/-! ## §C the session -/

/-- the record relation of the history theorem: a lawful chain over the common equivalence -/
abbrev RecE : ActRec → St → St → Prop := fun a s t => Chain E s a t

/-- the read-only operations (the two state-changing queries re-sort a lookup entry / advance the
    node-id counter: invisible to `E`) -/
def IsQuery : Op → Prop
  | .qNeighbors .. | .qHasTrack .. | .qNewIds .. | .nop => True
  | _ => False

/-- one admissible operation at state `s`: undo, redo, a query, or a top-level edit whose
    arguments satisfy the documented preconditions at `s` (feature switching excluded) -/
def OpOK (s : St) (op : Op) : Prop :=
  op = .undo ∨ op = .redo ∨ IsQuery op ∨ (op.isTopEdit = true ∧ OpPre s op)

/-- an admissible session: every operation is admissible at the state where it is applied -/
def SessOK : St → List Op → Prop
  | _, [] => True
  | s, op :: ops => OpOK s op ∧ SessOK (step s op).1 ops

theorem query_E {s : St} {op : Op} (h : IsQuery op) : E (step s op).1 s := by
  cases op <;> try (cases h)
  · exact E_trackNeighbors s _ _
  · exact E_isEquiv.refl s
  · exact E_newNodeIds s _
  · exact E_isEquiv.refl s

theorem query_not_edit {op : Op} (h : IsQuery op) : op.isTopEdit = false ∧ op ≠ .undo ∧ op ≠ .redo := by
  cases op <;> first | exact False.elim h | exact ⟨rfl, fun h => (nomatch h), fun h => (nomatch h)⟩

theorem edit_not_hist {op : Op} (h : op.isTopEdit = true) : op ≠ .undo ∧ op ≠ .redo :=
  ⟨fun e => (by rw [e] at h; cases h), fun e => (by rw [e] at h; cases h)⟩

/-- an edit answers `.ok` or `.err` -/
theorem edit_out {s : St} {op : Op} (he : op.isTopEdit = true) :
    (step s op).2 = .ok ∨ ∃ e, (step s op).2 = .err e := by
  rcases step_edit s op he with ⟨u, recs, h1, _⟩ | ⟨e, h1, _⟩
  · left; rw [h1]
  · right; exact ⟨e, h1⟩

theorem sessOpOK_of (hP : PaintLaw) (hR : RefusalHyps) {s : St} {op : Op} (hI : Inv s)
    (hop : OpOK s op) : SessOpOK RecE E s op := by
  rcases hop with h | h | h | ⟨he, hpre⟩
  · exact .inl h
  · exact .inr (.inl h)
  · obtain ⟨h1, h2, h3⟩ := query_not_edit h
    exact .inr (.inr (.inr ⟨h2, h3, fun h' => (by rw [h1] at h'; cases h'), query_E h⟩))
  · obtain ⟨hok, herr⟩ := editStep hP hR he hI hpre
    rcases edit_out (s := s) he with h | ⟨e, h⟩
    · obtain ⟨recs, a, b, _⟩ := hok h
      exact .inr (.inr (.inl ⟨he, h, recs, a, b⟩))
    · exact .inr (.inr (.inr ⟨(edit_not_hist he).1, (edit_not_hist he).2,
        fun _ h' => (by rw [h] at h'; cases h'), herr e h⟩))

/-- `Inv` of the next state for every admissible operation other than undo / redo -/
theorem inv_next (hP : PaintLaw) (hR : RefusalHyps) {s : St} {op : Op} (hI : Inv s)
    (hop : OpOK s op) (hu : op ≠ .undo) (hr : op ≠ .redo) : Inv (step s op).1 := by
  rcases hop with h | h | h | ⟨he, hpre⟩
  · exact absurd h hu
  · exact absurd h hr
  · exact Inv.of_E (query_E h) hI
  · obtain ⟨hok, herr⟩ := editStep hP hR he hI hpre
    rcases edit_out (s := s) he with h | ⟨e, h⟩
    · exact (hok h).choose_spec.2.2
    · exact Inv.of_E (herr e h) hI

theorem mem_edit_states {σ : Type} (t : Timeline σ) (s' x : σ) (h : x ∈ (t.edit s').states) :
    x ∈ t.states ∨ x = s' := by
  unfold Timeline.edit at h
  simp only [List.mem_append, List.mem_reverse, List.mem_singleton] at h
  rcases h with (h | h) | h
  · exact .inl h
  · exact .inl (List.mem_of_mem_drop (List.mem_of_mem_take h))
  · exact .inr h

theorem mem_absStep {t : Timeline St} {op : Op} {r : St × Out} {x : St}
    (h : x ∈ (absStep t op r).states) : x ∈ t.states ∨ x = r.1 := by
  unfold absStep at h
  split at h
  · rw [Hist.stepA_undo_states] at h; exact .inl h
  · rw [Hist.stepA_redo_states] at h; exact .inl h
  · split at h
    · exact mem_edit_states _ _ _ h
    · exact .inl h

/-- one admissible operation: the side condition of `C02_session`, and `Inv` of the next state and
    of every state on the timeline -/
theorem sess_step_inv (hP : PaintLaw) (hR : RefusalHyps) {s : St} {t : Timeline St}
    (hr : Hist.Refines RecE E (s.hist, s) t) (hI : Inv s) (hT : ∀ x ∈ t.states, Inv x) (op : Op)
    (hop : OpOK s op) :
    SessOpOK RecE E s op ∧ Inv (step s op).1 ∧ ∀ x ∈ (absStep t op (step s op)).states, Inv x := by
  have hv := sessOpOK_of hP hR hI hop
  obtain ⟨hr', -, -⟩ := sess_step obligation_E hr op hv
  have hnext : Inv (step s op).1 := by
    by_cases hh : op = .undo ∨ op = .redo
    · obtain ⟨x, hx, hE⟩ := hr'.current
      have hm : x ∈ (absStep t op (step s op)).states := List.mem_of_getElem? hx
      have hm' : x ∈ t.states := by
        rcases hh with rfl | rfl
        · simp only [absStep, Hist.stepA_undo_states] at hm; exact hm
        · simp only [absStep, Hist.stepA_redo_states] at hm; exact hm
      exact Inv.of_E hE (hT x hm')
    · exact inv_next hP hR hI hop (fun h => hh (.inl h)) (fun h => hh (.inr h))
  refine ⟨hv, hnext, fun x hx => ?_⟩
  rcases mem_absStep hx with h | h
  · exact hT x h
  · rw [h]; exact hnext

theorem sess_run_inv (hP : PaintLaw) (hR : RefusalHyps) : ∀ (ops : List Op) {s : St} {t : Timeline St},
    Hist.Refines RecE E (s.hist, s) t → Inv s → (∀ x ∈ t.states, Inv x) → SessOK s ops →
    SessValid RecE E s ops ∧ Inv (sessFinal s t ops).1 ∧ ∀ x ∈ (sessFinal s t ops).2.states, Inv x
  | [], _, _, _, hI, hT, _ => ⟨trivial, hI, hT⟩
  | op :: ops, s, t, hr, hI, hT, hs => by
    obtain ⟨h1, h2, h3⟩ := sess_step_inv hP hR hr hI hT op hs.1
    obtain ⟨hr', -, -⟩ := sess_step obligation_E hr op h1
    obtain ⟨h4, h5, h6⟩ := sess_run_inv hP hR ops hr' h2 h3 hs.2
    exact ⟨⟨h1, h4⟩, h5, h6⟩

theorem refines_init (s0 : St) (h0 : s0.hist = {}) : Hist.Refines RecE E (s0.hist, s0) ⟨[s0], 0⟩ := by
  rw [h0]; exact Hist.Refines.init RecE obligation_E.refl s0

/-- from an `Inv` start state with an empty history: the side conditions of `C02_session` hold
    along every admissible session, and every state reached / on the timeline satisfies `Inv` -/
theorem sess_all (hP : PaintLaw) (hR : RefusalHyps) (s0 : St) (h0 : s0.hist = {}) (hI : Inv s0)
    (ops : List Op) (hs : SessOK s0 ops) :
    SessValid RecE E s0 ops ∧ Inv (sessFinal s0 ⟨[s0], 0⟩ ops).1 ∧
      ∀ x ∈ (sessFinal s0 ⟨[s0], 0⟩ ops).2.states, Inv x :=
  sess_run_inv hP hR ops (refines_init s0 h0) hI
    (fun x hx => by rw [List.mem_singleton.1 hx]; exact hI) hs

theorem sessOK_append : ∀ (a b : List Op) (s : St), SessOK s (a ++ b) → SessOK s a
  | [], _, _, _ => trivial
  | _ :: a, b, _, h => ⟨h.1, sessOK_append a b _ h.2⟩

/-! ## §D undo / redo of one recorded edit -/

/-- after a step that appended the lawful record `recs` of `s ⟶ s'`: `undo()` answers `True` and
    lands in the class of `s`; `redo()` then answers `True` and lands in the class of `s'` -/
theorem undo_redo_reading {s s' : St} {recs : List PrimRec} (hh : s'.hist = s.hist.add recs)
    (hc : Chain E s recs s') :
    (step s' .undo).2 = .bool true ∧ E (step s' .undo).1 s ∧
    (step (step s' .undo).1 .redo).2 = .bool true ∧ E (step (step s' .undo).1 .redo).1 s' := by
  rw [Hist.add_eq] at hh
  have hu : s'.hist.undo = s.hist.undo ++ s.hist.redo ++ [recs] := by rw [hh]
  have hr0 : s'.hist.redo = [] := by rw [hh]
  obtain ⟨s₂, recs', h1, h2, -, h4, -⟩ := chain_undo_redo hc (E_isEquiv.refl s')
  have hlt : s'.hist.redo.length < s'.hist.undo.length := by rw [hr0, hu]; simp; omega
  have ha : s'.hist.undo[s'.hist.undo.length - s'.hist.redo.length - 1]? = some recs := by
    rw [hr0, hu]; simp
  have hok : (s'.invGroup recs).2 = .ok recs' := by rw [h1]
  have hst := step_undo_ok s' recs recs' hlt ha hok
  have hs2 : (s'.invGroup recs).1 = s₂ := by rw [h1]
  rw [hs2, hr0] at hst
  have hEu : E (step s' .undo).1 s := by rw [hst]; exact E_isEquiv.trans (E_stepped _ _) h2
  refine ⟨by rw [hst], hEu, ?_⟩
  obtain ⟨s₃, recs'', g1, g2, -⟩ := chain_undo_redo h4 hEu
  have hrr : (step s' .undo).1.hist.redo = [] ++ [recs'] := by rw [hst]; rfl
  have hok2 : ((step s' .undo).1.invGroup recs').2 = .ok recs'' := by rw [g1]
  have hst2 := step_redo_ok (step s' .undo).1 [] recs' recs'' hrr hok2
  have h3 : ((step s' .undo).1.invGroup recs').1 = s₃ := by rw [g1]
  rw [h3] at hst2
  rw [hst2]
  exact ⟨rfl, E_isEquiv.trans (E_stepped _ _) g2⟩

end Ft.R3D
