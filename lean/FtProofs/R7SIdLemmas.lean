/-
  FtProofs.R7SIdLemmas — package R7S, the id side of the construction: how the steps of
  `_setup_core_computed_features` act on what the TrackAnnotator can see of the graph.

  `view tk lk n` = (id, time, value under the tracklet key, value under the lineage key, presence
  of the two keys) of a node; `graphSt` factors through it.  A step for a key that is neither
  id key and that the TrackAnnotator does not own leaves the views, the annotator, the edges and
  the track part of the computation log alone (`setupKey_other`); the step for the tracklet key
  either activates (key present on the first node) or runs `St.assignTracklets`
  (`setupKey_tracklet`); the same for the lineage key (`setupKey_lineage`).
-/
import FtProofs.R7SLemmas
namespace Ft.R7S
open Ft Ft.Construct List

/-! ### association lists: lookup after update -/

theorem alook_aset_name {β} (k k' : Name) (v : β) (d : List (Name × β)) :
    alook k' (aset k v d) = if k = k' then some v else alook k' d := by
  induction d with
  | nil =>
    by_cases h : k = k'
    · simp [aset, alook, h]
    · have hb : (k == k') = false := by simpa using h
      simp [aset, alook, h, hb]
  | cons x r ih =>
    obtain ⟨a, b⟩ := x
    by_cases ha : a = k
    · subst ha
      by_cases h : a = k'
      · simp [aset, alook, h]
      · have hb : (a == k') = false := by simpa using h
        simp [aset, alook, h, hb]
    · have hb : (a == k) = false := by simpa using ha
      simp only [aset, hb, Bool.false_eq_true, if_false, alook]
      rw [ih]
      by_cases h : k = k'
      · subst h
        simp [hb]
      · simp [h]

theorem attrVal_setAttr (n : CNode) (k k' : Name) (v : Option Nat) :
    attrVal (setAttr n k v) k' = if k = k' then v else attrVal n k' := by
  unfold attrVal setAttr
  simp only
  rw [alook_aset_name]
  by_cases h : k = k' <;> simp [h]

theorem hasKey_setAttr (n : CNode) (k k' : Name) (v : Option Nat) :
    hasKey k' (setAttr n k v).attrs = (decide (k' = k) || hasKey k' n.attrs) := by
  rw [Bool.eq_iff_iff]
  simp only [Bool.or_eq_true, decide_eq_true_eq]
  rw [hasKey_iff, hasKey_iff]
  exact mem_keys_aset k k' v n.attrs

/-! ### the TrackAnnotator's view of a node -/

structure NV where
  id : Node
  time : Nat
  tid : Option Nat
  lin : Option Nat
  hasT : Bool
  hasL : Bool
deriving DecidableEq, Repr

def view (tk lk : Name) (n : CNode) : NV :=
  ⟨n.id, n.time, attrVal n tk, attrVal n lk, hasKey tk n.attrs, hasKey lk n.attrs⟩

def stOfViews (vs : List NV) (edges : List Edge) : St :=
  { nodes := vs.map (fun v => { id := v.id, time := v.time, tid := v.tid.getD 0, lin := v.lin }),
    edges := edges.map (fun e => { e := e }) }

theorem graphSt_eq_views (nodes : List CNode) (edges : List Edge) (tk lk : Name) :
    graphSt nodes edges tk lk = stOfViews (nodes.map (view tk lk)) edges := by
  unfold graphSt stOfViews
  simp only [map_map]
  rfl

theorem view_setAttr_other (tk lk k : Name) (v : Option Nat) (n : CNode) (h1 : k ≠ tk) (h2 : k ≠ lk) :
    view tk lk (setAttr n k v) = view tk lk n := by
  unfold view
  rw [attrVal_setAttr, attrVal_setAttr, hasKey_setAttr, hasKey_setAttr, if_neg h1, if_neg h2]
  have e1 : decide (tk = k) = false := by simpa using (fun h => h1 h.symm)
  have e2 : decide (lk = k) = false := by simpa using (fun h => h2 h.symm)
  rw [e1, e2]
  rfl

theorem view_setAttr_tk (tk lk : Name) (v : Option Nat) (n : CNode) (h : tk ≠ lk) :
    view tk lk (setAttr n tk v) = { view tk lk n with tid := v, hasT := true } := by
  unfold view
  rw [attrVal_setAttr, attrVal_setAttr, hasKey_setAttr, hasKey_setAttr, if_pos rfl, if_neg h]
  have e2 : decide (lk = tk) = false := by simpa using (fun h' => h h'.symm)
  rw [e2]
  simp [setAttr]

theorem view_setAttr_lk (tk lk : Name) (v : Option Nat) (n : CNode) (h : tk ≠ lk) :
    view tk lk (setAttr n lk v) = { view tk lk n with lin := v, hasL := true } := by
  unfold view
  rw [attrVal_setAttr, attrVal_setAttr, hasKey_setAttr, hasKey_setAttr, if_pos rfl, if_neg (fun h' => h h'.symm)]
  have e2 : decide (tk = lk) = false := by simpa using h
  rw [e2]
  simp [setAttr]

theorem view_foldl_setAttr (tk lk : Name) (ks : List Name) (n : CNode)
    (h : ∀ k ∈ ks, k ≠ tk ∧ k ≠ lk) :
    view tk lk (ks.foldl (fun m k => setAttr m k (some 0)) n) = view tk lk n := by
  induction ks generalizing n with
  | nil => rfl
  | cons k r ih =>
    simp only [foldl_cons]
    rw [ih _ (fun k' hk' => h k' (mem_cons_of_mem _ hk'))]
    exact view_setAttr_other tk lk k _ n (h k mem_cons_self).1 (h k mem_cons_self).2

/-- `_check_existing_feature` for the two id keys reads the view of the first node -/
def firstHas (sel : NV → Bool) (vs : List NV) : Bool :=
  match vs with
  | [] => true
  | v :: _ => sel v

theorem checkExisting_tk (o : COut) (tk lk : Name) :
    checkExisting o tk = firstHas (·.hasT) (o.nodes.map (view tk lk)) := by
  unfold checkExisting firstHas
  cases o.nodes <;> rfl

theorem checkExisting_lk (o : COut) (tk lk : Name) :
    checkExisting o lk = firstHas (·.hasL) (o.nodes.map (view tk lk)) := by
  unfold checkExisting firstHas
  cases o.nodes <;> rfl

/-! ### the log of bulk computations, track part -/

def trackLog (o : COut) : List Name := (o.computed.filter (fun e => e.1 == AKind.track)).map (·.2)

theorem filterActive_sub {t : Table} {keys : List Name} {k : Name} (h : k ∈ filterActive t keys) :
    k ∈ keys ∧ k ∈ keysOf t := by
  unfold filterActive at h
  rw [mem_filter, any_eq_true] at h
  obtain ⟨hk, e, he, hb⟩ := h
  simp only [Bool.and_eq_true, beq_iff_eq] at hb
  exact ⟨hk, by rw [← hb.1]; exact mem_map_of_mem (f := (·.1)) he⟩

theorem filterActive_nil {t : Table} {keys : List Name} (h : ∀ k ∈ keys, k ∉ keysOf t) :
    filterActive t keys = [] := by
  apply eq_nil_iff_forall_not_mem.2
  intro k hk
  exact h k (filterActive_sub hk).1 (filterActive_sub hk).2

/-- the segmentation-side annotators' keys -/
def segKeys (o : COut) : List Name :=
  (match o.rp with | some r => keysOf r.2 | none => []) ++ (match o.edge with | some t => keysOf t | none => [])

/-! ### the three bulk computations for keys the TrackAnnotator does not own -/

theorem rpCompute_other (o : COut) (keys : List Name) (tk lk : Name) (h : ∀ k ∈ keys, k ≠ tk ∧ k ≠ lk) :
    (rpCompute o keys).nodes.map (view tk lk) = o.nodes.map (view tk lk) ∧
    trackLog (rpCompute o keys) = trackLog o := by
  unfold rpCompute
  cases hr : o.rp with
  | none => exact ⟨rfl, rfl⟩
  | some r =>
    simp only
    by_cases hs : (!o.hasSeg) = true
    · rw [if_pos hs]; exact ⟨rfl, rfl⟩
    · rw [if_neg hs]
      by_cases he : (filterActive r.2 keys).isEmpty = true
      · rw [if_pos he]; exact ⟨rfl, rfl⟩
      · rw [if_neg he]
        constructor
        · simp only [map_map]
          apply map_congr_left
          intro n _
          simp only [Function.comp]
          by_cases hm : n.hasMask = true
          · rw [if_pos hm]
            exact view_foldl_setAttr tk lk _ n (fun k hk => h k (filterActive_sub hk).1)
          · rw [if_neg hm]
        · unfold trackLog
          simp only [filter_append, map_append]
          have : filter (fun e => e.1 == AKind.track) (map (fun k => (AKind.rp, k)) (filterActive r.2 keys)) = [] := by
            apply eq_nil_iff_forall_not_mem.2
            intro e he'
            rw [mem_filter, mem_map] at he'
            obtain ⟨⟨k, _, rfl⟩, hb⟩ := he'
            have hb' : (AKind.rp == AKind.track) = true := hb
            exact absurd hb' (by decide)
          rw [this]; simp

theorem edgeCompute_other (o : COut) (keys : List Name) :
    (edgeCompute o keys).nodes = o.nodes ∧ trackLog (edgeCompute o keys) = trackLog o := by
  unfold edgeCompute
  cases o.edge with
  | none => exact ⟨rfl, rfl⟩
  | some t =>
    simp only
    by_cases hs : (!o.hasSeg) = true
    · rw [if_pos hs]; exact ⟨rfl, rfl⟩
    · rw [if_neg hs]
      by_cases he : (filterActive t keys).isEmpty = true
      · rw [if_pos he]; exact ⟨rfl, rfl⟩
      · rw [if_neg he]
        by_cases hi : (filterActive t keys).contains "iou" = true
        · rw [if_pos hi]
          refine ⟨rfl, ?_⟩
          unfold trackLog
          simp only [filter_append, map_append]
          have : filter (fun e => e.1 == AKind.track) [(AKind.edge, "iou")] = [] := by decide
          rw [this]; simp
        · rw [if_neg hi]; exact ⟨rfl, rfl⟩

theorem trackCompute_other (o : COut) (keys : List Name) (a : TrackAnn) (ha : o.track = some a)
    (h : ∀ k ∈ keys, k ∉ keysOf a.table) : trackCompute o keys = o := by
  rw [trackCompute_some o keys a ha, filterActive_nil h]
  rfl


theorem rpCompute_skip (o : COut) (keys : List Name)
    (h : ∀ r, o.rp = some r → ∀ k ∈ keys, k ∉ keysOf r.2) : rpCompute o keys = o := by
  unfold rpCompute
  cases hr : o.rp with
  | none => rfl
  | some r =>
    simp only
    rw [filterActive_nil (h r hr)]
    split <;> rfl

theorem edgeCompute_skip (o : COut) (keys : List Name)
    (h : ∀ t, o.edge = some t → ∀ k ∈ keys, k ∉ keysOf t) : edgeCompute o keys = o := by
  unfold edgeCompute
  cases hr : o.edge with
  | none => rfl
  | some t =>
    simp only
    rw [filterActive_nil (h t hr)]
    split <;> rfl

theorem not_mem_segKeys {o : COut} {k : Name} (h : k ∉ segKeys o) :
    (∀ r, o.rp = some r → k ∉ keysOf r.2) ∧ (∀ t, o.edge = some t → k ∉ keysOf t) := by
  unfold segKeys at h
  rw [mem_append] at h
  constructor
  · intro r hr hk; apply h; left; rw [hr]; exact hk
  · intro t ht hk; apply h; right; rw [ht]; exact hk

/-! ### activation of keys a table does not have -/

theorem activateTbl_id (keys : List Name) (t : Table) (h : ∀ k ∈ keys, k ∉ keysOf t) : activateTbl keys t = t := by
  rw [activateTbl_eq]
  have : ∀ e ∈ t, (e.1, e.2.1, e.2.2 || keys.contains e.1) = e := by
    intro e he
    have hn : keys.contains e.1 = false := by
      cases hc : keys.contains e.1 with
      | false => rfl
      | true =>
        have : e.1 ∈ keys := by simpa using hc
        exact absurd (mem_map_of_mem (f := (·.1)) he) (h e.1 this)
    rw [hn, Bool.or_false]
  calc map (fun e => (e.1, e.2.1, e.2.2 || keys.contains e.1)) t = map id t := map_congr_left this
    _ = t := map_id t

/-- the fields of the object after the non-computing part of `enable_features` -/
theorem enableCore_fields (o : COut) (keys : List Name) :
    (enableCore o keys).nodes = o.nodes ∧ (enableCore o keys).edges = o.edges ∧
    (enableCore o keys).computed = o.computed ∧ (enableCore o keys).hasSeg = o.hasSeg ∧
    (enableCore o keys).rp = o.rp.map (fun r => (r.1, activateTbl keys r.2)) ∧
    (enableCore o keys).edge = o.edge.map (activateTbl keys) ∧
    (enableCore o keys).track = o.track.map (fun a => { a with table := activateTbl keys a.table }) := by
  have hR := registerKeys_frame (mapTables (activateTbl keys) o) keys
  unfold enableCore
  rw [setSpecial_frame]
  exact ⟨hR.nodes, hR.edges, hR.computed, hR.hasSeg, hR.rp, hR.edge, hR.track⟩

theorem segKeys_of_map {o o' : COut} {f : Table → Table} (hf : ∀ t, keysOf (f t) = keysOf t)
    (h1 : o'.rp = o.rp.map (fun r => (r.1, f r.2))) (h2 : o'.edge = o.edge.map f) : segKeys o' = segKeys o := by
  unfold segKeys
  rw [h1, h2]
  cases o.rp <;> cases o.edge <;> simp [hf]

theorem segKeys_computeAll (o : COut) (keys : List Name) : segKeys (computeAll o keys) = segKeys o := by
  unfold computeAll segKeys
  rw [trackCompute_frame, edgeCompute_frame, rpCompute_frame]

/-- bulk computation for keys that are no id key and that the TrackAnnotator does not own -/
theorem computeAll_side (o : COut) (keys : List Name) (a : TrackAnn) (tk lk : Name) (ha : o.track = some a)
    (h1 : ∀ k ∈ keys, k ∉ keysOf a.table) (h2 : ∀ k ∈ keys, k ≠ tk ∧ k ≠ lk) :
    (computeAll o keys).track = some a ∧ (computeAll o keys).edges = o.edges ∧
    (computeAll o keys).nodes.map (view tk lk) = o.nodes.map (view tk lk) ∧
    trackLog (computeAll o keys) = trackLog o := by
  unfold computeAll
  have hr := rpCompute_other o keys tk lk h2
  have he := edgeCompute_other (rpCompute o keys) keys
  have hta : (edgeCompute (rpCompute o keys) keys).track = some a := by
    rw [edgeCompute_frame, rpCompute_frame]; exact ha
  rw [trackCompute_other _ keys a hta h1]
  refine ⟨hta, ?_, ?_, ?_⟩
  · rw [edgeCompute_frame, rpCompute_frame]
  · rw [he.1]; exact hr.1
  · rw [he.2]; exact hr.2

/-! ### a step of `_setup_core_computed_features` for a key that is not an id key -/

theorem setupKey_other (o : COut) (k : Name) (a : TrackAnn) (tk lk : Name) (ha : o.track = some a)
    (hk : k ∉ keysOf a.table) (hkt : k ≠ tk) (hkl : k ≠ lk) (hmem : k ∈ tableKeys o) :
    (setupKey o k).track = some a ∧ (setupKey o k).edges = o.edges ∧
    (setupKey o k).nodes.map (view tk lk) = o.nodes.map (view tk lk) ∧
    trackLog (setupKey o k) = trackLog o ∧ segKeys (setupKey o k) = segKeys o := by
  have hid : activateTbl [k] a.table = a.table :=
    activateTbl_id [k] a.table (by intro k' hk'; rw [mem_singleton] at hk'; rw [hk']; exact hk)
  rw [setupKey_eq]
  split
  · have hR := register1_frame o k
    have hT : tableKeys (register1 o k) = tableKeys o := tableKeys_congr hR.annTables
    have : activate (register1 o k) [k] = some (mapTables (activateTbl [k]) (register1 o k)) :=
      (activate_eq_some_iff _ _ _).2 ⟨by intro k' hk'; rw [mem_singleton] at hk'; rw [hk', hT]; exact hmem, rfl⟩
    rw [this]
    simp only [Option.getD_some]
    refine ⟨?_, hR.edges, ?_, ?_, ?_⟩
    · show (register1 o k).track.map (fun a => { a with table := activateTbl [k] a.table }) = some a
      rw [hR.track, ha]; simp only [Option.map_some]; rw [hid]
    · show (register1 o k).nodes.map (view tk lk) = _; rw [hR.nodes]
    · show trackLog (register1 o k) = _
      unfold trackLog; rw [hR.computed]
    · apply segKeys_of_map (f := activateTbl [k]) (keysOf_activateTbl [k])
      · show (register1 o k).rp.map _ = _; rw [hR.rp]
      · show (register1 o k).edge.map _ = _; rw [hR.edge]
  · have hs : enable o [k] true = some (computeAll (enableCore o [k]) [k]) :=
      (enable_eq_some_iff _ _ _ _).2 ⟨by intro k' hk'; rw [mem_singleton] at hk'; rw [hk']; exact hmem, rfl⟩
    rw [hs]
    simp only [Option.getD_some]
    obtain ⟨f1, f2, f3, _, f5, f6, f7⟩ := enableCore_fields o [k]
    have hta : (enableCore o [k]).track = some a := by
      rw [f7, ha]; simp only [Option.map_some]; rw [hid]
    obtain ⟨c1, c2, c3, c4⟩ := computeAll_side (enableCore o [k]) [k] a tk lk hta
      (by intro k' hk'; rw [mem_singleton] at hk'; rw [hk']; exact hk)
      (by intro k' hk'; rw [mem_singleton] at hk'; rw [hk']; exact ⟨hkt, hkl⟩)
    refine ⟨c1, c2.trans f2, ?_, ?_, ?_⟩
    · rw [c3, f1]
    · rw [c4]; unfold trackLog; rw [f3]
    · rw [segKeys_computeAll]
      exact segKeys_of_map (f := activateTbl [k]) (keysOf_activateTbl [k]) f5 f6


/-! ### the steps for the two id keys -/

theorem filterActive_single_active (t : Table) (k : Name) (h : k ∈ keysOf t) :
    filterActive (activateTbl [k] t) [k] = [k] := by
  unfold filterActive
  rw [activateTbl_eq]
  simp only [keysOf, mem_map] at h
  obtain ⟨e, he, rfl⟩ := h
  have : (map (fun x : Name × Feat × Bool => (x.1, x.2.1, x.2.2 || [e.1].contains x.1)) t).any
      (fun e' => e'.1 == e.1 && e'.2.2) = true := by
    rw [any_eq_true]
    refine ⟨(e.1, e.2.1, e.2.2 || [e.1].contains e.1), mem_map.2 ⟨e, he, rfl⟩, ?_⟩
    simp
  simp only [filter_cons, filter_nil]
  rw [this]; simp

/-- the annotator after activation of one key / after the bulk assignment -/
def actA (a : TrackAnn) (k : Name) : TrackAnn := { a with table := activateTbl [k] a.table }
def compTA (a : TrackAnn) (k : Name) (s : St) : TrackAnn :=
  { a with table := activateTbl [k] a.table, t2n := s.t2n, maxT := s.maxTid, tSrc := BookSrc.computed }
def compLA (a : TrackAnn) (k : Name) (s : St) : TrackAnn :=
  { a with table := activateTbl [k] a.table, l2n := s.l2n, maxL := s.maxLin, lSrc := BookSrc.computed }

/-- what the tracklet step writes into a view -/
def writeTid (s : St) (v : NV) : NV := { v with tid := s.tidOf v.id, hasT := true }
def writeLin (s : St) (v : NV) : NV := { v with lin := s.linOf v.id, hasL := true }

/-- the step for the tracklet key: activation if the first node carries the key, bulk assignment
    (`St.assignTracklets` on the graph as the annotator sees it) otherwise -/
theorem setupKey_tracklet (o : COut) (a : TrackAnn) (tk lk : Name) (ha : o.track = some a)
    (ht : a.tKey = tk) (hl : a.lKey = lk) (hne : tk ≠ lk) (hin : tk ∈ keysOf a.table)
    (hseg : tk ∉ segKeys o) :
    let vs := o.nodes.map (view tk lk)
    let s := (stOfViews vs o.edges).assignTracklets
    (setupKey o tk).edges = o.edges ∧ segKeys (setupKey o tk) = segKeys o ∧
    (firstHas (·.hasT) vs = true →
      (setupKey o tk).nodes.map (view tk lk) = vs ∧ trackLog (setupKey o tk) = trackLog o ∧
      (setupKey o tk).track = some (actA a tk)) ∧
    (firstHas (·.hasT) vs = false →
      (setupKey o tk).nodes.map (view tk lk) = vs.map (writeTid s) ∧
      trackLog (setupKey o tk) = trackLog o ++ [tk] ∧
      (setupKey o tk).track = some (compTA a tk s)) := by
  intro vs s
  have hmem : tk ∈ tableKeys o := by
    rw [mem_tableKeys]
    simp only [keysOf, mem_map] at hin
    obtain ⟨e, he, hk⟩ := hin
    refine ⟨(AKind.track, a.table), ?_, e, he, hk⟩
    unfold annTables; rw [ha]; simp
  rw [setupKey_eq, checkExisting_tk o tk lk]
  by_cases hfirst : firstHas (·.hasT) (o.nodes.map (view tk lk)) = true
  · have hR := register1_frame o tk
    have hT : tableKeys (register1 o tk) = tableKeys o := tableKeys_congr hR.annTables
    have : activate (register1 o tk) [tk] = some (mapTables (activateTbl [tk]) (register1 o tk)) :=
      (activate_eq_some_iff _ _ _).2 ⟨by intro k' hk'; rw [mem_singleton] at hk'; rw [hk', hT]; exact hmem, rfl⟩
    rw [if_pos hfirst, this]
    simp only [Option.getD_some]
    refine ⟨hR.edges, ?_, fun _ => ⟨?_, ?_, ?_⟩, fun h => by rw [h] at hfirst; cases hfirst⟩
    · apply segKeys_of_map (f := activateTbl [tk]) (keysOf_activateTbl [tk])
      · show (register1 o tk).rp.map _ = _; rw [hR.rp]
      · show (register1 o tk).edge.map _ = _; rw [hR.edge]
    · show (register1 o tk).nodes.map (view tk lk) = _; rw [hR.nodes]
    · show trackLog (register1 o tk) = _
      unfold trackLog; rw [hR.computed]
    · show (register1 o tk).track.map (fun a => { a with table := activateTbl [tk] a.table }) = _
      rw [hR.track, ha]; rfl
  · have hs : enable o [tk] true = some (computeAll (enableCore o [tk]) [tk]) :=
      (enable_eq_some_iff _ _ _ _).2 ⟨by intro k' hk'; rw [mem_singleton] at hk'; rw [hk']; exact hmem, rfl⟩
    rw [if_neg hfirst, hs]
    simp only [Option.getD_some]
    obtain ⟨f1, f2, f3, _, f5, f6, f7⟩ := enableCore_fields o [tk]
    have hsk : segKeys (enableCore o [tk]) = segKeys o :=
      segKeys_of_map (f := activateTbl [tk]) (keysOf_activateTbl [tk]) f5 f6
    have hseg2 := not_mem_segKeys (o := enableCore o [tk]) (k := tk) (by rw [hsk]; exact hseg)
    have hrp : rpCompute (enableCore o [tk]) [tk] = enableCore o [tk] :=
      rpCompute_skip _ _ (by intro r hr k' hk'; rw [mem_singleton] at hk'; rw [hk']; exact hseg2.1 r hr)
    have hed : edgeCompute (enableCore o [tk]) [tk] = enableCore o [tk] :=
      edgeCompute_skip _ _ (by intro t ht' k' hk'; rw [mem_singleton] at hk'; rw [hk']; exact hseg2.2 t ht')
    have hta : (enableCore o [tk]).track = some { a with table := activateTbl [tk] a.table } := by
      rw [f7, ha]; rfl
    have hfa : filterActive (activateTbl [tk] a.table) [tk] = [tk] := filterActive_single_active a.table tk hin
    have hlk : ([tk] : List Name).contains lk = false := by
      simp only [contains_cons, contains_nil, Bool.or_false, beq_eq_false_iff_ne, ne_eq]
      exact fun h => hne h.symm
    have hcomp : computeAll (enableCore o [tk]) [tk] =
        { (computeT (enableCore o [tk]) { a with table := activateTbl [tk] a.table }).1 with
          track := some (computeT (enableCore o [tk]) { a with table := activateTbl [tk] a.table }).2 } := by
      unfold computeAll
      rw [hrp, hed, trackCompute_some _ _ _ hta]
      simp only [hfa, ht, hl, hlk]
      simp
    rw [hcomp]
    have hgs : graphSt (enableCore o [tk]).nodes (enableCore o [tk]).edges tk lk = stOfViews vs o.edges := by
      rw [graphSt_eq_views, f1, f2]
    refine ⟨f2, ?_, fun h => absurd h hfirst, fun _ => ⟨?_, ?_, ?_⟩⟩
    · rw [← hsk]; unfold segKeys computeT; rfl
    · show ((enableCore o [tk]).nodes.map _).map (view tk lk) = _
      simp only [ht, hl]
      rw [hgs, f1, map_map]
      show _ = (o.nodes.map (view tk lk)).map (writeTid s)
      rw [map_map]
      apply map_congr_left
      intro n _
      simp only [Function.comp]
      rw [view_setAttr_tk tk lk _ n hne]
      rfl
    · unfold trackLog computeT
      simp only [filter_append, map_append, f3, ht]
      rfl
    · unfold computeT compTA
      simp only [ht, hl]
      rw [hgs]

/-- the step for the lineage key -/
theorem setupKey_lineage (o : COut) (a : TrackAnn) (tk lk : Name) (ha : o.track = some a)
    (ht : a.tKey = tk) (hl : a.lKey = lk) (hne : tk ≠ lk) (hin : lk ∈ keysOf a.table)
    (hseg : lk ∉ segKeys o) :
    let vs := o.nodes.map (view tk lk)
    let s := (stOfViews vs o.edges).assignLineages
    (setupKey o lk).edges = o.edges ∧ segKeys (setupKey o lk) = segKeys o ∧
    (firstHas (·.hasL) vs = true →
      (setupKey o lk).nodes.map (view tk lk) = vs ∧ trackLog (setupKey o lk) = trackLog o ∧
      (setupKey o lk).track = some (actA a lk)) ∧
    (firstHas (·.hasL) vs = false →
      (setupKey o lk).nodes.map (view tk lk) = vs.map (writeLin s) ∧
      trackLog (setupKey o lk) = trackLog o ++ [lk] ∧
      (setupKey o lk).track = some (compLA a lk s)) := by
  intro vs s
  have hmem : lk ∈ tableKeys o := by
    rw [mem_tableKeys]
    simp only [keysOf, mem_map] at hin
    obtain ⟨e, he, hk⟩ := hin
    refine ⟨(AKind.track, a.table), ?_, e, he, hk⟩
    unfold annTables; rw [ha]; simp
  rw [setupKey_eq, checkExisting_lk o tk lk]
  by_cases hfirst : firstHas (·.hasL) (o.nodes.map (view tk lk)) = true
  · have hR := register1_frame o lk
    have hT : tableKeys (register1 o lk) = tableKeys o := tableKeys_congr hR.annTables
    have : activate (register1 o lk) [lk] = some (mapTables (activateTbl [lk]) (register1 o lk)) :=
      (activate_eq_some_iff _ _ _).2 ⟨by intro k' hk'; rw [mem_singleton] at hk'; rw [hk', hT]; exact hmem, rfl⟩
    rw [if_pos hfirst, this]
    simp only [Option.getD_some]
    refine ⟨hR.edges, ?_, fun _ => ⟨?_, ?_, ?_⟩, fun h => by rw [h] at hfirst; cases hfirst⟩
    · apply segKeys_of_map (f := activateTbl [lk]) (keysOf_activateTbl [lk])
      · show (register1 o lk).rp.map _ = _; rw [hR.rp]
      · show (register1 o lk).edge.map _ = _; rw [hR.edge]
    · show (register1 o lk).nodes.map (view tk lk) = _; rw [hR.nodes]
    · show trackLog (register1 o lk) = _
      unfold trackLog; rw [hR.computed]
    · show (register1 o lk).track.map (fun a => { a with table := activateTbl [lk] a.table }) = _
      rw [hR.track, ha]; rfl
  · have hs : enable o [lk] true = some (computeAll (enableCore o [lk]) [lk]) :=
      (enable_eq_some_iff _ _ _ _).2 ⟨by intro k' hk'; rw [mem_singleton] at hk'; rw [hk']; exact hmem, rfl⟩
    rw [if_neg hfirst, hs]
    simp only [Option.getD_some]
    obtain ⟨f1, f2, f3, _, f5, f6, f7⟩ := enableCore_fields o [lk]
    have hsk : segKeys (enableCore o [lk]) = segKeys o :=
      segKeys_of_map (f := activateTbl [lk]) (keysOf_activateTbl [lk]) f5 f6
    have hseg2 := not_mem_segKeys (o := enableCore o [lk]) (k := lk) (by rw [hsk]; exact hseg)
    have hrp : rpCompute (enableCore o [lk]) [lk] = enableCore o [lk] :=
      rpCompute_skip _ _ (by intro r hr k' hk'; rw [mem_singleton] at hk'; rw [hk']; exact hseg2.1 r hr)
    have hed : edgeCompute (enableCore o [lk]) [lk] = enableCore o [lk] :=
      edgeCompute_skip _ _ (by intro t ht' k' hk'; rw [mem_singleton] at hk'; rw [hk']; exact hseg2.2 t ht')
    have hta : (enableCore o [lk]).track = some { a with table := activateTbl [lk] a.table } := by
      rw [f7, ha]; rfl
    have hfa : filterActive (activateTbl [lk] a.table) [lk] = [lk] := filterActive_single_active a.table lk hin
    have htk : ([lk] : List Name).contains tk = false := by
      simp only [contains_cons, contains_nil, Bool.or_false, beq_eq_false_iff_ne, ne_eq]
      exact fun h => hne h
    have hcomp : computeAll (enableCore o [lk]) [lk] =
        { (computeL (enableCore o [lk]) { a with table := activateTbl [lk] a.table }).1 with
          track := some (computeL (enableCore o [lk]) { a with table := activateTbl [lk] a.table }).2 } := by
      unfold computeAll
      rw [hrp, hed, trackCompute_some _ _ _ hta]
      simp only [hfa, ht, hl, htk]
      simp
    rw [hcomp]
    have hgs : graphSt (enableCore o [lk]).nodes (enableCore o [lk]).edges tk lk = stOfViews vs o.edges := by
      rw [graphSt_eq_views, f1, f2]
    refine ⟨f2, ?_, fun h => absurd h hfirst, fun _ => ⟨?_, ?_, ?_⟩⟩
    · rw [← hsk]; unfold segKeys computeL; rfl
    · show ((enableCore o [lk]).nodes.map _).map (view tk lk) = _
      simp only [ht, hl]
      rw [hgs, f1, map_map]
      show _ = (o.nodes.map (view tk lk)).map (writeLin s)
      rw [map_map]
      apply map_congr_left
      intro n _
      simp only [Function.comp]
      rw [view_setAttr_lk tk lk _ n hne]
      rfl
    · unfold trackLog computeL
      simp only [filter_append, map_append, f3, hl]
      rfl
    · unfold computeL compLA
      simp only [ht, hl]
      rw [hgs]


/-! ### assembling the constructor of a solution without FeatureDict -/

/-- the keys of the segmentation-side annotators of a fresh object -/
def segKeyList : List Name := ["pos", "area", "ellipse_axis_radii", "circularity", "perimeter", "iou"]

theorem segKeys_fresh0 (i : CInput) : ∀ k, k ∈ segKeys (fresh0 i) → i.hasSeg = true ∧ k ∈ segKeyList := by
  intro k hk
  have e : segKeys (fresh0 i) = segKeys (mkAnnotators (featureSet i)) := by rw [fresh0_eq]; rfl
  rw [e] at hk
  unfold segKeys mkAnnotators at hk
  obtain ⟨_, _, _, _, h5, _⟩ := featureSet_fields i
  rw [h5] at hk
  cases hs : i.hasSeg
  · rw [hs] at hk; simp at hk
  · refine ⟨rfl, ?_⟩
    rw [hs] at hk
    simp only [if_true, mem_append] at hk
    rcases hk with hk | hk
    · have := (mem_keys_rpTable _ _ k).1 hk
      have hpos : (featureSet i).posKey = PosKey.none := by rw [featureSet_posKey, hs]; rfl
      rw [hpos] at this
      simp only at this
      unfold segKeyList
      rcases this with h | h | h | h | h <;> simp [h]
    · simp only [edgeTable, keysOf, map_cons, map_nil, mem_singleton] at hk
      unfold segKeyList; simp [hk]

theorem mkTrack_keys (nodes : List CNode) (tk lk : Name) :
    keysOf (mkTrack nodes (some tk) (some lk)).table = keysOf (dictOf [(tk, Feat.tracklet), (lk, Feat.lineage)]) := by
  rw [mkTrack_table]
  simp [keysOf, Function.comp_def]

theorem mem_mkTrack_keys (nodes : List CNode) (tk lk k : Name) :
    k ∈ keysOf (mkTrack nodes (some tk) (some lk)).table ↔ k = tk ∨ k = lk := by
  have := mem_tableKeys_mkTrack nodes (some tk) (some lk) k
  simpa using this

theorem firstHas_hasL_writeTid (s : St) (vs : List NV) :
    firstHas (·.hasL) (vs.map (writeTid s)) = firstHas (·.hasL) vs := by
  cases vs <;> rfl

/-- the solution constructor without FeatureDict, id side: what the TrackAnnotator sees of the
    graph afterwards, which id features were computed, and where the bookkeeping comes from -/
theorem construct_ids (i : CInput) (hp : i.prebuilt = none) (hsol : i.solution = true)
    (hne : i.trackletAttr.getD "track_id" ≠ i.lineageAttr.getD "lineage_id")
    (hsep : i.hasSeg = true → i.trackletAttr.getD "track_id" ∉ segKeyList ∧
                               i.lineageAttr.getD "lineage_id" ∉ segKeyList) :
    let tk := i.trackletAttr.getD "track_id"
    let lk := i.lineageAttr.getD "lineage_id"
    let vs0 := i.nodes.map (view tk lk)
    let sT := (stOfViews vs0 i.edges).assignTracklets
    let vs1 := if firstHas (·.hasT) vs0 then vs0 else vs0.map (writeTid sT)
    let sL := (stOfViews vs1 i.edges).assignLineages
    let vs2 := if firstHas (·.hasL) vs0 then vs1 else vs1.map (writeLin sL)
    let a0 := mkTrack i.nodes (some tk) (some lk)
    (construct i).edges = i.edges ∧ (construct i).nodes.map (view tk lk) = vs2 ∧
    trackLog (construct i) =
      (if firstHas (·.hasT) vs0 then [] else [tk]) ++ (if firstHas (·.hasL) vs0 then [] else [lk]) ∧
    ∃ aF, (construct i).track = some aF ∧ aF.tKey = tk ∧ aF.lKey = lk ∧
      (aF.t2n, aF.maxT, aF.tSrc) =
        (if firstHas (·.hasT) vs0 then (a0.t2n, a0.maxT, a0.tSrc) else (sT.t2n, sT.maxTid, BookSrc.computed)) ∧
      (aF.l2n, aF.maxL, aF.lSrc) =
        (if firstHas (·.hasL) vs0 then (a0.l2n, a0.maxL, a0.lSrc) else (sL.l2n, sL.maxLin, BookSrc.computed)) := by
  intro tk lk vs0 sT vs1 sL vs2 a0
  obtain ⟨_, _, _, _, _, _, f7, _, _, f10, f11, f12⟩ := fresh0_fields i
  rw [hsol] at f7
  simp only [if_true] at f7
  have ha0t : a0.tKey = tk := mkTrack_tKey _ _ _
  have ha0l : a0.lKey = lk := mkTrack_lKey _ _ _
  -- the state before the two id steps
  have hA : ∃ oA, construct i = setupKey (setupKey oA tk) lk ∧ oA.track = some a0 ∧ oA.edges = i.edges ∧
      oA.nodes.map (view tk lk) = vs0 ∧ trackLog oA = [] ∧ segKeys oA = segKeys (fresh0 i) := by
    have e := construct_fresh_eq i hp
    have hcl : coreList i = (if i.hasSeg then ["pos", "area"] else []) ++ [tk, lk] := by
      unfold coreList; rw [hsol]; rfl
    rw [hcl, foldl_append] at e
    have e' : construct i = setupKey (setupKey
        ((if i.hasSeg then ["pos", "area"] else []).foldl setupKey (fresh0 i)) tk) lk := e
    have hlog0 : trackLog (fresh0 i) = [] := by unfold trackLog; rw [f12]; rfl
    cases hs : i.hasSeg
    · rw [hs] at e'
      exact ⟨fresh0 i, e', f7, f11, by rw [f10], hlog0, rfl⟩
    · rw [hs] at e'
      obtain ⟨hs1, hs2⟩ := hsep hs
      have hpos : "pos" ∈ coreList i := by unfold coreList; rw [hs]; simp
      have harea : "area" ∈ coreList i := by unfold coreList; rw [hs]; simp
      have hnk : ∀ k ∈ segKeyList, k ∉ keysOf a0.table ∧ k ≠ tk ∧ k ≠ lk := by
        intro k hk
        have h1 : k ≠ tk := fun h => hs1 (by rw [h] at hk; exact hk)
        have h2 : k ≠ lk := fun h => hs2 (by rw [h] at hk; exact hk)
        refine ⟨?_, h1, h2⟩
        rw [mem_mkTrack_keys]
        rintro (h | h)
        · exact h1 h
        · exact h2 h
      have p1 := hnk "pos" (by unfold segKeyList; simp)
      have p2 := hnk "area" (by unfold segKeyList; simp)
      obtain ⟨s1, s2, s3, s4, s5⟩ := setupKey_other (fresh0 i) "pos" a0 tk lk f7 p1.1 p1.2.1 p1.2.2
        (coreList_sub i "pos" hpos)
      have hT1 : tableKeys (setupKey (fresh0 i) "pos") = tableKeys (fresh0 i) :=
        (setupKey_grow (fresh0 i) "pos" (coreList_sub i "pos" hpos)).tableKeys
      obtain ⟨t1, t2, t3, t4, t5⟩ := setupKey_other (setupKey (fresh0 i) "pos") "area" a0 tk lk s1 p2.1 p2.2.1 p2.2.2
        (by rw [hT1]; exact coreList_sub i "area" harea)
      refine ⟨setupKey (setupKey (fresh0 i) "pos") "area", e', t1, t2.trans (s2.trans f11), ?_, ?_, t5.trans s5⟩
      · rw [t3, s3, f10]
      · rw [t4, s4]; exact hlog0
  obtain ⟨oA, hc, hAt, hAe, hAv, hAl, hAs⟩ := hA
  have hsegT : tk ∉ segKeys oA := by
    rw [hAs]; intro h; obtain ⟨hs, hk⟩ := segKeys_fresh0 i tk h; exact (hsep hs).1 hk
  have hsegL : lk ∉ segKeys oA := by
    rw [hAs]; intro h; obtain ⟨hs, hk⟩ := segKeys_fresh0 i lk h; exact (hsep hs).2 hk
  have hinT : tk ∈ keysOf a0.table := (mem_mkTrack_keys _ _ _ _).2 (Or.inl rfl)
  have hinL : lk ∈ keysOf a0.table := (mem_mkTrack_keys _ _ _ _).2 (Or.inr rfl)
  obtain ⟨u1, u2, u3, u4⟩ := setupKey_tracklet oA a0 tk lk hAt ha0t ha0l hne hinT hsegT
  rw [hAv] at u3 u4
  rw [hAe] at u4
  rw [hc]
  by_cases hT : firstHas (·.hasT) vs0 = true
  · obtain ⟨v1, v2, v3⟩ := u3 hT
    have hinL' : lk ∈ keysOf (actA a0 tk).table := by
      unfold actA; rw [keysOf_activateTbl]; exact hinL
    obtain ⟨w1, w2, w3, w4⟩ := setupKey_lineage (setupKey oA tk) (actA a0 tk) tk lk v3 ha0t ha0l hne hinL'
      (by rw [u2]; exact hsegL)
    rw [v1] at w3 w4
    rw [u1, hAe] at w4
    by_cases hL : firstHas (·.hasL) vs0 = true
    · obtain ⟨x1, x2, x3⟩ := w3 hL
      refine ⟨w1.trans (u1.trans hAe), ?_, ?_, _, x3, ha0t, ha0l, ?_, ?_⟩
      · rw [x1]; simp only [vs2, vs1, hT, hL, if_true]
      · rw [x2, v2, hAl]; (simp only [hT, hL, if_true]) <;> rfl
      · (simp only [hT, if_true]) <;> rfl
      · (simp only [hL, if_true]) <;> rfl
    · have hL' : firstHas (·.hasL) vs0 = false := by simpa using hL
      obtain ⟨x1, x2, x3⟩ := w4 hL'
      refine ⟨w1.trans (u1.trans hAe), ?_, ?_, _, x3, ha0t, ha0l, ?_, ?_⟩
      · rw [x1]; simp only [vs2, vs1, sL, hT, hL', if_true, Bool.false_eq_true, if_false]
      · rw [x2, v2, hAl]; (simp only [hT, hL', if_true, Bool.false_eq_true, if_false]) <;> rfl
      · (simp only [hT, if_true]) <;> rfl
      · (simp only [sL, vs1, hT, hL', if_true, Bool.false_eq_true, if_false]) <;> rfl
  · have hT' : firstHas (·.hasT) vs0 = false := by simpa using hT
    obtain ⟨v1, v2, v3⟩ := u4 hT'
    have hinL' : lk ∈ keysOf (compTA a0 tk sT).table := by
      unfold compTA; rw [keysOf_activateTbl]; exact hinL
    obtain ⟨w1, w2, w3, w4⟩ := setupKey_lineage (setupKey oA tk) (compTA a0 tk sT) tk lk v3 ha0t ha0l hne hinL'
      (by rw [u2]; exact hsegL)
    rw [v1, firstHas_hasL_writeTid] at w3 w4
    rw [u1, hAe] at w4
    by_cases hL : firstHas (·.hasL) vs0 = true
    · obtain ⟨x1, x2, x3⟩ := w3 hL
      refine ⟨w1.trans (u1.trans hAe), ?_, ?_, _, x3, ha0t, ha0l, ?_, ?_⟩
      · rw [x1]; simp only [vs2, vs1, sT, hT', hL, if_true, Bool.false_eq_true, if_false]
      · rw [x2, v2, hAl]; (simp only [hT', hL, if_true, Bool.false_eq_true, if_false]) <;> rfl
      · (simp only [hT', Bool.false_eq_true, if_false]) <;> rfl
      · (simp only [hL, if_true]) <;> rfl
    · have hL' : firstHas (·.hasL) vs0 = false := by simpa using hL
      obtain ⟨x1, x2, x3⟩ := w4 hL'
      refine ⟨w1.trans (u1.trans hAe), ?_, ?_, _, x3, ha0t, ha0l, ?_, ?_⟩
      · rw [x1]; simp only [vs2, vs1, sL, sT, hT', hL', Bool.false_eq_true, if_false]
      · rw [x2, v2, hAl]; (simp only [hT', hL', Bool.false_eq_true, if_false]) <;> rfl
      · (simp only [hT', Bool.false_eq_true, if_false]) <;> rfl
      · (simp only [sL, vs1, sT, hT', hL', Bool.false_eq_true, if_false]) <;> rfl

/-! ### `from_tracks` (as repaired): the pieces -/

/-- everything of the TrackAnnotator except the activation flags -/
def trackBook (o : COut) :
    Option (Name × Name × List Name × List (Nat × List Node) × List (Nat × List Node) × Nat × Nat × BookSrc × BookSrc) :=
  o.track.map (fun a => (a.tKey, a.lKey, keysOf a.table, a.t2n, a.l2n, a.maxT, a.maxL, a.tSrc, a.lSrc))

theorem trackBook_mapTables_activate (keys : List Name) (o : COut) :
    trackBook (mapTables (activateTbl keys) o) = trackBook o := by
  unfold trackBook mapTables
  cases o.track with
  | none => rfl
  | some a => simp only [Option.map_some]; rw [keysOf_activateTbl]

theorem trackBook_actStep (o : COut) (k : Name) : trackBook (actStep o k) = trackBook o := by
  unfold actStep
  split
  · unfold activate
    split
    · rfl
    · exact trackBook_mapTables_activate [k] o
  · rfl

theorem trackBook_activateFromDict (o : COut) : trackBook (activateFromDict o) = trackBook o := by
  rw [activateFromDict_eq]
  generalize keysOf o.reg = ks
  induction ks generalizing o with
  | nil => rfl
  | cons k r ih => simp only [foldl_cons]; rw [ih, trackBook_actStep]

theorem trackBook_enableCore (o : COut) (keys : List Name) : trackBook (enableCore o keys) = trackBook o := by
  obtain ⟨_, _, _, _, _, _, f7⟩ := enableCore_fields o keys
  unfold trackBook
  rw [f7]
  cases o.track with
  | none => rfl
  | some a => simp only [Option.map_some]; rw [keysOf_activateTbl]

theorem mem_filterActive_activate {t : Table} {keys : List Name} {k : Name} (hk : k ∈ keys) (ht : k ∈ keysOf t) :
    k ∈ filterActive (activateTbl keys t) keys := by
  unfold filterActive
  rw [mem_filter, any_eq_true]
  refine ⟨hk, ?_⟩
  simp only [keysOf, mem_map] at ht
  obtain ⟨e, he, rfl⟩ := ht
  rw [activateTbl_eq]
  refine ⟨(e.1, e.2.1, e.2.2 || keys.contains e.1), mem_map.2 ⟨e, he, rfl⟩, ?_⟩
  simp [hk]

/-- a bulk computation that is asked for the (active) tracklet key runs `_assign_tracklet_ids` -/
theorem trackCompute_runs_t (o : COut) (keys : List Name) (a : TrackAnn) (ha : o.track = some a)
    (h : a.tKey ∈ filterActive a.table keys) :
    (AKind.track, a.tKey) ∈ (trackCompute o keys).computed ∧
    ∃ a', (trackCompute o keys).track = some a' ∧ a'.tSrc = BookSrc.computed := by
  rw [trackCompute_some o keys a ha]
  have hne : (filterActive a.table keys).isEmpty = false := by
    cases hl : filterActive a.table keys with
    | nil => rw [hl] at h; cases h
    | cons _ _ => rfl
  have hc : (filterActive a.table keys).contains a.tKey = true := by simpa using h
  simp only [hne, Bool.false_eq_true, if_false, hc, if_true]
  by_cases hl : (filterActive a.table keys).contains (computeT o a).2.lKey = true
  · have hl' : (filterActive a.table keys).contains a.lKey = true := hl
    simp only [hl', if_true]
    exact ⟨by unfold computeL computeT; simp, _, rfl, rfl⟩
  · have hl' : ¬ (filterActive a.table keys).contains a.lKey = true := hl
    simp only [hl']
    exact ⟨by unfold computeT; simp, _, rfl, rfl⟩

/-- … and for the (active) lineage key `_assign_lineage_ids` -/
theorem trackCompute_runs_l (o : COut) (keys : List Name) (a : TrackAnn) (ha : o.track = some a)
    (h : a.lKey ∈ filterActive a.table keys) :
    (AKind.track, a.lKey) ∈ (trackCompute o keys).computed ∧
    ∃ a', (trackCompute o keys).track = some a' ∧ a'.lSrc = BookSrc.computed := by
  rw [trackCompute_some o keys a ha]
  have hne : (filterActive a.table keys).isEmpty = false := by
    cases hl : filterActive a.table keys with
    | nil => rw [hl] at h; cases h
    | cons _ _ => rfl
  have hc : (filterActive a.table keys).contains a.lKey = true := by simpa using h
  simp only [hne, Bool.false_eq_true, if_false, hc, if_true]
  by_cases ht : (filterActive a.table keys).contains a.tKey = true
  · simp only [ht, if_true]
    exact ⟨by unfold computeL computeT; simp, _, rfl, rfl⟩
  · simp only [ht]
    exact ⟨by unfold computeL; simp, _, rfl, rfl⟩

theorem computeAll_track_eq (o : COut) (keys : List Name) :
    computeAll o keys = trackCompute (edgeCompute (rpCompute o keys) keys) keys ∧
    (edgeCompute (rpCompute o keys) keys).track = o.track := by
  refine ⟨rfl, ?_⟩
  rw [edgeCompute_frame, rpCompute_frame]

theorem mkTrack_cons_gen (n0 : CNode) (rest : List CNode) (tkArg lkArg : Option Name) :
    (mkTrack (n0 :: rest) tkArg lkArg).tSrc = BookSrc.fromGraph ∧
    ((mkTrack (n0 :: rest) tkArg lkArg).maxT, (mkTrack (n0 :: rest) tkArg lkArg).t2n) =
      maxIdMap (n0 :: rest) (tkArg.getD "tracklet_id") ∧
    (∀ lk, lkArg = some lk → (mkTrack (n0 :: rest) tkArg lkArg).lSrc = BookSrc.fromGraph ∧
      ((mkTrack (n0 :: rest) tkArg lkArg).maxL, (mkTrack (n0 :: rest) tkArg lkArg).l2n) = maxIdMap (n0 :: rest) lk) := by
  unfold mkTrack
  cases lkArg <;> simp

end Ft.R7S
