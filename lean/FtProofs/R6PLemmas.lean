/-
  FtProofs.R6PLemmas — package R6P, part 1: the command language of the primitive protocol
  (`FtModel/PrimDrv.lean`, family tag `SP`) and a generic reach principle for it.

  * `Ft.R6P.PCmd`      the seven primitive constructors (`AddEdge`, `DeleteEdge`, `AddNode`,
                       `DeleteNode`, `UpdateTrackIDs`, `UpdateNodeSeg`, `UpdateNodeAttrs`);
    `PCmd.run`         construct-and-apply;
    `invCmd`           the command `action.inverse()` constructs from a record (`invPrim_eq`);
  * `Ft.R6P.Cmd`       `prim c | inv | enable ks rc | disable ks`;
    `exec`             one protocol line on (state, last record): a failing command leaves both
                       unchanged, `enable` / `disable` forget the last record (as `stepRaw` does);
    `ofDrv`, `exec_ofDrv`, `stepRaw_*`  the tie to `PrimDrv.Cmd` / `PrimDrv.run` / `PrimDrv.stepRaw`;
  * `Closed J Pre EPre DPre`  "the state predicate `J` is kept by every accepted primitive whose
                       arguments satisfy `Pre`, AND the inverse of the record it returns satisfies
                       `Pre` again in the new state; kept by `enable` under `EPre`, `disable` under `DPre`";
    `Adm`              admissible command lists: every command satisfies its precondition in the
                       state it is applied to; an `inv` needs NO precondition as long as its record
                       is fresh (produced by the last accepted command, only refused commands since);
    `Closed.reach`     `J` holds at every state reached by an admissible list.
-/
import FtModel.PrimDrv
import FtProofs.SegLemmas
namespace Ft.R6P
open Ft Ft.St List

/-! ### 1. commands -/

/-- the seven primitive actions with their constructor arguments -/
inductive PCmd where
  | addEdge (e : Edge) (a : List (Key × Val))
  | delEdge (e : Edge)
  | addNode (r : NodeRec) (px : Option (List Pix))
  | delNode (n : Node) (px : Option (List Pix))
  | updTid (start : Node) (tid : Nat) (lin : Option Nat)
  | updSeg (n : Node) (px : List Pix) (added : Bool)
  | updAttrs (n : Node) (a : List (Key × Val))
deriving Repr, DecidableEq

/-- construct-and-apply -/
def PCmd.run (s : St) : PCmd → Except Err (St × PrimRec)
  | .addEdge e a => s.pAddEdge e a
  | .delEdge e => s.pDelEdge e
  | .addNode r px => s.pAddNode r px
  | .delNode n px => s.pDelNode n px
  | .updTid st t l => s.pUpdTid st t l
  | .updSeg n px a => s.pUpdSeg n px a
  | .updAttrs n a => s.pUpdAttrs n a

/-- the command that `action.inverse()` constructs from the record of an applied action -/
def invCmd : PrimRec → PCmd
  | .addNode r _ => .delNode r.id none
  | .delNode saved px => .addNode saved px
  | .addEdge e _ => .delEdge e
  | .delEdge e saved => .addEdge e saved
  | .updTid start oldT _ oldL _ => .updTid start oldT oldL
  | .updSeg n px added => .updSeg n px (!added)
  | .updAttrs n prev _ => .updAttrs n prev

theorem invPrim_eq (s : St) (r : PrimRec) : s.invPrim r = (invCmd r).run s := by
  cases r <;> rfl

/-- the lines of the protocol `SP` (without `init`) -/
inductive Cmd where
  | prim (c : PCmd)
  | inv
  | enable (ks : List Key) (rc : Bool)
  | disable (ks : List Key)
deriving Repr, DecidableEq

abbrev Cfg := St × Option PrimRec

/-- one line: a failing command (and `inv` without a last record) leaves state and last record
    unchanged; an accepted primitive / inverse makes its record the last one; an accepted
    `enable` / `disable` forgets the last record -/
def exec (p : Cfg) : Cmd → Cfg
  | .prim c =>
    match c.run p.1 with
    | .ok (s', r) => (s', some r)
    | .error _ => p
  | .inv =>
    match p.2 with
    | none => p
    | some r0 =>
      match p.1.invPrim r0 with
      | .ok (s', r) => (s', some r)
      | .error _ => p
  | .enable ks rc =>
    match p.1.enable ks rc with
    | some s' => (s', none)
    | none => p
  | .disable ks =>
    match p.1.disable ks with
    | some s' => (s', none)
    | none => p

/-- was the command accepted? -/
def accepted (p : Cfg) : Cmd → Bool
  | .prim c => match c.run p.1 with | .ok _ => true | .error _ => false
  | .inv => match p.2 with
    | none => false
    | some r0 => match p.1.invPrim r0 with | .ok _ => true | .error _ => false
  | .enable ks rc => (p.1.enable ks rc).isSome
  | .disable ks => (p.1.disable ks).isSome

def runs (p : Cfg) (cs : List Cmd) : Cfg := cs.foldl exec p

@[simp] theorem runs_nil (p : Cfg) : runs p [] = p := rfl
@[simp] theorem runs_cons (p : Cfg) (c : Cmd) (cs : List Cmd) : runs p (c :: cs) = runs (exec p c) cs := rfl

theorem runs_append (p : Cfg) (cs cs' : List Cmd) : runs p (cs ++ cs') = runs (runs p cs) cs' := by
  unfold runs; rw [List.foldl_append]

theorem exec_of_not_accepted {p : Cfg} {c : Cmd} (h : accepted p c = false) : exec p c = p := by
  cases c with
  | prim c =>
    simp only [accepted, exec] at h ⊢
    split <;> simp_all
  | inv =>
    simp only [accepted, exec] at h ⊢
    split
    · rfl
    · rename_i r0 h0
      simp only [h0] at h
      split <;> simp_all
  | enable ks rc =>
    simp only [accepted, exec] at h ⊢
    split <;> simp_all
  | disable ks =>
    simp only [accepted, exec] at h ⊢
    split <;> simp_all

/-! ### 2. the tie to `PrimDrv` -/

def ofDrv : PrimDrv.Cmd → Cmd
  | .addEdge e a => .prim (.addEdge e a)
  | .delEdge e => .prim (.delEdge e)
  | .addNode r px => .prim (.addNode r px)
  | .delNode n px => .prim (.delNode n px)
  | .updTid st t l => .prim (.updTid st t l)
  | .updSeg n px a => .prim (.updSeg n px a)
  | .updAttrs n a => .prim (.updAttrs n a)
  | .inv => .inv

/-- `exec` on a `PrimDrv.Cmd` is the state / last-record part of `PrimDrv.stepRaw`'s last branch -/
theorem exec_ofDrv (s : St) (last : Option PrimRec) (c : PrimDrv.Cmd) :
    exec (s, last) (ofDrv c) =
      match PrimDrv.run s last c with
      | none => (s, last)
      | some (.ok (s', r)) => (s', some r)
      | some (.error _) => (s, last) := by
  cases c with
  | inv =>
    cases last with
    | none => rfl
    | some r0 =>
      simp only [ofDrv, exec, PrimDrv.run, Option.map]
      cases s.invPrim r0 with
      | error e => rfl
      | ok x => rfl
  | _ =>
    simp only [ofDrv, exec, PrimDrv.run, PCmd.run]
    split <;> simp_all

/-- `PrimDrv.stepRaw` on an `enable` line whose arguments parse: state and last record are `exec` -/
theorem stepRaw_enable (s : St) (last : Option PrimRec) (rest : List String) (ks : List Key) (rc : Bool)
    (hp : ((do let ks ← SessDrv.listOf SessDrv.nat; let rc ← SessDrv.bool; pure (ks, rc)) :
      SessDrv.P (List Key × Bool)).run rest = some ((ks, rc), [])) :
    ((PrimDrv.stepRaw s last ("enable" :: rest)).1, (PrimDrv.stepRaw s last ("enable" :: rest)).2.1)
      = exec (s, last) (.enable ks rc) := by
  simp only [PrimDrv.stepRaw, hp, exec]
  cases s.enable ks rc <;> rfl

theorem stepRaw_disable (s : St) (last : Option PrimRec) (rest : List String) (ks : List Key)
    (hp : ((SessDrv.listOf SessDrv.nat) : SessDrv.P (List Key)).run rest = some (ks, [])) :
    ((PrimDrv.stepRaw s last ("disable" :: rest)).1, (PrimDrv.stepRaw s last ("disable" :: rest)).2.1)
      = exec (s, last) (.disable ks) := by
  simp only [PrimDrv.stepRaw, hp, exec]
  cases s.disable ks <;> rfl

/-- `PrimDrv.stepRaw` on any other line that parses as a command `c`: state and last record are
    `exec … (ofDrv c)` (a refused command and `inv` without last record leave both unchanged) -/
theorem stepRaw_prim (s : St) (last : Option PrimRec) (ts : List String) (c : PrimDrv.Cmd)
    (h1 : ts.head? ≠ some "init") (h2 : ts.head? ≠ some "enable") (h3 : ts.head? ≠ some "disable")
    (hp : PrimDrv.cmdP.run ts = some (c, [])) :
    ((PrimDrv.stepRaw s last ts).1, (PrimDrv.stepRaw s last ts).2.1) = exec (s, last) (ofDrv c) := by
  rw [exec_ofDrv]
  unfold PrimDrv.stepRaw
  split
  · simp at h1
  · simp at h2
  · simp at h3
  · simp only [hp]
    cases PrimDrv.run s last c with
    | none => rfl
    | some x =>
      cases x with
      | error e => rfl
      | ok y => rfl

/-! ### 3. the generic reach principle -/

structure Closed (J : St → Prop) (Pre : St → PCmd → Prop) (EPre : St → List Key → Bool → Prop)
    (DPre : St → List Key → Prop) : Prop where
  prim : ∀ {s s' : St} {c : PCmd} {r : PrimRec}, J s → Pre s c → c.run s = .ok (s', r) →
    J s' ∧ Pre s' (invCmd r)
  enable : ∀ {s s' : St} {ks : List Key} {rc : Bool}, J s → EPre s ks rc → s.enable ks rc = some s' → J s'
  disable : ∀ {s s' : St} {ks : List Key}, J s → DPre s ks → s.disable ks = some s' → J s'

section generic
variable (Pre : St → PCmd → Prop) (EPre : St → List Key → Bool → Prop) (DPre : St → List Key → Prop)

/-- the precondition of one protocol line; for `inv` it is the precondition of the inverse
    command, expressed on the last record -/
def CmdPreG (s : St) (last : Option PrimRec) : Cmd → Prop
  | .prim c => Pre s c
  | .inv => ∀ r, last = some r → Pre s (invCmd r)
  | .enable ks rc => EPre s ks rc
  | .disable ks => DPre s ks

/-- admissible lists.  `fresh = true`: the last record was produced by the last accepted command
    (only refused commands since) — then `inv` needs no precondition. -/
def AdmG : Bool → Cfg → List Cmd → Prop
  | _, _, [] => True
  | fresh, p, c :: cs =>
    (CmdPreG Pre EPre DPre p.1 p.2 c ∨ (fresh = true ∧ c = .inv)) ∧
      AdmG (accepted p c || fresh) (exec p c) cs

instance [∀ s c, Decidable (Pre s c)] [∀ s ks rc, Decidable (EPre s ks rc)] [∀ s ks, Decidable (DPre s ks)]
    (s : St) (last : Option PrimRec) (c : Cmd) : Decidable (CmdPreG Pre EPre DPre s last c) := by
  cases c with
  | prim c => unfold CmdPreG; infer_instance
  | inv =>
    unfold CmdPreG
    cases last with
    | none => exact isTrue (fun r hr => by cases hr)
    | some r0 =>
      by_cases h : Pre s (invCmd r0)
      · exact isTrue (fun r hr => by cases hr; exact h)
      · exact isFalse (fun hh => h (hh r0 rfl))
  | enable ks rc => unfold CmdPreG; infer_instance
  | disable ks => unfold CmdPreG; infer_instance

instance instDecAdmG [∀ s c, Decidable (Pre s c)] [∀ s ks rc, Decidable (EPre s ks rc)]
    [∀ s ks, Decidable (DPre s ks)] : ∀ (cs : List Cmd) (fresh : Bool) (p : Cfg),
    Decidable (AdmG Pre EPre DPre fresh p cs)
  | [], _, _ => isTrue trivial
  | c :: cs, fresh, p =>
    have := instDecAdmG cs (accepted p c || fresh) (exec p c)
    by unfold AdmG; exact inferInstance

variable {Pre EPre DPre} {J : St → Prop}

theorem Closed.step (C : Closed J Pre EPre DPre) {fresh : Bool} {p : Cfg} {c : Cmd}
    (hJ : J p.1) (hF : fresh = true → ∀ r, p.2 = some r → Pre p.1 (invCmd r))
    (hc : CmdPreG Pre EPre DPre p.1 p.2 c ∨ (fresh = true ∧ c = .inv)) :
    J (exec p c).1 ∧
      ((accepted p c || fresh) = true → ∀ r, (exec p c).2 = some r → Pre (exec p c).1 (invCmd r)) := by
  cases hacc : accepted p c with
  | false =>
    rw [exec_of_not_accepted hacc]
    exact ⟨hJ, fun hf => hF (by simpa using hf)⟩
  | true =>
    cases c with
    | prim c =>
      have hpre : Pre p.1 c := by
        rcases hc with hc | ⟨_, hc⟩
        · exact hc
        · cases hc
      simp only [accepted] at hacc
      simp only [exec]
      split
      · rename_i s' r hr
        obtain ⟨h1, h2⟩ := C.prim hJ hpre hr
        exact ⟨h1, fun _ r' hr' => by cases hr'; exact h2⟩
      · rename_i e he; rw [he] at hacc; cases hacc
    | inv =>
      simp only [accepted] at hacc
      simp only [exec]
      split
      · rename_i h0; rw [h0] at hacc; cases hacc
      · rename_i r0 h0
        have hpre : Pre p.1 (invCmd r0) := by
          rcases hc with hc | ⟨hf, _⟩
          · exact hc r0 h0
          · exact hF hf r0 h0
        split
        · rename_i s' r hr
          rw [invPrim_eq] at hr
          obtain ⟨h1, h2⟩ := C.prim hJ hpre hr
          exact ⟨h1, fun _ r' hr' => by cases hr'; exact h2⟩
        · rename_i e he; simp only [h0, he] at hacc; cases hacc
    | enable ks rc =>
      have hpre : EPre p.1 ks rc := by
        rcases hc with hc | ⟨_, hc⟩
        · exact hc
        · cases hc
      simp only [exec]
      split
      · rename_i s' hs
        exact ⟨C.enable hJ hpre hs, fun _ r hr => by cases hr⟩
      · rename_i hs; simp only [accepted, hs] at hacc; cases hacc
    | disable ks =>
      have hpre : DPre p.1 ks := by
        rcases hc with hc | ⟨_, hc⟩
        · exact hc
        · cases hc
      simp only [exec]
      split
      · rename_i s' hs
        exact ⟨C.disable hJ hpre hs, fun _ r hr => by cases hr⟩
      · rename_i hs; simp only [accepted, hs] at hacc; cases hacc

/-- **`J` at every reached state** (stated for the final state of an arbitrary admissible list;
    prefixes of admissible lists are admissible, `AdmG.prefix`) -/
theorem Closed.reach (C : Closed J Pre EPre DPre) : ∀ (cs : List Cmd) (fresh : Bool) (p : Cfg),
    J p.1 → (fresh = true → ∀ r, p.2 = some r → Pre p.1 (invCmd r)) →
    AdmG Pre EPre DPre fresh p cs → J (runs p cs).1
  | [], _, _, hJ, _, _ => hJ
  | c :: cs, fresh, p, hJ, hF, hA => by
    obtain ⟨h1, h2⟩ := C.step hJ hF hA.1
    exact Closed.reach C cs _ _ h1 h2 hA.2

theorem AdmG.prefix : ∀ (cs cs' : List Cmd) (fresh : Bool) (p : Cfg),
    AdmG Pre EPre DPre fresh p (cs ++ cs') → AdmG Pre EPre DPre fresh p cs
  | [], _, _, _, _ => trivial
  | _ :: cs, cs', _, _, h => ⟨h.1, AdmG.prefix cs cs' _ _ h.2⟩

/-- `fresh = false` is the weakest start: every `inv` needs its precondition until a command is
    accepted -/
theorem AdmG.of_fresh_false : ∀ (cs : List Cmd) (fresh : Bool) (p : Cfg),
    AdmG Pre EPre DPre false p cs → AdmG Pre EPre DPre fresh p cs
  | [], _, _, _ => trivial
  | c :: cs, fresh, p, h => by
    refine ⟨?_, ?_⟩
    · rcases h.1 with h1 | ⟨h1, _⟩
      · exact Or.inl h1
      · cases h1
    · have := h.2
      cases hacc : accepted p c with
      | true => simpa [hacc] using this
      | false =>
        simp only [hacc, Bool.false_or] at this ⊢
        exact AdmG.of_fresh_false cs fresh _ this

end generic

end Ft.R6P
