/-
  FtProofs.R2DLemmas — package R2D: the joint invariant `Valid` through `UserAddNode`.

  Structure of the argument (stage decomposition `uAddNode_eq` of ForestLemmas):
    s --trackNeighbors--> sN --addNodePre (0, 1 or 2 forced `uDeleteEdge`)--> s0 --addNodeTail--> s'
  * `valid_trackNeighbors`, `valid_uDeleteEdge`: `Valid` is kept up to `s0`;
  * `pre_ok`: what the neighbour query + division checks establish at `s0` (`PreOK`);
  * `core_*`: ids / edge list / track ids / lineage ids / lookups after each primitive of the tail;
  * `tid_insert`, `lin_insert`: the graph-level insertion lemmas (all four plain paths at once);
  * `tail_valid`, `uAddNode_valid`: assembly.
-/
import FtProofs.ForestLemmas
import FtProofs.BookLemmas
import FtProofs.TrackLemmas

namespace Ft.R2D
open Ft Ft.St

/-! ### `Valid` through `uDeleteEdge` and the neighbour query -/

theorem valid_tidInv {s : St} (h : Valid s) : s.tk_TidInv := ⟨h.forest, h.tid, h.book.t_max⟩

theorem valid_linInv {s : St} (h : Valid s) : s.tk_LinInv :=
  ⟨h.forest, h.lin, h.linOn, h.book.l_max h.linOn⟩

theorem valid_uDeleteEdge {s : St} (hV : Valid s) {e : Edge} {recs : List PrimRec}
    (hok : (s.uDeleteEdge e).2 = .ok recs) : Valid (s.uDeleteEdge e).1 := by
  have h1 := (tk_uDeleteEdge_tidInv (valid_tidInv hV) hok).1
  have h2 := (tk_uDeleteEdge_linInv (valid_linInv hV) hok).1
  obtain ⟨hT, hL⟩ := (PC.bookOK_iff s).1 hV.book
  obtain ⟨b1, b2, _⟩ := PC.uDeleteEdge_book e ⟨hV.forest, hT, hL, hV.lin.along⟩ hok
  exact ⟨h1.forest, h1.tidOK, h2.linOK, (PC.bookOK_iff _).2 ⟨b1, b2⟩, h2.on⟩

/-- replacing the track lookup does not touch the graph-side invariants -/
theorem forest_t2n {s : St} (m : List (Nat × List Node)) (h : Forest s) : Forest { s with t2n := m } :=
  ⟨h.1, h.2, h.3, h.4, h.5, h.6, h.7⟩
theorem tidOK_t2n {s : St} (m : List (Nat × List Node)) (h : TidOK s) : TidOK { s with t2n := m } :=
  ⟨h.1, h.2⟩
theorem linOK_t2n {s : St} (m : List (Nat × List Node)) (h : LinOK s) : LinOK { s with t2n := m } :=
  ⟨h.1, h.2, h.3⟩

theorem valid_trackNeighbors {s : St} (hV : Valid s) (tid time : Nat) :
    Valid (s.trackNeighbors tid time).1 := by
  obtain ⟨hT, hL⟩ := (PC.bookOK_iff s).1 hV.book
  obtain ⟨e1, e2, e3⟩ := PC.trackNeighbors_state s tid time
  have hb : BookOK (s.trackNeighbors tid time).1 := by
    rw [PC.bookOK_iff]
    constructor
    · refine ⟨e2 hT.wf, ?_, ?_⟩
      · intro id n
        rw [e3 id n, e1]
        exact hT.iff id n
      · intro n t; rw [e1]; exact hT.max n t
    · rw [e1]; exact ⟨hL.wf, hL.iff, hL.max⟩
  refine ⟨?_, ?_, ?_, hb, ?_⟩
  · rw [e1]; exact forest_t2n _ hV.forest
  · rw [e1]; exact tidOK_t2n _ hV.tid
  · rw [e1]; exact linOK_t2n _ hV.lin
  · rw [e1]; exact hV.linOn

/-! ### a sharper track-id frame for `uDeleteEdge` -/

theorem length_filter_ne_nodup {α} [BEq α] [LawfulBEq α] {l : List α} {a : α} (hn : l.Nodup) (h : a ∈ l) :
    (l.filter (· != a)).length + 1 = l.length := by
  induction l with
  | nil => cases h
  | cons x r ih =>
    rw [List.nodup_cons] at hn
    by_cases hx : x = a
    · subst hx
      have h1 : (x :: r).filter (· != x) = r.filter (· != x) := by simp
      have h2 : r.filter (· != x) = r := by
        rw [List.filter_eq_self]; intro y hy; simp; intro e; exact hn.1 (e ▸ hy)
      rw [h1, h2]; rfl
    · have hr : a ∈ r := by
        rcases List.mem_cons.mp h with h | h
        · exact absurd h.symm hx
        · exact h
      have h1 : (x :: r).filter (· != a) = x :: r.filter (· != a) := by simp [hx]
      rw [h1]; simp only [List.length_cons]; rw [ih hn.2 hr]

theorem outdeg_delE_src {s : St} (hF : Forest s) {u v : Node} (he : (u, v) ∈ s.edgeList) :
    (s.tk_delE (u, v)).outdeg u + 1 = s.outdeg u := by
  rw [tk_outdeg_eq, tk_outdeg_eq, tk_delE_edgeList]
  have : (s.edgeList.filter (· != (u, v))).filter (·.1 == u) =
      (s.edgeList.filter (·.1 == u)).filter (· != (u, v)) := by
    rw [List.filter_filter, List.filter_filter]
    apply List.filter_congr; intro x _; exact Bool.and_comm _ _
  rw [this]
  have hm : (u, v) ∈ s.edgeList.filter (·.1 == u) := List.mem_filter.mpr ⟨he, beq_self_eq_true u⟩
  exact length_filter_ne_nodup (hF.nodup_edges.sublist List.filter_sublist) hm

/-- an accepted `uDeleteEdge (u,v)` never relabels `u`; when `u` was dividing it does not relabel
    `v` either (the sibling joins the track of `u`, `v` keeps its own id) -/
theorem uDeleteEdge_tid_frame {s : St} (hI : s.tk_TidInv) {u v : Node} {recs : List PrimRec}
    (hok : (s.uDeleteEdge (u, v)).2 = .ok recs) :
    (s.uDeleteEdge (u, v)).1.tidOf u = s.tidOf u ∧
    (s.outdeg u = 2 → (s.uDeleteEdge (u, v)).1.tidOf v = s.tidOf v) := by
  have hmem : (u, v) ∈ s.edgeList := tk_hasEdge_iff.1 (tk_uDeleteEdge_hasEdge hok)
  have hF := hI.forest
  have hF1 : (s.tk_delE (u, v)).Forest := hF.tk_delE _
  have hlt := hF.tm_lt hmem
  have hod := outdeg_delE_src hF hmem
  have hroot : ∀ p, (p, v) ∉ (s.tk_delE (u, v)).edgeList := by
    intro p hp
    rcases tk_mem_delE.1 hp with ⟨hp1, hp2⟩
    have := hF.par_unique hp1 hmem
    subst this; exact hp2 rfl
  rcases tk_uDeleteEdge_shape hok with ⟨r, ho, hr, hs'⟩ |
      ⟨sib, t, rs, t2, r2, ho, hh, htu, hrs, ht2, hr2, hs'⟩
  · simp only at ho hr hs'
    have hvu : ¬ s.Anc v u := by intro h; have := h.tm_le hF; omega
    have hv : v ∈ s.ids := hF.dst_mem _ hmem
    have hch := tk_chainHyp_delE (v := v) hF hI.tidOK hv hvu (tk_tidOf_of_findNode hr)
    have hw := tk_walk_tid hF1 hv r.tid (s.tk_delE (u, v)).nextTid r.lin
      (some (s.tk_delE (u, v)).nextLin) (tk_tidOf_of_findNode hr) hch
    refine ⟨?_, fun h2 => by omega⟩
    rw [hs']
    refine (hw.2 u ?_).trans (tk_delE_tidOf s _ u)
    intro hseg
    exact hvu (Anc.mono (fun y hy => (tk_mem_delE.1 hy).1) hseg.anc)
  · simp only at ho hh htu hrs ht2 hr2 hs'
    have hsib1 : (u, sib) ∈ (s.tk_delE (u, v)).edgeList := tk_mem_succs.1 (List.mem_of_head? hh)
    have hsibE : (u, sib) ∈ s.edgeList := (tk_mem_delE.1 hsib1).1
    have hsv : sib ≠ v := by intro heq; subst heq; exact (tk_mem_delE.1 hsib1).2 rfl
    have hsu : ¬ s.Anc sib u := by
      intro h; have := h.tm_le hF; have := hF.tm_lt hsibE; omega
    have hsi : sib ∈ s.ids := hF.dst_mem _ hsibE
    have hch := tk_chainHyp_delE (v := v) hF hI.tidOK hsi hsu (tk_tidOf_of_findNode hrs)
    have hw := tk_walk_tid hF1 hsi rs.tid t rs.lin none (tk_tidOf_of_findNode hrs) hch
    have ht2' : t2 = r2.tid := by
      have := tk_tidOf_of_findNode hr2
      rw [ht2] at this; cases this; rfl
    subst ht2'
    have hsame := tk_walk_tid_same ((s.tk_delE (u, v)).walk sib rs.tid t rs.lin none) v r2.tid r2.lin
      (some ((s.tk_delE (u, v)).walk sib rs.tid t rs.lin none).nextLin)
    have hout : ∀ n, ¬ (s.tk_delE (u, v)).tk_SegDown sib n →
        (s.uDeleteEdge (u, v)).1.tidOf n = s.tidOf n := by
      intro n hn; rw [hs', hsame]; exact hw.2 n hn
    refine ⟨hout u ?_, fun _ => hout v ?_⟩
    · intro hseg
      exact hsu (Anc.mono (fun y hy => (tk_mem_delE.1 hy).1) hseg.anc)
    · intro hseg
      rcases hseg.anc.tail with h1 | ⟨p, _, hp⟩
      · exact hsv h1
      · exact hroot p hp

/-! ### what the neighbour query returns, on the re-sorted state -/

structure NbrFacts (s : St) (pred succ : Option Node) (tid time : Nat) : Prop where
  p_ok : ∀ p, pred = some p → p ∈ s.ids ∧ s.tidOf p = some tid ∧ tm s p < time ∧
      ∀ y, s.tidOf y = some tid → tm s y < time → tm s y ≤ tm s p
  p_none : pred = none → ∀ y, s.tidOf y = some tid → ¬ tm s y < time
  s_ok : ∀ sc, succ = some sc → sc ∈ s.ids ∧ s.tidOf sc = some tid ∧ time < tm s sc ∧
      ∀ y, s.tidOf y = some tid → time < tm s y → tm s sc ≤ tm s y
  s_none : succ = none → ∀ y, s.tidOf y = some tid → ¬ time < tm s y
  not_at : ∀ y, s.tidOf y = some tid → tm s y ≠ time

theorem nbrFacts {s : St} (hV : Valid s) (tid0 time : Nat) :
    NbrFacts (s.trackNeighbors (addTid s tid0 time) time).1
      (s.trackNeighbors (addTid s tid0 time) time).2.1
      (s.trackNeighbors (addTid s tid0 time) time).2.2 (addTid s tid0 time) time := by
  obtain ⟨hT, hL⟩ := (PC.bookOK_iff s).1 hV.book
  have hnot : ∀ y, s.tidOf y = some (addTid s tid0 time) → tm s y ≠ time := by
    intro y hy heq
    have hym := PC.tidOf_some_mem hy
    unfold addTid at hy
    by_cases hh : s.hasTrackAt tid0 time = true
    · rw [if_pos hh] at hy
      have := hT.max y _ hy; unfold nextTid at this; omega
    · rw [if_neg hh] at hy
      exact hh ((PC.hasTrackAt_spec s hT tid0 time).2 ⟨y, hym, hy, by rw [timeOf_of_mem hym, heq]⟩)
  obtain ⟨a, b, c, d⟩ := PC.trackNeighbors_spec s hT (addTid s tid0 time) time
  obtain ⟨e1, _, _⟩ := PC.trackNeighbors_state s (addTid s tid0 time) time
  generalize s.trackNeighbors (addTid s tid0 time) time = r at a b c d e1
  have hid : r.1.ids = s.ids := by rw [e1]; rfl
  have htid : ∀ n, r.1.tidOf n = s.tidOf n := by intro n; rw [e1]; rfl
  have htm : ∀ n, tm r.1 n = tm s n := by intro n; rw [e1]; rfl
  refine ⟨?_, ?_, ?_, ?_, ?_⟩
  · intro p hp
    obtain ⟨⟨h1, h2⟩, h3, h4⟩ := a p hp
    have h3' : tm s p < time := h3
    refine ⟨by rw [hid]; exact h1, by rw [htid]; exact h2, by rw [htm]; exact h3', ?_⟩
    intro y hy hlt
    rw [htid] at hy; rw [htm] at hlt; rw [htm, htm]
    exact h4 y (PC.tidOf_some_mem hy) hy hlt
  · intro hp y hy hlt
    rw [htid] at hy; rw [htm] at hlt
    exact b hp y (PC.tidOf_some_mem hy) hy hlt
  · intro sc hsc
    obtain ⟨⟨h1, h2⟩, h3, h4⟩ := c sc hsc
    have h3' : time < tm s sc := h3
    refine ⟨by rw [hid]; exact h1, by rw [htid]; exact h2, by rw [htm]; exact h3', ?_⟩
    intro y hy hlt
    rw [htid] at hy; rw [htm] at hlt; rw [htm, htm]
    exact h4 y (PC.tidOf_some_mem hy) hy hlt
  · intro hsc y hy hlt
    rw [htid] at hy; rw [htm] at hlt
    exact d hsc y (PC.tidOf_some_mem hy) hy hlt
  · intro y hy
    rw [htid] at hy; rw [htm]
    exact hnot y hy

theorem exists_child_of_outdeg {s : St} {p : Node} (h : 1 ≤ s.outdeg p) : ∃ c, (p, c) ∈ s.edgeList := by
  unfold outdeg at h
  rcases hs : s.succs p with _ | ⟨c, r⟩
  · rw [hs] at h; simp at h
  · exact ⟨c, tk_mem_succs.1 (by rw [hs]; exact List.mem_cons_self)⟩

/-- a predecessor without successor is the last node of its track: it has no child, unless it
    divides -/
theorem nbr_pred_last {s : St} (hV : Valid s) {pred succ : Option Node} {tid time : Nat}
    (hN : NbrFacts s pred succ tid time) {p : Node} (hp : pred = some p) (hs : succ = none) :
    s.outdeg p ≠ 1 := by
  intro ho
  obtain ⟨c, hc⟩ := exists_child_of_outdeg (Nat.le_of_eq ho.symm)
  obtain ⟨_, ptid, plt, pmax⟩ := hN.p_ok p hp
  have htc : s.tidOf c = some tid := by rw [hV.tid.along (p, c) hc ho]; exact ptid
  have hlt : tm s p < tm s c := hV.forest.tm_lt hc
  have h1 := hN.s_none hs c htc
  have h2 := hN.not_at c htc
  have h3 := pmax c htc (by omega)
  omega

/-- a successor without predecessor is the first node of its track: a root or a division child -/
theorem nbr_succ_first {s : St} (hV : Valid s) {pred succ : Option Node} {tid time : Nat}
    (hN : NbrFacts s pred succ tid time) {sc : Node} (hp : pred = none) (hs : succ = some sc)
    {pos : Node} (hpos : (pos, sc) ∈ s.edgeList) : s.outdeg pos = 2 := by
  apply Classical.byContradiction
  intro hne
  have ho1 : s.outdeg pos = 1 := by
    have := hV.forest.outdeg_le pos; have := tk_outdeg_pos hpos; omega
  obtain ⟨_, stid, slt, smin⟩ := hN.s_ok sc hs
  have htp : s.tidOf pos = some tid := by rw [← hV.tid.along (pos, sc) hpos ho1]; exact stid
  have hlt : tm s pos < tm s sc := hV.forest.tm_lt hpos
  have h1 := hN.p_none hp pos htp
  have h2 := hN.not_at pos htp
  have h3 := smin pos htp (by omega)
  omega

/-! ### the division checks (`addNodePre`) -/

/-- what the tail of `UserAddNode` relies on at the state `s0` reached after the division checks -/
structure PreOK (s0 : St) (pred succ : Option Node) (tid time : Nat) : Prop where
  valid : Valid s0
  p_mem : ∀ p, pred = some p → p ∈ s0.ids ∧ tm s0 p < time
  s_mem : ∀ sc, succ = some sc → sc ∈ s0.ids ∧ time < tm s0 sc
  app : ∀ p, pred = some p → succ = none → s0.tidOf p = some tid ∧ s0.outdeg p = 0
  pre : ∀ sc, pred = none → succ = some sc → s0.tidOf sc = some tid ∧ s0.indeg sc = 0
  new : pred = none → succ = none → ∀ n, s0.tidOf n ≠ some tid
  spl : ∀ p sc, pred = some p → succ = some sc → (p, sc) ∈ s0.edgeList →
      s0.outdeg p = 1 ∧ s0.tidOf p = some tid ∧ s0.tidOf sc = some tid

/-- the downstream-division check (it occurs twice in `addNodePre`) -/
def down (sN : St) (succ : Option Node) (force : Bool) : UOut :=
  match succ with
  | some sc =>
    match (sN.preds sc).head? with
    | some pos =>
      if sN.outdeg pos == 2 then
        if !force then (sN, .error .forceable)
        else thenUser (sN, .ok []) (fun st => st.uDeleteEdge (pos, sc))
      else (sN, .ok [])
    | none => (sN, .ok [])
  | none => (sN, .ok [])

theorem addNodePre_some (sN : St) (p : Node) (succ : Option Node) (force : Bool) :
    addNodePre sN (some p) succ force =
      if sN.outdeg p == 2 then
        if !force then (sN, .error .forceable)
        else match sN.succs p with
          | [c1, c2] => thenUser (thenUser (sN, .ok []) (fun st => st.uDeleteEdge (p, c1)))
                          (fun st => st.uDeleteEdge (p, c2))
          | _ => (sN, .error .other)
      else down sN succ force := rfl

theorem addNodePre_none (sN : St) (succ : Option Node) (force : Bool) :
    addNodePre sN none succ force = down sN succ force := rfl

theorem down_cases {sN : St} {succ : Option Node} {force : Bool} {r0 : List PrimRec}
    (h : (down sN succ force).2 = .ok r0) :
    ((down sN succ force).1 = sN ∧
      ∀ sc pos, succ = some sc → (sN.preds sc).head? = some pos → sN.outdeg pos ≠ 2) ∨
    (∃ sc pos r1, force = true ∧ succ = some sc ∧ (pos, sc) ∈ sN.edgeList ∧ sN.outdeg pos = 2 ∧
      (sN.uDeleteEdge (pos, sc)).2 = .ok r1 ∧ (down sN succ force).1 = (sN.uDeleteEdge (pos, sc)).1) := by
  unfold down at h ⊢
  rcases succ with _ | sc
  · exact Or.inl ⟨rfl, fun _ _ h => by cases h⟩
  · simp only [] at h ⊢
    rcases hp : (sN.preds sc).head? with _ | pos
    · exact Or.inl ⟨rfl, fun _ _ h1 h2 => by cases h1; rw [hp] at h2; cases h2⟩
    · rw [hp] at h
      simp only [] at h ⊢
      by_cases c : (sN.outdeg pos == 2) = true
      · rw [if_pos c] at h ⊢
        cases force
        · simp at h
        · simp only [Bool.not_true, Bool.false_eq_true, if_false] at h ⊢
          obtain ⟨_, r1, _, e1, e2, _⟩ := thenUser_ok h
          exact Or.inr ⟨sc, pos, r1, trivial, rfl, head?_preds_mem hp, by simpa using c, e1, e2⟩
      · rw [if_neg c]
        refine Or.inl ⟨rfl, fun _ _ h1 h2 => ?_⟩
        cases h1; rw [hp] at h2; cases h2
        simpa using c

theorem preOK_same {sN : St} (hV : Valid sN) {pred succ : Option Node} {tid time : Nat}
    (hN : NbrFacts sN pred succ tid time)
    (c1 : ∀ p, pred = some p → sN.outdeg p ≠ 2)
    (c2 : ∀ sc pos, succ = some sc → (sN.preds sc).head? = some pos → sN.outdeg pos ≠ 2) :
    PreOK sN pred succ tid time := by
  refine ⟨hV, ?_, ?_, ?_, ?_, ?_, ?_⟩
  · intro p hp; obtain ⟨h1, _, h3, _⟩ := hN.p_ok p hp; exact ⟨h1, h3⟩
  · intro sc hs; obtain ⟨h1, _, h3, _⟩ := hN.s_ok sc hs; exact ⟨h1, h3⟩
  · intro p hp hs
    refine ⟨(hN.p_ok p hp).2.1, ?_⟩
    have := nbr_pred_last hV hN hp hs
    have := c1 p hp
    have := hV.forest.outdeg_le p
    omega
  · intro sc hp hs
    refine ⟨(hN.s_ok sc hs).2.1, ?_⟩
    rcases hh : (sN.preds sc).head? with _ | pos
    · exact head?_none_indeg hh
    · exact absurd (nbr_succ_first hV hN hp hs (head?_preds_mem hh)) (c2 sc pos hs hh)
  · intro hp hs n hn
    have h1 := hN.p_none hp n hn
    have h2 := hN.s_none hs n hn
    have h3 := hN.not_at n hn
    omega
  · intro p sc hp hs hm
    refine ⟨?_, (hN.p_ok p hp).2.1, (hN.s_ok sc hs).2.1⟩
    have := c1 p hp
    have := hV.forest.outdeg_le p
    have := tk_outdeg_pos hm
    omega

theorem ids_of_nt {s t : St} (h : t.nt = s.nt) : t.ids = s.ids := by
  rw [ids_eq_nt, ids_eq_nt, h]

theorem preOK_down {sN : St} (hV : Valid sN) {pred succ : Option Node} {tid time : Nat}
    (hN : NbrFacts sN pred succ tid time) (c1 : ∀ p, pred = some p → sN.outdeg p ≠ 2)
    {sc pos : Node} {r1 : List PrimRec} (hs : succ = some sc) (hm : (pos, sc) ∈ sN.edgeList)
    (ho : sN.outdeg pos = 2) (hok : (sN.uDeleteEdge (pos, sc)).2 = .ok r1) :
    PreOK (sN.uDeleteEdge (pos, sc)).1 pred succ tid time := by
  have hnt := uDeleteEdge_nt sN (pos, sc)
  have hes : (sN.uDeleteEdge (pos, sc)).1.edgeList = sN.edgeList.filter (· != (pos, sc)) :=
    G_es' (uDeleteEdge_G' sN (pos, sc))
  have hids := ids_of_nt hnt
  refine ⟨valid_uDeleteEdge hV hok, ?_, ?_, ?_, ?_, ?_, ?_⟩
  · intro p hp; obtain ⟨h1, _, h3, _⟩ := hN.p_ok p hp
    exact ⟨by rw [hids]; exact h1, by rw [tm_congr hnt]; exact h3⟩
  · intro sc' hs'; obtain ⟨h1, _, h3, _⟩ := hN.s_ok sc' hs'
    exact ⟨by rw [hids]; exact h1, by rw [tm_congr hnt]; exact h3⟩
  · intro p _ hs'; rw [hs] at hs'; cases hs'
  · intro sc' _ hs'
    rw [hs] at hs'; cases hs'
    refine ⟨?_, ?_⟩
    · rw [(uDeleteEdge_tid_frame (valid_tidInv hV) hok).2 ho]; exact (hN.s_ok sc hs).2.1
    · rw [indeg_eq, hes]
      exact filter_ne_indeg_zero (by rw [← indeg_eq]; exact hV.forest.indeg_le sc) hm
  · intro _ hs'; rw [hs] at hs'; cases hs'
  · intro p sc' hp hs' hm'
    rw [hs] at hs'; cases hs'
    rw [hes, List.mem_filter] at hm'
    have hpp : p = pos := hV.forest.par_unique hm'.1 hm
    exact absurd (hpp ▸ ho) (c1 p hp)

theorem preOK_up {sN : St} (hV : Valid sN) {succ : Option Node} {tid time : Nat} {p c1 c2 : Node}
    (hN : NbrFacts sN (some p) succ tid time) (hsucc : sN.succs p = [c1, c2])
    {r1 r2 : List PrimRec} (hok1 : (sN.uDeleteEdge (p, c1)).2 = .ok r1)
    (hok2 : ((sN.uDeleteEdge (p, c1)).1.uDeleteEdge (p, c2)).2 = .ok r2) :
    PreOK ((sN.uDeleteEdge (p, c1)).1.uDeleteEdge (p, c2)).1 (some p) succ tid time := by
  have hV1 := valid_uDeleteEdge hV hok1
  have hnt1 := uDeleteEdge_nt sN (p, c1)
  have hnt2 := uDeleteEdge_nt (sN.uDeleteEdge (p, c1)).1 (p, c2)
  have hnt := hnt2.trans hnt1
  have hes1 : (sN.uDeleteEdge (p, c1)).1.edgeList = sN.edgeList.filter (· != (p, c1)) :=
    G_es' (uDeleteEdge_G' sN (p, c1))
  have hes2 : ((sN.uDeleteEdge (p, c1)).1.uDeleteEdge (p, c2)).1.edgeList =
      (sN.uDeleteEdge (p, c1)).1.edgeList.filter (· != (p, c2)) :=
    G_es' (uDeleteEdge_G' _ (p, c2))
  have hids := ids_of_nt hnt
  have hout0 : ((sN.uDeleteEdge (p, c1)).1.uDeleteEdge (p, c2)).1.outdeg p = 0 := by
    rw [outdeg_eq, hes2, hes1, List.length_eq_zero_iff, List.filter_eq_nil_iff]
    intro x hx hx2
    rw [List.mem_filter, List.mem_filter] at hx
    have x1 : x.1 = p := by simpa using hx2
    have : x.2 ∈ sN.succs p := by
      rw [succs_eq]; exact List.mem_map.mpr ⟨x, List.mem_filter.mpr ⟨hx.1.1, hx2⟩, rfl⟩
    rw [hsucc] at this
    have hx' : x = (p, x.2) := by rw [← x1]
    simp at this
    rcases this with h' | h'
    · have := hx.1.2; rw [hx', h'] at this; simp at this
    · have := hx.2; rw [hx', h'] at this; simp at this
  refine ⟨valid_uDeleteEdge hV1 hok2, ?_, ?_, ?_, ?_, ?_, ?_⟩
  · intro p' hp; obtain ⟨h1, _, h3, _⟩ := hN.p_ok p' hp
    exact ⟨by rw [hids]; exact h1, by rw [tm_congr hnt]; exact h3⟩
  · intro sc' hs'; obtain ⟨h1, _, h3, _⟩ := hN.s_ok sc' hs'
    exact ⟨by rw [hids]; exact h1, by rw [tm_congr hnt]; exact h3⟩
  · intro p' hp _
    cases hp
    refine ⟨?_, hout0⟩
    rw [(uDeleteEdge_tid_frame (valid_tidInv hV1) hok2).1,
      (uDeleteEdge_tid_frame (valid_tidInv hV) hok1).1]
    exact (hN.p_ok p rfl).2.1
  · intro _ hp; cases hp
  · intro hp; cases hp
  · intro p' sc hp _ hm
    cases hp
    have := tk_outdeg_pos hm
    omega

/-- **the division checks**: an accepted pre-phase establishes `PreOK` and keeps ids and times -/
theorem pre_ok {sN : St} (hV : Valid sN) {pred succ : Option Node} {tid time : Nat} {force : Bool}
    {r0 : List PrimRec} (hN : NbrFacts sN pred succ tid time)
    (h : (addNodePre sN pred succ force).2 = .ok r0) :
    PreOK (addNodePre sN pred succ force).1 pred succ tid time ∧
    (addNodePre sN pred succ force).1.nt = sN.nt := by
  have hdown : ∀ r0, (down sN succ force).2 = .ok r0 → (∀ p, pred = some p → sN.outdeg p ≠ 2) →
      PreOK (down sN succ force).1 pred succ tid time ∧ (down sN succ force).1.nt = sN.nt := by
    intro r0 h c1
    rcases down_cases h with ⟨e, c2⟩ | ⟨sc, pos, r1, _, hs, hm, ho, hok, e⟩
    · rw [e]; exact ⟨preOK_same hV hN c1 c2, rfl⟩
    · rw [e]; exact ⟨preOK_down hV hN c1 hs hm ho hok, uDeleteEdge_nt _ _⟩
  rcases pred with _ | p
  · rw [addNodePre_none] at h ⊢
    exact hdown r0 h (fun _ hp => by cases hp)
  · rw [addNodePre_some] at h ⊢
    by_cases c : (sN.outdeg p == 2) = true
    · rw [if_pos c] at h ⊢
      cases force
      · simp at h
      · simp only [Bool.not_true, Bool.false_eq_true, if_false] at h ⊢
        rcases hsucc : sN.succs p with _ | ⟨c1, _ | ⟨c2, _ | ⟨c3, r⟩⟩⟩
        · rw [hsucc] at h; simp at h
        · rw [hsucc] at h; simp at h
        · rw [hsucc] at h
          simp only [] at h ⊢
          obtain ⟨_, r2, hb, hok2, e2, _⟩ := thenUser_ok h
          obtain ⟨_, r1, _, hok1, e1, _⟩ := thenUser_ok hb
          simp only [] at hok1 e1
          rw [e1] at hok2 e2
          rw [e2]
          exact ⟨preOK_up hV hN hsucc hok1 hok2, (uDeleteEdge_nt _ _).trans (uDeleteEdge_nt _ _)⟩
        · rw [hsucc] at h; simp at h
    · rw [if_neg c] at h ⊢
      refine hdown r0 h (fun p' hp => ?_)
      cases hp
      simpa using c

/-! ### the primitives of the tail: what they do to ids, edges, track / lineage ids, lookups -/

theorem trackOnAdd_proj (s : St) (r : NodeRec) :
    (s.trackOnAdd r).nodes = s.nodes ∧ (s.trackOnAdd r).edges = s.edges ∧
    (s.trackOnAdd r).linOn = s.linOn := by
  unfold trackOnAdd
  split <;> exact ⟨rfl, rfl, rfl⟩

/-- how a state `t` sees the nodes of `s1` plus the fresh node -/
structure NodeView (s1 t : St) (node : Node) (tid : Nat) (lin : Option Nat) : Prop where
  ids : ∀ m, m ∈ t.ids ↔ m ∈ s1.ids ∨ m = node
  tid_old : ∀ m, m ≠ node → t.tidOf m = s1.tidOf m
  lin_old : ∀ m, m ≠ node → t.linOf m = s1.linOf m
  tid_new : t.tidOf node = some tid
  lin_new : t.linOf node = lin
  tok : PC.TOK t
  lok : PC.LOK t
  linOn : t.linOn = s1.linOn

theorem NodeView.bv {s1 t t' : St} {node : Node} {tid : Nat} {lin : Option Nat}
    (h : NodeView s1 t node tid lin) (hb : PC.BV t t') : NodeView s1 t' node tid lin :=
  ⟨fun m => by rw [hb.ids]; exact h.ids m, fun m hm => by rw [hb.tidOf]; exact h.tid_old m hm,
   fun m hm => by rw [hb.linOf]; exact h.lin_old m hm, by rw [hb.tidOf]; exact h.tid_new,
   by rw [hb.linOf]; exact h.lin_new, hb.TOK h.tok, hb.LOK h.lok, hb.linOn.trans h.linOn⟩

theorem NodeView.base {s0 s1 t : St} {node : Node} {tid : Nat} {lin : Option Nat}
    (h : NodeView s1 t node tid lin) (hb : PC.BV s0 s1) : NodeView s0 t node tid lin :=
  ⟨fun m => by rw [← hb.ids]; exact h.ids m, fun m hm => by rw [← hb.tidOf]; exact h.tid_old m hm,
   fun m hm => by rw [← hb.linOf]; exact h.lin_old m hm, h.tid_new, h.lin_new, h.tok, h.lok,
   h.linOn.trans hb.linOn⟩

theorem pAddNode_view {s s' : St} {r : NodeRec} {px : Option (List Pix)} {rec_ : PrimRec}
    (hT : PC.TOK s) (hL : PC.LOK s) (hn : r.id ∉ s.ids) (h : s.pAddNode r px = .ok (s', rec_)) :
    NodeView s s' r.id r.tid r.lin := by
  obtain ⟨hT', hL'⟩ := PC.pAddNode_book hT hL hn h
  have hG := pAddNode_G hn h
  rw [PC.pAddNode_unfold] at h
  split at h
  · cases h
  · split at h
    · cases h
    · simp only [Except.ok.injEq, Prod.mk.injEq] at h
      have hs' := h.1.symm
      have hbv := PC.BV_paintNew s r.id px
      generalize PC.paintNew s r.id px = s1 at hbv hs'
      have hn1 : s1.hasNode r.id = false := by
        cases hh : s1.hasNode r.id with
        | false => rfl
        | true => rw [PC.hasNode_iff, hbv.ids] at hh; exact absurd hh hn
      unfold PC.addNodeTail at hs'
      simp only [hn1, Bool.false_eq_true, if_false] at hs'
      have hfind2 : ∀ m, ({ s1 with nodes := s1.nodes ++ [r] } : St).findNode m =
          if m = r.id then some r else s1.findNode m := by
        intro m
        show (s1.nodes ++ [r]).find? (·.id == m) = _
        rw [List.find?_append]
        by_cases e : m = r.id
        · subst e
          have : s1.nodes.find? (·.id == r.id) = none := by
            have := hn1; unfold St.hasNode St.findNode at this
            simpa using this
          simp [this]
        · have : (r.id == m) = false := by simp; exact fun h => e h.symm
          simp [e, this, St.findNode]
      have hbv3 := PC.BV_rpUpdate ({ s1 with nodes := s1.nodes ++ [r] } : St) r.id
      generalize ({ s1 with nodes := s1.nodes ++ [r] } : St).rpUpdate r.id = s3 at hbv3 hs'
      have hnodes : s'.nodes = s3.nodes ∧ s'.linOn = s3.linOn := by
        rw [hs']
        split
        · exact ⟨(trackOnAdd_proj _ _).1, (trackOnAdd_proj _ _).2.2⟩
        · exact ⟨rfl, rfl⟩
      have htid : ∀ m, s'.tidOf m = (if m = r.id then some r.tid else s.tidOf m) := by
        intro m
        rw [PC.tidOf_of_nodes hnodes.1, hbv3.tidOf]
        unfold St.tidOf; rw [hfind2]
        split
        · rfl
        · exact hbv.tidOf m
      have hlin : ∀ m, s'.linOf m = (if m = r.id then r.lin else s.linOf m) := by
        intro m
        rw [PC.linOf_of_nodes hnodes.1, hbv3.linOf]
        unfold St.linOf; rw [hfind2]
        split
        · rfl
        · exact hbv.linOf m
      refine ⟨?_, ?_, ?_, ?_, ?_, hT', hL', ?_⟩
      · intro m
        rw [ids_eq_nt, G_nt' hG, ids_eq_nt]
        simp
      · intro m hm; rw [htid, if_neg hm]
      · intro m hm; rw [hlin, if_neg hm]
      · rw [htid, if_pos rfl]
      · rw [hlin, if_pos rfl]
      · rw [hnodes.2, hbv3.linOn]; exact hbv.linOn

theorem pAddEdge_step {s s' : St} {e : Edge} {r : PrimRec} (h : s.pAddEdge e [] = .ok (s', r))
    (hne : e ∉ s.edgeList) : PC.BV s s' ∧ s'.edgeList = s.edgeList ++ [e] := by
  refine ⟨PC.pAddEdge_BV h, ?_⟩
  have := (pAddEdge_G h).2.2
  rw [if_neg hne] at this
  exact G_es' this

/-- the edges added by the tail -/
def linkP (pred : Option Node) (node : Node) : List Edge :=
  match pred with | some p => [(p, node)] | none => []
def linkS (succ : Option Node) (node : Node) : List Edge :=
  match succ with | some sc => [(node, sc)] | none => []

/-- `AddNode` followed by the linking `AddEdge`s -/
theorem finish_eff {s1 s2 : St} {rec_ : NodeRec} {px : Option (List Pix)} {r : PrimRec}
    {recs recs' : List PrimRec} {pred succ : Option Node}
    (hF : Forest s1) (hT : PC.TOK s1) (hL : PC.LOK s1) (hn : rec_.id ∉ s1.ids)
    (hadd : s1.pAddNode rec_ px = .ok (s2, r))
    (hp : ∀ p, pred = some p → p ∈ s1.ids)
    (hok : (addNodeFinish s2 recs pred succ rec_.id).2 = .ok recs') :
    NodeView s1 (addNodeFinish s2 recs pred succ rec_.id).1 rec_.id rec_.tid rec_.lin ∧
    (addNodeFinish s2 recs pred succ rec_.id).1.edgeList =
      s1.edgeList ++ linkP pred rec_.id ++ linkS succ rec_.id := by
  have hv2 := pAddNode_view hT hL hn hadd
  have hes2 : s2.edgeList = s1.edgeList := G_es' (pAddNode_G hn hadd)
  have hfresh : ∀ x, x ∈ s1.edgeList → x.1 ≠ rec_.id ∧ x.2 ≠ rec_.id := by
    intro x hx
    exact ⟨fun h => hn (h ▸ hF.src_mem x hx), fun h => hn (h ▸ hF.dst_mem x hx)⟩
  unfold addNodeFinish at hok ⊢
  simp only [] at hok ⊢
  rcases pred with _ | p
  · rcases succ with _ | sc
    · exact ⟨hv2, by simp [linkP, linkS, hes2]⟩
    · simp only [] at hok ⊢
      obtain ⟨_, s', _, _, h1, h2, _⟩ := thenPrim_ok hok
      rw [h2]
      obtain ⟨b1, b2⟩ := pAddEdge_step h1 (by
        rw [hes2]; intro hx; exact (hfresh _ hx).1 rfl)
      exact ⟨hv2.bv b1, by rw [b2, hes2]; simp [linkP, linkS]⟩
  · have pne : p ≠ rec_.id := fun h => hn (h ▸ hp p rfl)
    rcases succ with _ | sc
    · simp only [] at hok ⊢
      obtain ⟨_, s', _, _, h1, h2, _⟩ := thenPrim_ok hok
      rw [h2]
      obtain ⟨b1, b2⟩ := pAddEdge_step h1 (by
        rw [hes2]; intro hx; exact (hfresh _ hx).2 rfl)
      exact ⟨hv2.bv b1, by rw [b2, hes2]; simp [linkP, linkS]⟩
    · simp only [] at hok ⊢
      obtain ⟨_, s4, _, h0, h1, h2, _⟩ := thenPrim_ok hok
      obtain ⟨_, s3, _, _, h3, h4, _⟩ := thenPrim_ok h0
      rw [h2]
      rw [h4] at h1
      obtain ⟨b1, b2⟩ := pAddEdge_step h3 (by
        rw [hes2]; intro hx; exact (hfresh _ hx).2 rfl)
      obtain ⟨b3, b4⟩ := pAddEdge_step h1 (by
        rw [b2, hes2]; intro hx
        rcases List.mem_append.1 hx with hx | hx
        · exact (hfresh _ hx).1 rfl
        · simp at hx; exact pne hx.1.symm)
      exact ⟨(hv2.bv b1).bv b3, by rw [b4, b2, hes2]; simp [linkP, linkS]⟩

/-! ### graph-level insertion: `TidOK` and `LinOK` for all four plain paths at once -/

/-- the new graph, described by membership and out-degrees -/
structure Ins (s0 s' : St) (node : Node) (pred succ : Option Node) (tid : Nat) (lin : Option Nat) :
    Prop where
  view : NodeView s0 s' node tid lin
  spl_mem : ∀ p sc, pred = some p → succ = some sc → (p, sc) ∈ s0.edgeList
  mem : ∀ x, x ∈ s'.edgeList ↔
    (x ∈ s0.edgeList ∧ ∀ p sc, pred = some p → succ = some sc → x ≠ (p, sc)) ∨
    (∃ p, pred = some p ∧ x = (p, node)) ∨ (∃ sc, succ = some sc ∧ x = (node, sc))
  out_other : ∀ u, u ≠ node → (∀ p, pred = some p → u ≠ p) → s'.outdeg u = s0.outdeg u
  out_p : ∀ p, pred = some p → s'.outdeg p = 1
  out_n : ∀ sc, succ = some sc → s'.outdeg node = 1

section insert
variable {s0 s' : St} {node : Node} {pred succ : Option Node} {tid time : Nat} {lin : Option Nat}

/-- the only old edge leaving the predecessor is the spliced one -/
theorem pred_old_edge (hP : PreOK s0 pred succ tid time) (hI : Ins s0 s' node pred succ tid lin)
    {p c : Node} (hp : pred = some p) (hc : (p, c) ∈ s0.edgeList) : succ = some c := by
  rcases succ with _ | sc
  · have := (hP.app p hp rfl).2; have := tk_outdeg_pos hc; omega
  · have hm := hI.spl_mem p sc hp rfl
    have ho := (hP.spl p sc hp rfl hm).1
    rw [tk_child_unique ho hc hm]

theorem tid_insert (hP : PreOK s0 pred succ tid time) (hn : node ∉ s0.ids)
    (hI : Ins s0 s' node pred succ tid lin) : TidOK s' := by
  have hF := hP.valid.forest
  have hT := hP.valid.tid
  have hv := hI.view
  have hptid : ∀ p, pred = some p → s'.tidOf p = some tid := by
    intro p hp
    have pne : p ≠ node := fun h => hn (h ▸ (hP.p_mem p hp).1)
    rw [hv.tid_old p pne]
    rcases hs : succ with _ | sc
    · exact (hP.app p hp hs).1
    · exact (hP.spl p sc hp hs (hI.spl_mem p sc hp hs)).2.1
  have hstid : ∀ sc, succ = some sc → s0.tidOf sc = some tid := by
    intro sc hs
    rcases hp : pred with _ | p
    · exact (hP.pre sc hp hs).1
    · exact (hP.spl p sc hp hs (hI.spl_mem p sc hp hs)).2.2
  have sne : ∀ sc, succ = some sc → sc ≠ node := fun sc hs h => hn (h ▸ (hP.s_mem sc hs).1)
  refine ⟨?_, ?_⟩
  · rintro ⟨a, b⟩ hx ho
    simp only at ho ⊢
    rcases (hI.mem (a, b)).1 hx with ⟨hx0, hne⟩ | ⟨p, hp, he⟩ | ⟨sc, hs, he⟩
    · have ane : a ≠ node := fun h => hn (h ▸ hF.src_mem _ hx0)
      have bne : b ≠ node := fun h => hn (h ▸ hF.dst_mem _ hx0)
      have anp : ∀ p, pred = some p → a ≠ p := by
        intro p hp hap
        subst hap
        have hs := pred_old_edge hP hI hp hx0
        exact hne a b hp hs rfl
      rw [hI.out_other a ane anp] at ho
      rw [hv.tid_old a ane, hv.tid_old b bne]
      exact hT.along (a, b) hx0 ho
    · cases he
      rw [hv.tid_new, hptid a hp]
    · cases he
      rw [hv.tid_new, hv.tid_old b (sne b hs), hstid b hs]
  · have key : ∀ a, s'.IsHead a → (a = node ∧ pred = none) ∨
        (a ≠ node ∧ s0.IsHead a ∧ ∀ sc, succ = some sc → a ≠ sc) := by
      intro a ha
      by_cases han : a = node
      · subst han
        refine Or.inl ⟨rfl, ?_⟩
        rcases hp : pred with _ | p
        · rfl
        · have := ha.2 p ((hI.mem _).2 (Or.inr (Or.inl ⟨p, hp, rfl⟩)))
          have := hI.out_p p hp
          omega
      · have hasc : ∀ sc, succ = some sc → a ≠ sc := by
          intro sc hs hasc
          subst hasc
          have := ha.2 node ((hI.mem _).2 (Or.inr (Or.inr ⟨a, hs, rfl⟩)))
          have := hI.out_n a hs
          omega
        refine Or.inr ⟨han, ⟨?_, ?_⟩, hasc⟩
        · rcases (hv.ids a).1 ha.1 with h | h
          · exact h
          · exact absurd h han
        · intro q hq
          have hq' : (q, a) ∈ s'.edgeList := by
            refine (hI.mem _).2 (Or.inl ⟨hq, ?_⟩)
            intro p sc _ hs he
            cases he
            exact hasc a hs rfl
          have h2 := ha.2 q hq'
          have qne : q ≠ node := fun h => hn (h ▸ hF.src_mem _ hq)
          have qnp : ∀ p, pred = some p → q ≠ p := by
            intro p hp hqp
            subst hqp
            exact hasc a (pred_old_edge hP hI hp hq) rfl
          rw [← hI.out_other q qne qnp]; exact h2
    have fresh : ∀ b, pred = none → b ≠ node → s0.IsHead b → (∀ sc, succ = some sc → b ≠ sc) →
        s0.tidOf b ≠ some tid := by
      intro b hp _ hb hbs
      rcases hs : succ with _ | sc
      · exact hP.new hp hs b
      · obtain ⟨h1, h2⟩ := hP.pre sc hp hs
        have hsh : s0.IsHead sc :=
          ⟨(hP.s_mem sc hs).1, fun q hq => absurd hq (tk_preds_nil_iff.1 h2 q)⟩
        rw [← h1]
        exact hT.heads b sc hb hsh (hbs sc hs)
    intro a b ha hb hab
    rcases key a ha with ⟨ha1, ha2⟩ | ⟨ha1, ha2, ha3⟩ <;>
      rcases key b hb with ⟨hb1, hb2⟩ | ⟨hb1, hb2, hb3⟩
    · exact absurd (ha1.trans hb1.symm) hab
    · rw [ha1, hv.tid_new, hv.tid_old b hb1]
      exact fun h => fresh b ha2 hb1 hb2 hb3 h.symm
    · rw [hb1, hv.tid_new, hv.tid_old a ha1]
      exact fresh a hb2 ha1 ha2 ha3
    · rw [hv.tid_old a ha1, hv.tid_old b hb1]
      exact hT.heads a b ha2 hb2 hab

/-- the lineage `UserAddNode` gives the new node when the caller passes none -/
def linChoice (s0 : St) (pred succ : Option Node) : Option Nat :=
  match pred, succ with
  | some p, _ => s0.linOf p
  | none, some sc => s0.linOf sc
  | none, none => some s0.nextLin

theorem lin_insert (hP : PreOK s0 pred succ tid time) (hn : node ∉ s0.ids)
    (hI : Ins s0 s' node pred succ tid (linChoice s0 pred succ)) : LinOK s' := by
  have hF := hP.valid.forest
  have hL := hP.valid.lin
  have hv := hI.view
  have sne : ∀ sc, succ = some sc → sc ≠ node := fun sc hs h => hn (h ▸ (hP.s_mem sc hs).1)
  have pne : ∀ p, pred = some p → p ≠ node := fun p hp h => hn (h ▸ (hP.p_mem p hp).1)
  have hlp : ∀ p, pred = some p → s'.linOf node = s0.linOf p := by
    intro p hp; rw [hv.lin_new, hp]; rfl
  have hls : ∀ sc, succ = some sc → s'.linOf node = s0.linOf sc := by
    intro sc hs
    rcases hp : pred with _ | p
    · rw [hv.lin_new, hp, hs]; rfl
    · rw [hlp p hp]
      exact (hL.along (p, sc) (hI.spl_mem p sc hp hs)).symm
  refine ⟨?_, ?_, ?_⟩
  · intro m hm
    by_cases hmn : m = node
    · subst hmn
      rcases hp : pred with _ | p
      · rcases hs : succ with _ | sc
        · rw [hv.lin_new, hp, hs]; rfl
        · rw [hls sc hs]; exact hL.has sc (hP.s_mem sc hs).1
      · rw [hlp p hp]; exact hL.has p (hP.p_mem p hp).1
    · rw [hv.lin_old m hmn]
      rcases (hv.ids m).1 hm with h | h
      · exact hL.has m h
      · exact absurd h hmn
  · rintro ⟨a, b⟩ hx
    simp only
    rcases (hI.mem (a, b)).1 hx with ⟨hx0, _⟩ | ⟨p, hp, he⟩ | ⟨sc, hs, he⟩
    · have ane : a ≠ node := fun h => hn (h ▸ hF.src_mem _ hx0)
      have bne : b ≠ node := fun h => hn (h ▸ hF.dst_mem _ hx0)
      rw [hv.lin_old a ane, hv.lin_old b bne]
      exact hL.along (a, b) hx0
    · cases he
      rw [hlp a hp, hv.lin_old a (pne a hp)]
    · cases he
      rw [hls b hs, hv.lin_old b (sne b hs)]
  · have key : ∀ a, s'.IsRoot a → (a = node ∧ pred = none) ∨
        (a ≠ node ∧ s0.IsRoot a ∧ ∀ sc, succ = some sc → a ≠ sc) := by
      intro a ha
      by_cases han : a = node
      · subst han
        refine Or.inl ⟨rfl, ?_⟩
        rcases hp : pred with _ | p
        · rfl
        · exact absurd ((hI.mem _).2 (Or.inr (Or.inl ⟨p, hp, rfl⟩))) (ha.2 p)
      · have hasc : ∀ sc, succ = some sc → a ≠ sc := by
          intro sc hs hasc
          subst hasc
          exact ha.2 node ((hI.mem _).2 (Or.inr (Or.inr ⟨a, hs, rfl⟩)))
        refine Or.inr ⟨han, ⟨?_, ?_⟩, hasc⟩
        · rcases (hv.ids a).1 ha.1 with h | h
          · exact h
          · exact absurd h han
        · intro q hq
          apply ha.2 q
          refine (hI.mem _).2 (Or.inl ⟨hq, ?_⟩)
          intro p sc _ hs he
          cases he
          exact hasc a hs rfl
    have fresh : ∀ b, pred = none → s0.IsRoot b → (∀ sc, succ = some sc → b ≠ sc) →
        s0.linOf b ≠ s'.linOf node := by
      intro b hp hb hbs
      rcases hs : succ with _ | sc
      · rw [hv.lin_new, hp, hs]
        intro h
        have := hP.valid.book.l_max hP.valid.linOn b _ h
        unfold nextLin at this; omega
      · have h2 := (hP.pre sc hp hs).2
        have hsr : s0.IsRoot sc := ⟨(hP.s_mem sc hs).1, tk_preds_nil_iff.1 h2⟩
        rw [hls sc hs]
        exact hL.roots b sc hb hsr (hbs sc hs)
    intro a b ha hb hab
    rcases key a ha with ⟨ha1, ha2⟩ | ⟨ha1, ha2, ha3⟩ <;>
      rcases key b hb with ⟨hb1, hb2⟩ | ⟨hb1, hb2, hb3⟩
    · exact absurd (ha1.trans hb1.symm) hab
    · rw [ha1, hv.lin_old b hb1]
      exact fun h => fresh b ha2 hb2 hb3 h.symm
    · rw [hb1, hv.lin_old a ha1]
      exact fresh a hb2 ha2 ha3
    · rw [hv.lin_old a ha1, hv.lin_old b hb1]
      exact hL.roots a b ha2 hb2 hab

end insert

/-! ### from the exact edge list of the tail to `Ins` -/

/-- the old edges that survive (the skip edge is removed when the node is spliced in) -/
def baseE (s0 : St) (pred succ : Option Node) : List Edge :=
  match pred, succ with
  | some p, some sc => s0.edgeList.filter (· != (p, sc))
  | _, _ => s0.edgeList

theorem cnt_single (e : Edge) (u : Node) :
    ([e].filter (·.1 == u)).length = if e.1 = u then 1 else 0 := by
  by_cases h : e.1 = u <;> simp [h]

theorem cnt_base_ne (s0 : St) {p sc u : Node} (h : u ≠ p) :
    ((s0.edgeList.filter (· != (p, sc))).filter (·.1 == u)).length = s0.outdeg u := by
  have := tk_outdeg_delE_ne s0 (u := p) (v := sc) h
  rw [tk_outdeg_eq, tk_delE_edgeList] at this
  exact this

theorem cnt_base_self {s0 : St} (hF : Forest s0) {p sc : Node} (he : (p, sc) ∈ s0.edgeList) :
    ((s0.edgeList.filter (· != (p, sc))).filter (·.1 == p)).length + 1 = s0.outdeg p := by
  have := outdeg_delE_src hF he
  rw [tk_outdeg_eq, tk_delE_edgeList] at this
  exact this

theorem outdeg_of_lists {s' : St} {B P S : List Edge} (hE : s'.edgeList = B ++ P ++ S) (u : Node) :
    s'.outdeg u = (B.filter (·.1 == u)).length + (P.filter (·.1 == u)).length +
      (S.filter (·.1 == u)).length := by
  rw [outdeg_eq, hE, List.filter_append, List.filter_append, List.length_append, List.length_append]

theorem ins_of_lists {s0 s' : St} {node : Node} {pred succ : Option Node} {tid time : Nat}
    {lin : Option Nat} (hP : PreOK s0 pred succ tid time) (hn : node ∉ s0.ids)
    (hv : NodeView s0 s' node tid lin)
    (hspl : ∀ p sc, pred = some p → succ = some sc → (p, sc) ∈ s0.edgeList)
    (hE : s'.edgeList = baseE s0 pred succ ++ linkP pred node ++ linkS succ node) :
    Ins s0 s' node pred succ tid lin := by
  have hF := hP.valid.forest
  have hout := outdeg_of_lists hE
  have hn0 : (s0.edgeList.filter (·.1 == node)).length = 0 := by
    rw [← outdeg_eq]; exact outdeg_zero_of_not_mem hF hn
  rcases pred with _ | p
  · rcases succ with _ | sc
    · simp only [baseE, linkP, linkS, List.append_nil] at hE hout
      refine ⟨hv, hspl, ?_, ?_, (fun _ h => by cases h), (fun _ h => by cases h)⟩
      · intro x; rw [hE]; simp
      · intro u _ _; rw [hout, outdeg_eq]; simp
    · simp only [baseE, linkP, linkS, List.append_nil] at hE hout
      refine ⟨hv, hspl, ?_, ?_, (fun _ h => by cases h), ?_⟩
      · intro x; rw [hE]; simp
      · intro u hu _
        rw [hout, cnt_single, if_neg (fun h => hu h.symm), outdeg_eq]; simp
      · intro _ _
        rw [hout, cnt_single, if_pos rfl, hn0]; rfl
  · have pne : p ≠ node := fun h => hn (h ▸ (hP.p_mem p rfl).1)
    rcases succ with _ | sc
    · simp only [baseE, linkP, linkS, List.append_nil] at hE hout
      refine ⟨hv, hspl, ?_, ?_, ?_, (fun _ h => by cases h)⟩
      · intro x; rw [hE]; simp
      · intro u _ hup
        have : p ≠ u := fun h => hup p rfl h.symm
        rw [hout, cnt_single, if_neg this, outdeg_eq]; simp
      · intro p' hp
        cases hp
        rw [hout, cnt_single, if_pos rfl, ← outdeg_eq, (hP.app p rfl rfl).2]; rfl
    · simp only [baseE, linkP, linkS] at hE hout
      have hm := hspl p sc rfl rfl
      have ho := (hP.spl p sc rfl rfl hm).1
      refine ⟨hv, hspl, ?_, ?_, ?_, ?_⟩
      · intro x; rw [hE]; simp [List.mem_filter]
      · intro u hu hup
        have h1 : p ≠ u := fun h => hup p rfl h.symm
        rw [hout, cnt_single, cnt_single, if_neg h1, if_neg (fun h => hu h.symm),
          cnt_base_ne s0 (hup p rfl)]; rfl
      · intro p' hp
        cases hp
        have := cnt_base_self hF hm
        rw [hout, cnt_single, cnt_single, if_pos rfl, if_neg (fun h => pne h.symm)]
        exact this.trans ho
      · intro _ _
        rw [hout, cnt_single, cnt_single, if_neg pne, if_pos rfl, cnt_base_ne s0 (fun h => pne h.symm),
          outdeg_zero_of_not_mem hF hn]

/-! ### the tail of `UserAddNode` -/

/-- `AddNode` (with rollback on failure) and the linking edges, after the optional `DeleteEdge` -/
def tailCore (a1 : UOut) (pred succ : Option Node) (rec_ : NodeRec) (px : Option (List Pix)) : UOut :=
  match a1.2 with
  | .error err => (a1.1, .error err)
  | .ok recs1 =>
    match a1.1.pAddNode rec_ px with
    | .error err => (a1.1.rollback recs1, .error err)
    | .ok (s2, r) => addNodeFinish s2 (recs1 ++ [r]) pred succ rec_.id

/-- the lineage the new node receives -/
def linOfArgs (a : AddNodeArgs) (s0 : St) (pred succ : Option Node) : Option Nat :=
  match a.lin with
  | some l => some l
  | none => linChoice s0 pred succ

theorem addNodeTail_eq (a0 : UOut) (pred succ : Option Node) (a : AddNodeArgs) (time tid : Nat) :
    addNodeTail a0 pred succ a time tid =
      tailCore (match pred, succ with
          | some p, some sc => thenPrim a0 (fun st => st.pDelEdge (p, sc))
          | _, _ => a0) pred succ
        { id := a.node, time := time, tid := tid, lin := linOfArgs a a0.1 pred succ, other := a.other }
        a.pixels := rfl

theorem tailCore_ok_a1 {a1 : UOut} {pred succ : Option Node} {rec_ : NodeRec}
    {px : Option (List Pix)} {recs : List PrimRec} (h : (tailCore a1 pred succ rec_ px).2 = .ok recs) :
    ∃ r1, a1.2 = .ok r1 := by
  unfold tailCore at h
  rcases h1 : a1.2 with e | r1
  · rw [h1] at h; cases h
  · exact ⟨r1, rfl⟩

theorem tailCore_eff {a1 : UOut} {pred succ : Option Node} {rec_ : NodeRec}
    {px : Option (List Pix)} {recs : List PrimRec}
    (hF : Forest a1.1) (hT : PC.TOK a1.1) (hL : PC.LOK a1.1) (hn : rec_.id ∉ a1.1.ids)
    (hp : ∀ p, pred = some p → p ∈ a1.1.ids)
    (hok : (tailCore a1 pred succ rec_ px).2 = .ok recs) :
    NodeView a1.1 (tailCore a1 pred succ rec_ px).1 rec_.id rec_.tid rec_.lin ∧
    (tailCore a1 pred succ rec_ px).1.edgeList =
      a1.1.edgeList ++ linkP pred rec_.id ++ linkS succ rec_.id := by
  unfold tailCore at hok ⊢
  rcases h1 : a1.2 with e | recs1
  · rw [h1] at hok; cases hok
  · rw [h1] at hok
    simp only [] at hok ⊢
    rcases h2 : a1.1.pAddNode rec_ px with e | ⟨s2, r⟩
    · rw [h2] at hok; cases hok
    · rw [h2] at hok
      simp only [] at hok ⊢
      exact finish_eff hF hT hL hn h2 hp hok

theorem tail_ins {a0 : UOut} {pred succ : Option Node} {a : AddNodeArgs} {time tid : Nat}
    {recs : List PrimRec} (hP : PreOK a0.1 pred succ tid time) (hn : a.node ∉ a0.1.ids)
    (hok : (addNodeTail a0 pred succ a time tid).2 = .ok recs) :
    Ins a0.1 (addNodeTail a0 pred succ a time tid).1 a.node pred succ tid
      (linOfArgs a a0.1 pred succ) := by
  rw [addNodeTail_eq] at hok ⊢
  obtain ⟨hT, hL⟩ := (PC.bookOK_iff _).1 hP.valid.book
  have hF := hP.valid.forest
  -- the three paths without `DeleteEdge`
  have plain : ∀ (pr su : Option Node), PreOK a0.1 pr su tid time →
      (∀ p sc, pr = some p → su = some sc → False) →
      ∀ recs, (tailCore a0 pr su
        { id := a.node, time := time, tid := tid, lin := linOfArgs a a0.1 pr su, other := a.other }
        a.pixels).2 = .ok recs →
      Ins a0.1 (tailCore a0 pr su
        { id := a.node, time := time, tid := tid, lin := linOfArgs a a0.1 pr su, other := a.other }
        a.pixels).1 a.node pr su tid (linOfArgs a a0.1 pr su) := by
    intro pr su hP' hno recs hok
    obtain ⟨hv, hE⟩ := tailCore_eff hF hT hL hn (fun p hp => (hP'.p_mem p hp).1) hok
    refine ins_of_lists hP' hn hv (fun p sc h1 h2 => (hno p sc h1 h2).elim) ?_
    rw [hE]
    congr 2
    unfold baseE
    rcases pr with _ | p
    · rfl
    · rcases su with _ | sc
      · rfl
      · exact (hno p sc rfl rfl).elim
  rcases pred with _ | p
  · exact plain none succ hP (fun _ _ h => by cases h) recs hok
  · rcases succ with _ | sc
    · exact plain (some p) none hP (fun _ _ _ h => by cases h) recs hok
    · dsimp only at hok ⊢
      obtain ⟨r1, h1⟩ := tailCore_ok_a1 hok
      obtain ⟨_, s1, _, _, hd, hs1, _⟩ := thenPrim_ok h1
      obtain ⟨hmem, hG1⟩ := pDelEdge_G hd
      have hbv := PC.pDelEdge_BV hd
      generalize thenPrim a0 (fun st => st.pDelEdge (p, sc)) = a1 at hok hs1 ⊢
      subst hs1
      obtain ⟨hv, hE⟩ := tailCore_eff
        (pDelEdge_forest hF hd) (hbv.TOK hT) (hbv.LOK hL) (by rw [hbv.ids]; exact hn)
        (fun p' hp => by rw [hbv.ids]; exact (hP.p_mem p' hp).1) hok
      refine ins_of_lists hP hn (hv.base hbv)
        (fun p' sc' h1 h2 => by cases h1; cases h2; exact hmem) ?_
      rw [hE, G_es' hG1]
      rfl

/-- the state / record list after the neighbour query and the division checks -/
def preOut (s : St) (a : AddNodeArgs) (tid0 time : Nat) : UOut :=
  addNodePre (s.trackNeighbors (addTid s tid0 time) time).1
    (s.trackNeighbors (addTid s tid0 time) time).2.1
    (s.trackNeighbors (addTid s tid0 time) time).2.2 a.force

theorem uAddNode_eq' (s : St) (a : AddNodeArgs) {time tid0 : Nat} (ht : a.time = some time)
    (hd : a.tid = some tid0) (hn : s.hasNode a.node = false) :
    s.uAddNode a =
      match (preOut s a tid0 time).2 with
      | .error err => ((preOut s a tid0 time).1, .error err)
      | .ok _ => addNodeTail (preOut s a tid0 time)
          (s.trackNeighbors (addTid s tid0 time) time).2.1
          (s.trackNeighbors (addTid s tid0 time) time).2.2 a time (addTid s tid0 time) := by
  rw [uAddNode_eq, ht, hd]
  simp only [hn]
  rfl

/-- **`UserAddNode`, accepted**, with the ingredients exposed: the state `s0` after the division
    checks, the neighbours, and the description of the insertion -/
theorem uAddNode_main {s : St} {a : AddNodeArgs} {recs : List PrimRec} (hV : Valid s)
    (hok : (s.uAddNode a).2 = .ok recs) :
    ∃ time tid0 r0, a.time = some time ∧ a.tid = some tid0 ∧ a.node ∉ s.ids ∧
      (preOut s a tid0 time).2 = .ok r0 ∧ (preOut s a tid0 time).1.nt = s.nt ∧
      PreOK (preOut s a tid0 time).1 (s.trackNeighbors (addTid s tid0 time) time).2.1
        (s.trackNeighbors (addTid s tid0 time) time).2.2 (addTid s tid0 time) time ∧
      NbrFacts (s.trackNeighbors (addTid s tid0 time) time).1
        (s.trackNeighbors (addTid s tid0 time) time).2.1
        (s.trackNeighbors (addTid s tid0 time) time).2.2 (addTid s tid0 time) time ∧
      Ins (preOut s a tid0 time).1 (s.uAddNode a).1 a.node
        (s.trackNeighbors (addTid s tid0 time) time).2.1
        (s.trackNeighbors (addTid s tid0 time) time).2.2 (addTid s tid0 time)
        (linOfArgs a (preOut s a tid0 time).1 (s.trackNeighbors (addTid s tid0 time) time).2.1
          (s.trackNeighbors (addTid s tid0 time) time).2.2) := by
  rcases hti : a.time with _ | time
  · rw [uAddNode_eq, hti] at hok; cases hok
  · rcases htd : a.tid with _ | tid0
    · rw [uAddNode_eq, hti, htd] at hok; cases hok
    · by_cases hnode : s.hasNode a.node = true
      · rw [uAddNode_eq, hti, htd] at hok
        simp only [hnode, if_true] at hok; cases hok
      · have hnode' : s.hasNode a.node = false := by simpa using hnode
        have hnm : a.node ∉ s.ids := fun h => hnode ((hasNode_iff _ _).mpr h)
        rw [uAddNode_eq' s a hti htd hnode'] at hok ⊢
        have hVN := valid_trackNeighbors hV (addTid s tid0 time) time
        have hN := nbrFacts hV tid0 time
        have hGr : G (s.trackNeighbors (addTid s tid0 time) time).1 = G s :=
          G_trackNeighbors s _ time
        rcases h0 : (preOut s a tid0 time).2 with e | r0
        · rw [h0] at hok; cases hok
        · rw [h0] at hok
          simp only [] at hok ⊢
          obtain ⟨hP, hnt0⟩ := pre_ok hVN hN h0
          have hnt : (preOut s a tid0 time).1.nt = s.nt := by
            unfold preOut; rw [hnt0, G_nt hGr]
          have hn0 : a.node ∉ (preOut s a tid0 time).1.ids := by
            rw [ids_of_nt hnt]; exact hnm
          exact ⟨time, tid0, r0, rfl, rfl, hnm, h0, hnt, hP, hN, tail_ins hP hn0 hok⟩

/-! ### consequences -/

theorem uAddNode_tid_new {s : St} {a : AddNodeArgs} {recs : List PrimRec} (hV : Valid s)
    (hok : (s.uAddNode a).2 = .ok recs) {time tid0 : Nat} (ht : a.time = some time)
    (hd : a.tid = some tid0) : (s.uAddNode a).1.tidOf a.node = some (addTid s tid0 time) := by
  obtain ⟨time', tid0', _, ht', hd', _, _, _, _, _, hI⟩ := uAddNode_main hV hok
  rw [ht] at ht'; rw [hd] at hd'; cases ht'; cases hd'
  exact hI.view.tid_new

theorem uAddNode_forest {s : St} {a : AddNodeArgs} {recs : List PrimRec} (hV : Valid s)
    (hok : (s.uAddNode a).2 = .ok recs) : Forest (s.uAddNode a).1 :=
  uAddNode_forest_of hV.forest
    (fun time tid0 _ _ => nbrAddOK_of_book hV.forest hV.tid hV.book tid0 time) hok

theorem uAddNode_tidOK {s : St} {a : AddNodeArgs} {recs : List PrimRec} (hV : Valid s)
    (hok : (s.uAddNode a).2 = .ok recs) : TidOK (s.uAddNode a).1 := by
  obtain ⟨time, tid0, _, _, _, hnm, _, hnt, hP, _, hI⟩ := uAddNode_main hV hok
  exact tid_insert hP (by rw [ids_of_nt hnt]; exact hnm) hI

theorem uAddNode_bookOK {s : St} {a : AddNodeArgs} {recs : List PrimRec} (hV : Valid s)
    (hok : (s.uAddNode a).2 = .ok recs) :
    BookOK (s.uAddNode a).1 ∧ (s.uAddNode a).1.linOn = true := by
  obtain ⟨time, tid0, _, _, _, _, _, _, hP, _, hI⟩ := uAddNode_main hV hok
  exact ⟨(PC.bookOK_iff _).2 ⟨hI.view.tok, hI.view.lok⟩, hI.view.linOn.trans hP.valid.linOn⟩

theorem uAddNode_linOK {s : St} {a : AddNodeArgs} {recs : List PrimRec} (hV : Valid s)
    (hlin : a.lin = none) (hok : (s.uAddNode a).2 = .ok recs) : LinOK (s.uAddNode a).1 := by
  obtain ⟨time, tid0, _, _, _, hnm, _, hnt, hP, _, hI⟩ := uAddNode_main hV hok
  have e : ∀ s0 pr su, linOfArgs a s0 pr su = linChoice s0 pr su := by
    intro s0 pr su; unfold linOfArgs; rw [hlin]
  rw [e] at hI
  exact lin_insert hP (by rw [ids_of_nt hnt]; exact hnm) hI

theorem uAddNode_valid {s : St} {a : AddNodeArgs} {recs : List PrimRec} (hV : Valid s)
    (hlin : a.lin = none) (hok : (s.uAddNode a).2 = .ok recs) : Valid (s.uAddNode a).1 :=
  ⟨uAddNode_forest hV hok, uAddNode_tidOK hV hok, uAddNode_linOK hV hlin hok,
   (uAddNode_bookOK hV hok).1, (uAddNode_bookOK hV hok).2⟩

/-! ### frame: which old nodes can change their ids -/

/-- the three shapes of an accepted pre-phase -/
theorem pre_cases {sN : St} {pred succ : Option Node} {force : Bool} {r0 : List PrimRec}
    (h : (addNodePre sN pred succ force).2 = .ok r0) :
    (addNodePre sN pred succ force).1 = sN ∨
    (∃ sc pos r1, force = true ∧ succ = some sc ∧ (pos, sc) ∈ sN.edgeList ∧
      (sN.uDeleteEdge (pos, sc)).2 = .ok r1 ∧
      (addNodePre sN pred succ force).1 = (sN.uDeleteEdge (pos, sc)).1) ∨
    (∃ p c1 c2 r1 r2, force = true ∧ pred = some p ∧ (p, c1) ∈ sN.edgeList ∧ (p, c2) ∈ sN.edgeList ∧
      (sN.uDeleteEdge (p, c1)).2 = .ok r1 ∧
      ((sN.uDeleteEdge (p, c1)).1.uDeleteEdge (p, c2)).2 = .ok r2 ∧
      (addNodePre sN pred succ force).1 = ((sN.uDeleteEdge (p, c1)).1.uDeleteEdge (p, c2)).1) := by
  have hdown : ∀ r0, (down sN succ force).2 = .ok r0 →
      (down sN succ force).1 = sN ∨
      (∃ sc pos r1, force = true ∧ succ = some sc ∧ (pos, sc) ∈ sN.edgeList ∧
        (sN.uDeleteEdge (pos, sc)).2 = .ok r1 ∧
        (down sN succ force).1 = (sN.uDeleteEdge (pos, sc)).1) := by
    intro r0 h
    rcases down_cases h with ⟨e, _⟩ | ⟨sc, pos, r1, hf, hs, hm, _, hok, e⟩
    · exact Or.inl e
    · exact Or.inr ⟨sc, pos, r1, hf, hs, hm, hok, e⟩
  rcases pred with _ | p
  · rw [addNodePre_none] at h ⊢
    rcases hdown r0 h with e | e
    · exact Or.inl e
    · exact Or.inr (Or.inl e)
  · rw [addNodePre_some] at h ⊢
    by_cases c : (sN.outdeg p == 2) = true
    · rw [if_pos c] at h ⊢
      cases force
      · simp at h
      · simp only [Bool.not_true, Bool.false_eq_true, if_false] at h ⊢
        rcases hsucc : sN.succs p with _ | ⟨c1, _ | ⟨c2, _ | ⟨c3, r⟩⟩⟩
        · rw [hsucc] at h; simp at h
        · rw [hsucc] at h; simp at h
        · rw [hsucc] at h
          simp only [] at h ⊢
          obtain ⟨_, r2, hb, hok2, e2, _⟩ := thenUser_ok h
          obtain ⟨_, r1, _, hok1, e1, _⟩ := thenUser_ok hb
          simp only [] at hok1 e1
          rw [e1] at hok2 e2
          refine Or.inr (Or.inr ⟨p, c1, c2, r1, r2, trivial, rfl, ?_, ?_, hok1, hok2, e2⟩)
          · exact tk_mem_succs.1 (by rw [hsucc]; simp)
          · exact tk_mem_succs.1 (by rw [hsucc]; simp)
        · rw [hsucc] at h; simp at h
    · rw [if_neg c] at h ⊢
      rcases hdown r0 h with e | e
      · exact Or.inl e
      · exact Or.inr (Or.inl e)

/-- an unforced accepted pre-phase changes nothing -/
theorem pre_unforced {sN : St} {pred succ : Option Node} {r0 : List PrimRec}
    (h : (addNodePre sN pred succ false).2 = .ok r0) : (addNodePre sN pred succ false).1 = sN := by
  rcases pre_cases h with e | ⟨_, _, _, hf, _⟩ | ⟨_, _, _, _, _, hf, _⟩
  · exact e
  · cases hf
  · cases hf

/-- the pre-phase relabels only below the predecessor resp. below the parent of the successor -/
theorem pre_frame {sN : St} (hV : Valid sN) {pred succ : Option Node} {force : Bool}
    {r0 : List PrimRec} (h : (addNodePre sN pred succ force).2 = .ok r0) (n : Node)
    (hp : ∀ p, pred = some p → ¬ sN.Anc p n)
    (hs : ∀ sc pos, succ = some sc → (pos, sc) ∈ sN.edgeList → ¬ sN.Anc pos n) :
    (addNodePre sN pred succ force).1.tidOf n = sN.tidOf n ∧
    (addNodePre sN pred succ force).1.linOf n = sN.linOf n := by
  rcases pre_cases h with e | ⟨sc, pos, r1, _, hsc, hm, hok, e⟩ |
      ⟨p, c1, c2, r1, r2, _, hpp, hm1, hm2, hok1, hok2, e⟩
  · rw [e]; exact ⟨rfl, rfl⟩
  · rw [e]
    have hna := hs sc pos hsc hm
    refine ⟨(tk_uDeleteEdge_tidInv (valid_tidInv hV) hok).2 n hna,
      (tk_uDeleteEdge_linInv (valid_linInv hV) hok).2 n ?_⟩
    intro hanc; exact hna (Anc.cons hm hanc)
  · rw [e]
    have hna := hp p hpp
    have hV1 := valid_uDeleteEdge hV hok1
    have hsub : ∀ x, x ∈ (sN.uDeleteEdge (p, c1)).1.edgeList → x ∈ sN.edgeList := by
      intro x hx
      rw [G_es' (uDeleteEdge_G' sN (p, c1)), List.mem_filter] at hx
      exact hx.1
    have hna1 : ¬ (sN.uDeleteEdge (p, c1)).1.Anc p n := fun h => hna (Anc.mono hsub h)
    have hm2' : (p, c2) ∈ (sN.uDeleteEdge (p, c1)).1.edgeList :=
      tk_hasEdge_iff.1 (tk_uDeleteEdge_hasEdge hok2)
    refine ⟨?_, ?_⟩
    · rw [(tk_uDeleteEdge_tidInv (valid_tidInv hV1) hok2).2 n hna1,
        (tk_uDeleteEdge_tidInv (valid_tidInv hV) hok1).2 n hna]
    · rw [(tk_uDeleteEdge_linInv (valid_linInv hV1) hok2).2 n
          (fun hanc => hna1 (Anc.cons hm2' hanc)),
        (tk_uDeleteEdge_linInv (valid_linInv hV) hok1).2 n (fun hanc => hna (Anc.cons hm1 hanc))]

theorem trackNeighbors_proj (s : St) (tid time : Nat) :
    (s.trackNeighbors tid time).1.nodes = s.nodes ∧ (s.trackNeighbors tid time).1.edges = s.edges := by
  obtain ⟨e1, _, _⟩ := PC.trackNeighbors_state s tid time
  constructor
  · rw [e1]
  · rw [e1]

/-- **frame of `UserAddNode`**: an old node keeps track id and lineage id unless it lies below the
    track predecessor, or below the parent of the track successor (where a forced removal of
    division edges relabels) -/
theorem uAddNode_frame {s : St} {a : AddNodeArgs} {recs : List PrimRec} (hV : Valid s)
    (hok : (s.uAddNode a).2 = .ok recs) {time tid0 : Nat} (ht : a.time = some time)
    (hd : a.tid = some tid0) (n : Node) (hn : n ≠ a.node)
    (hp : ∀ p, (s.trackNeighbors (addTid s tid0 time) time).2.1 = some p → ¬ s.Anc p n)
    (hs : ∀ sc pos, (s.trackNeighbors (addTid s tid0 time) time).2.2 = some sc →
      (pos, sc) ∈ s.edgeList → ¬ s.Anc pos n) :
    (s.uAddNode a).1.tidOf n = s.tidOf n ∧ (s.uAddNode a).1.linOf n = s.linOf n := by
  obtain ⟨time', tid0', r0, ht', hd', _, h0, _, _, _, hI⟩ := uAddNode_main hV hok
  rw [ht] at ht'; rw [hd] at hd'; cases ht'; cases hd'
  obtain ⟨pn, pe⟩ := trackNeighbors_proj s (addTid s tid0 time) time
  have hes : (s.trackNeighbors (addTid s tid0 time) time).1.edgeList = s.edgeList := by
    unfold edgeList; rw [pe]
  have hfr := pre_frame (valid_trackNeighbors hV (addTid s tid0 time) time) h0 n
    (fun p hpp hanc => hp p hpp ((Anc.congr hes).1 hanc))
    (fun sc pos hsc hm hanc => hs sc pos hsc (hes ▸ hm) ((Anc.congr hes).1 hanc))
  refine ⟨?_, ?_⟩
  · rw [hI.view.tid_old n hn]
    exact hfr.1.trans (PC.tidOf_of_nodes pn n)
  · rw [hI.view.lin_old n hn]
    exact hfr.2.trans (PC.linOf_of_nodes pn n)

/-- unforced: no old node changes its ids -/
theorem uAddNode_frame_unforced {s : St} {a : AddNodeArgs} {recs : List PrimRec} (hV : Valid s)
    (hok : (s.uAddNode a).2 = .ok recs) (hf : a.force = false) (n : Node) (hn : n ≠ a.node) :
    (s.uAddNode a).1.tidOf n = s.tidOf n ∧ (s.uAddNode a).1.linOf n = s.linOf n := by
  obtain ⟨time, tid0, r0, _, _, _, h0, _, _, _, hI⟩ := uAddNode_main hV hok
  obtain ⟨pn, _⟩ := trackNeighbors_proj s (addTid s tid0 time) time
  have e : (preOut s a tid0 time).1 = (s.trackNeighbors (addTid s tid0 time) time).1 := by
    unfold preOut at h0 ⊢
    rw [hf] at h0 ⊢
    exact pre_unforced h0
  rw [hI.view.tid_old n hn, hI.view.lin_old n hn, e]
  exact ⟨PC.tidOf_of_nodes pn n, PC.linOf_of_nodes pn n⟩

/-- frame, connectivity form: a node that is not connected to any node of the target track keeps
    its ids (forced or not) -/
theorem uAddNode_frame_conn {s : St} {a : AddNodeArgs} {recs : List PrimRec} (hV : Valid s)
    (hok : (s.uAddNode a).2 = .ok recs) {time tid0 : Nat} (ht : a.time = some time)
    (hd : a.tid = some tid0) (n : Node) (hn : n ≠ a.node)
    (hfar : ∀ m, s.tidOf m = some (addTid s tid0 time) → ¬ s.Conn n m) :
    (s.uAddNode a).1.tidOf n = s.tidOf n ∧ (s.uAddNode a).1.linOf n = s.linOf n := by
  have hN := nbrFacts hV tid0 time
  obtain ⟨pn, _⟩ := trackNeighbors_proj s (addTid s tid0 time) time
  have hF := hV.forest
  apply uAddNode_frame hV hok ht hd n hn
  · intro p hp hanc
    obtain ⟨_, h2, _⟩ := hN.p_ok p hp
    rw [PC.tidOf_of_nodes pn p] at h2
    exact hfar p h2 ((hanc.conn (PC.tidOf_some_mem h2)).symm hF)
  · intro sc pos hs hm hanc
    obtain ⟨_, h2, _⟩ := hN.s_ok sc hs
    rw [PC.tidOf_of_nodes pn sc] at h2
    have h3 : s.Conn n pos := (hanc.conn (hF.src_mem _ hm)).symm hF
    exact hfar sc h2 (Conn.down n pos sc h3 hm)

/-! ### session level: `commit` does not touch what `Valid` reads -/

theorem valid_commit_fields {s : St} (hV : Valid s) (h : Hist ActRec) (k : Nat) (p : Option Node) :
    Valid { s with hist := h, refreshes := k, lastPayload := p } :=
  ⟨⟨hV.forest.1, hV.forest.2, hV.forest.3, hV.forest.4, hV.forest.5, hV.forest.6, hV.forest.7⟩,
   ⟨hV.tid.1, hV.tid.2⟩, ⟨hV.lin.1, hV.lin.2, hV.lin.3⟩,
   ⟨hV.book.1, hV.book.2, hV.book.3, hV.book.4, hV.book.5, hV.book.6, hV.book.7, hV.book.8⟩,
   hV.linOn⟩

theorem valid_commit {r : UOut} {p : Option Node} (h : ∀ recs, r.2 = .ok recs → Valid r.1)
    (hok : (commit r p).2 = .ok) : Valid (commit r p).1 := by
  unfold commit at hok ⊢
  rcases hr : r.2 with e | recs
  · rw [hr] at hok; cases hok
  · simp only []
    exact valid_commit_fields (h recs hr) _ _ _

/-! ### example state for the non-vacuity checks -/

/-- track 1 = 1→2 dividing into 3 (track 2) and 4 (track 3); track 4 = 5→6 with a skip edge
    (frames 0 and 3); isolated node 7 (track 5) in frame 2 -/
def exS : St :=
  { nodes := [⟨1, 0, 1, some 1, []⟩, ⟨2, 1, 1, some 1, []⟩, ⟨3, 2, 2, some 1, []⟩, ⟨4, 2, 3, some 1, []⟩,
              ⟨5, 0, 4, some 2, []⟩, ⟨6, 3, 4, some 2, []⟩, ⟨7, 2, 5, some 3, []⟩],
    edges := [⟨(1, 2), []⟩, ⟨(2, 3), []⟩, ⟨(2, 4), []⟩, ⟨(5, 6), []⟩],
    t2n := [(1, [1, 2]), (2, [3]), (3, [4]), (4, [5, 6]), (5, [7])],
    l2n := [(1, [1, 2, 3, 4]), (2, [5, 6]), (3, [7])],
    maxTid := 5, maxLin := 3, counter := 8 }

/-- Boolean check of `Valid` (sound; for concrete states) -/
def validB (s : St) : Bool := forestB s && tidB s && s.tk_linOKB && bookB s && s.linOn

theorem validB_sound {s : St} (h : validB s = true) : Valid s := by
  unfold validB at h
  simp only [Bool.and_eq_true] at h
  obtain ⟨⟨⟨⟨h1, h2⟩, h3⟩, h4⟩, h5⟩ := h
  exact ⟨(forestB_iff s).1 h1, tidB_sound h2, tk_linOKB_sound h3, bookB_sound h4, h5⟩

theorem exS_valid : Valid exS := validB_sound (by decide)

end Ft.R2D
