/-
  Helper lemmas for C06 (TrackAnnotator bookkeeping, queries, fresh ids).
  Part 1: association lists, `bookRem`, `bookAdd*`.
  Part 2: fresh ids.
  Part 3: queries (`hasTrackAt`, `trackNeighbors`).
  Part 4: node updates, the relabel walk, primitives.
  Part 5: user actions.
  Everything lives in namespace `Ft.PC` (no clash with the other proof packages).
-/
import FtProofs.SessionSpec
namespace Ft.PC
open Ft Ft.St

/-! ## Part 1: association lists -/

section assoc
variable {β : Type}

theorem alook_aset (k k' : Nat) (v : β) (m : List (Nat × β)) :
    alook k' (aset k v m) = if k' = k then some v else alook k' m := by
  induction m with
  | nil => simp [aset, alook]; grind
  | cons p r ih =>
    obtain ⟨a, b⟩ := p
    by_cases h : a = k
    · subst h; simp [aset, alook]; grind
    · simp [aset, alook, h, ih]; grind

theorem alook_eq_none_iff (k : Nat) (m : List (Nat × β)) :
    alook k m = none ↔ k ∉ m.map (·.1) := by
  induction m with
  | nil => simp [alook]
  | cons p r ih =>
    obtain ⟨a, b⟩ := p
    by_cases h : a = k
    · subst h; simp [alook]
    · simp [alook, h, ih]; grind

theorem alook_some_mem {k : Nat} {m : List (Nat × β)} {v : β} (h : alook k m = some v) :
    k ∈ m.map (·.1) := by
  by_cases hk : k ∈ m.map (·.1)
  · exact hk
  · rw [(alook_eq_none_iff k m).2 hk] at h; cases h

theorem keys_aset (k : Nat) (v : β) (m : List (Nat × β)) :
    (aset k v m).map (·.1) = if k ∈ m.map (·.1) then m.map (·.1) else m.map (·.1) ++ [k] := by
  induction m with
  | nil => simp [aset]
  | cons p r ih =>
    obtain ⟨a, b⟩ := p
    by_cases h : a = k
    · subst h; simp [aset]
    · simp [aset, h, ih]; grind

theorem nodup_keys_aset {k : Nat} {v : β} {m : List (Nat × β)} (h : (m.map (·.1)).Nodup) :
    ((aset k v m).map (·.1)).Nodup := by
  rw [keys_aset]
  split
  · exact h
  · rename_i hk
    rw [List.nodup_append]
    refine ⟨h, by simp, ?_⟩
    intro a ha b hb
    simp at hb; subst hb
    intro e; subst e; exact hk ha

theorem keys_adel (k : Nat) (m : List (Nat × β)) :
    (adel k m).map (·.1) = (m.map (·.1)).erase k := by
  induction m with
  | nil => simp [adel]
  | cons p r ih =>
    obtain ⟨a, b⟩ := p
    by_cases h : a = k
    · subst h; simp [adel]
    · simp [adel, h, ih, List.erase_cons_tail]

theorem nodup_keys_adel {k : Nat} {m : List (Nat × β)} (h : (m.map (·.1)).Nodup) :
    ((adel k m).map (·.1)).Nodup := by
  rw [keys_adel]; exact h.erase _

theorem alook_adel (k k' : Nat) (m : List (Nat × β)) (h : (m.map (·.1)).Nodup) :
    alook k' (adel k m) = if k' = k then none else alook k' m := by
  induction m with
  | nil => simp [adel, alook]
  | cons p r ih =>
    obtain ⟨a, b⟩ := p
    simp only [List.map_cons, List.nodup_cons] at h
    by_cases hak : a = k
    · subst hak
      simp only [adel, beq_self_eq_true, if_true, alook]
      by_cases hk : k' = a
      · subst hk; simp; exact (alook_eq_none_iff _ _).2 h.1
      · have : (a == k') = false := by simp; exact fun e => hk e.symm
        simp [hk, this]
    · have : (a == k) = false := by simp [hak]
      simp only [adel, this, alook, ih h.2, Bool.false_eq_true, if_false]
      by_cases hk : k' = k
      · subst hk
        have : (a == k') = false := by simp [hak]
        simp [this]
      · simp [hk]

end assoc

/-! ### the lookups as a relation -/

/-- `n` is listed under `id` -/
def InBook (m : List (Nat × List Node)) (id : Nat) (n : Node) : Prop :=
  ∃ l, alook id m = some l ∧ n ∈ l

/-- keys distinct, every list duplicate-free -/
structure MapWF (m : List (Nat × List Node)) : Prop where
  keys : (m.map (·.1)).Nodup
  nodup : ∀ id l, alook id m = some l → l.Nodup

theorem mem_foldl_erase (ns : List Node) : ∀ (l : List Node), l.Nodup → ∀ x,
    (x ∈ ns.foldl (fun acc n => acc.erase n) l ↔ x ∈ l ∧ x ∉ ns) := by
  induction ns with
  | nil => intro l _ x; simp
  | cons a r ih =>
    intro l hl x
    simp only [List.foldl_cons]
    rw [ih _ (hl.erase a), hl.mem_erase_iff]
    simp only [List.mem_cons, not_or]
    grind

theorem nodup_foldl_erase (ns : List Node) : ∀ (l : List Node), l.Nodup →
    (ns.foldl (fun acc n => acc.erase n) l).Nodup := by
  induction ns with
  | nil => intro l h; exact h
  | cons a r ih => intro l hl; exact ih _ (hl.erase a)

theorem mapWF_bookRem {m : List (Nat × List Node)} (h : MapWF m) (ns : List Node) (id : Nat) :
    MapWF (bookRem m ns id) := by
  unfold bookRem
  split
  · exact h
  · rename_i l hl
    have hn := nodup_foldl_erase ns l (h.nodup _ _ hl)
    simp only []
    split
    · refine ⟨nodup_keys_adel h.keys, ?_⟩
      intro id' l' h'
      rw [alook_adel _ _ _ h.keys] at h'
      split at h'
      · cases h'
      · exact h.nodup _ _ h'
    · refine ⟨nodup_keys_aset h.keys, ?_⟩
      intro id' l' h'
      rw [alook_aset] at h'
      split at h'
      · cases h'; exact hn
      · exact h.nodup _ _ h'

theorem inBook_bookRem {m : List (Nat × List Node)} (h : MapWF m) (ns : List Node) (id id' : Nat)
    (n : Node) :
    InBook (bookRem m ns id) id' n ↔ InBook m id' n ∧ ¬ (id' = id ∧ n ∈ ns) := by
  unfold bookRem InBook
  split
  · rename_i hnone
    constructor
    · rintro ⟨l, hl, hm⟩
      refine ⟨⟨l, hl, hm⟩, ?_⟩
      rintro ⟨e, _⟩; subst e; rw [hnone] at hl; cases hl
    · rintro ⟨h1, _⟩; exact h1
  · rename_i l hl
    have hmem := mem_foldl_erase ns l (h.nodup _ _ hl)
    simp only []
    split
    · rename_i hemp
      simp only [alook_adel _ _ _ h.keys]
      by_cases e : id' = id
      · subst e
        simp only [if_true, hl]
        constructor
        · rintro ⟨_, h', _⟩; cases h'
        · rintro ⟨⟨l', h', hm⟩, hne⟩
          cases h'
          have := (hmem n).2 ⟨hm, fun hx => hne ⟨trivial, hx⟩⟩
          rw [List.isEmpty_iff] at hemp
          rw [hemp] at this; cases this
      · simp [e]
    · simp only [alook_aset]
      by_cases e : id' = id
      · subst e
        simp only [if_true, hl]
        constructor
        · rintro ⟨_, h', hm⟩
          cases h'
          have := (hmem n).1 hm
          exact ⟨⟨l, rfl, this.1⟩, fun hx => this.2 hx.2⟩
        · rintro ⟨⟨l', h', hm⟩, hne⟩
          cases h'
          exact ⟨_, rfl, (hmem n).2 ⟨hm, fun hx => hne ⟨trivial, hx⟩⟩⟩
      · simp [e]

/-- the map part of `bookAddT` -/
theorem inBook_addT (m : List (Nat × List Node)) (ns : List Node) (id id' : Nat) (n : Node) :
    InBook (aset id ((alook id m).getD [] ++ ns) m) id' n ↔ InBook m id' n ∨ (id' = id ∧ n ∈ ns) := by
  unfold InBook
  simp only [alook_aset]
  by_cases e : id' = id
  · subst e
    simp only [if_true]
    cases hl : alook id' m with
    | none => simp
    | some l => simp
  · simp [e]

theorem mapWF_addT {m : List (Nat × List Node)} (h : MapWF m) (ns : List Node) (id : Nat)
    (hns : ns.Nodup) (hdis : ∀ n ∈ ns, ¬ InBook m id n) :
    MapWF (aset id ((alook id m).getD [] ++ ns) m) := by
  refine ⟨nodup_keys_aset h.keys, ?_⟩
  intro id' l' h'
  rw [alook_aset] at h'
  split at h'
  · cases h'
    rw [List.nodup_append]
    refine ⟨?_, hns, ?_⟩
    · cases hl : alook id m with
      | none => simp
      | some l => exact h.nodup _ _ hl
    · intro a ha b hb e
      subst e
      cases hl : alook id m with
      | none => rw [hl] at ha; simp at ha
      | some l => rw [hl] at ha; exact hdis a hb ⟨l, hl, ha⟩
  · exact h.nodup _ _ h'

/-- the fold of `bookAddL` (append unless already present) -/
theorem mem_foldl_addL (ns : List Node) : ∀ (cur : List Node) x,
    (x ∈ ns.foldl (fun acc n => if acc.contains n then acc else acc ++ [n]) cur ↔ x ∈ cur ∨ x ∈ ns) := by
  induction ns with
  | nil => intro cur x; simp
  | cons a r ih =>
    intro cur x
    simp only [List.foldl_cons, ih, List.mem_cons]
    split
    · rename_i hc
      simp at hc
      grind
    · simp; grind

theorem nodup_foldl_addL (ns : List Node) : ∀ (cur : List Node), cur.Nodup →
    (ns.foldl (fun acc n => if acc.contains n then acc else acc ++ [n]) cur).Nodup := by
  induction ns with
  | nil => intro cur h; exact h
  | cons a r ih =>
    intro cur h
    simp only [List.foldl_cons]
    apply ih
    split
    · exact h
    · rename_i hc
      simp at hc
      rw [List.nodup_append]
      refine ⟨h, by simp, ?_⟩
      intro x hx y hy e
      simp at hy; subst hy; subst e; exact hc hx

theorem inBook_addL (m : List (Nat × List Node)) (ns : List Node) (id id' : Nat) (n : Node) :
    InBook (aset id (ns.foldl (fun acc n => if acc.contains n then acc else acc ++ [n])
        ((alook id m).getD [])) m) id' n ↔ InBook m id' n ∨ (id' = id ∧ n ∈ ns) := by
  unfold InBook
  simp only [alook_aset]
  by_cases e : id' = id
  · subst e
    simp only [if_true]
    cases hl : alook id' m with
    | none => simp only [Option.getD_none, Option.some.injEq, exists_eq_left', mem_foldl_addL]; simp
    | some l => simp only [Option.getD_some, Option.some.injEq, exists_eq_left', mem_foldl_addL]; simp
  · simp [e]

theorem mapWF_addL {m : List (Nat × List Node)} (h : MapWF m) (ns : List Node) (id : Nat) :
    MapWF (aset id (ns.foldl (fun acc n => if acc.contains n then acc else acc ++ [n])
        ((alook id m).getD [])) m) := by
  refine ⟨nodup_keys_aset h.keys, ?_⟩
  intro id' l' h'
  rw [alook_aset] at h'
  split at h'
  · cases h'
    apply nodup_foldl_addL
    cases hl : alook id m with
    | none => simp
    | some l => exact h.nodup _ _ hl
  · exact h.nodup _ _ h'

/-! ### `BookOK` split into its track part and its lineage part -/

structure TOK (s : St) : Prop where
  wf : MapWF s.t2n
  iff : ∀ id n, InBook s.t2n id n ↔ (n ∈ s.ids ∧ s.tidOf n = some id)
  max : ∀ n t, s.tidOf n = some t → t ≤ s.maxTid

structure LOK (s : St) : Prop where
  wf : MapWF s.l2n
  iff : s.linOn = true → ∀ id n, InBook s.l2n id n ↔ (n ∈ s.ids ∧ s.linOf n = some id)
  max : s.linOn = true → ∀ n l, s.linOf n = some l → l ≤ s.maxLin

theorem bookOK_iff (s : St) : BookOK s ↔ TOK s ∧ LOK s := by
  constructor
  · intro h
    exact ⟨⟨⟨h.t_keys, h.t_nodup⟩, h.t_iff, h.t_max⟩, ⟨⟨h.l_keys, h.l_nodup⟩, h.l_iff, h.l_max⟩⟩
  · rintro ⟨ht, hl⟩
    exact ⟨ht.wf.keys, ht.wf.nodup, ht.iff, ht.max, hl.wf.keys, hl.wf.nodup, hl.iff, hl.max⟩

/-! ## Part 2: fresh ids -/

theorem findNode_some_mem {s : St} {n : Node} {r : NodeRec} (h : s.findNode n = some r) :
    r ∈ s.nodes ∧ r.id = n := by
  unfold St.findNode at h
  have h1 := List.mem_of_find?_eq_some h
  have h2 := List.find?_some h
  simp at h2
  exact ⟨h1, h2⟩

theorem hasNode_iff (s : St) (n : Node) : s.hasNode n = true ↔ n ∈ s.ids := by
  unfold St.hasNode St.findNode St.ids
  rw [List.find?_isSome]
  simp

theorem findNode_isSome_iff (s : St) (n : Node) : (s.findNode n).isSome ↔ n ∈ s.ids :=
  hasNode_iff s n

theorem tidOf_some_mem {s : St} {n : Node} {t : Nat} (h : s.tidOf n = some t) : n ∈ s.ids := by
  rw [← findNode_isSome_iff]
  unfold St.tidOf at h
  cases hf : s.findNode n with
  | none => rw [hf] at h; cases h
  | some r => rfl

theorem linOf_some_mem {s : St} {n : Node} {t : Nat} (h : s.linOf n = some t) : n ∈ s.ids := by
  rw [← findNode_isSome_iff]
  unfold St.linOf at h
  cases hf : s.findNode n with
  | none => rw [hf] at h; cases h
  | some r => rfl

theorem timeOf_isSome_iff (s : St) (n : Node) : (s.timeOf n).isSome ↔ n ∈ s.ids := by
  rw [← findNode_isSome_iff]; unfold St.timeOf; simp

/-- what one run of the `while graph.has_node(_id)` loop returns -/
theorem freshFrom_spec (s : St) : ∀ (f x0 c : Nat), x0 < c →
    let r := s.freshFrom f x0 c
    c ≤ r.2 ∧ ((r.1 = x0 ∧ r.2 = c) ∨ (c ≤ r.1 ∧ r.1 < r.2)) ∧
    (s.hasNode r.1 = true → ∃ L : List Nat, L.Nodup ∧ L.length = f + 1 ∧
        (∀ y ∈ L, s.hasNode y = true) ∧ (∀ y ∈ L, y = x0 ∨ c ≤ y)) := by
  intro f
  induction f with
  | zero =>
    intro x0 c _
    simp only [St.freshFrom]
    refine ⟨Nat.le_refl _, Or.inl ⟨trivial, trivial⟩, fun h => ⟨[x0], by simp, rfl, by simpa using h, by simp⟩⟩
  | succ f ih =>
    intro x0 c hlt
    simp only [St.freshFrom]
    split
    · rename_i hn
      have := ih c (c + 1) (Nat.lt_succ_self c)
      simp only at this
      obtain ⟨h1, h2, h3⟩ := this
      refine ⟨by omega, Or.inr (by omega), ?_⟩
      intro hh
      obtain ⟨L, hL1, hL2, hL3, hL4⟩ := h3 hh
      refine ⟨x0 :: L, ?_, by simp [hL2], ?_, ?_⟩
      · rw [List.nodup_cons]
        refine ⟨fun hm => ?_, hL1⟩
        have := hL4 x0 hm
        omega
      · intro y hy
        rcases List.mem_cons.1 hy with e | hy
        · subst e; exact hn
        · exact hL3 y hy
      · intro y hy
        rcases List.mem_cons.1 hy with e | hy
        · exact Or.inl e
        · have := hL4 y hy; omega
    · rename_i hn
      refine ⟨Nat.le_refl _, Or.inl ⟨rfl, rfl⟩, fun h => absurd h hn⟩

theorem freshFrom_fresh (s : St) (x0 c : Nat) (h : x0 < c) :
    s.hasNode (s.freshFrom (s.nodes.length + 1) x0 c).1 = false := by
  cases hh : s.hasNode (s.freshFrom (s.nodes.length + 1) x0 c).1 with
  | false => rfl
  | true =>
    obtain ⟨_, _, h3⟩ := freshFrom_spec s (s.nodes.length + 1) x0 c h
    obtain ⟨L, hL1, hL2, hL3, _⟩ := h3 hh
    have hsub : L ⊆ s.ids := fun y hy => (hasNode_iff s y).1 (hL3 y hy)
    have := hL1.length_le_of_subset hsub
    simp [St.ids] at this
    omega

/-- invariant of the fold of `newNodeIds` after `i` of the `k` candidates -/
theorem newNodeIds_fold (s : St) (k : Nat) : ∀ (i : Nat) (acc : List Nat × Nat), i ≤ k →
    acc.1.Nodup → s.counter + k ≤ acc.2 →
    (∀ x ∈ acc.1, (x < s.counter + (k - i) ∨ s.counter + k ≤ x) ∧ x < acc.2 ∧ s.hasNode x = false) →
    let r := (((List.range' (k - i) i).map (fun j => s.counter + j)).foldl
      (fun (acc : List Nat × Nat) id =>
        let p := s.freshFrom (s.nodes.length + 1) id acc.2
        (acc.1 ++ [p.1], p.2)) acc)
    r.1.Nodup ∧ acc.2 ≤ r.2 ∧ r.1.length = acc.1.length + i ∧
      (∀ x ∈ r.1, x < r.2 ∧ s.hasNode x = false) := by
  intro i
  induction i with
  | zero =>
    intro acc _ h1 _ h3
    simp only [List.range'_zero, List.map_nil, List.foldl_nil]
    exact ⟨h1, Nat.le_refl _, rfl, fun x hx => (h3 x hx).2⟩
  | succ i ih =>
    intro acc hik h1 h2 h3
    simp only [List.range'_succ, List.map_cons, List.foldl_cons]
    have hlt : s.counter + (k - (i + 1)) < acc.2 := by omega
    obtain ⟨f1, f2, _⟩ := freshFrom_spec s (s.nodes.length + 1) _ _ hlt
    have f3 := freshFrom_fresh s _ _ hlt
    skip
    generalize s.freshFrom (s.nodes.length + 1) (s.counter + (k - (i + 1))) acc.2 = p at f1 f2 f3
    have hk : k - (i + 1) + 1 = k - i := by omega
    rw [hk]
    have := ih (acc.1 ++ [p.1], p.2) (by omega) ?_ (by simp only; omega) ?_
    · simp only at this
      obtain ⟨g1, g2, g3, g4⟩ := this
      refine ⟨g1, by omega, ?_, g4⟩
      rw [g3]; simp; omega
    · simp only
      rw [List.nodup_append]
      refine ⟨h1, by simp, ?_⟩
      intro a ha b hb e
      simp at hb; subst hb; subst e
      have := h3 _ ha
      omega
    · intro x hx
      simp only [List.mem_append, List.mem_singleton] at hx
      rcases hx with hx | hx
      · have := h3 x hx
        exact ⟨by omega, by simp only; omega, this.2.2⟩
      · subst hx
        exact ⟨by omega, by simp only; omega, f3⟩

theorem newNodeIds_spec (s : St) (k : Nat) :
    (s.newNodeIds k).2.Nodup ∧ (s.newNodeIds k).2.length = k ∧
    (∀ x ∈ (s.newNodeIds k).2, x ∉ s.ids ∧ x < (s.newNodeIds k).1.counter) ∧
    s.counter + k ≤ (s.newNodeIds k).1.counter ∧
    (s.newNodeIds k).1 = { s with counter := (s.newNodeIds k).1.counter } := by
  have := newNodeIds_fold s k k ([], s.counter + k) (Nat.le_refl _) (by simp) (Nat.le_refl _) (by simp)
  simp only [Nat.sub_self] at this
  rw [← List.range_eq_range'] at this
  obtain ⟨g1, g2, g3, g4⟩ := this
  unfold St.newNodeIds
  refine ⟨g1, by simpa using g3, ?_, g2, rfl⟩
  intro x hx
  have := g4 x hx
  refine ⟨fun hm => ?_, this.1⟩
  rw [← hasNode_iff, this.2] at hm; cases hm

/-! ## Part 3: queries -/

/-- the sort key of `get_track_neighbors` -/
def tm (s : St) (n : Node) : Nat := (s.timeOf n).getD 0

theorem timeOf_eq_tm {s : St} {n : Node} (h : n ∈ s.ids) : s.timeOf n = some (tm s n) := by
  have := (timeOf_isSome_iff s n).2 h
  unfold tm
  cases ht : s.timeOf n with
  | none => rw [ht] at this; cases this
  | some t => rfl

def Sorted (s : St) (l : List Node) : Prop := l.Pairwise (fun a b => tm s a ≤ tm s b)

theorem insByTime_perm (s : St) (x : Node) (l : List Node) : (s.insByTime x l).Perm (x :: l) := by
  induction l with
  | nil => exact List.Perm.refl _
  | cons y ys ih =>
    unfold St.insByTime
    split
    · exact (List.Perm.cons y ih).trans (List.Perm.swap x y ys)
    · exact List.Perm.refl _

theorem insByTime_sorted (s : St) (x : Node) (l : List Node) (h : Sorted s l) :
    Sorted s (s.insByTime x l) := by
  induction l with
  | nil => simp [St.insByTime, Sorted]
  | cons y ys ih =>
    unfold Sorted at h
    rw [List.pairwise_cons] at h
    unfold St.insByTime
    split
    · rename_i hle
      unfold Sorted
      rw [List.pairwise_cons]
      refine ⟨?_, ih h.2⟩
      intro z hz
      rcases List.mem_cons.1 ((insByTime_perm s x ys).mem_iff.1 hz) with e | hz
      · subst e; exact hle
      · exact h.1 z hz
    · rename_i hnle
      have hlt : tm s x < tm s y := Nat.lt_of_not_le hnle
      unfold Sorted
      rw [List.pairwise_cons, List.pairwise_cons]
      refine ⟨?_, h⟩
      intro z hz
      rcases List.mem_cons.1 hz with e | hz
      · subst e; exact Nat.le_of_lt hlt
      · exact Nat.le_trans (Nat.le_of_lt hlt) (h.1 z hz)

theorem sortByTime_aux (s : St) (l : List Node) : ∀ acc, Sorted s acc →
    (l.foldl (fun acc x => s.insByTime x acc) acc).Perm (acc ++ l) ∧
    Sorted s (l.foldl (fun acc x => s.insByTime x acc) acc) := by
  induction l with
  | nil => intro acc h; simp [h]
  | cons x xs ih =>
    intro acc h
    simp only [List.foldl_cons]
    obtain ⟨h1, h2⟩ := ih _ (insByTime_sorted s x acc h)
    refine ⟨h1.trans ?_, h2⟩
    have := (insByTime_perm s x acc).append_right xs
    refine this.trans ?_
    simp only [List.cons_append]
    exact List.perm_middle.symm

theorem sortByTime_perm (s : St) (l : List Node) : (s.sortByTime l).Perm l := by
  have := (sortByTime_aux s l [] (by simp [Sorted])).1
  simpa [St.sortByTime] using this

theorem sortByTime_sorted (s : St) (l : List Node) : Sorted s (s.sortByTime l) :=
  (sortByTime_aux s l [] (by simp [Sorted])).2

/-- the scan over a time-sorted list: last element before `time`, first element after -/
theorem scanNeighbors_spec (s : St) (time : Nat) : ∀ (l : List Node) (p0 : Option Node), Sorted s l →
    ((s.scanNeighbors time l p0).2 = none → ∀ y ∈ l, tm s y ≤ time) ∧
    (∀ x, (s.scanNeighbors time l p0).2 = some x →
        x ∈ l ∧ time < tm s x ∧ ∀ y ∈ l, time < tm s y → tm s x ≤ tm s y) ∧
    (((s.scanNeighbors time l p0).1 = p0 ∧ ∀ y ∈ l, ¬ tm s y < time) ∨
      ∃ x, (s.scanNeighbors time l p0).1 = some x ∧ x ∈ l ∧ tm s x < time ∧
        ∀ y ∈ l, tm s y < time → tm s y ≤ tm s x) := by
  intro l
  induction l with
  | nil => intro p0 _; simp [St.scanNeighbors]
  | cons c cs ih =>
    intro p0 hs
    unfold Sorted at hs
    rw [List.pairwise_cons] at hs
    unfold St.scanNeighbors
    simp only []
    have e : (s.timeOf c).getD 0 = tm s c := rfl
    rw [e]
    by_cases h1 : tm s c < time
    · simp only [h1, if_true]
      obtain ⟨i1, i2, i3⟩ := ih (some c) hs.2
      refine ⟨?_, ?_, ?_⟩
      · intro hn y hy
        rcases List.mem_cons.1 hy with e | hy
        · subst e; exact Nat.le_of_lt h1
        · exact i1 hn y hy
      · intro x hx
        obtain ⟨j1, j2, j3⟩ := i2 x hx
        refine ⟨List.mem_cons_of_mem _ j1, j2, ?_⟩
        intro y hy hty
        rcases List.mem_cons.1 hy with e | hy
        · subst e; omega
        · exact j3 y hy hty
      · right
        rcases i3 with ⟨j1, j2⟩ | ⟨x, j1, j2, j3, j4⟩
        · refine ⟨c, j1, List.mem_cons_self, h1, ?_⟩
          intro y hy hty
          rcases List.mem_cons.1 hy with e | hy
          · subst e; exact Nat.le_refl _
          · exact absurd hty (j2 y hy)
        · refine ⟨x, j1, List.mem_cons_of_mem _ j2, j3, ?_⟩
          intro y hy hty
          rcases List.mem_cons.1 hy with e | hy
          · subst e; exact hs.1 x j2
          · exact j4 y hy hty
    · by_cases h2 : tm s c > time
      · simp only [h1, h2, if_true, if_false]
        refine ⟨(by intro h; cases h), ?_, ?_⟩
        · intro x hx
          cases hx
          refine ⟨List.mem_cons_self, h2, ?_⟩
          intro y hy _
          rcases List.mem_cons.1 hy with e | hy
          · subst e; exact Nat.le_refl _
          · exact hs.1 y hy
        · left
          refine ⟨trivial, ?_⟩
          intro y hy
          rcases List.mem_cons.1 hy with e | hy
          · subst e; exact h1
          · have := hs.1 y hy; omega
      · simp only [h1, h2, if_false]
        obtain ⟨i1, i2, i3⟩ := ih p0 hs.2
        refine ⟨?_, ?_, ?_⟩
        · intro hn y hy
          rcases List.mem_cons.1 hy with e | hy
          · subst e; omega
          · exact i1 hn y hy
        · intro x hx
          obtain ⟨j1, j2, j3⟩ := i2 x hx
          refine ⟨List.mem_cons_of_mem _ j1, j2, ?_⟩
          intro y hy hty
          rcases List.mem_cons.1 hy with e | hy
          · subst e; omega
          · exact j3 y hy hty
        · rcases i3 with ⟨j1, j2⟩ | ⟨x, j1, j2, j3, j4⟩
          · left
            refine ⟨j1, ?_⟩
            intro y hy
            rcases List.mem_cons.1 hy with e | hy
            · subst e; exact h1
            · exact j2 y hy
          · right
            refine ⟨x, j1, List.mem_cons_of_mem _ j2, j3, ?_⟩
            intro y hy hty
            rcases List.mem_cons.1 hy with e | hy
            · subst e; omega
            · exact j4 y hy hty

/-- `get_track_neighbors` only re-sorts one entry of the lookup -/
theorem trackNeighbors_state (s : St) (tid time : Nat) :
    (s.trackNeighbors tid time).1 = { s with t2n := (s.trackNeighbors tid time).1.t2n } ∧
    (MapWF s.t2n → MapWF (s.trackNeighbors tid time).1.t2n) ∧
    (∀ id n, InBook (s.trackNeighbors tid time).1.t2n id n ↔ InBook s.t2n id n) := by
  unfold St.trackNeighbors
  split
  · exact ⟨rfl, id, fun _ _ => Iff.rfl⟩
  · exact ⟨rfl, id, fun _ _ => Iff.rfl⟩
  · rename_i cands hne hc
    simp only []
    refine ⟨trivial, ?_, ?_⟩
    · intro h
      refine ⟨nodup_keys_aset h.keys, ?_⟩
      intro id' l' h'
      rw [alook_aset] at h'
      split at h'
      · cases h'
        exact (sortByTime_perm s cands).nodup_iff.2 (h.nodup _ _ hc)
      · exact h.nodup _ _ h'
    · intro id n
      unfold InBook
      rw [alook_aset]
      by_cases e : id = tid
      · subst e
        simp only [if_true, hc, Option.some.injEq, exists_eq_left']
        exact (sortByTime_perm s cands).mem_iff
      · simp [e]

/-- `get_track_neighbors` against a scan of the graph -/
theorem trackNeighbors_spec (s : St) (h : TOK s) (tid time : Nat) :
    (∀ x, (s.trackNeighbors tid time).2.1 = some x →
        (x ∈ s.ids ∧ s.tidOf x = some tid) ∧ tm s x < time ∧
        ∀ y, y ∈ s.ids → s.tidOf y = some tid → tm s y < time → tm s y ≤ tm s x) ∧
    ((s.trackNeighbors tid time).2.1 = none →
        ∀ y, y ∈ s.ids → s.tidOf y = some tid → ¬ tm s y < time) ∧
    (∀ x, (s.trackNeighbors tid time).2.2 = some x →
        (x ∈ s.ids ∧ s.tidOf x = some tid) ∧ time < tm s x ∧
        ∀ y, y ∈ s.ids → s.tidOf y = some tid → time < tm s y → tm s x ≤ tm s y) ∧
    ((s.trackNeighbors tid time).2.2 = none →
        ∀ y, y ∈ s.ids → s.tidOf y = some tid → ¬ time < tm s y) := by
  have hiff := h.iff tid
  unfold St.trackNeighbors
  split
  · rename_i hc
    have : ∀ y, y ∈ s.ids → s.tidOf y = some tid → False := by
      intro y h1 h2
      obtain ⟨l, hl, _⟩ := (hiff y).2 ⟨h1, h2⟩
      rw [hc] at hl; cases hl
    refine ⟨(by intro x hx; cases hx), fun _ y h1 h2 => (this y h1 h2).elim,
      (by intro x hx; cases hx), fun _ y h1 h2 => (this y h1 h2).elim⟩
  · rename_i hc
    have : ∀ y, y ∈ s.ids → s.tidOf y = some tid → False := by
      intro y h1 h2
      obtain ⟨l, hl, hm⟩ := (hiff y).2 ⟨h1, h2⟩
      rw [hc] at hl; cases hl; cases hm
    refine ⟨(by intro x hx; cases hx), fun _ y h1 h2 => (this y h1 h2).elim,
      (by intro x hx; cases hx), fun _ y h1 h2 => (this y h1 h2).elim⟩
  · rename_i cands hne hc
    simp only []
    have hmem : ∀ y, y ∈ s.sortByTime cands ↔ (y ∈ s.ids ∧ s.tidOf y = some tid) := by
      intro y
      rw [(sortByTime_perm s cands).mem_iff, ← hiff y]
      unfold InBook
      simp [hc]
    obtain ⟨i1, i2, i3⟩ := scanNeighbors_spec s time (s.sortByTime cands) none (sortByTime_sorted s cands)
    refine ⟨?_, ?_, ?_, ?_⟩
    · intro x hx
      rcases i3 with ⟨j1, _⟩ | ⟨x', j1, j2, j3, j4⟩
      · rw [j1] at hx; cases hx
      · rw [j1] at hx; cases hx
        exact ⟨(hmem _).1 j2, j3, fun y h1 h2 => j4 y ((hmem y).2 ⟨h1, h2⟩)⟩
    · intro hx y h1 h2
      rcases i3 with ⟨_, j2⟩ | ⟨x', j1, _⟩
      · exact j2 y ((hmem y).2 ⟨h1, h2⟩)
      · rw [j1] at hx; cases hx
    · intro x hx
      obtain ⟨j1, j2, j3⟩ := i2 x hx
      exact ⟨(hmem _).1 j1, j2, fun y h1 h2 => j3 y ((hmem y).2 ⟨h1, h2⟩)⟩
    · intro hx y h1 h2
      have := i1 hx y ((hmem y).2 ⟨h1, h2⟩)
      omega

theorem hasTrackAt_spec (s : St) (h : TOK s) (tid time : Nat) :
    s.hasTrackAt tid time = true ↔ ∃ n, n ∈ s.ids ∧ s.tidOf n = some tid ∧ s.timeOf n = some time := by
  have hiff := h.iff tid
  unfold St.hasTrackAt
  split
  · rename_i hc
    constructor
    · intro hh; cases hh
    · rintro ⟨n, h1, h2, _⟩
      obtain ⟨l, hl, _⟩ := (hiff n).2 ⟨h1, h2⟩
      rw [hc] at hl; cases hl
  · rename_i l hc
    rw [List.any_eq_true]
    constructor
    · rintro ⟨n, hn, ht⟩
      have := (hiff n).1 ⟨l, hc, hn⟩
      exact ⟨n, this.1, this.2, by simpa using ht⟩
    · rintro ⟨n, h1, h2, h3⟩
      obtain ⟨l', hl, hm⟩ := (hiff n).2 ⟨h1, h2⟩
      rw [hc] at hl; cases hl
      exact ⟨n, hm, by simp [h3]⟩

/-! ## Part 4: node updates -/

theorem find_map_upd (l : List NodeRec) (n m : Node) (f : NodeRec → NodeRec)
    (hf : ∀ r, (f r).id = r.id) :
    (l.map (fun r => if r.id == n then f r else r)).find? (·.id == m) =
      if m = n then (l.find? (·.id == n)).map f else l.find? (·.id == m) := by
  induction l with
  | nil => simp
  | cons r rs ih =>
    simp only [List.map_cons, List.find?_cons]
    by_cases h1 : r.id = n
    · by_cases h2 : m = n
      · subst h2; subst h1; simp [hf]
      · have h1' : (r.id == n) = true := by simp [h1]
        have h3 : (r.id == m) = false := by simp; exact fun e => h2 (e ▸ h1)
        have h4 : ((f r).id == m) = false := by rw [hf]; exact h3
        simp only [h1', if_true, h4, h3, h2, if_false]
        rw [ih]; simp [h2]
    · have h1' : (r.id == n) = false := by simp [h1]
      simp only [h1', Bool.false_eq_true, if_false]
      by_cases h2 : m = n
      · subst h2
        simp only [h1', if_true]
        rw [ih]; simp
      · by_cases h3 : r.id = m
        · simp [h3, h2]
        · have h3' : (r.id == m) = false := by simp [h3]
          simp only [h3', h2, if_false]
          rw [ih]; simp [h2]

theorem findNode_updNode (s : St) (n m : Node) (f : NodeRec → NodeRec) (hf : ∀ r, (f r).id = r.id) :
    (s.updNode n f).findNode m = if m = n then (s.findNode n).map f else s.findNode m :=
  find_map_upd s.nodes n m f hf

theorem ids_updNode (s : St) (n : Node) (f : NodeRec → NodeRec) (hf : ∀ r, (f r).id = r.id) :
    (s.updNode n f).ids = s.ids := by
  unfold St.updNode St.ids
  simp only [List.map_map]
  apply List.map_congr_left
  intro r _
  simp only [Function.comp]
  split
  · exact hf r
  · rfl

theorem ids_setTid (s : St) (n : Node) (t : Nat) : (s.setTid n t).ids = s.ids :=
  ids_updNode s n _ (fun _ => rfl)
theorem ids_setLin (s : St) (n : Node) (l : Option Nat) : (s.setLin n l).ids = s.ids :=
  ids_updNode s n _ (fun _ => rfl)

theorem tidOf_setTid (s : St) (n m : Node) (t : Nat) :
    (s.setTid n t).tidOf m = if m = n then (if n ∈ s.ids then some t else none) else s.tidOf m := by
  unfold St.tidOf St.setTid
  rw [findNode_updNode s n m (fun r => { r with tid := t }) (fun _ => rfl)]
  by_cases h : m = n
  · subst h
    simp only [if_true]
    cases hf : s.findNode m with
    | none =>
      have : ¬ m ∈ s.ids := by rw [← findNode_isSome_iff, hf]; simp
      simp [this]
    | some r =>
      have : m ∈ s.ids := by rw [← findNode_isSome_iff, hf]; simp
      simp [this]
  · simp [h]

theorem linOf_setTid (s : St) (n m : Node) (t : Nat) : (s.setTid n t).linOf m = s.linOf m := by
  unfold St.linOf St.setTid
  rw [findNode_updNode s n m (fun r => { r with tid := t }) (fun _ => rfl)]
  by_cases h : m = n
  · subst h; cases s.findNode m <;> simp
  · simp [h]

theorem timeOf_setTid (s : St) (n m : Node) (t : Nat) : (s.setTid n t).timeOf m = s.timeOf m := by
  unfold St.timeOf St.setTid
  rw [findNode_updNode s n m (fun r => { r with tid := t }) (fun _ => rfl)]
  by_cases h : m = n
  · subst h; cases s.findNode m <;> simp
  · simp [h]

theorem linOf_setLin (s : St) (n m : Node) (l : Option Nat) :
    (s.setLin n l).linOf m = if m = n then (if n ∈ s.ids then l else none) else s.linOf m := by
  unfold St.linOf St.setLin
  rw [findNode_updNode s n m (fun r => { r with lin := l }) (fun _ => rfl)]
  by_cases h : m = n
  · subst h
    simp only [if_true]
    cases hf : s.findNode m with
    | none =>
      have : ¬ m ∈ s.ids := by rw [← findNode_isSome_iff, hf]; simp
      simp [this]
    | some r =>
      have : m ∈ s.ids := by rw [← findNode_isSome_iff, hf]; simp
      simp [this]
  · simp [h]

theorem tidOf_setLin (s : St) (n m : Node) (l : Option Nat) : (s.setLin n l).tidOf m = s.tidOf m := by
  unfold St.tidOf St.setLin
  rw [findNode_updNode s n m (fun r => { r with lin := l }) (fun _ => rfl)]
  by_cases h : m = n
  · subst h; cases s.findNode m <;> simp
  · simp [h]

theorem timeOf_setLin (s : St) (n m : Node) (l : Option Nat) : (s.setLin n l).timeOf m = s.timeOf m := by
  unfold St.timeOf St.setLin
  rw [findNode_updNode s n m (fun r => { r with lin := l }) (fun _ => rfl)]
  by_cases h : m = n
  · subst h; cases s.findNode m <;> simp
  · simp [h]

/-! ### congruence: the invariants only read ids / tid / lin / times / edges / the lookups -/

theorem TOK_congr {s s' : St} (hi : s'.ids = s.ids) (ht : ∀ n, s'.tidOf n = s.tidOf n)
    (hm : s'.t2n = s.t2n) (hx : s'.maxTid = s.maxTid) (h : TOK s) : TOK s' := by
  refine ⟨by rw [hm]; exact h.wf, ?_, ?_⟩
  · intro id n; rw [hm, hi, ht]; exact h.iff id n
  · intro n t; rw [ht, hx]; exact h.max n t

theorem LOK_congr {s s' : St} (hi : s'.ids = s.ids) (ht : ∀ n, s'.linOf n = s.linOf n)
    (hm : s'.l2n = s.l2n) (hx : s'.maxLin = s.maxLin) (ho : s'.linOn = s.linOn) (h : LOK s) :
    LOK s' := by
  refine ⟨by rw [hm]; exact h.wf, ?_, ?_⟩
  · intro hon id n; rw [hm, hi, ht]; exact h.iff (ho ▸ hon) id n
  · intro hon n t; rw [ht, hx]; exact h.max (ho ▸ hon) n t

theorem Forest_congr {s s' : St} (hi : s'.ids = s.ids) (he : s'.edges = s.edges)
    (ht : ∀ n, s'.timeOf n = s.timeOf n) (h : Forest s) : Forest s' := by
  have hel : s'.edgeList = s.edgeList := by unfold St.edgeList; rw [he]
  have hin : ∀ v, s'.indeg v = s.indeg v := by intro v; unfold St.indeg St.preds; rw [he]
  have hout : ∀ v, s'.outdeg v = s.outdeg v := by intro v; unfold St.outdeg St.succs; rw [he]
  refine ⟨by rw [hi]; exact h.nodup_nodes, by rw [hel]; exact h.nodup_edges, ?_, ?_, ?_, ?_, ?_⟩
  · rw [hel, hi]; exact h.src_mem
  · rw [hel, hi]; exact h.dst_mem
  · rw [hel]; intro e he t1 t2; rw [ht, ht]; exact h.forward e he t1 t2
  · intro v; rw [hin]; exact h.indeg_le v
  · intro v; rw [hout]; exact h.outdeg_le v

/-! ### moving, adding, removing nodes in the lookups -/

theorem TOK_move {s0 s : St} {ns : List Node} {old new : Nat} (h0 : TOK s0)
    (hm : s.t2n = s0.t2n) (hx : s.maxTid = s0.maxTid) (hi : s.ids = s0.ids) (hns : ns.Nodup)
    (hin : ∀ n ∈ ns, s0.tidOf n = some old ∧ s.tidOf n = some new)
    (hout : ∀ n, n ∉ ns → s.tidOf n = s0.tidOf n) :
    TOK (s.bookMoveT ns old new) := by
  have hwf1 : MapWF (bookRem s0.t2n ns old) := mapWF_bookRem h0.wf ns old
  have hib1 := inBook_bookRem h0.wf ns old
  have hdis : ∀ n ∈ ns, ¬ InBook (bookRem s0.t2n ns old) new n := by
    intro n hn hb
    rw [hib1] at hb
    have h1 := (h0.iff new n).1 hb.1
    rw [(hin n hn).1] at h1
    have : old = new := by have := h1.2; simpa using this
    exact hb.2 ⟨this.symm, hn⟩
  refine ⟨?_, ?_, ?_⟩
  · show MapWF (aset new ((alook new (bookRem s.t2n ns old)).getD [] ++ ns) (bookRem s.t2n ns old))
    rw [hm]; exact mapWF_addT hwf1 ns new hns hdis
  · intro id n
    show InBook (aset new ((alook new (bookRem s.t2n ns old)).getD [] ++ ns) (bookRem s.t2n ns old)) id n
      ↔ (n ∈ s.ids ∧ s.tidOf n = some id)
    rw [hm, inBook_addT, hib1, h0.iff, hi]
    by_cases hn : n ∈ ns
    · obtain ⟨h1, h2⟩ := hin n hn
      have hmem := tidOf_some_mem h1
      rw [h1, h2]
      simp only [Option.some.injEq]
      constructor
      · rintro (⟨⟨_, e⟩, hne⟩ | ⟨e, _⟩)
        · exact absurd ⟨e.symm, hn⟩ hne
        · exact ⟨hmem, e.symm⟩
      · rintro ⟨_, e⟩; exact Or.inr ⟨e.symm, hn⟩
    · rw [hout n hn]
      constructor
      · rintro (⟨h1, _⟩ | ⟨_, h2⟩)
        · exact h1
        · exact absurd h2 hn
      · intro h1; exact Or.inl ⟨h1, fun h2 => hn h2.2⟩
  · intro n t ht
    show t ≤ if new > s.maxTid then new else s.maxTid
    change s.tidOf n = some t at ht
    by_cases hn : n ∈ ns
    · rw [(hin n hn).2] at ht
      cases ht; split <;> omega
    · rw [hout n hn] at ht
      have := h0.max n t ht
      rw [hx]; split <;> omega

theorem LOK_move {s0 s : St} {ns : List Node} {old : Option Nat} {new : Nat} (h0 : LOK s0)
    (hm : s.l2n = s0.l2n) (hx : s.maxLin = s0.maxLin) (hi : s.ids = s0.ids) (ho : s.linOn = s0.linOn)
    (hin : ∀ n ∈ ns, n ∈ s0.ids ∧ s0.linOf n = old ∧ s.linOf n = some new)
    (hout : ∀ n, n ∉ ns → s.linOf n = s0.linOf n) :
    LOK (s.bookMoveL ns old new) := by
  -- the map after the optional removal
  have key : ∃ m1, (s.bookMoveL ns old new).l2n = aset new (ns.foldl (fun acc n => if acc.contains n then acc else acc ++ [n])
        ((alook new m1).getD [])) m1 ∧ MapWF m1 ∧
      (s0.linOn = true → ∀ id n, InBook m1 id n ↔ InBook s0.l2n id n ∧ n ∉ ns) := by
    cases old with
    | none =>
      refine ⟨s0.l2n, by rw [← hm]; rfl, h0.wf, ?_⟩
      intro hon id n
      constructor
      · intro hb
        refine ⟨hb, fun hn => ?_⟩
        have := ((h0.iff hon id n).1 hb).2
        rw [(hin n hn).2.1] at this; cases this
      · exact fun h => h.1
    | some o =>
      refine ⟨bookRem s0.l2n ns o, by rw [← hm]; rfl, mapWF_bookRem h0.wf ns o, ?_⟩
      intro hon id n
      rw [inBook_bookRem h0.wf]
      constructor
      · rintro ⟨hb, hne⟩
        refine ⟨hb, fun hn => hne ⟨?_, hn⟩⟩
        have := ((h0.iff hon id n).1 hb).2
        rw [(hin n hn).2.1] at this
        exact (Option.some.inj this).symm
      · rintro ⟨hb, hn⟩; exact ⟨hb, fun h => hn h.2⟩
  obtain ⟨m1, hl2n, hwf1, hib1⟩ := key
  have hlin : ∀ n, (s.bookMoveL ns old new).linOf n = s.linOf n := by
    intro n; cases old <;> rfl
  have hids : (s.bookMoveL ns old new).ids = s.ids := by cases old <;> rfl
  have hon' : (s.bookMoveL ns old new).linOn = s.linOn := by cases old <;> rfl
  have hmax : (s.bookMoveL ns old new).maxLin = if new > s.maxLin then new else s.maxLin := by
    cases old <;> rfl
  refine ⟨by rw [hl2n]; exact mapWF_addL hwf1 ns new, ?_, ?_⟩
  · intro hon id n
    rw [hon', ho] at hon
    rw [hl2n, inBook_addL, hib1 hon, h0.iff hon, hlin, hids, hi]
    by_cases hn : n ∈ ns
    · obtain ⟨h1, h2, h3⟩ := hin n hn
      rw [h3]
      simp only [Option.some.injEq]
      constructor
      · rintro (⟨_, hne⟩ | ⟨e, _⟩)
        · exact absurd hn hne
        · exact ⟨h1, e.symm⟩
      · rintro ⟨_, e⟩; exact Or.inr ⟨e.symm, hn⟩
    · rw [hout n hn]
      constructor
      · rintro (⟨h1, _⟩ | ⟨_, h2⟩)
        · exact h1
        · exact absurd h2 hn
      · intro h1; exact Or.inl ⟨h1, hn⟩
  · intro hon n t ht
    rw [hon', ho] at hon
    rw [hlin] at ht
    rw [hmax]
    by_cases hn : n ∈ ns
    · rw [(hin n hn).2.2] at ht
      cases ht; split <;> omega
    · rw [hout n hn] at ht
      have := h0.max hon n t ht
      rw [hx]; split <;> omega

/-! ### the relabel walk -/

theorem walkNode_proj (old new : Nat) (newLin : Option Nat) (updLin : Bool) (a : WalkAcc) (n : Node) :
    (walkNode old new newLin updLin a n).s =
      (if (a.flag && ((if updLin then a.s.setLin n newLin else a.s).tidOf n == some old)) = true
        then (if updLin then a.s.setLin n newLin else a.s).setTid n new
        else (if updLin then a.s.setLin n newLin else a.s)) ∧
    (walkNode old new newLin updLin a n).tNodes =
      (if (a.flag && ((if updLin then a.s.setLin n newLin else a.s).tidOf n == some old)) = true
        then a.tNodes ++ [n] else a.tNodes) ∧
    (walkNode old new newLin updLin a n).lNodes = (if updLin then a.lNodes ++ [n] else a.lNodes) ∧
    (walkNode old new newLin updLin a n).next =
      a.next ++ (walkNode old new newLin updLin a n).s.succs n := by
  unfold walkNode
  cases hf : a.flag <;>
    cases ht : ((if updLin = true then a.s.setLin n newLin else a.s).tidOf n == some old) <;>
    simp [ht]

theorem succs_congr {s s' : St} (h : s'.edges = s.edges) (n : Node) : s'.succs n = s.succs n := by
  unfold St.succs; rw [h]

/-- what the walk has done so far, relative to the state `s0` it started from; `V` = nodes visited -/
structure DInv (s0 : St) (old new : Nat) (newLin : Option Nat) (updLin : Bool) (a : WalkAcc)
    (V : List Node) : Prop where
  frame : a.s = { s0 with nodes := a.s.nodes }
  ids : a.s.ids = s0.ids
  time : ∀ n, a.s.timeOf n = s0.timeOf n
  tsub : a.tNodes.Sublist V
  t_in : ∀ n ∈ a.tNodes, s0.tidOf n = some old ∧ a.s.tidOf n = some new
  t_out : ∀ n, n ∉ a.tNodes → a.s.tidOf n = s0.tidOf n
  lN : a.lNodes = if updLin then V else []
  l_in : ∀ n ∈ a.lNodes, n ∈ s0.ids → a.s.linOf n = newLin
  l_out : ∀ n, n ∉ a.lNodes → a.s.linOf n = s0.linOf n

theorem frame_setLin {s0 s : St} (h : s = { s0 with nodes := s.nodes }) (n : Node) (l : Option Nat) :
    s.setLin n l = { s0 with nodes := (s.setLin n l).nodes } := by
  unfold St.setLin St.updNode
  simp only []
  rw [h]

theorem frame_setTid {s0 s : St} (h : s = { s0 with nodes := s.nodes }) (n : Node) (t : Nat) :
    s.setTid n t = { s0 with nodes := (s.setTid n t).nodes } := by
  unfold St.setTid St.updNode
  simp only []
  rw [h]

theorem DInv_step {s0 : St} {old new : Nat} {newLin : Option Nat} {updLin : Bool} {a : WalkAcc}
    {V : List Node} (h : DInv s0 old new newLin updLin a V) (n : Node) :
    DInv s0 old new newLin updLin (walkNode old new newLin updLin a n) (V ++ [n]) := by
  obtain ⟨p1, p2, p3, _⟩ := walkNode_proj old new newLin updLin a n
  -- the state after the optional lineage write
  have s1 : ∃ s1, (if updLin then a.s.setLin n newLin else a.s) = s1 ∧
      s1 = { s0 with nodes := s1.nodes } ∧ s1.ids = s0.ids ∧ (∀ m, s1.timeOf m = s0.timeOf m) ∧
      (∀ m, s1.tidOf m = a.s.tidOf m) ∧
      (∀ m, s1.linOf m = if updLin = true ∧ m = n then (if n ∈ s0.ids then newLin else none)
          else a.s.linOf m) := by
    refine ⟨_, rfl, ?_⟩
    cases updLin with
    | false => simp; exact ⟨h.frame, h.ids, h.time⟩
    | true =>
      simp only [if_true, true_and]
      refine ⟨frame_setLin h.frame n newLin, by rw [ids_setLin]; exact h.ids,
        fun m => by rw [timeOf_setLin]; exact h.time m, fun m => tidOf_setLin _ _ _ _, ?_⟩
      intro m; rw [linOf_setLin, h.ids]
  obtain ⟨s1, e1, f1, f2, f3, f4, f5⟩ := s1
  rw [e1] at p1 p2
  have hl_in : ∀ m ∈ (walkNode old new newLin updLin a n).lNodes, m ∈ s0.ids → s1.linOf m = newLin := by
    intro m hm hmi
    rw [p3] at hm
    rw [f5]
    cases updLin with
    | false => simp at hm ⊢; exact h.l_in m hm hmi
    | true =>
      simp only [if_true, List.mem_append, List.mem_singleton] at hm
      by_cases e : m = n
      · subst e; simp [hmi]
      · simp only [e, and_false, if_false]
        rcases hm with hm | hm
        · exact h.l_in m hm hmi
        · exact absurd hm e
  have hl_out : ∀ m, m ∉ (walkNode old new newLin updLin a n).lNodes → s1.linOf m = s0.linOf m := by
    intro m hm
    rw [p3] at hm
    rw [f5]
    cases updLin with
    | false => simp at hm ⊢; exact h.l_out m hm
    | true =>
      simp only [if_true, List.mem_append, List.mem_singleton, not_or] at hm
      simp only [hm.2, and_false, if_false]
      exact h.l_out m hm.1
  have hlN : (walkNode old new newLin updLin a n).lNodes = if updLin then V ++ [n] else [] := by
    rw [p3, h.lN]; cases updLin <;> simp
  by_cases hit : (a.flag && (s1.tidOf n == some old)) = true
  · rw [if_pos hit] at p1 p2
    have ht : a.s.tidOf n = some old := by
      simp only [Bool.and_eq_true, beq_iff_eq] at hit
      rw [← f4]; exact hit.2
    have hn : n ∈ s0.ids := by rw [← h.ids]; exact tidOf_some_mem ht
    refine ⟨?_, ?_, ?_, ?_, ?_, ?_, hlN, ?_, ?_⟩
    · rw [p1]; exact frame_setTid f1 n new
    · rw [p1, ids_setTid]; exact f2
    · intro m; rw [p1, timeOf_setTid]; exact f3 m
    · rw [p2]; exact List.Sublist.append h.tsub (List.Sublist.refl _)
    · intro m hm
      rw [p2, List.mem_append, List.mem_singleton] at hm
      rw [p1, tidOf_setTid, f2]
      by_cases e : m = n
      · subst e
        simp only [if_true, hn, and_true]
        by_cases hm' : m ∈ a.tNodes
        · exact (h.t_in m hm').1
        · rw [← h.t_out m hm']; exact ht
      · simp only [e, if_false]
        rcases hm with hm | hm
        · rw [f4]; exact h.t_in m hm
        · exact absurd hm e
    · intro m hm
      rw [p2, List.mem_append, List.mem_singleton, not_or] at hm
      rw [p1, tidOf_setTid]
      simp only [hm.2, if_false]
      rw [f4]; exact h.t_out m hm.1
    · intro m hm hmi; rw [p1, linOf_setTid]; exact hl_in m hm hmi
    · intro m hm; rw [p1, linOf_setTid]; exact hl_out m hm
  · rw [if_neg hit] at p1 p2
    refine ⟨?_, ?_, ?_, ?_, ?_, ?_, hlN, ?_, ?_⟩
    · rw [p1]; exact f1
    · rw [p1]; exact f2
    · intro m; rw [p1]; exact f3 m
    · rw [p2]; exact h.tsub.trans (List.sublist_append_left _ _)
    · intro m hm; rw [p2] at hm; rw [p1, f4]; exact h.t_in m hm
    · intro m hm; rw [p2] at hm; rw [p1, f4]; exact h.t_out m hm
    · intro m hm hmi; rw [p1]; exact hl_in m hm hmi
    · intro m hm; rw [p1]; exact hl_out m hm

/-- breadth-first search in a forest: `V` visited, `Q` queued -/
structure BInv (s0 : St) (start : Node) (V Q : List Node) : Prop where
  nodup : (V ++ Q).Nodup
  anc : ∀ x ∈ V ++ Q, Anc s0 start x
  par : ∀ x ∈ V ++ Q, x = start ∨ ∃ p ∈ V, (p, x) ∈ s0.edgeList
  closed : ∀ p ∈ V, ∀ c, (p, c) ∈ s0.edgeList → c ∈ V ++ Q

theorem mem_succs (s : St) (u c : Node) : c ∈ s.succs u ↔ (u, c) ∈ s.edgeList := by
  unfold St.succs St.edgeList
  simp only [List.mem_map, List.mem_filter, beq_iff_eq]
  constructor
  · rintro ⟨r, ⟨hr, e1⟩, e2⟩
    exact ⟨r, hr, by rw [← e1, ← e2]⟩
  · rintro ⟨r, hr, e⟩
    exact ⟨r, ⟨hr, by rw [e]⟩, by rw [e]⟩

theorem mem_preds (s : St) (v p : Node) : p ∈ s.preds v ↔ (p, v) ∈ s.edgeList := by
  unfold St.preds St.edgeList
  simp only [List.mem_map, List.mem_filter, beq_iff_eq]
  constructor
  · rintro ⟨r, ⟨hr, e1⟩, e2⟩
    exact ⟨r, hr, by rw [← e1, ← e2]⟩
  · rintro ⟨r, hr, e⟩
    exact ⟨r, ⟨hr, by rw [e]⟩, by rw [e]⟩

theorem nodup_succs {s : St} (h : s.edgeList.Nodup) (u : Node) : (s.succs u).Nodup := by
  unfold St.succs
  unfold St.edgeList at h
  have h1 : ((s.edges.filter (·.e.1 == u)).map (·.e)).Nodup :=
    (List.Sublist.map _ List.filter_sublist).nodup h
  have : (s.edges.filter (·.e.1 == u)).map (·.e.2) =
      ((s.edges.filter (·.e.1 == u)).map (·.e)).map (·.2) := by simp
  rw [this]
  unfold List.Nodup at h1 ⊢
  rw [List.pairwise_map]
  refine List.Pairwise.imp_of_mem ?_ h1
  intro x y hx hy hne e
  apply hne
  simp only [List.mem_map, List.mem_filter, beq_iff_eq] at hx hy
  obtain ⟨rx, ⟨_, ex⟩, rfl⟩ := hx
  obtain ⟨ry, ⟨_, ey⟩, rfl⟩ := hy
  exact Prod.ext (ex.trans ey.symm) e

theorem parent_unique {s : St} (h : Forest s) {p q c : Node} (hp : (p, c) ∈ s.edgeList)
    (hq : (q, c) ∈ s.edgeList) : p = q := by
  have h1 := (mem_preds s c p).2 hp
  have h2 := (mem_preds s c q).2 hq
  have hl : (s.preds c).length ≤ 1 := h.indeg_le c
  match hpc : s.preds c, hl with
  | [], _ => rw [hpc] at h1; cases h1
  | [x], _ =>
    rw [hpc] at h1 h2
    simp at h1 h2
    rw [h1, h2]
  | _ :: _ :: _, hl => simp at hl

theorem forest_tm_lt {s : St} (h : Forest s) {u v : Node} (he : (u, v) ∈ s.edgeList) :
    tm s u < tm s v := by
  have h1 := timeOf_eq_tm (h.src_mem _ he)
  have h2 := timeOf_eq_tm (h.dst_mem _ he)
  exact h.forward _ he _ _ h1 h2

theorem anc_closed {s : St} {P : Node → Prop} {a b : Node} (h : Anc s a b) (h0 : P a)
    (hstep : ∀ p c, P p → (p, c) ∈ s.edgeList → P c) : P b := by
  induction h with
  | refl => exact h0
  | step p c _ he ih => exact hstep p c ih he

theorem anc_tm_le {s : St} (hF : Forest s) {a b : Node} (h : Anc s a b) : tm s a ≤ tm s b :=
  anc_closed (P := fun x => tm s a ≤ tm s x) h (Nat.le_refl _)
    (fun _ _ hp he => Nat.le_trans hp (Nat.le_of_lt (forest_tm_lt hF he)))

theorem anc_mem {s : St} (hF : Forest s) {a b : Node} (h : Anc s a b) (ha : a ∈ s.ids) : b ∈ s.ids :=
  anc_closed (P := fun x => x ∈ s.ids) h ha (fun _ _ _ he => hF.dst_mem _ he)

theorem BInv_step {s0 : St} (hF : Forest s0) {start n : Node} {V Q : List Node}
    (h : BInv s0 start V (n :: Q)) : BInv s0 start (V ++ [n]) (Q ++ s0.succs n) := by
  have hnd : (V ++ ([n] ++ Q)).Nodup := h.nodup
  have hanc_n : Anc s0 start n := h.anc n (by simp)
  have hfresh : ∀ c ∈ s0.succs n, c ∉ V ++ (n :: Q) := by
    intro c hc hm
    have he := (mem_succs s0 n c).1 hc
    rcases h.par c hm with e | ⟨p, hp, hpe⟩
    · subst e
      have h1 := forest_tm_lt hF he
      have h2 := anc_tm_le hF hanc_n
      omega
    · have : p = n := parent_unique hF hpe he
      subst this
      have := (List.nodup_append.1 hnd).2.2 p hp p (by simp)
      exact this rfl
  refine ⟨?_, ?_, ?_, ?_⟩
  · have e : V ++ [n] ++ (Q ++ s0.succs n) = (V ++ (n :: Q)) ++ s0.succs n := by simp
    rw [e, List.nodup_append]
    refine ⟨h.nodup, nodup_succs hF.nodup_edges n, ?_⟩
    intro a ha b hb e
    subst e
    exact hfresh a hb ha
  · intro x hx
    have : x ∈ V ++ (n :: Q) ∨ x ∈ s0.succs n := by
      simp only [List.mem_append, List.mem_cons, List.not_mem_nil, or_false] at hx ⊢
      grind
    rcases this with hx | hx
    · exact h.anc x hx
    · exact Anc.step start n x hanc_n ((mem_succs s0 n x).1 hx)
  · intro x hx
    have : x ∈ V ++ (n :: Q) ∨ x ∈ s0.succs n := by
      simp only [List.mem_append, List.mem_cons, List.not_mem_nil, or_false] at hx ⊢
      grind
    rcases this with hx | hx
    · rcases h.par x hx with e | ⟨p, hp, hpe⟩
      · exact Or.inl e
      · exact Or.inr ⟨p, List.mem_append_left _ hp, hpe⟩
    · exact Or.inr ⟨n, by simp, (mem_succs s0 n x).1 hx⟩
  · intro p hp c he
    rcases List.mem_append.1 hp with hp | hp
    · have := h.closed p hp c he
      simp only [List.mem_append, List.mem_cons] at this ⊢
      grind
    · simp only [List.mem_singleton] at hp
      subst hp
      have := (mem_succs s0 p c).2 he
      simp only [List.mem_append]
      exact Or.inr (Or.inr this)

theorem walk_fold {s0 : St} (hF : Forest s0) {start : Node} {old new : Nat} {newLin : Option Nat}
    {updLin : Bool} : ∀ (R : List Node) (a : WalkAcc) (V : List Node),
    DInv s0 old new newLin updLin a V → BInv s0 start V (R ++ a.next) →
    DInv s0 old new newLin updLin (R.foldl (walkNode old new newLin updLin) a) (V ++ R) ∧
    BInv s0 start (V ++ R) (R.foldl (walkNode old new newLin updLin) a).next := by
  intro R
  induction R with
  | nil => intro a V hd hb; simpa using ⟨hd, hb⟩
  | cons n R ih =>
    intro a V hd hb
    simp only [List.foldl_cons]
    have hd' := DInv_step hd n
    have hnext : (walkNode old new newLin updLin a n).next = a.next ++ s0.succs n := by
      rw [(walkNode_proj old new newLin updLin a n).2.2.2]
      congr 1
      apply succs_congr
      rw [hd'.frame]
    have hb' : BInv s0 start (V ++ [n]) (R ++ (walkNode old new newLin updLin a n).next) := by
      rw [hnext, ← List.append_assoc]
      exact BInv_step hF hb
    have := ih _ _ hd' hb'
    simpa using this

theorem walk_levels {s0 : St} (hF : Forest s0) {start : Node} {old new : Nat} {newLin : Option Nat}
    {updLin : Bool} : ∀ (fuel : Nat) (a : WalkAcc) (V : List Node),
    DInv s0 old new newLin updLin a V → BInv s0 start V a.next →
    ∃ V', DInv s0 old new newLin updLin (walkLevels old new newLin updLin fuel a) V' ∧
      BInv s0 start V' (walkLevels old new newLin updLin fuel a).next := by
  intro fuel
  induction fuel with
  | zero => intro a V hd hb; exact ⟨V, hd, hb⟩
  | succ f ih =>
    intro a V hd hb
    unfold walkLevels
    split
    · exact ⟨V, hd, hb⟩
    · rename_i curr hne
      have hd0 : DInv s0 old new newLin updLin { a with next := [] } V :=
        ⟨hd.frame, hd.ids, hd.time, hd.tsub, hd.t_in, hd.t_out, hd.lN, hd.l_in, hd.l_out⟩
      have hb0 : BInv s0 start V (a.next ++ ({ a with next := [] } : WalkAcc).next) := by
        simpa using hb
      obtain ⟨h1, h2⟩ := walk_fold hF a.next _ V hd0 hb0
      exact ih _ _ h1 h2

/-- the accumulator the walk ends with -/
def walkEnd (s : St) (start : Node) (oldT newT : Nat) (newL : Option Nat) : WalkAcc :=
  walkLevels oldT newT newL (newL.isSome && s.linOn) (s.nodes.length + 1)
    { s := s, flag := true, tNodes := [], lNodes := [], next := [start] }

theorem walk_cases (s : St) (start : Node) (oldT newT : Nat) (oldL newL : Option Nat) :
    ((newL.isSome && s.linOn) = false ∧
      s.walk start oldT newT oldL newL =
        (walkEnd s start oldT newT newL).s.bookMoveT (walkEnd s start oldT newT newL).tNodes oldT newT) ∨
    (∃ nl, newL = some nl ∧ s.linOn = true ∧
      s.walk start oldT newT oldL newL =
        ((walkEnd s start oldT newT newL).s.bookMoveT (walkEnd s start oldT newT newL).tNodes oldT newT).bookMoveL
          (walkEnd s start oldT newT newL).lNodes oldL nl) := by
  unfold St.walk walkEnd
  cases newL with
  | none => left; simp
  | some nl =>
    cases h : s.linOn with
    | false => left; simp
    | true => right; exact ⟨nl, rfl, rfl, by simp⟩

theorem walkEnd_inv {s : St} (hF : Forest s) {start : Node} (hs : start ∈ s.ids) (oldT newT : Nat)
    (newL : Option Nat) :
    ∃ V, DInv s oldT newT newL (newL.isSome && s.linOn) (walkEnd s start oldT newT newL) V ∧
      BInv s start V (walkEnd s start oldT newT newL).next := by
  unfold walkEnd
  apply walk_levels hF _ _ []
  · refine ⟨rfl, rfl, fun _ => rfl, List.Sublist.refl _, by simp, fun _ _ => rfl, by simp,
      by simp, fun _ _ => rfl⟩
  · refine ⟨by simp, ?_, ?_, by simp⟩
    · intro x hx; simp at hx; subst hx; exact Anc.refl _
    · intro x hx; simp at hx; exact Or.inl hx

theorem bookMoveL_TOK {s : St} (ns : List Node) (old : Option Nat) (new : Nat) (h : TOK s) :
    TOK (s.bookMoveL ns old new) := by
  cases old with
  | none => exact TOK_congr (s := s) (s' := s.bookMoveL ns none new) rfl (fun _ => rfl) rfl rfl h
  | some o => exact TOK_congr (s := s) (s' := s.bookMoveL ns (some o) new) rfl (fun _ => rfl) rfl rfl h

theorem walk_TOK {s : St} (hF : Forest s) (hT : TOK s) {start : Node} (hs : start ∈ s.ids)
    (oldT newT : Nat) (oldL newL : Option Nat) : TOK (s.walk start oldT newT oldL newL) := by
  obtain ⟨V, hd, hb⟩ := walkEnd_inv hF hs oldT newT newL
  have hnd : (walkEnd s start oldT newT newL).tNodes.Nodup :=
    hd.tsub.nodup (List.nodup_append.1 hb.nodup).1
  have key : TOK ((walkEnd s start oldT newT newL).s.bookMoveT (walkEnd s start oldT newT newL).tNodes oldT newT) := by
    apply TOK_move hT _ _ hd.ids hnd hd.t_in hd.t_out
    · rw [hd.frame]
    · rw [hd.frame]
  rcases walk_cases s start oldT newT oldL newL with ⟨_, e⟩ | ⟨nl, _, _, e⟩
  · rw [e]; exact key
  · rw [e]; exact bookMoveL_TOK _ _ _ key

theorem walk_LOK {s : St} (hF : Forest s) (hL : LOK s) {start : Node} (hs : start ∈ s.ids)
    (oldT newT : Nat) (oldL newL : Option Nat)
    (hlin : s.linOn = true → newL.isSome → ∀ x, Anc s start x → s.linOf x = oldL) :
    LOK (s.walk start oldT newT oldL newL) := by
  obtain ⟨V, hd, hb⟩ := walkEnd_inv hF hs oldT newT newL
  rcases walk_cases s start oldT newT oldL newL with ⟨hu, e⟩ | ⟨nl, hnl, hon, e⟩
  · rw [e]
    have hlN : (walkEnd s start oldT newT newL).lNodes = [] := by rw [hd.lN, hu]; simp
    apply LOK_congr (s := s) _ _ _ _ _ hL
    · exact hd.ids
    · intro n
      show (walkEnd s start oldT newT newL).s.linOf n = _
      apply hd.l_out; rw [hlN]; simp
    · show (walkEnd s start oldT newT newL).s.l2n = _; rw [hd.frame]
    · show (walkEnd s start oldT newT newL).s.maxLin = _; rw [hd.frame]
    · show (walkEnd s start oldT newT newL).s.linOn = _; rw [hd.frame]
  · rw [e]
    have hu : (newL.isSome && s.linOn) = true := by rw [hnl, hon]; rfl
    have hlN : (walkEnd s start oldT newT newL).lNodes = V := by rw [hd.lN, hu]; simp
    apply LOK_move hL
    · show (walkEnd s start oldT newT newL).s.l2n = _; rw [hd.frame]
    · show (walkEnd s start oldT newT newL).s.maxLin = _; rw [hd.frame]
    · exact hd.ids
    · show (walkEnd s start oldT newT newL).s.linOn = _; rw [hd.frame]
    · intro n hn
      have hanc : Anc s start n := hb.anc n (List.mem_append_left _ (hlN ▸ hn))
      have hmem := anc_mem hF hanc hs
      refine ⟨hmem, hlin hon (by rw [hnl]; rfl) n hanc, ?_⟩
      show (walkEnd s start oldT newT newL).s.linOf n = some nl
      rw [hd.l_in n hn hmem, hnl]
    · intro n hn
      show (walkEnd s start oldT newT newL).s.linOf n = _
      exact hd.l_out n hn

theorem bookMoveT_proj (s : St) (ns : List Node) (o n : Nat) :
    (s.bookMoveT ns o n).nodes = s.nodes ∧ (s.bookMoveT ns o n).edges = s.edges ∧
    (s.bookMoveT ns o n).linOn = s.linOn ∧ (s.bookMoveT ns o n).seg = s.seg ∧
    (s.bookMoveT ns o n).l2n = s.l2n ∧ (s.bookMoveT ns o n).maxLin = s.maxLin :=
  ⟨rfl, rfl, rfl, rfl, rfl, rfl⟩

theorem bookMoveL_proj (s : St) (ns : List Node) (o : Option Nat) (n : Nat) :
    (s.bookMoveL ns o n).nodes = s.nodes ∧ (s.bookMoveL ns o n).edges = s.edges ∧
    (s.bookMoveL ns o n).linOn = s.linOn ∧ (s.bookMoveL ns o n).seg = s.seg ∧
    (s.bookMoveL ns o n).t2n = s.t2n ∧ (s.bookMoveL ns o n).maxTid = s.maxTid := by
  cases o <;> exact ⟨rfl, rfl, rfl, rfl, rfl, rfl⟩

theorem ids_of_nodes {s s' : St} (h : s'.nodes = s.nodes) : s'.ids = s.ids := by
  unfold St.ids; rw [h]
theorem timeOf_of_nodes {s s' : St} (h : s'.nodes = s.nodes) (n : Node) : s'.timeOf n = s.timeOf n := by
  unfold St.timeOf St.findNode; rw [h]
theorem tidOf_of_nodes {s s' : St} (h : s'.nodes = s.nodes) (n : Node) : s'.tidOf n = s.tidOf n := by
  unfold St.tidOf St.findNode; rw [h]
theorem linOf_of_nodes {s s' : St} (h : s'.nodes = s.nodes) (n : Node) : s'.linOf n = s.linOf n := by
  unfold St.linOf St.findNode; rw [h]
theorem findNode_of_nodes {s s' : St} (h : s'.nodes = s.nodes) (n : Node) : s'.findNode n = s.findNode n := by
  unfold St.findNode; rw [h]

/-- the walk never touches node ids, times, edges, the array or the registry -/
theorem walk_frame {s : St} (hF : Forest s) {start : Node} (hs : start ∈ s.ids)
    (oldT newT : Nat) (oldL newL : Option Nat) :
    (s.walk start oldT newT oldL newL).ids = s.ids ∧
    (s.walk start oldT newT oldL newL).edges = s.edges ∧
    (∀ n, (s.walk start oldT newT oldL newL).timeOf n = s.timeOf n) ∧
    (s.walk start oldT newT oldL newL).linOn = s.linOn ∧
    (s.walk start oldT newT oldL newL).seg = s.seg := by
  obtain ⟨V, hd, hb⟩ := walkEnd_inv hF hs oldT newT newL
  have h1 : (walkEnd s start oldT newT newL).s.edges = s.edges := by rw [hd.frame]
  have h2 : (walkEnd s start oldT newT newL).s.linOn = s.linOn := by rw [hd.frame]
  have h3 : (walkEnd s start oldT newT newL).s.seg = s.seg := by rw [hd.frame]
  have key : ∀ s' : St, s'.nodes = (walkEnd s start oldT newT newL).s.nodes →
      s'.edges = (walkEnd s start oldT newT newL).s.edges →
      s'.linOn = (walkEnd s start oldT newT newL).s.linOn →
      s'.seg = (walkEnd s start oldT newT newL).s.seg →
      s'.ids = s.ids ∧ s'.edges = s.edges ∧ (∀ n, s'.timeOf n = s.timeOf n) ∧ s'.linOn = s.linOn ∧
        s'.seg = s.seg := by
    intro s' g1 g2 g3 g4
    exact ⟨(ids_of_nodes g1).trans hd.ids, g2.trans h1, fun n => (timeOf_of_nodes g1 n).trans (hd.time n),
      g3.trans h2, g4.trans h3⟩
  rcases walk_cases s start oldT newT oldL newL with ⟨_, e⟩ | ⟨nl, _, _, e⟩
  · rw [e]
    obtain ⟨g1, g2, g3, g4, _⟩ := bookMoveT_proj (walkEnd s start oldT newT newL).s
      (walkEnd s start oldT newT newL).tNodes oldT newT
    exact key _ g1 g2 g3 g4
  · rw [e]
    obtain ⟨g1, g2, g3, g4, _⟩ := bookMoveT_proj (walkEnd s start oldT newT newL).s
      (walkEnd s start oldT newT newL).tNodes oldT newT
    obtain ⟨k1, k2, k3, k4, _⟩ := bookMoveL_proj ((walkEnd s start oldT newT newL).s.bookMoveT
      (walkEnd s start oldT newT newL).tNodes oldT newT) (walkEnd s start oldT newT newL).lNodes oldL nl
    exact key _ (k1.trans g1) (k2.trans g2) (k3.trans g3) (k4.trans g4)

theorem walk_Forest {s : St} (hF : Forest s) {start : Node} (hs : start ∈ s.ids)
    (oldT newT : Nat) (oldL newL : Option Nat) : Forest (s.walk start oldT newT oldL newL) := by
  obtain ⟨h1, h2, h3, _⟩ := walk_frame hF hs oldT newT oldL newL
  exact Forest_congr h1 h2 h3 hF

/-- lineage ids unchanged by a walk that is not asked to write them -/
theorem walk_linOf_none {s : St} (hF : Forest s) {start : Node} (hs : start ∈ s.ids)
    (oldT newT : Nat) (oldL : Option Nat) (n : Node) :
    (s.walk start oldT newT oldL none).linOf n = s.linOf n := by
  obtain ⟨V, hd, hb⟩ := walkEnd_inv hF hs oldT newT none
  rcases walk_cases s start oldT newT oldL none with ⟨hu, e⟩ | ⟨nl, hnl, _, _⟩
  · rw [e]
    show (walkEnd s start oldT newT none).s.linOf n = _
    apply hd.l_out; rw [hd.lN]; simp
  · cases hnl

/-! ### primitives -/

/-- every edge keeps the lineage id (`LinOK.along`) -/
def LinAlong (s : St) : Prop := ∀ e ∈ s.edgeList, s.linOf e.2 = s.linOf e.1

theorem linAlong_anc {s : St} (h : LinAlong s) {a b : Node} (hab : Anc s a b) : s.linOf b = s.linOf a :=
  anc_closed (P := fun x => s.linOf x = s.linOf a) hab rfl
    (fun p c hp he => (h (p, c) he).trans hp)

theorem pUpdTid_ok {s s' : St} {start : Node} {newT : Nat} {newL : Option Nat} {rec : PrimRec}
    (h : s.pUpdTid start newT newL = .ok (s', rec)) :
    ∃ r, s.findNode start = some r ∧ s' = s.walk start r.tid newT r.lin newL := by
  unfold St.pUpdTid at h
  split at h
  · cases h
  · rename_i r hr
    simp only [Except.ok.injEq, Prod.mk.injEq] at h
    exact ⟨r, hr, h.1.symm⟩

theorem findNode_mem_ids {s : St} {n : Node} {r : NodeRec} (h : s.findNode n = some r) : n ∈ s.ids := by
  rw [← findNode_isSome_iff, h]; rfl

theorem pUpdTid_book {s s' : St} {start : Node} {newT : Nat} {newL : Option Nat} {rec : PrimRec}
    (hF : Forest s) (hT : TOK s) (hL : LOK s) (hA : LinAlong s)
    (h : s.pUpdTid start newT newL = .ok (s', rec)) :
    TOK s' ∧ LOK s' ∧ Forest s' ∧ s'.ids = s.ids ∧ s'.edges = s.edges ∧
      (∀ n, s'.timeOf n = s.timeOf n) ∧ s'.linOn = s.linOn ∧ s'.seg = s.seg := by
  obtain ⟨r, hr, e⟩ := pUpdTid_ok h
  subst e
  have hs := findNode_mem_ids hr
  have hfr := walk_frame hF hs r.tid newT r.lin newL
  refine ⟨walk_TOK hF hT hs _ _ _ _, walk_LOK hF hL hs _ _ _ _ ?_, walk_Forest hF hs _ _ _ _, hfr⟩
  intro _ _ x hx
  rw [linAlong_anc hA hx]
  unfold St.linOf; rw [hr]; rfl

/-- the part of a node record the bookkeeping and the forest shape depend on -/
def ncore (r : NodeRec) : Node × Nat × Nat × Option Nat := (r.id, r.time, r.tid, r.lin)

theorem find_core {l l' : List NodeRec} (h : l'.map ncore = l.map ncore) (n : Node) :
    (l'.find? (·.id == n)).map ncore = (l.find? (·.id == n)).map ncore := by
  induction l generalizing l' with
  | nil => simp at h; subst h; rfl
  | cons r rs ih =>
    cases l' with
    | nil => simp at h
    | cons r' rs' =>
      simp only [List.map_cons, List.cons.injEq] at h
      have hid : r'.id = r.id := congrArg (·.1) h.1
      simp only [List.find?_cons, hid]
      cases (r.id == n)
      · exact ih h.2
      · simpa using h.1

/-- `s'` has the same nodes as `s` up to the free-form attributes, and the same lookups -/
structure BV (s s' : St) : Prop where
  core : s'.nodes.map ncore = s.nodes.map ncore
  t2n : s'.t2n = s.t2n
  l2n : s'.l2n = s.l2n
  maxTid : s'.maxTid = s.maxTid
  maxLin : s'.maxLin = s.maxLin
  linOn : s'.linOn = s.linOn

theorem BV.refl (s : St) : BV s s := ⟨rfl, rfl, rfl, rfl, rfl, rfl⟩
theorem BV.trans {a b c : St} (h1 : BV a b) (h2 : BV b c) : BV a c :=
  ⟨h2.core.trans h1.core, h2.t2n.trans h1.t2n, h2.l2n.trans h1.l2n, h2.maxTid.trans h1.maxTid,
   h2.maxLin.trans h1.maxLin, h2.linOn.trans h1.linOn⟩

theorem BV.ids {s s' : St} (h : BV s s') : s'.ids = s.ids := by
  have := congrArg (List.map (·.1)) h.core
  simpa [St.ids, ncore, Function.comp_def] using this

theorem BV.findCore {s s' : St} (h : BV s s') (n : Node) :
    (s'.findNode n).map ncore = (s.findNode n).map ncore := find_core h.core n

theorem BV.tidOf {s s' : St} (h : BV s s') (n : Node) : s'.tidOf n = s.tidOf n := by
  have := congrArg (Option.map (·.2.2.1)) (h.findCore n)
  simpa [St.tidOf, ncore, Function.comp_def] using this

theorem BV.linOf {s s' : St} (h : BV s s') (n : Node) : s'.linOf n = s.linOf n := by
  have := congrArg (fun o => Option.bind o (·.2.2.2)) (h.findCore n)
  simpa [St.linOf, ncore, Option.bind_map, Function.comp_def] using this

theorem BV.timeOf {s s' : St} (h : BV s s') (n : Node) : s'.timeOf n = s.timeOf n := by
  have := congrArg (Option.map (·.2.1)) (h.findCore n)
  simpa [St.timeOf, ncore, Function.comp_def] using this

theorem BV.TOK {s s' : St} (h : BV s s') (hT : TOK s) : TOK s' :=
  TOK_congr h.ids h.tidOf h.t2n h.maxTid hT

theorem BV.LOK {s s' : St} (h : BV s s') (hL : LOK s) : LOK s' :=
  LOK_congr h.ids h.linOf h.l2n h.maxLin h.linOn hL

theorem BV_setOther (s : St) (n : Node) (k : Key) (v : Val) : BV s (s.setOther n k v) := by
  refine ⟨?_, rfl, rfl, rfl, rfl, rfl⟩
  unfold St.setOther St.updNode
  simp only [List.map_map]
  apply List.map_congr_left
  intro r _
  simp only [Function.comp]
  split <;> rfl

theorem BV_foldl_setOther (n : Node) (v : Val) (ks : List Key) : ∀ s : St,
    BV s (ks.foldl (fun st k => st.setOther n k v) s) := by
  induction ks with
  | nil => intro s; exact BV.refl s
  | cons k ks ih => intro s; exact (BV_setOther s n k v).trans (ih _)

theorem BV_rpUpdate (s : St) (n : Node) : BV s (s.rpUpdate n) := by
  unfold St.rpUpdate
  split
  · split
    · exact BV.refl s
    · exact BV_foldl_setOther _ _ _ _
  · exact BV.refl s

theorem edges_setOther (s : St) (n : Node) (k : Key) (v : Val) : (s.setOther n k v).edges = s.edges := rfl

theorem edges_rpUpdate (s : St) (n : Node) : (s.rpUpdate n).edges = s.edges := by
  have : ∀ (ks : List Key) (v : Val) (s : St), (ks.foldl (fun st k => st.setOther n k v) s).edges = s.edges := by
    intro ks v
    induction ks with
    | nil => intro s; rfl
    | cons k ks ih => intro s; exact (ih _).trans rfl
  unfold St.rpUpdate
  split
  · split
    · rfl
    · exact this _ _ _
  · rfl

/-- `_handle_add_node` for a node that has just been added to the graph -/
theorem trackOnAdd_book {s0 s : St} {r : NodeRec} (hT : TOK s0) (hL : LOK s0)
    (e1 : s.t2n = s0.t2n) (e2 : s.l2n = s0.l2n) (e3 : s.maxTid = s0.maxTid) (e4 : s.maxLin = s0.maxLin)
    (e5 : s.linOn = s0.linOn) (hn : r.id ∉ s0.ids) (hi : ∀ m, m ∈ s.ids ↔ m ∈ s0.ids ∨ m = r.id)
    (hf : s.findNode r.id = some r)
    (hto : ∀ m, m ≠ r.id → s.tidOf m = s0.tidOf m) (hlo : ∀ m, m ≠ r.id → s.linOf m = s0.linOf m) :
    TOK (s.trackOnAdd r) ∧ LOK (s.trackOnAdd r) := by
  have htn : s.tidOf r.id = some r.tid := by unfold St.tidOf; rw [hf]; rfl
  have hln : s.linOf r.id = r.lin := by unfold St.linOf; rw [hf]; rfl
  have hT1 : TOK (s.bookAddT [r.id] r.tid) := by
    have hdis : ∀ n ∈ [r.id], ¬ InBook s0.t2n r.tid n := by
      intro n hn' hb
      simp at hn'; subst hn'
      exact hn ((hT.iff _ _).1 hb).1
    refine ⟨?_, ?_, ?_⟩
    · show MapWF (aset r.tid ((alook r.tid s.t2n).getD [] ++ [r.id]) s.t2n)
      rw [e1]; exact mapWF_addT hT.wf _ _ (by simp) hdis
    · intro id m
      show InBook (aset r.tid ((alook r.tid s.t2n).getD [] ++ [r.id]) s.t2n) id m ↔
        (m ∈ s.ids ∧ s.tidOf m = some id)
      rw [e1, inBook_addT, hT.iff, hi]
      by_cases e : m = r.id
      · subst e
        rw [htn]
        simp only [List.mem_singleton, Option.some.injEq, and_true, or_true, true_and]
        constructor
        · rintro (⟨h1, _⟩ | h1)
          · exact absurd h1 hn
          · exact h1.symm
        · intro h1; exact Or.inr h1.symm
      · rw [hto m e]
        simp [e]
    · intro m t ht
      show t ≤ if r.tid > s.maxTid then r.tid else s.maxTid
      change s.tidOf m = some t at ht
      by_cases e : m = r.id
      · subst e; rw [htn] at ht; cases ht; split <;> omega
      · rw [hto m e] at ht
        have := hT.max m t ht
        rw [e3]; split <;> omega
  have hLs : LOK s → LOK (s.bookAddT [r.id] r.tid) := fun h =>
    LOK_congr (s := s) (s' := s.bookAddT [r.id] r.tid) rfl (fun _ => rfl) rfl rfl rfl h
  unfold St.trackOnAdd
  simp only []
  cases hon : s.linOn with
  | false =>
    refine ⟨hT1, hLs ⟨by rw [e2]; exact hL.wf, ?_, ?_⟩⟩
    · intro h; rw [hon] at h; cases h
    · intro h; rw [hon] at h; cases h
  | true =>
    have hon0 : s0.linOn = true := by rw [← e5, hon]
    cases hlr : r.lin with
    | none =>
      refine ⟨hT1, hLs ⟨by rw [e2]; exact hL.wf, ?_, ?_⟩⟩
      · intro _ id m
        rw [e2, hL.iff hon0, hi]
        by_cases e : m = r.id
        · subst e; rw [hln, hlr]; simp; intro h1; exact absurd h1 hn
        · rw [hlo m e]; simp [e]
      · intro _ m t ht
        by_cases e : m = r.id
        · subst e; rw [hln, hlr] at ht; cases ht
        · rw [hlo m e] at ht; rw [e4]; exact hL.max hon0 m t ht
    | some l =>
      refine ⟨TOK_congr (s := s.bookAddT [r.id] r.tid) rfl (fun _ => rfl) rfl rfl hT1, ?_⟩
      refine ⟨?_, ?_, ?_⟩
      · show MapWF (aset l ([r.id].foldl (fun acc n => if acc.contains n then acc else acc ++ [n])
          ((alook l s.l2n).getD [])) s.l2n)
        rw [e2]; exact mapWF_addL hL.wf _ _
      · intro _ id m
        show InBook (aset l ([r.id].foldl (fun acc n => if acc.contains n then acc else acc ++ [n])
          ((alook l s.l2n).getD [])) s.l2n) id m ↔ (m ∈ s.ids ∧ s.linOf m = some id)
        rw [e2, inBook_addL, hL.iff hon0, hi]
        by_cases e : m = r.id
        · subst e
          rw [hln, hlr]
          simp only [List.mem_singleton, Option.some.injEq, and_true, or_true, true_and]
          constructor
          · rintro (⟨h1, _⟩ | h1)
            · exact absurd h1 hn
            · exact h1.symm
          · intro h1; exact Or.inr h1.symm
        · rw [hlo m e]
          simp [e]
      · intro _ m t ht
        show t ≤ if l > s.maxLin then l else s.maxLin
        change s.linOf m = some t at ht
        by_cases e : m = r.id
        · subst e; rw [hln, hlr] at ht; cases ht; split <;> omega
        · rw [hlo m e] at ht
          have := hL.max hon0 m t ht
          rw [e4]; split <;> omega

def paintNew (s : St) (v : Nat) (px : Option (List Pix)) : St :=
  match px, s.seg with
  | some ps, some g => { s with seg := some (g.setPixels ps v) }
  | _, _ => s

def addNodeTail (s1 : St) (r : NodeRec) : St :=
  let s2 := if s1.hasNode r.id then s1.updNode r.id (fun old =>
                  { r with other := amerge r.other old.other })
              else { s1 with nodes := s1.nodes ++ [r] }
  let s3 := s2.rpUpdate r.id
  match s3.findNode r.id with
    | some r' => s3.trackOnAdd r'
    | none => s3

theorem pAddNode_unfold (s : St) (r : NodeRec) (px : Option (List Pix)) :
    s.pAddNode r px =
      if px.isNone && !(s.posKeys.all (fun k => (alook k r.other).isSome)) then .error .value
      else if px.isSome && s.seg.isNone then .error .value
      else .ok (addNodeTail (paintNew s r.id px) r, .addNode r px) := rfl

def delGraph (s1 : St) (n : Node) : St :=
  { s1 with nodes := s1.nodes.filter (·.id != n),
            edges := s1.edges.filter (fun e => e.e.1 != n && e.e.2 != n) }

def delNodeTail (s1 : St) (n : Node) (saved : NodeRec) : St := (delGraph s1 n).trackOnDelete saved

theorem pDelNode_unfold (s : St) (n : Node) (px : Option (List Pix)) :
    s.pDelNode n px =
      match s.findNode n with
      | none => .error .key
      | some r =>
        .ok (delNodeTail (paintNew s 0 (match px with | some p => some p | none => s.getPixels n)) n (s.savedAttrs r),
          .delNode (s.savedAttrs r) (match px with | some p => some p | none => s.getPixels n)) := rfl

theorem paintNew_proj (s : St) (v : Nat) (px : Option (List Pix)) :
    (paintNew s v px).nodes = s.nodes ∧ (paintNew s v px).edges = s.edges ∧
    (paintNew s v px).t2n = s.t2n ∧ (paintNew s v px).l2n = s.l2n ∧
    (paintNew s v px).maxTid = s.maxTid ∧ (paintNew s v px).maxLin = s.maxLin ∧
    (paintNew s v px).linOn = s.linOn := by
  unfold paintNew
  split <;> exact ⟨rfl, rfl, rfl, rfl, rfl, rfl, rfl⟩

theorem BV_of_nodes {s s' : St} (h1 : s'.nodes = s.nodes) (h2 : s'.t2n = s.t2n) (h3 : s'.l2n = s.l2n)
    (h4 : s'.maxTid = s.maxTid) (h5 : s'.maxLin = s.maxLin) (h6 : s'.linOn = s.linOn) : BV s s' :=
  ⟨by rw [h1], h2, h3, h4, h5, h6⟩

theorem BV_paintNew (s : St) (v : Nat) (px : Option (List Pix)) : BV s (paintNew s v px) := by
  obtain ⟨h1, _, h2, h3, h4, h5, h6⟩ := paintNew_proj s v px
  exact BV_of_nodes h1 h2 h3 h4 h5 h6

theorem addNodeTail_book {s0 s1 : St} {r : NodeRec} (hbv : BV s0 s1) (hT : TOK s0) (hL : LOK s0)
    (hn : r.id ∉ s0.ids) : TOK (addNodeTail s1 r) ∧ LOK (addNodeTail s1 r) := by
  have hn1 : s1.hasNode r.id = false := by
    cases h : s1.hasNode r.id with
    | false => rfl
    | true => rw [hasNode_iff, hbv.ids] at h; exact absurd h hn
  unfold addNodeTail
  simp only [hn1, Bool.false_eq_true, if_false]
  -- the state with the node appended
  have hfind2 : ∀ m, ({ s1 with nodes := s1.nodes ++ [r] } : St).findNode m =
      if m = r.id then some r else s1.findNode m := by
    intro m
    show (s1.nodes ++ [r]).find? (·.id == m) = _
    rw [List.find?_append]
    by_cases e : m = r.id
    · subst e
      have : s1.nodes.find? (·.id == r.id) = none := by
        have := hn1; unfold St.hasNode St.findNode at this
        simpa using this
      simp [this]
    · have : (r.id == m) = false := by simp; exact fun h => e h.symm
      simp [e, this, St.findNode]
  have hbv3 := BV_rpUpdate ({ s1 with nodes := s1.nodes ++ [r] } : St) r.id
  generalize ({ s1 with nodes := s1.nodes ++ [r] } : St).rpUpdate r.id = s3 at hbv3 ⊢
  have hf3 := hbv3.findCore r.id
  rw [hfind2, if_pos rfl] at hf3
  cases hr' : s3.findNode r.id with
  | none => rw [hr'] at hf3; cases hf3
  | some r' =>
    rw [hr'] at hf3
    simp only [Option.map_some, Option.some.injEq, ncore, Prod.mk.injEq] at hf3
    obtain ⟨i1, _, i3, i4⟩ := hf3
    simp only []
    have hid : r'.id = r.id := i1
    apply trackOnAdd_book (s0 := s0) hT hL
    · rw [hbv3.t2n]; exact hbv.t2n
    · rw [hbv3.l2n]; exact hbv.l2n
    · rw [hbv3.maxTid]; exact hbv.maxTid
    · rw [hbv3.maxLin]; exact hbv.maxLin
    · rw [hbv3.linOn]; exact hbv.linOn
    · rw [hid]; exact hn
    · intro m
      rw [hbv3.ids, hid, ← hbv.ids]
      show m ∈ (s1.nodes ++ [r]).map (·.id) ↔ _
      simp [St.ids]
    · rw [hid]; exact hr'
    · intro m hm
      rw [hid] at hm
      rw [hbv3.tidOf, ← hbv.tidOf]
      unfold St.tidOf; rw [hfind2, if_neg hm]
    · intro m hm
      rw [hid] at hm
      rw [hbv3.linOf, ← hbv.linOf]
      unfold St.linOf; rw [hfind2, if_neg hm]

theorem pAddNode_book {s s' : St} {r : NodeRec} {px : Option (List Pix)} {rec : PrimRec}
    (hT : TOK s) (hL : LOK s) (hn : r.id ∉ s.ids) (h : s.pAddNode r px = .ok (s', rec)) :
    TOK s' ∧ LOK s' := by
  rw [pAddNode_unfold] at h
  split at h
  · cases h
  · split at h
    · cases h
    · simp only [Except.ok.injEq, Prod.mk.injEq] at h
      rw [← h.1]
      exact addNodeTail_book (BV_paintNew s r.id px) hT hL hn

theorem find_filter_ne (l : List NodeRec) (n m : Node) :
    (l.filter (·.id != n)).find? (·.id == m) = if m = n then none else l.find? (·.id == m) := by
  induction l with
  | nil => simp
  | cons r rs ih =>
    by_cases h1 : r.id = n
    · have : (r.id != n) = false := by simp [h1]
      rw [List.filter_cons_of_neg (by simp [h1]), ih]
      by_cases h2 : m = n
      · simp [h2]
      · have : (r.id == m) = false := by simp; exact fun e => h2 (e ▸ h1)
        simp [h2, this]
    · rw [List.filter_cons_of_pos (by simp [h1])]
      simp only [List.find?_cons, ih]
      by_cases h2 : m = n
      · subst h2
        have : (r.id == m) = false := by simp [h1]
        simp [this]
      · simp [h2]

/-- `_handle_delete_node`, after the node has been removed from the graph -/
theorem delNodeTail_book {s0 s1 : St} {n : Node} {r : NodeRec} (hbv : BV s0 s1) (hT : TOK s0)
    (hL : LOK s0) (hr : s0.findNode n = some r) (saved : NodeRec) (hs1 : saved.id = n)
    (hs2 : saved.tid = r.tid) (hs3 : saved.lin = if s0.linOn then r.lin else none) :
    TOK (delNodeTail s1 n saved) ∧ LOK (delNodeTail s1 n saved) := by
  -- the graph after removal
  have hfind : ∀ m, (delGraph s1 n).findNode m =
      if m = n then none else s1.findNode m := fun m => find_filter_ne s1.nodes n m
  generalize hs2' : delGraph s1 n = s2 at hfind
  have e1 : s2.t2n = s0.t2n := by rw [← hs2']; exact hbv.t2n
  have e2 : s2.l2n = s0.l2n := by rw [← hs2']; exact hbv.l2n
  have e3 : s2.maxTid = s0.maxTid := by rw [← hs2']; exact hbv.maxTid
  have e4 : s2.maxLin = s0.maxLin := by rw [← hs2']; exact hbv.maxLin
  have e5 : s2.linOn = s0.linOn := by rw [← hs2']; exact hbv.linOn
  have hgoal : delNodeTail s1 n saved = s2.trackOnDelete saved := by rw [← hs2']; rfl
  rw [hgoal]
  clear hs2' hgoal
  have hi : ∀ m, m ∈ s2.ids ↔ m ∈ s0.ids ∧ m ≠ n := by
    intro m
    rw [← findNode_isSome_iff, hfind, ← hbv.ids, ← findNode_isSome_iff]
    by_cases e : m = n <;> simp [e]
  have htid : ∀ m, s2.tidOf m = if m = n then none else s0.tidOf m := by
    intro m
    rw [← hbv.tidOf]; unfold St.tidOf; rw [hfind]; split <;> rfl
  have hlin : ∀ m, s2.linOf m = if m = n then none else s0.linOf m := by
    intro m
    rw [← hbv.linOf]; unfold St.linOf; rw [hfind]; split <;> rfl
  have h0t : s0.tidOf n = some r.tid := by unfold St.tidOf; rw [hr]; rfl
  have h0l : s0.linOf n = r.lin := by unfold St.linOf; rw [hr]; rfl
  have hT1 : TOK (s2.bookRemT [saved.id] saved.tid) := by
    rw [hs1, hs2]
    refine ⟨?_, ?_, ?_⟩
    · show MapWF (bookRem s2.t2n [n] r.tid)
      rw [e1]; exact mapWF_bookRem hT.wf _ _
    · intro id m
      show InBook (bookRem s2.t2n [n] r.tid) id m ↔ (m ∈ s2.ids ∧ s2.tidOf m = some id)
      rw [e1, inBook_bookRem hT.wf, hT.iff, hi, htid]
      by_cases e : m = n
      · subst e
        rw [h0t]
        simp only [List.mem_singleton, and_true, Option.some.injEq, if_true, ne_eq, not_true, and_false]
        constructor
        · rintro ⟨⟨_, h1⟩, h2⟩; exact (h2 h1.symm).elim
        · rintro ⟨_, h⟩; cases h
      · simp [e]
    · intro m t ht
      change s2.tidOf m = some t at ht
      show t ≤ s2.maxTid
      rw [htid] at ht
      split at ht
      · cases ht
      · rw [e3]; exact hT.max m t ht
  have hLs : ∀ s : St, LOK s → LOK (s.bookRemT [saved.id] saved.tid) := fun s h =>
    LOK_congr (s := s) (s' := s.bookRemT [saved.id] saved.tid) rfl (fun _ => rfl) rfl rfl rfl h
  -- the lineage lookups when nothing is removed from them
  have hLsame : s0.linOn = false ∨ r.lin = none → LOK s2 := by
    intro hc
    refine ⟨by rw [e2]; exact hL.wf, ?_, ?_⟩
    · intro hon id m
      rw [e5] at hon
      rcases hc with hc | hc
      · rw [hc] at hon; cases hon
      · rw [e2, hL.iff hon, hi, hlin]
        by_cases e : m = n
        · subst e; rw [h0l, hc]; simp
        · simp [e]
    · intro hon m t ht
      rw [e5] at hon
      rw [hlin] at ht
      split at ht
      · cases ht
      · rw [e4]; exact hL.max hon m t ht
  unfold St.trackOnDelete
  simp only []
  cases hon : s2.linOn with
  | false =>
    have hon0 : s0.linOn = false := by rw [← e5, hon]
    exact ⟨hT1, hLs _ (hLsame (Or.inl hon0))⟩
  | true =>
    have hon0 : s0.linOn = true := by rw [← e5, hon]
    rw [hon0] at hs3
    simp only [if_true] at hs3
    cases hlr : saved.lin with
    | none => exact ⟨hT1, hLs _ (hLsame (Or.inr (by rw [← hs3, hlr])))⟩
    | some l =>
      refine ⟨TOK_congr (s := s2.bookRemT [saved.id] saved.tid) rfl (fun _ => rfl) rfl rfl hT1, ?_⟩
      have hrl : r.lin = some l := by rw [← hs3, hlr]
      rw [hs1]
      refine ⟨?_, ?_, ?_⟩
      · show MapWF (bookRem s2.l2n [n] l)
        rw [e2]; exact mapWF_bookRem hL.wf _ _
      · intro _ id m
        show InBook (bookRem s2.l2n [n] l) id m ↔ (m ∈ s2.ids ∧ s2.linOf m = some id)
        rw [e2, inBook_bookRem hL.wf, hL.iff hon0, hi, hlin]
        by_cases e : m = n
        · subst e
          rw [h0l, hrl]
          simp only [List.mem_singleton, and_true, Option.some.injEq, if_true, ne_eq, not_true, and_false]
          constructor
          · rintro ⟨⟨_, h1⟩, h2⟩; exact (h2 h1.symm).elim
          · rintro ⟨_, h⟩; cases h
        · simp [e]
      · intro _ m t ht
        change s2.linOf m = some t at ht
        show t ≤ s2.maxLin
        rw [hlin] at ht
        split at ht
        · cases ht
        · rw [e4]; exact hL.max hon0 m t ht

theorem pDelNode_book {s s' : St} {n : Node} {px : Option (List Pix)} {rec : PrimRec}
    (hT : TOK s) (hL : LOK s) (h : s.pDelNode n px = .ok (s', rec)) : TOK s' ∧ LOK s' := by
  rw [pDelNode_unfold] at h
  split at h
  · cases h
  · rename_i r hr
    simp only [Except.ok.injEq, Prod.mk.injEq] at h
    rw [← h.1]
    exact delNodeTail_book (BV_paintNew s 0 _) hT hL hr _ (findNode_some_mem hr).2 rfl rfl

/-! ## Part 5: user actions -/

theorem Forest_filterEdges {s : St} (h : Forest s) (p : EdgeRec → Bool) :
    Forest { s with edges := s.edges.filter p } := by
  have hsub : ({ s with edges := s.edges.filter p } : St).edgeList.Sublist s.edgeList :=
    List.Sublist.map _ List.filter_sublist
  refine ⟨h.nodup_nodes, hsub.nodup h.nodup_edges, ?_, ?_, ?_, ?_, ?_⟩
  · intro e he; exact h.src_mem e (hsub.subset he)
  · intro e he; exact h.dst_mem e (hsub.subset he)
  · intro e he; exact h.forward e (hsub.subset he)
  · intro v
    refine Nat.le_trans ?_ (h.indeg_le v)
    unfold St.indeg St.preds
    simp only [List.length_map]
    exact (List.Sublist.filter _ List.filter_sublist).length_le
  · intro v
    refine Nat.le_trans ?_ (h.outdeg_le v)
    unfold St.outdeg St.succs
    simp only [List.length_map]
    exact (List.Sublist.filter _ List.filter_sublist).length_le

/-- the joint invariant carried through a composite action -/
structure Inv (s : St) : Prop where
  forest : Forest s
  tok : TOK s
  lok : LOK s
  along : LinAlong s

theorem pDelEdge_ok {s s' : St} {e : Edge} {p : PrimRec} (h : s.pDelEdge e = .ok (s', p)) :
    s' = { s with edges := s.edges.filter (·.e != e) } := by
  unfold St.pDelEdge at h
  split at h
  · cases h
  · simp only [Except.ok.injEq, Prod.mk.injEq] at h
    exact h.1.symm

theorem pDelEdge_inv {s s' : St} {e : Edge} {p : PrimRec} (hI : Inv s) (h : s.pDelEdge e = .ok (s', p)) :
    Inv s' := by
  rw [pDelEdge_ok h]
  have hbv : BV s { s with edges := s.edges.filter (·.e != e) } := BV_of_nodes rfl rfl rfl rfl rfl rfl
  refine ⟨Forest_filterEdges hI.forest _, hbv.TOK hI.tok, hbv.LOK hI.lok, ?_⟩
  intro x hx
  have : x ∈ s.edgeList := (List.Sublist.map _ List.filter_sublist).subset hx
  exact hI.along x this

theorem pUpdTid_none_inv {s s' : St} {start : Node} {t : Nat} {p : PrimRec} (hI : Inv s)
    (h : s.pUpdTid start t none = .ok (s', p)) : Inv s' := by
  obtain ⟨hT, hL, hF, _, he, _⟩ := pUpdTid_book hI.forest hI.tok hI.lok hI.along h
  refine ⟨hF, hT, hL, ?_⟩
  obtain ⟨r, hr, e⟩ := pUpdTid_ok h
  subst e
  have hs := findNode_mem_ids hr
  intro x hx
  rw [walk_linOf_none hI.forest hs, walk_linOf_none hI.forest hs]
  apply hI.along
  unfold St.edgeList at hx ⊢
  rw [he] at hx; exact hx

theorem thenPrim_elim {acc : UOut} {f : St → Except Err (St × PrimRec)} {recs : List PrimRec}
    (h : (thenPrim acc f).2 = .ok recs) :
    ∃ r0 s' p, acc.2 = .ok r0 ∧ f acc.1 = .ok (s', p) ∧ thenPrim acc f = (s', .ok (r0 ++ [p])) := by
  unfold thenPrim at h ⊢
  cases h2 : acc.2 with
  | error e => rw [h2] at h; cases h
  | ok r0 =>
    rw [h2] at h
    simp only [] at h ⊢
    cases hf : f acc.1 with
    | error e => rw [hf] at h; cases h
    | ok sp => exact ⟨r0, sp.1, sp.2, rfl, rfl, rfl⟩

theorem thenPrim_error {acc : UOut} {f : St → Except Err (St × PrimRec)} {e : Err}
    (h : acc.2 = .error e) : (thenPrim acc f).2 = .error e := by
  unfold thenPrim; rw [h]

theorem uDeleteEdge_book {s : St} (e : Edge) {recs : List PrimRec} (hI : Inv s)
    (h : (s.uDeleteEdge e).2 = .ok recs) :
    TOK (s.uDeleteEdge e).1 ∧ LOK (s.uDeleteEdge e).1 ∧ Forest (s.uDeleteEdge e).1 := by
  revert h
  unfold St.uDeleteEdge
  split
  · intro h; cases h
  · simp only []
    cases ha : (thenPrim (s, .ok []) (fun st => st.pDelEdge e)).2 with
    | error err =>
      -- every branch propagates the error
      have hprop : ∀ f, (thenPrim (thenPrim (s, .ok []) (fun st => st.pDelEdge e)) f).2 = .error err :=
        fun f => thenPrim_error ha
      split
      · intro h; rw [hprop] at h; cases h
      · split
        · split
          · intro h; cases h
          · intro h
            obtain ⟨_, _, _, h1, _⟩ := thenPrim_elim h
            rw [hprop] at h1; cases h1
        · intro h; cases h
    | ok r0 =>
      obtain ⟨_, s1, p1, _, hf1, ea⟩ := thenPrim_elim ha
      rw [ea]
      simp only [] at hf1
      have hI1 : Inv s1 := pDelEdge_inv hI hf1
      split
      · intro h
        obtain ⟨_, s2, p2, _, hf2, e2⟩ := thenPrim_elim h
        rw [e2]
        simp only [] at hf2
        obtain ⟨hT, hL, hF, _⟩ := pUpdTid_book hI1.forest hI1.tok hI1.lok hI1.along hf2
        exact ⟨hT, hL, hF⟩
      · split
        · split
          · intro h; cases h
          · rename_i sib _
            intro h
            obtain ⟨_, s3, p3, h2ok, hf3, e3⟩ := thenPrim_elim h
            rw [e3]
            obtain ⟨_, s2, p2, _, hf2, e2⟩ := thenPrim_elim h2ok
            rw [e2] at hf3
            simp only [] at hf2 hf3
            have hI2 : Inv s2 := by
              split at hf2
              · exact pUpdTid_none_inv hI1 hf2
              · cases hf2
            split at hf3
            · obtain ⟨hT, hL, hF, _⟩ := pUpdTid_book hI2.forest hI2.tok hI2.lok hI2.along hf3
              exact ⟨hT, hL, hF⟩
            · cases hf3
        · intro h; cases h

/-! ## Part 6: executable checkers (used for the non-vacuity examples) -/

theorem alook_some_mem_pair {β : Type} {k : Nat} {m : List (Nat × β)} {v : β} (h : alook k m = some v) :
    (k, v) ∈ m := by
  induction m with
  | nil => simp [alook] at h
  | cons p r ih =>
    obtain ⟨a, b⟩ := p
    by_cases e : a = k
    · subst e; simp [alook] at h; subst h; simp
    · have : (a == k) = false := by simp [e]
      simp only [alook, this, Bool.false_eq_true, if_false] at h
      exact List.mem_cons_of_mem _ (ih h)

def mapCheck (m : List (Nat × List Node)) (ids : List Node) (f : Node → Option Nat) : Bool :=
  m.all (fun kv => kv.2.all (fun n => ids.contains n && f n == some kv.1)) &&
  ids.all (fun n => match f n with
    | some t => ((alook t m).getD []).contains n
    | none => true)

def wfCheck (m : List (Nat × List Node)) : Bool :=
  decide (m.map (·.1)).Nodup && m.all (fun kv => decide kv.2.Nodup)

def maxCheck (ids : List Node) (f : Node → Option Nat) (mx : Nat) : Bool :=
  ids.all (fun n => match f n with
    | some t => decide (t ≤ mx)
    | none => true)

def bookCheck (s : St) : Bool :=
  wfCheck s.t2n && mapCheck s.t2n s.ids s.tidOf && maxCheck s.ids s.tidOf s.maxTid &&
  wfCheck s.l2n && (!s.linOn || (mapCheck s.l2n s.ids s.linOf && maxCheck s.ids s.linOf s.maxLin))

theorem wfCheck_sound {m : List (Nat × List Node)} (h : wfCheck m = true) : MapWF m := by
  unfold wfCheck at h
  simp only [Bool.and_eq_true, decide_eq_true_eq, List.all_eq_true] at h
  exact ⟨h.1, fun id l hl => h.2 _ (alook_some_mem_pair hl)⟩

theorem mapCheck_sound {m : List (Nat × List Node)} {ids : List Node} {f : Node → Option Nat}
    (h : mapCheck m ids f = true) (id : Nat) (n : Node) :
    InBook m id n ↔ (n ∈ ids ∧ f n = some id) := by
  unfold mapCheck at h
  simp only [Bool.and_eq_true, List.all_eq_true, List.contains_iff_mem, beq_iff_eq] at h
  constructor
  · rintro ⟨l, hl, hn⟩
    exact h.1 _ (alook_some_mem_pair hl) n hn
  · rintro ⟨h1, h2⟩
    have := h.2 n h1
    rw [h2] at this
    simp only [] at this
    cases hl : alook id m with
    | none => rw [hl] at this; simp at this
    | some l => rw [hl] at this; exact ⟨l, hl, by simpa using this⟩

theorem maxCheck_sound {ids : List Node} {f : Node → Option Nat} {mx : Nat}
    (h : maxCheck ids f mx = true) (hf : ∀ n t, f n = some t → n ∈ ids) (n : Node) (t : Nat)
    (hn : f n = some t) : t ≤ mx := by
  unfold maxCheck at h
  simp only [List.all_eq_true] at h
  have := h n (hf n t hn)
  rw [hn] at this
  simpa using this

theorem bookOK_of_check {s : St} (h : bookCheck s = true) : BookOK s := by
  unfold bookCheck at h
  simp only [Bool.and_eq_true, Bool.or_eq_true, Bool.not_eq_true'] at h
  obtain ⟨⟨⟨⟨h1, h2⟩, h3⟩, h4⟩, h5⟩ := h
  rw [bookOK_iff]
  refine ⟨⟨wfCheck_sound h1, mapCheck_sound h2, maxCheck_sound h3 (fun n t => tidOf_some_mem)⟩,
    ⟨wfCheck_sound h4, ?_, ?_⟩⟩
  · intro hon
    rcases h5 with h5 | h5
    · rw [hon] at h5; cases h5
    · exact mapCheck_sound h5.1
  · intro hon
    rcases h5 with h5 | h5
    · rw [hon] at h5; cases h5
    · exact maxCheck_sound h5.2 (fun n t => linOf_some_mem)

def forestCheck (s : St) : Bool :=
  decide s.ids.Nodup && decide s.edgeList.Nodup &&
  s.edgeList.all (fun e => s.ids.contains e.1 && s.ids.contains e.2 &&
    (match s.timeOf e.1, s.timeOf e.2 with
      | some a, some b => decide (a < b)
      | _, _ => true) &&
    decide (s.indeg e.2 ≤ 1) && decide (s.outdeg e.1 ≤ 2))

theorem forest_of_check {s : St} (h : forestCheck s = true) : Forest s := by
  unfold forestCheck at h
  simp only [Bool.and_eq_true, decide_eq_true_eq, List.all_eq_true, List.contains_iff_mem] at h
  obtain ⟨⟨h1, h2⟩, h3⟩ := h
  refine ⟨h1, h2, fun e he => (h3 e he).1.1.1.1, fun e he => (h3 e he).1.1.1.2, ?_, ?_, ?_⟩
  · intro e he t1 t2 e1 e2
    have := (h3 e he).1.1.2
    rw [e1, e2] at this
    simpa using this
  · intro v
    cases hp : s.preds v with
    | nil => unfold St.indeg; rw [hp]; simp
    | cons p ps =>
      have : (p, v) ∈ s.edgeList := (mem_preds s v p).1 (by rw [hp]; simp)
      exact (h3 _ this).1.2
  · intro u
    cases hp : s.succs u with
    | nil => unfold St.outdeg; rw [hp]; simp
    | cons c cs =>
      have : (u, c) ∈ s.edgeList := (mem_succs s u c).1 (by rw [hp]; simp)
      exact (h3 _ this).2

/-! ## Part 7: primitives that never touch ids or lookups -/

theorem BV_iouUpdateEdge (s : St) (e : Edge) : BV s (s.iouUpdateEdge e) := by
  unfold St.iouUpdateEdge
  split
  · split
    · exact BV_of_nodes rfl rfl rfl rfl rfl rfl
    · exact BV.refl s
  · exact BV.refl s

theorem BV_foldl_iou (es : List Edge) : ∀ s : St, BV s (es.foldl St.iouUpdateEdge s) := by
  induction es with
  | nil => intro s; exact BV.refl s
  | cons e es ih => intro s; exact (BV_iouUpdateEdge s e).trans (ih _)

theorem pAddEdge_BV {s s' : St} {e : Edge} {attrs : List (Key × Val)} {p : PrimRec}
    (h : s.pAddEdge e attrs = .ok (s', p)) : BV s s' := by
  unfold St.pAddEdge at h
  split at h
  · cases h
  · simp only [Except.ok.injEq, Prod.mk.injEq] at h
    rw [← h.1]
    refine BV.trans ?_ (BV_iouUpdateEdge _ e)
    split <;> exact BV_of_nodes rfl rfl rfl rfl rfl rfl

theorem pDelEdge_BV {s s' : St} {e : Edge} {p : PrimRec} (h : s.pDelEdge e = .ok (s', p)) : BV s s' := by
  rw [pDelEdge_ok h]; exact BV_of_nodes rfl rfl rfl rfl rfl rfl

theorem pUpdSeg_BV {s s' : St} {n : Node} {px : List Pix} {added : Bool} {p : PrimRec}
    (h : s.pUpdSeg n px added = .ok (s', p)) : BV s s' := by
  unfold St.pUpdSeg at h
  split at h
  · cases h
  · split at h
    · cases h
    · simp only [Except.ok.injEq, Prod.mk.injEq] at h
      rw [← h.1]
      refine BV.trans (BV.trans ?_ (BV_rpUpdate _ n)) (BV_foldl_iou _ _)
      exact BV_of_nodes rfl rfl rfl rfl rfl rfl

theorem BV_foldl_setOther' (n : Node) (kvs : List (Key × Val)) : ∀ s : St,
    BV s (kvs.foldl (fun st kv => st.setOther n kv.1 kv.2) s) := by
  induction kvs with
  | nil => intro s; exact BV.refl s
  | cons kv kvs ih => intro s; exact (BV_setOther s n kv.1 kv.2).trans (ih _)

theorem pUpdAttrs_BV {s s' : St} {n : Node} {attrs : List (Key × Val)} {p : PrimRec}
    (h : s.pUpdAttrs n attrs = .ok (s', p)) : BV s s' := by
  unfold St.pUpdAttrs at h
  split at h
  · cases h
  · split at h
    · cases h
    · simp only [Except.ok.injEq, Prod.mk.injEq] at h
      rw [← h.1]
      exact BV_foldl_setOther' n attrs s

/-! ## Part 8: further user actions -/

theorem uAddEdge_noforce_book {s : St} (e : Edge) {recs : List PrimRec} (hI : Inv s)
    (h : (s.uAddEdge e false).2 = .ok recs) :
    TOK (s.uAddEdge e false).1 ∧ LOK (s.uAddEdge e false).1 := by
  revert h
  unfold St.uAddEdge
  split
  · intro h; cases h
  · split
    · intro h; cases h
    · split
      · intro h; cases h
      · by_cases hin : s.indeg e.2 > 0
        · simp only [hin, if_true, Bool.not_false]
          intro h; cases h
        · simp only [hin, if_false]
          split
          · intro h
            obtain ⟨_, s2, p2, h1ok, hf2, e2⟩ := thenPrim_elim h
            rw [e2]
            have hbv := pAddEdge_BV hf2
            obtain ⟨_, s1, p1, _, hf1, e1⟩ := thenPrim_elim h1ok
            rw [e1] at hbv
            simp only [] at hf1
            split at hf1
            · obtain ⟨hT, hL, _⟩ := pUpdTid_book hI.forest hI.tok hI.lok hI.along hf1
              exact ⟨hbv.TOK hT, hbv.LOK hL⟩
            · cases hf1
          · split
            · split
              · intro h
                obtain ⟨_, _, _, h1ok, _, _⟩ := thenPrim_elim h
                cases h1ok
              · intro h
                obtain ⟨_, s3, p3, h2ok, hf3, e3⟩ := thenPrim_elim h
                rw [e3]
                have hbv := pAddEdge_BV hf3
                obtain ⟨_, s2, p2, h1ok, hf2, e2⟩ := thenPrim_elim h2ok
                rw [e2] at hbv
                obtain ⟨_, s1, p1, _, hf1, e1⟩ := thenPrim_elim h1ok
                rw [e1] at hf2
                simp only [] at hf1 hf2
                have hI1 : Inv s1 := pUpdTid_none_inv hI hf1
                split at hf2
                · obtain ⟨hT, hL, _⟩ := pUpdTid_book hI1.forest hI1.tok hI1.lok hI1.along hf2
                  exact ⟨hbv.TOK hT, hbv.LOK hL⟩
                · cases hf2
            · intro h
              obtain ⟨_, _, _, h1ok, _, _⟩ := thenPrim_elim h
              cases h1ok

theorem uUpdateAttrs_book {s : St} (n : Node) (attrs : List (Key × Val)) {recs : List PrimRec}
    (hT : TOK s) (hL : LOK s) (h : (s.uUpdateAttrs n attrs).2 = .ok recs) :
    TOK (s.uUpdateAttrs n attrs).1 ∧ LOK (s.uUpdateAttrs n attrs).1 := by
  unfold St.uUpdateAttrs at h ⊢
  obtain ⟨_, s1, p1, _, hf1, e1⟩ := thenPrim_elim h
  rw [e1]
  have hbv := pUpdAttrs_BV hf1
  exact ⟨hbv.TOK hT, hbv.LOK hL⟩

end Ft.PC
