/-
  FtProofs.R5BLemmas — package R5B, part A: the operation language with feature switching, runs,
  and what every `St.step` (ANY operation, accepted or refused) leaves alone.

  * `Op'`            = `Ft.Op` (the operations of `St.step`: the seven edits, undo, redo,
                       `enable ks recompute`, `disable ks`, the queries).
  * `run s ops`      the state after the operation list (`= (sessFinal s t ops).1`).
  * `avail s`        `(rpAvail, iouKey)`: what the annotators CAN manage.  No operation changes it
                       (`avail_step`), hence `annotKeys` / `protectedKeys` are constants of a run.
  * `regOK_step`     `RegOK` is kept by every operation (static keys = keys no annotator manages).
-/
import FtProofs.Props.C10_R2G
import FtProofs.HistoryLemmas
namespace Ft.R5B
open Ft Ft.St List

/-- the operation language of R5B: all operations of `St.step`, feature switching included -/
abbrev Op' := Op

/-- the state after an operation list -/
def run : St → List Op' → St
  | s, [] => s
  | s, op :: ops => run (s.step op).1 ops

@[simp] theorem run_nil (s : St) : run s [] = s := rfl
@[simp] theorem run_cons (s : St) (op : Op') (ops : List Op') : run s (op :: ops) = run (s.step op).1 ops := rfl

theorem run_append (s : St) (a b : List Op') : run s (a ++ b) = run (run s a) b := by
  induction a generalizing s with
  | nil => rfl
  | cons x a ih => simp only [List.cons_append, run_cons, ih]

theorem run_snoc (s : St) (a : List Op') (op : Op') : run s (a ++ [op]) = ((run s a).step op).1 := by
  rw [run_append]; rfl

theorem run_eq_sessFinal (s : St) (t : Timeline St) (ops : List Op') : run s ops = (sessFinal s t ops).1 := by
  induction ops generalizing s t with
  | nil => rfl
  | cons op ops ih => simp only [run_cons, sessFinal]; exact ih _ _

/-- induction principle: a property of states kept by every step holds along every run -/
theorem run_induct {P : St → Prop} (hstep : ∀ s op, P s → P (s.step op).1) :
    ∀ (ops : List Op') (s : St), P s → P (run s ops)
  | [], _, h => h
  | op :: ops, s, h => run_induct hstep ops _ (hstep s op h)

/-! ### what no operation changes -/

/-- the annotators' capabilities -/
def avail (s : St) : List Key × Option Key := (s.rpAvail, s.iouKey)

theorem avail_of_reg {s t : St} (h : t.reg = s.reg) : avail t = avail s := by
  simp only [reg, Prod.mk.injEq] at h
  simp only [avail, Prod.mk.injEq]
  exact ⟨h.2.2.2.2.2.1, h.2.2.2.1⟩

theorem annotKeys_of_avail {s t : St} (h : avail t = avail s) : t.annotKeys = s.annotKeys := by
  simp only [avail, Prod.mk.injEq] at h
  unfold annotKeys; rw [h.1, h.2]

theorem protectedKeys_of_avail {s t : St} (h : avail t = avail s) : t.protectedKeys = s.protectedKeys := by
  unfold protectedKeys; rw [annotKeys_of_avail h]

/-- every `step` other than `enable` / `disable` leaves the whole registry projection alone -/
theorem reg_step (s : St) (op : Op') (hop : ∀ ks rc, op ≠ .enable ks rc) (hop' : ∀ ks, op ≠ .disable ks) :
    (s.step op).1.reg = s.reg := by
  have hc : ∀ (r : UOut) (p : Option Node), r.1.cfg = s.cfg → (commit r p).1.reg = s.reg := by
    intro r p h
    unfold commit
    split
    · exact (show _ = r.1.reg from rfl).trans (reg_of_cfg h)
    · exact reg_of_cfg h
  have hh : ∀ (r : Hist ActRec × St × Bool) (bad : Bool), r.2.1.cfg = s.cfg →
      (histCore s r bad).1.reg = s.reg := by
    intro r bad h
    unfold histCore
    split
    · exact reg_of_cfg h
    · split
      · exact (show _ = r.2.1.reg from rfl).trans (reg_of_cfg h)
      · rfl
  cases op with
  | addEdge e' f => exact hc _ _ (cfg_uAddEdge s e' f)
  | delEdge e' => exact hc _ _ (cfg_uDeleteEdge s e')
  | addNode a => exact hc _ _ (cfg_uAddNode s a)
  | delNode n => exact hc _ _ (cfg_uDeleteNode s n none)
  | swap a b => exact hc _ _ (cfg_uSwap s a b)
  | updAttrs n at_ => exact hc _ _ (cfg_uUpdateAttrs s n at_)
  | paint v groups tid f =>
    simp only [step]
    split
    · rfl
    · rename_i g hg
      have hu := cfg_uUpdateSeg
        { s with seg := some (g.setPixels (groups.flatMap (fun (grp : List Pix × Nat) => grp.1)) v) }
        v groups tid f
      split
      · exact hc _ _ hu
      · split
        · exact reg_of_cfg hu
        · exact reg_of_cfg hu
  | undo => rw [step_undo_eq]; exact hh _ _ (cfg_undoStep _ _)
  | redo => rw [step_redo_eq]; exact hh _ _ (cfg_redoStep _ _)
  | enable ks rc => exact absurd rfl (hop ks rc)
  | disable ks => exact absurd rfl (hop' ks)
  | qNeighbors tid time => exact reg_of_cfg (cfg_trackNeighbors s tid time)
  | qHasTrack tid time => rfl
  | qNewIds n => rfl
  | nop => rfl

theorem avail_enable {s s' : St} {ks : List Key} {rc : Bool} (h : s.enable ks rc = some s') :
    avail s' = avail s := by
  cases hany : ks.any (fun k => !(s.annotKeys.contains k)) with
  | true => rw [enable_none s ks rc hany] at h; cases h
  | false =>
    rw [enable_eq s ks rc hany] at h
    injection h with h
    subst h
    cases rc
    · rfl
    · exact (avail_of_reg (reg_enableRecompute (enableReg s ks) ks)).trans rfl

theorem avail_disable {s s' : St} {ks : List Key} (h : s.disable ks = some s') : avail s' = avail s := by
  unfold disable at h
  split at h
  · cases h
  · injection h with h; subst h; rfl

/-- **no operation changes what the annotators can manage** -/
theorem avail_step (s : St) (op : Op') : avail (s.step op).1 = avail s := by
  by_cases h1 : ∃ ks rc, op = .enable ks rc
  · obtain ⟨ks, rc, rfl⟩ := h1
    simp only [step]
    split
    · rename_i s' h; exact avail_enable h
    · rfl
  · by_cases h2 : ∃ ks, op = .disable ks
    · obtain ⟨ks, rfl⟩ := h2
      simp only [step]
      split
      · rename_i s' h; exact avail_disable h
      · rfl
    · exact avail_of_reg (reg_step s op (fun ks rc h => h1 ⟨ks, rc, h⟩) (fun ks h => h2 ⟨ks, h⟩))

theorem avail_run (s : St) (ops : List Op') : avail (run s ops) = avail s :=
  run_induct (P := fun t => avail t = avail s) (fun t op h => (avail_step t op).trans h) ops s rfl

theorem annotKeys_run (s : St) (ops : List Op') : (run s ops).annotKeys = s.annotKeys :=
  annotKeys_of_avail (avail_run s ops)

theorem protectedKeys_run (s : St) (ops : List Op') : (run s ops).protectedKeys = s.protectedKeys :=
  protectedKeys_of_avail (avail_run s ops)

/-! ### `RegOK` along a run -/

/-- `RegOK` is kept by EVERY operation, whatever its arguments and outcome -/
theorem regOK_step (s : St) (op : Op') (sn se : List Key)
    (hsn : ∀ k ∈ sn, k ∉ s.annotKeys) (hse : ∀ k ∈ se, k ∉ s.annotKeys)
    (hr : RegOK s sn se) : RegOK (s.step op).1 sn se := by
  by_cases h1 : ∃ ks rc, op = .enable ks rc
  · obtain ⟨ks, rc, rfl⟩ := h1
    simp only [step]
    split
    · rename_i s' h; exact C10_registry_enable s s' ks rc sn se hr h
    · exact hr
  · by_cases h2 : ∃ ks, op = .disable ks
    · obtain ⟨ks, rfl⟩ := h2
      simp only [step]
      split
      · rename_i s' h; exact C10_registry_disable s s' ks sn se hsn hse hr h
      · exact hr
    · exact C10_registry_step s op sn se (fun ks rc h => h1 ⟨ks, rc, h⟩) (fun ks h => h2 ⟨ks, h⟩) hr

theorem regOK_run (s : St) (sn se : List Key)
    (hsn : ∀ k ∈ sn, k ∉ s.annotKeys) (hse : ∀ k ∈ se, k ∉ s.annotKeys)
    (hr : RegOK s sn se) (ops : List Op') : RegOK (run s ops) sn se := by
  refine run_induct (P := fun t => RegOK t sn se ∧ t.annotKeys = s.annotKeys) ?_ ops s ⟨hr, rfl⟩ |>.1
  intro t op ⟨h1, h2⟩
  refine ⟨regOK_step t op sn se (by rw [h2]; exact hsn) (by rw [h2]; exact hse) h1, ?_⟩
  exact (annotKeys_of_avail (avail_step t op)).trans h2

end Ft.R5B
