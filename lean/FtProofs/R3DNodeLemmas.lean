/-
  FtProofs.R3DNodeLemmas — package R3D: the two node actions a paint calls, on a state with an array.

  * `delNode_shadow`  `UserDeleteNode n (some px)` where `px` lists exactly the pixels of `n` (any
                      order, repetitions allowed): lawful chain, the bundle invariant `Inv` again,
                      result array = start array with `px` zeroed.
  * `addNode_shadow`  `UserAddNode` of a new non-zero label on background pixels of one frame, lineage
                      left to the action: lawful chain, the bundle invariant `Inv` again.
-/
import FtProofs.R3DGenLemmas
import FtProofs.Props.C01_R3C

namespace Ft.R3D
open Ft Ft.St Ft.R2A1 Ft.R3P List

/-- the bundle invariant gives the array/skeleton consistency of R2G at the frame size of the array -/
theorem good2_of_inv {s : St} {B : Seg} (hI : Inv s) (hB : s.seg = some B) : R2G.Good s B.frame := by
  rw [R2G.good_iff]
  refine ⟨B, hB, rfl, hI.segOK, hI.good.wf.ids, fun r hr e => ?_⟩
  apply hI.node.ne0 B hB
  rw [← e]
  exact List.mem_map.mpr ⟨r, hr, rfl⟩

/-- the registry is untouched: `avail` is kept -/
theorem avail_of_cfg {s t : St} (h : t.cfg = s.cfg) (ha : ∀ k ∈ s.rpActive, k ∈ s.rpAvail) :
    ∀ k ∈ t.rpActive, k ∈ t.rpAvail := by
  obtain ⟨-, -, h3, -, -, h6, -, -⟩ := reg_fields (reg_of_cfg h)
  intro k hk
  rw [h3] at hk; rw [h6]; exact ha k hk

/-- primitive DeleteNode with an explicit list of exactly the node's pixels -/
theorem good2_pDelNode_px {s s' : St} {f : Nat} {n : Node} {t0 : Nat} {px : List Pix} {rec : PrimRec}
    {g : Seg} (hgd : R2G.Good s f) (hg : s.seg = some g) (ht : s.timeOf n = some t0)
    (hm : ∀ p, p ∈ px ↔ p ∈ g.pixelsOf t0 n)
    (h : s.pDelNode n (some px) = .ok (s', rec)) :
    R2G.Good s' f ∧ s'.seg = some (g.setPixels px 0) := by
  obtain ⟨g', hg', hf, hk, hnd, h0⟩ := hgd
  rw [hg] at hg'; cases hg'
  have hmem : (n, t0) ∈ s.skel := R2G.mem_skel_of_timeOf ht
  obtain ⟨e1, e2⟩ := pDelNode_seg_skel h hg
  obtain ⟨_, _, hpos, _⟩ := Seg.pixelsOf_ne_nil.mp (hk.1 (n, t0) hmem)
  refine ⟨⟨_, e1, hf, ?_, ?_, ?_⟩, e1⟩
  · rw [e2]
    refine segOKk_del hk h0 (fun i hi he => ?_)
      (fun p hp _ => Or.inl (Seg.mem_pixelsOf.mp ((hm p).mp hp)).2.2)
    have hne : g.data.getD i 0 ≠ 0 := by rw [he]; exact h0 _ hmem
    have hin := hk.2 i hi hne
    rw [he] at hin
    exact (hm i).mpr (Seg.mem_pixelsOf.mpr ⟨hpos, R2G.skel_time_unique hnd hin hmem, he⟩)
  · rw [e2]; exact (List.filter_sublist.map _).nodup hnd
  · rw [e2]; intro p hp; exact h0 p (List.mem_filter.mp hp).1

/-- `UserDeleteNode` with an explicit list of exactly the node's pixels (any order, repetitions
    allowed) on an invariant state with an array -/
theorem delNode_shadow {s : St} {B : Seg} {n : Node} {t0 : Nat} {px : List Pix} {recs : List PrimRec}
    (hI : Inv s) (hB : s.seg = some B) (ht : s.timeOf n = some t0)
    (hm : ∀ p, p ∈ px ↔ p ∈ B.pixelsOf t0 n)
    (hok : (s.uDeleteNode n (some px)).2 = .ok recs) :
    Chain E s recs (s.uDeleteNode n (some px)).1 ∧ Inv (s.uDeleteNode n (some px)).1 ∧
    (s.uDeleteNode n (some px)).1.seg = some (B.setPixels px 0) := by
  have hgp : s.getPixels n = some (B.pixelsOf t0 n) := by
    unfold St.getPixels; rw [hB, ht]
  obtain ⟨init, saved, hrecs, hc⟩ := uDeleteNode_px_congr hm hok
  have hokc : (s.uDeleteNode n (some (B.pixelsOf t0 n))).2
      = .ok (init ++ [.delNode saved (some (B.pixelsOf t0 n))]) := by rw [hc]
  have hst : (s.uDeleteNode n (some (B.pixelsOf t0 n))).1 = (s.uDeleteNode n (some px)).1 := by rw [hc]
  obtain ⟨hch, ⟨hV, hG, hE, hN⟩, -⟩ := C01_user_deleteNode s n (some (B.pixelsOf t0 n)) _ hI.valid
    hI.good hI.edge hI.node (Or.inr hgp.symm) hokc
  rw [hst] at hch hV hG hE hN
  obtain ⟨mid, hc1, hl⟩ := chain_snoc_inv hch
  have hchain : Chain E s recs (s.uDeleteNode n (some px)).1 := by
    rw [hrecs]; exact chain_snoc hc1 (law_delNode_px hm hl)
  obtain ⟨st, r, hfs, hd⟩ := uDeleteNode_ok_sg hok
  have hg2 : R2G.Good st B.frame := (good2_of_inv hI hB).ofFs hfs
  obtain ⟨hg3, hseg⟩ := good2_pDelNode_px hg2 (hfs.seg.trans hB) ((hfs.timeOf n).trans ht) hm hd
  obtain ⟨g, hg, -, hso, -, -⟩ := (R2G.good_iff _ _).mp hg3
  refine ⟨hchain, ⟨hV, hG, hE, hN, hso, avail_of_cfg (cfg_uDeleteNode s n (some px)) hI.avail, ?_⟩, hseg⟩
  intro g' hg'
  rw [hseg] at hg'; cases hg'
  exact hI.frame B hB

/-- a label that is not a node does not occur in the array -/
theorem pixelsOf_nil_of_new {s : St} {B : Seg} {v t0 : Nat} (hI : Inv s) (hB : s.seg = some B)
    (hv : v ≠ 0) (hnew : s.hasNode v = false) : B.pixelsOf t0 v = [] := by
  rw [List.eq_nil_iff_forall_not_mem]
  intro p hp
  obtain ⟨-, -, hval⟩ := Seg.mem_pixelsOf.mp hp
  have hne : B.data.getD p 0 ≠ 0 := by rw [hval]; exact hv
  have hk := (segOK_iff_skel s).mp hI.segOK B hB
  have hin := hk.2 p (getD_ne_zero_lt_sg hne) hne
  rw [hval] at hin
  exact skel_ne_of_hasNode_false hnew _ hin rfl

theorem addNode_shadow_aux {s : St} {B : Seg} {v t0 : Nat} {px : List Pix} (a : AddNodeArgs)
    {recs : List PrimRec} (hI : Inv s) (hB : s.seg = some B) (hv : v ≠ 0) (hnew : s.hasNode v = false)
    (hbg : ∀ p ∈ px, p < B.data.length ∧ B.data.getD p 0 = 0 ∧ p / B.frame = t0) (hne : px ≠ [])
    (hnode : a.node = v) (htime : a.time = some t0) (hlin : a.lin = none) (hother : a.other = [])
    (hpx : a.pixels = some px)
    (hok : (s.uAddNode a).2 = .ok recs) :
    Chain E s recs (s.uAddNode a).1 ∧ Inv (s.uAddNode a).1 := by
  have hA : R3C.AddArgsPre s a := by
    refine ⟨by rw [hother]; exact List.nodup_nil, ?_, ?_, fun _ _ => by rw [hnode]; exact hv, ?_, ?_⟩
    · intro kv hkv; rw [hother] at hkv; cases hkv
    · intro h; rw [hB] at h; cases h
    · intro g time hg ht'
      rw [hB] at hg; cases hg
      rw [htime] at ht'; cases ht'
      rw [hnode]
      exact pixelsOf_nil_of_new hI hB hv hnew
    · intro g ps time hg hps ht' p hp
      rw [hB] at hg; cases hg
      rw [hpx] at hps; cases hps
      rw [htime] at ht'; cases ht'
      obtain ⟨h1, h2, h3⟩ := hbg p hp
      exact ⟨h1, h2, hI.frame B hB, h3⟩
  obtain ⟨hch, ⟨hG, hE, hN, hV⟩, -⟩ := C01_user_addNode s a recs hI.valid hI.good hI.edge hI.node hA hok
  obtain ⟨time, tid', lin, st, s2, r, ht', hnew', hfs, hadd, hfs2⟩ := uAddNode_ok_sg hok
  rw [htime] at ht'; cases ht'
  rw [hpx] at hadd
  have hg2 : R2G.Good st B.frame := (good2_of_inv hI hB).ofFs hfs
  have hpos : 0 < B.frame := hI.frame B hB
  obtain ⟨p0, hp0⟩ := List.exists_mem_of_ne_nil _ hne
  have hg3 : R2G.Good s2 B.frame := by
    refine R2G.Good.pAddNode hg2 hpos (hfs.seg.trans hB) ((hfs.hasNode a.node).trans hnew') ?_ ?_ ?_ hadd
    · show a.node ≠ 0
      rw [hnode]; exact hv
    · intro p hp _
      obtain ⟨-, h2, h3⟩ := hbg p hp
      exact ⟨Or.inl h2, h3⟩
    · exact ⟨p0, hp0, (hbg p0 hp0).1⟩
  obtain ⟨g, hg, hf, hso, -, -⟩ := (R2G.good_iff _ _).mp (hg3.ofFs hfs2)
  refine ⟨hch, ⟨hV hlin, hG, hE, hN, hso, avail_of_cfg (cfg_uAddNode s a) hI.avail, ?_⟩⟩
  intro g' hg'
  rw [hg] at hg'; cases hg'
  rw [hf]; exact hpos

/-- `UserAddNode` of a new non-zero label painted onto background pixels of one frame, lineage left
    to the action, on an invariant state with an array -/
theorem addNode_shadow {s : St} {B : Seg} {v t0 tid : Nat} {force : Bool} {px : List Pix}
    {recs : List PrimRec} (hI : Inv s) (hB : s.seg = some B) (hv : v ≠ 0) (hnew : s.hasNode v = false)
    (hbg : ∀ p ∈ px, p < B.data.length ∧ B.data.getD p 0 = 0 ∧ p / B.frame = t0) (hne : px ≠ [])
    (hok : (s.uAddNode { node := v, time := some t0, tid := some tid, lin := none, other := [],
                         pixels := some px, force := force }).2 = .ok recs) :
    Chain E s recs (s.uAddNode { node := v, time := some t0, tid := some tid, lin := none, other := [],
                                 pixels := some px, force := force }).1 ∧
    Inv (s.uAddNode { node := v, time := some t0, tid := some tid, lin := none, other := [],
                      pixels := some px, force := force }).1 :=
  addNode_shadow_aux _ hI hB hv hnew hbg hne rfl rfl rfl rfl rfl hok

end Ft.R3D
