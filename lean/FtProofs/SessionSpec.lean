/-
  FtProofs.SessionSpec — the shared vocabulary of the session properties C01–C11, C20:
  invariants over the model state `Ft.St` and the relational readings the properties talk about.
  Definitions only (plus the trivial facts about the empty state); the preservation theorems
  live in the `Props/Cxx.lean` files and their lemma files.
-/
import FtModel.Session
namespace Ft
namespace St

def ids (s : St) : List Node := s.nodes.map (·.id)
def edgeList (s : St) : List Edge := s.edges.map (·.e)

/-- C03: forward-in-time binary forest -/
structure Forest (s : St) : Prop where
  nodup_nodes : s.ids.Nodup
  nodup_edges : s.edgeList.Nodup
  src_mem : ∀ e ∈ s.edgeList, e.1 ∈ s.ids
  dst_mem : ∀ e ∈ s.edgeList, e.2 ∈ s.ids
  forward : ∀ e ∈ s.edgeList, ∀ t1 t2, s.timeOf e.1 = some t1 → s.timeOf e.2 = some t2 → t1 < t2
  indeg_le : ∀ v, s.indeg v ≤ 1
  outdeg_le : ∀ u, s.outdeg u ≤ 2

/-- a segment head: a root, or a child of a dividing node -/
def IsHead (s : St) (n : Node) : Prop :=
  n ∈ s.ids ∧ ∀ p, (p, n) ∈ s.edgeList → s.outdeg p = 2

/-- a root: a node without parent -/
def IsRoot (s : St) (n : Node) : Prop :=
  n ∈ s.ids ∧ ∀ p, (p, n) ∉ s.edgeList

/-- C04, local form: (T1) a non-division edge keeps the track id; (T2) distinct heads carry
    distinct ids -/
structure TidOK (s : St) : Prop where
  along : ∀ e ∈ s.edgeList, s.outdeg e.1 = 1 → s.tidOf e.2 = s.tidOf e.1
  heads : ∀ a b, s.IsHead a → s.IsHead b → a ≠ b → s.tidOf a ≠ s.tidOf b

/-- C05, local form: (L1) every edge keeps the lineage id; (L2) distinct roots carry distinct
    ids; every node has one -/
structure LinOK (s : St) : Prop where
  has : ∀ n ∈ s.ids, (s.linOf n).isSome
  along : ∀ e ∈ s.edgeList, s.linOf e.2 = s.linOf e.1
  roots : ∀ a b, s.IsRoot a → s.IsRoot b → a ≠ b → s.linOf a ≠ s.linOf b

/-- "same unbranched segment": connected without crossing an edge that leaves a dividing node -/
inductive SameSeg (s : St) : Node → Node → Prop where
  | refl (n : Node) : n ∈ s.ids → SameSeg s n n
  | down (a p c : Node) : SameSeg s a p → (p, c) ∈ s.edgeList → s.outdeg p = 1 → SameSeg s a c
  | up (a p c : Node) : SameSeg s a c → (p, c) ∈ s.edgeList → s.outdeg p = 1 → SameSeg s a p

/-- connected ignoring edge direction -/
inductive Conn (s : St) : Node → Node → Prop where
  | refl (n : Node) : n ∈ s.ids → Conn s n n
  | down (a p c : Node) : Conn s a p → (p, c) ∈ s.edgeList → Conn s a c
  | up (a p c : Node) : Conn s a c → (p, c) ∈ s.edgeList → Conn s a p

/-- ancestor-or-self -/
inductive Anc (s : St) : Node → Node → Prop where
  | refl (n : Node) : Anc s n n
  | step (a p c : Node) : Anc s a p → (p, c) ∈ s.edgeList → Anc s a c

/-- C06: the lookups list exactly the nodes that carry the id; maxima bound every id in use -/
structure BookOK (s : St) : Prop where
  t_keys : (s.t2n.map (·.1)).Nodup
  t_nodup : ∀ id l, alook id s.t2n = some l → l.Nodup
  t_iff : ∀ id n, (∃ l, alook id s.t2n = some l ∧ n ∈ l) ↔ (n ∈ s.ids ∧ s.tidOf n = some id)
  t_max : ∀ n t, s.tidOf n = some t → t ≤ s.maxTid
  l_keys : (s.l2n.map (·.1)).Nodup
  l_nodup : ∀ id l, alook id s.l2n = some l → l.Nodup
  l_iff : s.linOn = true → ∀ id n, (∃ l, alook id s.l2n = some l ∧ n ∈ l) ↔ (n ∈ s.ids ∧ s.linOf n = some id)
  l_max : s.linOn = true → ∀ n l, s.linOf n = some l → l ≤ s.maxLin

/-- C07: labels and nodes in one-to-one correspondence -/
def SegOK (s : St) : Prop :=
  ∀ g, s.seg = some g →
    (∀ r ∈ s.nodes, g.pixelsOf r.time r.id ≠ []) ∧
    (∀ i, i < g.data.length → g.data.getD i 0 ≠ 0 →
        ∃ r ∈ s.nodes, r.id = g.data.getD i 0 ∧ i / g.frame = r.time)

/-- C08/C09: every stored measurement is the measurement of the current mask -/
def MeasOK (s : St) : Prop :=
  ∀ g, s.seg = some g →
    (∀ k ∈ s.rpActive, ∀ r ∈ s.nodes,
        alook k r.other = some (if g.pixelsOf r.time r.id = [] then Val.none else Val.mask (g.pixelsOf r.time r.id))) ∧
    (s.iouActive = true → ∀ k, s.iouKey = some k → ∀ er ∈ s.edges, alook k er.attrs = some (s.iouOf er.e))

/-- C10: registry = static keys ∪ active annotator keys (the static part never changes) -/
def RegOK (s : St) (staticNode staticEdge : List Key) : Prop :=
  (∀ k, k ∈ s.regNode ↔ (k ∈ staticNode ∨ k ∈ s.rpActive)) ∧
  (∀ k, k ∈ s.regEdge ↔ (k ∈ staticEdge ∨ (s.iouActive = true ∧ s.iouKey = some k)))

/-- observational equivalence used by C01/C02/C11: same nodes with the same attributes, same
    edges with the same attributes, same array, same lookups as sets — insertion orders, the
    id maxima and the node-id counter are not observable through these properties -/
structure Equiv (s t : St) : Prop where
  nodes : ∀ r, r ∈ s.nodes ↔ r ∈ t.nodes
  edges : ∀ r, r ∈ s.edges ↔ r ∈ t.edges
  seg : s.seg = t.seg
  t2n : ∀ id n, (∃ l, alook id s.t2n = some l ∧ n ∈ l) ↔ (∃ l, alook id t.t2n = some l ∧ n ∈ l)
  l2n : ∀ id n, (∃ l, alook id s.l2n = some l ∧ n ∈ l) ↔ (∃ l, alook id t.l2n = some l ∧ n ∈ l)
  reg : s.linOn = t.linOn ∧ s.posKeys = t.posKeys ∧ s.regNode = t.regNode ∧ s.regEdge = t.regEdge
        ∧ s.rpAvail = t.rpAvail ∧ s.rpActive = t.rpActive ∧ s.iouKey = t.iouKey ∧ s.iouActive = t.iouActive

/-- the joint invariant of a tracking solution with lineage ids (what "valid solution" means in
    C03–C06); every accepted user action is meant to preserve it -/
structure Valid (s : St) : Prop where
  forest : Forest s
  tid : TidOK s
  lin : LinOK s
  book : BookOK s
  linOn : s.linOn = true

end St
end Ft
