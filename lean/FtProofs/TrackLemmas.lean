/-
  FtProofs.TrackLemmas — helper lemmas for C04 / C05 (package PF):
  §1 basic facts about the graph views (ids, succs, preds, times) in a `Forest`
  §2 generic theory: `Conn` / `SameSeg` are equivalences, every node has a root ancestor /
     a segment head, equal label ⇔ related
  §3 the relabel walk: decoupling into a BFS list + a fold, characterisation of the BFS list
  §4 effect of the fold on lineage / track ids
  §5 the user actions `uDeleteEdge`, `uAddEdge`, `uSwap`: shape lemmas, abstract effects,
     preservation of the invariant bundles `tk_LinInv` / `tk_TidInv`, frame lemmas
  §6 Boolean checkers (`tk_forestB`, `tk_linOKB`, `tk_tidOKB`, …) + the example state
  All non-dotted helper names carry the prefix `tk_` to avoid clashes with other lemma files.
-/
import FtProofs.SessionSpec
namespace Ft
namespace St

/-! ## §1 basic facts -/

theorem tk_find_id_some {l : List NodeRec} {n : Node} {r : NodeRec}
    (h : l.find? (·.id == n) = some r) : r.id = n ∧ r ∈ l := by
  have h1 := List.find?_some h
  have h2 := List.mem_of_find?_eq_some h
  exact ⟨by simpa using h1, h2⟩

theorem tk_findNode_id {s : St} {n : Node} {r : NodeRec} (h : s.findNode n = some r) :
    r.id = n ∧ r ∈ s.nodes := tk_find_id_some h

theorem tk_mem_ids_iff {s : St} {n : Node} : n ∈ s.ids ↔ ∃ r, s.findNode n = some r := by
  unfold ids findNode
  constructor
  · intro h
    rcases List.mem_map.1 h with ⟨r, hr, rfl⟩
    cases hf : s.nodes.find? (·.id == r.id) with
    | some r' => exact ⟨r', rfl⟩
    | none =>
      have := List.find?_eq_none.1 hf r hr
      simp at this
  · rintro ⟨r, hr⟩
    have := tk_find_id_some hr
    exact List.mem_map.2 ⟨r, this.2, this.1⟩

theorem tk_hasNode_iff {s : St} {n : Node} : s.hasNode n = true ↔ n ∈ s.ids := by
  rw [tk_mem_ids_iff]; unfold hasNode
  cases s.findNode n <;> simp

/-- time as a total function -/
def tk_tm (s : St) (n : Node) : Nat := (s.timeOf n).getD 0

theorem tk_timeOf_of_mem {s : St} {n : Node} (h : n ∈ s.ids) : s.timeOf n = some (s.tk_tm n) := by
  rcases tk_mem_ids_iff.1 h with ⟨r, hr⟩
  simp [tk_tm, timeOf, hr]

theorem tk_mem_succs {s : St} {u c : Node} : c ∈ s.succs u ↔ (u, c) ∈ s.edgeList := by
  unfold succs edgeList
  simp only [List.mem_map, List.mem_filter]
  constructor
  · rintro ⟨r, ⟨hr, h1⟩, rfl⟩
    refine ⟨r, hr, ?_⟩
    have : r.e.1 = u := by simpa using h1
    rw [← this]
  · rintro ⟨r, hr, he⟩
    refine ⟨r, ⟨hr, ?_⟩, ?_⟩ <;> simp [he]

theorem tk_mem_preds {s : St} {p v : Node} : p ∈ s.preds v ↔ (p, v) ∈ s.edgeList := by
  unfold preds edgeList
  simp only [List.mem_map, List.mem_filter]
  constructor
  · rintro ⟨r, ⟨hr, h1⟩, rfl⟩
    refine ⟨r, hr, ?_⟩
    have : r.e.2 = v := by simpa using h1
    rw [← this]
  · rintro ⟨r, hr, he⟩
    refine ⟨r, ⟨hr, ?_⟩, ?_⟩ <;> simp [he]

theorem tk_eq_of_length_le_one {α} {l : List α} (h : l.length ≤ 1) {a b : α}
    (ha : a ∈ l) (hb : b ∈ l) : a = b := by
  match l, h with
  | [x], _ => simp at ha hb; rw [ha, hb]
  | [], _ => cases ha

theorem Forest.par_unique {s : St} (hF : s.Forest) {p q c : Node}
    (h1 : (p, c) ∈ s.edgeList) (h2 : (q, c) ∈ s.edgeList) : p = q :=
  tk_eq_of_length_le_one (hF.indeg_le c) (tk_mem_preds.2 h1) (tk_mem_preds.2 h2)

theorem Forest.tm_lt {s : St} (hF : s.Forest) {u v : Node} (h : (u, v) ∈ s.edgeList) :
    s.tk_tm u < s.tk_tm v :=
  hF.forward _ h _ _ (tk_timeOf_of_mem (hF.src_mem _ h)) (tk_timeOf_of_mem (hF.dst_mem _ h))

theorem tk_outdeg_pos {s : St} {u c : Node} (h : (u, c) ∈ s.edgeList) : 1 ≤ s.outdeg u := by
  unfold outdeg
  exact List.length_pos_of_mem (tk_mem_succs.2 h)

theorem tk_child_unique {s : St} {u c c' : Node} (ho : s.outdeg u = 1)
    (h1 : (u, c) ∈ s.edgeList) (h2 : (u, c') ∈ s.edgeList) : c = c' :=
  tk_eq_of_length_le_one (by unfold outdeg at ho; omega) (tk_mem_succs.2 h1) (tk_mem_succs.2 h2)

/-! ## §2 generic theory -/

theorem Conn.mem_left {s : St} {a b : Node} (h : s.Conn a b) : a ∈ s.ids := by
  induction h with
  | refl hn => exact hn
  | down p c _ _ ih => exact ih
  | up p c _ _ ih => exact ih

theorem Conn.trans {s : St} {a b c : Node} (h1 : s.Conn a b) (h2 : s.Conn b c) : s.Conn a c := by
  induction h2 with
  | refl _ => exact h1
  | down p c _ he ih => exact Conn.down _ p c ih he
  | up p c _ he ih => exact Conn.up _ p c ih he

theorem Conn.symm {s : St} (hF : s.Forest) {a b : Node} (h : s.Conn a b) : s.Conn b a := by
  induction h with
  | refl hn => exact Conn.refl _ hn
  | down p c _ he ih =>
    exact Conn.trans (Conn.up c p c (Conn.refl c (hF.dst_mem _ he)) he) ih
  | up p c _ he ih =>
    exact Conn.trans (Conn.down p p c (Conn.refl p (hF.src_mem _ he)) he) ih

theorem Conn.mem_right {s : St} (hF : s.Forest) {a b : Node} (h : s.Conn a b) : b ∈ s.ids :=
  (h.symm hF).mem_left

theorem Anc.conn {s : St} {a b : Node} (ha : a ∈ s.ids) (h : s.Anc a b) : s.Conn a b := by
  induction h with
  | refl => exact Conn.refl _ ha
  | step p c _ he ih => exact Conn.down _ p c ih he

theorem Anc.trans {s : St} {a b c : Node} (h1 : s.Anc a b) (h2 : s.Anc b c) : s.Anc a c := by
  induction h2 with
  | refl => exact h1
  | step p c _ he ih => exact Anc.step _ p c ih he

theorem Anc.tm_le {s : St} (hF : s.Forest) {a b : Node} (h : s.Anc a b) : s.tk_tm a ≤ s.tk_tm b := by
  induction h with
  | refl => exact Nat.le_refl _
  | step p c _ he ih => exact Nat.le_trans ih (Nat.le_of_lt (hF.tm_lt he))

theorem Anc.mem {s : St} (hF : s.Forest) {a b : Node} (ha : a ∈ s.ids) (h : s.Anc a b) :
    b ∈ s.ids := by
  cases h with
  | refl => exact ha
  | step p c _ he => exact hF.dst_mem _ he

/-- head decomposition of `Anc` -/
theorem Anc.head {s : St} {a b : Node} (h : s.Anc a b) :
    a = b ∨ ∃ c, (a, c) ∈ s.edgeList ∧ s.Anc c b := by
  induction h with
  | refl => exact Or.inl rfl
  | step p c _ he ih =>
    rcases ih with rfl | ⟨c', h1, h2⟩
    · exact Or.inr ⟨c, he, Anc.refl c⟩
    · exact Or.inr ⟨c', h1, Anc.step _ p c h2 he⟩

theorem Anc.cons {s : St} {a c b : Node} (he : (a, c) ∈ s.edgeList) (h : s.Anc c b) : s.Anc a b :=
  Anc.trans (Anc.step a a c (Anc.refl a) he) h

/-- tail decomposition -/
theorem Anc.tail {s : St} {a b : Node} (h : s.Anc a b) :
    a = b ∨ ∃ p, s.Anc a p ∧ (p, b) ∈ s.edgeList := by
  cases h with
  | refl => exact Or.inl rfl
  | step p c h he => exact Or.inr ⟨p, h, he⟩

/-- every node has a root ancestor -/
theorem tk_exists_root {s : St} (hF : s.Forest) :
    ∀ t n, n ∈ s.ids → s.tk_tm n = t → ∃ r, s.IsRoot r ∧ s.Anc r n := by
  intro t
  induction t using Nat.strongRecOn with
  | _ t ih =>
    intro n hn ht
    by_cases hp : ∃ p, (p, n) ∈ s.edgeList
    · rcases hp with ⟨p, hp⟩
      have hlt := hF.tm_lt hp
      rcases ih (s.tk_tm p) (by omega) p (hF.src_mem _ hp) rfl with ⟨r, hr, hra⟩
      exact ⟨r, hr, Anc.step _ p n hra hp⟩
    · exact ⟨n, ⟨hn, fun p hpn => hp ⟨p, hpn⟩⟩, Anc.refl n⟩

theorem LinOK.of_conn {s : St} (hL : s.LinOK) {a b : Node} (h : s.Conn a b) :
    s.linOf a = s.linOf b := by
  induction h with
  | refl => rfl
  | down p c _ he ih => rw [ih]; exact (hL.along _ he).symm
  | up p c _ he ih => rw [ih]; exact hL.along _ he

theorem tk_lin_iff_conn {s : St} (hF : s.Forest) (hL : s.LinOK) {a b : Node}
    (ha : a ∈ s.ids) (hb : b ∈ s.ids) : s.linOf a = s.linOf b ↔ s.Conn a b := by
  constructor
  · intro h
    rcases tk_exists_root hF _ a ha rfl with ⟨ra, hra, haa⟩
    rcases tk_exists_root hF _ b hb rfl with ⟨rb, hrb, hbb⟩
    have ca := haa.conn hra.1
    have cb := hbb.conn hrb.1
    have : ra = rb := by
      apply Classical.byContradiction
      intro hne
      apply hL.roots ra rb hra hrb hne
      rw [hL.of_conn ca, hL.of_conn cb, h]
    subst this
    exact (ca.symm hF).trans cb
  · exact hL.of_conn

/-! ### segments -/

/-- the part of a segment at or below a node: downward chain along non-division edges -/
inductive tk_SegDown (s : St) : Node → Node → Prop where
  | refl (n : Node) : tk_SegDown s n n
  | step (a p c : Node) : tk_SegDown s a p → (p, c) ∈ s.edgeList → s.outdeg p = 1 → tk_SegDown s a c

theorem SameSeg.mem_left {s : St} {a b : Node} (h : s.SameSeg a b) : a ∈ s.ids := by
  induction h with
  | refl hn => exact hn
  | down p c _ _ _ ih => exact ih
  | up p c _ _ _ ih => exact ih

theorem SameSeg.trans {s : St} {a b c : Node} (h1 : s.SameSeg a b) (h2 : s.SameSeg b c) :
    s.SameSeg a c := by
  induction h2 with
  | refl _ => exact h1
  | down p c _ he ho ih => exact SameSeg.down _ p c ih he ho
  | up p c _ he ho ih => exact SameSeg.up _ p c ih he ho

theorem SameSeg.symm {s : St} (hF : s.Forest) {a b : Node} (h : s.SameSeg a b) :
    s.SameSeg b a := by
  induction h with
  | refl hn => exact SameSeg.refl _ hn
  | down p c _ he ho ih =>
    exact SameSeg.trans (SameSeg.up c p c (SameSeg.refl c (hF.dst_mem _ he)) he ho) ih
  | up p c _ he ho ih =>
    exact SameSeg.trans (SameSeg.down p p c (SameSeg.refl p (hF.src_mem _ he)) he ho) ih

theorem SameSeg.mem_right {s : St} (hF : s.Forest) {a b : Node} (h : s.SameSeg a b) :
    b ∈ s.ids := (h.symm hF).mem_left

theorem SameSeg.conn {s : St} {a b : Node} (h : s.SameSeg a b) : s.Conn a b := by
  induction h with
  | refl hn => exact Conn.refl _ hn
  | down p c _ he _ ih => exact Conn.down _ p c ih he
  | up p c _ he _ ih => exact Conn.up _ p c ih he

theorem tk_SegDown.sameSeg {s : St} {a b : Node} (ha : a ∈ s.ids) (h : s.tk_SegDown a b) :
    s.SameSeg a b := by
  induction h with
  | refl => exact SameSeg.refl _ ha
  | step p c _ he ho ih => exact SameSeg.down _ p c ih he ho

theorem tk_SegDown.anc {s : St} {a b : Node} (h : s.tk_SegDown a b) : s.Anc a b := by
  induction h with
  | refl => exact Anc.refl _
  | step p c _ he _ ih => exact Anc.step _ p c ih he

theorem tk_SegDown.trans {s : St} {a b c : Node} (h1 : s.tk_SegDown a b) (h2 : s.tk_SegDown b c) :
    s.tk_SegDown a c := by
  induction h2 with
  | refl => exact h1
  | step p c _ he ho ih => exact tk_SegDown.step _ p c ih he ho

/-- head decomposition of `tk_SegDown` -/
theorem tk_SegDown.head {s : St} {a b : Node} (h : s.tk_SegDown a b) :
    a = b ∨ (s.outdeg a = 1 ∧ ∃ c, (a, c) ∈ s.edgeList ∧ s.tk_SegDown c b) := by
  induction h with
  | refl => exact Or.inl rfl
  | step p c _ he ho ih =>
    rcases ih with rfl | ⟨h0, c', h1, h2⟩
    · exact Or.inr ⟨ho, c, he, tk_SegDown.refl c⟩
    · exact Or.inr ⟨h0, c', h1, tk_SegDown.step _ p c h2 he ho⟩

theorem tk_SegDown.tail {s : St} {a b : Node} (h : s.tk_SegDown a b) :
    a = b ∨ ∃ p, s.tk_SegDown a p ∧ (p, b) ∈ s.edgeList ∧ s.outdeg p = 1 := by
  cases h with
  | refl => exact Or.inl rfl
  | step p c h he ho => exact Or.inr ⟨p, h, he, ho⟩

theorem tk_SegDown.cons {s : St} {a c b : Node} (he : (a, c) ∈ s.edgeList) (ho : s.outdeg a = 1)
    (h : s.tk_SegDown c b) : s.tk_SegDown a b :=
  tk_SegDown.trans (tk_SegDown.step a a c (tk_SegDown.refl a) he ho) h

/-- every node has a segment head above it -/
theorem tk_exists_head {s : St} (hF : s.Forest) :
    ∀ t n, n ∈ s.ids → s.tk_tm n = t → ∃ h, s.IsHead h ∧ s.tk_SegDown h n := by
  intro t
  induction t using Nat.strongRecOn with
  | _ t ih =>
    intro n hn ht
    by_cases hp : ∃ p, (p, n) ∈ s.edgeList ∧ s.outdeg p ≠ 2
    · rcases hp with ⟨p, hp, ho⟩
      have hlt := hF.tm_lt hp
      have ho1 : s.outdeg p = 1 := by
        have := tk_outdeg_pos hp
        have := hF.outdeg_le p
        omega
      rcases ih (s.tk_tm p) (by omega) p (hF.src_mem _ hp) rfl with ⟨h, hh, hha⟩
      exact ⟨h, hh, tk_SegDown.step _ p n hha hp ho1⟩
    · refine ⟨n, ⟨hn, fun p hpn => ?_⟩, tk_SegDown.refl n⟩
      apply Classical.byContradiction
      intro hne
      exact hp ⟨p, hpn, hne⟩

theorem TidOK.of_sameSeg {s : St} (hT : s.TidOK) {a b : Node} (h : s.SameSeg a b) :
    s.tidOf a = s.tidOf b := by
  induction h with
  | refl => rfl
  | down p c _ he ho ih => rw [ih]; exact (hT.along _ he ho).symm
  | up p c _ he ho ih => rw [ih]; exact hT.along _ he ho

theorem tk_tid_iff_sameSeg {s : St} (hF : s.Forest) (hT : s.TidOK) {a b : Node}
    (ha : a ∈ s.ids) (hb : b ∈ s.ids) : s.tidOf a = s.tidOf b ↔ s.SameSeg a b := by
  constructor
  · intro h
    rcases tk_exists_head hF _ a ha rfl with ⟨ra, hra, haa⟩
    rcases tk_exists_head hF _ b hb rfl with ⟨rb, hrb, hbb⟩
    have ca := haa.sameSeg hra.1
    have cb := hbb.sameSeg hrb.1
    have : ra = rb := by
      apply Classical.byContradiction
      intro hne
      apply hT.heads ra rb hra hrb hne
      rw [hT.of_sameSeg ca, hT.of_sameSeg cb, h]
    subst this
    exact (ca.symm hF).trans cb
  · exact hT.of_sameSeg

/-- in a forest a node is not a proper descendant of itself -/
theorem Anc.antisymm {s : St} (hF : s.Forest) {a b : Node} (h1 : s.Anc a b) (h2 : s.Anc b a) :
    a = b := by
  rcases h1.tail with h | ⟨p, hp, he⟩
  · exact h
  · have := hp.tm_le hF
    have := hF.tm_lt he
    have := h2.tm_le hF
    omega

theorem IsHead.no_in {s : St} {c p : Node} (h : s.IsHead c) (he : (p, c) ∈ s.edgeList)
    (ho : s.outdeg p = 1) : False := by
  have := h.2 p he; omega

/-- `SameSeg` nodes hang below the same heads -/
theorem SameSeg.head_iff {s : St} (hF : s.Forest) {a b : Node} (h : s.SameSeg a b) :
    ∀ h, s.IsHead h → (s.tk_SegDown h a ↔ s.tk_SegDown h b) := by
  induction h with
  | refl => intro h _; exact Iff.rfl
  | down p c _ he ho ih =>
    intro h hh
    rw [ih h hh]
    constructor
    · intro hd; exact tk_SegDown.step _ p c hd he ho
    · intro hd
      cases hd with
      | refl => exact (hh.no_in he ho).elim
      | step p' _ hd' he' _ => rw [hF.par_unique he he']; exact hd'
  | up p c _ he ho ih =>
    intro h hh
    rw [ih h hh]
    constructor
    · intro hd
      cases hd with
      | refl => exact (hh.no_in he ho).elim
      | step p' _ hd' he' _ => rw [hF.par_unique he he']; exact hd'
    · intro hd; exact tk_SegDown.step _ p c hd he ho

/-- the part of a segment below one of its nodes is a downward chain -/
theorem tk_segDown_iff {s : St} (hF : s.Forest) {a n : Node} (ha : a ∈ s.ids) :
    s.tk_SegDown a n ↔ (s.Anc a n ∧ s.SameSeg a n) := by
  constructor
  · intro h; exact ⟨h.anc, h.sameSeg ha⟩
  · rintro ⟨hanc, hseg⟩
    rcases tk_exists_head hF _ a ha rfl with ⟨h, hh, hha⟩
    have hhn : s.tk_SegDown h n := (hseg.head_iff hF h hh).1 hha
    clear hseg
    induction hanc with
    | refl => exact tk_SegDown.refl _
    | step p c hap he ih =>
      rcases hhn.tail with rfl | ⟨p', hd', he', ho'⟩
      · -- c is the head and an ancestor of a, while a is an ancestor of p → c: cycle
        have h1 : s.Anc h p := hha.anc.trans hap
        have := h1.tm_le hF
        have := hF.tm_lt he
        omega
      · have hpp : p = p' := hF.par_unique he he'
        subst hpp
        exact tk_SegDown.step _ p c (ih hd') he ho'


/-! ## §3 the relabel walk, decoupled: a BFS list and a fold over it -/

/-- what a step of the walk does to everything except the `next` queue -/
structure tk_Core where
  s : St
  flag : Bool
  tN : List Node
  lN : List Node

def WalkAcc.core (a : WalkAcc) : tk_Core := ⟨a.s, a.flag, a.tNodes, a.lNodes⟩

def tk_visit (old new : Nat) (newLin : Option Nat) (updLin : Bool) (c : tk_Core) (n : Node) : tk_Core :=
  let s1 := if updLin then c.s.setLin n newLin else c.s
  let lN := if updLin then c.lN ++ [n] else c.lN
  if c.flag && s1.tidOf n == some old then ⟨s1.setTid n new, true, c.tN ++ [n], lN⟩
  else ⟨s1, false, c.tN, lN⟩

theorem tk_walkNode_core (old new nl ul) (a : WalkAcc) (n : Node) :
    (walkNode old new nl ul a n).core = tk_visit old new nl ul a.core n := by
  unfold walkNode tk_visit WalkAcc.core
  cases a.flag <;> cases ul <;> simp <;> split <;> simp_all

theorem tk_updNode_edges (s : St) (n : Node) (f) : (s.updNode n f).edges = s.edges := rfl
theorem tk_setLin_edges (s : St) (n : Node) (l) : (s.setLin n l).edges = s.edges := rfl
theorem tk_setTid_edges (s : St) (n : Node) (l) : (s.setTid n l).edges = s.edges := rfl

theorem tk_visit_edges (old new nl ul) (c : tk_Core) (n : Node) :
    (tk_visit old new nl ul c n).s.edges = c.s.edges := by
  unfold tk_visit
  cases ul <;> simp <;> split <;> simp [tk_setLin_edges, tk_setTid_edges]

theorem tk_walkNode_next (old new nl ul) (a : WalkAcc) (n : Node) :
    (walkNode old new nl ul a n).next = a.next ++ a.s.succs n := by
  have h := tk_visit_edges old new nl ul a.core n
  rw [← tk_walkNode_core] at h
  have : (walkNode old new nl ul a n).next = a.next ++ (walkNode old new nl ul a n).s.succs n := by
    unfold walkNode; rfl
  rw [this]
  unfold succs
  rw [show (walkNode old new nl ul a n).s.edges = a.s.edges from h]

theorem tk_foldl_visit_edges (old new nl ul) (l : List Node) (c : tk_Core) :
    (l.foldl (tk_visit old new nl ul) c).s.edges = c.s.edges := by
  induction l generalizing c with
  | nil => rfl
  | cons x l ih => rw [List.foldl_cons, ih, tk_visit_edges]

theorem tk_foldl_walkNode (old new nl ul) (l : List Node) (a : WalkAcc) :
    (l.foldl (walkNode old new nl ul) a).core = l.foldl (tk_visit old new nl ul) a.core ∧
    (l.foldl (walkNode old new nl ul) a).next = a.next ++ l.flatMap a.s.succs := by
  induction l generalizing a with
  | nil => simp
  | cons x l ih =>
    rw [List.foldl_cons, List.foldl_cons, List.flatMap_cons]
    rcases ih (walkNode old new nl ul a x) with ⟨h1, h2⟩
    rw [h1, h2, tk_walkNode_core, tk_walkNode_next, List.append_assoc]
    refine ⟨rfl, ?_⟩
    have he : (walkNode old new nl ul a x).s.edges = a.s.edges := by
      have := tk_visit_edges old new nl ul a.core x
      rw [← tk_walkNode_core] at this; exact this
    have : (walkNode old new nl ul a x).s.succs = a.s.succs := by
      funext u; unfold succs; rw [he]
    rw [this]

/-- the BFS order of the walk: level by level -/
def tk_bfs (succ : Node → List Node) : Nat → List Node → List Node
  | 0, _ => []
  | _ + 1, [] => []
  | f + 1, curr => curr ++ tk_bfs succ f (curr.flatMap succ)

theorem tk_walkLevels_core (old new nl ul) (fuel : Nat) (a : WalkAcc) :
    (walkLevels old new nl ul fuel a).core =
      (tk_bfs a.s.succs fuel a.next).foldl (tk_visit old new nl ul) a.core := by
  induction fuel generalizing a with
  | zero => simp [walkLevels, tk_bfs]
  | succ f ih =>
    unfold walkLevels
    cases hn : a.next with
    | nil => simp [tk_bfs]
    | cons x xs =>
      simp only
      rw [ih]
      rcases tk_foldl_walkNode old new nl ul (x :: xs) { a with next := [] } with ⟨h1, h2⟩
      rw [h1, h2]
      have he : ((x :: xs).foldl (walkNode old new nl ul) { a with next := [] }).s.edges = a.s.edges := by
        have := tk_foldl_visit_edges old new nl ul (x :: xs) a.core
        have h1' : ((x :: xs).foldl (walkNode old new nl ul) { a with next := [] }).core.s
            = ((x :: xs).foldl (tk_visit old new nl ul) a.core).s := by rw [h1]; rfl
        show ((x :: xs).foldl (walkNode old new nl ul) { a with next := [] }).core.s.edges = _
        rw [h1']; exact this
      have hs : ((x :: xs).foldl (walkNode old new nl ul) { a with next := [] }).s.succs = a.s.succs := by
        funext u; unfold succs; rw [he]
      rw [hs]
      show _ = (tk_bfs a.s.succs (f + 1) (x :: xs)).foldl _ _
      rw [tk_bfs]
      · rw [List.foldl_append]; simp [WalkAcc.core]
      · intro h; cases h


/-! ### the BFS list in a forest -/

/-- `n` is reached from `a` by exactly `k` edges -/
def tk_Desc (s : St) (a : Node) : Nat → Node → Prop
  | 0, n => n = a
  | k + 1, n => ∃ p, tk_Desc s a k p ∧ (p, n) ∈ s.edgeList

theorem tk_Desc.anc {s : St} {a : Node} : ∀ {k n}, s.tk_Desc a k n → s.Anc a n
  | 0, _, h => by cases h; exact Anc.refl _
  | _ + 1, _, ⟨p, hp, he⟩ => Anc.step _ p _ hp.anc he

theorem Anc.desc {s : St} {a n : Node} (h : s.Anc a n) : ∃ k, s.tk_Desc a k n := by
  induction h with
  | refl => exact ⟨0, rfl⟩
  | step p c _ he ih => rcases ih with ⟨k, hk⟩; exact ⟨k + 1, p, hk, he⟩

theorem tk_Desc.unique {s : St} (hF : s.Forest) {a : Node} :
    ∀ {k j n}, s.tk_Desc a k n → s.tk_Desc a j n → k = j
  | 0, 0, _, _, _ => rfl
  | 0, j + 1, n, h1, ⟨p, hp, he⟩ => by
    cases h1
    have := hp.anc.tm_le hF
    have := hF.tm_lt he
    omega
  | k + 1, 0, n, ⟨p, hp, he⟩, h2 => by
    cases h2
    have := hp.anc.tm_le hF
    have := hF.tm_lt he
    omega
  | k + 1, j + 1, n, ⟨p, hp, he⟩, ⟨q, hq, he'⟩ => by
    have := hF.par_unique he he'
    subst this
    rw [tk_Desc.unique hF hp hq]

theorem tk_Desc.prefix {s : St} {a : Node} : ∀ {k n} d, s.tk_Desc a k n → d ≤ k → ∃ m, s.tk_Desc a d m
  | 0, n, d, h, hd => by
    have : d = 0 := by omega
    subst this; exact ⟨n, h⟩
  | k + 1, n, d, ⟨p, hp, he⟩, hd => by
    by_cases h : d = k + 1
    · subst h; exact ⟨n, p, hp, he⟩
    · exact tk_Desc.prefix d hp (by omega)

theorem tk_filter_length_mono {α} (p q : α → Bool) (hqp : ∀ x, q x = true → p x = true) :
    ∀ (l : List α), (l.filter q).length ≤ (l.filter p).length
  | [] => by simp
  | y :: l => by
    have ih := tk_filter_length_mono p q hqp l
    cases hq : q y
    · cases hp : p y <;> simp [hq, hp] <;> omega
    · simp [hq, hqp y hq]; omega

theorem tk_filter_length_lt {α} (p q : α → Bool) (hqp : ∀ x, q x = true → p x = true)
    (a : α) (hpa : p a = true) (hqa : q a = false) :
    ∀ (l : List α), a ∈ l → (l.filter q).length + 1 ≤ (l.filter p).length
  | [], ha => by cases ha
  | x :: l, ha => by
    have hmono := tk_filter_length_mono p q hqp l
    rcases List.mem_cons.1 ha with rfl | ha'
    · simp [hpa, hqa]; omega
    · have ih := tk_filter_length_lt p q hqp a hpa hqa l ha'
      cases hq : q x
      · cases hp : p x <;> simp [hq, hp] <;> omega
      · simp [hq, hqp x hq]; omega

theorem tk_Desc.bound {s : St} (hF : s.Forest) {a : Node} (ha : a ∈ s.ids) :
    ∀ {k n}, s.tk_Desc a k n →
      n ∈ s.ids ∧ k + 1 ≤ (s.ids.filter (fun x => decide (s.tk_tm x ≤ s.tk_tm n))).length
  | 0, n, h => by
    cases h
    refine ⟨ha, ?_⟩
    have : a ∈ s.ids.filter (fun x => decide (s.tk_tm x ≤ s.tk_tm a)) := by
      simp [List.mem_filter, ha]
    have := List.length_pos_of_mem this
    omega
  | k + 1, n, ⟨p, hp, he⟩ => by
    have hn := hF.dst_mem _ he
    refine ⟨hn, ?_⟩
    have ih := (tk_Desc.bound hF ha hp).2
    have hlt := hF.tm_lt he
    have := tk_filter_length_lt (fun x => decide (s.tk_tm x ≤ s.tk_tm n)) (fun x => decide (s.tk_tm x ≤ s.tk_tm p))
      (by intro x hx; simp at hx ⊢; omega) n (by simp) (by simp; omega) s.ids hn
    omega

theorem tk_Desc.lt_length {s : St} (hF : s.Forest) {a : Node} (ha : a ∈ s.ids) {k n}
    (h : s.tk_Desc a k n) : k < s.nodes.length := by
  have h1 := (h.bound hF ha).2
  have h2 := List.length_filter_le (fun x => decide (s.tk_tm x ≤ s.tk_tm n)) s.ids
  have : s.ids.length = s.nodes.length := by simp [ids]
  omega

theorem tk_succs_nodup_aux (u : Node) : ∀ (es : List EdgeRec), (es.map (·.e)).Nodup →
    ((es.filter (·.e.1 == u)).map (·.e.2)).Nodup
  | [], _ => by simp
  | r :: es, h => by
    rw [List.map_cons, List.nodup_cons] at h
    have ih := tk_succs_nodup_aux u es h.2
    simp only [List.filter_cons]
    split
    · rename_i hu
      rw [List.map_cons, List.nodup_cons]
      refine ⟨?_, ih⟩
      intro hmem
      rcases List.mem_map.1 hmem with ⟨r', hr', h2⟩
      rcases List.mem_filter.1 hr' with ⟨hr'es, hu'⟩
      apply h.1
      refine List.mem_map.2 ⟨r', hr'es, ?_⟩
      have e1 : r'.e.1 = u := by simpa using hu'
      have e2 : r.e.1 = u := by simpa using hu
      exact Prod.ext (by rw [e1, e2]) h2
    · exact ih

theorem Forest.succs_nodup {s : St} (hF : s.Forest) (u : Node) : (s.succs u).Nodup :=
  tk_succs_nodup_aux u s.edges hF.nodup_edges

theorem Forest.flatMap_succs_nodup {s : St} (hF : s.Forest) :
    ∀ (l : List Node), l.Nodup → (l.flatMap s.succs).Nodup
  | [], _ => by simp
  | x :: xs, h => by
    rw [List.nodup_cons] at h
    rw [List.flatMap_cons, List.nodup_append]
    refine ⟨hF.succs_nodup x, hF.flatMap_succs_nodup xs h.2, ?_⟩
    intro c hc c' hc' hcc
    subst hcc
    rcases List.mem_flatMap.1 hc' with ⟨y, hy, hcy⟩
    have := hF.par_unique (tk_mem_succs.1 hc) (tk_mem_succs.1 hcy)
    subst this
    exact h.1 hy

theorem tk_bfs_spec {s : St} (hF : s.Forest) {start : Node} :
    ∀ (f : Nat) (curr : List Node) (d : Nat), curr.Nodup → (∀ m, m ∈ curr ↔ s.tk_Desc start d m) →
      (tk_bfs s.succs f curr).Nodup ∧
      ∀ n, n ∈ tk_bfs s.succs f curr ↔ ∃ k, d ≤ k ∧ k < d + f ∧ s.tk_Desc start k n
  | 0, curr, d, _, _ => by
    refine ⟨by simp [tk_bfs], fun n => ?_⟩
    simp only [tk_bfs, List.not_mem_nil, false_iff]
    rintro ⟨k, h1, h2, _⟩; omega
  | f + 1, [], d, _, hm => by
    refine ⟨by simp [tk_bfs], fun n => ?_⟩
    simp only [tk_bfs, List.not_mem_nil, false_iff]
    rintro ⟨k, h1, _, h3⟩
    rcases h3.prefix d h1 with ⟨m, hm'⟩
    exact List.not_mem_nil ((hm m).2 hm')
  | f + 1, x :: xs, d, hnd, hm => by
    have hnext : ∀ c, c ∈ (x :: xs).flatMap s.succs ↔ s.tk_Desc start (d + 1) c := by
      intro c
      rw [List.mem_flatMap]
      constructor
      · rintro ⟨m, hm1, hm2⟩; exact ⟨m, (hm m).1 hm1, tk_mem_succs.1 hm2⟩
      · rintro ⟨m, hm1, hm2⟩; exact ⟨m, (hm m).2 hm1, tk_mem_succs.2 hm2⟩
    rcases tk_bfs_spec hF f _ (d + 1) (hF.flatMap_succs_nodup _ hnd) hnext with ⟨ih1, ih2⟩
    rw [tk_bfs]
    · refine ⟨?_, fun n => ?_⟩
      · rw [List.nodup_append]
        refine ⟨hnd, ih1, ?_⟩
        intro a ha b hb hab
        subst hab
        rcases (ih2 a).1 hb with ⟨k, hk1, _, hk3⟩
        have := tk_Desc.unique hF ((hm a).1 ha) hk3
        omega
      · rw [List.mem_append, ih2 n, hm n]
        constructor
        · rintro (h | ⟨k, h1, h2, h3⟩)
          · exact ⟨d, Nat.le_refl _, by omega, h⟩
          · exact ⟨k, by omega, by omega, h3⟩
        · rintro ⟨k, h1, h2, h3⟩
          by_cases hk : k = d
          · subst hk; exact Or.inl h3
          · exact Or.inr ⟨k, by omega, by omega, h3⟩
    · intro h; cases h

/-- **the walk visits exactly the descendants-or-self of `start`, each once** -/
theorem tk_bfs_walk {s : St} (hF : s.Forest) {start : Node} (hs : start ∈ s.ids) :
    (tk_bfs s.succs (s.nodes.length + 1) [start]).Nodup ∧
    ∀ n, n ∈ tk_bfs s.succs (s.nodes.length + 1) [start] ↔ s.Anc start n := by
  have h0 : ∀ m, m ∈ [start] ↔ s.tk_Desc start 0 m := by
    intro m; simp only [tk_Desc, List.mem_singleton]
  rcases tk_bfs_spec hF (s.nodes.length + 1) [start] 0 (by simp) h0 with ⟨h1, h2⟩
  refine ⟨h1, fun n => ?_⟩
  rw [h2]
  constructor
  · rintro ⟨k, _, _, h⟩; exact h.anc
  · intro h
    rcases h.desc with ⟨k, hk⟩
    exact ⟨k, Nat.zero_le _, by have := hk.lt_length hF hs; omega, hk⟩


/-! ## §4 effect of the fold on the node attributes -/

theorem tk_find_map_id (g : NodeRec → NodeRec) (hg : ∀ r, (g r).id = r.id) (m : Node) :
    ∀ l : List NodeRec, (l.map g).find? (·.id == m) = (l.find? (·.id == m)).map g
  | [] => rfl
  | r :: l => by
    simp only [List.map_cons, List.find?_cons, hg]
    cases r.id == m
    · simpa using tk_find_map_id g hg m l
    · rfl

theorem tk_findNode_updNode (s : St) (n : Node) (f : NodeRec → NodeRec) (hf : ∀ r, (f r).id = r.id)
    (m : Node) : (s.updNode n f).findNode m =
      (s.findNode m).map (fun r => if r.id == n then f r else r) := by
  unfold findNode updNode
  exact tk_find_map_id _ (by intro r; split <;> simp [hf]) m s.nodes

theorem tk_findNode_setLin (s : St) (n l m) : (s.setLin n l).findNode m =
    (s.findNode m).map (fun r => if r.id == n then { r with lin := l } else r) :=
  tk_findNode_updNode s n (fun r => { r with lin := l }) (fun _ => rfl) m

theorem tk_findNode_setTid (s : St) (n l m) : (s.setTid n l).findNode m =
    (s.findNode m).map (fun r => if r.id == n then { r with tid := l } else r) :=
  tk_findNode_updNode s n (fun r => { r with tid := l }) (fun _ => rfl) m

theorem tk_ids_updNode (s : St) (n : Node) (f : NodeRec → NodeRec) (hf : ∀ r, (f r).id = r.id) :
    (s.updNode n f).ids = s.ids := by
  unfold ids updNode
  simp only [List.map_map]
  apply List.map_congr_left
  intro r _
  simp only [Function.comp]
  split <;> simp [hf]

theorem tk_ids_setLin (s : St) (n l) : (s.setLin n l).ids = s.ids := tk_ids_updNode _ _ _ (fun _ => rfl)
theorem tk_ids_setTid (s : St) (n l) : (s.setTid n l).ids = s.ids := tk_ids_updNode _ _ _ (fun _ => rfl)

theorem tk_timeOf_setLin (s : St) (n l m) : (s.setLin n l).timeOf m = s.timeOf m := by
  unfold timeOf
  rw [tk_findNode_setLin]
  cases s.findNode m with
  | none => rfl
  | some r => simp only [Option.map_some]; split <;> rfl

theorem tk_timeOf_setTid (s : St) (n l m) : (s.setTid n l).timeOf m = s.timeOf m := by
  unfold timeOf
  rw [tk_findNode_setTid]
  cases s.findNode m with
  | none => rfl
  | some r => simp only [Option.map_some]; split <;> rfl

theorem tk_tidOf_setLin (s : St) (n l m) : (s.setLin n l).tidOf m = s.tidOf m := by
  unfold tidOf
  rw [tk_findNode_setLin]
  cases s.findNode m with
  | none => rfl
  | some r => simp only [Option.map_some]; split <;> rfl

theorem tk_linOf_setTid (s : St) (n l m) : (s.setTid n l).linOf m = s.linOf m := by
  unfold linOf
  rw [tk_findNode_setTid]
  cases s.findNode m with
  | none => rfl
  | some r => simp only [Option.map_some, Option.bind_some]; split <;> rfl

theorem tk_linOf_setLin_ne (s : St) (n l) {m} (h : m ≠ n) : (s.setLin n l).linOf m = s.linOf m := by
  unfold linOf
  rw [tk_findNode_setLin]
  cases hf : s.findNode m with
  | none => rfl
  | some r =>
    have := (tk_findNode_id hf).1
    simp only [Option.map_some, Option.bind_some]
    split
    · rename_i h'; exact absurd (by simpa [this] using h') h
    · rfl

theorem tk_linOf_setLin_self (s : St) (n l) (h : n ∈ s.ids) : (s.setLin n l).linOf n = l := by
  unfold linOf
  rw [tk_findNode_setLin]
  rcases tk_mem_ids_iff.1 h with ⟨r, hr⟩
  have := (tk_findNode_id hr).1
  simp [hr, this]

theorem tk_tidOf_setTid_ne (s : St) (n l) {m} (h : m ≠ n) : (s.setTid n l).tidOf m = s.tidOf m := by
  unfold tidOf
  rw [tk_findNode_setTid]
  cases hf : s.findNode m with
  | none => rfl
  | some r =>
    have := (tk_findNode_id hf).1
    simp only [Option.map_some]
    split
    · rename_i h'; exact absurd (by simpa [this] using h') h
    · rfl

theorem tk_tidOf_setTid_self (s : St) (n l) (h : n ∈ s.ids) : (s.setTid n l).tidOf n = some l := by
  unfold tidOf
  rw [tk_findNode_setTid]
  rcases tk_mem_ids_iff.1 h with ⟨r, hr⟩
  have := (tk_findNode_id hr).1
  simp [hr, this]

/-- "same graph": same edges, node ids and times (everything `Forest` and the relations see) -/
structure tk_SameG (s s' : St) : Prop where
  edges : s'.edges = s.edges
  ids : s'.ids = s.ids
  time : ∀ n, s'.timeOf n = s.timeOf n

theorem tk_SameG.rfl' (s : St) : tk_SameG s s := ⟨rfl, rfl, fun _ => rfl⟩

theorem tk_SameG.trans {a b c : St} (h1 : tk_SameG a b) (h2 : tk_SameG b c) : tk_SameG a c :=
  ⟨h2.edges.trans h1.edges, h2.ids.trans h1.ids, fun n => (h2.time n).trans (h1.time n)⟩

theorem tk_SameG.edgeList {s s' : St} (h : tk_SameG s s') : s'.edgeList = s.edgeList := by
  unfold St.edgeList; rw [h.edges]

theorem tk_SameG.outdeg {s s' : St} (h : tk_SameG s s') (u) : s'.outdeg u = s.outdeg u := by
  unfold St.outdeg succs; rw [h.edges]

theorem tk_SameG.indeg {s s' : St} (h : tk_SameG s s') (u) : s'.indeg u = s.indeg u := by
  unfold St.indeg preds; rw [h.edges]

theorem tk_SameG.succs {s s' : St} (h : tk_SameG s s') (u) : s'.succs u = s.succs u := by
  unfold St.succs; rw [h.edges]

theorem tk_SameG.preds {s s' : St} (h : tk_SameG s s') (u) : s'.preds u = s.preds u := by
  unfold St.preds; rw [h.edges]

theorem tk_SameG.forest {s s' : St} (h : tk_SameG s s') (hF : s.Forest) : s'.Forest where
  nodup_nodes := by rw [h.ids]; exact hF.nodup_nodes
  nodup_edges := by rw [h.edgeList]; exact hF.nodup_edges
  src_mem := by rw [h.edgeList, h.ids]; exact hF.src_mem
  dst_mem := by rw [h.edgeList, h.ids]; exact hF.dst_mem
  forward := by
    rw [h.edgeList]; intro e he t1 t2; rw [h.time, h.time]; exact hF.forward e he t1 t2
  indeg_le := by intro v; rw [h.indeg]; exact hF.indeg_le v
  outdeg_le := by intro v; rw [h.outdeg]; exact hF.outdeg_le v

theorem tk_sameG_setLin (s : St) (n l) : tk_SameG s (s.setLin n l) :=
  ⟨rfl, tk_ids_setLin s n l, tk_timeOf_setLin s n l⟩
theorem tk_sameG_setTid (s : St) (n l) : tk_SameG s (s.setTid n l) :=
  ⟨rfl, tk_ids_setTid s n l, tk_timeOf_setTid s n l⟩

theorem tk_visit_sameG (old new nl ul) (c : tk_Core) (n : Node) :
    tk_SameG c.s (tk_visit old new nl ul c n).s := by
  unfold tk_visit
  cases ul <;> simp only [Bool.false_eq_true, if_false, if_true] <;> split
  · exact tk_sameG_setTid _ _ _
  · exact tk_SameG.rfl' _
  · exact (tk_sameG_setLin _ _ _).trans (tk_sameG_setTid _ _ _)
  · exact tk_sameG_setLin _ _ _

theorem tk_foldl_visit_sameG (old new nl ul) (l : List Node) (c : tk_Core) :
    tk_SameG c.s (l.foldl (tk_visit old new nl ul) c).s := by
  induction l generalizing c with
  | nil => exact tk_SameG.rfl' _
  | cons x l ih => rw [List.foldl_cons]; exact (tk_visit_sameG old new nl ul c x).trans (ih _)

/-- lineage written by the fold (`updLin = true`) -/
theorem tk_foldl_visit_lin (old new nl) (l : List Node) (c : tk_Core) :
    let c' := l.foldl (tk_visit old new nl true) c
    c'.lN = c.lN ++ l ∧
    (∀ m, m ∈ l → m ∈ c.s.ids → c'.s.linOf m = nl) ∧
    (∀ m, m ∉ l → c'.s.linOf m = c.s.linOf m) := by
  induction l generalizing c with
  | nil => simp
  | cons x l ih =>
    simp only [List.foldl_cons]
    rcases ih (tk_visit old new nl true c x) with ⟨h1, h2, h3⟩
    have hids : (tk_visit old new nl true c x).s.ids = c.s.ids := (tk_visit_sameG old new nl true c x).ids
    have hlN : (tk_visit old new nl true c x).lN = c.lN ++ [x] := by
      unfold tk_visit; simp only [if_true]; split <;> rfl
    have hx : x ∈ c.s.ids → (tk_visit old new nl true c x).s.linOf x = nl := by
      intro hx
      unfold tk_visit; simp only [if_true]; split
      · rw [tk_linOf_setTid]; exact tk_linOf_setLin_self _ _ _ hx
      · exact tk_linOf_setLin_self _ _ _ hx
    have hne : ∀ m, m ≠ x → (tk_visit old new nl true c x).s.linOf m = c.s.linOf m := by
      intro m hm
      unfold tk_visit; simp only [if_true]; split
      · rw [tk_linOf_setTid]; exact tk_linOf_setLin_ne _ _ _ hm
      · exact tk_linOf_setLin_ne _ _ _ hm
    refine ⟨by rw [h1, hlN]; simp, ?_, ?_⟩
    · intro m hm hmi
      by_cases hml : m ∈ l
      · exact h2 m hml (by rw [hids]; exact hmi)
      · rw [h3 m hml]
        rcases List.mem_cons.1 hm with rfl | hm'
        · exact hx hmi
        · exact absurd hm' hml
    · intro m hm
      rw [List.mem_cons, not_or] at hm
      rw [h3 m hm.2, hne m hm.1]

/-- without lineage update the fold leaves all lineages alone -/
theorem tk_foldl_visit_nolin (old new nl) (l : List Node) (c : tk_Core) :
    let c' := l.foldl (tk_visit old new nl false) c
    c'.lN = c.lN ∧ ∀ m, c'.s.linOf m = c.s.linOf m := by
  induction l generalizing c with
  | nil => simp
  | cons x l ih =>
    simp only [List.foldl_cons]
    rcases ih (tk_visit old new nl false c x) with ⟨h1, h2⟩
    have hlN : (tk_visit old new nl false c x).lN = c.lN := by
      unfold tk_visit; simp only [Bool.false_eq_true, if_false]; split <;> rfl
    have hne : ∀ m, (tk_visit old new nl false c x).s.linOf m = c.s.linOf m := by
      intro m
      unfold tk_visit; simp only [Bool.false_eq_true, if_false]; split
      · rw [tk_linOf_setTid]
      · rfl
    exact ⟨h1.trans hlN, fun m => (h2 m).trans (hne m)⟩

theorem tk_visit_tid_ne (old new nl ul) (c : tk_Core) (x : Node) {m : Node} (h : m ≠ x) :
    (tk_visit old new nl ul c x).s.tidOf m = c.s.tidOf m := by
  unfold tk_visit
  cases ul <;> simp only [Bool.false_eq_true, if_false, if_true] <;> split
  · exact tk_tidOf_setTid_ne _ _ _ h
  · rfl
  · rw [tk_tidOf_setTid_ne _ _ _ h, tk_tidOf_setLin]
  · rw [tk_tidOf_setLin]

/-- once the flag is down the fold changes no track id -/
theorem tk_foldl_visit_flag_false (old new nl ul) (l : List Node) (c : tk_Core) (hf : c.flag = false) :
    let c' := l.foldl (tk_visit old new nl ul) c
    c'.flag = false ∧ c'.tN = c.tN ∧ ∀ m, c'.s.tidOf m = c.s.tidOf m := by
  induction l generalizing c with
  | nil => simp [hf]
  | cons x l ih =>
    simp only [List.foldl_cons]
    have hv : (tk_visit old new nl ul c x).flag = false ∧ (tk_visit old new nl ul c x).tN = c.tN ∧
        ∀ m, (tk_visit old new nl ul c x).s.tidOf m = c.s.tidOf m := by
      unfold tk_visit
      simp only [hf, Bool.false_and, Bool.false_eq_true, if_false]
      refine ⟨by trivial, by trivial, fun m => ?_⟩
      cases ul
      · rfl
      · simp only [if_true]; rw [tk_tidOf_setLin]
    rcases ih _ hv.1 with ⟨h1, h2, h3⟩
    exact ⟨h1, h2.trans hv.2.1, fun m => (h3 m).trans (hv.2.2 m)⟩

/-- track ids written by the fold: the maximal prefix of the list that carries `old` -/
theorem tk_foldl_visit_tid (old new nl ul) (T : Node → Option Nat) (l : List Node) (c : tk_Core)
    (hnd : l.Nodup) (hmem : ∀ m ∈ l, m ∈ c.s.ids) (hT : ∀ m ∈ l, c.s.tidOf m = T m)
    (hf : c.flag = true) :
    let c' := l.foldl (tk_visit old new nl ul) c
    let pre := l.takeWhile (fun m => T m == some old)
    c'.tN = c.tN ++ pre ∧
    (∀ m, m ∈ pre → c'.s.tidOf m = some new) ∧
    (∀ m, m ∉ pre → c'.s.tidOf m = c.s.tidOf m) := by
  induction l generalizing c with
  | nil => simp
  | cons x l ih =>
    simp only [List.foldl_cons]
    rw [List.nodup_cons] at hnd
    have hxT := hT x (List.mem_cons_self)
    have hxi := hmem x (List.mem_cons_self)
    by_cases hP : T x = some old
    · -- x is relabelled, flag stays up
      have hv : (tk_visit old new nl ul c x).flag = true ∧ (tk_visit old new nl ul c x).tN = c.tN ++ [x] ∧
          (tk_visit old new nl ul c x).s.tidOf x = some new := by
        unfold tk_visit
        cases ul <;> simp only [Bool.false_eq_true, if_false, if_true, tk_tidOf_setLin, hxT, hP, hf,
          Bool.true_and, beq_self_eq_true]
        · exact ⟨by trivial, by trivial, tk_tidOf_setTid_self _ _ _ hxi⟩
        · refine ⟨by trivial, by trivial, tk_tidOf_setTid_self _ _ _ ?_⟩
          rw [tk_ids_setLin]; exact hxi
      have hids := (tk_visit_sameG old new nl ul c x).ids
      rcases ih (tk_visit old new nl ul c x) hnd.2
        (by intro m hm; rw [hids]; exact hmem m (List.mem_cons_of_mem _ hm))
        (by intro m hm
            have : m ≠ x := by intro h; subst h; exact hnd.1 hm
            rw [tk_visit_tid_ne _ _ _ _ _ _ this]; exact hT m (List.mem_cons_of_mem _ hm))
        hv.1 with ⟨h1, h2, h3⟩
      have hpre : (x :: l).takeWhile (fun m => T m == some old)
          = x :: l.takeWhile (fun m => T m == some old) := by
        simp [hP]
      simp only [hpre]
      refine ⟨by rw [h1, hv.2.1]; simp, ?_, ?_⟩
      · intro m hm
        by_cases hml : m ∈ l.takeWhile (fun m => T m == some old)
        · exact h2 m hml
        · rw [h3 m hml]
          rcases List.mem_cons.1 hm with rfl | hm'
          · exact hv.2.2
          · exact absurd hm' hml
      · intro m hm
        rw [List.mem_cons, not_or] at hm
        rw [h3 m hm.2, tk_visit_tid_ne _ _ _ _ _ _ hm.1]
    · -- flag goes down at x
      have hv : (tk_visit old new nl ul c x).flag = false ∧ (tk_visit old new nl ul c x).tN = c.tN ∧
          ∀ m, (tk_visit old new nl ul c x).s.tidOf m = c.s.tidOf m := by
        unfold tk_visit
        cases ul <;> simp only [Bool.false_eq_true, if_false, if_true, tk_tidOf_setLin, hxT, hf,
          Bool.true_and, beq_iff_eq, hP]
        · exact ⟨by trivial, by trivial, fun _ => by trivial⟩
        · exact ⟨by trivial, by trivial, fun m => by trivial⟩
      rcases tk_foldl_visit_flag_false old new nl ul l _ hv.1 with ⟨_, h2, h3⟩
      have hpre : (x :: l).takeWhile (fun m => T m == some old) = [] := by
        simp [hP]
      simp only [hpre]
      refine ⟨by rw [h2, hv.2.1]; simp, ?_, ?_⟩
      · intro m hm; cases hm
      · intro m _
        rw [h3 m, hv.2.2 m]


/-! ### the walk as a whole -/

theorem tk_linOf_congr {s s' : St} (h : s'.nodes = s.nodes) (n) : s'.linOf n = s.linOf n := by
  unfold linOf findNode; rw [h]
theorem tk_tidOf_congr {s s' : St} (h : s'.nodes = s.nodes) (n) : s'.tidOf n = s.tidOf n := by
  unfold tidOf findNode; rw [h]
theorem tk_timeOf_congr {s s' : St} (h : s'.nodes = s.nodes) (n) : s'.timeOf n = s.timeOf n := by
  unfold timeOf findNode; rw [h]
theorem tk_sameG_of_nodes_edges {s s' : St} (h : s'.nodes = s.nodes) (he : s'.edges = s.edges) :
    tk_SameG s s' := ⟨he, by unfold ids; rw [h], tk_timeOf_congr h⟩

/-- the fields the walk's fold never touches -/
structure tk_SameRest (s s' : St) : Prop where
  linOn : s'.linOn = s.linOn
  maxLin : s'.maxLin = s.maxLin
  maxTid : s'.maxTid = s.maxTid

theorem tk_visit_rest (old new nl ul) (c : tk_Core) (n : Node) :
    tk_SameRest c.s (tk_visit old new nl ul c n).s := by
  unfold tk_visit
  cases ul <;> simp only [Bool.false_eq_true, if_false, if_true] <;> split <;>
    exact ⟨rfl, rfl, rfl⟩

theorem tk_foldl_visit_rest (old new nl ul) (l : List Node) (c : tk_Core) :
    tk_SameRest c.s (l.foldl (tk_visit old new nl ul) c).s := by
  induction l generalizing c with
  | nil => exact ⟨rfl, rfl, rfl⟩
  | cons x l ih =>
    rw [List.foldl_cons]
    have h1 := tk_visit_rest old new nl ul c x
    have h2 := ih (tk_visit old new nl ul c x)
    exact ⟨h2.linOn.trans h1.linOn, h2.maxLin.trans h1.maxLin, h2.maxTid.trans h1.maxTid⟩

/-- the result of the fold of the walk -/
def tk_walkCore (s : St) (start : Node) (oldT newT : Nat) (newL : Option Nat) : tk_Core :=
  (tk_bfs s.succs (s.nodes.length + 1) [start]).foldl
    (tk_visit oldT newT newL (newL.isSome && s.linOn)) ⟨s, true, [], []⟩

/-- the bookkeeping tail of `walk`, applied to the result of the fold -/
def tk_walkFin (s : St) (oldT newT : Nat) (oldL newL : Option Nat) (c : tk_Core) : St :=
  let s1 := c.s.bookMoveT c.tN oldT newT
  match newL.isSome && s.linOn, newL with
  | true, some nl => s1.bookMoveL c.lN oldL nl
  | _, _ => s1

theorem tk_walk_eq (s : St) (start : Node) (oldT newT : Nat) (oldL newL : Option Nat) :
    s.walk start oldT newT oldL newL =
      tk_walkFin s oldT newT oldL newL (s.tk_walkCore start oldT newT newL) := by
  have h := tk_walkLevels_core oldT newT newL (newL.isSome && s.linOn) (s.nodes.length + 1)
    { s := s, flag := true, tNodes := [], lNodes := [], next := [start] }
  have h0 : s.walk start oldT newT oldL newL = tk_walkFin s oldT newT oldL newL
      (walkLevels oldT newT newL (newL.isSome && s.linOn) (s.nodes.length + 1)
        { s := s, flag := true, tNodes := [], lNodes := [], next := [start] }).core := rfl
  rw [h0, h]; rfl

theorem tk_bookMoveT_nodes (s : St) (l o n) : (s.bookMoveT l o n).nodes = s.nodes := rfl
theorem tk_bookMoveT_edges (s : St) (l o n) : (s.bookMoveT l o n).edges = s.edges := rfl
theorem tk_bookMoveT_linOn (s : St) (l o n) : (s.bookMoveT l o n).linOn = s.linOn := rfl
theorem tk_bookMoveT_maxLin (s : St) (l o n) : (s.bookMoveT l o n).maxLin = s.maxLin := rfl
theorem tk_bookMoveT_maxTid (s : St) (l o n) :
    (s.bookMoveT l o n).maxTid = if n > s.maxTid then n else s.maxTid := rfl
theorem tk_bookMoveL_nodes (s : St) (l o n) : (s.bookMoveL l o n).nodes = s.nodes := by
  cases o <;> rfl
theorem tk_bookMoveL_edges (s : St) (l o n) : (s.bookMoveL l o n).edges = s.edges := by
  cases o <;> rfl
theorem tk_bookMoveL_linOn (s : St) (l o n) : (s.bookMoveL l o n).linOn = s.linOn := by
  cases o <;> rfl
theorem tk_bookMoveL_maxTid (s : St) (l o n) : (s.bookMoveL l o n).maxTid = s.maxTid := by
  cases o <;> rfl
theorem tk_bookMoveL_maxLin (s : St) (l o n) :
    (s.bookMoveL l o n).maxLin = if n > s.maxLin then n else s.maxLin := by
  cases o <;> rfl

theorem tk_walkFin_basic (s : St) (oldT newT : Nat) (oldL newL : Option Nat) (c : tk_Core) :
    (tk_walkFin s oldT newT oldL newL c).nodes = c.s.nodes ∧
    (tk_walkFin s oldT newT oldL newL c).edges = c.s.edges ∧
    (tk_walkFin s oldT newT oldL newL c).linOn = c.s.linOn ∧
    (tk_walkFin s oldT newT oldL newL c).maxTid = (if newT > c.s.maxTid then newT else c.s.maxTid) := by
  unfold tk_walkFin
  simp only
  split
  · simp only [tk_bookMoveL_nodes, tk_bookMoveL_edges, tk_bookMoveL_linOn, tk_bookMoveL_maxTid,
      tk_bookMoveT_nodes, tk_bookMoveT_edges, tk_bookMoveT_linOn, tk_bookMoveT_maxTid]
    exact ⟨trivial, trivial, trivial, trivial⟩
  · simp only [tk_bookMoveT_nodes, tk_bookMoveT_edges, tk_bookMoveT_linOn, tk_bookMoveT_maxTid]
    exact ⟨trivial, trivial, trivial, trivial⟩

theorem tk_walkCore_sameG (s : St) (start : Node) (oldT newT : Nat) (newL : Option Nat) :
    tk_SameG s (s.tk_walkCore start oldT newT newL).s :=
  tk_foldl_visit_sameG oldT newT newL _ _ ⟨s, true, [], []⟩

theorem tk_walkCore_rest (s : St) (start : Node) (oldT newT : Nat) (newL : Option Nat) :
    tk_SameRest s (s.tk_walkCore start oldT newT newL).s :=
  tk_foldl_visit_rest oldT newT newL _ _ ⟨s, true, [], []⟩

theorem tk_walk_nodes_edges (s : St) (start : Node) (oldT newT : Nat) (oldL newL : Option Nat) :
    (s.walk start oldT newT oldL newL).nodes = (s.tk_walkCore start oldT newT newL).s.nodes ∧
    (s.walk start oldT newT oldL newL).edges = s.edges := by
  rw [tk_walk_eq]
  have h := tk_walkFin_basic s oldT newT oldL newL (s.tk_walkCore start oldT newT newL)
  exact ⟨h.1, h.2.1.trans (tk_walkCore_sameG s start oldT newT newL).edges⟩

theorem tk_walk_sameG (s : St) (start : Node) (oldT newT : Nat) (oldL newL : Option Nat) :
    tk_SameG s (s.walk start oldT newT oldL newL) := by
  have h := tk_walk_nodes_edges s start oldT newT oldL newL
  have h1 : tk_SameG (s.tk_walkCore start oldT newT newL).s (s.walk start oldT newT oldL newL) :=
    ⟨by rw [h.2]; exact (tk_walkCore_sameG s start oldT newT newL).edges.symm,
     by unfold ids; rw [h.1], tk_timeOf_congr h.1⟩
  exact (tk_walkCore_sameG s start oldT newT newL).trans h1

theorem tk_walk_linOn (s : St) (start : Node) (oldT newT : Nat) (oldL newL : Option Nat) :
    (s.walk start oldT newT oldL newL).linOn = s.linOn := by
  rw [tk_walk_eq]
  exact (tk_walkFin_basic s oldT newT oldL newL _).2.2.1.trans (tk_walkCore_rest s start oldT newT newL).linOn

theorem tk_walk_maxTid (s : St) (start : Node) (oldT newT : Nat) (oldL newL : Option Nat) :
    (s.walk start oldT newT oldL newL).maxTid = if newT > s.maxTid then newT else s.maxTid := by
  rw [tk_walk_eq, (tk_walkFin_basic s oldT newT oldL newL _).2.2.2, (tk_walkCore_rest s start oldT newT newL).maxTid]

theorem tk_walkFin_maxLin_some (s : St) (hon : s.linOn = true) (oldT newT : Nat) (oldL : Option Nat)
    (l : Nat) (c : tk_Core) :
    (tk_walkFin s oldT newT oldL (some l) c).maxLin = if l > c.s.maxLin then l else c.s.maxLin := by
  unfold tk_walkFin
  simp only [Option.isSome_some, hon, Bool.and_self]
  rw [tk_bookMoveL_maxLin, tk_bookMoveT_maxLin]

theorem tk_walkFin_maxLin_none (s : St) (oldT newT : Nat) (oldL : Option Nat) (c : tk_Core) :
    (tk_walkFin s oldT newT oldL none c).maxLin = c.s.maxLin := by
  unfold tk_walkFin
  simp only [Option.isSome_none, Bool.false_and]
  rfl

/-- **lineage effect of the walk** (lineage feature on, a new lineage given): the lineage is
    written on exactly the descendants-or-self of `start` -/
theorem tk_walk_lin {s : St} (hF : s.Forest) {start : Node} (hs : start ∈ s.ids)
    (hon : s.linOn = true) (oldT newT : Nat) (oldL : Option Nat) (l : Nat) :
    (∀ n, s.Anc start n → (s.walk start oldT newT oldL (some l)).linOf n = some l) ∧
    (∀ n, ¬ s.Anc start n → (s.walk start oldT newT oldL (some l)).linOf n = s.linOf n) ∧
    (s.walk start oldT newT oldL (some l)).maxLin = (if l > s.maxLin then l else s.maxLin) := by
  have hn := (tk_walk_nodes_edges s start oldT newT oldL (some l)).1
  have hb := tk_bfs_walk hF hs
  have hl := tk_foldl_visit_lin oldT newT (some l) (tk_bfs s.succs (s.nodes.length + 1) [start])
    ⟨s, true, [], []⟩
  have hcore : s.tk_walkCore start oldT newT (some l) =
      (tk_bfs s.succs (s.nodes.length + 1) [start]).foldl (tk_visit oldT newT (some l) true)
        ⟨s, true, [], []⟩ := by
    unfold tk_walkCore; simp [hon]
  refine ⟨?_, ?_, ?_⟩
  · intro n hn'
    rw [tk_linOf_congr hn, hcore]
    exact hl.2.1 n ((hb.2 n).2 hn') (hn'.mem hF hs)
  · intro n hn'
    rw [tk_linOf_congr hn, hcore]
    exact hl.2.2 n (fun h => hn' ((hb.2 n).1 h))
  · rw [tk_walk_eq, tk_walkFin_maxLin_some s hon, (tk_walkCore_rest s start oldT newT (some l)).maxLin]

/-- without a new lineage the walk leaves lineages and the lineage maximum alone -/
theorem tk_walk_nolin (s : St) (start : Node) (oldT newT : Nat) (oldL : Option Nat) :
    (∀ n, (s.walk start oldT newT oldL none).linOf n = s.linOf n) ∧
    (s.walk start oldT newT oldL none).maxLin = s.maxLin := by
  have hn := (tk_walk_nodes_edges s start oldT newT oldL none).1
  have hl := tk_foldl_visit_nolin oldT newT none (tk_bfs s.succs (s.nodes.length + 1) [start])
    ⟨s, true, [], []⟩
  have hcore : s.tk_walkCore start oldT newT none =
      (tk_bfs s.succs (s.nodes.length + 1) [start]).foldl (tk_visit oldT newT none false)
        ⟨s, true, [], []⟩ := by
    unfold tk_walkCore; simp
  refine ⟨fun n => ?_, ?_⟩
  · rw [tk_linOf_congr hn, hcore]; exact hl.2 n
  · rw [tk_walk_eq, tk_walkFin_maxLin_none, (tk_walkCore_rest s start oldT newT none).maxLin]


/-! ## §5 the user actions -/

theorem Anc.congr {s s' : St} (h : s'.edgeList = s.edgeList) {a b : Node} :
    s'.Anc a b ↔ s.Anc a b := by
  constructor
  · intro hab
    induction hab with
    | refl => exact Anc.refl _
    | step p c _ he ih => exact Anc.step _ p c ih (h ▸ he)
  · intro hab
    induction hab with
    | refl => exact Anc.refl _
    | step p c _ he ih => exact Anc.step _ p c ih (h ▸ he)

theorem Anc.mono {s s' : St} (h : ∀ x, x ∈ s'.edgeList → x ∈ s.edgeList) {a b : Node}
    (hab : s'.Anc a b) : s.Anc a b := by
  induction hab with
  | refl => exact Anc.refl _
  | step p c _ he ih => exact Anc.step _ p c ih (h _ he)

theorem tk_SegDown.congr {s s' : St} (h : tk_SameG s s') {a b : Node} :
    s'.tk_SegDown a b ↔ s.tk_SegDown a b := by
  constructor
  · intro hab
    induction hab with
    | refl => exact tk_SegDown.refl _
    | step p c _ he ho ih => exact tk_SegDown.step _ p c ih (h.edgeList ▸ he) (h.outdeg p ▸ ho)
  · intro hab
    induction hab with
    | refl => exact tk_SegDown.refl _
    | step p c _ he ho ih =>
      exact tk_SegDown.step _ p c ih (h.edgeList.symm ▸ he) ((h.outdeg p).symm ▸ ho)

/-- the graph with one edge removed (what `pDelEdge` produces) -/
def tk_delE (s : St) (e : Edge) : St := { s with edges := s.edges.filter (·.e != e) }

theorem tk_delE_nodes (s : St) (e) : (s.tk_delE e).nodes = s.nodes := rfl
theorem tk_delE_ids (s : St) (e) : (s.tk_delE e).ids = s.ids := rfl
theorem tk_delE_linOf (s : St) (e n) : (s.tk_delE e).linOf n = s.linOf n := rfl
theorem tk_delE_tidOf (s : St) (e n) : (s.tk_delE e).tidOf n = s.tidOf n := rfl
theorem tk_delE_timeOf (s : St) (e n) : (s.tk_delE e).timeOf n = s.timeOf n := rfl

theorem tk_delE_edgeList (s : St) (e) : (s.tk_delE e).edgeList = s.edgeList.filter (· != e) := by
  unfold tk_delE edgeList
  simp only [List.filter_map]
  rfl

theorem tk_mem_delE {s : St} {e x : Edge} : x ∈ (s.tk_delE e).edgeList ↔ (x ∈ s.edgeList ∧ x ≠ e) := by
  rw [tk_delE_edgeList, List.mem_filter]; simp

theorem tk_delE_succs_sublist (s : St) (e u) : List.Sublist ((s.tk_delE e).succs u) (s.succs u) := by
  unfold succs tk_delE
  simp only
  apply List.Sublist.map
  apply List.Sublist.filter
  exact List.filter_sublist

theorem tk_delE_preds_sublist (s : St) (e u) : List.Sublist ((s.tk_delE e).preds u) (s.preds u) := by
  unfold preds tk_delE
  simp only
  apply List.Sublist.map
  apply List.Sublist.filter
  exact List.filter_sublist

theorem Forest.tk_delE {s : St} (hF : s.Forest) (e : Edge) : (s.tk_delE e).Forest where
  nodup_nodes := hF.nodup_nodes
  nodup_edges := by rw [tk_delE_edgeList]; exact hF.nodup_edges.filter _
  src_mem := by intro x hx; exact hF.src_mem x (tk_mem_delE.1 hx).1
  dst_mem := by intro x hx; exact hF.dst_mem x (tk_mem_delE.1 hx).1
  forward := by intro x hx; exact hF.forward x (tk_mem_delE.1 hx).1
  indeg_le := by
    intro v; exact Nat.le_trans (tk_delE_preds_sublist s e v).length_le (hF.indeg_le v)
  outdeg_le := by
    intro v; exact Nat.le_trans (tk_delE_succs_sublist s e v).length_le (hF.outdeg_le v)

theorem tk_thenPrim_ok {acc : UOut} {f : St → Except Err (St × PrimRec)} {recs}
    (h : (thenPrim acc f).2 = .ok recs) :
    ∃ recs0 s' r, acc.2 = .ok recs0 ∧ f acc.1 = .ok (s', r) ∧ (thenPrim acc f).1 = s' := by
  unfold thenPrim at h ⊢
  cases h2 : acc.2 with
  | error e => simp [h2] at h
  | ok recs0 =>
    cases hf : f acc.1 with
    | error e => simp [h2, hf] at h
    | ok p =>
      obtain ⟨s', r⟩ := p
      exact ⟨recs0, s', r, rfl, rfl, by simp⟩

theorem tk_pUpdTid_ok {s : St} {start nT nL s' r} (h : s.pUpdTid start nT nL = .ok (s', r)) :
    ∃ rec, s.findNode start = some rec ∧ s' = s.walk start rec.tid nT rec.lin nL := by
  unfold pUpdTid at h
  cases hf : s.findNode start with
  | none => simp [hf] at h
  | some rec =>
    simp [hf] at h
    exact ⟨rec, rfl, h.1.symm⟩

theorem tk_hasEdge_iff {s : St} {e : Edge} : s.hasEdge e = true ↔ e ∈ s.edgeList := by
  unfold hasEdge edgeList
  rw [List.any_eq_true, List.mem_map]
  constructor
  · rintro ⟨r, hr, h⟩; exact ⟨r, hr, by simpa using h⟩
  · rintro ⟨r, hr, h⟩; exact ⟨r, hr, by simpa using h⟩

theorem tk_hasEdge_findEdge {s : St} {e : Edge} (h : s.hasEdge e = true) :
    ∃ r, s.findEdge e = some r := by
  unfold hasEdge at h
  unfold findEdge
  rcases List.any_eq_true.1 h with ⟨r, hr, hre⟩
  cases hf : s.edges.find? (·.e == e) with
  | some r' => exact ⟨r', rfl⟩
  | none => have := List.find?_eq_none.1 hf r hr; simp [hre] at this

theorem tk_pDelEdge_ok {s : St} {e : Edge} (h : s.hasEdge e = true) :
    ∃ r, s.pDelEdge e = .ok (s.tk_delE e, r) := by
  rcases tk_hasEdge_findEdge h with ⟨r, hr⟩
  unfold pDelEdge
  simp [hr, tk_delE]

theorem tk_uDeleteEdge_eq {s : St} {e : Edge} (hE : s.hasEdge e = true) :
    ∃ r1, s.uDeleteEdge e =
      (let a : UOut := (s.tk_delE e, .ok [r1])
       if (s.tk_delE e).outdeg e.1 == 0 then
         thenPrim a (fun st => st.pUpdTid e.2 st.nextTid (some st.nextLin))
       else if (s.tk_delE e).outdeg e.1 == 1 then
         match ((s.tk_delE e).succs e.1).head? with
         | none => ((s.tk_delE e), .error .other)
         | some sib =>
           let a1 := thenPrim a (fun st => match st.tidOf e.1 with
             | some t => st.pUpdTid sib t none
             | none => .error .key)
           thenPrim a1 (fun st => match st.tidOf e.2 with
             | some t => st.pUpdTid e.2 t (some st.nextLin)
             | none => .error .key)
       else ((s.tk_delE e), .error .invalid)) := by
  rcases tk_pDelEdge_ok hE with ⟨r, hr⟩
  refine ⟨r, ?_⟩
  unfold uDeleteEdge
  simp only [hE, Bool.not_true, Bool.false_eq_true, if_false]
  have : thenPrim (s, Except.ok []) (fun st => st.pDelEdge e) = (s.tk_delE e, .ok [r]) := by
    simp [thenPrim, hr]
  rw [this]
  rfl

theorem tk_uDeleteEdge_hasEdge {s : St} {e : Edge} {recs} (hok : (s.uDeleteEdge e).2 = .ok recs) :
    s.hasEdge e = true := by
  cases h : s.hasEdge e with
  | true => rfl
  | false => unfold uDeleteEdge at hok; simp [h] at hok

/-- the shape of an accepted `uDeleteEdge`: edge removed, then either one walk from the target
    (fresh track id, fresh lineage) or a walk from the sibling (no lineage) and a walk from the
    target (its own track id, fresh lineage) -/
theorem tk_uDeleteEdge_shape {s : St} {e : Edge} {recs} (hok : (s.uDeleteEdge e).2 = .ok recs) :
    (∃ r, (s.tk_delE e).outdeg e.1 = 0 ∧ (s.tk_delE e).findNode e.2 = some r ∧
        (s.uDeleteEdge e).1 =
          (s.tk_delE e).walk e.2 r.tid (s.tk_delE e).nextTid r.lin (some (s.tk_delE e).nextLin)) ∨
    (∃ sib t rs t2 r2, (s.tk_delE e).outdeg e.1 = 1 ∧ ((s.tk_delE e).succs e.1).head? = some sib ∧
        (s.tk_delE e).tidOf e.1 = some t ∧ (s.tk_delE e).findNode sib = some rs ∧
        ((s.tk_delE e).walk sib rs.tid t rs.lin none).tidOf e.2 = some t2 ∧
        ((s.tk_delE e).walk sib rs.tid t rs.lin none).findNode e.2 = some r2 ∧
        (s.uDeleteEdge e).1 =
          ((s.tk_delE e).walk sib rs.tid t rs.lin none).walk e.2 r2.tid t2 r2.lin
            (some ((s.tk_delE e).walk sib rs.tid t rs.lin none).nextLin)) := by
  have hE := tk_uDeleteEdge_hasEdge hok
  rcases tk_uDeleteEdge_eq hE with ⟨r1, heq⟩
  rw [heq] at hok ⊢
  simp only at hok ⊢
  by_cases h0 : (s.tk_delE e).outdeg e.1 = 0
  · simp only [h0, beq_self_eq_true, if_true] at hok ⊢
    rcases tk_thenPrim_ok hok with ⟨_, s', r, _, hf, hs'⟩
    rcases tk_pUpdTid_ok hf with ⟨rec, hrec, hw⟩
    exact Or.inl ⟨rec, trivial, hrec, by rw [hs', hw]⟩
  · by_cases h1 : (s.tk_delE e).outdeg e.1 = 1
    · have hb0 : ((s.tk_delE e).outdeg e.1 == 0) = false := by simp [h0]
      simp only [hb0, Bool.false_eq_true, if_false] at hok ⊢
      simp only [h1, beq_self_eq_true, if_true] at hok ⊢
      cases hh : ((s.tk_delE e).succs e.1).head? with
      | none => simp [hh] at hok
      | some sib =>
        simp only [hh] at hok ⊢
        rcases tk_thenPrim_ok hok with ⟨_, s', r, ha1, hf, hs'⟩
        rcases tk_thenPrim_ok ha1 with ⟨_, s2, r', _, hf1, hs2⟩
        simp only at hf1
        rw [hs2] at hf
        cases ht : (s.tk_delE e).tidOf e.1 with
        | none => simp [ht] at hf1
        | some t =>
          simp only [ht] at hf1
          rcases tk_pUpdTid_ok hf1 with ⟨rs, hrs, hw2⟩
          cases ht2 : s2.tidOf e.2 with
          | none => simp [ht2] at hf
          | some t2 =>
            simp only [ht2] at hf
            rcases tk_pUpdTid_ok hf with ⟨r2, hr2, hw⟩
            subst hw2
            exact Or.inr ⟨sib, t, rs, t2, r2, trivial, rfl, rfl, hrs, ht2, hr2, by rw [hs', hw]⟩
    · have hb0 : ((s.tk_delE e).outdeg e.1 == 0) = false := by simp [h0]
      have hb1 : ((s.tk_delE e).outdeg e.1 == 1) = false := by simp [h1]
      simp [hb0, hb1] at hok


/-! # part 2: user actions (lineage and track ids), checkers, example state -/

/-! ### lineage: invariant bundle and the effect of `uDeleteEdge` -/

/-- what the C05 step theorems assume and re-establish -/
structure tk_LinInv (s : St) : Prop where
  forest : s.Forest
  linOK : s.LinOK
  on : s.linOn = true
  max : ∀ n l, s.linOf n = some l → l ≤ s.maxLin

/-- abstract effect of an accepted `uDeleteEdge s e` on graph and lineages -/
structure tk_DelEff (s : St) (e : Edge) (s' : St) : Prop where
  mem : e ∈ s.edgeList
  sameG : tk_SameG (s.tk_delE e) s'
  on : s'.linOn = s.linOn
  lin_in : ∀ n, s.Anc e.2 n → s'.linOf n = some (s.maxLin + 1)
  lin_out : ∀ n, ¬ s.Anc e.2 n → s'.linOf n = s.linOf n
  maxLin : s'.maxLin = s.maxLin + 1

theorem tk_anc_delE {s : St} (hF : s.Forest) {e : Edge} (he : e ∈ s.edgeList) {n : Node} :
    (s.tk_delE e).Anc e.2 n ↔ s.Anc e.2 n := by
  constructor
  · exact Anc.mono (fun x hx => (tk_mem_delE.1 hx).1)
  · intro h
    induction h with
    | refl => exact Anc.refl _
    | step p c hp hpc ih =>
      refine Anc.step _ p c ih (tk_mem_delE.2 ⟨hpc, ?_⟩)
      intro heq
      subst heq
      have h1 := hp.tm_le hF
      have h2 := hF.tm_lt hpc
      simp only at h1 h2
      omega

theorem tk_delE_maxLin (s : St) (e) : (s.tk_delE e).maxLin = s.maxLin := rfl
theorem tk_delE_linOn (s : St) (e) : (s.tk_delE e).linOn = s.linOn := rfl
theorem tk_delE_maxTid (s : St) (e) : (s.tk_delE e).maxTid = s.maxTid := rfl

theorem tk_findNode_mem {s : St} {n : Node} {r} (h : s.findNode n = some r) : n ∈ s.ids :=
  tk_mem_ids_iff.2 ⟨r, h⟩

theorem tk_uDeleteEdge_eff {s : St} (hI : s.tk_LinInv) {e : Edge} {recs}
    (hok : (s.uDeleteEdge e).2 = .ok recs) : tk_DelEff s e (s.uDeleteEdge e).1 := by
  have hmem : e ∈ s.edgeList := tk_hasEdge_iff.1 (tk_uDeleteEdge_hasEdge hok)
  have hF1 : (s.tk_delE e).Forest := hI.forest.tk_delE e
  have hon1 : (s.tk_delE e).linOn = true := hI.on
  rcases tk_uDeleteEdge_shape hok with ⟨r, _, hr, hs'⟩ | ⟨sib, t, rs, t2, r2, _, _, _, hrs, _, hr2, hs'⟩
  · rw [hs']
    have hw := tk_walk_lin hF1 (tk_findNode_mem hr) hon1 r.tid (s.tk_delE e).nextTid r.lin (s.tk_delE e).nextLin
    refine ⟨hmem, tk_walk_sameG _ _ _ _ _ _, by rw [tk_walk_linOn]; rfl, ?_, ?_, ?_⟩
    · intro n hn; exact hw.1 n ((tk_anc_delE hI.forest hmem).2 hn)
    · intro n hn; exact hw.2.1 n (fun h => hn ((tk_anc_delE hI.forest hmem).1 h))
    · rw [hw.2.2]; unfold nextLin; rw [tk_delE_maxLin]; simp
  · rw [hs']
    have hG2 := tk_walk_sameG (s.tk_delE e) sib rs.tid t rs.lin none
    have hn2 := tk_walk_nolin (s.tk_delE e) sib rs.tid t rs.lin
    have hF2 := hG2.forest hF1
    have hon2 : ((s.tk_delE e).walk sib rs.tid t rs.lin none).linOn = true := by
      rw [tk_walk_linOn]; exact hon1
    have hw := tk_walk_lin hF2 (tk_findNode_mem hr2) hon2 r2.tid t2 r2.lin
      ((s.tk_delE e).walk sib rs.tid t rs.lin none).nextLin
    have hanc : ∀ n, ((s.tk_delE e).walk sib rs.tid t rs.lin none).Anc e.2 n ↔ s.Anc e.2 n := by
      intro n; rw [Anc.congr hG2.edgeList]; exact tk_anc_delE hI.forest hmem
    refine ⟨hmem, hG2.trans (tk_walk_sameG _ _ _ _ _ _), by rw [tk_walk_linOn, tk_walk_linOn]; rfl, ?_, ?_, ?_⟩
    · intro n hn
      rw [hw.1 n ((hanc n).2 hn)]; unfold nextLin; rw [hn2.2, tk_delE_maxLin]
    · intro n hn
      rw [hw.2.1 n (fun h => hn ((hanc n).1 h)), hn2.1 n, tk_delE_linOf]
    · rw [hw.2.2]; unfold nextLin; rw [hn2.2, tk_delE_maxLin]; simp

theorem tk_DelEff.edge_iff {s s' : St} {e : Edge} (h : tk_DelEff s e s') (x : Edge) :
    x ∈ s'.edgeList ↔ (x ∈ s.edgeList ∧ x ≠ e) := by
  rw [h.sameG.edgeList]; exact tk_mem_delE

theorem tk_DelEff.ids {s s' : St} {e : Edge} (h : tk_DelEff s e s') : s'.ids = s.ids := h.sameG.ids

theorem tk_DelEff.linInv {s s' : St} (hI : s.tk_LinInv) {e : Edge} (h : tk_DelEff s e s') : s'.tk_LinInv := by
  obtain ⟨u, v⟩ := e
  have hF := hI.forest
  have hroot_v : ∀ p, (p, v) ∉ s'.edgeList := by
    intro p hp
    rcases (h.edge_iff _).1 hp with ⟨hp1, hp2⟩
    have := hF.par_unique hp1 h.mem
    subst this; exact hp2 rfl
  have hfresh : ∀ n, s.linOf n ≠ some (s.maxLin + 1) := by
    intro n hn; have := hI.max n _ hn; omega
  -- a root of the new graph is `v` or an old root outside the subtree of `v`
  have hR : ∀ a, s'.IsRoot a →
      (a = v ∧ s'.linOf a = some (s.maxLin + 1)) ∨
      (a ≠ v ∧ s.IsRoot a ∧ s'.linOf a = s.linOf a) := by
    intro a ha
    by_cases hav : a = v
    · subst hav; exact Or.inl ⟨rfl, h.lin_in a (Anc.refl a)⟩
    · have hra : s.IsRoot a := by
        refine ⟨h.ids ▸ ha.1, fun p hp => ha.2 p ((h.edge_iff _).2 ⟨hp, ?_⟩)⟩
        intro heq; cases heq; exact hav rfl
      refine Or.inr ⟨hav, hra, h.lin_out a ?_⟩
      intro hanc
      rcases hanc.tail with h1 | ⟨p, _, hp⟩
      · exact hav h1.symm
      · exact hra.2 p hp
  refine ⟨h.sameG.forest (hF.tk_delE _), ⟨?_, ?_, ?_⟩, h.on.trans hI.on, ?_⟩
  · intro n hn
    by_cases hanc : s.Anc v n
    · rw [h.lin_in n hanc]; rfl
    · rw [h.lin_out n hanc]; exact hI.linOK.has n (h.ids ▸ hn)
  · rintro ⟨p, c⟩ hx
    rcases (h.edge_iff _).1 hx with ⟨hx1, hx2⟩
    simp only
    by_cases hp : s.Anc v p
    · rw [h.lin_in c (Anc.step _ p c hp hx1), h.lin_in p hp]
    · have hc : ¬ s.Anc v c := by
        intro hanc
        rcases hanc.tail with h1 | ⟨p', hp', hp'c⟩
        · subst h1
          have := hF.par_unique hx1 h.mem
          subst this; exact hx2 rfl
        · have := hF.par_unique hx1 hp'c
          subst this; exact hp hp'
      rw [h.lin_out c hc, h.lin_out p hp]
      exact hI.linOK.along _ hx1
  · intro a b ha hb hab
    rcases hR a ha with ⟨ha1, ha2⟩ | ⟨ha1, ha2, ha3⟩ <;>
      rcases hR b hb with ⟨hb1, hb2⟩ | ⟨hb1, hb2, hb3⟩
    · exact absurd (ha1.trans hb1.symm) hab
    · rw [ha2, hb3]; exact fun h => hfresh b h.symm
    · rw [ha3, hb2]; exact hfresh a
    · rw [ha3, hb3]; exact hI.linOK.roots a b ha2 hb2 hab
  · intro n l hl
    rw [h.maxLin]
    by_cases hanc : s.Anc v n
    · rw [h.lin_in n hanc] at hl; cases hl; exact Nat.le_refl _
    · rw [h.lin_out n hanc] at hl; have := hI.max n l hl; omega

/-! ### `uAddEdge` -/

/-- the part of `uAddEdge` after the optional forced removal -/
def tk_addTail (a0 : UOut) (e : Edge) : UOut :=
  match a0.2 with
  | .error err => (a0.1, .error err)
  | .ok recs0 =>
    let s0 := a0.1
    let out := s0.outdeg e.1
    let a1 : UOut :=
      if out == 0 then
        thenPrim a0 (fun st => match st.tidOf e.1 with
          | some t => st.pUpdTid e.2 t (st.linOf e.1)
          | none => .error .key)
      else if out == 1 then
        match (s0.succs e.1).head? with
        | none => (s0, .error .other)
        | some succ =>
          let b := thenPrim a0 (fun st => st.pUpdTid succ st.nextTid none)
          thenPrim b (fun st => match st.tidOf e.2 with
            | some t => st.pUpdTid e.2 t (st.linOf e.1)
            | none => .error .key)
      else (s0.rollback recs0, .error .invalid)
    thenPrim a1 (fun st => st.pAddEdge e [])

def tk_addHead (s : St) (e : Edge) (force : Bool) : UOut :=
  if s.indeg e.2 > 0 then
    if !force then (s, .error .forceable)
    else match (s.preds e.2).head? with
      | some p => thenUser (s, .ok []) (fun st => st.uDeleteEdge (p, e.2))
      | none => (s, .error .other)
  else (s, .ok [])

theorem tk_uAddEdge_eq (s : St) (e : Edge) (force : Bool) :
    s.uAddEdge e force =
      if !(s.hasNode e.1) then (s, .error .invalid) else
      if !(s.hasNode e.2) then (s, .error .invalid) else
      if (s.timeOf e.1).getD 0 ≥ (s.timeOf e.2).getD 0 then (s, .error .invalid) else
      tk_addTail (tk_addHead s e force) e := by
  unfold uAddEdge tk_addTail tk_addHead
  rfl

theorem tk_preds_nil_iff {s : St} {v : Node} : s.indeg v = 0 ↔ ∀ p, (p, v) ∉ s.edgeList := by
  unfold indeg
  constructor
  · intro h p hp
    have := List.length_pos_of_mem (tk_mem_preds.2 hp)
    omega
  · intro h
    cases hp : s.preds v with
    | nil => rfl
    | cons p l =>
      exact absurd (tk_mem_preds.1 (hp ▸ List.mem_cons_self)) (h p)

theorem tk_addHead_shape {s : St} {e : Edge} {force : Bool} {recs0}
    (hok : (tk_addHead s e force).2 = .ok recs0) :
    ((tk_addHead s e force).1 = s ∧ ∀ p, (p, e.2) ∉ s.edgeList) ∨
    (∃ p recs', (p, e.2) ∈ s.edgeList ∧ (s.uDeleteEdge (p, e.2)).2 = .ok recs' ∧
      (tk_addHead s e force).1 = (s.uDeleteEdge (p, e.2)).1) := by
  unfold tk_addHead at hok ⊢
  by_cases hin : s.indeg e.2 > 0
  · simp only [hin, if_true] at hok ⊢
    cases force with
    | false => simp at hok
    | true =>
      simp only [Bool.not_true, Bool.false_eq_true, if_false] at hok ⊢
      cases hh : (s.preds e.2).head? with
      | none => simp [hh] at hok
      | some p =>
        simp only [hh] at hok ⊢
        have hp : (p, e.2) ∈ s.edgeList := tk_mem_preds.1 (List.mem_of_head? hh)
        unfold thenUser at hok ⊢
        simp only at hok ⊢
        cases hd : (s.uDeleteEdge (p, e.2)).2 with
        | error err => simp [hd] at hok
        | ok recs' =>
          refine Or.inr ⟨p, recs', hp, hd, ?_⟩
          simp only
  · simp only [hin, if_false]
    exact Or.inl ⟨trivial, tk_preds_nil_iff.1 (by omega)⟩

theorem tk_addTail_shape {a0 : UOut} {e : Edge} {recs} (hok : (tk_addTail a0 e).2 = .ok recs) :
    (∃ t r rr, a0.1.outdeg e.1 = 0 ∧ a0.1.tidOf e.1 = some t ∧ a0.1.findNode e.2 = some r ∧
        (a0.1.walk e.2 r.tid t r.lin (a0.1.linOf e.1)).pAddEdge e [] = .ok ((tk_addTail a0 e).1, rr)) ∨
    (∃ succ rs t r rr, a0.1.outdeg e.1 = 1 ∧ (a0.1.succs e.1).head? = some succ ∧
        a0.1.findNode succ = some rs ∧
        (a0.1.walk succ rs.tid a0.1.nextTid rs.lin none).tidOf e.2 = some t ∧
        (a0.1.walk succ rs.tid a0.1.nextTid rs.lin none).findNode e.2 = some r ∧
        ((a0.1.walk succ rs.tid a0.1.nextTid rs.lin none).walk e.2 r.tid t r.lin
          ((a0.1.walk succ rs.tid a0.1.nextTid rs.lin none).linOf e.1)).pAddEdge e []
            = .ok ((tk_addTail a0 e).1, rr)) := by
  unfold tk_addTail at hok ⊢
  cases h2 : a0.2 with
  | error err => simp [h2] at hok
  | ok recs0 =>
    simp only [h2] at hok ⊢
    by_cases h0 : a0.1.outdeg e.1 = 0
    · simp only [h0, beq_self_eq_true, if_true] at hok ⊢
      rcases tk_thenPrim_ok hok with ⟨_, s', rr, ha1, hf, hs'⟩
      rcases tk_thenPrim_ok ha1 with ⟨_, s1, r', _, hf1, hs1⟩
      rw [hs1] at hf
      cases ht : a0.1.tidOf e.1 with
      | none => simp [ht] at hf1
      | some t =>
        simp only [ht] at hf1
        rcases tk_pUpdTid_ok hf1 with ⟨r, hr, hw⟩
        subst hw
        exact Or.inl ⟨t, r, rr, trivial, rfl, hr, by rw [hs']; exact hf⟩
    · have hb0 : (a0.1.outdeg e.1 == 0) = false := by simp [h0]
      simp only [hb0, Bool.false_eq_true, if_false] at hok ⊢
      by_cases h1 : a0.1.outdeg e.1 = 1
      · simp only [h1, beq_self_eq_true, if_true] at hok ⊢
        cases hh : (a0.1.succs e.1).head? with
        | none =>
          simp only [hh] at hok
          rcases tk_thenPrim_ok hok with ⟨_, _, _, ha1, _, _⟩
          simp at ha1
        | some succ =>
          simp only [hh] at hok ⊢
          rcases tk_thenPrim_ok hok with ⟨_, s', rr, ha1, hf, hs'⟩
          rcases tk_thenPrim_ok ha1 with ⟨_, s1, r', hb, hf1, hs1⟩
          rcases tk_thenPrim_ok hb with ⟨_, sb, r'', _, hfb, hsb⟩
          rw [hs1] at hf
          rw [hsb] at hf1
          rcases tk_pUpdTid_ok hfb with ⟨rs, hrs, hwb⟩
          subst hwb
          cases ht : (a0.1.walk succ rs.tid a0.1.nextTid rs.lin none).tidOf e.2 with
          | none => simp [ht] at hf1
          | some t =>
            simp only [ht] at hf1
            rcases tk_pUpdTid_ok hf1 with ⟨r, hr, hw⟩
            subst hw
            exact Or.inr ⟨succ, rs, t, r, rr, trivial, rfl, hrs, ht, hr, by rw [hs']; exact hf⟩
      · have hb1 : (a0.1.outdeg e.1 == 1) = false := by simp [h1]
        simp only [hb1, Bool.false_eq_true, if_false] at hok
        rcases tk_thenPrim_ok hok with ⟨_, _, _, ha1, _, _⟩
        simp at ha1


theorem tk_succs_eq (s : St) (u : Node) :
    s.succs u = (s.edgeList.filter (·.1 == u)).map (·.2) := by
  unfold succs edgeList
  rw [List.filter_map, List.map_map]; rfl

theorem tk_preds_eq (s : St) (v : Node) :
    s.preds v = (s.edgeList.filter (·.2 == v)).map (·.1) := by
  unfold preds edgeList
  rw [List.filter_map, List.map_map]; rfl

theorem tk_setEdgeAttr_edgeList (s : St) (e k v) : (s.setEdgeAttr e k v).edgeList = s.edgeList := by
  unfold setEdgeAttr edgeList
  simp only [List.map_map]
  apply List.map_congr_left
  intro r _
  simp only [Function.comp]
  split <;> rfl

theorem tk_iouUpdateEdge_spec (s : St) (e : Edge) :
    (s.iouUpdateEdge e).nodes = s.nodes ∧ (s.iouUpdateEdge e).edgeList = s.edgeList ∧
    (s.iouUpdateEdge e).linOn = s.linOn ∧ (s.iouUpdateEdge e).maxLin = s.maxLin ∧
    (s.iouUpdateEdge e).maxTid = s.maxTid := by
  unfold iouUpdateEdge
  split
  · split
    · exact ⟨rfl, tk_setEdgeAttr_edgeList _ _ _ _, rfl, rfl, rfl⟩
    · exact ⟨rfl, rfl, rfl, rfl, rfl⟩
  · exact ⟨rfl, rfl, rfl, rfl, rfl⟩

theorem tk_pAddEdge_spec {s : St} {e : Edge} {attrs s' r} (h : s.pAddEdge e attrs = .ok (s', r))
    (hne : e ∉ s.edgeList) :
    s'.nodes = s.nodes ∧ s'.edgeList = s.edgeList ++ [e] ∧ s'.linOn = s.linOn ∧
    s'.maxLin = s.maxLin ∧ s'.maxTid = s.maxTid := by
  unfold pAddEdge at h
  split at h
  · cases h
  · have hE : s.hasEdge e = false := by
      cases hh : s.hasEdge e with
      | false => rfl
      | true => exact absurd (tk_hasEdge_iff.1 hh) hne
    simp only [hE, Bool.false_eq_true, if_false] at h
    injection h with h
    injection h with h1 _
    subst h1
    have := tk_iouUpdateEdge_spec ({ s with edges := s.edges ++ [{ e := e, attrs := attrs }] } : St) e
    refine ⟨this.1, this.2.1.trans ?_, this.2.2.1, this.2.2.2.1, this.2.2.2.2⟩
    unfold edgeList; simp

/-- abstract effect of the relabel-and-link part of an accepted `uAddEdge` (from the state `s0`
    after the optional forced removal) -/
structure tk_AddEff (s0 : St) (e : Edge) (s' : St) : Prop where
  ids : s'.ids = s0.ids
  time : ∀ n, s'.timeOf n = s0.timeOf n
  edges : s'.edgeList = s0.edgeList ++ [e]
  on : s'.linOn = s0.linOn
  lin_in : ∀ n, s0.Anc e.2 n → s'.linOf n = s0.linOf e.1
  lin_out : ∀ n, ¬ s0.Anc e.2 n → s'.linOf n = s0.linOf n
  maxLin : s'.maxLin = s0.maxLin
  outdeg : s0.outdeg e.1 ≤ 1

theorem tk_addTail_eff {a0 : UOut} (hI : a0.1.tk_LinInv) {e : Edge} {recs}
    (hu : e.1 ∈ a0.1.ids) (hroot : ∀ p, (p, e.2) ∉ a0.1.edgeList)
    (hok : (tk_addTail a0 e).2 = .ok recs) : tk_AddEff a0.1 e (tk_addTail a0 e).1 := by
  have hF := hI.forest
  have hne : e ∉ a0.1.edgeList := fun h => hroot e.1 h
  rcases hI.linOK.has e.1 hu |> Option.isSome_iff_exists.1 with ⟨lu, hlu⟩
  have hlumax : ¬ lu > a0.1.maxLin := by have := hI.max _ _ hlu; omega
  rcases tk_addTail_shape hok with ⟨t, r, rr, ho, _, hr, hadd⟩ |
      ⟨succ, rs, t, r, rr, ho, _, hrs, _, hr, hadd⟩
  · rw [hlu] at hadd
    have hG := tk_walk_sameG a0.1 e.2 r.tid t r.lin (some lu)
    have hw := tk_walk_lin hF (tk_findNode_mem hr) hI.on r.tid t r.lin lu
    have hp := tk_pAddEdge_spec hadd (by rw [hG.edgeList]; exact hne)
    have hG' : tk_SameG (a0.1.walk e.2 r.tid t r.lin (some lu)) (tk_addTail a0 e).1 →
      True := fun _ => trivial
    refine ⟨by unfold ids; rw [hp.1]; exact hG.ids, ?_, by rw [hp.2.1, hG.edgeList],
      by rw [hp.2.2.1, tk_walk_linOn], ?_, ?_, ?_, by omega⟩
    · intro n; rw [tk_timeOf_congr hp.1]; exact hG.time n
    · intro n hn; rw [tk_linOf_congr hp.1, hlu]; exact hw.1 n hn
    · intro n hn; rw [tk_linOf_congr hp.1]; exact hw.2.1 n hn
    · rw [hp.2.2.2.1, hw.2.2, if_neg hlumax]
  · have hGb := tk_walk_sameG a0.1 succ rs.tid a0.1.nextTid rs.lin none
    have hnb := tk_walk_nolin a0.1 succ rs.tid a0.1.nextTid rs.lin
    have hFb := hGb.forest hF
    have honb : (a0.1.walk succ rs.tid a0.1.nextTid rs.lin none).linOn = true := by
      rw [tk_walk_linOn]; exact hI.on
    rw [hnb.1, hlu] at hadd
    have hG := tk_walk_sameG (a0.1.walk succ rs.tid a0.1.nextTid rs.lin none) e.2 r.tid t r.lin (some lu)
    have hw := tk_walk_lin hFb (tk_findNode_mem hr) honb r.tid t r.lin lu
    have hp := tk_pAddEdge_spec hadd (by rw [hG.edgeList, hGb.edgeList]; exact hne)
    have hanc : ∀ n, (a0.1.walk succ rs.tid a0.1.nextTid rs.lin none).Anc e.2 n ↔ a0.1.Anc e.2 n :=
      fun n => Anc.congr hGb.edgeList
    refine ⟨by unfold ids; rw [hp.1]; exact (hGb.trans hG).ids, ?_,
      by rw [hp.2.1, hG.edgeList, hGb.edgeList],
      by rw [hp.2.2.1, tk_walk_linOn, tk_walk_linOn], ?_, ?_, ?_, by omega⟩
    · intro n; rw [tk_timeOf_congr hp.1]; exact (hGb.trans hG).time n
    · intro n hn; rw [tk_linOf_congr hp.1, hlu]; exact hw.1 n ((hanc n).2 hn)
    · intro n hn; rw [tk_linOf_congr hp.1, hw.2.1 n (fun h => hn ((hanc n).1 h))]; exact hnb.1 n
    · rw [hp.2.2.2.1, hw.2.2, hnb.2, if_neg hlumax]


theorem tk_indeg_eq (s : St) (v : Node) : s.indeg v = (s.edgeList.filter (·.2 == v)).length := by
  unfold indeg; rw [tk_preds_eq, List.length_map]

theorem tk_outdeg_eq (s : St) (u : Node) : s.outdeg u = (s.edgeList.filter (·.1 == u)).length := by
  unfold outdeg; rw [tk_succs_eq, List.length_map]

theorem tk_AddEff.forest {s0 s' : St} {e : Edge} (hF : s0.Forest) (h : tk_AddEff s0 e s')
    (hu : e.1 ∈ s0.ids) (hv : e.2 ∈ s0.ids) (ht : s0.tk_tm e.1 < s0.tk_tm e.2)
    (hroot : ∀ p, (p, e.2) ∉ s0.edgeList) : s'.Forest where
  nodup_nodes := by rw [h.ids]; exact hF.nodup_nodes
  nodup_edges := by
    rw [h.edges, List.nodup_append]
    refine ⟨hF.nodup_edges, by simp, ?_⟩
    intro a ha b hb hab
    rw [List.mem_singleton] at hb
    subst hb; subst hab
    exact hroot _ ha
  src_mem := by
    intro x hx
    rw [h.edges, List.mem_append, List.mem_singleton] at hx
    rw [h.ids]
    rcases hx with hx | rfl
    · exact hF.src_mem x hx
    · exact hu
  dst_mem := by
    intro x hx
    rw [h.edges, List.mem_append, List.mem_singleton] at hx
    rw [h.ids]
    rcases hx with hx | rfl
    · exact hF.dst_mem x hx
    · exact hv
  forward := by
    intro x hx t1 t2
    rw [h.edges, List.mem_append, List.mem_singleton] at hx
    rw [h.time, h.time]
    rcases hx with hx | rfl
    · exact hF.forward x hx t1 t2
    · intro h1 h2
      rw [tk_timeOf_of_mem hu] at h1
      rw [tk_timeOf_of_mem hv] at h2
      cases h1; cases h2; exact ht
  indeg_le := by
    intro v
    rw [tk_indeg_eq, h.edges, List.filter_append, List.length_append, ← tk_indeg_eq]
    by_cases hve : e.2 = v
    · subst hve
      have := tk_preds_nil_iff.2 hroot
      rw [this]; simp
    · have : ([e].filter (·.2 == v)) = [] := by simp [hve]
      rw [this]; exact hF.indeg_le v
  outdeg_le := by
    intro u
    rw [tk_outdeg_eq, h.edges, List.filter_append, List.length_append, ← tk_outdeg_eq]
    by_cases hue : e.1 = u
    · subst hue
      have := h.outdeg
      have h2 : ([e].filter (·.1 == e.1)).length ≤ 1 := by simp
      omega
    · have : ([e].filter (·.1 == u)) = [] := by simp [hue]
      rw [this]; exact hF.outdeg_le u

theorem tk_AddEff.linInv {s0 s' : St} {e : Edge} (hI : s0.tk_LinInv) (h : tk_AddEff s0 e s')
    (hu : e.1 ∈ s0.ids) (hv : e.2 ∈ s0.ids) (ht : s0.tk_tm e.1 < s0.tk_tm e.2)
    (hroot : ∀ p, (p, e.2) ∉ s0.edgeList) : s'.tk_LinInv := by
  obtain ⟨u, v⟩ := e
  simp only at hu hv ht hroot
  have hF := hI.forest
  have hnu : ¬ s0.Anc v u := by
    intro hanc; have := hanc.tm_le hF; omega
  -- a node outside the subtree of `v` whose parent … : subtree membership is inherited along old edges
  have hsub : ∀ p c, (p, c) ∈ s0.edgeList → ¬ s0.Anc v p → ¬ s0.Anc v c := by
    intro p c hpc hp hanc
    rcases hanc.tail with h1 | ⟨p', hp', hp'c⟩
    · subst h1; exact hroot p hpc
    · have := hF.par_unique hpc hp'c
      subst this; exact hp hp'
  have hrootout : ∀ a, s0.IsRoot a → a ≠ v → ¬ s0.Anc v a := by
    intro a ha hav hanc
    rcases hanc.tail with h1 | ⟨p, _, hp⟩
    · exact hav h1.symm
    · exact ha.2 p hp
  refine ⟨h.forest hF hu hv ht hroot, ⟨?_, ?_, ?_⟩, h.on.trans hI.on, ?_⟩
  · intro n hn
    by_cases hanc : s0.Anc v n
    · rw [h.lin_in n hanc]; exact hI.linOK.has u hu
    · rw [h.lin_out n hanc]; exact hI.linOK.has n (h.ids ▸ hn)
  · rintro ⟨p, c⟩ hx
    rw [h.edges, List.mem_append, List.mem_singleton] at hx
    simp only
    rcases hx with hx | hx
    · by_cases hp : s0.Anc v p
      · rw [h.lin_in c (Anc.step _ p c hp hx), h.lin_in p hp]
      · rw [h.lin_out c (hsub p c hx hp), h.lin_out p hp]
        exact hI.linOK.along _ hx
    · cases hx
      rw [h.lin_in v (Anc.refl v), h.lin_out u hnu]
  · intro a b ha hb hab
    have key : ∀ a, s'.IsRoot a → s0.IsRoot a ∧ s'.linOf a = s0.linOf a := by
      intro a ha
      have hav : a ≠ v := by
        intro heq; subst heq
        exact ha.2 u (by rw [h.edges]; simp)
      have hra : s0.IsRoot a :=
        ⟨h.ids ▸ ha.1, fun p hp => ha.2 p (by rw [h.edges]; exact List.mem_append_left _ hp)⟩
      exact ⟨hra, h.lin_out a (hrootout a hra hav)⟩
    rw [(key a ha).2, (key b hb).2]
    exact hI.linOK.roots a b (key a ha).1 (key b hb).1 hab
  · intro n l hl
    rw [h.maxLin]
    by_cases hanc : s0.Anc v n
    · rw [h.lin_in n hanc] at hl; exact hI.max u l hl
    · rw [h.lin_out n hanc] at hl; exact hI.max n l hl


theorem tk_addTail_ok_head {a0 : UOut} {e : Edge} {recs} (hok : (tk_addTail a0 e).2 = .ok recs) :
    ∃ recs0, a0.2 = .ok recs0 := by
  unfold tk_addTail at hok
  cases h2 : a0.2 with
  | error err => simp [h2] at hok
  | ok recs0 => exact ⟨recs0, rfl⟩

theorem tk_tm_congr {s s' : St} (h : ∀ n, s'.timeOf n = s.timeOf n) (n) : s'.tk_tm n = s.tk_tm n := by
  unfold tk_tm; rw [h]

/-- accepted `uDeleteEdge`: invariant bundle preserved + frame -/
theorem tk_uDeleteEdge_linInv {s : St} (hI : s.tk_LinInv) {e : Edge} {recs}
    (hok : (s.uDeleteEdge e).2 = .ok recs) :
    (s.uDeleteEdge e).1.tk_LinInv ∧ ∀ n, ¬ s.Anc e.2 n → (s.uDeleteEdge e).1.linOf n = s.linOf n :=
  ⟨(tk_uDeleteEdge_eff hI hok).linInv hI, (tk_uDeleteEdge_eff hI hok).lin_out⟩

/-- accepted `uAddEdge`: invariant bundle preserved + frame -/
theorem tk_uAddEdge_linInv {s : St} (hI : s.tk_LinInv) {e : Edge} {force : Bool} {recs}
    (hok : (s.uAddEdge e force).2 = .ok recs) :
    (s.uAddEdge e force).1.tk_LinInv ∧
    ∀ n, ¬ s.Anc e.2 n → (s.uAddEdge e force).1.linOf n = s.linOf n := by
  rw [tk_uAddEdge_eq] at hok ⊢
  by_cases h1 : s.hasNode e.1 = true
  · by_cases h2 : s.hasNode e.2 = true
    · by_cases h3 : (s.timeOf e.1).getD 0 ≥ (s.timeOf e.2).getD 0
      · simp [h1, h2, h3] at hok
      · simp only [h1, h2, h3, Bool.not_true, Bool.false_eq_true, if_false] at hok ⊢
        have hu := tk_hasNode_iff.1 h1
        have hv := tk_hasNode_iff.1 h2
        have ht : s.tk_tm e.1 < s.tk_tm e.2 := by unfold tk_tm; omega
        rcases tk_addTail_ok_head hok with ⟨recs0, h0⟩
        rcases tk_addHead_shape h0 with ⟨hs0, hroot⟩ | ⟨p, recs', hp, hdel, hs0⟩
        · have hI0 : (tk_addHead s e force).1.tk_LinInv := by rw [hs0]; exact hI
          have heff := tk_addTail_eff hI0 (by rw [hs0]; exact hu) (by rw [hs0]; exact hroot) hok
          rw [hs0] at heff hI0
          refine ⟨heff.linInv hI0 hu hv ht hroot, heff.lin_out⟩
        · have hd := tk_uDeleteEdge_eff hI hdel
          have hI0 : (tk_addHead s e force).1.tk_LinInv := by rw [hs0]; exact hd.linInv hI
          have hroot : ∀ q, (q, e.2) ∉ (s.uDeleteEdge (p, e.2)).1.edgeList := by
            intro q hq
            rcases (hd.edge_iff _).1 hq with ⟨hq1, hq2⟩
            have := hI.forest.par_unique hq1 hp
            subst this; exact hq2 rfl
          have htime : ∀ n, (s.uDeleteEdge (p, e.2)).1.timeOf n = s.timeOf n := hd.sameG.time
          have heff := tk_addTail_eff hI0 (by rw [hs0, hd.ids]; exact hu) (by rw [hs0]; exact hroot) hok
          rw [hs0] at heff hI0
          refine ⟨heff.linInv hI0 (by rw [hd.ids]; exact hu) (by rw [hd.ids]; exact hv)
            (by rw [tk_tm_congr htime, tk_tm_congr htime]; exact ht) hroot, ?_⟩
          intro n hn
          have hn' : ¬ (s.uDeleteEdge (p, e.2)).1.Anc e.2 n :=
            fun h => hn (Anc.mono (fun x hx => ((hd.edge_iff x).1 hx).1) h)
          rw [heff.lin_out n hn']
          exact hd.lin_out n hn
    · simp [h1, h2] at hok
  · simp [h1] at hok


/-! ### `uSwap`: chaining the bundle through nested user actions -/

theorem tk_thenUser_ok {acc : UOut} {f : St → UOut} {recs} (h : (thenUser acc f).2 = .ok recs) :
    ∃ r0 r1, acc.2 = .ok r0 ∧ (f acc.1).2 = .ok r1 ∧ (thenUser acc f).1 = (f acc.1).1 := by
  unfold thenUser at h ⊢
  cases h2 : acc.2 with
  | error e => simp [h2] at h
  | ok r0 =>
    simp only [h2] at h ⊢
    cases hf : (f acc.1).2 with
    | error e => simp [hf] at h
    | ok r1 => exact ⟨r0, r1, rfl, rfl, rfl⟩

/-- an optional nested user action -/
def tk_optStep (o : Option Node) (g : Node → St → UOut) (acc : UOut) : UOut :=
  match o with
  | some p => thenUser acc (g p)
  | none => acc

theorem tk_optStep_inv (P : St → Prop) {o : Option Node} {g : Node → St → UOut} {acc : UOut} {recs}
    (hg : ∀ p st r, P st → (g p st).2 = .ok r → P (g p st).1)
    (h : (tk_optStep o g acc).2 = .ok recs) :
    (∃ r0, acc.2 = .ok r0) ∧ (P acc.1 → P (tk_optStep o g acc).1) := by
  cases o with
  | none => exact ⟨⟨recs, h⟩, id⟩
  | some p =>
    rcases tk_thenUser_ok h with ⟨r0, r1, h0, h1, h2⟩
    refine ⟨⟨r0, h0⟩, fun hP => ?_⟩
    show P (thenUser acc (g p)).1
    rw [h2]; exact hg p acc.1 r1 hP h1

def tk_swapBad (s : St) (o : Option Node) (t : Nat) : Bool :=
  match o with | some p => decide ((s.timeOf p).getD 0 ≥ t) | none => false

theorem tk_uSwap_eq (s : St) (n1 n2 : Node) :
    s.uSwap n1 n2 =
      if !(s.hasNode n1) || !(s.hasNode n2) then (s, .error .key) else
      if (s.preds n1).head?.isNone && (s.preds n2).head?.isNone then (s, .error .invalid) else
      if (s.preds n1).head? == (s.preds n2).head? then (s, .error .invalid) else
      if tk_swapBad s (s.preds n1).head? ((s.timeOf n2).getD 0) then (s, .error .invalid) else
      if tk_swapBad s (s.preds n2).head? ((s.timeOf n1).getD 0) then (s, .error .invalid) else
      tk_optStep (s.preds n2).head? (fun p st => st.uAddEdge (p, n1) false)
        (tk_optStep (s.preds n1).head? (fun p st => st.uAddEdge (p, n2) false)
          (tk_optStep (s.preds n2).head? (fun p st => st.uDeleteEdge (p, n2))
            (tk_optStep (s.preds n1).head? (fun p st => st.uDeleteEdge (p, n1)) (s, .ok [])))) := by
  unfold uSwap tk_optStep tk_swapBad
  rfl

/-- accepted `uSwap` re-establishes the lineage invariant bundle -/
theorem tk_uSwap_linInv {s : St} (hI : s.tk_LinInv) {n1 n2 : Node} {recs}
    (hok : (s.uSwap n1 n2).2 = .ok recs) : (s.uSwap n1 n2).1.tk_LinInv := by
  rw [tk_uSwap_eq] at hok ⊢
  generalize (!(s.hasNode n1) || !(s.hasNode n2)) = c1 at hok ⊢
  generalize ((s.preds n1).head?.isNone && (s.preds n2).head?.isNone) = c2 at hok ⊢
  generalize ((s.preds n1).head? == (s.preds n2).head?) = c3 at hok ⊢
  generalize tk_swapBad s (s.preds n1).head? ((s.timeOf n2).getD 0) = c4 at hok ⊢
  generalize tk_swapBad s (s.preds n2).head? ((s.timeOf n1).getD 0) = c5 at hok ⊢
  cases c1 <;> cases c2 <;> cases c3 <;> cases c4 <;> cases c5 <;>
    simp only [if_true, if_false, Bool.false_eq_true, reduceCtorEq] at hok ⊢
  have hA : ∀ (n : Node) p st r, St.tk_LinInv st → (st.uAddEdge (p, n) false).2 = .ok r →
      St.tk_LinInv (st.uAddEdge (p, n) false).1 :=
    fun n p st r hP hr => (tk_uAddEdge_linInv hP hr).1
  have hD : ∀ (n : Node) p st r, St.tk_LinInv st → (st.uDeleteEdge (p, n)).2 = .ok r →
      St.tk_LinInv (st.uDeleteEdge (p, n)).1 :=
    fun n p st r hP hr => (tk_uDeleteEdge_linInv hP hr).1
  rcases tk_optStep_inv St.tk_LinInv (hA n1) hok with ⟨⟨r3, h3ok⟩, i4⟩
  rcases tk_optStep_inv St.tk_LinInv (hA n2) h3ok with ⟨⟨r2, h2ok⟩, i3⟩
  rcases tk_optStep_inv St.tk_LinInv (hD n2) h2ok with ⟨⟨r1, h1ok⟩, i2⟩
  rcases tk_optStep_inv St.tk_LinInv (hD n1) h1ok with ⟨_, i1⟩
  exact i4 (i3 (i2 (i1 hI)))

/-! ### Boolean checkers for concrete states (non-vacuity examples) -/

def tk_forestB (s : St) : Bool :=
  decide s.ids.Nodup && decide s.edgeList.Nodup &&
  s.edgeList.all (fun e => s.ids.contains e.1 && s.ids.contains e.2 && decide (s.tk_tm e.1 < s.tk_tm e.2)
    && decide (s.indeg e.2 ≤ 1) && decide (s.outdeg e.1 ≤ 2))

theorem tk_forestB_sound {s : St} (h : s.tk_forestB = true) : s.Forest := by
  unfold tk_forestB at h
  simp only [Bool.and_eq_true, decide_eq_true_eq, List.all_eq_true, List.contains_iff_mem] at h
  obtain ⟨⟨h1, h2⟩, h3⟩ := h
  refine ⟨h1, h2, fun e he => (h3 e he).1.1.1.1, fun e he => (h3 e he).1.1.1.2, ?_, ?_, ?_⟩
  · intro e he t1 t2 ht1 ht2
    have := (h3 e he).1.1.2
    unfold tk_tm at this
    rw [ht1, ht2] at this
    exact this
  · intro v
    by_cases h0 : s.indeg v = 0
    · omega
    · cases hp : s.preds v with
      | nil => unfold indeg at h0; rw [hp] at h0; exact absurd rfl h0
      | cons p l =>
        have := tk_mem_preds.1 (hp ▸ List.mem_cons_self : p ∈ s.preds v)
        exact (h3 _ this).1.2
  · intro u
    by_cases h0 : s.outdeg u = 0
    · omega
    · cases hp : s.succs u with
      | nil => unfold outdeg at h0; rw [hp] at h0; exact absurd rfl h0
      | cons c l =>
        have := tk_mem_succs.1 (hp ▸ List.mem_cons_self : c ∈ s.succs u)
        exact (h3 _ this).2

theorem tk_isRoot_iff {s : St} {a : Node} : s.IsRoot a ↔ (a ∈ s.ids ∧ s.preds a = []) := by
  unfold IsRoot
  constructor
  · rintro ⟨h1, h2⟩
    refine ⟨h1, ?_⟩
    cases hp : s.preds a with
    | nil => rfl
    | cons p l => exact absurd (tk_mem_preds.1 (hp ▸ List.mem_cons_self : p ∈ s.preds a)) (h2 p)
  · rintro ⟨h1, h2⟩
    refine ⟨h1, fun p hp => ?_⟩
    have := tk_mem_preds.2 hp
    rw [h2] at this; cases this

theorem tk_isHead_iff {s : St} {a : Node} :
    s.IsHead a ↔ (a ∈ s.ids ∧ ∀ p ∈ s.preds a, s.outdeg p = 2) := by
  unfold IsHead
  constructor
  · rintro ⟨h1, h2⟩; exact ⟨h1, fun p hp => h2 p (tk_mem_preds.1 hp)⟩
  · rintro ⟨h1, h2⟩; exact ⟨h1, fun p hp => h2 p (tk_mem_preds.2 hp)⟩

def tk_linOKB (s : St) : Bool :=
  s.ids.all (fun n => (s.linOf n).isSome) &&
  s.edgeList.all (fun e => s.linOf e.2 == s.linOf e.1) &&
  s.ids.all (fun a => s.ids.all (fun b =>
    !(s.preds a).isEmpty || !(s.preds b).isEmpty || a == b || s.linOf a != s.linOf b))

theorem tk_linOKB_sound {s : St} (h : s.tk_linOKB = true) : s.LinOK := by
  unfold tk_linOKB at h
  simp only [Bool.and_eq_true, List.all_eq_true] at h
  obtain ⟨⟨h1, h2⟩, h3⟩ := h
  refine ⟨h1, fun e he => by simpa using h2 e he, ?_⟩
  intro a b ha hb hab
  rcases tk_isRoot_iff.1 ha with ⟨ha1, ha2⟩
  rcases tk_isRoot_iff.1 hb with ⟨hb1, hb2⟩
  have := h3 a ha1 b hb1
  simp [ha2, hb2, hab] at this
  exact this

def tk_tidOKB (s : St) : Bool :=
  s.edgeList.all (fun e => s.outdeg e.1 != 1 || s.tidOf e.2 == s.tidOf e.1) &&
  s.ids.all (fun a => s.ids.all (fun b =>
    !((s.preds a).all (fun p => s.outdeg p == 2)) || !((s.preds b).all (fun p => s.outdeg p == 2))
      || a == b || s.tidOf a != s.tidOf b))

theorem tk_tidOKB_sound {s : St} (h : s.tk_tidOKB = true) : s.TidOK := by
  unfold tk_tidOKB at h
  simp only [Bool.and_eq_true, List.all_eq_true] at h
  obtain ⟨h2, h3⟩ := h
  refine ⟨?_, ?_⟩
  · intro e he ho
    have := h2 e he
    simp [ho] at this
    exact this
  · intro a b ha hb hab
    rcases tk_isHead_iff.1 ha with ⟨ha1, ha2⟩
    rcases tk_isHead_iff.1 hb with ⟨hb1, hb2⟩
    have := h3 a ha1 b hb1
    have e1 : (s.preds a).all (fun p => s.outdeg p == 2) = true := by
      rw [List.all_eq_true]; intro p hp; simp [ha2 p hp]
    have e2 : (s.preds b).all (fun p => s.outdeg p == 2) = true := by
      rw [List.all_eq_true]; intro p hp; simp [hb2 p hp]
    simp [e1, e2, hab] at this
    exact this

def tk_linMaxB (s : St) : Bool :=
  s.ids.all (fun n => match s.linOf n with | some l => decide (l ≤ s.maxLin) | none => true)

theorem tk_linMaxB_sound {s : St} (h : s.tk_linMaxB = true) :
    ∀ n l, s.linOf n = some l → l ≤ s.maxLin := by
  unfold tk_linMaxB at h
  rw [List.all_eq_true] at h
  intro n l hl
  have hn : n ∈ s.ids := by
    unfold linOf at hl
    cases hf : s.findNode n with
    | none => rw [hf] at hl; cases hl
    | some r => exact tk_findNode_mem hf
  have := h n hn
  rw [hl] at this
  simpa using this

def tk_tidMaxB (s : St) : Bool :=
  s.ids.all (fun n => match s.tidOf n with | some l => decide (l ≤ s.maxTid) | none => true)

theorem tk_tidMaxB_sound {s : St} (h : s.tk_tidMaxB = true) :
    ∀ n t, s.tidOf n = some t → t ≤ s.maxTid := by
  unfold tk_tidMaxB at h
  rw [List.all_eq_true] at h
  intro n l hl
  have hn : n ∈ s.ids := by
    unfold tidOf at hl
    cases hf : s.findNode n with
    | none => rw [hf] at hl; cases hl
    | some r => exact tk_findNode_mem hf
  have := h n hn
  rw [hl] at this
  simpa using this

theorem tk_linInv_of_check {s : St} (h1 : s.tk_forestB = true) (h2 : s.tk_linOKB = true)
    (h3 : s.linOn = true) (h4 : s.tk_linMaxB = true) : s.tk_LinInv :=
  ⟨tk_forestB_sound h1, tk_linOKB_sound h2, h3, tk_linMaxB_sound h4⟩


theorem tk_uAddEdge_ok_nodes {s : St} {e : Edge} {force : Bool} {recs}
    (hok : (s.uAddEdge e force).2 = .ok recs) :
    e.1 ∈ s.ids ∧ e.2 ∈ s.ids ∧ s.tk_tm e.1 < s.tk_tm e.2 := by
  rw [tk_uAddEdge_eq] at hok
  by_cases h1 : s.hasNode e.1 = true
  · by_cases h2 : s.hasNode e.2 = true
    · by_cases h3 : (s.timeOf e.1).getD 0 ≥ (s.timeOf e.2).getD 0
      · simp [h1, h2, h3] at hok
      · exact ⟨tk_hasNode_iff.1 h1, tk_hasNode_iff.1 h2, by unfold tk_tm; omega⟩
    · simp [h1, h2] at hok
  · simp [h1] at hok

/-- the list of nodes the walk writes the lineage on is the BFS list -/
theorem tk_walkLevels_lNodes (s : St) (start : Node) (oldT newT : Nat) (nl : Option Nat) :
    (walkLevels oldT newT nl true (s.nodes.length + 1)
      { s := s, flag := true, tNodes := [], lNodes := [], next := [start] }).lNodes
      = tk_bfs s.succs (s.nodes.length + 1) [start] := by
  have h := tk_walkLevels_core oldT newT nl true (s.nodes.length + 1)
    { s := s, flag := true, tNodes := [], lNodes := [], next := [start] }
  have h2 := (tk_foldl_visit_lin oldT newT nl (tk_bfs s.succs (s.nodes.length + 1) [start])
    ⟨s, true, [], []⟩).1
  have h3 := congrArg tk_Core.lN h
  simp only [WalkAcc.core] at h3
  rw [h3]; simpa using h2

/-! ### track ids: the walk relabels the chain below `start` -/

theorem tk_bfs_nil (succ : Node → List Node) : ∀ f, tk_bfs succ f [] = []
  | 0 => rfl
  | _ + 1 => rfl

theorem tk_bfs_single (succ : Node → List Node) (f : Nat) (x : Node) :
    tk_bfs succ (f + 1) [x] = x :: tk_bfs succ f (succ x) := by
  simp [tk_bfs]

/-- chain hypotheses for the track-id part of the walk, relative to the start `x`:
    along a non-division edge below `x` the child carries `old`, below a division it does not -/
def tk_ChainHyp (s : St) (old : Nat) (x : Node) : Prop :=
  (∀ p c, s.tk_SegDown x p → (p, c) ∈ s.edgeList → s.outdeg p = 1 → s.tidOf c = some old) ∧
  (∀ p c, s.tk_SegDown x p → (p, c) ∈ s.edgeList → s.outdeg p = 2 → s.tidOf c ≠ some old)

theorem tk_ChainHyp.child {s : St} {old : Nat} {x y : Node} (h : tk_ChainHyp s old x)
    (he : (x, y) ∈ s.edgeList) (ho : s.outdeg x = 1) : tk_ChainHyp s old y :=
  ⟨fun p c hp => h.1 p c (tk_SegDown.cons he ho hp), fun p c hp => h.2 p c (tk_SegDown.cons he ho hp)⟩

theorem tk_tw_sound {s : St} (hF : s.Forest) (old : Nat) :
    ∀ (f : Nat) (x n : Node), tk_ChainHyp s old x →
      n ∈ (tk_bfs s.succs f [x]).takeWhile (fun m => s.tidOf m == some old) → s.tk_SegDown x n
  | 0, x, n, _, hn => by simp [tk_bfs] at hn
  | f + 1, x, n, hH, hn => by
    rw [tk_bfs_single, List.takeWhile_cons] at hn
    split at hn
    · rcases List.mem_cons.1 hn with rfl | hn'
      · exact tk_SegDown.refl _
      · match hsx : s.succs x with
        | [] => rw [hsx, tk_bfs_nil] at hn'; cases hn'
        | [y] =>
          rw [hsx] at hn'
          have hxy : (x, y) ∈ s.edgeList := tk_mem_succs.1 (by rw [hsx]; exact List.mem_cons_self)
          have ho : s.outdeg x = 1 := by unfold outdeg; rw [hsx]; rfl
          exact tk_SegDown.cons hxy ho (tk_tw_sound hF old f y n (hH.child hxy ho) hn')
        | y :: z :: l =>
          have hxy : (x, y) ∈ s.edgeList := tk_mem_succs.1 (by rw [hsx]; exact List.mem_cons_self)
          have ho : s.outdeg x = 2 := by
            have h1 := hF.outdeg_le x
            unfold outdeg at h1 ⊢; rw [hsx] at h1 ⊢; simp at h1 ⊢; omega
          have hny := hH.2 x y (tk_SegDown.refl x) hxy ho
          rw [hsx] at hn'
          cases f with
          | zero => simp [tk_bfs] at hn'
          | succ f' =>
            rw [tk_bfs] at hn'
            · rw [List.cons_append, List.takeWhile_cons] at hn'
              simp [hny] at hn'
            · intro h; cases h
    · cases hn

theorem tk_eq_singleton_of_length_one {α} {l : List α} (h : l.length = 1) {c : α} (hc : c ∈ l) :
    l = [c] := by
  match l, h with
  | [x], _ => simp at hc; rw [hc]

theorem tk_tw_complete {s : St} (old : Nat) :
    ∀ (f : Nat) (x n : Node), s.tidOf x = some old → tk_ChainHyp s old x → s.tk_SegDown x n →
      n ∈ tk_bfs s.succs f [x] →
      n ∈ (tk_bfs s.succs f [x]).takeWhile (fun m => s.tidOf m == some old)
  | 0, x, n, _, _, _, hn => by simp [tk_bfs] at hn
  | f + 1, x, n, hP, hH, hseg, hn => by
    rw [tk_bfs_single] at hn ⊢
    rw [List.takeWhile_cons]
    simp only [hP, beq_self_eq_true, if_true]
    by_cases hnx : n = x
    · subst hnx; exact List.mem_cons_self
    · rcases hseg.head with h | ⟨ho, c, hxc, hcn⟩
      · exact absurd h.symm hnx
      · have hsx : s.succs x = [c] := tk_eq_singleton_of_length_one ho (tk_mem_succs.2 hxc)
        rw [hsx] at hn ⊢
        rcases List.mem_cons.1 hn with h | hn'
        · exact absurd h hnx
        · exact List.mem_cons_of_mem _
            (tk_tw_complete old f c n (hH.1 x c (tk_SegDown.refl x) hxc ho) (hH.child hxc ho) hcn hn')

/-- **track-id effect of the walk**: under the chain hypotheses the walk writes `newT` on exactly
    the chain `tk_SegDown s start ·` and changes no other track id -/
theorem tk_walk_tid {s : St} (hF : s.Forest) {start : Node} (hs : start ∈ s.ids)
    (oldT newT : Nat) (oldL newL : Option Nat) (hold : s.tidOf start = some oldT)
    (hH : tk_ChainHyp s oldT start) :
    (∀ n, s.tk_SegDown start n → (s.walk start oldT newT oldL newL).tidOf n = some newT) ∧
    (∀ n, ¬ s.tk_SegDown start n → (s.walk start oldT newT oldL newL).tidOf n = s.tidOf n) := by
  have hn := (tk_walk_nodes_edges s start oldT newT oldL newL).1
  have hb := tk_bfs_walk hF hs
  have ht := tk_foldl_visit_tid oldT newT newL (newL.isSome && s.linOn) s.tidOf
    (tk_bfs s.succs (s.nodes.length + 1) [start]) ⟨s, true, [], []⟩ hb.1
    (fun m hm => ((hb.2 m).1 hm).mem hF hs) (fun _ _ => rfl) rfl
  have hiff : ∀ n, n ∈ (tk_bfs s.succs (s.nodes.length + 1) [start]).takeWhile
      (fun m => s.tidOf m == some oldT) ↔ s.tk_SegDown start n := by
    intro n
    constructor
    · exact tk_tw_sound hF oldT _ start n hH
    · intro h
      exact tk_tw_complete oldT _ start n hold hH h ((hb.2 n).2 h.anc)
  refine ⟨?_, ?_⟩
  · intro n hseg
    rw [tk_tidOf_congr hn]
    exact ht.2.1 n ((hiff n).2 hseg)
  · intro n hseg
    rw [tk_tidOf_congr hn]
    exact ht.2.2 n (fun h => hseg ((hiff n).1 h))

/-- under `TidOK` the chain hypotheses hold at every node for its own track id -/
theorem TidOK.chainHyp {s : St} (hF : s.Forest) (hT : s.TidOK) {x : Node} {t : Nat}
    (hx : x ∈ s.ids) (ht : s.tidOf x = some t) : tk_ChainHyp s t x := by
  refine ⟨?_, ?_⟩
  · intro p c hp hpc ho
    have := hT.of_sameSeg ((hp.step _ _ _ hpc ho).sameSeg hx)
    rw [← this]; exact ht
  · intro p c hp hpc ho hc
    -- c is a head; the head of x's segment is a different head with the same id
    rcases tk_exists_head hF _ x hx rfl with ⟨h, hh, hhx⟩
    have hch : s.IsHead c := by
      refine ⟨hF.dst_mem _ hpc, fun q hq => ?_⟩
      rw [hF.par_unique hq hpc]; exact ho
    have hne : h ≠ c := by
      intro heq; subst heq
      -- h above x above p, and p → h: cycle
      have h1 := (hhx.anc.trans hp.anc).tm_le hF
      have h2 := hF.tm_lt hpc
      omega
    apply hT.heads h c hh hch hne
    rw [hT.of_sameSeg (hhx.sameSeg hh.1), ht, hc]

/-! ### track ids: `uDeleteEdge` -/

theorem tk_tidOf_some_mem {s : St} {n : Node} {t : Nat} (h : s.tidOf n = some t) : n ∈ s.ids := by
  unfold tidOf at h
  cases hf : s.findNode n with
  | none => rw [hf] at h; cases h
  | some r => exact tk_findNode_mem hf

theorem tk_tidOf_of_findNode {s : St} {n : Node} {r} (h : s.findNode n = some r) :
    s.tidOf n = some r.tid := by
  unfold tidOf; rw [h]; rfl

theorem tk_visit_tid_same (old nl ul) (c : tk_Core) (x m : Node) :
    (tk_visit old old nl ul c x).s.tidOf m = c.s.tidOf m := by
  by_cases hm : m = x
  · subst hm
    unfold tk_visit
    cases ul <;> simp only [Bool.false_eq_true, if_false, if_true] <;> split
    · rename_i h
      simp only [Bool.and_eq_true, beq_iff_eq] at h
      rw [tk_tidOf_setTid_self _ _ _ (tk_tidOf_some_mem h.2)]; exact h.2.symm
    · rfl
    · rename_i h
      simp only [Bool.and_eq_true, beq_iff_eq] at h
      rw [tk_tidOf_setTid_self _ _ _ (tk_tidOf_some_mem h.2), ← h.2, tk_tidOf_setLin]
    · rw [tk_tidOf_setLin]
  · exact tk_visit_tid_ne old old nl ul c x hm

theorem tk_foldl_visit_tid_same (old nl ul) (l : List Node) (c : tk_Core) (m : Node) :
    (l.foldl (tk_visit old old nl ul) c).s.tidOf m = c.s.tidOf m := by
  induction l generalizing c with
  | nil => rfl
  | cons x l ih => rw [List.foldl_cons, ih, tk_visit_tid_same]

/-- a walk that "relabels" to the same track id changes no track id -/
theorem tk_walk_tid_same (s : St) (start : Node) (t : Nat) (oldL newL : Option Nat) (m : Node) :
    (s.walk start t t oldL newL).tidOf m = s.tidOf m := by
  rw [tk_tidOf_congr (tk_walk_nodes_edges s start t t oldL newL).1]
  exact tk_foldl_visit_tid_same t newL _ _ ⟨s, true, [], []⟩ m

theorem tk_outdeg_delE_ne (s : St) {u v p : Node} (h : p ≠ u) :
    (s.tk_delE (u, v)).outdeg p = s.outdeg p := by
  rw [tk_outdeg_eq, tk_outdeg_eq, tk_delE_edgeList, List.filter_filter]
  congr 1
  apply List.filter_congr
  intro x _
  by_cases hx : x.1 = p
  · have : x ≠ (u, v) := by intro heq; subst heq; exact h hx.symm
    simp [hx, this]
  · simp [hx]

theorem tk_outdeg_delE_le (s : St) (e : Edge) (p : Node) : (s.tk_delE e).outdeg p ≤ s.outdeg p :=
  (tk_delE_succs_sublist s e p).length_le

/-- chains that do not contain the source of the removed edge are chains of the old graph -/
theorem tk_SegDown.of_delE {s : St} {u v x n : Node} (hx : ¬ s.Anc x u)
    (h : (s.tk_delE (u, v)).tk_SegDown x n) : s.tk_SegDown x n := by
  induction h with
  | refl => exact tk_SegDown.refl _
  | step p c _ he ho ih =>
    have hpu : p ≠ u := by intro heq; subst heq; exact hx ih.anc
    exact tk_SegDown.step _ p c ih (tk_mem_delE.1 he).1 (by rw [← tk_outdeg_delE_ne s hpu]; exact ho)

theorem tk_chainHyp_delE {s : St} (hF : s.Forest) (hT : s.TidOK) {u v x : Node} {t : Nat}
    (hx : x ∈ s.ids) (hxu : ¬ s.Anc x u) (ht : s.tidOf x = some t) :
    tk_ChainHyp (s.tk_delE (u, v)) t x := by
  have hc := hT.chainHyp hF hx ht
  refine ⟨?_, ?_⟩
  · intro p c hp hpc ho
    have hp' := hp.of_delE hxu
    have hpu : p ≠ u := by intro heq; subst heq; exact hxu hp'.anc
    exact hc.1 p c hp' (tk_mem_delE.1 hpc).1 (by rw [← tk_outdeg_delE_ne s hpu]; exact ho)
  · intro p c hp hpc ho
    have hp' := hp.of_delE hxu
    have hpu : p ≠ u := by intro heq; subst heq; exact hxu hp'.anc
    exact hc.2 p c hp' (tk_mem_delE.1 hpc).1 (by rw [← tk_outdeg_delE_ne s hpu]; exact ho)

/-- a node strictly inside a chain is not a head -/
theorem tk_SegDown.not_head {s : St} {x a : Node} (h : s.tk_SegDown x a) (hne : a ≠ x) : ¬ s.IsHead a := by
  intro hh
  rcases h.tail with h1 | ⟨p, _, hp, ho⟩
  · exact hne h1.symm
  · exact hh.no_in hp ho

/-- chains are closed under "child of a node outside is outside", except at the start -/
theorem tk_SegDown.closed {s : St} (hF : s.Forest) {x p c : Node} (hpc : (p, c) ∈ s.edgeList)
    (hp : ¬ s.tk_SegDown x p) (hcx : c ≠ x) : ¬ s.tk_SegDown x c := by
  intro h
  rcases h.tail with h1 | ⟨p', hp', hp'c, _⟩
  · exact hcx h1.symm
  · rw [hF.par_unique hpc hp'c] at hp; exact hp hp'

/-- what the C04 step theorems assume and re-establish -/
structure tk_TidInv (s : St) : Prop where
  forest : s.Forest
  tidOK : s.TidOK
  max : ∀ n t, s.tidOf n = some t → t ≤ s.maxTid

theorem tk_isHead_of_delE {s : St} (hF : s.Forest) {u v a : Node} (h : (s.tk_delE (u, v)).IsHead a)
    (hav : a ≠ v) : s.IsHead a := by
  refine ⟨h.1, fun p hp => ?_⟩
  have h1 := h.2 p (tk_mem_delE.2 ⟨hp, by intro heq; cases heq; exact hav rfl⟩)
  have h2 := tk_outdeg_delE_le s (u, v) p
  have h3 := hF.outdeg_le p
  omega

/-- removal of a non-division edge `(u,v)`: the chain below `v` gets a fresh id -/
theorem tk_cutTid0 {s s' : St} (hI : s.tk_TidInv) {u v : Node} (he : (u, v) ∈ s.edgeList)
    (ho : (s.tk_delE (u, v)).outdeg u = 0) (hG : tk_SameG (s.tk_delE (u, v)) s')
    (hin : ∀ n, (s.tk_delE (u, v)).tk_SegDown v n → s'.tidOf n = some (s.maxTid + 1))
    (hout : ∀ n, ¬ (s.tk_delE (u, v)).tk_SegDown v n → s'.tidOf n = s.tidOf n) : s'.TidOK := by
  have hF := hI.forest
  have hF1 := hF.tk_delE (u, v)
  have hroot : ∀ p, (p, v) ∉ (s.tk_delE (u, v)).edgeList := by
    intro p hp
    rcases tk_mem_delE.1 hp with ⟨hp1, hp2⟩
    have := hF.par_unique hp1 he
    subst this; exact hp2 rfl
  have hfresh : ∀ n, s.tidOf n ≠ some (s.maxTid + 1) := by
    intro n hn; have := hI.max n _ hn; omega
  refine ⟨?_, ?_⟩
  · rintro ⟨p, c⟩ hx hop
    rw [hG.edgeList] at hx
    rw [hG.outdeg] at hop
    simp only at hop ⊢
    by_cases hp : (s.tk_delE (u, v)).tk_SegDown v p
    · rw [hin c (hp.step _ _ _ hx hop), hin p hp]
    · have hcv : c ≠ v := by intro heq; subst heq; exact hroot p hx
      rw [hout c (tk_SegDown.closed hF1 hx hp hcv), hout p hp]
      have hpu : p ≠ u := by intro heq; subst heq; omega
      exact hI.tidOK.along (p, c) (tk_mem_delE.1 hx).1 (by rw [← tk_outdeg_delE_ne s hpu]; exact hop)
  · intro a b ha hb hab
    have key : ∀ a, s'.IsHead a → (a = v ∧ s'.tidOf a = some (s.maxTid + 1)) ∨
        (a ≠ v ∧ s.IsHead a ∧ s'.tidOf a = s.tidOf a) := by
      intro a ha
      have ha1 : (s.tk_delE (u, v)).IsHead a :=
        ⟨hG.ids ▸ ha.1, fun p hp => by rw [← hG.outdeg]; exact ha.2 p (hG.edgeList ▸ hp)⟩
      by_cases hav : a = v
      · subst hav; exact Or.inl ⟨rfl, hin a (tk_SegDown.refl a)⟩
      · refine Or.inr ⟨hav, tk_isHead_of_delE hF ha1 hav, hout a ?_⟩
        intro hseg; exact hseg.not_head hav ha1
    rcases key a ha with ⟨ha1, ha2⟩ | ⟨ha1, ha2, ha3⟩ <;>
      rcases key b hb with ⟨hb1, hb2⟩ | ⟨hb1, hb2, hb3⟩
    · exact absurd (ha1.trans hb1.symm) hab
    · rw [ha2, hb3]; exact fun h => hfresh b h.symm
    · rw [ha3, hb2]; exact hfresh a
    · rw [ha3, hb3]; exact hI.tidOK.heads a b ha2 hb2 hab

/-- removal of a division edge `(u,v)`: the chain below the sibling joins the track of `u` -/
theorem tk_cutTid1 {s s' : St} (hI : s.tk_TidInv) {u v sib : Node} {tu : Nat} (he : (u, v) ∈ s.edgeList)
    (ho : (s.tk_delE (u, v)).outdeg u = 1) (hsib : (u, sib) ∈ (s.tk_delE (u, v)).edgeList)
    (htu : s.tidOf u = some tu) (hG : tk_SameG (s.tk_delE (u, v)) s')
    (hin : ∀ n, (s.tk_delE (u, v)).tk_SegDown sib n → s'.tidOf n = some tu)
    (hout : ∀ n, ¬ (s.tk_delE (u, v)).tk_SegDown sib n → s'.tidOf n = s.tidOf n) : s'.TidOK := by
  have hF := hI.forest
  have hF1 := hF.tk_delE (u, v)
  have hsibE : (u, sib) ∈ s.edgeList := (tk_mem_delE.1 hsib).1
  have hu_out : ¬ (s.tk_delE (u, v)).tk_SegDown sib u := by
    intro h
    have h1 := h.anc.tm_le hF1
    have h2 := hF1.tm_lt hsib
    omega
  have hvhead : s.IsHead v := by
    refine ⟨hF.dst_mem _ he, fun p hp => ?_⟩
    have hpu := hF.par_unique hp he
    subst hpu
    -- two distinct children v, sib of u
    have hne : sib ≠ v := by intro heq; subst heq; exact (tk_mem_delE.1 hsib).2 rfl
    have h2 : 2 ≤ s.outdeg p := by
      have hs : List.Sublist [sib] ((s.tk_delE (p, v)).succs p) := by
        rw [tk_eq_singleton_of_length_one ho (tk_mem_succs.2 hsib)]
        exact List.Sublist.refl _
      rw [tk_outdeg_eq]
      have hnd : [(p, v), (p, sib)].Nodup := by simp; intro h; exact hne h.symm
      have hsub : ∀ x ∈ [(p, v), (p, sib)], x ∈ s.edgeList.filter (·.1 == p) := by
        intro x hx
        simp only [List.mem_cons, List.not_mem_nil, or_false] at hx
        rcases hx with rfl | rfl <;> simp [List.mem_filter, he, hsibE]
      clear hs
      -- a duplicate-free two-element list inside the filter
      have : ∀ (l : List Edge), (p, v) ∈ l → (p, sib) ∈ l → 2 ≤ l.length := by
        intro l h1 h2
        match l, h1, h2 with
        | [], h1, _ => cases h1
        | [x], h1, h2 =>
          simp only [List.mem_singleton] at h1 h2
          rw [← h1] at h2; cases h2; exact absurd rfl hne
        | _ :: _ :: _, _, _ => simp
      exact this _ (hsub _ (by simp)) (hsub _ (by simp))
    have := hF.outdeg_le p
    omega
  refine ⟨?_, ?_⟩
  · rintro ⟨p, c⟩ hx hop
    rw [hG.edgeList] at hx
    rw [hG.outdeg] at hop
    simp only at hop ⊢
    by_cases hpu : p = u
    · subst hpu
      have hc : c = sib := tk_child_unique hop hx hsib
      subst hc
      rw [hin c (tk_SegDown.refl c), hout p hu_out, htu]
    · by_cases hp : (s.tk_delE (u, v)).tk_SegDown sib p
      · rw [hin c (hp.step _ _ _ hx hop), hin p hp]
      · have hcs : c ≠ sib := by
          intro heq; subst heq; exact hpu (hF1.par_unique hx hsib)
        rw [hout c (tk_SegDown.closed hF1 hx hp hcs), hout p hp]
        exact hI.tidOK.along (p, c) (tk_mem_delE.1 hx).1 (by rw [← tk_outdeg_delE_ne s hpu]; exact hop)
  · intro a b ha hb hab
    have key : ∀ a, s'.IsHead a → s.IsHead a ∧ s'.tidOf a = s.tidOf a := by
      intro a ha
      have ha1 : (s.tk_delE (u, v)).IsHead a :=
        ⟨hG.ids ▸ ha.1, fun p hp => by rw [← hG.outdeg]; exact ha.2 p (hG.edgeList ▸ hp)⟩
      have hasib : a ≠ sib := by
        intro heq; subst heq; exact ha1.no_in hsib ho
      have hhead : s.IsHead a := by
        by_cases hav : a = v
        · subst hav; exact hvhead
        · exact tk_isHead_of_delE hF ha1 hav
      refine ⟨hhead, hout a ?_⟩
      intro hseg; exact hseg.not_head hasib ha1
    rw [(key a ha).2, (key b hb).2]
    exact hI.tidOK.heads a b (key a ha).1 (key b hb).1 hab

/-- accepted `uDeleteEdge`: track-id invariant bundle preserved + frame (only descendants of the
    edge's source can change their track id) -/
theorem tk_uDeleteEdge_tidInv {s : St} (hI : s.tk_TidInv) {e : Edge} {recs}
    (hok : (s.uDeleteEdge e).2 = .ok recs) :
    (s.uDeleteEdge e).1.tk_TidInv ∧
    ∀ n, ¬ s.Anc e.1 n → (s.uDeleteEdge e).1.tidOf n = s.tidOf n := by
  obtain ⟨u, v⟩ := e
  have hmem : (u, v) ∈ s.edgeList := tk_hasEdge_iff.1 (tk_uDeleteEdge_hasEdge hok)
  have hF := hI.forest
  have hF1 : (s.tk_delE (u, v)).Forest := hF.tk_delE _
  have hlt := hF.tm_lt hmem
  have hdesc : ∀ x n, (u, x) ∈ s.edgeList → (s.tk_delE (u, v)).tk_SegDown x n → s.Anc u n := by
    intro x n hx h
    exact Anc.cons hx (Anc.mono (fun y hy => (tk_mem_delE.1 hy).1) h.anc)
  rcases tk_uDeleteEdge_shape hok with ⟨r, ho, hr, hs'⟩ | ⟨sib, t, rs, t2, r2, ho, hh, htu, hrs, ht2, hr2, hs'⟩
  · simp only at ho hr hs'
    have hvu : ¬ s.Anc v u := by intro h; have := h.tm_le hF; omega
    have hv : v ∈ s.ids := hF.dst_mem _ hmem
    have hch := tk_chainHyp_delE (v := v) hF hI.tidOK hv hvu (tk_tidOf_of_findNode hr)
    have hw := tk_walk_tid hF1 hv r.tid (s.tk_delE (u, v)).nextTid r.lin (some (s.tk_delE (u, v)).nextLin)
      (tk_tidOf_of_findNode hr) hch
    have hG := tk_walk_sameG (s.tk_delE (u, v)) v r.tid (s.tk_delE (u, v)).nextTid r.lin
      (some (s.tk_delE (u, v)).nextLin)
    have hmt := tk_walk_maxTid (s.tk_delE (u, v)) v r.tid (s.tk_delE (u, v)).nextTid r.lin
      (some (s.tk_delE (u, v)).nextLin)
    rw [hs']
    have hnt : (s.tk_delE (u, v)).nextTid = s.maxTid + 1 := rfl
    rw [hnt] at hw hmt
    rw [hnt]
    refine ⟨⟨hG.forest hF1, tk_cutTid0 hI hmem ho hG hw.1 hw.2, ?_⟩, ?_⟩
    · intro n tt hn
      rw [hmt, tk_delE_maxTid]
      simp only [Nat.lt_add_one, if_true, gt_iff_lt]
      by_cases hseg : (s.tk_delE (u, v)).tk_SegDown v n
      · rw [hw.1 n hseg] at hn; cases hn; exact Nat.le_refl _
      · rw [hw.2 n hseg] at hn; have := hI.max n tt hn; omega
    · intro n hn
      apply hw.2
      intro hseg; exact hn (hdesc v n hmem hseg)
  · simp only at ho hh htu hrs ht2 hr2 hs'
    have hsib1 : (u, sib) ∈ (s.tk_delE (u, v)).edgeList := tk_mem_succs.1 (List.mem_of_head? hh)
    have hsibE : (u, sib) ∈ s.edgeList := (tk_mem_delE.1 hsib1).1
    have hsu : ¬ s.Anc sib u := by
      intro h; have := h.tm_le hF; have := hF.tm_lt hsibE; omega
    have hsi : sib ∈ s.ids := hF.dst_mem _ hsibE
    have hch := tk_chainHyp_delE (v := v) hF hI.tidOK hsi hsu (tk_tidOf_of_findNode hrs)
    have hw := tk_walk_tid hF1 hsi rs.tid t rs.lin none (tk_tidOf_of_findNode hrs) hch
    have hG2 := tk_walk_sameG (s.tk_delE (u, v)) sib rs.tid t rs.lin none
    have ht2' : t2 = r2.tid := by
      have := tk_tidOf_of_findNode hr2
      rw [ht2] at this; cases this; rfl
    subst ht2'
    have hG3 := tk_walk_sameG ((s.tk_delE (u, v)).walk sib rs.tid t rs.lin none) v r2.tid r2.tid r2.lin
      (some ((s.tk_delE (u, v)).walk sib rs.tid t rs.lin none).nextLin)
    have hsame := tk_walk_tid_same ((s.tk_delE (u, v)).walk sib rs.tid t rs.lin none) v r2.tid r2.lin
      (some ((s.tk_delE (u, v)).walk sib rs.tid t rs.lin none).nextLin)
    have hin : ∀ n, (s.tk_delE (u, v)).tk_SegDown sib n → (s.uDeleteEdge (u, v)).1.tidOf n = some t := by
      intro n hn; rw [hs', hsame]; exact hw.1 n hn
    have hout : ∀ n, ¬ (s.tk_delE (u, v)).tk_SegDown sib n →
        (s.uDeleteEdge (u, v)).1.tidOf n = s.tidOf n := by
      intro n hn; rw [hs', hsame]; exact hw.2 n hn
    have hG : tk_SameG (s.tk_delE (u, v)) (s.uDeleteEdge (u, v)).1 := by
      rw [hs']; exact hG2.trans hG3
    have htmax : t ≤ s.maxTid := hI.max u t htu
    refine ⟨⟨hG.forest hF1, tk_cutTid1 hI hmem ho hsib1 htu hG hin hout, ?_⟩, ?_⟩
    · have hall : ∀ n tt, (s.uDeleteEdge (u, v)).1.tidOf n = some tt → tt ≤ s.maxTid := by
        intro n tt hn
        by_cases hseg : (s.tk_delE (u, v)).tk_SegDown sib n
        · rw [hin n hseg] at hn; cases hn; exact htmax
        · rw [hout n hseg] at hn; exact hI.max n tt hn
      have hr2max : r2.tid ≤ s.maxTid := by
        apply hall v
        rw [hs', hsame]; exact tk_tidOf_of_findNode hr2
      intro n tt hn
      have h1 := hall n tt hn
      rw [hs', tk_walk_maxTid, tk_walk_maxTid, tk_delE_maxTid]
      split <;> split <;> omega
    · intro n hn
      apply hout
      intro hseg; exact hn (hdesc sib n hsibE hseg)

/-- a small concrete state for the non-vacuity examples: 1 → 2 → {3, 4} (division at 2),
    5 → 6 (a skip edge), with consistent ids and bookkeeping -/
def tk_exState : St :=
  { nodes := [⟨1, 0, 1, some 1, []⟩, ⟨2, 1, 1, some 1, []⟩, ⟨3, 2, 2, some 1, []⟩,
              ⟨4, 2, 3, some 1, []⟩, ⟨5, 0, 4, some 2, []⟩, ⟨6, 3, 4, some 2, []⟩],
    edges := [⟨(1, 2), []⟩, ⟨(2, 3), []⟩, ⟨(2, 4), []⟩, ⟨(5, 6), []⟩],
    t2n := [(1, [1, 2]), (2, [3]), (3, [4]), (4, [5, 6])],
    l2n := [(1, [1, 2, 3, 4]), (2, [5, 6])],
    maxTid := 4, maxLin := 2, counter := 7 }

end St
end Ft
