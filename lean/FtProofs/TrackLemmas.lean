/-
  FtProofs.TrackLemmas — helper lemmas for C04 / C05 (package PF):
  §1 basic facts about the graph views (ids, succs, preds, times) in a `Forest`
  §2 generic theory: `Conn` / `SameSeg` are equivalences, every node has a root ancestor /
     a segment head, equal label ⇔ related
  §3 the relabel walk: decoupling into a BFS list + a fold, characterisation of the BFS list
  §4 effect of the fold on lineage / track ids
  §5 invariant preservation for the user actions
-/
import FtProofs.SessionSpec
namespace Ft
namespace St

/-! ## §1 basic facts -/

theorem find_id_some {l : List NodeRec} {n : Node} {r : NodeRec}
    (h : l.find? (·.id == n) = some r) : r.id = n ∧ r ∈ l := by
  have h1 := List.find?_some h
  have h2 := List.mem_of_find?_eq_some h
  exact ⟨by simpa using h1, h2⟩

theorem findNode_id {s : St} {n : Node} {r : NodeRec} (h : s.findNode n = some r) :
    r.id = n ∧ r ∈ s.nodes := find_id_some h

theorem mem_ids_iff {s : St} {n : Node} : n ∈ s.ids ↔ ∃ r, s.findNode n = some r := by
  unfold ids findNode
  constructor
  · intro h
    rcases List.mem_map.1 h with ⟨r, hr, rfl⟩
    cases hf : s.nodes.find? (·.id == r.id) with
    | some r' => exact ⟨r', rfl⟩
    | none =>
      have := List.find?_eq_none.1 hf r hr
      simp at this
  · rintro ⟨r, hr⟩
    have := find_id_some hr
    exact List.mem_map.2 ⟨r, this.2, this.1⟩

theorem hasNode_iff {s : St} {n : Node} : s.hasNode n = true ↔ n ∈ s.ids := by
  rw [mem_ids_iff]; unfold hasNode
  cases s.findNode n <;> simp

/-- time as a total function -/
def tm (s : St) (n : Node) : Nat := (s.timeOf n).getD 0

theorem timeOf_of_mem {s : St} {n : Node} (h : n ∈ s.ids) : s.timeOf n = some (s.tm n) := by
  rcases mem_ids_iff.1 h with ⟨r, hr⟩
  simp [tm, timeOf, hr]

theorem mem_succs {s : St} {u c : Node} : c ∈ s.succs u ↔ (u, c) ∈ s.edgeList := by
  unfold succs edgeList
  simp only [List.mem_map, List.mem_filter]
  constructor
  · rintro ⟨r, ⟨hr, h1⟩, rfl⟩
    refine ⟨r, hr, ?_⟩
    have : r.e.1 = u := by simpa using h1
    rw [← this]
  · rintro ⟨r, hr, he⟩
    refine ⟨r, ⟨hr, ?_⟩, ?_⟩ <;> simp [he]

theorem mem_preds {s : St} {p v : Node} : p ∈ s.preds v ↔ (p, v) ∈ s.edgeList := by
  unfold preds edgeList
  simp only [List.mem_map, List.mem_filter]
  constructor
  · rintro ⟨r, ⟨hr, h1⟩, rfl⟩
    refine ⟨r, hr, ?_⟩
    have : r.e.2 = v := by simpa using h1
    rw [← this]
  · rintro ⟨r, hr, he⟩
    refine ⟨r, ⟨hr, ?_⟩, ?_⟩ <;> simp [he]

theorem eq_of_length_le_one {α} {l : List α} (h : l.length ≤ 1) {a b : α}
    (ha : a ∈ l) (hb : b ∈ l) : a = b := by
  match l, h with
  | [x], _ => simp at ha hb; rw [ha, hb]
  | [], _ => cases ha

theorem Forest.par_unique {s : St} (hF : s.Forest) {p q c : Node}
    (h1 : (p, c) ∈ s.edgeList) (h2 : (q, c) ∈ s.edgeList) : p = q :=
  eq_of_length_le_one (hF.indeg_le c) (mem_preds.2 h1) (mem_preds.2 h2)

theorem Forest.tm_lt {s : St} (hF : s.Forest) {u v : Node} (h : (u, v) ∈ s.edgeList) :
    s.tm u < s.tm v :=
  hF.forward _ h _ _ (timeOf_of_mem (hF.src_mem _ h)) (timeOf_of_mem (hF.dst_mem _ h))

theorem outdeg_pos {s : St} {u c : Node} (h : (u, c) ∈ s.edgeList) : 1 ≤ s.outdeg u := by
  unfold outdeg
  exact List.length_pos_of_mem (mem_succs.2 h)

theorem child_unique {s : St} {u c c' : Node} (ho : s.outdeg u = 1)
    (h1 : (u, c) ∈ s.edgeList) (h2 : (u, c') ∈ s.edgeList) : c = c' :=
  eq_of_length_le_one (by unfold outdeg at ho; omega) (mem_succs.2 h1) (mem_succs.2 h2)

/-! ## §2 generic theory -/

theorem Conn.mem_left {s : St} {a b : Node} (h : s.Conn a b) : a ∈ s.ids := by
  induction h with
  | refl hn => exact hn
  | down p c _ _ ih => exact ih
  | up p c _ _ ih => exact ih

theorem Conn.trans {s : St} {a b c : Node} (h1 : s.Conn a b) (h2 : s.Conn b c) : s.Conn a c := by
  induction h2 with
  | refl _ => exact h1
  | down p c _ he ih => exact Conn.down _ p c ih he
  | up p c _ he ih => exact Conn.up _ p c ih he

theorem Conn.symm {s : St} (hF : s.Forest) {a b : Node} (h : s.Conn a b) : s.Conn b a := by
  induction h with
  | refl hn => exact Conn.refl _ hn
  | down p c _ he ih =>
    exact Conn.trans (Conn.up c p c (Conn.refl c (hF.dst_mem _ he)) he) ih
  | up p c _ he ih =>
    exact Conn.trans (Conn.down p p c (Conn.refl p (hF.src_mem _ he)) he) ih

theorem Conn.mem_right {s : St} (hF : s.Forest) {a b : Node} (h : s.Conn a b) : b ∈ s.ids :=
  (h.symm hF).mem_left

theorem Anc.conn {s : St} {a b : Node} (ha : a ∈ s.ids) (h : s.Anc a b) : s.Conn a b := by
  induction h with
  | refl => exact Conn.refl _ ha
  | step p c _ he ih => exact Conn.down _ p c ih he

theorem Anc.trans {s : St} {a b c : Node} (h1 : s.Anc a b) (h2 : s.Anc b c) : s.Anc a c := by
  induction h2 with
  | refl => exact h1
  | step p c _ he ih => exact Anc.step _ p c ih he

theorem Anc.tm_le {s : St} (hF : s.Forest) {a b : Node} (h : s.Anc a b) : s.tm a ≤ s.tm b := by
  induction h with
  | refl => exact Nat.le_refl _
  | step p c _ he ih => exact Nat.le_trans ih (Nat.le_of_lt (hF.tm_lt he))

theorem Anc.mem {s : St} (hF : s.Forest) {a b : Node} (ha : a ∈ s.ids) (h : s.Anc a b) :
    b ∈ s.ids := by
  cases h with
  | refl => exact ha
  | step p c _ he => exact hF.dst_mem _ he

/-- head decomposition of `Anc` -/
theorem Anc.head {s : St} {a b : Node} (h : s.Anc a b) :
    a = b ∨ ∃ c, (a, c) ∈ s.edgeList ∧ s.Anc c b := by
  induction h with
  | refl => exact Or.inl rfl
  | step p c _ he ih =>
    rcases ih with rfl | ⟨c', h1, h2⟩
    · exact Or.inr ⟨c, he, Anc.refl c⟩
    · exact Or.inr ⟨c', h1, Anc.step _ p c h2 he⟩

theorem Anc.cons {s : St} {a c b : Node} (he : (a, c) ∈ s.edgeList) (h : s.Anc c b) : s.Anc a b :=
  Anc.trans (Anc.step a a c (Anc.refl a) he) h

/-- tail decomposition -/
theorem Anc.tail {s : St} {a b : Node} (h : s.Anc a b) :
    a = b ∨ ∃ p, s.Anc a p ∧ (p, b) ∈ s.edgeList := by
  cases h with
  | refl => exact Or.inl rfl
  | step p c h he => exact Or.inr ⟨p, h, he⟩

/-- every node has a root ancestor -/
theorem exists_root {s : St} (hF : s.Forest) :
    ∀ t n, n ∈ s.ids → s.tm n = t → ∃ r, s.IsRoot r ∧ s.Anc r n := by
  intro t
  induction t using Nat.strongRecOn with
  | _ t ih =>
    intro n hn ht
    by_cases hp : ∃ p, (p, n) ∈ s.edgeList
    · rcases hp with ⟨p, hp⟩
      have hlt := hF.tm_lt hp
      rcases ih (s.tm p) (by omega) p (hF.src_mem _ hp) rfl with ⟨r, hr, hra⟩
      exact ⟨r, hr, Anc.step _ p n hra hp⟩
    · exact ⟨n, ⟨hn, fun p hpn => hp ⟨p, hpn⟩⟩, Anc.refl n⟩

theorem LinOK.of_conn {s : St} (hL : s.LinOK) {a b : Node} (h : s.Conn a b) :
    s.linOf a = s.linOf b := by
  induction h with
  | refl => rfl
  | down p c _ he ih => rw [ih]; exact (hL.along _ he).symm
  | up p c _ he ih => rw [ih]; exact hL.along _ he

theorem lin_iff_conn {s : St} (hF : s.Forest) (hL : s.LinOK) {a b : Node}
    (ha : a ∈ s.ids) (hb : b ∈ s.ids) : s.linOf a = s.linOf b ↔ s.Conn a b := by
  constructor
  · intro h
    rcases exists_root hF _ a ha rfl with ⟨ra, hra, haa⟩
    rcases exists_root hF _ b hb rfl with ⟨rb, hrb, hbb⟩
    have ca := haa.conn hra.1
    have cb := hbb.conn hrb.1
    have : ra = rb := by
      apply Classical.byContradiction
      intro hne
      apply hL.roots ra rb hra hrb hne
      rw [hL.of_conn ca, hL.of_conn cb, h]
    subst this
    exact (ca.symm hF).trans cb
  · exact hL.of_conn

/-! ### segments -/

/-- the part of a segment at or below a node: downward chain along non-division edges -/
inductive SegDown (s : St) : Node → Node → Prop where
  | refl (n : Node) : SegDown s n n
  | step (a p c : Node) : SegDown s a p → (p, c) ∈ s.edgeList → s.outdeg p = 1 → SegDown s a c

theorem SameSeg.mem_left {s : St} {a b : Node} (h : s.SameSeg a b) : a ∈ s.ids := by
  induction h with
  | refl hn => exact hn
  | down p c _ _ _ ih => exact ih
  | up p c _ _ _ ih => exact ih

theorem SameSeg.trans {s : St} {a b c : Node} (h1 : s.SameSeg a b) (h2 : s.SameSeg b c) :
    s.SameSeg a c := by
  induction h2 with
  | refl _ => exact h1
  | down p c _ he ho ih => exact SameSeg.down _ p c ih he ho
  | up p c _ he ho ih => exact SameSeg.up _ p c ih he ho

theorem SameSeg.symm {s : St} (hF : s.Forest) {a b : Node} (h : s.SameSeg a b) :
    s.SameSeg b a := by
  induction h with
  | refl hn => exact SameSeg.refl _ hn
  | down p c _ he ho ih =>
    exact SameSeg.trans (SameSeg.up c p c (SameSeg.refl c (hF.dst_mem _ he)) he ho) ih
  | up p c _ he ho ih =>
    exact SameSeg.trans (SameSeg.down p p c (SameSeg.refl p (hF.src_mem _ he)) he ho) ih

theorem SameSeg.mem_right {s : St} (hF : s.Forest) {a b : Node} (h : s.SameSeg a b) :
    b ∈ s.ids := (h.symm hF).mem_left

theorem SameSeg.conn {s : St} {a b : Node} (h : s.SameSeg a b) : s.Conn a b := by
  induction h with
  | refl hn => exact Conn.refl _ hn
  | down p c _ he _ ih => exact Conn.down _ p c ih he
  | up p c _ he _ ih => exact Conn.up _ p c ih he

theorem SegDown.sameSeg {s : St} {a b : Node} (ha : a ∈ s.ids) (h : s.SegDown a b) :
    s.SameSeg a b := by
  induction h with
  | refl => exact SameSeg.refl _ ha
  | step p c _ he ho ih => exact SameSeg.down _ p c ih he ho

theorem SegDown.anc {s : St} {a b : Node} (h : s.SegDown a b) : s.Anc a b := by
  induction h with
  | refl => exact Anc.refl _
  | step p c _ he _ ih => exact Anc.step _ p c ih he

theorem SegDown.trans {s : St} {a b c : Node} (h1 : s.SegDown a b) (h2 : s.SegDown b c) :
    s.SegDown a c := by
  induction h2 with
  | refl => exact h1
  | step p c _ he ho ih => exact SegDown.step _ p c ih he ho

/-- head decomposition of `SegDown` -/
theorem SegDown.head {s : St} {a b : Node} (h : s.SegDown a b) :
    a = b ∨ (s.outdeg a = 1 ∧ ∃ c, (a, c) ∈ s.edgeList ∧ s.SegDown c b) := by
  induction h with
  | refl => exact Or.inl rfl
  | step p c _ he ho ih =>
    rcases ih with rfl | ⟨h0, c', h1, h2⟩
    · exact Or.inr ⟨ho, c, he, SegDown.refl c⟩
    · exact Or.inr ⟨h0, c', h1, SegDown.step _ p c h2 he ho⟩

theorem SegDown.tail {s : St} {a b : Node} (h : s.SegDown a b) :
    a = b ∨ ∃ p, s.SegDown a p ∧ (p, b) ∈ s.edgeList ∧ s.outdeg p = 1 := by
  cases h with
  | refl => exact Or.inl rfl
  | step p c h he ho => exact Or.inr ⟨p, h, he, ho⟩

theorem SegDown.cons {s : St} {a c b : Node} (he : (a, c) ∈ s.edgeList) (ho : s.outdeg a = 1)
    (h : s.SegDown c b) : s.SegDown a b :=
  SegDown.trans (SegDown.step a a c (SegDown.refl a) he ho) h

/-- every node has a segment head above it -/
theorem exists_head {s : St} (hF : s.Forest) :
    ∀ t n, n ∈ s.ids → s.tm n = t → ∃ h, s.IsHead h ∧ s.SegDown h n := by
  intro t
  induction t using Nat.strongRecOn with
  | _ t ih =>
    intro n hn ht
    by_cases hp : ∃ p, (p, n) ∈ s.edgeList ∧ s.outdeg p ≠ 2
    · rcases hp with ⟨p, hp, ho⟩
      have hlt := hF.tm_lt hp
      have ho1 : s.outdeg p = 1 := by
        have := outdeg_pos hp
        have := hF.outdeg_le p
        omega
      rcases ih (s.tm p) (by omega) p (hF.src_mem _ hp) rfl with ⟨h, hh, hha⟩
      exact ⟨h, hh, SegDown.step _ p n hha hp ho1⟩
    · refine ⟨n, ⟨hn, fun p hpn => ?_⟩, SegDown.refl n⟩
      apply Classical.byContradiction
      intro hne
      exact hp ⟨p, hpn, hne⟩

theorem TidOK.of_sameSeg {s : St} (hT : s.TidOK) {a b : Node} (h : s.SameSeg a b) :
    s.tidOf a = s.tidOf b := by
  induction h with
  | refl => rfl
  | down p c _ he ho ih => rw [ih]; exact (hT.along _ he ho).symm
  | up p c _ he ho ih => rw [ih]; exact hT.along _ he ho

theorem tid_iff_sameSeg {s : St} (hF : s.Forest) (hT : s.TidOK) {a b : Node}
    (ha : a ∈ s.ids) (hb : b ∈ s.ids) : s.tidOf a = s.tidOf b ↔ s.SameSeg a b := by
  constructor
  · intro h
    rcases exists_head hF _ a ha rfl with ⟨ra, hra, haa⟩
    rcases exists_head hF _ b hb rfl with ⟨rb, hrb, hbb⟩
    have ca := haa.sameSeg hra.1
    have cb := hbb.sameSeg hrb.1
    have : ra = rb := by
      apply Classical.byContradiction
      intro hne
      apply hT.heads ra rb hra hrb hne
      rw [hT.of_sameSeg ca, hT.of_sameSeg cb, h]
    subst this
    exact (ca.symm hF).trans cb
  · exact hT.of_sameSeg

/-- in a forest a node is not a proper descendant of itself -/
theorem Anc.antisymm {s : St} (hF : s.Forest) {a b : Node} (h1 : s.Anc a b) (h2 : s.Anc b a) :
    a = b := by
  rcases h1.tail with h | ⟨p, hp, he⟩
  · exact h
  · have := hp.tm_le hF
    have := hF.tm_lt he
    have := h2.tm_le hF
    omega

theorem IsHead.no_in {s : St} {c p : Node} (h : s.IsHead c) (he : (p, c) ∈ s.edgeList)
    (ho : s.outdeg p = 1) : False := by
  have := h.2 p he; omega

/-- `SameSeg` nodes hang below the same heads -/
theorem SameSeg.head_iff {s : St} (hF : s.Forest) {a b : Node} (h : s.SameSeg a b) :
    ∀ h, s.IsHead h → (s.SegDown h a ↔ s.SegDown h b) := by
  induction h with
  | refl => intro h _; exact Iff.rfl
  | down p c _ he ho ih =>
    intro h hh
    rw [ih h hh]
    constructor
    · intro hd; exact SegDown.step _ p c hd he ho
    · intro hd
      cases hd with
      | refl => exact (hh.no_in he ho).elim
      | step p' _ hd' he' _ => rw [hF.par_unique he he']; exact hd'
  | up p c _ he ho ih =>
    intro h hh
    rw [ih h hh]
    constructor
    · intro hd
      cases hd with
      | refl => exact (hh.no_in he ho).elim
      | step p' _ hd' he' _ => rw [hF.par_unique he he']; exact hd'
    · intro hd; exact SegDown.step _ p c hd he ho

/-- the part of a segment below one of its nodes is a downward chain -/
theorem segDown_iff {s : St} (hF : s.Forest) {a n : Node} (ha : a ∈ s.ids) :
    s.SegDown a n ↔ (s.Anc a n ∧ s.SameSeg a n) := by
  constructor
  · intro h; exact ⟨h.anc, h.sameSeg ha⟩
  · rintro ⟨hanc, hseg⟩
    rcases exists_head hF _ a ha rfl with ⟨h, hh, hha⟩
    have hhn : s.SegDown h n := (hseg.head_iff hF h hh).1 hha
    clear hseg
    induction hanc with
    | refl => exact SegDown.refl _
    | step p c hap he ih =>
      rcases hhn.tail with rfl | ⟨p', hd', he', ho'⟩
      · -- c is the head and an ancestor of a, while a is an ancestor of p → c: cycle
        have h1 : s.Anc h p := hha.anc.trans hap
        have := h1.tm_le hF
        have := hF.tm_lt he
        omega
      · have hpp : p = p' := hF.par_unique he he'
        subst hpp
        exact SegDown.step _ p c (ih hd') he ho'


/-! ## §3 the relabel walk, decoupled: a BFS list and a fold over it -/

/-- what a step of the walk does to everything except the `next` queue -/
structure Core where
  s : St
  flag : Bool
  tN : List Node
  lN : List Node

def WalkAcc.core (a : WalkAcc) : Core := ⟨a.s, a.flag, a.tNodes, a.lNodes⟩

def visit (old new : Nat) (newLin : Option Nat) (updLin : Bool) (c : Core) (n : Node) : Core :=
  let s1 := if updLin then c.s.setLin n newLin else c.s
  let lN := if updLin then c.lN ++ [n] else c.lN
  if c.flag && s1.tidOf n == some old then ⟨s1.setTid n new, true, c.tN ++ [n], lN⟩
  else ⟨s1, false, c.tN, lN⟩

theorem walkNode_core (old new nl ul) (a : WalkAcc) (n : Node) :
    (walkNode old new nl ul a n).core = visit old new nl ul a.core n := by
  unfold walkNode visit WalkAcc.core
  cases a.flag <;> cases ul <;> simp <;> split <;> simp_all

theorem updNode_edges (s : St) (n : Node) (f) : (s.updNode n f).edges = s.edges := rfl
theorem setLin_edges (s : St) (n : Node) (l) : (s.setLin n l).edges = s.edges := rfl
theorem setTid_edges (s : St) (n : Node) (l) : (s.setTid n l).edges = s.edges := rfl

theorem visit_edges (old new nl ul) (c : Core) (n : Node) :
    (visit old new nl ul c n).s.edges = c.s.edges := by
  unfold visit
  cases ul <;> simp <;> split <;> simp [setLin_edges, setTid_edges]

theorem walkNode_next (old new nl ul) (a : WalkAcc) (n : Node) :
    (walkNode old new nl ul a n).next = a.next ++ a.s.succs n := by
  have h := visit_edges old new nl ul a.core n
  rw [← walkNode_core] at h
  have : (walkNode old new nl ul a n).next = a.next ++ (walkNode old new nl ul a n).s.succs n := by
    unfold walkNode; rfl
  rw [this]
  unfold succs
  rw [show (walkNode old new nl ul a n).s.edges = a.s.edges from h]

theorem foldl_visit_edges (old new nl ul) (l : List Node) (c : Core) :
    (l.foldl (visit old new nl ul) c).s.edges = c.s.edges := by
  induction l generalizing c with
  | nil => rfl
  | cons x l ih => rw [List.foldl_cons, ih, visit_edges]

theorem foldl_walkNode (old new nl ul) (l : List Node) (a : WalkAcc) :
    (l.foldl (walkNode old new nl ul) a).core = l.foldl (visit old new nl ul) a.core ∧
    (l.foldl (walkNode old new nl ul) a).next = a.next ++ l.flatMap a.s.succs := by
  induction l generalizing a with
  | nil => simp
  | cons x l ih =>
    rw [List.foldl_cons, List.foldl_cons, List.flatMap_cons]
    rcases ih (walkNode old new nl ul a x) with ⟨h1, h2⟩
    rw [h1, h2, walkNode_core, walkNode_next, List.append_assoc]
    refine ⟨rfl, ?_⟩
    have he : (walkNode old new nl ul a x).s.edges = a.s.edges := by
      have := visit_edges old new nl ul a.core x
      rw [← walkNode_core] at this; exact this
    have : (walkNode old new nl ul a x).s.succs = a.s.succs := by
      funext u; unfold succs; rw [he]
    rw [this]

/-- the BFS order of the walk: level by level -/
def bfs (succ : Node → List Node) : Nat → List Node → List Node
  | 0, _ => []
  | _ + 1, [] => []
  | f + 1, curr => curr ++ bfs succ f (curr.flatMap succ)

theorem walkLevels_core (old new nl ul) (fuel : Nat) (a : WalkAcc) :
    (walkLevels old new nl ul fuel a).core =
      (bfs a.s.succs fuel a.next).foldl (visit old new nl ul) a.core := by
  induction fuel generalizing a with
  | zero => simp [walkLevels, bfs]
  | succ f ih =>
    unfold walkLevels
    cases hn : a.next with
    | nil => simp [bfs]
    | cons x xs =>
      simp only
      rw [ih]
      rcases foldl_walkNode old new nl ul (x :: xs) { a with next := [] } with ⟨h1, h2⟩
      rw [h1, h2]
      have he : ((x :: xs).foldl (walkNode old new nl ul) { a with next := [] }).s.edges = a.s.edges := by
        have := foldl_visit_edges old new nl ul (x :: xs) a.core
        have h1' : ((x :: xs).foldl (walkNode old new nl ul) { a with next := [] }).core.s
            = ((x :: xs).foldl (visit old new nl ul) a.core).s := by rw [h1]; rfl
        show ((x :: xs).foldl (walkNode old new nl ul) { a with next := [] }).core.s.edges = _
        rw [h1']; exact this
      have hs : ((x :: xs).foldl (walkNode old new nl ul) { a with next := [] }).s.succs = a.s.succs := by
        funext u; unfold succs; rw [he]
      rw [hs]
      show _ = (bfs a.s.succs (f + 1) (x :: xs)).foldl _ _
      rw [bfs]
      · rw [List.foldl_append]; simp [WalkAcc.core]
      · intro h; cases h


/-! ### the BFS list in a forest -/

/-- `n` is reached from `a` by exactly `k` edges -/
def Desc (s : St) (a : Node) : Nat → Node → Prop
  | 0, n => n = a
  | k + 1, n => ∃ p, Desc s a k p ∧ (p, n) ∈ s.edgeList

theorem Desc.anc {s : St} {a : Node} : ∀ {k n}, s.Desc a k n → s.Anc a n
  | 0, _, h => by cases h; exact Anc.refl _
  | _ + 1, _, ⟨p, hp, he⟩ => Anc.step _ p _ hp.anc he

theorem Anc.desc {s : St} {a n : Node} (h : s.Anc a n) : ∃ k, s.Desc a k n := by
  induction h with
  | refl => exact ⟨0, rfl⟩
  | step p c _ he ih => rcases ih with ⟨k, hk⟩; exact ⟨k + 1, p, hk, he⟩

theorem Desc.unique {s : St} (hF : s.Forest) {a : Node} :
    ∀ {k j n}, s.Desc a k n → s.Desc a j n → k = j
  | 0, 0, _, _, _ => rfl
  | 0, j + 1, n, h1, ⟨p, hp, he⟩ => by
    cases h1
    have := hp.anc.tm_le hF
    have := hF.tm_lt he
    omega
  | k + 1, 0, n, ⟨p, hp, he⟩, h2 => by
    cases h2
    have := hp.anc.tm_le hF
    have := hF.tm_lt he
    omega
  | k + 1, j + 1, n, ⟨p, hp, he⟩, ⟨q, hq, he'⟩ => by
    have := hF.par_unique he he'
    subst this
    rw [Desc.unique hF hp hq]

theorem Desc.prefix {s : St} {a : Node} : ∀ {k n} d, s.Desc a k n → d ≤ k → ∃ m, s.Desc a d m
  | 0, n, d, h, hd => by
    have : d = 0 := by omega
    subst this; exact ⟨n, h⟩
  | k + 1, n, d, ⟨p, hp, he⟩, hd => by
    by_cases h : d = k + 1
    · subst h; exact ⟨n, p, hp, he⟩
    · exact Desc.prefix d hp (by omega)

theorem filter_length_mono {α} (p q : α → Bool) (hqp : ∀ x, q x = true → p x = true) :
    ∀ (l : List α), (l.filter q).length ≤ (l.filter p).length
  | [] => by simp
  | y :: l => by
    have ih := filter_length_mono p q hqp l
    cases hq : q y
    · cases hp : p y <;> simp [hq, hp] <;> omega
    · simp [hq, hqp y hq]; omega

theorem filter_length_lt {α} (p q : α → Bool) (hqp : ∀ x, q x = true → p x = true)
    (a : α) (hpa : p a = true) (hqa : q a = false) :
    ∀ (l : List α), a ∈ l → (l.filter q).length + 1 ≤ (l.filter p).length
  | [], ha => by cases ha
  | x :: l, ha => by
    have hmono := filter_length_mono p q hqp l
    rcases List.mem_cons.1 ha with rfl | ha'
    · simp [hpa, hqa]; omega
    · have ih := filter_length_lt p q hqp a hpa hqa l ha'
      cases hq : q x
      · cases hp : p x <;> simp [hq, hp] <;> omega
      · simp [hq, hqp x hq]; omega

theorem Desc.bound {s : St} (hF : s.Forest) {a : Node} (ha : a ∈ s.ids) :
    ∀ {k n}, s.Desc a k n →
      n ∈ s.ids ∧ k + 1 ≤ (s.ids.filter (fun x => decide (s.tm x ≤ s.tm n))).length
  | 0, n, h => by
    cases h
    refine ⟨ha, ?_⟩
    have : a ∈ s.ids.filter (fun x => decide (s.tm x ≤ s.tm a)) := by
      simp [List.mem_filter, ha]
    have := List.length_pos_of_mem this
    omega
  | k + 1, n, ⟨p, hp, he⟩ => by
    have hn := hF.dst_mem _ he
    refine ⟨hn, ?_⟩
    have ih := (Desc.bound hF ha hp).2
    have hlt := hF.tm_lt he
    have := filter_length_lt (fun x => decide (s.tm x ≤ s.tm n)) (fun x => decide (s.tm x ≤ s.tm p))
      (by intro x hx; simp at hx ⊢; omega) n (by simp) (by simp; omega) s.ids hn
    omega

theorem Desc.lt_length {s : St} (hF : s.Forest) {a : Node} (ha : a ∈ s.ids) {k n}
    (h : s.Desc a k n) : k < s.nodes.length := by
  have h1 := (h.bound hF ha).2
  have h2 := List.length_filter_le (fun x => decide (s.tm x ≤ s.tm n)) s.ids
  have : s.ids.length = s.nodes.length := by simp [ids]
  omega

theorem succs_nodup_aux (u : Node) : ∀ (es : List EdgeRec), (es.map (·.e)).Nodup →
    ((es.filter (·.e.1 == u)).map (·.e.2)).Nodup
  | [], _ => by simp
  | r :: es, h => by
    rw [List.map_cons, List.nodup_cons] at h
    have ih := succs_nodup_aux u es h.2
    simp only [List.filter_cons]
    split
    · rename_i hu
      rw [List.map_cons, List.nodup_cons]
      refine ⟨?_, ih⟩
      intro hmem
      rcases List.mem_map.1 hmem with ⟨r', hr', h2⟩
      rcases List.mem_filter.1 hr' with ⟨hr'es, hu'⟩
      apply h.1
      refine List.mem_map.2 ⟨r', hr'es, ?_⟩
      have e1 : r'.e.1 = u := by simpa using hu'
      have e2 : r.e.1 = u := by simpa using hu
      exact Prod.ext (by rw [e1, e2]) h2
    · exact ih

theorem Forest.succs_nodup {s : St} (hF : s.Forest) (u : Node) : (s.succs u).Nodup :=
  succs_nodup_aux u s.edges hF.nodup_edges

theorem Forest.flatMap_succs_nodup {s : St} (hF : s.Forest) :
    ∀ (l : List Node), l.Nodup → (l.flatMap s.succs).Nodup
  | [], _ => by simp
  | x :: xs, h => by
    rw [List.nodup_cons] at h
    rw [List.flatMap_cons, List.nodup_append]
    refine ⟨hF.succs_nodup x, hF.flatMap_succs_nodup xs h.2, ?_⟩
    intro c hc c' hc' hcc
    subst hcc
    rcases List.mem_flatMap.1 hc' with ⟨y, hy, hcy⟩
    have := hF.par_unique (mem_succs.1 hc) (mem_succs.1 hcy)
    subst this
    exact h.1 hy

theorem bfs_spec {s : St} (hF : s.Forest) {start : Node} :
    ∀ (f : Nat) (curr : List Node) (d : Nat), curr.Nodup → (∀ m, m ∈ curr ↔ s.Desc start d m) →
      (bfs s.succs f curr).Nodup ∧
      ∀ n, n ∈ bfs s.succs f curr ↔ ∃ k, d ≤ k ∧ k < d + f ∧ s.Desc start k n
  | 0, curr, d, _, _ => by
    refine ⟨by simp [bfs], fun n => ?_⟩
    simp only [bfs, List.not_mem_nil, false_iff]
    rintro ⟨k, h1, h2, _⟩; omega
  | f + 1, [], d, _, hm => by
    refine ⟨by simp [bfs], fun n => ?_⟩
    simp only [bfs, List.not_mem_nil, false_iff]
    rintro ⟨k, h1, _, h3⟩
    rcases h3.prefix d h1 with ⟨m, hm'⟩
    exact List.not_mem_nil ((hm m).2 hm')
  | f + 1, x :: xs, d, hnd, hm => by
    have hnext : ∀ c, c ∈ (x :: xs).flatMap s.succs ↔ s.Desc start (d + 1) c := by
      intro c
      rw [List.mem_flatMap]
      constructor
      · rintro ⟨m, hm1, hm2⟩; exact ⟨m, (hm m).1 hm1, mem_succs.1 hm2⟩
      · rintro ⟨m, hm1, hm2⟩; exact ⟨m, (hm m).2 hm1, mem_succs.2 hm2⟩
    rcases bfs_spec hF f _ (d + 1) (hF.flatMap_succs_nodup _ hnd) hnext with ⟨ih1, ih2⟩
    rw [bfs]
    · refine ⟨?_, fun n => ?_⟩
      · rw [List.nodup_append]
        refine ⟨hnd, ih1, ?_⟩
        intro a ha b hb hab
        subst hab
        rcases (ih2 a).1 hb with ⟨k, hk1, _, hk3⟩
        have := Desc.unique hF ((hm a).1 ha) hk3
        omega
      · rw [List.mem_append, ih2 n, hm n]
        constructor
        · rintro (h | ⟨k, h1, h2, h3⟩)
          · exact ⟨d, Nat.le_refl _, by omega, h⟩
          · exact ⟨k, by omega, by omega, h3⟩
        · rintro ⟨k, h1, h2, h3⟩
          by_cases hk : k = d
          · subst hk; exact Or.inl h3
          · exact Or.inr ⟨k, by omega, by omega, h3⟩
    · intro h; cases h

/-- **the walk visits exactly the descendants-or-self of `start`, each once** -/
theorem bfs_walk {s : St} (hF : s.Forest) {start : Node} (hs : start ∈ s.ids) :
    (bfs s.succs (s.nodes.length + 1) [start]).Nodup ∧
    ∀ n, n ∈ bfs s.succs (s.nodes.length + 1) [start] ↔ s.Anc start n := by
  have h0 : ∀ m, m ∈ [start] ↔ s.Desc start 0 m := by
    intro m; simp only [Desc, List.mem_singleton]
  rcases bfs_spec hF (s.nodes.length + 1) [start] 0 (by simp) h0 with ⟨h1, h2⟩
  refine ⟨h1, fun n => ?_⟩
  rw [h2]
  constructor
  · rintro ⟨k, _, _, h⟩; exact h.anc
  · intro h
    rcases h.desc with ⟨k, hk⟩
    exact ⟨k, Nat.zero_le _, by have := hk.lt_length hF hs; omega, hk⟩


/-! ## §4 effect of the fold on the node attributes -/

theorem find_map_id (g : NodeRec → NodeRec) (hg : ∀ r, (g r).id = r.id) (m : Node) :
    ∀ l : List NodeRec, (l.map g).find? (·.id == m) = (l.find? (·.id == m)).map g
  | [] => rfl
  | r :: l => by
    simp only [List.map_cons, List.find?_cons, hg]
    cases r.id == m
    · simpa using find_map_id g hg m l
    · rfl

theorem findNode_updNode (s : St) (n : Node) (f : NodeRec → NodeRec) (hf : ∀ r, (f r).id = r.id)
    (m : Node) : (s.updNode n f).findNode m =
      (s.findNode m).map (fun r => if r.id == n then f r else r) := by
  unfold findNode updNode
  exact find_map_id _ (by intro r; split <;> simp [hf]) m s.nodes

theorem findNode_setLin (s : St) (n l m) : (s.setLin n l).findNode m =
    (s.findNode m).map (fun r => if r.id == n then { r with lin := l } else r) :=
  findNode_updNode s n (fun r => { r with lin := l }) (fun _ => rfl) m

theorem findNode_setTid (s : St) (n l m) : (s.setTid n l).findNode m =
    (s.findNode m).map (fun r => if r.id == n then { r with tid := l } else r) :=
  findNode_updNode s n (fun r => { r with tid := l }) (fun _ => rfl) m

theorem ids_updNode (s : St) (n : Node) (f : NodeRec → NodeRec) (hf : ∀ r, (f r).id = r.id) :
    (s.updNode n f).ids = s.ids := by
  unfold ids updNode
  simp only [List.map_map]
  apply List.map_congr_left
  intro r _
  simp only [Function.comp]
  split <;> simp [hf]

theorem ids_setLin (s : St) (n l) : (s.setLin n l).ids = s.ids := ids_updNode _ _ _ (fun _ => rfl)
theorem ids_setTid (s : St) (n l) : (s.setTid n l).ids = s.ids := ids_updNode _ _ _ (fun _ => rfl)

theorem timeOf_setLin (s : St) (n l m) : (s.setLin n l).timeOf m = s.timeOf m := by
  unfold timeOf
  rw [findNode_setLin]
  cases s.findNode m with
  | none => rfl
  | some r => simp only [Option.map_some]; split <;> rfl

theorem timeOf_setTid (s : St) (n l m) : (s.setTid n l).timeOf m = s.timeOf m := by
  unfold timeOf
  rw [findNode_setTid]
  cases s.findNode m with
  | none => rfl
  | some r => simp only [Option.map_some]; split <;> rfl

theorem tidOf_setLin (s : St) (n l m) : (s.setLin n l).tidOf m = s.tidOf m := by
  unfold tidOf
  rw [findNode_setLin]
  cases s.findNode m with
  | none => rfl
  | some r => simp only [Option.map_some]; split <;> rfl

theorem linOf_setTid (s : St) (n l m) : (s.setTid n l).linOf m = s.linOf m := by
  unfold linOf
  rw [findNode_setTid]
  cases s.findNode m with
  | none => rfl
  | some r => simp only [Option.map_some, Option.bind_some]; split <;> rfl

theorem linOf_setLin_ne (s : St) (n l) {m} (h : m ≠ n) : (s.setLin n l).linOf m = s.linOf m := by
  unfold linOf
  rw [findNode_setLin]
  cases hf : s.findNode m with
  | none => rfl
  | some r =>
    have := (findNode_id hf).1
    simp only [Option.map_some, Option.bind_some]
    split
    · rename_i h'; exact absurd (by simpa [this] using h') h
    · rfl

theorem linOf_setLin_self (s : St) (n l) (h : n ∈ s.ids) : (s.setLin n l).linOf n = l := by
  unfold linOf
  rw [findNode_setLin]
  rcases mem_ids_iff.1 h with ⟨r, hr⟩
  have := (findNode_id hr).1
  simp [hr, this]

theorem tidOf_setTid_ne (s : St) (n l) {m} (h : m ≠ n) : (s.setTid n l).tidOf m = s.tidOf m := by
  unfold tidOf
  rw [findNode_setTid]
  cases hf : s.findNode m with
  | none => rfl
  | some r =>
    have := (findNode_id hf).1
    simp only [Option.map_some]
    split
    · rename_i h'; exact absurd (by simpa [this] using h') h
    · rfl

theorem tidOf_setTid_self (s : St) (n l) (h : n ∈ s.ids) : (s.setTid n l).tidOf n = some l := by
  unfold tidOf
  rw [findNode_setTid]
  rcases mem_ids_iff.1 h with ⟨r, hr⟩
  have := (findNode_id hr).1
  simp [hr, this]

/-- "same graph": same edges, node ids and times (everything `Forest` and the relations see) -/
structure SameG (s s' : St) : Prop where
  edges : s'.edges = s.edges
  ids : s'.ids = s.ids
  time : ∀ n, s'.timeOf n = s.timeOf n

theorem SameG.rfl' (s : St) : SameG s s := ⟨rfl, rfl, fun _ => rfl⟩

theorem SameG.trans {a b c : St} (h1 : SameG a b) (h2 : SameG b c) : SameG a c :=
  ⟨h2.edges.trans h1.edges, h2.ids.trans h1.ids, fun n => (h2.time n).trans (h1.time n)⟩

theorem SameG.edgeList {s s' : St} (h : SameG s s') : s'.edgeList = s.edgeList := by
  unfold St.edgeList; rw [h.edges]

theorem SameG.outdeg {s s' : St} (h : SameG s s') (u) : s'.outdeg u = s.outdeg u := by
  unfold St.outdeg succs; rw [h.edges]

theorem SameG.indeg {s s' : St} (h : SameG s s') (u) : s'.indeg u = s.indeg u := by
  unfold St.indeg preds; rw [h.edges]

theorem SameG.succs {s s' : St} (h : SameG s s') (u) : s'.succs u = s.succs u := by
  unfold St.succs; rw [h.edges]

theorem SameG.preds {s s' : St} (h : SameG s s') (u) : s'.preds u = s.preds u := by
  unfold St.preds; rw [h.edges]

theorem SameG.forest {s s' : St} (h : SameG s s') (hF : s.Forest) : s'.Forest where
  nodup_nodes := by rw [h.ids]; exact hF.nodup_nodes
  nodup_edges := by rw [h.edgeList]; exact hF.nodup_edges
  src_mem := by rw [h.edgeList, h.ids]; exact hF.src_mem
  dst_mem := by rw [h.edgeList, h.ids]; exact hF.dst_mem
  forward := by
    rw [h.edgeList]; intro e he t1 t2; rw [h.time, h.time]; exact hF.forward e he t1 t2
  indeg_le := by intro v; rw [h.indeg]; exact hF.indeg_le v
  outdeg_le := by intro v; rw [h.outdeg]; exact hF.outdeg_le v

theorem sameG_setLin (s : St) (n l) : SameG s (s.setLin n l) :=
  ⟨rfl, ids_setLin s n l, timeOf_setLin s n l⟩
theorem sameG_setTid (s : St) (n l) : SameG s (s.setTid n l) :=
  ⟨rfl, ids_setTid s n l, timeOf_setTid s n l⟩

theorem visit_sameG (old new nl ul) (c : Core) (n : Node) :
    SameG c.s (visit old new nl ul c n).s := by
  unfold visit
  cases ul <;> simp only [Bool.false_eq_true, if_false, if_true] <;> split
  · exact sameG_setTid _ _ _
  · exact SameG.rfl' _
  · exact (sameG_setLin _ _ _).trans (sameG_setTid _ _ _)
  · exact sameG_setLin _ _ _

theorem foldl_visit_sameG (old new nl ul) (l : List Node) (c : Core) :
    SameG c.s (l.foldl (visit old new nl ul) c).s := by
  induction l generalizing c with
  | nil => exact SameG.rfl' _
  | cons x l ih => rw [List.foldl_cons]; exact (visit_sameG old new nl ul c x).trans (ih _)

/-- lineage written by the fold (`updLin = true`) -/
theorem foldl_visit_lin (old new nl) (l : List Node) (c : Core) :
    let c' := l.foldl (visit old new nl true) c
    c'.lN = c.lN ++ l ∧
    (∀ m, m ∈ l → m ∈ c.s.ids → c'.s.linOf m = nl) ∧
    (∀ m, m ∉ l → c'.s.linOf m = c.s.linOf m) := by
  induction l generalizing c with
  | nil => simp
  | cons x l ih =>
    simp only [List.foldl_cons]
    rcases ih (visit old new nl true c x) with ⟨h1, h2, h3⟩
    have hids : (visit old new nl true c x).s.ids = c.s.ids := (visit_sameG old new nl true c x).ids
    have hlN : (visit old new nl true c x).lN = c.lN ++ [x] := by
      unfold visit; simp only [if_true]; split <;> rfl
    have hx : x ∈ c.s.ids → (visit old new nl true c x).s.linOf x = nl := by
      intro hx
      unfold visit; simp only [if_true]; split
      · rw [linOf_setTid]; exact linOf_setLin_self _ _ _ hx
      · exact linOf_setLin_self _ _ _ hx
    have hne : ∀ m, m ≠ x → (visit old new nl true c x).s.linOf m = c.s.linOf m := by
      intro m hm
      unfold visit; simp only [if_true]; split
      · rw [linOf_setTid]; exact linOf_setLin_ne _ _ _ hm
      · exact linOf_setLin_ne _ _ _ hm
    refine ⟨by rw [h1, hlN]; simp, ?_, ?_⟩
    · intro m hm hmi
      by_cases hml : m ∈ l
      · exact h2 m hml (by rw [hids]; exact hmi)
      · rw [h3 m hml]
        rcases List.mem_cons.1 hm with rfl | hm'
        · exact hx hmi
        · exact absurd hm' hml
    · intro m hm
      rw [List.mem_cons, not_or] at hm
      rw [h3 m hm.2, hne m hm.1]

/-- without lineage update the fold leaves all lineages alone -/
theorem foldl_visit_nolin (old new nl) (l : List Node) (c : Core) :
    let c' := l.foldl (visit old new nl false) c
    c'.lN = c.lN ∧ ∀ m, c'.s.linOf m = c.s.linOf m := by
  induction l generalizing c with
  | nil => simp
  | cons x l ih =>
    simp only [List.foldl_cons]
    rcases ih (visit old new nl false c x) with ⟨h1, h2⟩
    have hlN : (visit old new nl false c x).lN = c.lN := by
      unfold visit; simp only [Bool.false_eq_true, if_false]; split <;> rfl
    have hne : ∀ m, (visit old new nl false c x).s.linOf m = c.s.linOf m := by
      intro m
      unfold visit; simp only [Bool.false_eq_true, if_false]; split
      · rw [linOf_setTid]
      · rfl
    exact ⟨h1.trans hlN, fun m => (h2 m).trans (hne m)⟩

theorem visit_tid_ne (old new nl ul) (c : Core) (x : Node) {m : Node} (h : m ≠ x) :
    (visit old new nl ul c x).s.tidOf m = c.s.tidOf m := by
  unfold visit
  cases ul <;> simp only [Bool.false_eq_true, if_false, if_true] <;> split
  · exact tidOf_setTid_ne _ _ _ h
  · rfl
  · rw [tidOf_setTid_ne _ _ _ h, tidOf_setLin]
  · rw [tidOf_setLin]

/-- once the flag is down the fold changes no track id -/
theorem foldl_visit_flag_false (old new nl ul) (l : List Node) (c : Core) (hf : c.flag = false) :
    let c' := l.foldl (visit old new nl ul) c
    c'.flag = false ∧ c'.tN = c.tN ∧ ∀ m, c'.s.tidOf m = c.s.tidOf m := by
  induction l generalizing c with
  | nil => simp [hf]
  | cons x l ih =>
    simp only [List.foldl_cons]
    have hv : (visit old new nl ul c x).flag = false ∧ (visit old new nl ul c x).tN = c.tN ∧
        ∀ m, (visit old new nl ul c x).s.tidOf m = c.s.tidOf m := by
      unfold visit
      simp only [hf, Bool.false_and, Bool.false_eq_true, if_false]
      refine ⟨by trivial, by trivial, fun m => ?_⟩
      cases ul
      · rfl
      · simp only [if_true]; rw [tidOf_setLin]
    rcases ih _ hv.1 with ⟨h1, h2, h3⟩
    exact ⟨h1, h2.trans hv.2.1, fun m => (h3 m).trans (hv.2.2 m)⟩

/-- track ids written by the fold: the maximal prefix of the list that carries `old` -/
theorem foldl_visit_tid (old new nl ul) (T : Node → Option Nat) (l : List Node) (c : Core)
    (hnd : l.Nodup) (hmem : ∀ m ∈ l, m ∈ c.s.ids) (hT : ∀ m ∈ l, c.s.tidOf m = T m)
    (hf : c.flag = true) :
    let c' := l.foldl (visit old new nl ul) c
    let pre := l.takeWhile (fun m => T m == some old)
    c'.tN = c.tN ++ pre ∧
    (∀ m, m ∈ pre → c'.s.tidOf m = some new) ∧
    (∀ m, m ∉ pre → c'.s.tidOf m = c.s.tidOf m) := by
  induction l generalizing c with
  | nil => simp
  | cons x l ih =>
    simp only [List.foldl_cons]
    rw [List.nodup_cons] at hnd
    have hxT := hT x (List.mem_cons_self)
    have hxi := hmem x (List.mem_cons_self)
    by_cases hP : T x = some old
    · -- x is relabelled, flag stays up
      have hv : (visit old new nl ul c x).flag = true ∧ (visit old new nl ul c x).tN = c.tN ++ [x] ∧
          (visit old new nl ul c x).s.tidOf x = some new := by
        unfold visit
        cases ul <;> simp only [Bool.false_eq_true, if_false, if_true, tidOf_setLin, hxT, hP, hf,
          Bool.true_and, beq_self_eq_true]
        · exact ⟨by trivial, by trivial, tidOf_setTid_self _ _ _ hxi⟩
        · refine ⟨by trivial, by trivial, tidOf_setTid_self _ _ _ ?_⟩
          rw [ids_setLin]; exact hxi
      have hids := (visit_sameG old new nl ul c x).ids
      rcases ih (visit old new nl ul c x) hnd.2
        (by intro m hm; rw [hids]; exact hmem m (List.mem_cons_of_mem _ hm))
        (by intro m hm
            have : m ≠ x := by intro h; subst h; exact hnd.1 hm
            rw [visit_tid_ne _ _ _ _ _ _ this]; exact hT m (List.mem_cons_of_mem _ hm))
        hv.1 with ⟨h1, h2, h3⟩
      have hpre : (x :: l).takeWhile (fun m => T m == some old)
          = x :: l.takeWhile (fun m => T m == some old) := by
        simp [hP]
      simp only [hpre]
      refine ⟨by rw [h1, hv.2.1]; simp, ?_, ?_⟩
      · intro m hm
        by_cases hml : m ∈ l.takeWhile (fun m => T m == some old)
        · exact h2 m hml
        · rw [h3 m hml]
          rcases List.mem_cons.1 hm with rfl | hm'
          · exact hv.2.2
          · exact absurd hm' hml
      · intro m hm
        rw [List.mem_cons, not_or] at hm
        rw [h3 m hm.2, visit_tid_ne _ _ _ _ _ _ hm.1]
    · -- flag goes down at x
      have hv : (visit old new nl ul c x).flag = false ∧ (visit old new nl ul c x).tN = c.tN ∧
          ∀ m, (visit old new nl ul c x).s.tidOf m = c.s.tidOf m := by
        unfold visit
        cases ul <;> simp only [Bool.false_eq_true, if_false, if_true, tidOf_setLin, hxT, hf,
          Bool.true_and, beq_iff_eq, hP]
        · exact ⟨by trivial, by trivial, fun _ => by trivial⟩
        · exact ⟨by trivial, by trivial, fun m => by trivial⟩
      rcases foldl_visit_flag_false old new nl ul l _ hv.1 with ⟨_, h2, h3⟩
      have hpre : (x :: l).takeWhile (fun m => T m == some old) = [] := by
        simp [hP]
      simp only [hpre]
      refine ⟨by rw [h2, hv.2.1]; simp, ?_, ?_⟩
      · intro m hm; cases hm
      · intro m _
        rw [h3 m, hv.2.2 m]


/-! ### the walk as a whole -/

theorem linOf_congr {s s' : St} (h : s'.nodes = s.nodes) (n) : s'.linOf n = s.linOf n := by
  unfold linOf findNode; rw [h]
theorem tidOf_congr {s s' : St} (h : s'.nodes = s.nodes) (n) : s'.tidOf n = s.tidOf n := by
  unfold tidOf findNode; rw [h]
theorem timeOf_congr {s s' : St} (h : s'.nodes = s.nodes) (n) : s'.timeOf n = s.timeOf n := by
  unfold timeOf findNode; rw [h]
theorem sameG_of_nodes_edges {s s' : St} (h : s'.nodes = s.nodes) (he : s'.edges = s.edges) :
    SameG s s' := ⟨he, by unfold ids; rw [h], timeOf_congr h⟩

/-- the fields the walk's fold never touches -/
structure SameRest (s s' : St) : Prop where
  linOn : s'.linOn = s.linOn
  maxLin : s'.maxLin = s.maxLin
  maxTid : s'.maxTid = s.maxTid

theorem visit_rest (old new nl ul) (c : Core) (n : Node) :
    SameRest c.s (visit old new nl ul c n).s := by
  unfold visit
  cases ul <;> simp only [Bool.false_eq_true, if_false, if_true] <;> split <;>
    exact ⟨rfl, rfl, rfl⟩

theorem foldl_visit_rest (old new nl ul) (l : List Node) (c : Core) :
    SameRest c.s (l.foldl (visit old new nl ul) c).s := by
  induction l generalizing c with
  | nil => exact ⟨rfl, rfl, rfl⟩
  | cons x l ih =>
    rw [List.foldl_cons]
    have h1 := visit_rest old new nl ul c x
    have h2 := ih (visit old new nl ul c x)
    exact ⟨h2.linOn.trans h1.linOn, h2.maxLin.trans h1.maxLin, h2.maxTid.trans h1.maxTid⟩

/-- the result of the fold of the walk -/
def walkCore (s : St) (start : Node) (oldT newT : Nat) (newL : Option Nat) : Core :=
  (bfs s.succs (s.nodes.length + 1) [start]).foldl
    (visit oldT newT newL (newL.isSome && s.linOn)) ⟨s, true, [], []⟩

/-- the bookkeeping tail of `walk`, applied to the result of the fold -/
def walkFin (s : St) (oldT newT : Nat) (oldL newL : Option Nat) (c : Core) : St :=
  let s1 := c.s.bookMoveT c.tN oldT newT
  match newL.isSome && s.linOn, newL with
  | true, some nl => s1.bookMoveL c.lN oldL nl
  | _, _ => s1

theorem walk_eq (s : St) (start : Node) (oldT newT : Nat) (oldL newL : Option Nat) :
    s.walk start oldT newT oldL newL =
      walkFin s oldT newT oldL newL (s.walkCore start oldT newT newL) := by
  have h := walkLevels_core oldT newT newL (newL.isSome && s.linOn) (s.nodes.length + 1)
    { s := s, flag := true, tNodes := [], lNodes := [], next := [start] }
  have h0 : s.walk start oldT newT oldL newL = walkFin s oldT newT oldL newL
      (walkLevels oldT newT newL (newL.isSome && s.linOn) (s.nodes.length + 1)
        { s := s, flag := true, tNodes := [], lNodes := [], next := [start] }).core := rfl
  rw [h0, h]; rfl

theorem bookMoveT_nodes (s : St) (l o n) : (s.bookMoveT l o n).nodes = s.nodes := rfl
theorem bookMoveT_edges (s : St) (l o n) : (s.bookMoveT l o n).edges = s.edges := rfl
theorem bookMoveT_linOn (s : St) (l o n) : (s.bookMoveT l o n).linOn = s.linOn := rfl
theorem bookMoveT_maxLin (s : St) (l o n) : (s.bookMoveT l o n).maxLin = s.maxLin := rfl
theorem bookMoveT_maxTid (s : St) (l o n) :
    (s.bookMoveT l o n).maxTid = if n > s.maxTid then n else s.maxTid := rfl
theorem bookMoveL_nodes (s : St) (l o n) : (s.bookMoveL l o n).nodes = s.nodes := by
  cases o <;> rfl
theorem bookMoveL_edges (s : St) (l o n) : (s.bookMoveL l o n).edges = s.edges := by
  cases o <;> rfl
theorem bookMoveL_linOn (s : St) (l o n) : (s.bookMoveL l o n).linOn = s.linOn := by
  cases o <;> rfl
theorem bookMoveL_maxTid (s : St) (l o n) : (s.bookMoveL l o n).maxTid = s.maxTid := by
  cases o <;> rfl
theorem bookMoveL_maxLin (s : St) (l o n) :
    (s.bookMoveL l o n).maxLin = if n > s.maxLin then n else s.maxLin := by
  cases o <;> rfl

theorem walkFin_basic (s : St) (oldT newT : Nat) (oldL newL : Option Nat) (c : Core) :
    (walkFin s oldT newT oldL newL c).nodes = c.s.nodes ∧
    (walkFin s oldT newT oldL newL c).edges = c.s.edges ∧
    (walkFin s oldT newT oldL newL c).linOn = c.s.linOn ∧
    (walkFin s oldT newT oldL newL c).maxTid = (if newT > c.s.maxTid then newT else c.s.maxTid) := by
  unfold walkFin
  simp only
  split
  · simp only [bookMoveL_nodes, bookMoveL_edges, bookMoveL_linOn, bookMoveL_maxTid,
      bookMoveT_nodes, bookMoveT_edges, bookMoveT_linOn, bookMoveT_maxTid]
    exact ⟨trivial, trivial, trivial, trivial⟩
  · simp only [bookMoveT_nodes, bookMoveT_edges, bookMoveT_linOn, bookMoveT_maxTid]
    exact ⟨trivial, trivial, trivial, trivial⟩

theorem walkCore_sameG (s : St) (start : Node) (oldT newT : Nat) (newL : Option Nat) :
    SameG s (s.walkCore start oldT newT newL).s :=
  foldl_visit_sameG oldT newT newL _ _ ⟨s, true, [], []⟩

theorem walkCore_rest (s : St) (start : Node) (oldT newT : Nat) (newL : Option Nat) :
    SameRest s (s.walkCore start oldT newT newL).s :=
  foldl_visit_rest oldT newT newL _ _ ⟨s, true, [], []⟩

theorem walk_nodes_edges (s : St) (start : Node) (oldT newT : Nat) (oldL newL : Option Nat) :
    (s.walk start oldT newT oldL newL).nodes = (s.walkCore start oldT newT newL).s.nodes ∧
    (s.walk start oldT newT oldL newL).edges = s.edges := by
  rw [walk_eq]
  have h := walkFin_basic s oldT newT oldL newL (s.walkCore start oldT newT newL)
  exact ⟨h.1, h.2.1.trans (walkCore_sameG s start oldT newT newL).edges⟩

theorem walk_sameG (s : St) (start : Node) (oldT newT : Nat) (oldL newL : Option Nat) :
    SameG s (s.walk start oldT newT oldL newL) := by
  have h := walk_nodes_edges s start oldT newT oldL newL
  have h1 : SameG (s.walkCore start oldT newT newL).s (s.walk start oldT newT oldL newL) :=
    ⟨by rw [h.2]; exact (walkCore_sameG s start oldT newT newL).edges.symm,
     by unfold ids; rw [h.1], timeOf_congr h.1⟩
  exact (walkCore_sameG s start oldT newT newL).trans h1

theorem walk_linOn (s : St) (start : Node) (oldT newT : Nat) (oldL newL : Option Nat) :
    (s.walk start oldT newT oldL newL).linOn = s.linOn := by
  rw [walk_eq]
  exact (walkFin_basic s oldT newT oldL newL _).2.2.1.trans (walkCore_rest s start oldT newT newL).linOn

theorem walk_maxTid (s : St) (start : Node) (oldT newT : Nat) (oldL newL : Option Nat) :
    (s.walk start oldT newT oldL newL).maxTid = if newT > s.maxTid then newT else s.maxTid := by
  rw [walk_eq, (walkFin_basic s oldT newT oldL newL _).2.2.2, (walkCore_rest s start oldT newT newL).maxTid]

theorem walkFin_maxLin_some (s : St) (hon : s.linOn = true) (oldT newT : Nat) (oldL : Option Nat)
    (l : Nat) (c : Core) :
    (walkFin s oldT newT oldL (some l) c).maxLin = if l > c.s.maxLin then l else c.s.maxLin := by
  unfold walkFin
  simp only [Option.isSome_some, hon, Bool.and_self]
  rw [bookMoveL_maxLin, bookMoveT_maxLin]

theorem walkFin_maxLin_none (s : St) (oldT newT : Nat) (oldL : Option Nat) (c : Core) :
    (walkFin s oldT newT oldL none c).maxLin = c.s.maxLin := by
  unfold walkFin
  simp only [Option.isSome_none, Bool.false_and]
  rfl

/-- **lineage effect of the walk** (lineage feature on, a new lineage given): the lineage is
    written on exactly the descendants-or-self of `start` -/
theorem walk_lin {s : St} (hF : s.Forest) {start : Node} (hs : start ∈ s.ids)
    (hon : s.linOn = true) (oldT newT : Nat) (oldL : Option Nat) (l : Nat) :
    (∀ n, s.Anc start n → (s.walk start oldT newT oldL (some l)).linOf n = some l) ∧
    (∀ n, ¬ s.Anc start n → (s.walk start oldT newT oldL (some l)).linOf n = s.linOf n) ∧
    (s.walk start oldT newT oldL (some l)).maxLin = (if l > s.maxLin then l else s.maxLin) := by
  have hn := (walk_nodes_edges s start oldT newT oldL (some l)).1
  have hb := bfs_walk hF hs
  have hl := foldl_visit_lin oldT newT (some l) (bfs s.succs (s.nodes.length + 1) [start])
    ⟨s, true, [], []⟩
  have hcore : s.walkCore start oldT newT (some l) =
      (bfs s.succs (s.nodes.length + 1) [start]).foldl (visit oldT newT (some l) true)
        ⟨s, true, [], []⟩ := by
    unfold walkCore; simp [hon]
  refine ⟨?_, ?_, ?_⟩
  · intro n hn'
    rw [linOf_congr hn, hcore]
    exact hl.2.1 n ((hb.2 n).2 hn') (hn'.mem hF hs)
  · intro n hn'
    rw [linOf_congr hn, hcore]
    exact hl.2.2 n (fun h => hn' ((hb.2 n).1 h))
  · rw [walk_eq, walkFin_maxLin_some s hon, (walkCore_rest s start oldT newT (some l)).maxLin]

/-- without a new lineage the walk leaves lineages and the lineage maximum alone -/
theorem walk_nolin (s : St) (start : Node) (oldT newT : Nat) (oldL : Option Nat) :
    (∀ n, (s.walk start oldT newT oldL none).linOf n = s.linOf n) ∧
    (s.walk start oldT newT oldL none).maxLin = s.maxLin := by
  have hn := (walk_nodes_edges s start oldT newT oldL none).1
  have hl := foldl_visit_nolin oldT newT none (bfs s.succs (s.nodes.length + 1) [start])
    ⟨s, true, [], []⟩
  have hcore : s.walkCore start oldT newT none =
      (bfs s.succs (s.nodes.length + 1) [start]).foldl (visit oldT newT none false)
        ⟨s, true, [], []⟩ := by
    unfold walkCore; simp
  refine ⟨fun n => ?_, ?_⟩
  · rw [linOf_congr hn, hcore]; exact hl.2 n
  · rw [walk_eq, walkFin_maxLin_none, (walkCore_rest s start oldT newT none).maxLin]


/-! ## §5 the user actions -/

theorem Anc.congr {s s' : St} (h : s'.edgeList = s.edgeList) {a b : Node} :
    s'.Anc a b ↔ s.Anc a b := by
  constructor
  · intro hab
    induction hab with
    | refl => exact Anc.refl _
    | step p c _ he ih => exact Anc.step _ p c ih (h ▸ he)
  · intro hab
    induction hab with
    | refl => exact Anc.refl _
    | step p c _ he ih => exact Anc.step _ p c ih (h ▸ he)

theorem Anc.mono {s s' : St} (h : ∀ x, x ∈ s'.edgeList → x ∈ s.edgeList) {a b : Node}
    (hab : s'.Anc a b) : s.Anc a b := by
  induction hab with
  | refl => exact Anc.refl _
  | step p c _ he ih => exact Anc.step _ p c ih (h _ he)

theorem SegDown.congr {s s' : St} (h : SameG s s') {a b : Node} :
    s'.SegDown a b ↔ s.SegDown a b := by
  constructor
  · intro hab
    induction hab with
    | refl => exact SegDown.refl _
    | step p c _ he ho ih => exact SegDown.step _ p c ih (h.edgeList ▸ he) (h.outdeg p ▸ ho)
  · intro hab
    induction hab with
    | refl => exact SegDown.refl _
    | step p c _ he ho ih =>
      exact SegDown.step _ p c ih (h.edgeList.symm ▸ he) ((h.outdeg p).symm ▸ ho)

/-- the graph with one edge removed (what `pDelEdge` produces) -/
def delE (s : St) (e : Edge) : St := { s with edges := s.edges.filter (·.e != e) }

theorem delE_nodes (s : St) (e) : (s.delE e).nodes = s.nodes := rfl
theorem delE_ids (s : St) (e) : (s.delE e).ids = s.ids := rfl
theorem delE_linOf (s : St) (e n) : (s.delE e).linOf n = s.linOf n := rfl
theorem delE_tidOf (s : St) (e n) : (s.delE e).tidOf n = s.tidOf n := rfl
theorem delE_timeOf (s : St) (e n) : (s.delE e).timeOf n = s.timeOf n := rfl

theorem delE_edgeList (s : St) (e) : (s.delE e).edgeList = s.edgeList.filter (· != e) := by
  unfold delE edgeList
  simp only [List.filter_map]
  rfl

theorem mem_delE {s : St} {e x : Edge} : x ∈ (s.delE e).edgeList ↔ (x ∈ s.edgeList ∧ x ≠ e) := by
  rw [delE_edgeList, List.mem_filter]; simp

theorem delE_succs_sublist (s : St) (e u) : List.Sublist ((s.delE e).succs u) (s.succs u) := by
  unfold succs delE
  simp only
  apply List.Sublist.map
  apply List.Sublist.filter
  exact List.filter_sublist

theorem delE_preds_sublist (s : St) (e u) : List.Sublist ((s.delE e).preds u) (s.preds u) := by
  unfold preds delE
  simp only
  apply List.Sublist.map
  apply List.Sublist.filter
  exact List.filter_sublist

theorem Forest.delE {s : St} (hF : s.Forest) (e : Edge) : (s.delE e).Forest where
  nodup_nodes := hF.nodup_nodes
  nodup_edges := by rw [delE_edgeList]; exact hF.nodup_edges.filter _
  src_mem := by intro x hx; exact hF.src_mem x (mem_delE.1 hx).1
  dst_mem := by intro x hx; exact hF.dst_mem x (mem_delE.1 hx).1
  forward := by intro x hx; exact hF.forward x (mem_delE.1 hx).1
  indeg_le := by
    intro v; exact Nat.le_trans (delE_preds_sublist s e v).length_le (hF.indeg_le v)
  outdeg_le := by
    intro v; exact Nat.le_trans (delE_succs_sublist s e v).length_le (hF.outdeg_le v)

theorem thenPrim_ok {acc : UOut} {f : St → Except Err (St × PrimRec)} {recs}
    (h : (thenPrim acc f).2 = .ok recs) :
    ∃ recs0 s' r, acc.2 = .ok recs0 ∧ f acc.1 = .ok (s', r) ∧ (thenPrim acc f).1 = s' := by
  unfold thenPrim at h ⊢
  cases h2 : acc.2 with
  | error e => simp [h2] at h
  | ok recs0 =>
    cases hf : f acc.1 with
    | error e => simp [h2, hf] at h
    | ok p =>
      obtain ⟨s', r⟩ := p
      exact ⟨recs0, s', r, rfl, rfl, by simp⟩

theorem pUpdTid_ok {s : St} {start nT nL s' r} (h : s.pUpdTid start nT nL = .ok (s', r)) :
    ∃ rec, s.findNode start = some rec ∧ s' = s.walk start rec.tid nT rec.lin nL := by
  unfold pUpdTid at h
  cases hf : s.findNode start with
  | none => simp [hf] at h
  | some rec =>
    simp [hf] at h
    exact ⟨rec, rfl, h.1.symm⟩

theorem hasEdge_iff {s : St} {e : Edge} : s.hasEdge e = true ↔ e ∈ s.edgeList := by
  unfold hasEdge edgeList
  rw [List.any_eq_true, List.mem_map]
  constructor
  · rintro ⟨r, hr, h⟩; exact ⟨r, hr, by simpa using h⟩
  · rintro ⟨r, hr, h⟩; exact ⟨r, hr, by simpa using h⟩

theorem hasEdge_findEdge {s : St} {e : Edge} (h : s.hasEdge e = true) :
    ∃ r, s.findEdge e = some r := by
  unfold hasEdge at h
  unfold findEdge
  rcases List.any_eq_true.1 h with ⟨r, hr, hre⟩
  cases hf : s.edges.find? (·.e == e) with
  | some r' => exact ⟨r', rfl⟩
  | none => have := List.find?_eq_none.1 hf r hr; simp [hre] at this

theorem pDelEdge_ok {s : St} {e : Edge} (h : s.hasEdge e = true) :
    ∃ r, s.pDelEdge e = .ok (s.delE e, r) := by
  rcases hasEdge_findEdge h with ⟨r, hr⟩
  unfold pDelEdge
  simp [hr, delE]

theorem uDeleteEdge_eq {s : St} {e : Edge} (hE : s.hasEdge e = true) :
    ∃ r1, s.uDeleteEdge e =
      (let a : UOut := (s.delE e, .ok [r1])
       if (s.delE e).outdeg e.1 == 0 then
         thenPrim a (fun st => st.pUpdTid e.2 st.nextTid (some st.nextLin))
       else if (s.delE e).outdeg e.1 == 1 then
         match ((s.delE e).succs e.1).head? with
         | none => ((s.delE e), .error .other)
         | some sib =>
           let a1 := thenPrim a (fun st => match st.tidOf e.1 with
             | some t => st.pUpdTid sib t none
             | none => .error .key)
           thenPrim a1 (fun st => match st.tidOf e.2 with
             | some t => st.pUpdTid e.2 t (some st.nextLin)
             | none => .error .key)
       else ((s.delE e), .error .invalid)) := by
  rcases pDelEdge_ok hE with ⟨r, hr⟩
  refine ⟨r, ?_⟩
  unfold uDeleteEdge
  simp only [hE, Bool.not_true, Bool.false_eq_true, if_false]
  have : thenPrim (s, Except.ok []) (fun st => st.pDelEdge e) = (s.delE e, .ok [r]) := by
    simp [thenPrim, hr]
  rw [this]
  rfl

theorem uDeleteEdge_hasEdge {s : St} {e : Edge} {recs} (hok : (s.uDeleteEdge e).2 = .ok recs) :
    s.hasEdge e = true := by
  cases h : s.hasEdge e with
  | true => rfl
  | false => unfold uDeleteEdge at hok; simp [h] at hok

/-- the shape of an accepted `uDeleteEdge`: edge removed, then either one walk from the target
    (fresh track id, fresh lineage) or a walk from the sibling (no lineage) and a walk from the
    target (its own track id, fresh lineage) -/
theorem uDeleteEdge_shape {s : St} {e : Edge} {recs} (hok : (s.uDeleteEdge e).2 = .ok recs) :
    (∃ r, (s.delE e).outdeg e.1 = 0 ∧ (s.delE e).findNode e.2 = some r ∧
        (s.uDeleteEdge e).1 =
          (s.delE e).walk e.2 r.tid (s.delE e).nextTid r.lin (some (s.delE e).nextLin)) ∨
    (∃ sib t rs t2 r2, (s.delE e).outdeg e.1 = 1 ∧ ((s.delE e).succs e.1).head? = some sib ∧
        (s.delE e).tidOf e.1 = some t ∧ (s.delE e).findNode sib = some rs ∧
        ((s.delE e).walk sib rs.tid t rs.lin none).tidOf e.2 = some t2 ∧
        ((s.delE e).walk sib rs.tid t rs.lin none).findNode e.2 = some r2 ∧
        (s.uDeleteEdge e).1 =
          ((s.delE e).walk sib rs.tid t rs.lin none).walk e.2 r2.tid t2 r2.lin
            (some ((s.delE e).walk sib rs.tid t rs.lin none).nextLin)) := by
  have hE := uDeleteEdge_hasEdge hok
  rcases uDeleteEdge_eq hE with ⟨r1, heq⟩
  rw [heq] at hok ⊢
  simp only at hok ⊢
  by_cases h0 : (s.delE e).outdeg e.1 = 0
  · simp only [h0, beq_self_eq_true, if_true] at hok ⊢
    rcases thenPrim_ok hok with ⟨_, s', r, _, hf, hs'⟩
    rcases pUpdTid_ok hf with ⟨rec, hrec, hw⟩
    exact Or.inl ⟨rec, trivial, hrec, by rw [hs', hw]⟩
  · by_cases h1 : (s.delE e).outdeg e.1 = 1
    · have hb0 : ((s.delE e).outdeg e.1 == 0) = false := by simp [h0]
      simp only [hb0, Bool.false_eq_true, if_false] at hok ⊢
      simp only [h1, beq_self_eq_true, if_true] at hok ⊢
      cases hh : ((s.delE e).succs e.1).head? with
      | none => simp [hh] at hok
      | some sib =>
        simp only [hh] at hok ⊢
        rcases thenPrim_ok hok with ⟨_, s', r, ha1, hf, hs'⟩
        rcases thenPrim_ok ha1 with ⟨_, s2, r', _, hf1, hs2⟩
        simp only at hf1
        rw [hs2] at hf
        cases ht : (s.delE e).tidOf e.1 with
        | none => simp [ht] at hf1
        | some t =>
          simp only [ht] at hf1
          rcases pUpdTid_ok hf1 with ⟨rs, hrs, hw2⟩
          cases ht2 : s2.tidOf e.2 with
          | none => simp [ht2] at hf
          | some t2 =>
            simp only [ht2] at hf
            rcases pUpdTid_ok hf with ⟨r2, hr2, hw⟩
            subst hw2
            exact Or.inr ⟨sib, t, rs, t2, r2, trivial, rfl, rfl, hrs, ht2, hr2, by rw [hs', hw]⟩
    · have hb0 : ((s.delE e).outdeg e.1 == 0) = false := by simp [h0]
      have hb1 : ((s.delE e).outdeg e.1 == 1) = false := by simp [h1]
      simp [hb0, hb1] at hok

end St
end Ft
