/-
  FtProofs.R5BShapeLemmas — package R5B, part B6: the SHAPE of the label array (pixels per frame,
  total length; `none` without array) is a constant of every run: no operation — edit, paint
  protocol, undo, redo, feature switch, query; accepted, refused or raising — changes it.
  Consequences: "whole frames" (`Seg.WF`) and "no array" are properties of the start state.
-/
import FtProofs.R5BStepLemmas
namespace Ft.R5B
open Ft Ft.St List

def segShape (g : Seg) : Nat × Nat := (g.frame, g.data.length)

/-- pixels per frame and total length of the array (`none` without array) -/
def shape (s : St) : Option (Nat × Nat) := s.seg.map segShape

theorem shape_of_seg {s t : St} (h : t.seg = s.seg) : shape t = shape s := by unfold shape; rw [h]

theorem segShape_setPixels (g : Seg) (ps : List Pix) (v : Nat) : segShape (g.setPixels ps v) = segShape g := by
  unfold segShape
  rw [Seg.setPixels_length]
  rfl

theorem shape_paintWith (s : St) (px : Option (List Pix)) (v : Nat) : shape (s.paintWith px v) = shape s := by
  unfold paintWith
  cases px with
  | none => rfl
  | some p =>
    cases hg : s.seg with
    | none => rfl
    | some g =>
      simp only
      show some (segShape (g.setPixels p v)) = shape s
      rw [segShape_setPixels]; unfold shape; rw [hg]; rfl

theorem closedShape (c : Option (Nat × Nat)) : PrimClosed (fun st => shape st = c) (fun _ => True) where
  recQ := fun _ => trivial
  qnil := trivial
  addNode := by
    intro s s' r px rec hI _ h
    obtain ⟨-, -, hs⟩ := pAddNode_ok_sg h
    refine ⟨?_, trivial⟩
    rw [hs, shape_of_seg (Fr.trackAdd _ _).seg, shape_of_seg (rpUpdate_seg _ _), shape_of_seg (addNodeRaw_seg' _ _),
      shape_paintWith]
    exact hI
  delNode := by
    intro s s' n px rec hI h
    obtain ⟨r, -, -, hs⟩ := pDelNode_ok_sg h
    refine ⟨?_, trivial⟩
    rw [hs, shape_of_seg (Fr.trackOnDelete _ _).seg]
    show shape (s.paintWith _ 0) = c
    rw [shape_paintWith]; exact hI
  addEdge := by
    intro s s' e at_ rec hI h
    obtain ⟨-, -, -, hs⟩ := pAddEdge_ok_sg h
    refine ⟨?_, trivial⟩
    rw [hs, shape_of_seg (iouUpdateEdge_seg _ _), shape_of_seg (addEdgeRaw_seg _ _ _)]; exact hI
  delEdge := by
    intro s s' e rec hI h
    refine ⟨?_, trivial⟩
    rw [pDelEdge_ok_sg h]; exact hI
  updTid := by
    intro s s' n t l rec hI h
    exact ⟨by rw [shape_of_seg (Fr.pUpdTid h).seg]; exact hI, trivial⟩
  updSeg := by
    intro s s' n px b rec hI h
    obtain ⟨g, hg, -, -, hs⟩ := pUpdSeg_ok_sg h
    refine ⟨?_, trivial⟩
    rw [hs, shape_of_seg (iouUpdateNode_seg _ _), shape_of_seg (rpUpdate_seg _ _)]
    show some (segShape (g.setPixels px _)) = c
    rw [segShape_setPixels, ← hI]; unfold shape; rw [hg]; rfl
  updAttrs := by
    intro s s' n at_ rec hI h
    exact ⟨by rw [shape_of_seg (R2G.Fs.pUpdAttrs h).seg]; exact hI, trivial⟩
  nbrs := by
    intro s tid time hI
    rw [shape_of_seg (Fr.trackNeighbors s tid time).seg]; exact hI

theorem shape_commit (r : UOut) (p : Option Node) : shape (commit r p).1 = shape r.1 := by
  unfold commit; split <;> rfl

/-- **no operation changes the shape of the array** -/
theorem shape_step (s : St) (op : Op) : shape (s.step op).1 = shape s := by
  have C := closedShape (shape s)
  have hI : (fun st => shape st = shape s) s := rfl
  cases op with
  | addEdge e f => exact (shape_commit _ _).trans (Pz.uAddEdge C hI e f).1
  | delEdge e => exact (shape_commit _ _).trans (Pz.uDeleteEdge C hI e).1
  | addNode a => exact (shape_commit _ _).trans (Pz.uAddNode C hI a trivial).1
  | delNode n => exact (shape_commit _ _).trans (Pz.uDeleteNode C hI n none).1
  | swap a b => exact (shape_commit _ _).trans (Pz.uSwap C hI a b).1
  | updAttrs n at_ => exact (shape_commit _ _).trans (Pz.uUpdateAttrs C hI n at_).1
  | paint v groups tid f =>
    rw [step_paint_eq]
    cases hg : s.seg with
    | none => rfl
    | some g =>
      simp only
      have hp : shape (painted s g v groups) = shape s := by
        show some (segShape (g.setPixels _ v)) = shape s
        rw [segShape_setPixels]; unfold shape; rw [hg]; rfl
      have hz := Pz.uUpdateSeg (closedShape (shape s)) (s := painted s g v groups) hp v groups tid f
      generalize (painted s g v groups).uUpdateSeg v groups tid f = out at hz
      unfold paintFin
      rcases out with ⟨⟨r1, r2⟩, sel⟩
      cases r2 with
      | ok recs => exact (shape_commit _ _).trans hz.1
      | error e =>
        simp only
        have h1 : shape r1 = shape s := hz.1
        cases hs : r1.seg with
        | none => exact h1
        | some g' =>
          show some (segShape (groups.foldl (fun (acc : Seg) (grp : List Pix × Nat) => acc.setPixels grp.1 grp.2) g')) = shape s
          have : ∀ (l : List (List Pix × Nat)) (a : Seg),
              segShape (l.foldl (fun (acc : Seg) (grp : List Pix × Nat) => acc.setPixels grp.1 grp.2) a) = segShape a := by
            intro l
            induction l with
            | nil => intro a; rfl
            | cons x l ih => intro a; rw [foldl_cons, ih, segShape_setPixels]
          rw [this, ← h1]; unfold shape; rw [hs]; rfl
  | undo =>
    by_cases hle : s.hist.undo.length ≤ s.hist.redo.length
    · rw [step_undo_none s hle]
    · have hlt : s.hist.redo.length < s.hist.undo.length := by omega
      have hidx : s.hist.undo.length - s.hist.redo.length - 1 < s.hist.undo.length := by omega
      have ha := List.getElem?_eq_getElem hidx
      generalize s.hist.undo[s.hist.undo.length - s.hist.redo.length - 1] = a at ha
      have hz := Pz.invGroup C hI a (fun _ _ => trivial)
      cases hg : (s.invGroup a).2 with
      | ok r => rw [step_undo_ok s a r hlt ha hg]; exact hz.1
      | error e => rw [step_undo_err s a e hlt ha hg]; exact hz.1
  | redo =>
    rcases List.eq_nil_or_concat s.hist.redo with hnil | ⟨rs, a, hcat⟩
    · rw [step_redo_none s hnil]
    · have hcat' : s.hist.redo = rs ++ [a] := by simpa using hcat
      have hz := Pz.invGroup C hI a (fun _ _ => trivial)
      cases hg : (s.invGroup a).2 with
      | ok r => rw [step_redo_ok s rs a r hcat' hg]; exact hz.1
      | error e => rw [step_redo_err s rs a e hcat' hg]; exact hz.1
  | enable ks rc =>
    simp only [step]
    split
    · rename_i s' h; exact shape_of_seg (R2G.Fs.enable h).seg
    · rfl
  | disable ks =>
    simp only [step]
    split
    · rename_i s' h; exact shape_of_seg (R2G.Fs.disable h).seg
    · rfl
  | qNeighbors tid time => exact shape_of_seg (Fr.trackNeighbors s tid time).seg
  | qHasTrack tid time => rfl
  | qNewIds n => rfl
  | nop => rfl

theorem shape_run (s : St) (ops : List Op') : shape (run s ops) = shape s :=
  run_induct (P := fun t => shape t = shape s) (fun t op h => (shape_step t op).trans h) ops s rfl

/-- whole frames at the start ⇒ whole frames at every reached state; no array ⇒ never an array -/
theorem wf_run {s : St} (h : ∀ g, s.seg = some g → g.WF) (ops : List Op') :
    ∀ g, (run s ops).seg = some g → g.WF := by
  intro g hg
  have hs := shape_run s ops
  unfold shape at hs
  rw [hg] at hs
  cases hg0 : s.seg with
  | none => rw [hg0] at hs; cases hs
  | some g0 =>
    rw [hg0] at hs
    simp only [Option.map_some, Option.some.injEq, segShape, Prod.mk.injEq] at hs
    have := h g0 hg0
    unfold Seg.WF at this ⊢
    rw [hs.1, hs.2]; exact this

theorem seg_none_run {s : St} (h : s.seg = none) (ops : List Op') : (run s ops).seg = none := by
  have hs := shape_run s ops
  unfold shape at hs
  rw [h] at hs
  cases hg : (run s ops).seg with
  | none => rfl
  | some g => rw [hg] at hs; cases hs

end Ft.R5B
