/-
  Helper lemmas for the extended import model FtModel/ImportExt.lean (work package R8I, C12).
  Part A: association lists under filters, `_preprocess_name_map` in closed form.
  Part B: the edge-property plan (rename + combine on column names) and its resolution per edge.
  Part C: `importGeffCore` unfolded.
-/
import FtModel.ImportExt
import FtProofs.ImportLemmas
namespace Ft.R8I
open Ft Ft.Import Ft.ImportExt

/-! ## Part A -/

theorem adelAll_of_none {β} (k : String) (l : List (String × β)) (h : alook k l = none) :
    adelAll k l = l := by
  induction l with
  | nil => rfl
  | cons p r ih =>
    obtain ⟨a, b⟩ := p
    simp only [alook] at h
    by_cases hak : a = k
    · subst hak; simp at h
    · have hb : (a == k) = false := by simpa using hak
      simp only [hb, Bool.false_eq_true, if_false] at h
      have h1 : (a != k) = true := by simpa using hak
      unfold adelAll at ih ⊢
      simp only [List.filter, h1]
      rw [ih h]

theorem keys_filter_sublist {β} (p : String × β → Bool) (l : List (String × β)) :
    ((l.filter p).map (·.1)).Sublist (l.map (·.1)) :=
  List.Sublist.map _ List.filter_sublist

theorem nodup_keys_filter {β} (p : String × β → Bool) (l : List (String × β))
    (h : (l.map (·.1)).Nodup) : ((l.filter p).map (·.1)).Nodup :=
  List.Nodup.sublist (keys_filter_sublist p l) h

/-- lookup in a filtered dict -/
theorem alook_filter {β} (p : String × β → Bool) (k : String) (l : List (String × β))
    (hn : (l.map (·.1)).Nodup) :
    alook k (l.filter p) = (alook k l).bind (fun v => if p (k, v) then some v else none) := by
  induction l with
  | nil => rfl
  | cons e r ih =>
    obtain ⟨a, b⟩ := e
    simp only [List.map_cons, List.nodup_cons] at hn
    by_cases hak : a = k
    · subst hak
      simp only [alook, beq_self_eq_true, if_true, Option.bind_some]
      by_cases hp : p (a, b) = true
      · simp [List.filter, hp, alook]
      · have hp' : p (a, b) = false := by simpa using hp
        simp only [List.filter, hp', Bool.false_eq_true, if_false]
        rw [alook_eq_none_iff]
        intro hin
        exact hn.1 ((keys_filter_sublist p r).subset hin)
    · have hb : (a == k) = false := by simpa using hak
      by_cases hp : p (a, b) = true
      · simp only [List.filter, hp, alook, hb, Bool.false_eq_true, if_false]
        exact ih hn.2
      · have hp' : p (a, b) = false := by simpa using hp
        simp only [List.filter, hp', alook, hb, Bool.false_eq_true, if_false]
        exact ih hn.2

/-- lookup in a dict whose values went through a partial function -/
theorem alook_filterMap {β γ} (f : β → Option γ) (k : String) (l : List (String × β))
    (hn : (l.map (·.1)).Nodup) :
    alook k (l.filterMap (fun e => (f e.2).map (fun v => (e.1, v)))) = (alook k l).bind f := by
  induction l with
  | nil => rfl
  | cons e r ih =>
    obtain ⟨a, b⟩ := e
    simp only [List.map_cons, List.nodup_cons] at hn
    simp only [List.filterMap_cons]
    by_cases hak : a = k
    · subst hak
      simp only [alook, beq_self_eq_true, if_true, Option.bind_some]
      cases hf : f b with
      | some v => simp [alook]
      | none =>
        simp only [Option.map_none]
        rw [alook_eq_none_iff]
        intro hin
        apply hn.1
        simp only [List.mem_map, List.mem_filterMap] at hin ⊢
        obtain ⟨x, ⟨y, hy, hxy⟩, hx⟩ := hin
        refine ⟨y, hy, ?_⟩
        cases hfy : f y.2 with
        | none => simp [hfy] at hxy
        | some w =>
          simp only [hfy, Option.map_some, Option.some.injEq] at hxy
          rw [← hx, ← hxy]
    · have hb : (a == k) = false := by simpa using hak
      cases hf : f b with
      | some v => simp only [Option.map_some, alook, hb, Bool.false_eq_true, if_false]; exact ih hn.2
      | none => simp only [Option.map_none, alook, hb, Bool.false_eq_true, if_false]; exact ih hn.2

theorem keys_filterMap_sub {β γ} (f : β → Option γ) (l : List (String × β)) (k : String)
    (h : k ∈ (l.filterMap (fun e => (f e.2).map (fun v => (e.1, v)))).map (·.1)) :
    k ∈ l.map (·.1) := by
  simp only [List.mem_map, List.mem_filterMap] at h ⊢
  obtain ⟨x, ⟨y, hy, hxy⟩, hx⟩ := h
  refine ⟨y, hy, ?_⟩
  cases hfy : f y.2 with
  | none => simp [hfy] at hxy
  | some w =>
    simp only [hfy, Option.map_some, Option.some.injEq] at hxy
    rw [← hx, ← hxy]

/-! ### `_preprocess_name_map` -/

/-- the source column a legacy key contributes to "pos" -/
def legacyC (raw : RawNameMap) (k : String) : List String :=
  match alook k raw with
  | some (.one c) => [c]
  | _ => []

/-- the given legacy coordinates, always in z, y, x order -/
def legacyComps (raw : RawNameMap) : List String :=
  legacyC raw "z" ++ legacyC raw "y" ++ legacyC raw "x"

def dropLegacy (raw : RawNameMap) : RawNameMap := adelAll "x" (adelAll "y" (adelAll "z" raw))

theorem legacyStep_eq (m : RawNameMap) (cs : List String) (k : String) :
    legacyStep (m, cs) k = (adelAll k m, cs ++ legacyC m k) := by
  unfold legacyStep legacyC
  cases h : alook k m with
  | none => simp [adelAll_of_none k m h]
  | some v => cases v <;> simp

theorem legacyC_adelAll (m : RawNameMap) (k k' : String) (h : k' ≠ k) :
    legacyC (adelAll k' m) k = legacyC m k := by
  unfold legacyC
  rw [alook_adelAll, if_neg h]

theorem legacy_fold (raw : RawNameMap) :
    coordKeys.foldl legacyStep (raw, []) = (dropLegacy raw, legacyComps raw) := by
  simp only [coordKeys, List.foldl_cons, List.foldl_nil, legacyStep_eq, List.nil_append]
  rw [legacyC_adelAll raw "y" "z" (by decide), legacyC_adelAll _ "x" "y" (by decide),
    legacyC_adelAll raw "x" "z" (by decide)]
  rfl

/-- first block of `_preprocess_name_map` in closed form -/
theorem legacyFold_eq (raw : RawNameMap) :
    legacyFold raw =
      if (alook "pos" raw).isSome then raw
      else if 2 ≤ (legacyComps raw).length then
        dropLegacy raw ++ [("pos", RawSrc.many (legacyComps raw))]
      else dropLegacy raw := by
  unfold legacyFold
  simp only [legacy_fold, ge_iff_le]

theorem alook_dropLegacy (raw : RawNameMap) (k : String) (hk : k ∉ coordKeys) :
    alook k (dropLegacy raw) = alook k raw := by
  unfold dropLegacy
  simp only [coordKeys, List.mem_cons, List.not_mem_nil, or_false, not_or] at hk
  rw [alook_adelAll, if_neg (fun h => hk.2.2 h.symm), alook_adelAll, if_neg (fun h => hk.2.1 h.symm),
    alook_adelAll, if_neg (fun h => hk.1 h.symm)]

theorem dropLegacy_eq_filter (raw : RawNameMap) :
    dropLegacy raw = raw.filter (fun e => e.1 != "z" && e.1 != "y" && e.1 != "x") := by
  unfold dropLegacy adelAll
  simp only [List.filter_filter]
  congr 1
  funext e
  cases e.1 != "z" <;> cases e.1 != "y" <;> cases e.1 != "x" <;> rfl

theorem dropBlank_idem (raw : RawNameMap) : dropBlank (dropBlank raw) = dropBlank raw := by
  unfold dropBlank
  simp [List.filter_filter]

theorem dropBlank_dropLegacy (raw : RawNameMap) :
    dropLegacy (dropBlank raw) = dropBlank (dropLegacy raw) := by
  rw [dropLegacy_eq_filter, dropLegacy_eq_filter]
  unfold dropBlank
  simp only [List.filter_filter]
  congr 1
  funext e
  exact Bool.and_comm _ _

theorem dropBlank_append_pos (l : RawNameMap) (cs : List String) (h : 2 ≤ cs.length) :
    dropBlank (l ++ [("pos", RawSrc.many cs)]) = dropBlank l ++ [("pos", RawSrc.many cs)] := by
  unfold dropBlank
  have : (RawSrc.many cs).blank = false := by
    cases cs with
    | nil => simp at h
    | cons _ _ => rfl
  simp [List.filter_append, List.filter, this]

theorem nodup_dropBlank (raw : RawNameMap) (h : (raw.map (·.1)).Nodup) :
    ((dropBlank raw).map (·.1)).Nodup := nodup_keys_filter _ raw h

theorem nodup_dropLegacy (raw : RawNameMap) (h : (raw.map (·.1)).Nodup) :
    ((dropLegacy raw).map (·.1)).Nodup := by
  rw [dropLegacy_eq_filter]; exact nodup_keys_filter _ raw h

theorem alook_dropBlank (raw : RawNameMap) (k : String) (hn : (raw.map (·.1)).Nodup) :
    alook k (dropBlank raw) = (alook k raw).bind (fun v => if v.blank then none else some v) := by
  unfold dropBlank
  rw [alook_filter _ k raw hn]
  cases alook k raw with
  | none => rfl
  | some v => cases hb : v.blank <;> simp [hb]

theorem legacyC_dropBlank (raw : RawNameMap) (k : String) (hn : (raw.map (·.1)).Nodup) :
    legacyC (dropBlank raw) k = legacyC raw k := by
  unfold legacyC
  rw [alook_dropBlank raw k hn]
  cases alook k raw with
  | none => rfl
  | some v =>
    cases v with
    | none => rfl
    | one c => rfl
    | many cs => cases cs <;> rfl

theorem legacyComps_dropBlank (raw : RawNameMap) (hn : (raw.map (·.1)).Nodup) :
    legacyComps (dropBlank raw) = legacyComps raw := by
  unfold legacyComps
  rw [legacyC_dropBlank raw "z" hn, legacyC_dropBlank raw "y" hn, legacyC_dropBlank raw "x" hn]

/-- no "pos" entry with a `None` / `[]` value next to a legacy coordinate key -/
def BlankPosFree (raw : RawNameMap) : Prop :=
  (∀ v, alook "pos" raw = some v → v.blank = false) ∨ (∀ k ∈ coordKeys, alook k raw = none)

instance (raw : RawNameMap) : Decidable (BlankPosFree raw) := by
  unfold BlankPosFree
  cases h : alook "pos" raw with
  | none => exact isTrue (Or.inl (fun v hv => by cases hv))
  | some w =>
    cases hb : w.blank with
    | false => exact isTrue (Or.inl (fun v hv => by cases hv; exact hb))
    | true =>
      have hfalse : ¬ (∀ v, some w = some v → v.blank = false) := fun hx => by
        have := hx w rfl
        rw [hb] at this
        cases this
      by_cases h2 : ∀ k ∈ coordKeys, alook k raw = none
      · exact isTrue (Or.inr h2)
      · exact isFalse (fun hx => hx.elim hfalse h2)

theorem legacyComps_nil_of_absent (raw : RawNameMap) (h : ∀ k ∈ coordKeys, alook k raw = none) :
    legacyComps raw = [] ∧ dropLegacy raw = raw := by
  have hz := h "z" (by decide)
  have hy := h "y" (by decide)
  have hx := h "x" (by decide)
  constructor
  · simp [legacyComps, legacyC, hz, hy, hx]
  · unfold dropLegacy
    rw [adelAll_of_none "z" raw hz, adelAll_of_none "y" raw hy, adelAll_of_none "x" raw hx]

/-- entries whose value is `None` / `[]` behave like absent entries — unless a blank "pos"
    entry shadows legacy coordinate keys -/
theorem preprocess_dropBlank (raw : RawNameMap) (hn : (raw.map (·.1)).Nodup)
    (hfree : BlankPosFree raw) : preprocess raw = preprocess (dropBlank raw) := by
  unfold preprocess
  rw [legacyFold_eq raw, legacyFold_eq (dropBlank raw)]
  have hpos' := alook_dropBlank raw "pos" hn
  cases hp : alook "pos" raw with
  | some v =>
    simp only [Option.isSome_some, if_true]
    rw [hp] at hpos'
    cases hb : v.blank with
    | false =>
      simp only [Option.bind_some, hb, Bool.false_eq_true, if_false] at hpos'
      simp [hpos', dropBlank_idem]
    | true =>
      simp only [Option.bind_some, hb, if_true] at hpos'
      have habs : ∀ k ∈ coordKeys, alook k raw = none := by
        rcases hfree with h | h
        · have := h v hp
          rw [hb] at this
          cases this
        · exact h
      have habs' : ∀ k ∈ coordKeys, alook k (dropBlank raw) = none := by
        intro k hk
        rw [alook_dropBlank raw k hn, habs k hk]
        rfl
      obtain ⟨h1, h2⟩ := legacyComps_nil_of_absent (dropBlank raw) habs'
      simp [hpos', h1, h2, dropBlank_idem]
  | none =>
    rw [hp] at hpos'
    simp only [Option.bind_none] at hpos'
    simp only [hpos', Option.isSome_none, Bool.false_eq_true, if_false,
      legacyComps_dropBlank raw hn, dropBlank_dropLegacy]
    by_cases h2 : 2 ≤ (legacyComps raw).length
    · simp only [h2, if_true]
      rw [dropBlank_append_pos _ _ h2, dropBlank_append_pos _ _ h2, dropBlank_idem]
    · simp only [h2, if_false, dropBlank_idem]

/-! ### reading a raw map as a `NameMap` -/

theorem alook_toNameMap (raw : RawNameMap) (k : String) (hn : (raw.map (·.1)).Nodup) :
    alook k (toNameMap raw) = (alook k raw).bind toSrc := alook_filterMap toSrc k raw hn

theorem keys_toNameMap_sub (raw : RawNameMap) (k : String) (h : k ∈ (toNameMap raw).map (·.1)) :
    k ∈ raw.map (·.1) := keys_filterMap_sub toSrc raw k h

theorem keys_dropBlank_sub (raw : RawNameMap) (k : String) (h : k ∈ (dropBlank raw).map (·.1)) :
    k ∈ raw.map (·.1) := (keys_filter_sublist _ raw).subset h

theorem keys_dropLegacy_sub (raw : RawNameMap) (k : String) (h : k ∈ (dropLegacy raw).map (·.1)) :
    k ∈ raw.map (·.1) := by
  rw [dropLegacy_eq_filter] at h
  exact (keys_filter_sublist _ raw).subset h

/-! ### legacy coordinate keys -/

/-- the map with the legacy keys replaced by the explicit composite entry -/
def explicitPos (raw : RawNameMap) : RawNameMap :=
  dropLegacy raw ++ [("pos", RawSrc.many (legacyComps raw))]

theorem alook_pos_explicit (raw : RawNameMap) (hp : alook "pos" raw = none) :
    alook "pos" (explicitPos raw) = some (RawSrc.many (legacyComps raw)) := by
  unfold explicitPos
  rw [alook_append, alook_dropLegacy raw "pos" (by decide), hp]
  simp [alook]

theorem preprocess_legacy (raw : RawNameMap) (hp : alook "pos" raw = none)
    (h2 : 2 ≤ (legacyComps raw).length) : preprocess raw = preprocess (explicitPos raw) := by
  unfold preprocess
  rw [legacyFold_eq raw, legacyFold_eq (explicitPos raw), alook_pos_explicit raw hp, hp]
  simp only [Option.isSome_none, Bool.false_eq_true, if_false, h2, if_true, Option.isSome_some]
  rfl

theorem preprocess_few (raw : RawNameMap) (hp : alook "pos" raw = none)
    (h2 : (legacyComps raw).length < 2) : preprocess raw = dropBlank (dropLegacy raw) := by
  unfold preprocess
  rw [legacyFold_eq raw, hp]
  have : ¬ 2 ≤ (legacyComps raw).length := by omega
  simp only [Option.isSome_none, Bool.false_eq_true, if_false, this]

theorem no_pos_few (raw : RawNameMap) (hp : alook "pos" raw = none)
    (h2 : (legacyComps raw).length < 2) : alook "pos" (toNameMap (preprocess raw)) = none := by
  rw [preprocess_few raw hp h2, alook_eq_none_iff]
  intro h
  have := keys_dropLegacy_sub raw _ (keys_dropBlank_sub _ _ (keys_toNameMap_sub _ _ h))
  exact (alook_eq_none_iff "pos" raw).mp hp this

theorem raw_ne_nil_of_comps (raw : RawNameMap) (h : legacyComps raw ≠ []) : raw ≠ [] := by
  rintro rfl
  exact h rfl

theorem alook_perm {β} (l l' : List (String × β)) (hp : l.Perm l') (hn : (l.map (·.1)).Nodup)
    (k : String) : alook k l = alook k l' := by
  have hn' : (l'.map (·.1)).Nodup := (hp.map _).nodup_iff.mp hn
  cases h : alook k l with
  | some v =>
    have := hp.subset (mem_of_alook k v l h)
    exact (alook_of_mem_nodup k v l' hn' this).symm
  | none =>
    symm
    rw [alook_eq_none_iff] at h ⊢
    intro hin
    exact h ((hp.map _).symm.subset hin)

/-- the composite position does not depend on the order of the entries of the dict -/
theorem legacyComps_perm (raw raw' : RawNameMap) (hp : raw.Perm raw')
    (hn : (raw.map (·.1)).Nodup) : legacyComps raw = legacyComps raw' := by
  unfold legacyComps legacyC
  rw [alook_perm raw raw' hp hn "z", alook_perm raw raw' hp hn "y", alook_perm raw raw' hp hn "x"]

/-! ### name-map validation without a position -/

theorem vnm_no_pos (req header sp : List String) (nm : NameMap) (h : alook "pos" nm = none) :
    validateNameMap req header sp nm = .error .nmEmpty ∨
    validateNameMap req header sp nm = .error .missingRequired ∨
    validateNameMap req header sp nm = .error .posMissing := by
  unfold validateNameMap
  split
  · exact Or.inl rfl
  · split
    · exact Or.inr (Or.inl rfl)
    · have : posCheck nm = some .posMissing := by simp [posCheck, h]
      simp [this]

theorem vnm_no_pos_req (req header sp : List String) (nm : NameMap) (h : alook "pos" nm = none)
    (hne : nm ≠ []) (hreq : ∀ k ∈ req, (alook k nm).isSome = true) :
    validateNameMap req header sp nm = .error .posMissing := by
  unfold validateNameMap
  have h1 : nm.isEmpty = false := by
    cases nm with
    | nil => exact absurd rfl hne
    | cons _ _ => rfl
  have h2 : req.any (fun k => (alook k nm).isNone) = false := by
    rw [List.any_eq_false]
    intro k hk
    have := hreq k hk
    cases hv : alook k nm with
    | none => simp [hv] at this
    | some v => simp
  have h3 : posCheck nm = some .posMissing := by simp [posCheck, h]
  simp only [h1, h2, Bool.false_eq_true, if_false, h3]

theorem importTable_vnm_err (sp : List String) (nm : NameMap) (t : Table) (e : ErrKind)
    (h : validateNameMap csvRequired t.header sp nm = .error e) : importTable sp nm t = .error e := by
  unfold importTable
  simp only [h]

theorem importGeff_vnm_err (sp : List String) (nm : NameMap) (header : List String)
    (nodes : List (Int × Attrs)) (edges : List (Int × Int)) (e : ErrKind)
    (h : validateNameMap ["time"] header sp nm = .error e) :
    importGeff sp nm header nodes edges = .error e := by
  unfold importGeff
  simp only [h]

/-! ## Part B: the edge-property plan -/

theorem alook_symRow (eheader : List String) (c : String) :
    alook c (symRow eheader) = if c ∈ eheader then some (Val.sc c) else none := by
  unfold symRow
  induction eheader with
  | nil => rfl
  | cons a r ih =>
    simp only [List.map_cons, alook, List.mem_cons]
    by_cases hac : a = c
    · subst hac; simp
    · have hb : (a == c) = false := by simpa using hac
      have : ¬ c = a := fun h => hac h.symm
      simp only [hb, Bool.false_eq_true, if_false, ih, this, false_or]

theorem rect_symRow (eheader : List String) : Rect eheader (symRow eheader) := by
  intro c hc
  rw [alook_symRow, if_pos hc]
  rfl

theorem stack_symRow (eheader cs : List String) (h : ∀ c ∈ cs, c ∈ eheader) :
    stack cs (symRow eheader) = Val.vec cs := by
  unfold stack
  congr 1
  induction cs with
  | nil => rfl
  | cons a r ih =>
    simp only [List.flatMap_cons]
    rw [ih (fun c hc => h c (List.mem_cons_of_mem _ hc)), alook_symRow,
      if_pos (h a List.mem_cons_self)]
    rfl

theorem edgePlan_some (eheader : List String) (enm : NameMap) :
    edgePlan eheader (some enm) = nodeAttrs eheader enm [] (symRow eheader) := by
  simp [edgePlan, nodeAttrs, popKeys]

/-- a single-mapped edge key is a copy of its stored column -/
theorem plan_one (eheader : List String) (enm : NameMap) (hok : NameMapOK enm) (k c : String)
    (hk : (k, Src.one c) ∈ enm) (hc : c ∈ eheader) :
    alook k (edgePlan eheader (some enm)) = some (Val.sc c) := by
  rw [edgePlan_some, nodeAttrs_one eheader enm [] _ hok k c hk hc (by simp), alook_symRow, if_pos hc]

/-- a list-mapped edge key is the stack of its stored columns, in mapped order -/
theorem plan_many (eheader : List String) (enm : NameMap) (hok : NameMapOK enm) (k : String)
    (cs : List String) (hk : (k, Src.many cs) ∈ enm) (hne : cs ≠ []) (hc : ∀ c ∈ cs, c ∈ eheader) :
    alook k (edgePlan eheader (some enm)) = some (Val.vec cs) := by
  rw [edgePlan_some, nodeAttrs_many eheader enm [] _ hok (rect_symRow eheader) k cs hk hne hc
    (by simp), stack_symRow eheader cs hc]

/-- a name that is neither a key of the edge map nor a stacked column is not a column of the
    result -/
theorem plan_absent (eheader : List String) (enm : NameMap) (k : String)
    (hkey : k ∉ enm.map (·.1)) (hcomp : ∀ e ∈ enm, k ∉ e.2.comps) :
    alook k (edgePlan eheader (some enm)) = none := by
  unfold edgePlan combine
  rw [combine_frame enm _ k]
  · rw [alook_renameRow]
    unfold renameLook
    have : (flatten enm).find? (fun p => p.1 == k && eheader.contains p.2 &&
        (alook p.2 (symRow eheader)).isSome) = none := by
      rw [List.find?_eq_none]
      intro p hp
      have hne : p.1 ≠ k := by
        rintro rfl
        rcases (mem_flatten enm p).mp hp with h | ⟨k', cs, h1, h2, _⟩
        · exact hkey (List.mem_map.mpr ⟨_, h, rfl⟩)
        · exact hcomp _ h1 (by simpa [Src.comps] using h2)
      have hb : (p.1 == k) = false := by simpa using hne
      simp [hb]
    rw [this]
    rfl
  · intro e he
    refine ⟨Or.inl ?_, hcomp e he⟩
    rintro rfl
    exact hkey (List.mem_map.mpr ⟨e, he, rfl⟩)

theorem combineStep_comp_deleted (props : Attrs) (k : String) (cs : List String) (hne : cs ≠ [])
    (hall : ∀ c ∈ cs, (alook c props).isSome = true) (c : String) (hcm : c ∈ cs) (hck : c ≠ k) :
    alook c (combineStep props (k, .many cs)) = none := by
  unfold combineStep
  simp only
  have h1 : cs.isEmpty = false := by
    cases cs with
    | nil => exact absurd rfl hne
    | cons _ _ => rfl
  have h2 : cs.all (fun c => (alook c props).isSome) = true := List.all_eq_true.mpr hall
  simp only [h1, Bool.false_eq_true, if_false, h2, if_true]
  rw [alook_delComps, if_pos ⟨hcm, hck⟩]

/-- a stacked column does not survive under its own name -/
theorem plan_comp_deleted (eheader : List String) (enm : NameMap) (hok : NameMapOK enm)
    (k : String) (cs : List String) (hk : (k, Src.many cs) ∈ enm) (hc : ∀ c ∈ cs, c ∈ eheader)
    (c : String) (hcm : c ∈ cs) : alook c (edgePlan eheader (some enm)) = none := by
  obtain ⟨l1, l2, hsplit⟩ := List.append_of_mem hk
  have hkeys := hok.1
  rw [hsplit, List.map_append, List.map_cons] at hkeys
  have hdis := List.nodup_append.mp hkeys
  have hnk2 : k ∉ l2.map (·.1) := (List.nodup_cons.mp hdis.2.1).1
  have hnk1 : k ∉ l1.map (·.1) := fun h => hdis.2.2 k h k List.mem_cons_self rfl
  have hmem1 : ∀ e ∈ l1, e ∈ enm := fun e he => by rw [hsplit]; exact List.mem_append_left _ he
  have hmem2 : ∀ e ∈ l2, e ∈ enm := fun e he => by
    rw [hsplit]; exact List.mem_append_right _ (List.mem_cons_of_mem _ he)
  have hck : c ≠ k := ((hok.2 (k, .many cs) hk).2 c hcm (k, .many cs) hk).1
  let props0 := renameRow eheader enm (symRow eheader)
  have hpre : ∀ c' ∈ cs, alook c' (l1.foldl combineStep props0) = alook c' props0 := by
    intro c' hc'
    apply combine_frame
    intro e he
    have hne' : e ≠ (k, .many cs) := by
      rintro rfl
      exact hnk1 (List.mem_map.mpr ⟨_, he, rfl⟩)
    have := (hok.2 (k, .many cs) hk).2 c' hc' e (hmem1 e he)
    exact ⟨Or.inl this.1, this.2 hne'⟩
  have hall : ∀ c' ∈ cs, (alook c' (l1.foldl combineStep props0)).isSome = true := by
    intro c' hc'
    rw [hpre c' hc', rename_comp eheader enm _ hok k cs hk c' hc' (hc c' hc'), alook_symRow,
      if_pos (hc c' hc')]
    rfl
  have hne : cs ≠ [] := List.ne_nil_of_mem hcm
  unfold edgePlan combine
  show alook c (enm.foldl combineStep props0) = none
  rw [hsplit, List.foldl_append, List.foldl_cons, combine_frame l2 _ c]
  · exact combineStep_comp_deleted _ k cs hne hall c hcm hck
  · intro e he
    have hne' : e ≠ (k, .many cs) := by
      rintro rfl
      exact hnk2 (List.mem_map.mpr ⟨_, he, rfl⟩)
    have := (hok.2 (k, .many cs) hk).2 c hcm e (hmem2 e he)
    exact ⟨Or.inl this.1, this.2 hne'⟩

/-- only keys of the edge map are columns of the result -/
theorem plan_keys_sub (eheader : List String) (enm : NameMap) (hok : NameMapOK enm)
    (hcols : ∀ e ∈ enm, ∀ c ∈ e.2.cols, c ∈ eheader) (k : String)
    (h : (alook k (edgePlan eheader (some enm))).isSome = true) : k ∈ enm.map (·.1) := by
  by_cases hkey : k ∈ enm.map (·.1)
  · exact hkey
  · exfalso
    by_cases hcomp : ∃ e ∈ enm, k ∈ e.2.comps
    · obtain ⟨⟨k0, s⟩, he, hkc⟩ := hcomp
      cases s with
      | one c => simp [Src.comps] at hkc
      | many cs =>
        simp only [Src.comps] at hkc
        have := plan_comp_deleted eheader enm hok k0 cs he
          (fun c hc => hcols _ he c (by simpa [Src.cols] using hc)) k hkc
        rw [this] at h
        cases h
    · have := plan_absent eheader enm k hkey (fun e he hkc => hcomp ⟨e, he, hkc⟩)
      rw [this] at h
      cases h

/-! ### the plan is a dict -/

theorem renameAux_nodup (header : List String) (cells : Attrs) (flat : List (String × String))
    (acc : Attrs) (h : (acc.map (·.1)).Nodup) :
    ((renameAux header cells flat acc).map (·.1)).Nodup := by
  induction flat generalizing acc with
  | nil => exact h
  | cons p rest ih =>
    obtain ⟨tgt, src⟩ := p
    unfold renameAux
    split
    · rename_i hc
      simp only [Bool.and_eq_true, Option.isNone_iff_eq_none] at hc
      cases hs : alook src cells with
      | none => exact ih acc h
      | some v =>
        apply ih
        rw [List.map_append, List.nodup_append]
        refine ⟨h, by simp, ?_⟩
        intro a ha b hb
        simp only [List.map_cons, List.map_nil, List.mem_cons, List.not_mem_nil, or_false] at hb
        subst hb
        rintro rfl
        exact (alook_eq_none_iff _ acc).mp hc.2 ha
    · exact ih acc h

theorem aset_keys {β} (k : String) (v : β) (l : List (String × β)) :
    (aset k v l).map (·.1) = if k ∈ l.map (·.1) then l.map (·.1) else l.map (·.1) ++ [k] := by
  induction l with
  | nil => simp [aset]
  | cons p r ih =>
    obtain ⟨a, b⟩ := p
    by_cases hak : a = k
    · subst hak
      simp [aset]
    · have hb : (a == k) = false := by simpa using hak
      have hka : ¬ k = a := fun h => hak h.symm
      simp only [aset, hb, Bool.false_eq_true, if_false, List.map_cons, ih, List.mem_cons, hka,
        false_or]
      split <;> simp

theorem aset_nodup {β} (k : String) (v : β) (l : List (String × β)) (h : (l.map (·.1)).Nodup) :
    ((aset k v l).map (·.1)).Nodup := by
  rw [aset_keys]
  split
  · exact h
  · rename_i hk
    rw [List.nodup_append]
    refine ⟨h, by simp, ?_⟩
    intro a ha b hb
    simp only [List.mem_cons, List.not_mem_nil, or_false] at hb
    subst hb
    rintro rfl
    exact hk ha

theorem delComps_nodup (key : String) (cs : List String) (props : Attrs)
    (h : (props.map (·.1)).Nodup) : ((delComps key cs props).map (·.1)).Nodup := by
  unfold delComps
  induction cs generalizing props with
  | nil => exact h
  | cons c r ih =>
    simp only [List.foldl_cons]
    apply ih
    split
    · exact nodup_keys_filter _ props h
    · exact h

theorem combineStep_nodup (props : Attrs) (e : String × Src) (h : (props.map (·.1)).Nodup) :
    ((combineStep props e).map (·.1)).Nodup := by
  unfold combineStep
  split
  · exact h
  · split
    · exact h
    · split
      · exact delComps_nodup _ _ _ (aset_nodup _ _ _ h)
      · exact h

theorem combine_nodup (nm : NameMap) (props : Attrs) (h : (props.map (·.1)).Nodup) :
    ((combine nm props).map (·.1)).Nodup := by
  unfold combine
  induction nm generalizing props with
  | nil => exact h
  | cons e r ih =>
    simp only [List.foldl_cons]
    exact ih _ (combineStep_nodup props e h)

theorem plan_nodup_some (eheader : List String) (enm : NameMap) :
    ((edgePlan eheader (some enm)).map (·.1)).Nodup := by
  unfold edgePlan renameRow
  exact combine_nodup _ _ (renameAux_nodup _ _ _ [] (by simp))

theorem plan_nodup_none (eheader : List String) (h : eheader.Nodup) :
    ((edgePlan eheader none).map (·.1)).Nodup := by
  simp only [edgePlan, symRow, List.map_map, Function.comp_def, List.map_id']
  exact h

/-- value of a key on one edge: the planned column, resolved on the stored values of the edge -/
theorem alook_edgeAttrs (plan cells : Attrs) (k : String) (hn : (plan.map (·.1)).Nodup) :
    alook k (edgeAttrs plan cells) = (alook k plan).bind (resolve cells) :=
  alook_filterMap (resolve cells) k plan hn

theorem resolve_sc (cells : Attrs) (c : String) : resolve cells (Val.sc c) = alook c cells := rfl

theorem resolve_vec (cells : Attrs) (cs : List String) :
    resolve cells (Val.vec cs) =
      if ∀ c ∈ cs, (alook c cells).isSome = true then some (stack cs cells) else none := by
  show (if cs.all (fun c => (alook c cells).isSome) = true then some (stack cs cells) else none) = _
  by_cases h : ∀ c ∈ cs, (alook c cells).isSome = true
  · rw [if_pos h, if_pos (List.all_eq_true.mpr h)]
  · rw [if_neg h, if_neg (fun hx => h (List.all_eq_true.mp hx))]

/-! ## Part C: the GEFF pipeline with edge properties, unfolded -/

theorem validateEdgeMap_none (sp : List String) (nd : Option Nat) (nm : NameMap)
    (eheader : List String) (enm : NameMap)
    (h : validateEdgeMap sp nd nm eheader (some enm) = none) :
    colsOk eheader enm = true ∧ edgeSpatialOk sp nd enm = true ∧ keysCollide nm enm = false := by
  unfold validateEdgeMap at h
  cases h1 : colsOk eheader enm with
  | false => simp [h1] at h
  | true =>
    cases h2 : edgeSpatialOk sp nd enm with
    | false => simp [h1, h2] at h
    | true =>
      cases h3 : keysCollide nm enm with
      | true => simp [h1, h2, h3] at h
      | false => exact ⟨rfl, rfl, rfl⟩

theorem colsOk_mem (header : List String) (nm : NameMap) (h : colsOk header nm = true)
    (hne : header ≠ []) : ∀ e ∈ nm, ∀ c ∈ e.2.cols, c ∈ header := by
  intro e he c hc
  unfold colsOk at h
  have h1 : header.isEmpty = false := by
    cases header with
    | nil => exact absurd rfl hne
    | cons _ _ => rfl
  simp only [h1, Bool.false_or, List.all_eq_true] at h
  exact List.contains_iff_mem.mp (h e he c hc)

theorem core_ok (sp : List String) (nd : Option Nat) (nm : NameMap) (enm : Option NameMap)
    (header eheader : List String) (nodes : List (Int × Attrs))
    (edges : List ((Int × Int) × Attrs)) (g : GraphX)
    (h : importGeffCore sp nd nm enm header eheader nodes edges = .ok g) :
    validateEdgeMap sp nd nm eheader enm = none ∧ loadCheck header eheader nm enm = none ∧
    ∃ g0, importGeff sp nm header nodes (edges.map (·.1)) = .ok g0 ∧ g.nodes = g0.nodes ∧
      g.edges = edges.map (fun e => (e.1, edgeAttrs (edgePlan eheader enm) e.2)) := by
  unfold importGeffCore at h
  split at h
  · cases h
  · cases h
  · split at h
    · cases h
    · rename_i hv
      split at h
      · cases h
      · rename_i hl
        split at h
        · cases h
        · rename_i g0 hg
          simp only [Except.ok.injEq] at h
          subst h
          exact ⟨hv, hl, g0, hg, rfl, rfl⟩

/-- a failing edge-map validation refuses the import (with that error if the node map is fine) -/
theorem core_err_of_vem (sp : List String) (nd : Option Nat) (nm : NameMap) (enm : Option NameMap)
    (header eheader : List String) (nodes : List (Int × Attrs))
    (edges : List ((Int × Int) × Attrs)) (e : ErrX)
    (h : validateEdgeMap sp nd nm eheader enm = some e) :
    (∃ err, importGeffCore sp nd nm enm header eheader nodes edges = .error err) ∧
    (validateNameMap ["time"] header sp nm = .ok () →
      importGeffCore sp nd nm enm header eheader nodes edges = .error e) := by
  unfold importGeffCore
  constructor
  · split
    · exact ⟨_, rfl⟩
    · exact ⟨_, rfl⟩
    · simp only [h]
      exact ⟨_, rfl⟩
  · intro hv
    simp only [hv, h]

theorem core_err_of_load (sp : List String) (nd : Option Nat) (nm : NameMap) (enm : Option NameMap)
    (header eheader : List String) (nodes : List (Int × Attrs))
    (edges : List ((Int × Int) × Attrs)) (e : ErrX)
    (h : loadCheck header eheader nm enm = some e) :
    ∃ err, importGeffCore sp nd nm enm header eheader nodes edges = .error err := by
  unfold importGeffCore
  split
  · exact ⟨_, rfl⟩
  · exact ⟨_, rfl⟩
  · split
    · exact ⟨_, rfl⟩
    · simp only [h]
      exact ⟨_, rfl⟩

/-- when the node map has no position the early `ndim` cannot matter: the node validation fails -/
theorem core_nd_irrelevant (sp : List String) (nd nd' : Option Nat) (nm : NameMap)
    (enm : Option NameMap) (header eheader : List String) (nodes : List (Int × Attrs))
    (edges : List ((Int × Int) × Attrs)) (hp : alook "pos" nm = none) :
    importGeffCore sp nd nm enm header eheader nodes edges =
      importGeffCore sp nd' nm enm header eheader nodes edges := by
  unfold importGeffCore
  rcases vnm_no_pos ["time"] header sp nm hp with h | h | h <;> simp only [h]

/-! ### the early `ndim` and blank entries -/

theorem ndimEarly_dropBlank (raw : RawNameMap) (hn : (raw.map (·.1)).Nodup) :
    ndimEarly (dropBlank raw) = ndimEarly raw ∨ alook "pos" raw = some (RawSrc.many []) := by
  unfold ndimEarly
  rw [alook_dropBlank raw "pos" hn]
  cases alook "pos" raw with
  | none => exact Or.inl rfl
  | some v =>
    cases v with
    | none => exact Or.inl rfl
    | one c => exact Or.inl rfl
    | many cs =>
      cases cs with
      | nil => exact Or.inr rfl
      | cons a l => exact Or.inl rfl

theorem pos_blank_no_pos (raw : RawNameMap) (hn : (raw.map (·.1)).Nodup)
    (h : alook "pos" raw = some (RawSrc.many [])) :
    alook "pos" (toNameMap (preprocess raw)) = none := by
  have h1 : preprocess raw = dropBlank raw := by
    unfold preprocess
    rw [legacyFold_eq, h]
    rfl
  rw [h1, alook_eq_none_iff]
  intro hin
  have h2 := keys_toNameMap_sub _ _ hin
  have h3 : alook "pos" (dropBlank raw) = none := by
    rw [alook_dropBlank raw "pos" hn, h]
    rfl
  exact (alook_eq_none_iff _ _).mp h3 h2

/-- `true` for a single-column entry -/
def Src.isOne : Src → Bool
  | .one _ => true
  | .many _ => false

/-- no list-mapped entry of the edge map sits under a key with spatial extent -/
def EdgeSpatialFree (sp : List String) (enm : Option NameMap) : Prop :=
  ∀ m, enm = some m → ∀ e ∈ m, sp.contains e.1 = false ∨ Src.isOne e.2 = true

instance (sp : List String) (enm : Option NameMap) : Decidable (EdgeSpatialFree sp enm) := by
  unfold EdgeSpatialFree
  cases enm with
  | none => exact isTrue (fun m hm => by cases hm)
  | some m0 =>
    by_cases h : ∀ e ∈ m0, sp.contains e.1 = false ∨ Src.isOne e.2 = true
    · exact isTrue (fun m hm => by cases hm; exact h)
    · exact isFalse (fun hx => h (hx m0 rfl))

theorem edgeSpatialOk_free (sp : List String) (nd : Option Nat) (m : NameMap)
    (h : ∀ e ∈ m, sp.contains e.1 = false ∨ Src.isOne e.2 = true) :
    edgeSpatialOk sp nd m = true := by
  unfold edgeSpatialOk
  split
  · rfl
  · rw [List.all_eq_true]
    intro e he
    rcases h e he with h1 | h1
    · simp only [h1, Bool.not_false, Bool.or_true, Bool.true_or]
    · obtain ⟨k, s⟩ := e
      cases s with
      | one c => simp
      | many cs => cases h1

theorem validateEdgeMap_free (sp : List String) (nd nd' : Option Nat) (nm : NameMap)
    (eheader : List String) (enm : Option NameMap) (h : EdgeSpatialFree sp enm) :
    validateEdgeMap sp nd nm eheader enm = validateEdgeMap sp nd' nm eheader enm := by
  cases enm with
  | none => rfl
  | some m =>
    simp only [validateEdgeMap, edgeSpatialOk_free sp nd m (h m rfl),
      edgeSpatialOk_free sp nd' m (h m rfl)]

theorem core_nd_free (sp : List String) (nd nd' : Option Nat) (nm : NameMap)
    (enm : Option NameMap) (header eheader : List String) (nodes : List (Int × Attrs))
    (edges : List ((Int × Int) × Attrs)) (h : EdgeSpatialFree sp enm) :
    importGeffCore sp nd nm enm header eheader nodes edges =
      importGeffCore sp nd' nm enm header eheader nodes edges := by
  unfold importGeffCore
  rw [validateEdgeMap_free sp nd nd' nm eheader enm h]

/-! ### more on preprocessed maps -/

theorem toNameMap_dropBlank_many_ne (raw : RawNameMap) (k : String) (cs : List String)
    (h : (k, Src.many cs) ∈ toNameMap (dropBlank raw)) : cs ≠ [] := by
  unfold toNameMap at h
  simp only [List.mem_filterMap] at h
  obtain ⟨⟨k', v⟩, hmem, hv⟩ := h
  unfold dropBlank at hmem
  simp only [List.mem_filter, Bool.not_eq_true'] at hmem
  cases v with
  | none => simp [toSrc] at hv
  | one c => simp [toSrc] at hv
  | many cs' =>
    simp only [toSrc, Option.map_some, Option.some.injEq, Prod.mk.injEq, Src.many.injEq] at hv
    obtain ⟨_, rfl⟩ := hv
    rintro rfl
    have := hmem.2
    simp [RawSrc.blank] at this

/-- a non-blank entry under a non-legacy key survives preprocessing (no "pos", < 2 legacy) -/
theorem alook_pre_few (raw : RawNameMap) (hn : (raw.map (·.1)).Nodup) (hp : alook "pos" raw = none)
    (h2 : (legacyComps raw).length < 2) (k : String) (hk : k ∉ coordKeys) (v : RawSrc)
    (hv : alook k raw = some v) (hb : v.blank = false) :
    (alook k (toNameMap (preprocess raw))).isSome = true := by
  rw [preprocess_few raw hp h2,
    alook_toNameMap _ k (nodup_dropBlank _ (nodup_dropLegacy raw hn)),
    alook_dropBlank _ k (nodup_dropLegacy raw hn), alook_dropLegacy raw k hk, hv]
  simp only [Option.bind_some, hb, Bool.false_eq_true, if_false]
  cases v with
  | none => cases hb
  | one c => rfl
  | many cs => rfl

theorem vnmSeg_none (req header sp : List String) (nm : NameMap) :
    validateNameMapSeg none req header sp nm = validateNameMap req header sp nm := by
  unfold validateNameMapSeg validateNameMap
  have : posCheckSeg none nm = posCheck nm := by
    unfold posCheckSeg posCheck
    cases alook "pos" nm with
    | none => rfl
    | some v => cases v <;> rfl
  rw [this]
  rfl

theorem vnmSeg_not_posMissing (d : Nat) (req header sp : List String) (nm : NameMap) :
    validateNameMapSeg (some d) req header sp nm ≠ .error .posMissing := by
  unfold validateNameMapSeg
  split
  · simp
  · split
    · simp
    · split
      · rename_i e he
        unfold posCheckSeg at he
        split at he
        · simp at he
        · split at he
          · simp only [Option.some.injEq] at he
            subst he
            simp
          · cases he
        · cases he
      · split
        · simp
        · split <;> simp

theorem liftEmpty_not_posMissing {α} (r : Except ErrKind α) (h : r ≠ .error .posMissing) :
    liftEmpty r ≠ .error .posMissing := by
  unfold liftEmpty
  split
  · simp
  · exact h

theorem keysCollide_of_common (nm enm : NameMap) (k : String) (h1 : k ∈ nm.map (·.1))
    (h2 : k ∈ enm.map (·.1)) : keysCollide nm enm = true := by
  unfold keysCollide
  rw [List.any_eq_true]
  obtain ⟨e, he, rfl⟩ := List.mem_map.mp h1
  exact ⟨e, he, (alook_isSome_iff e.1 enm).mpr h2⟩

theorem validateEdgeMap_collide (sp : List String) (nd : Option Nat) (nm : NameMap)
    (eheader : List String) (enm : NameMap) (h : keysCollide nm enm = true) :
    (∃ e, validateEdgeMap sp nd nm eheader (some enm) = some e) ∧
    (colsOk eheader enm = true → edgeSpatialOk sp nd enm = true →
      validateEdgeMap sp nd nm eheader (some enm) = some .keyCollision) := by
  simp only [validateEdgeMap]
  constructor
  · cases colsOk eheader enm <;> cases edgeSpatialOk sp nd enm <;> simp [h]
  · intro h1 h2
    simp [h1, h2, h]

end Ft.R8I
