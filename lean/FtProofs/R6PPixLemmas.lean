/-
  FtProofs.R6PPixLemmas — package R6P, part 6: the node clause restricted to nodes that HAVE pixels.

  `RpPx s` = every active regionprops key of every node WITH pixels stores the mask of those pixels
  (nothing is said about a node without pixels).  This is the reading of the Python oracle
  (`rp_problems` skips nodes whose mask is empty) and of `R2G.RpCur`.  For it `enable ks true` needs
  NO precondition: the bulk path recomputes every node that has pixels.  `closedPx`.
-/
import FtProofs.R6PMeasLemmas
namespace Ft.R6P
open Ft Ft.St Ft.R2G List

def RpPx (s : St) : Prop :=
  ∀ g, s.seg = some g → ∀ k ∈ s.rpActive, ∀ r ∈ s.nodes, g.pixelsOf r.time r.id ≠ [] →
    alook k r.other = some (Val.mask (g.pixelsOf r.time r.id))

theorem rpPx_of_rpOK {s : St} (h : RpOK s) : RpPx s := by
  intro g hg k hk r hr hpx
  rw [h g hg k hk r hr]
  simp only [Seg.maskVal, hpx, if_false]

theorem rpPx_congr {s s' : St} (hs : s'.seg = s.seg) (hn : s'.nodes = s.nodes)
    (ha : s'.rpActive = s.rpActive) (h : RpPx s) : RpPx s' := by
  intro g hg k hk r hr
  rw [hs] at hg; rw [ha] at hk; rw [hn] at hr
  exact h g hg k hk r hr

theorem _root_.Ft.St.Fr.rpPx {s s' : St} (h : Fr s s') (hr : RpPx s) : RpPx s' := by
  intro g hg k hk r' hr' hpx
  rw [h.seg] at hg; rw [h.rpActive] at hk
  obtain ⟨r, hrm, hc⟩ := h.mem hr'
  simp only [core, Prod.mk.injEq] at hc
  rw [← hc.1, ← hc.2.1] at hpx ⊢
  rw [← hc.2.2]
  exact hr g hg k hk r hrm hpx

/-- if all nodes other than `n` are current, `rpUpdate n` makes the whole table current -/
theorem rpPx_rpUpdate {s : St} {n : Node} (hnd : s.ids.Nodup)
    (hoth : ∀ g, s.seg = some g → ∀ k ∈ s.rpActive, ∀ r ∈ s.nodes, r.id ≠ n →
      g.pixelsOf r.time r.id ≠ [] → alook k r.other = some (Val.mask (g.pixelsOf r.time r.id))) :
    RpPx (s.rpUpdate n) := by
  intro g hg k hk r hr hpx
  rw [rpUpdate_seg] at hg
  rw [rpUpdate_rpActive] at hk
  obtain ⟨h1, h2, -⟩ := rpUpdate_spec s n g hg hnd
  by_cases he : r.id = n
  · rw [h1 r hr he k hk]
    rw [he] at hpx
    simp only [Seg.maskVal, hpx, if_false, he]
  · exact hoth g hg k hk r (h2 r hr he) he hpx

theorem rpPx_write {s : St} {g : Seg} {ps : List Pix} {v : Nat} {n : Node} (hg : s.seg = some g)
    (hnd : s.ids.Nodup) (hm : RpPx s)
    (hpre : ∀ r ∈ s.nodes, r.id ≠ n → g.Untouched ps v r.id) :
    RpPx ((s.withSeg (g.setPixels ps v)).rpUpdate n) := by
  apply rpPx_rpUpdate (s := s.withSeg (g.setPixels ps v)) hnd
  intro g' hg' k hk r hr hne hpx
  simp only [withSeg_seg, Option.some.injEq] at hg'
  subst hg'
  rw [Seg.pixelsOf_setPixels_other (hpre r hr hne)] at hpx ⊢
  exact hm g hg k hk r hr hpx

theorem px_prim {s s' : St} {c : PCmd} {r : PrimRec} (hS : Str s) (hR : RpPx s) (hpre : PrimPre s c)
    (h : c.run s = .ok (s', r)) : RpPx s' := by
  have hnd := hS.ids_nodup
  have h0 := hS.id_ne_zero
  obtain ⟨g, hg⟩ : ∃ g, s.seg = some g := by obtain ⟨⟨g, hg, -⟩, -⟩ := hS; exact ⟨g, hg⟩
  cases c with
  | addEdge e a =>
    obtain ⟨-, -, -, rfl⟩ := pAddEdge_ok_sg h
    exact rpPx_congr ((iouUpdateEdge_seg _ _).trans (addEdgeRaw_seg ..))
      ((iouUpdateEdge_nodes _ _).trans (addEdgeRaw_nodes ..))
      ((iouUpdateEdge_rpActive _ _).trans (addEdgeRaw_rpActive ..)) hR
  | delEdge e =>
    rw [pDelEdge_ok_sg h]; exact rpPx_congr rfl rfl rfl hR
  | updTid st t l => exact (Fr.pUpdTid h).rpPx hR
  | addNode nr px =>
    obtain ⟨hnew, -, -, -, hpx⟩ := AddNodePre.out hpre hg
    obtain ⟨-, -, rfl⟩ := pAddNode_ok_sg h
    apply (Fr.trackAdd _ _).rpPx
    have hnew1 : (s.paintWith px nr.id).hasNode nr.id = false := by rw [paintWith_hasNode, hnew]
    rw [addNodeRaw_new hnew1]
    have hnotin : nr.id ∉ s.ids := fun hmem => by
      have := (hasNode_iff_mem_ids_sg s nr.id).mpr hmem
      rw [hnew] at this; cases this
    apply rpPx_rpUpdate
    · rw [ids_append_sg, paintWith_ids]
      exact List.nodup_append.mpr ⟨hnd, by simp, fun a ha b hb => by
        simp only [List.mem_singleton] at hb; subst hb; exact fun e => hnotin (e ▸ ha)⟩
    · intro g' hg' k hk r' hr' hne hpix
      have hr0 : r' ∈ s.nodes := by
        simp only [paintWith_nodes, List.mem_append, List.mem_singleton] at hr'
        rcases hr' with h1 | h1
        · exact h1
        · exact absurd (by rw [h1]) hne
      change (s.paintWith px nr.id).seg = some g' at hg'
      change k ∈ (s.paintWith px nr.id).rpActive at hk
      rw [paintWith_rpActive] at hk
      rcases paintWith_cases s px nr.id with ⟨ps, g0, hp, hg0, heq⟩ | ⟨-, heq⟩
      · rw [heq, withSeg_seg] at hg'
        cases hg'
        rw [hg] at hg0; cases hg0
        have hU : g.Untouched ps nr.id r'.id := by
          refine ⟨fun e => hnotin (e ▸ List.mem_map.2 ⟨r', hr0, rfl⟩), fun p hp' _ e => ?_⟩
          rw [(hpx ps hp p hp').2.2] at e
          exact h0 r' hr0 e.symm
        rw [Seg.pixelsOf_setPixels_other hU] at hpix ⊢
        exact hR g hg k hk r' hr0 hpix
      · rw [heq] at hg'
        exact hR g' hg' k hk r' hr0 hpix
  | delNode n px =>
    obtain ⟨r0, hr0, -, rfl⟩ := pDelNode_ok_sg h
    have htime : s.timeOf n = some r0.time := by simp [St.timeOf, hr0]
    apply (Fr.trackOnDelete _ _).rpPx
    intro g' hg' k hk r' hr' hpix
    change (s.paintWith (s.delPixels n px) 0).seg = some g' at hg'
    change k ∈ (s.paintWith (s.delPixels n px) 0).rpActive at hk
    rw [paintWith_rpActive] at hk
    have hr1 : r' ∈ s.nodes ∧ r'.id ≠ n := by
      simp only [delRaw, paintWith_nodes, List.mem_filter, bne_iff_ne] at hr'
      exact hr'
    rcases paintWith_cases s (s.delPixels n px) 0 with ⟨ps, g0, hp, hg0, heq⟩ | ⟨-, heq⟩
    · rw [heq, withSeg_seg] at hg'
      cases hg'
      rw [hg] at hg0; cases hg0
      have hcar : ∀ p ∈ ps, g.data.getD p 0 = n := by
        cases px with
        | some ps0 =>
          simp only [delPixels, Option.some.injEq] at hp
          subst hp
          exact DelNodePre.out hpre hg rfl
        | none =>
          simp only [delPixels, getPixels, hg, htime, Option.some.injEq] at hp
          subst hp
          intro p hp'; exact (Seg.mem_pixelsOf.1 hp').2.2
      have hU : g.Untouched ps 0 r'.id :=
        ⟨h0 r' hr1.1, fun p hp' _ e => hr1.2 (e.symm.trans (hcar p hp'))⟩
      rw [Seg.pixelsOf_setPixels_other hU] at hpix ⊢
      exact hR g hg k hk r' hr1.1 hpix
    · rw [heq] at hg'
      exact hR g' hg' k hk r' hr1.1 hpix
  | updSeg n ps added =>
    obtain ⟨g0, hg0, hn, -, rfl⟩ := pUpdSeg_ok_sg h
    rw [hg] at hg0; cases hg0
    obtain ⟨t, ht⟩ : ∃ t, s.timeOf n = some t := by
      rw [hasNode_eq_timeOf_sg] at hn; exact Option.isSome_iff_exists.1 hn
    obtain ⟨pa, pr⟩ := UpdSegPre.out hpre hg ht
    refine rpPx_congr (iouUpdateNode_seg _ _) (iouUpdateNode_nodes _ _) (iouUpdateNode_rpActive _ _)
      (rpPx_write hg hnd hR ?_)
    intro r' hr' hne
    cases added with
    | true =>
      refine ⟨by simpa using hne, fun p hp _ e => ?_⟩
      rw [(pa rfl p hp).2.2] at e
      exact h0 r' hr' e.symm
    | false =>
      refine ⟨by simpa using h0 r' hr', fun p hp _ e => ?_⟩
      exact hne (e.symm.trans (pr rfl p hp))
  | updAttrs n a =>
    -- annotator keys are refused, so no active key is written
    unfold PCmd.run St.pUpdAttrs at h
    simp only at h
    split at h
    · cases h
    · rename_i hprot
      split at h
      · cases h
      · simp only [Except.ok.injEq, Prod.mk.injEq] at h
        obtain ⟨rfl, -⟩ := h
        have hfree : ∀ kv ∈ a, kv.1 ∉ s.rpActive := by
          intro kv hkv hact
          apply hprot
          simp only [List.any_eq_true]
          refine ⟨kv, hkv, ?_⟩
          simp only [protectedKeys, annotKeys, List.contains_iff_mem, List.mem_cons, List.mem_append]
          exact Or.inr (Or.inl (Or.inr (hS.2 _ hact)))
        clear hprot
        suffices H : ∀ (l : List (Key × Val)) (st : St), RpPx st → st.rpActive = s.rpActive →
            (∀ kv ∈ l, kv.1 ∉ s.rpActive) →
            RpPx (l.foldl (fun st kv => st.setOther n kv.1 kv.2) st) from H a s hR rfl hfree
        intro l
        induction l with
        | nil => intro st h1 _ _; exact h1
        | cons kv l ih =>
          intro st h1 h2 h3
          rw [List.foldl_cons]
          refine ih _ ?_ h2 (fun kv' hkv' => h3 kv' (List.mem_cons_of_mem _ hkv'))
          have hkv : kv.1 ∉ st.rpActive := by rw [h2]; exact h3 kv (List.mem_cons_self ..)
          intro g' hg' k hk r' hr' hpix
          change k ∈ st.rpActive at hk
          change st.seg = some g' at hg'
          simp only [setOther, updNode, List.mem_map] at hr'
          obtain ⟨r0, hr0, rfl⟩ := hr'
          by_cases hid : (r0.id == n) = true
          · simp only [hid, if_true] at hpix ⊢
            have := h1 g' hg' k hk r0 hr0 hpix
            have hne : k ≠ kv.1 := fun e => hkv (e ▸ hk)
            rw [alook_aset_ne_sg hne]; exact this
          · simp only [hid, Bool.false_eq_true, if_false] at hpix ⊢
            exact h1 g' hg' k hk r0 hr0 hpix

/-- `enable ks false` activates no new regionprops key (nothing is asked of `enable ks true`) -/
def EnPre8px (s : St) (ks : List Key) (rc : Bool) : Prop :=
  rc = false → ∀ k ∈ ks, k ∈ s.rpAvail → k ∈ s.rpActive

instance (s : St) (ks : List Key) (rc : Bool) : Decidable (EnPre8px s ks rc) := by
  unfold EnPre8px; infer_instance

theorem px_enable {s s' : St} {ks : List Key} {rc : Bool} (hS : Str s) (hR : RpPx s)
    (hpre : EnPre8px s ks rc) (h : s.enable ks rc = some s') : RpPx s' := by
  cases hany : ks.any (fun k => !(s.annotKeys.contains k)) with
  | true => rw [enable_none s ks rc hany] at h; cases h
  | false =>
    rw [enable_eq s ks rc hany] at h
    injection h with h
    obtain ⟨g, hg⟩ : ∃ g, s.seg = some g := by obtain ⟨⟨g, hg, -⟩, -⟩ := hS; exact ⟨g, hg⟩
    cases rc with
    | false =>
      simp only [Bool.false_eq_true, if_false] at h
      subst h
      intro g' hg' k hk r hr
      have hk' : k ∈ s.rpActive := by
        rcases mem_enableReg_rpActive.1 hk with hk | ⟨h1, h2, h3⟩
        · exact hk
        · exact absurd (hpre rfl k h1 h2) h3
      exact hR g' hg' k hk' r hr
    | true =>
      simp only [if_true] at h
      subst h
      have hg1 : (enableReg s ks).seg = some g := hg
      have hS1 : Str (enableReg s ks) := by
        have := str_enable hS (enable_eq s ks false hany)
        simpa using this
      have hfr : LabelsInFrame (enableReg s ks) g := hS1.labelsInFrame hg1
      have h2 : RpPx ((enableReg s ks).rpCompute ks) := by
        intro g' hg' k hk r' hr' hpx
        obtain ⟨f1, -, -⟩ := rpCompute_frame (enableReg s ks) ks
        rw [f1, hg1] at hg'; cases hg'
        have hk1 : k ∈ (enableReg s ks).rpActive := by
          rw [← rpActive_of_cfg (cfg_rpCompute (enableReg s ks) ks)]; exact hk
        by_cases hks : k ∈ ks
        · exact rpCompute_current (enableReg s ks) ks g hg1 (hS1.wf hg1) hS1.id_ne_zero hfr k hks hk1 r' hr' hpx
        · obtain ⟨r, hr, hid, htm, hkeep⟩ := rpCompute_keep (enableReg s ks) ks g hg1 r' hr'
          rw [hkeep k (Or.inl hks)]
          have hka : k ∈ s.rpActive := by
            rcases mem_enableReg_rpActive.1 hk1 with hka | ⟨hc, -, -⟩
            · exact hka
            · exact absurd hc hks
          rw [← hid, ← htm] at hpx ⊢
          exact hR g hg k hka r hr hpx
      unfold enableRecompute
      simp only
      generalize (enableReg s ks).rpCompute ks = s2 at h2 ⊢
      have h3 : ∀ b : Bool, RpPx (if b = true then s2.iouCompute else s2) := by
        intro b; cases b
        · exact h2
        · exact rpPx_congr (foldl_iouUpdateEdge_seg _ _) (foldl_iouUpdateEdge_nodes _ _)
            (foldl_iouUpdateEdge_rpActive _ _) h2
      have h3' := h3 (match (enableReg s ks).iouKey with | some k => ks.contains k | none => false)
      generalize (if (match (enableReg s ks).iouKey with | some k => ks.contains k | none => false) = true
        then s2.iouCompute else s2) = s3 at h3' ⊢
      have h4 : RpPx (if ks.contains keyTid = true then s3.assignTracklets else s3) := by
        split
        · exact (Fr.assignTracklets _).rpPx h3'
        · exact h3'
      generalize (if ks.contains keyTid = true then s3.assignTracklets else s3) = s4 at h4 ⊢
      split
      · exact (Fr.assignLineages _).rpPx h4
      · exact h4

theorem px_disable {s s' : St} {ks : List Key} (hR : RpPx s) (h : s.disable ks = some s') : RpPx s' := by
  unfold St.disable at h
  split at h
  · cases h
  · injection h with h
    subst h
    intro g hg k hk r hr
    exact hR g hg k (List.mem_filter.1 hk).1 r hr

theorem closedPx : Closed (fun s => Str s ∧ RpPx s) PrimPre EnPre8px (fun _ _ => True) where
  prim := fun hJ hp h => ⟨⟨(str_prim hJ.1 hp h).1, px_prim hJ.1 hJ.2 hp h⟩, (str_prim hJ.1 hp h).2⟩
  enable := fun hJ hp h => ⟨str_enable hJ.1 h, px_enable hJ.1 hJ.2 hp h⟩
  disable := fun hJ _ h => ⟨str_disable hJ.1 h, px_disable hJ.2 h⟩

end Ft.R6P
