/-
  C09 (round 6, package R6P) — edge IoU on ARBITRARY graphs, over the primitive protocol.

  "Whenever the IoU edge feature is enabled, every edge's stored value equals |A and B| / |A or B|
   of its two endpoints' current masks, each taken in its own time frame - also for edges that
   skip frames.  The value is the same whether it was produced by bulk computation or by
   incremental updates."

  Same command language, run function, invariant `InvP` and primitive preconditions `PrimPre` as
  `Props/C08_R6P.lean`; NO forest hypothesis: several edges into one node (merges, also from one
  source frame), any out-degree, edges between non-consecutive frames, backward edges, self loops
  and cycles are all allowed.  `IouOK` = "active IoU key ⇒ every edge record stores `iouOf`"
  (`C09_value`: the exact overlap counts of the two masks, each read in its node's own frame).

  * `C09_prim_reach`           FULL: `InvP ∧ IouOK` at every state reached by an admissible list
                               (`Adm9`: `PrimPre`, and `enable ks false` does not switch the IoU on).
                               Incremental path (AddEdge, UpdateNodeSeg on all incident edges) and bulk
                               path (`enable [iou] true` after the feature was off while masks changed).
  * `C09_prim_reach_measOK`    both clauses together: `InvP ∧ MeasOK` under `Adm`.
  * `C09_prim_reach_faithful`  at every reached state the code paths AS WRITTEN (`IouFaithful.lean`:
                               frame-pair grouping with edge-list removal, masked incremental update)
                               coincide with the per-edge model — the run-both check of
                               `PrimDrv.step` cannot report `bad-model` on an admissible run.
  * `C09_prim_frozen`          FULL, no invariant: a key that is not the active IoU key is not
                               written on any surviving edge, along any command list that does not
                               `enable` it and does not carry it explicitly on an EXISTING edge.
  * `C09_prim_enable_norecompute_breaks`  witness for the `enable` precondition.
  Nothing false of the model was found for C09.
-/
import FtProofs.R6PReachLemmas
import FtProofs.Props.C09_R5F
open Ft Ft.St Ft.R2G Ft.R5B Ft.R6P List

/-- **C09 over the primitive protocol, any graph.**  From a state with `InvP` and current IoU
    values, every state reached by an admissible command list satisfies `InvP` and `IouOK`. -/
theorem C09_prim_reach (s : St) (last : Option PrimRec) (cs : List Cmd)
    (hI : InvP s) (hO : IouOK s) (hA : Adm9 false (s, last) cs) (n : Nat) :
    InvP (runs (s, last) (cs.take n)).1 ∧ IouOK (runs (s, last) (cs.take n)).1 := by
  have hA' : Adm9 false (s, last) (cs.take n) :=
    AdmG.prefix (cs.take n) (cs.drop n) false (s, last) (by rw [List.take_append_drop]; exact hA)
  have := closedIou.reach (cs.take n) false (s, last) ⟨(invP_iff_str s).1 hI, hO⟩
    (fun h => by cases h) hA'
  exact ⟨(invP_iff_str _).2 this.1, this.2⟩

/-- `exCmds`: the grow step updates both in-edges of node 5 — the division edge (3,5) and the skip
    edge (2,5); the stale attribute of the new skip edge (1,4) is overwritten; while the IoU is off
    the shrink leaves the values stale; `enable … true` recomputes all seven edges in bulk.
    `exCmds2`: deleting the hub 3 removes four edges, its inverse does not bring them back. -/
example : InvP exP ∧ IouOK exP ∧ Adm9 false (exP, none) exCmds2 ∧
    (runs (exP, none) (exCmds.take 2)).1.edges.map (fun r => (r.e, alook 11 r.attrs)) =
      [((1, 3), some (.iou 2 3)), ((2, 3), some (.iou 1 3)), ((3, 4), some (.iou 2 3)),
       ((3, 5), some (.iou 1 4)), ((2, 5), some (.iou 1 2)), ((4, 6), some (.iou 2 2)),
       ((1, 4), some (.iou 2 2))] ∧
    (runs (exP, none) (exCmds.take 4)).1.edges.map (fun r => (r.e, alook 11 r.attrs)) =
      [((1, 3), some (.iou 2 3)), ((2, 3), some (.iou 1 3)), ((3, 4), some (.iou 2 3)),
       ((3, 5), some (.iou 1 4)), ((2, 5), some (.iou 1 2)), ((4, 6), some (.iou 2 2)),
       ((1, 4), some (.iou 2 2))] ∧
    (runs (exP, none) exCmds).1.edges.map (fun r => (r.e, alook 11 r.attrs)) =
      [((1, 3), some (.iou 2 3)), ((2, 3), some (.iou 1 3)), ((3, 4), some (.iou 2 3)),
       ((3, 5), some .zero), ((2, 5), some .zero), ((4, 6), some (.iou 2 2)), ((1, 4), some (.iou 2 2))] ∧
    (runs (exP, none) exCmds2).1.edges.map (fun r => (r.e, alook 11 r.attrs)) =
      [((2, 5), some .zero), ((4, 6), some (.iou 2 2)), ((1, 4), some (.iou 2 2))] :=
  ⟨exP_invP, exP_iouOK, by decide, by decide, by decide, by decide, by decide⟩
/-- a graph with a cycle (backward edge (6,1)) and a self loop (3,3): growing node 3 rewrites its two
    in-edges, its self loop (once as in-edge, once as out-edge) and its two out-edges -/
example : InvP exPcyc ∧ IouOK exPcyc ∧
    Adm9 false (exPcyc, none) [.prim (.updSeg 3 [7] true), .prim (.updSeg 1 [0] false), .inv] ∧
    (runs (exPcyc, none) [.prim (.updSeg 3 [7] true)]).1.edges.map (fun r => (r.e, alook 11 r.attrs)) =
      [((1, 3), some (.iou 2 4)), ((2, 3), some (.iou 1 4)), ((3, 4), some (.iou 2 4)),
       ((3, 5), some (.iou 1 4)), ((2, 5), some (.iou 1 1)), ((4, 6), some (.iou 2 2)),
       ((6, 1), some (.iou 2 2)), ((3, 3), some (.iou 4 4))] :=
  ⟨exPcyc_invP, exPcyc_iouOK, by decide, by decide⟩
example : IouOK (runs (exP, none) exCmds2).1 :=
  (C09_prim_reach exP none exCmds2 exP_invP exP_iouOK (by decide) exCmds2.length).2
#print axioms C09_prim_reach

/-- Both measurement clauses together (`MeasOK` of `SessionSpec.lean`). -/
theorem C09_prim_reach_measOK (s : St) (last : Option PrimRec) (cs : List Cmd)
    (hI : InvP s) (hM : MeasOK s) (hA : Adm false (s, last) cs) (n : Nat) :
    InvP (runs (s, last) (cs.take n)).1 ∧ MeasOK (runs (s, last) (cs.take n)).1 := by
  have hA' : Adm false (s, last) (cs.take n) :=
    AdmG.prefix (cs.take n) (cs.drop n) false (s, last) (by rw [List.take_append_drop]; exact hA)
  have hm := (measOK_iff_sg s).1 hM
  have := closedMeas.reach (cs.take n) false (s, last) ⟨(invP_iff_str s).1 hI, hm.1, hm.2⟩
    (fun h => by cases h) hA'
  exact ⟨(invP_iff_str _).2 this.1, (measOK_iff_sg _).2 this.2⟩

example : InvP exP ∧ MeasOK exP ∧ Adm false (exP, none) exCmds2 :=
  ⟨exP_invP, (measOK_iff_sg _).2 ⟨exP_rpOK, exP_iouOK⟩, by decide⟩
#print axioms C09_prim_reach_measOK

/-- **The code paths as written agree with the per-edge model along the whole run.**  At every
    state reached by a list that is admissible for the primitives (no condition on `enable`), the
    faithful bulk computation (`edges_by_frames` grouping, `_compute_ious` per frame pair,
    `edges.remove`, leftovers ↦ 0) equals `iouCompute`, and the faithful incremental update of every
    edge / of all edges incident to any node equals `iouUpdateEdge` / `iouUpdateNode`
    (`C09_faithful_bulk_eq`, `C09_faithful_incr_node_eq` apply because `InvP` is an invariant). -/
theorem C09_prim_reach_faithful (s : St) (last : Option PrimRec) (cs : List Cmd) (hI : InvP s)
    (hA : AdmG PrimPre (fun _ _ _ => True) (fun _ _ => True) false (s, last) cs) :
    let s' := (runs (s, last) cs).1
    s'.iouComputeFaithful = s'.iouCompute ∧
    (∀ n, s'.iouUpdateNodeFaithful n = s'.iouUpdateNode n) ∧
    (∀ e ∈ s'.edgeList, s'.iouUpdateIncrFaithful e = s'.iouUpdateEdge e) := by
  have hS := closedStr.reach cs false (s, last) ((invP_iff_str s).1 hI) (fun h => by cases h) hA
  have hI' := (invP_iff_str _).2 hS
  refine ⟨C09_faithful_bulk_eq _ hI'.nodup hI'.enodup hI'.ends hI'.nz,
    fun n => C09_faithful_incr_node_eq _ n hI'.ends hI'.nz, fun e he => ?_⟩
  exact Ft.R5F.iouUpdateIncrFaithful_eq _ e
    ⟨Ft.R5F.timeOf_isSome_of_mem_ids (hI'.ends e he).1, Ft.R5F.timeOf_isSome_of_mem_ids (hI'.ends e he).2⟩
    ⟨Ft.R5F.ne_zero_of_mem_ids hI'.nz (hI'.ends e he).1, Ft.R5F.ne_zero_of_mem_ids hI'.nz (hI'.ends e he).2⟩

example : AdmG PrimPre (fun _ _ _ => True) (fun _ _ => True) false (exP, none) exCmds2 ∧
    (runs (exP, none) exCmds).1.iouComputeFaithful.edges = (runs (exP, none) exCmds).1.edges := by
  decide
#print axioms C09_prim_reach_faithful

/-- **A key that is not the active IoU key is not written on edges.**  ANY start state, any command
    list in which no `enable` names `k` when `k` is the IoU key and no AddEdge on an EXISTING edge
    carries `k` explicitly (`FzEPre`; an `inv` whose record is not fresh: the same for the inverse
    command): `k` does not become the active IoU key and the column `ecol k` (edge ↦ stored value
    of `k`) of the reached state is the old column with the entries of some edges dropped (deleted
    edges, edges of deleted nodes), every other entry unchanged and in place, followed by entries of
    edges that are not among the survivors. -/
theorem C09_prim_frozen (k : Key) (s : St) (last : Option PrimRec) (cs : List Cmd)
    (hoff : IouOff k s)
    (hA : AdmG (FzEPre k) (fun s ks _ => s.iouKey = some k → k ∉ ks) (fun _ _ => True) false (s, last) cs) :
    IouOff k (runs (s, last) cs).1 ∧
    ∃ dels extra, ecol k (runs (s, last) cs).1 = dropE (ecol k s) dels ++ extra ∧
      (∀ p ∈ extra, p.1 ∉ (dropE (ecol k s) dels).map (·.1)) ∧
      (∀ p ∈ ecol k s, p.1 ∉ dels → p ∈ ecol k (runs (s, last) cs).1) := by
  have := (closedFzE k (ecol k s)).reach cs false (s, last) ⟨hoff, FrzE.refl _⟩ (fun h => by cases h) hA
  obtain ⟨h1, dels, extra, he, hf⟩ := this
  refine ⟨h1, dels, extra, he, hf, fun p hp hd => ?_⟩
  rw [he]
  apply List.mem_append_left
  unfold dropE
  rw [List.mem_filter]
  exact ⟨hp, by simpa using hd⟩

namespace Ft.R6P
/-- on `exPoff` (area and IoU off): shrink node 5 to nothing — no edge is rewritten; add the NEW
    skip edge (1,4) with an explicit value of key 11; delete the hub 3 (four edges go) and invert
    that (the edges stay away); AddEdge (2,3) anew and invert it; switch the area on -/
def exCmdsFE : List Cmd :=
  [.prim (.updSeg 5 [10] false), .prim (.addEdge (1, 4) [(11, .iou 9 9)]), .prim (.delNode 3 none), .inv,
   .prim (.addEdge (2, 3) []), .inv, .enable [10] true]
end Ft.R6P

example : IouOff 11 exPoff ∧
    AdmG (FzEPre 11) (fun s ks _ => s.iouKey = some 11 → 11 ∉ ks) (fun _ _ => True) false (exPoff, none) exCmdsFE ∧
    ecol 11 exPoff = [((1, 3), some (.iou 2 3)), ((2, 3), some (.iou 1 3)), ((3, 4), some (.iou 2 3)),
       ((3, 5), some (.iou 1 3)), ((2, 5), some (.iou 1 1)), ((4, 6), some (.iou 2 2))] ∧
    ecol 11 (runs (exPoff, none) exCmdsFE).1 =
      [((2, 5), some (.iou 1 1)), ((4, 6), some (.iou 2 2)), ((1, 4), some (.iou 9 9))] ∧
    (runs (exPoff, none) exCmdsFE).1.iouOf (2, 5) = .zero := by
  decide
#print axioms C09_prim_frozen

/-- WITNESS: `enable [iou] false` (no recomputation) after the masks changed while the feature was
    off leaves stale values behind — the precondition `EnPre9`. -/
theorem C09_prim_enable_norecompute_breaks :
    let cs : List Cmd := [.disable [11], .prim (.updSeg 5 [10] false), .enable [11] false]
    let s' := (runs (exP, none) cs).1
    (List.range 3).all (fun i => accepted (runs (exP, none) (cs.take i)) (cs.getD i .inv)) = true ∧
    PrimPre (runs (exP, none) (cs.take 1)).1 (.updSeg 5 [10] false) ∧
    ¬ EnPre9 (runs (exP, none) (cs.take 2)).1 [11] false ∧
    s'.iouActive = true ∧ s'.iouKey = some 11 ∧
    s'.edges.map (fun r => (r.e, alook 11 r.attrs, s'.iouOf r.e)) =
      [((1, 3), some (.iou 2 3), .iou 2 3), ((2, 3), some (.iou 1 3), .iou 1 3), ((3, 4), some (.iou 2 3), .iou 2 3),
       ((3, 5), some (.iou 1 3), .zero), ((2, 5), some (.iou 1 1), .zero), ((4, 6), some (.iou 2 2), .iou 2 2)] := by
  decide
#print axioms C09_prim_enable_norecompute_breaks
